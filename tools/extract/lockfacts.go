// lockfacts: static lock-discipline facts (LockFacts.lean) for package girc.
//
// A path-sensitive walk of every function tracks the multiset of held locks, records accesses to
// lock-guarded resources, lock acquisitions and blocking / user-code operations, and propagates
// them through interprocedural summaries to a fixpoint. No go/types: types are resolved
// best-effort from the AST (struct declarations, signatures, local definitions). Anything that
// touches a lock and cannot be classified is reported as an `inconsistent` fact (fail-closed).
package main

import (
	"bytes"
	"fmt"
	"go/ast"
	"go/printer"
	"go/token"
	"os"
	"path/filepath"
	"sort"
	"strings"
)

// ---------- configuration: which fields are guarded by which lock ----------

// guardedField maps "Type.field" to a resource name. Every field of `state` is resource "state".
var lfGuardedField = map[string]string{
	"Client.conn":        "Client.conn",
	"Client.stop":        "Client.stop",
	"ircConn.lastWrite":  "ircConn.timing",
	"ircConn.lastActive": "ircConn.timing",
	"ircConn.writeDelay": "ircConn.timing",
	"ircConn.lastPing":   "ircConn.timing",
	"ircConn.lastPong":   "ircConn.timing",
	"ircConn.connected":  "ircConn.timing",
	"ircConn.connTime":   "ircConn.timing",
	"Caller.external":    "Caller.tables",
	"Caller.internal":    "Caller.tables",
	"CTCP.handlers":      "CTCP.handlers",
	"UserPerms.channels": "UserPerms.channels",
}

// lfResourceGuard maps a resource to the lock guarding it.
var lfResourceGuard = map[string]string{
	"state":              "state",
	"Client.conn":        "Client.mu",
	"Client.stop":        "Client.mu",
	"ircConn.timing":     "ircConn.mu",
	"Caller.tables":      "Caller.mu",
	"CTCP.handlers":      "CTCP.mu",
	"UserPerms.channels": "UserPerms.mu",
}

// the type whose every field is a guarded resource (guarded by its embedded mutex)
const lfStateType = "state"

// callee names that store their func arguments as handlers (run later, with no lock held)
var lfStoreNames = map[string]bool{"register": true, "sregister": true, "Add": true, "AddBg": true, "AddTmp": true,
	"AddHandler": true, "Set": true, "SetBg": true, "HandlerFunc": true, "CTCPHandler": true, "AfterFunc": true}

// callee names that start their func argument on a new goroutine
var lfSpawnNames = map[string]bool{"Go": true}

var lfAlwaysRoots = map[string]bool{"Client.execLoop": true, "Client.readLoop": true, "Client.sendLoop": true,
	"Client.pingLoop": true, "Client.internalConnect": true, "init": true}

// ---------- data ----------

type lfLock struct {
	name string
	excl bool
}

func (l lfLock) String() string {
	if l.excl {
		return l.name + "(X)"
	}
	return l.name + "(S)"
}

type lfChain struct {
	fns  []string
	what string
}

func (c lfChain) String() string {
	if c.what == "" {
		return strings.Join(c.fns, "→")
	}
	return strings.Join(c.fns, "→") + ": " + c.what
}

// less: shorter chains first, then lexicographic.
func (c lfChain) less(d lfChain) bool {
	if len(c.fns) != len(d.fns) {
		return len(c.fns) < len(d.fns)
	}
	return c.String() < d.String()
}

func (c lfChain) prepend(fn string) lfChain {
	// keep chains short and the fixpoint finite: stop extending through recursion
	fns := append([]string{fn}, c.fns...)
	return lfChain{fns: fns, what: c.what}
}

type lfNeedKey struct {
	res   string
	write bool
}

type lfFn struct {
	key      string // "Recv.Name", "Name", or "<encl>$goN" / "<encl>$litN"
	name     string
	recvName string // receiver identifier
	recvType string // receiver base type name
	recvPtr  bool
	ftype    *ast.FuncType
	body     *ast.BlockStmt
	file     string
	exported bool
	parent   *lfFn    // for literals
	capture  *lfScope // environment captured by a literal
	isRoot   bool
	lit      *ast.FuncLit

	// summaries
	needs      map[lfNeedKey]lfChain
	acquires   map[lfLock]lfChain
	blocks     map[string]lfChain
	writesRecv bool
	retRooted  bool     // some return value is rooted in the receiver (e.g. lookupUser)
	spawns     []string // functions / literals started on goroutines by this function
}

type lfBinding struct {
	t     ast.Expr
	owned bool // state-owned object (guarded by the state lock)
	fresh bool // freshly allocated, not yet shared
	fn    *lfFn
	ext   string // value of an imported package (e.g. the result of time.Now()): its methods are not ours
}

type lfScope struct {
	vars   map[string]*lfBinding
	parent *lfScope
}

func (s *lfScope) lookup(n string) *lfBinding {
	for ; s != nil; s = s.parent {
		if b, ok := s.vars[n]; ok {
			return b
		}
	}
	return nil
}

type lfVal struct {
	t      ast.Expr
	owned  bool
	fresh  bool
	rooted bool // rooted in the (pointer) receiver of the current method
	fn     *lfFn
	pkg    string // identifier naming an imported package
	ext    string // "pkg.Name": function or value of an imported package
	// fieldOf is "Type.field" when the value was read from a struct field (used to name locks)
	fieldOf string
	local   bool          // a local variable
	ft      *ast.FuncType // signature of the called function (multi-value results)
}

type lfAnalysis struct {
	p        *pkgFiles
	types    map[string]*ast.TypeSpec
	funcs    map[string]*lfFn
	byName   map[string][]*lfFn // methods by name
	pkgVars  map[string]ast.Expr
	imports  map[string]bool
	order    []string // deterministic function order
	litCount map[string]int
	litFns   map[*ast.FuncLit]*lfFn

	emit    bool
	changed bool

	edges        map[[2]lfLock]string
	edgeHolders  map[[3]string]bool // (held lock, acquired lock, the function that holds the first while the second is taken)
	callouts     map[[4]string]bool
	inconsistent map[[2]string]bool
	lockSites    map[string]int
	reads        map[string]int
	writes       map[string]int
	unresolved   map[string]bool
	handlerRoots map[string]bool
}

// ---------- package index ----------

func lfRecv(fd *ast.FuncDecl) (name, typ string, ptr bool) {
	if fd.Recv == nil || len(fd.Recv.List) == 0 {
		return "", "", false
	}
	f := fd.Recv.List[0]
	if len(f.Names) > 0 {
		name = f.Names[0].Name
	}
	t := f.Type
	if st, ok := t.(*ast.StarExpr); ok {
		t = st.X
		ptr = true
	}
	if id, ok := t.(*ast.Ident); ok {
		typ = id.Name
	}
	return
}

func newLockAnalysis(p *pkgFiles) *lfAnalysis {
	a := &lfAnalysis{p: p, types: map[string]*ast.TypeSpec{}, funcs: map[string]*lfFn{}, byName: map[string][]*lfFn{},
		pkgVars: map[string]ast.Expr{}, imports: map[string]bool{}, litCount: map[string]int{}, litFns: map[*ast.FuncLit]*lfFn{},
		edges: map[[2]lfLock]string{}, edgeHolders: map[[3]string]bool{}, callouts: map[[4]string]bool{}, inconsistent: map[[2]string]bool{},
		lockSites: map[string]int{}, reads: map[string]int{}, writes: map[string]int{}, unresolved: map[string]bool{},
		handlerRoots: map[string]bool{}}
	var names []string
	for n := range p.files {
		names = append(names, n)
	}
	sort.Strings(names)
	for _, n := range names {
		f := p.files[n]
		for _, im := range f.Imports {
			path := strings.Trim(im.Path.Value, "\"")
			nm := filepath.Base(path)
			if im.Name != nil {
				nm = im.Name.Name
			}
			a.imports[nm] = true
		}
		for _, d := range f.Decls {
			switch d := d.(type) {
			case *ast.GenDecl:
				for _, sp := range d.Specs {
					switch sp := sp.(type) {
					case *ast.TypeSpec:
						a.types[sp.Name.Name] = sp
					case *ast.ValueSpec:
						for i, nm := range sp.Names {
							var t ast.Expr
							if sp.Type != nil {
								t = sp.Type
							} else if i < len(sp.Values) {
								if cl, ok := sp.Values[i].(*ast.CompositeLit); ok {
									t = cl.Type
								}
							}
							a.pkgVars[nm.Name] = t
						}
					}
				}
			case *ast.FuncDecl:
				if d.Body == nil {
					continue
				}
				rn, rt, rp := lfRecv(d)
				key := d.Name.Name
				if rt != "" {
					key = rt + "." + d.Name.Name
				}
				fn := &lfFn{key: key, name: d.Name.Name, recvName: rn, recvType: rt, recvPtr: rp, ftype: d.Type, body: d.Body, file: n,
					needs: map[lfNeedKey]lfChain{}, acquires: map[lfLock]lfChain{}, blocks: map[string]lfChain{}}
				fn.exported = ast.IsExported(d.Name.Name) && (rt == "" || ast.IsExported(rt))
				if _, dup := a.funcs[key]; dup {
					key = key + "#" + n // e.g. several init functions
					fn.key = key
				}
				a.funcs[key] = fn
				a.order = append(a.order, key)
				if rt != "" {
					a.byName[d.Name.Name] = append(a.byName[d.Name.Name], fn)
				}
			}
		}
	}
	sort.Strings(a.order)
	return a
}

// ---------- type helpers (AST type expressions) ----------

func lfStrip(t ast.Expr) ast.Expr {
	for {
		switch v := t.(type) {
		case *ast.StarExpr:
			t = v.X
		case *ast.ParenExpr:
			t = v.X
		default:
			return t
		}
	}
}

func lfTypeStr(t ast.Expr) string {
	if t == nil {
		return "?"
	}
	var b bytes.Buffer
	_ = printer.Fprint(&b, token.NewFileSet(), t)
	return b.String()
}

// named returns the package-declared type name of t (pointers stripped), or "".
func (a *lfAnalysis) named(t ast.Expr) string {
	if t == nil {
		return ""
	}
	if id, ok := lfStrip(t).(*ast.Ident); ok {
		if _, ok := a.types[id.Name]; ok {
			return id.Name
		}
	}
	return ""
}

// external returns "pkg.Name" when t is a type of an imported package.
func (a *lfAnalysis) external(t ast.Expr) string {
	if t == nil {
		return ""
	}
	if se, ok := lfStrip(t).(*ast.SelectorExpr); ok {
		if id, ok := se.X.(*ast.Ident); ok {
			return id.Name + "." + se.Sel.Name
		}
	}
	return ""
}

// under resolves named package types to their declared underlying type expression.
func (a *lfAnalysis) under(t ast.Expr) ast.Expr {
	for i := 0; i < 10 && t != nil; i++ {
		s := lfStrip(t)
		id, ok := s.(*ast.Ident)
		if !ok {
			return s
		}
		ts, ok := a.types[id.Name]
		if !ok {
			return s
		}
		t = ts.Type
	}
	return t
}

func (a *lfAnalysis) isFuncType(t ast.Expr) bool {
	_, ok := a.under(t).(*ast.FuncType)
	return ok
}

func (a *lfAnalysis) isIface(t ast.Expr) bool {
	_, ok := a.under(t).(*ast.InterfaceType)
	return ok
}

// refLike: values of this type share storage with what they were read from.
func (a *lfAnalysis) refLike(t ast.Expr) bool {
	if t == nil {
		return false
	}
	switch v := t.(type) {
	case *ast.ParenExpr:
		return a.refLike(v.X)
	case *ast.StarExpr:
		return a.external(v) == "" || true
	case *ast.MapType:
		return true
	case *ast.ArrayType:
		return v.Len == nil
	}
	return false
}

// structLike: an addressable sub-object (struct value) of a package type or an anonymous struct.
func (a *lfAnalysis) structLike(t ast.Expr) bool {
	if t == nil {
		return false
	}
	if _, ok := t.(*ast.StarExpr); ok {
		return false
	}
	_, ok := a.under(t).(*ast.StructType)
	return ok
}

func isMutexType(t ast.Expr) bool {
	if se, ok := t.(*ast.SelectorExpr); ok {
		if id, ok := se.X.(*ast.Ident); ok && id.Name == "sync" && (se.Sel.Name == "RWMutex" || se.Sel.Name == "Mutex") {
			return true
		}
	}
	return false
}

type lfSel struct {
	kind  string // "field", "method", "iface", "mutex" (promoted mutex method), ""
	t     ast.Expr
	fn    *lfFn
	owner string // struct type name owning the field
}

// lookupSel finds field or method `sel` of type t.
func (a *lfAnalysis) lookupSel(t ast.Expr, sel string, depth int) lfSel {
	if t == nil || depth > 4 {
		return lfSel{}
	}
	nm := a.named(t)
	if nm != "" {
		if fn, ok := a.funcs[nm+"."+sel]; ok {
			return lfSel{kind: "method", fn: fn, owner: nm}
		}
	}
	u := a.under(t)
	switch u := u.(type) {
	case *ast.StructType:
		for _, f := range u.Fields.List {
			for _, n := range f.Names {
				if n.Name == sel {
					return lfSel{kind: "field", t: f.Type, owner: nm}
				}
			}
		}
		for _, f := range u.Fields.List {
			if len(f.Names) != 0 {
				continue
			}
			base := lfStrip(f.Type)
			bn := ""
			switch b := base.(type) {
			case *ast.Ident:
				bn = b.Name
			case *ast.SelectorExpr:
				bn = b.Sel.Name
			}
			if bn == sel {
				return lfSel{kind: "field", t: f.Type, owner: nm}
			}
			if isMutexType(base) {
				switch sel {
				case "Lock", "Unlock", "RLock", "RUnlock", "TryLock", "TryRLock", "RLocker":
					return lfSel{kind: "mutex", owner: nm}
				}
				continue
			}
			if r := a.lookupSel(f.Type, sel, depth+1); r.kind != "" {
				return r
			}
		}
	case *ast.InterfaceType:
		for _, m := range u.Methods.List {
			for _, n := range m.Names {
				if n.Name == sel {
					return lfSel{kind: "iface", t: m.Type, owner: nm}
				}
			}
			if len(m.Names) == 0 {
				if r := a.lookupSel(m.Type, sel, depth+1); r.kind != "" {
					return r
				}
			}
		}
	}
	return lfSel{}
}

func lfResultType(ft *ast.FuncType, i int) ast.Expr {
	if ft == nil || ft.Results == nil {
		return nil
	}
	k := 0
	for _, f := range ft.Results.List {
		n := len(f.Names)
		if n == 0 {
			n = 1
		}
		if i < k+n {
			return f.Type
		}
		k += n
	}
	return nil
}

func lfNumResults(ft *ast.FuncType) int {
	if ft == nil || ft.Results == nil {
		return 0
	}
	k := 0
	for _, f := range ft.Results.List {
		n := len(f.Names)
		if n == 0 {
			n = 1
		}
		k += n
	}
	return k
}

func (a *lfAnalysis) pos(n ast.Node) string {
	p := a.p.fset.Position(n.Pos())
	return fmt.Sprintf("%s:%d", filepath.Base(p.Filename), p.Line)
}

func (a *lfAnalysis) exprStr(e ast.Node) string {
	var b bytes.Buffer
	_ = printer.Fprint(&b, a.p.fset, e)
	s := strings.Join(strings.Fields(b.String()), " ")
	if len(s) > 60 {
		s = s[:57] + "..."
	}
	return s
}

// ---------- walker state ----------

type lfDefer struct {
	kind string // "unlock", "call", "lit"
	lock lfLock
	call *ast.CallExpr
	lit  *ast.FuncLit
	node ast.Node
}

type lfState struct {
	held   []lfLock // sorted multiset
	defers []lfDefer
	dead   bool
}

func (s lfState) clone() lfState {
	return lfState{held: append([]lfLock(nil), s.held...), defers: append([]lfDefer(nil), s.defers...), dead: s.dead}
}

func lfSortHeld(h []lfLock) {
	sort.Slice(h, func(i, j int) bool {
		if h[i].name != h[j].name {
			return h[i].name < h[j].name
		}
		return !h[i].excl && h[j].excl
	})
}

func lfHeldStr(h []lfLock) string {
	var s []string
	for _, l := range h {
		s = append(s, l.String())
	}
	return "{" + strings.Join(s, ", ") + "}"
}

func lfHeldEq(a, b []lfLock) bool {
	if len(a) != len(b) {
		return false
	}
	for i := range a {
		if a[i] != b[i] {
			return false
		}
	}
	return true
}

func lfHeldMeet(a, b []lfLock) []lfLock {
	var out []lfLock
	used := make([]bool, len(b))
	for _, x := range a {
		for j, y := range b {
			if !used[j] && x == y {
				used[j] = true
				out = append(out, x)
				break
			}
		}
	}
	return out
}

type lfCtx struct {
	kind   string // "loop", "switch", "select"
	label  string
	breaks []lfState
	conts  []lfState
}

type lfFrame struct {
	inline  bool
	rets    []lfState
	labels  map[string][]lfLock
	pending map[string][]lfState
	ctxBase int
}

type lfWalker struct {
	a     *lfAnalysis
	fn    *lfFn
	scope *lfScope
	ctxs  []*lfCtx
	frame *lfFrame
	mute  int
	quiet int // >0: channel operations of a select with a default clause do not block
	// pending label for the next loop/switch/select statement
	nextLabel string
	recvBind  *lfBinding
}

func (w *lfWalker) push() { w.scope = &lfScope{vars: map[string]*lfBinding{}, parent: w.scope} }
func (w *lfWalker) pop()  { w.scope = w.scope.parent }

func (w *lfWalker) define(name string, b *lfBinding) {
	if name == "_" || name == "" {
		return
	}
	w.scope.vars[name] = b
}

// ---------- facts ----------

func (w *lfWalker) incons(n ast.Node, f string, args ...interface{}) {
	if !w.a.emit {
		return
	}
	d := fmt.Sprintf(f, args...)
	if n != nil {
		d += " (" + w.a.pos(n) + ")"
	}
	w.a.inconsistent[[2]string{w.fn.key, d}] = true
}

func (a *lfAnalysis) edge(h, l lfLock, wit string) {
	if !a.emit {
		return
	}
	k := [2]lfLock{h, l}
	if old, ok := a.edges[k]; !ok || wit < old {
		a.edges[k] = wit
	}
	holder := wit
	if i := strings.Index(wit, "\u2192"); i >= 0 {
		holder = wit[:i]
	}
	a.edgeHolders[[3]string{h.name, l.name, holder}] = true
}

func (a *lfAnalysis) callout(fn, kind string, h lfLock) {
	if !a.emit {
		return
	}
	a.callouts[[4]string{fn, kind, h.name, fmt.Sprint(h.excl)}] = true
}

func (a *lfAnalysis) addNeed(fn *lfFn, k lfNeedKey, c lfChain) {
	if old, ok := fn.needs[k]; !ok || c.less(old) {
		fn.needs[k] = c
		a.changed = true
	}
}

func (a *lfAnalysis) addAcquire(fn *lfFn, l lfLock, c lfChain) {
	if old, ok := fn.acquires[l]; !ok || c.less(old) {
		fn.acquires[l] = c
		a.changed = true
	}
}

func (a *lfAnalysis) addBlock(fn *lfFn, kind string, c lfChain) {
	if old, ok := fn.blocks[kind]; !ok || c.less(old) {
		fn.blocks[kind] = c
		a.changed = true
	}
}

func lfCovered(held []lfLock, guard string, write bool) bool {
	for _, h := range held {
		if h.name == guard && (h.excl || !write) {
			return true
		}
	}
	return false
}

// access records a read/write of a guarded resource at node n.
func (w *lfWalker) access(st *lfState, res string, write bool, n ast.Node) {
	if st.dead || w.mute > 0 || res == "" {
		return
	}
	if w.a.emit {
		if write {
			w.a.writes[res]++
		} else {
			w.a.reads[res]++
		}
	}
	if !lfCovered(st.held, lfResourceGuard[res], write) {
		w.a.addNeed(w.fn, lfNeedKey{res, write}, lfChain{fns: []string{w.fn.key}, what: w.a.exprStr(n)})
	}
}

// block records a direct blocking / user-code operation.
func (w *lfWalker) block(st *lfState, kind string, n ast.Node) {
	if st.dead {
		return
	}
	w.a.addBlock(w.fn, kind, lfChain{fns: []string{w.fn.key}})
	for _, h := range st.held {
		w.a.callout(w.fn.key, kind, h)
	}
}

func (w *lfWalker) acquire(st *lfState, l lfLock, n ast.Node) {
	if st.dead {
		return
	}
	if w.a.emit {
		w.a.lockSites[l.name]++
	}
	for _, h := range st.held {
		w.a.edge(h, l, w.fn.key)
	}
	w.a.addAcquire(w.fn, l, lfChain{fns: []string{w.fn.key}})
	st.held = append(st.held, l)
	lfSortHeld(st.held)
}

func (w *lfWalker) release(st *lfState, l lfLock, n ast.Node) {
	if st.dead {
		return
	}
	for i, h := range st.held {
		if h == l {
			st.held = append(st.held[:i:i], st.held[i+1:]...)
			return
		}
	}
	for i, h := range st.held {
		if h.name == l.name {
			w.incons(n, "%s released in the wrong mode (held %s)", l.name, h)
			st.held = append(st.held[:i:i], st.held[i+1:]...)
			return
		}
	}
	w.incons(n, "unlock of %s which is not held (held %s)", l, lfHeldStr(st.held))
}

// applyCall applies the summary of callee g at a call site with the current held set.
func (w *lfWalker) applyCall(st *lfState, g *lfFn, n ast.Node) {
	if st.dead || g == nil {
		return
	}
	for k, c := range g.needs {
		if !lfCovered(st.held, lfResourceGuard[k.res], k.write) {
			if len(c.fns) < 12 {
				w.a.addNeed(w.fn, k, c.prepend(w.fn.key))
			}
		}
	}
	w.applyEffects(st, g)
}

// applyEffects: acquisitions and blocking operations of g happen while st.held is held.
func (w *lfWalker) applyEffects(st *lfState, g *lfFn) {
	for l, c := range g.acquires {
		cc := c.prepend(w.fn.key)
		for _, h := range st.held {
			w.a.edge(h, l, cc.String())
		}
		if len(c.fns) < 12 {
			w.a.addAcquire(w.fn, l, cc)
		}
	}
	for kind, c := range g.blocks {
		for _, h := range st.held {
			w.a.callout(w.fn.key, kind, h)
		}
		if len(c.fns) < 12 {
			w.a.addBlock(w.fn, kind, c.prepend(w.fn.key))
		}
	}
}

// join merges the states of several paths.
func (w *lfWalker) join(n ast.Node, what string, states ...lfState) lfState {
	var live []lfState
	for _, s := range states {
		if !s.dead {
			live = append(live, s)
		}
	}
	if len(live) == 0 {
		return lfState{dead: true}
	}
	out := live[0].clone()
	for _, s := range live[1:] {
		if !lfHeldEq(out.held, s.held) {
			w.incons(n, "held sets disagree at %s: %s vs %s", what, lfHeldStr(out.held), lfHeldStr(s.held))
			out.held = lfHeldMeet(out.held, s.held)
		}
		out.defers = w.mergeDefers(n, out.defers, s.defers)
	}
	return out
}

func (w *lfWalker) mergeDefers(n ast.Node, x, y []lfDefer) []lfDefer {
	i := 0
	for i < len(x) && i < len(y) && x[i].node == y[i].node {
		i++
	}
	if i == len(x) && i == len(y) {
		return x
	}
	out := append([]lfDefer(nil), x...)
	for _, d := range x[i:] {
		if d.kind == "unlock" {
			w.incons(n, "deferred unlock of %s registered on only some paths", d.lock)
		}
	}
	for _, d := range y[i:] {
		if d.kind == "unlock" {
			w.incons(n, "deferred unlock of %s registered on only some paths", d.lock)
		}
		out = append(out, d)
	}
	return out
}

// ---------- expressions ----------

func lfUnparen(e ast.Expr) ast.Expr {
	for {
		p, ok := e.(*ast.ParenExpr)
		if !ok {
			return e
		}
		e = p.X
	}
}

var lfBuiltins = map[string]bool{"len": true, "cap": true, "append": true, "make": true, "new": true, "delete": true,
	"copy": true, "panic": true, "close": true, "recover": true, "print": true, "println": true, "min": true, "max": true,
	"string": true, "byte": true, "rune": true, "int": true, "int8": true, "int16": true, "int32": true, "int64": true,
	"uint": true, "uint8": true, "uint16": true, "uint32": true, "uint64": true, "uintptr": true, "float32": true,
	"float64": true, "bool": true, "error": true, "complex": true, "real": true, "imag": true, "clear": true}

func (w *lfWalker) keepOwned(t ast.Expr) bool { return w.a.refLike(t) || w.a.structLike(t) }

// child returns (creating on first sight) the function record of a literal analysed as its own root.
func (w *lfWalker) child(lit *ast.FuncLit, kind string) *lfFn {
	a := w.a
	c, ok := a.litFns[lit]
	if !ok {
		a.litCount[w.fn.key+"$"+kind]++
		key := fmt.Sprintf("%s$%s%d", w.fn.key, kind, a.litCount[w.fn.key+"$"+kind])
		c = &lfFn{key: key, name: key, ftype: lit.Type, body: lit.Body, file: w.fn.file, parent: w.fn, isRoot: true, lit: lit,
			needs: map[lfNeedKey]lfChain{}, acquires: map[lfLock]lfChain{}, blocks: map[string]lfChain{}}
		a.litFns[lit] = c
		a.funcs[key] = c
		a.order = append(a.order, key)
		a.changed = true
	}
	c.capture = w.scope
	return c
}

func (w *lfWalker) addSpawn(key string) {
	for _, s := range w.fn.spawns {
		if s == key {
			return
		}
	}
	w.fn.spawns = append(w.fn.spawns, key)
	sort.Strings(w.fn.spawns)
	w.a.changed = true
}

// inlineLit walks a function literal as part of the current path (called immediately / synchronously).
func (w *lfWalker) inlineLit(lit *ast.FuncLit, st *lfState, n ast.Node) {
	if st.dead {
		return
	}
	savedFrame, savedCtxs := w.frame, w.ctxs
	savedDefers := st.defers
	entry := append([]lfLock(nil), st.held...)
	w.frame = &lfFrame{inline: true, labels: map[string][]lfLock{}, pending: map[string][]lfState{}}
	w.ctxs = nil
	w.push()
	w.bindParams(lit.Type)
	in := st.clone()
	in.defers = nil
	out := w.stmts(lit.Body.List, in)
	if !out.dead {
		w.doReturn(out, lit.Body)
	}
	rets := w.frame.rets
	w.pop()
	w.frame, w.ctxs = savedFrame, savedCtxs
	res := w.join(n, "end of inline func literal", rets...)
	if res.dead {
		// the literal never returns normally (panics): keep going with the entry state
		res = lfState{held: entry}
	}
	if !lfHeldEq(res.held, entry) {
		w.incons(n, "inline func literal changes the held set: %s vs %s", lfHeldStr(entry), lfHeldStr(res.held))
	}
	st.held = res.held
	st.defers = savedDefers
}

func (w *lfWalker) bindParams(ft *ast.FuncType) {
	if ft == nil {
		return
	}
	for _, fl := range []*ast.FieldList{ft.Params, ft.Results} {
		if fl == nil {
			continue
		}
		for _, f := range fl.List {
			t := f.Type
			if el, ok := t.(*ast.Ellipsis); ok {
				t = &ast.ArrayType{Elt: el.Elt}
			}
			for _, n := range f.Names {
				w.define(n.Name, &lfBinding{t: t})
			}
		}
	}
}

// selectField handles X.f where f is a field of X's type.
func (w *lfWalker) selectField(vx lfVal, se *ast.SelectorExpr, sel lfSel, st *lfState, wr bool) lfVal {
	name := se.Sel.Name
	if isMutexType(lfStrip(sel.t)) {
		return lfVal{t: sel.t, fieldOf: sel.owner + "." + name, fresh: vx.fresh}
	}
	res := ""
	if sel.owner == lfStateType {
		res = "state"
	} else if r, ok := lfGuardedField[sel.owner+"."+name]; ok {
		res = r
	} else if vx.owned {
		res = "state"
	}
	if !vx.fresh && res != "" {
		w.access(st, res, wr, se)
	}
	if vx.rooted && wr {
		w.setWritesRecv()
	}
	owned := (vx.owned || sel.owner == lfStateType) && !vx.fresh && w.keepOwned(sel.t)
	return lfVal{t: sel.t, owned: owned, fresh: vx.fresh, rooted: vx.rooted, fieldOf: sel.owner + "." + name}
}

func (w *lfWalker) setWritesRecv() {
	if w.mute > 0 {
		return
	}
	if !w.fn.writesRecv {
		w.fn.writesRecv = true
		w.a.changed = true
	}
}

func (w *lfWalker) ev(e ast.Expr, st *lfState, wr bool) lfVal {
	a := w.a
	switch v := e.(type) {
	case nil:
		return lfVal{}
	case *ast.Ident:
		if b := w.scope.lookup(v.Name); b != nil {
			return lfVal{t: b.t, owned: b.owned, fresh: b.fresh, fn: b.fn, rooted: b == w.recvBind && w.recvBind != nil, local: true, ext: b.ext}
		}
		if a.imports[v.Name] {
			return lfVal{pkg: v.Name}
		}
		if fn, ok := a.funcs[v.Name]; ok {
			return lfVal{fn: fn, t: fn.ftype}
		}
		if t, ok := a.pkgVars[v.Name]; ok {
			r := lfVal{t: t}
			if t != nil && isMutexType(lfStrip(t)) {
				r.fieldOf = v.Name // package-level mutex: named after the variable
			}
			return r
		}
		return lfVal{}
	case *ast.ParenExpr:
		return w.ev(v.X, st, wr)
	case *ast.SelectorExpr:
		vx := w.ev(v.X, st, false)
		if vx.pkg != "" {
			return lfVal{ext: vx.pkg + "." + v.Sel.Name}
		}
		sel := a.lookupSel(vx.t, v.Sel.Name, 0)
		switch sel.kind {
		case "field":
			return w.selectField(vx, v, sel, st, wr)
		case "method":
			return lfVal{fn: sel.fn, t: sel.fn.ftype}
		case "iface":
			return lfVal{t: sel.t}
		case "mutex":
			w.incons(v, "lock method value `%s` escapes the analysis", a.exprStr(v))
		}
		if vx.t != nil && isMutexType(lfStrip(vx.t)) {
			w.incons(v, "lock method value `%s` escapes the analysis", a.exprStr(v))
		}
		return lfVal{}
	case *ast.IndexExpr:
		vx := w.ev(v.X, st, wr)
		w.ev(v.Index, st, false)
		if vx.owned && !vx.fresh {
			w.access(st, "state", wr, v)
		}
		if vx.rooted && wr {
			w.setWritesRecv()
		}
		var et ast.Expr
		switch u := a.under(vx.t).(type) {
		case *ast.MapType:
			et = u.Value
		case *ast.ArrayType:
			et = u.Elt
		}
		return lfVal{t: et, owned: vx.owned && w.keepOwned(et), fresh: vx.fresh, rooted: vx.rooted}
	case *ast.SliceExpr:
		vx := w.ev(v.X, st, false)
		w.ev(v.Low, st, false)
		w.ev(v.High, st, false)
		w.ev(v.Max, st, false)
		if vx.owned && !vx.fresh {
			w.access(st, "state", false, v)
		}
		return lfVal{t: vx.t, owned: vx.owned && w.a.refLike(vx.t), fresh: vx.fresh, rooted: vx.rooted}
	case *ast.StarExpr:
		vx := w.ev(v.X, st, false)
		if vx.owned && !vx.fresh {
			w.access(st, "state", wr, v)
		}
		if vx.rooted && wr {
			w.setWritesRecv()
		}
		var et ast.Expr
		if s, ok := lfUnparenT(vx.t).(*ast.StarExpr); ok {
			et = s.X
		}
		return lfVal{t: et, owned: vx.owned && w.keepOwned(et), fresh: vx.fresh, rooted: vx.rooted}
	case *ast.UnaryExpr:
		switch v.Op {
		case token.ARROW:
			if c, ok := lfUnparen(v.X).(*ast.CallExpr); ok {
				if se, ok := c.Fun.(*ast.SelectorExpr); ok {
					if id, ok := se.X.(*ast.Ident); ok && id.Name == "time" && se.Sel.Name == "After" && w.scope.lookup("time") == nil {
						for _, x := range c.Args {
							w.ev(x, st, false)
						}
						w.blockOp(st, "sleep", v)
						return lfVal{}
					}
				}
			}
			vx := w.ev(v.X, st, false)
			w.blockOp(st, "chan-recv", v)
			var et ast.Expr
			if ct, ok := a.under(vx.t).(*ast.ChanType); ok {
				et = ct.Value
			}
			return lfVal{t: et}
		case token.AND:
			vx := w.ev(v.X, st, false)
			if vx.t != nil && isMutexType(lfStrip(vx.t)) {
				if _, isStar := vx.t.(*ast.StarExpr); !isStar {
					w.incons(v, "address of lock `%s` escapes the analysis", a.exprStr(v))
				}
			}
			if vx.t == nil {
				return lfVal{fresh: vx.fresh}
			}
			return lfVal{t: &ast.StarExpr{X: vx.t}, owned: vx.owned, fresh: vx.fresh, rooted: vx.rooted}
		}
		w.ev(v.X, st, false)
		return lfVal{}
	case *ast.BinaryExpr:
		w.ev(v.X, st, false)
		w.ev(v.Y, st, false)
		return lfVal{}
	case *ast.CallExpr:
		return w.evCall(v, st)
	case *ast.CompositeLit:
		for _, el := range v.Elts {
			if kv, ok := el.(*ast.KeyValueExpr); ok {
				if _, isId := kv.Key.(*ast.Ident); !isId {
					w.ev(kv.Key, st, false)
				}
				w.evStored(kv.Value, st)
			} else {
				w.evStored(el, st)
			}
		}
		return lfVal{t: v.Type, fresh: true}
	case *ast.FuncLit:
		c := w.child(v, "lit")
		return lfVal{fn: c, t: v.Type}
	case *ast.TypeAssertExpr:
		vx := w.ev(v.X, st, false)
		return lfVal{t: v.Type, owned: vx.owned && a.refLike(v.Type), fresh: vx.fresh}
	case *ast.KeyValueExpr:
		return w.ev(v.Value, st, false)
	}
	return lfVal{}
}

// evStored evaluates an expression whose value is stored somewhere (func literals become own roots).
func (w *lfWalker) evStored(e ast.Expr, st *lfState) lfVal { return w.ev(e, st, false) }

func lfUnparenT(t ast.Expr) ast.Expr {
	for {
		p, ok := t.(*ast.ParenExpr)
		if !ok {
			return t
		}
		t = p.X
	}
}

// evArgs evaluates call arguments; func literals are spawned, stored or walked inline depending on the callee name.
func (w *lfWalker) evArgs(call *ast.CallExpr, callee string, st *lfState) []lfVal {
	var out []lfVal
	for _, x := range call.Args {
		if lit, ok := lfUnparen(x).(*ast.FuncLit); ok {
			switch {
			case lfSpawnNames[callee]:
				c := w.child(lit, "go")
				w.addSpawn(c.key)
				out = append(out, lfVal{fn: c, t: lit.Type})
			case lfStoreNames[callee]:
				c := w.child(lit, "lit")
				out = append(out, lfVal{fn: c, t: lit.Type})
			default:
				if w.mute == 0 {
					w.inlineLit(lit, st, lit)
				}
				out = append(out, lfVal{t: lit.Type})
			}
			continue
		}
		if w.mute > 0 {
			out = append(out, lfVal{})
			continue
		}
		v := w.ev(x, st, false)
		if v.fn != nil {
			if lfSpawnNames[callee] {
				w.addSpawn(v.fn.key)
				w.a.markRoot(v.fn.key)
			} else if lfStoreNames[callee] {
				w.a.markRoot(v.fn.key)
			}
		}
		out = append(out, v)
	}
	return out
}

func (a *lfAnalysis) markRoot(key string) {
	if !a.handlerRoots[key] {
		a.handlerRoots[key] = true
		a.changed = true
	}
}

// lockName names the lock denoted by expression x (already evaluated to vx), or "".
func (w *lfWalker) lockName(vx lfVal) string {
	if vx.t == nil {
		return ""
	}
	if isMutexType(lfStrip(vx.t)) {
		return vx.fieldOf // "" for a local mutex variable
	}
	if nm := w.a.named(vx.t); nm != "" && w.a.lookupSel(vx.t, "Lock", 0).kind == "mutex" {
		return nm
	}
	return ""
}

var lfLockOps = map[string]bool{"Lock": true, "RLock": true, "Unlock": true, "RUnlock": true}

// isLockOp reports whether call is X.Lock()/RLock()/Unlock()/RUnlock() on something that is (or may be) a mutex.
func (w *lfWalker) isLockOp(call *ast.CallExpr) (*ast.SelectorExpr, bool) {
	se, ok := lfUnparen(call.Fun).(*ast.SelectorExpr)
	if !ok || !lfLockOps[se.Sel.Name] || len(call.Args) != 0 {
		return nil, false
	}
	return se, true
}

func (w *lfWalker) lockOp(call *ast.CallExpr, se *ast.SelectorExpr, st *lfState, deferred bool) {
	vx := w.ev(se.X, st, false)
	// a package type with its own Lock/Unlock method is an ordinary call, not a mutex
	if sel := w.a.lookupSel(vx.t, se.Sel.Name, 0); sel.kind == "method" {
		w.applyCall(st, sel.fn, call)
		return
	}
	name := w.lockName(vx)
	if name == "" {
		w.incons(call, "cannot name the lock in `%s`", w.a.exprStr(call))
		return
	}
	op := se.Sel.Name
	l := lfLock{name: name, excl: op == "Lock" || op == "Unlock"}
	switch {
	case deferred && (op == "Unlock" || op == "RUnlock"):
		st.defers = append(st.defers, lfDefer{kind: "unlock", lock: l, node: call})
	case deferred:
		w.incons(call, "deferred %s of %s is not supported", op, name)
	case op == "Lock" || op == "RLock":
		w.acquire(st, l, call)
	default:
		w.release(st, l, call)
	}
}

var lfNetIOMethods = map[string]bool{"Write": true, "WriteString": true, "Flush": true, "Read": true, "ReadString": true,
	"ReadLine": true, "ReadBytes": true, "Handshake": true, "HandshakeContext": true}
var lfNetIOTypes = map[string]bool{"bufio.ReadWriter": true, "bufio.Reader": true, "bufio.Writer": true, "net.Conn": true,
	"tls.Conn": true, "net.TCPConn": true}

func lfLastSel(e ast.Expr) string {
	if se, ok := lfUnparen(e).(*ast.SelectorExpr); ok {
		return se.Sel.Name
	}
	if id, ok := lfUnparen(e).(*ast.Ident); ok {
		return id.Name
	}
	return ""
}

// wait: the function blocks until the goroutines it started have finished, so whatever they
// acquire or block on happens while the current held set is held.
func (w *lfWalker) wait(st *lfState, n ast.Node) {
	w.block(st, "wait", n)
	for _, k := range w.fn.spawns {
		if g := w.a.funcs[k]; g != nil {
			w.applyEffects(st, g)
		}
	}
}

func (w *lfWalker) evCall(call *ast.CallExpr, st *lfState) lfVal {
	a := w.a
	if st.dead {
		return lfVal{}
	}
	if se, ok := w.isLockOp(call); ok {
		w.lockOp(call, se, st, false)
		return lfVal{}
	}
	fun := lfUnparen(call.Fun)
	switch f := fun.(type) {
	case *ast.FuncLit:
		w.evArgs(call, "", st)
		w.inlineLit(f, st, call)
		return lfVal{t: lfResultType(f.Type, 0), ft: f.Type}
	case *ast.Ident:
		if b := w.scope.lookup(f.Name); b != nil {
			w.evArgs(call, "", st)
			if b.fn != nil {
				w.applyCall(st, b.fn, call)
				return lfVal{t: lfResultType(b.fn.ftype, 0), ft: b.fn.ftype}
			}
			w.block(st, "user-code", call)
			if ft, ok := a.under(b.t).(*ast.FuncType); ok {
				return lfVal{t: lfResultType(ft, 0), ft: ft}
			}
			return lfVal{}
		}
		if g, ok := a.funcs[f.Name]; ok {
			w.evArgs(call, f.Name, st)
			w.applyCall(st, g, call)
			return lfVal{t: lfResultType(g.ftype, 0), ft: g.ftype}
		}
		if _, ok := a.types[f.Name]; ok { // conversion
			vs := w.evArgs(call, f.Name, st)
			r := lfVal{t: f}
			if len(vs) == 1 {
				r.owned = vs[0].owned && a.refLike(f)
				r.fn = vs[0].fn
			}
			return r
		}
		if lfBuiltins[f.Name] {
			return w.evBuiltin(call, f.Name, st)
		}
		w.evArgs(call, f.Name, st)
		return lfVal{}
	case *ast.SelectorExpr:
		name := f.Sel.Name
		if id, ok := f.X.(*ast.Ident); ok && a.imports[id.Name] && w.scope.lookup(id.Name) == nil {
			// function of an imported package
			w.evArgs(call, name, st)
			switch {
			case id.Name == "time" && name == "Sleep":
				w.block(st, "sleep", call)
			case strings.HasPrefix(name, "Dial") || strings.HasPrefix(name, "Handshake"):
				w.block(st, "netio", call)
			}
			return lfVal{ext: id.Name + "." + name}
		}
		vx := w.ev(f.X, st, false)
		sel := a.lookupSel(vx.t, name, 0)
		switch sel.kind {
		case "method":
			g := sel.fn
			w.evArgs(call, name, st)
			if vx.owned && !vx.fresh && sel.owner != lfStateType {
				w.access(st, "state", g.writesRecv && g.recvPtr, call)
			}
			if vx.rooted && g.writesRecv && g.recvPtr {
				w.setWritesRecv()
			}
			w.applyCall(st, g, call)
			t0 := lfResultType(g.ftype, 0)
			own := (vx.owned || a.named(vx.t) == lfStateType) && !vx.fresh && g.retRooted && a.refLike(t0)
			return lfVal{t: t0, ft: g.ftype, owned: own, rooted: vx.rooted && g.retRooted}
		case "field":
			fv := w.selectField(vx, f, sel, st, false)
			w.evArgs(call, name, st)
			if ft, ok := a.under(fv.t).(*ast.FuncType); ok {
				w.block(st, "user-code", call)
				return lfVal{t: lfResultType(ft, 0), ft: ft}
			}
			return lfVal{}
		case "iface":
			w.evArgs(call, name, st)
			if name == "Dial" || sel.owner == "Dialer" {
				w.block(st, "netio", call)
			} else {
				w.block(st, "user-code", call)
			}
			ft, _ := sel.t.(*ast.FuncType)
			return lfVal{t: lfResultType(ft, 0), ft: ft}
		case "mutex":
			w.incons(call, "unsupported mutex operation `%s`", a.exprStr(call))
			return lfVal{}
		}
		// external or unknown receiver type
		w.evArgs(call, name, st)
		if vx.t != nil && isMutexType(lfStrip(vx.t)) {
			w.incons(call, "unsupported mutex operation `%s`", a.exprStr(call))
			return lfVal{}
		}
		ext := a.external(vx.t)
		switch {
		case name == "Wait" && (vx.t == nil || ext == "sync.WaitGroup" || strings.HasSuffix(ext, ".Group")):
			w.wait(st, call)
		case lfNetIOMethods[name] && (lfNetIOTypes[ext] || lfLastSel(f.X) == "io" || lfLastSel(f.X) == "sock"):
			w.block(st, "netio", call)
		case name == "Dial" || name == "DialContext":
			w.block(st, "netio", call)
		}
		if vx.t == nil && vx.ext == "" {
			cands := a.byName[name]
			switch {
			case len(cands) == 1:
				w.applyCall(st, cands[0], call)
				return lfVal{t: lfResultType(cands[0].ftype, 0), ft: cands[0].ftype}
			case len(cands) > 1:
				if a.emit {
					a.unresolved[name] = true
				}
			}
		}
		return lfVal{}
	}
	// call of an arbitrary expression: m[k](...), f()(...)
	vf := w.ev(fun, st, false)
	w.evArgs(call, "", st)
	if ft, ok := a.under(vf.t).(*ast.FuncType); ok {
		w.block(st, "user-code", call)
		return lfVal{t: lfResultType(ft, 0), ft: ft}
	}
	if _, isArr := fun.(*ast.ArrayType); isArr { // conversion []byte(x)
		return lfVal{t: fun}
	}
	switch fun.(type) {
	case *ast.MapType, *ast.ChanType, *ast.StarExpr, *ast.InterfaceType, *ast.FuncType:
		return lfVal{t: fun}
	}
	w.block(st, "user-code", call)
	if a.emit {
		a.unresolved["<"+a.exprStr(fun)+">"] = true
	}
	return lfVal{}
}

func (w *lfWalker) evBuiltin(call *ast.CallExpr, name string, st *lfState) lfVal {
	args := call.Args
	switch name {
	case "append":
		var v0 lfVal
		for i, x := range args {
			v := w.ev(x, st, false)
			if i == 0 {
				v0 = v
			}
		}
		return lfVal{t: v0.t, owned: v0.owned, fresh: v0.fresh && !v0.owned}
	case "delete", "clear":
		for i, x := range args {
			w.ev(x, st, i == 0)
		}
		return lfVal{}
	case "copy":
		for i, x := range args {
			v := w.ev(x, st, false)
			if i == 0 && v.owned && !v.fresh {
				w.access(st, "state", true, call)
			}
			if i == 0 && v.rooted {
				w.setWritesRecv()
			}
		}
		return lfVal{}
	case "make", "new":
		for i, x := range args {
			if i > 0 {
				w.ev(x, st, false)
			}
		}
		if len(args) > 0 {
			if name == "new" {
				return lfVal{t: &ast.StarExpr{X: args[0]}, fresh: true}
			}
			return lfVal{t: args[0], fresh: true}
		}
		return lfVal{}
	case "panic":
		for _, x := range args {
			w.ev(x, st, false)
		}
		st.dead = true
		return lfVal{}
	}
	for _, x := range args {
		w.ev(x, st, false)
	}
	return lfVal{}
}

// ---------- statements ----------

func (w *lfWalker) stmts(list []ast.Stmt, st lfState) lfState {
	for _, s := range list {
		if st.dead {
			if _, ok := s.(*ast.LabeledStmt); !ok {
				continue
			}
		}
		st = w.stmt(s, st)
	}
	return st
}

func (w *lfWalker) blockStmt(b *ast.BlockStmt, st lfState) lfState {
	if b == nil {
		return st
	}
	w.push()
	st = w.stmts(b.List, st)
	w.pop()
	return st
}

func (w *lfWalker) bindLocal(id *ast.Ident, v lfVal, define bool) {
	if id.Name == "_" {
		return
	}
	owned := v.owned && w.a.refLike(v.t)
	if define {
		if _, ok := w.scope.vars[id.Name]; !ok {
			w.define(id.Name, &lfBinding{t: v.t, owned: owned, fresh: v.fresh && !owned, fn: v.fn, ext: v.ext})
			return
		}
	}
	if b := w.scope.lookup(id.Name); b != nil {
		if v.t != nil && (b.t == nil || w.a.isIface(b.t)) {
			b.t = v.t
		}
		b.owned = owned
		b.ext = v.ext
		b.fresh = v.fresh && !owned
		if v.fn != nil {
			b.fn = v.fn
		}
	}
}

func (w *lfWalker) assign(s *ast.AssignStmt, st *lfState) {
	define := s.Tok == token.DEFINE
	var vals []lfVal
	if len(s.Rhs) == 1 && len(s.Lhs) > 1 {
		v := w.ev(s.Rhs[0], st, false)
		vals = append(vals, v)
		for i := 1; i < len(s.Lhs); i++ {
			if v.ft != nil {
				vals = append(vals, lfVal{t: lfResultType(v.ft, i)})
			} else {
				vals = append(vals, lfVal{})
			}
		}
	} else {
		for _, r := range s.Rhs {
			v := w.ev(r, st, false)
			if lit, ok := lfUnparen(r).(*ast.FuncLit); ok {
				// a literal bound to a local is analysed where it is called, not as a root of its own
				if c := w.a.litFns[lit]; c != nil {
					c.isRoot = false
				}
			}
			vals = append(vals, v)
		}
	}
	for i, l := range s.Lhs {
		var v lfVal
		if i < len(vals) {
			v = vals[i]
		}
		if id, ok := lfUnparen(l).(*ast.Ident); ok {
			if define || w.scope.lookup(id.Name) != nil {
				if s.Tok == token.ASSIGN || define {
					w.bindLocal(id, v, define)
				}
				continue
			}
			continue // package-level variable: not lock-guarded
		}
		if lit, ok := lfUnparen(s.Rhs[minInt(i, len(s.Rhs)-1)]).(*ast.FuncLit); ok {
			if c := w.a.litFns[lit]; c != nil {
				c.isRoot = true // stored in a field / element
			}
		}
		w.ev(l, st, true)
	}
}

func minInt(a, b int) int {
	if a < b {
		return a
	}
	return b
}

func (w *lfWalker) findCtx(label string, loopOnly bool) *lfCtx {
	for i := len(w.ctxs) - 1; i >= 0; i-- {
		c := w.ctxs[i]
		if label != "" {
			if c.label == label {
				return c
			}
			continue
		}
		if loopOnly && c.kind != "loop" {
			continue
		}
		return c
	}
	return nil
}

func (w *lfWalker) pushCtx(kind string) *lfCtx {
	c := &lfCtx{kind: kind, label: w.nextLabel}
	w.nextLabel = ""
	w.ctxs = append(w.ctxs, c)
	return c
}

func (w *lfWalker) popCtx() { w.ctxs = w.ctxs[:len(w.ctxs)-1] }

func (w *lfWalker) loopBody(n ast.Node, body *ast.BlockStmt, post ast.Stmt, entry lfState, canExit bool, ctx *lfCtx) lfState {
	end := w.blockStmt(body, entry.clone())
	back := w.join(n, "loop continue", append([]lfState{end}, ctx.conts...)...)
	if !back.dead && post != nil {
		back = w.stmt(post, back)
	}
	if !back.dead && !lfHeldEq(back.held, entry.held) {
		w.incons(n, "held set at loop back-edge %s differs from loop entry %s", lfHeldStr(back.held), lfHeldStr(entry.held))
	}
	exits := append([]lfState(nil), ctx.breaks...)
	if canExit {
		e := entry.clone()
		if !back.dead {
			e.defers = w.mergeDefers(n, e.defers, back.defers)
		}
		exits = append(exits, e)
	}
	return w.join(n, "loop exit", exits...)
}

// commIsRecvOrSend evaluates the communication of a select clause.
func (w *lfWalker) comm(s ast.Stmt, st *lfState, blocking bool) {
	if s == nil {
		return
	}
	if !blocking {
		w.quiet++
		defer func() { w.quiet-- }()
	}
	switch c := s.(type) {
	case *ast.SendStmt:
		w.ev(c.Chan, st, false)
		w.ev(c.Value, st, false)
		w.blockOp(st, "chan-send", c)
	case *ast.ExprStmt:
		w.ev(c.X, st, false)
	case *ast.AssignStmt:
		w.assign(c, st)
	}
}

func (w *lfWalker) blockOp(st *lfState, kind string, n ast.Node) {
	if w.quiet > 0 {
		return
	}
	w.block(st, kind, n)
}

func (w *lfWalker) stmt(s ast.Stmt, st lfState) lfState {
	a := w.a
	switch v := s.(type) {
	case nil, *ast.EmptyStmt:
	case *ast.ExprStmt:
		w.ev(v.X, &st, false)
	case *ast.SendStmt:
		w.ev(v.Chan, &st, false)
		w.ev(v.Value, &st, false)
		w.blockOp(&st, "chan-send", v)
	case *ast.IncDecStmt:
		if id, ok := lfUnparen(v.X).(*ast.Ident); !ok || w.scope.lookup(id.Name) == nil {
			w.ev(v.X, &st, true)
		}
	case *ast.AssignStmt:
		w.assign(v, &st)
	case *ast.DeclStmt:
		if gd, ok := v.Decl.(*ast.GenDecl); ok {
			for _, sp := range gd.Specs {
				vs, ok := sp.(*ast.ValueSpec)
				if !ok {
					continue
				}
				var vals []lfVal
				for _, x := range vs.Values {
					vals = append(vals, w.ev(x, &st, false))
				}
				for i, n := range vs.Names {
					b := &lfBinding{t: vs.Type}
					if i < len(vals) && len(vals) == len(vs.Names) {
						if b.t == nil {
							b.t = vals[i].t
						}
						b.owned = vals[i].owned && a.refLike(b.t)
						b.fresh = vals[i].fresh
						b.fn = vals[i].fn
					}
					w.define(n.Name, b)
				}
			}
		}
	case *ast.GoStmt:
		if lit, ok := lfUnparen(v.Call.Fun).(*ast.FuncLit); ok {
			w.evArgs(v.Call, "", &st)
			c := w.child(lit, "go")
			w.addSpawn(c.key)
		} else {
			fv := w.ev(v.Call.Fun, &st, false)
			w.evArgs(v.Call, "", &st)
			if fv.fn != nil {
				w.addSpawn(fv.fn.key)
				a.markRoot(fv.fn.key)
			}
		}
	case *ast.DeferStmt:
		if se, ok := w.isLockOp(v.Call); ok {
			w.lockOp(v.Call, se, &st, true)
			break
		}
		if lit, ok := lfUnparen(v.Call.Fun).(*ast.FuncLit); ok {
			w.evArgs(v.Call, "", &st)
			st.defers = append(st.defers, lfDefer{kind: "lit", lit: lit, node: v})
			break
		}
		if se, ok := lfUnparen(v.Call.Fun).(*ast.SelectorExpr); ok {
			w.ev(se.X, &st, false)
		}
		for _, x := range v.Call.Args {
			w.ev(x, &st, false)
		}
		st.defers = append(st.defers, lfDefer{kind: "call", call: v.Call, node: v})
	case *ast.ReturnStmt:
		for _, r := range v.Results {
			rv := w.ev(r, &st, false)
			if !w.frame.inline && rv.rooted && a.refLike(rv.t) && !w.fn.retRooted && !st.dead {
				w.fn.retRooted = true
				a.changed = true
			}
		}
		if !st.dead {
			w.doReturn(st, v)
		}
		st.dead = true
	case *ast.BlockStmt:
		st = w.blockStmt(v, st)
	case *ast.IfStmt:
		w.push()
		if v.Init != nil {
			st = w.stmt(v.Init, st)
		}
		w.ev(v.Cond, &st, false)
		thenSt := w.blockStmt(v.Body, st.clone())
		elseSt := st.clone()
		if v.Else != nil {
			elseSt = w.stmt(v.Else, elseSt)
		}
		w.pop()
		st = w.join(v, "end of if", thenSt, elseSt)
	case *ast.ForStmt:
		w.push()
		ctx := w.pushCtx("loop")
		if v.Init != nil {
			st = w.stmt(v.Init, st)
		}
		w.ev(v.Cond, &st, false)
		st = w.loopBody(v, v.Body, v.Post, st, v.Cond != nil, ctx)
		w.popCtx()
		w.pop()
	case *ast.RangeStmt:
		w.push()
		ctx := w.pushCtx("loop")
		vx := w.ev(v.X, &st, false)
		var kt, et ast.Expr
		switch u := a.under(vx.t).(type) {
		case *ast.MapType:
			kt, et = u.Key, u.Value
		case *ast.ArrayType:
			kt, et = ast.NewIdent("int"), u.Elt
		case *ast.ChanType:
			kt = u.Value
			w.blockOp(&st, "chan-recv", v)
		}
		if vx.owned && !vx.fresh {
			w.access(&st, "state", false, v.X)
		}
		if v.Tok == token.DEFINE {
			if id, ok := v.Key.(*ast.Ident); ok {
				w.define(id.Name, &lfBinding{t: kt})
			}
			if id, ok := v.Value.(*ast.Ident); ok {
				w.define(id.Name, &lfBinding{t: et, owned: vx.owned && a.refLike(et)})
			}
		} else {
			if v.Key != nil {
				if id, ok := v.Key.(*ast.Ident); !ok || w.scope.lookup(id.Name) == nil {
					w.ev(v.Key, &st, true)
				}
			}
			if v.Value != nil {
				if id, ok := v.Value.(*ast.Ident); ok && w.scope.lookup(id.Name) != nil {
					w.bindLocal(id, lfVal{t: et, owned: vx.owned}, false)
				} else {
					w.ev(v.Value, &st, true)
				}
			}
		}
		st = w.loopBody(v, v.Body, nil, st, true, ctx)
		w.popCtx()
		w.pop()
	case *ast.SwitchStmt:
		w.push()
		ctx := w.pushCtx("switch")
		if v.Init != nil {
			st = w.stmt(v.Init, st)
		}
		w.ev(v.Tag, &st, false)
		st = w.clauses(v, v.Body, st, ctx, nil)
		w.popCtx()
		w.pop()
	case *ast.TypeSwitchStmt:
		w.push()
		ctx := w.pushCtx("switch")
		if v.Init != nil {
			st = w.stmt(v.Init, st)
		}
		var bindName string
		var subj lfVal
		switch as := v.Assign.(type) {
		case *ast.AssignStmt:
			if len(as.Lhs) == 1 && len(as.Rhs) == 1 {
				if id, ok := as.Lhs[0].(*ast.Ident); ok {
					bindName = id.Name
				}
				if ta, ok := as.Rhs[0].(*ast.TypeAssertExpr); ok {
					subj = w.ev(ta.X, &st, false)
				}
			}
		case *ast.ExprStmt:
			if ta, ok := as.X.(*ast.TypeAssertExpr); ok {
				subj = w.ev(ta.X, &st, false)
			}
		}
		st = w.clauses(v, v.Body, st, ctx, func(cc *ast.CaseClause) {
			if bindName == "" {
				return
			}
			b := &lfBinding{t: subj.t, owned: subj.owned}
			if len(cc.List) == 1 {
				b.t = cc.List[0]
				b.owned = subj.owned && a.refLike(b.t)
			}
			w.define(bindName, b)
		})
		w.popCtx()
		w.pop()
	case *ast.SelectStmt:
		ctx := w.pushCtx("select")
		hasDefault := false
		for _, c := range v.Body.List {
			if cc, ok := c.(*ast.CommClause); ok && cc.Comm == nil {
				hasDefault = true
			}
		}
		var ends []lfState
		for _, c := range v.Body.List {
			cc, ok := c.(*ast.CommClause)
			if !ok {
				continue
			}
			cs := st.clone()
			w.push()
			w.comm(cc.Comm, &cs, !hasDefault)
			cs = w.stmts(cc.Body, cs)
			w.pop()
			ends = append(ends, cs)
		}
		if len(v.Body.List) == 0 && !st.dead {
			w.blockOp(&st, "chan-recv", v)
		}
		ends = append(ends, ctx.breaks...)
		w.popCtx()
		st = w.join(v, "end of select", ends...)
	case *ast.LabeledStmt:
		name := v.Label.Name
		in := []lfState{st}
		in = append(in, w.frame.pending[name]...)
		delete(w.frame.pending, name)
		st = w.join(v, "label "+name, in...)
		if !st.dead {
			w.frame.labels[name] = append([]lfLock{}, st.held...)
		}
		w.nextLabel = name
		switch v.Stmt.(type) {
		case *ast.ForStmt, *ast.RangeStmt, *ast.SwitchStmt, *ast.TypeSwitchStmt, *ast.SelectStmt:
		default:
			w.nextLabel = ""
		}
		st = w.stmt(v.Stmt, st)
		w.nextLabel = ""
	case *ast.BranchStmt:
		label := ""
		if v.Label != nil {
			label = v.Label.Name
		}
		switch v.Tok {
		case token.BREAK:
			if c := w.findCtx(label, false); c != nil {
				c.breaks = append(c.breaks, st.clone())
			} else {
				w.incons(v, "break without target")
			}
			st.dead = true
		case token.CONTINUE:
			if c := w.findCtx(label, true); c != nil && c.kind == "loop" {
				c.conts = append(c.conts, st.clone())
			} else {
				w.incons(v, "continue without target")
			}
			st.dead = true
		case token.GOTO:
			if held, ok := w.frame.labels[label]; ok {
				if !lfHeldEq(held, st.held) {
					w.incons(v, "goto %s with held set %s, label was reached with %s", label, lfHeldStr(st.held), lfHeldStr(held))
				}
			} else {
				w.frame.pending[label] = append(w.frame.pending[label], st.clone())
			}
			st.dead = true
		case token.FALLTHROUGH:
			// approximated: the clause end joins the switch exit
		}
	default:
		w.incons(s, "unsupported statement %T", s)
	}
	return st
}

func (w *lfWalker) clauses(n ast.Node, body *ast.BlockStmt, st lfState, ctx *lfCtx, bind func(*ast.CaseClause)) lfState {
	hasDefault := false
	var ends []lfState
	for _, c := range body.List {
		cc, ok := c.(*ast.CaseClause)
		if !ok {
			continue
		}
		if cc.List == nil {
			hasDefault = true
		}
		if bind == nil {
			for _, x := range cc.List {
				w.ev(x, &st, false)
			}
		}
		w.push()
		if bind != nil {
			bind(cc)
		}
		cs := w.stmts(cc.Body, st.clone())
		w.pop()
		ends = append(ends, cs)
	}
	if !hasDefault {
		ends = append(ends, st.clone())
	}
	ends = append(ends, ctx.breaks...)
	return w.join(n, "end of switch", ends...)
}

// doReturn runs the deferred operations (LIFO) and checks that no lock stays held.
func (w *lfWalker) doReturn(st lfState, n ast.Node) {
	st = st.clone()
	defers := st.defers
	st.defers = nil
	for i := len(defers) - 1; i >= 0; i-- {
		d := defers[i]
		switch d.kind {
		case "unlock":
			w.release(&st, d.lock, d.node)
		case "call":
			w.mute++
			w.evCall(d.call, &st)
			w.mute--
		case "lit":
			w.inlineLit(d.lit, &st, d.node)
		}
		st.dead = false // a deferred panic/recover does not stop the remaining defers
	}
	if w.frame.inline {
		w.frame.rets = append(w.frame.rets, st)
		return
	}
	if len(st.held) > 0 {
		w.incons(n, "returns with %s still held", lfHeldStr(st.held))
	}
}

// ---------- per-function analysis, fixpoint, output ----------

func (a *lfAnalysis) analyseFn(fn *lfFn) {
	w := &lfWalker{a: a, fn: fn}
	w.scope = &lfScope{vars: map[string]*lfBinding{}, parent: fn.capture}
	w.frame = &lfFrame{labels: map[string][]lfLock{}, pending: map[string][]lfState{}}
	if fn.recvName != "" && fn.recvType != "" {
		var t ast.Expr = ast.NewIdent(fn.recvType)
		if fn.recvPtr {
			t = &ast.StarExpr{X: t}
		}
		b := &lfBinding{t: t}
		w.define(fn.recvName, b)
		if fn.recvPtr {
			w.recvBind = b
		}
	}
	w.bindParams(fn.ftype)
	st := w.stmts(fn.body.List, lfState{})
	if !st.dead {
		w.doReturn(st, fn.body)
	}
	var labels []string
	for l := range w.frame.pending {
		labels = append(labels, l)
	}
	sort.Strings(labels)
	for _, l := range labels {
		w.incons(fn.body, "goto %s: the label was not reached by the walk", l)
	}
}

func (a *lfAnalysis) run() {
	for pass := 0; pass < 100; pass++ {
		a.changed = false
		order := append([]string(nil), a.order...)
		for _, k := range order {
			a.analyseFn(a.funcs[k])
		}
		if !a.changed {
			break
		}
		if pass == 99 {
			a.inconsistent[[2]string{"<extractor>", "summaries did not reach a fixpoint in 100 passes"}] = true
		}
	}
	sort.Strings(a.order)
	a.emit = true
	for _, k := range a.order {
		a.analyseFn(a.funcs[k])
	}
}

func (a *lfAnalysis) isRootFn(fn *lfFn) bool {
	return fn.exported || fn.isRoot || a.handlerRoots[fn.key] || lfAlwaysRoots[fn.key] || fn.name == "init"
}

func lfList(o *out, doc, name, typ string, items []string) {
	o.pf("/-- %s -/\ndef %s : List %s := [", doc, name, typ)
	for i, it := range items {
		if i > 0 {
			o.pf(",")
		}
		o.pf("\n  %s", it)
	}
	if len(items) > 0 {
		o.pf("\n")
	}
	o.pf("]\n\n")
}

func lfBool(b bool) string {
	if b {
		return "true"
	}
	return "false"
}

func (a *lfAnalysis) render(repo string) string {
	o := &out{}
	o.pf("/- GENERATED by tools/extract (lock facts) from the Go sources in %s — do not edit. -/\n", repo)
	o.pf("namespace Girc.Gen.Lock\n\n")

	// unguarded
	var items []string
	for _, k := range a.order {
		fn := a.funcs[k]
		if !a.isRootFn(fn) {
			continue
		}
		for nk, c := range fn.needs {
			items = append(items, fmt.Sprintf("(%s, %s, %s, %s, %s)", leanStr(fn.key), leanStr(nk.res), leanStr(lfResourceGuard[nk.res]),
				lfBool(nk.write), leanStr(c.String())))
		}
	}
	sort.Strings(items)
	lfList(o, "(root, resource, guard, isWrite, witness chain) : an access not covered by its guard on some path from a root",
		"unguarded", "(String × String × String × Bool × String)", items)

	items = nil
	for k, wit := range a.edges {
		items = append(items, fmt.Sprintf("(%s, %s, %s, %s, %s)", leanStr(k[0].name), lfBool(k[0].excl), leanStr(k[1].name), lfBool(k[1].excl), leanStr(wit)))
	}
	sort.Strings(items)
	lfList(o, "(held lock, held exclusively?, acquired lock, acquired exclusively?, witness) : lock-order edges, re-acquisitions included",
		"edges", "(String × Bool × String × Bool × String)", items)

	items = nil
	for k := range a.edgeHolders {
		items = append(items, fmt.Sprintf("(%s, %s, %s)", leanStr(k[0]), leanStr(k[1]), leanStr(k[2])))
	}
	sort.Strings(items)
	lfList(o, "(held lock, acquired lock, holder) : EVERY function that holds the first lock while the second is acquired (by itself or by a callee)",
		"edgeHolders", "(String × String × String)", items)

	items = nil
	for k := range a.callouts {
		items = append(items, fmt.Sprintf("(%s, %s, %s, %s)", leanStr(k[0]), leanStr(k[1]), leanStr(k[2]), k[3]))
	}
	sort.Strings(items)
	lfList(o, "(function, kind, held lock, held exclusively?) : blocking or user-code operations performed while a lock is held",
		"callouts", "(String × String × String × Bool)", items)

	items = nil
	for k := range a.inconsistent {
		items = append(items, fmt.Sprintf("(%s, %s)", leanStr(k[0]), leanStr(k[1])))
	}
	sort.Strings(items)
	lfList(o, "(function, description) : join points / loop back-edges where the held sets disagree, unlock without lock, etc.",
		"inconsistent", "(String × String)", items)

	items = nil
	locks := map[string]bool{}
	for _, l := range lfResourceGuard {
		locks[l] = true
	}
	for l := range a.lockSites {
		locks[l] = true
	}
	for l := range locks {
		items = append(items, fmt.Sprintf("(%s, %d)", leanStr(l), a.lockSites[l]))
	}
	sort.Strings(items)
	lfList(o, "per lock: how many Lock/RLock sites were seen (sanity: the extractor still recognises the locks)",
		"lockSites", "(String × Nat)", items)

	items = nil
	for r := range lfResourceGuard {
		items = append(items, fmt.Sprintf("(%s, %d, %d)", leanStr(r), a.reads[r], a.writes[r]))
	}
	sort.Strings(items)
	lfList(o, "per resource: (reads seen, writes seen) over all functions (sanity: the extractor still recognises the resources)",
		"accessSites", "(String × Nat × Nat)", items)

	items = nil
	for n := range a.unresolved {
		items = append(items, leanStr(n))
	}
	sort.Strings(items)
	lfList(o, "callee names that could not be resolved", "unresolved", "String", items)

	o.pf("end Girc.Gen.Lock\n")
	return o.b.String()
}

// lockFacts analyses the package and writes the Lean file.
func lockFacts(p *pkgFiles, repo, path string) {
	a := newLockAnalysis(p)
	a.run()
	if os.Getenv("LOCKFACTS_DEBUG") != "" {
		a.dump()
	}
	writeIfChanged(path, a.render(repo))
}

// dump prints the per-function summaries (debugging aid: LOCKFACTS_DEBUG=1).
func (a *lfAnalysis) dump() {
	for _, k := range a.order {
		fn := a.funcs[k]
		var parts []string
		for nk, c := range fn.needs {
			parts = append(parts, fmt.Sprintf("need %s w=%v [%s]", nk.res, nk.write, c))
		}
		for l, c := range fn.acquires {
			parts = append(parts, fmt.Sprintf("acq %s [%s]", l, c))
		}
		for b, c := range fn.blocks {
			parts = append(parts, fmt.Sprintf("blk %s [%s]", b, c))
		}
		sort.Strings(parts)
		flags := ""
		if a.isRootFn(fn) {
			flags += " ROOT"
		}
		if fn.writesRecv {
			flags += " writesRecv"
		}
		if fn.retRooted {
			flags += " retRooted"
		}
		if len(fn.spawns) > 0 {
			flags += " spawns=" + strings.Join(fn.spawns, ",")
		}
		if len(parts) == 0 && flags == "" {
			continue
		}
		fmt.Fprintf(os.Stderr, "%s%s\n", k, flags)
		for _, p := range parts {
			fmt.Fprintf(os.Stderr, "    %s\n", p)
		}
	}
}
