import Girc.Proofs.TransBase
import Girc.Model.Names
/-
  Translator equivalence, format.go: ToRFC1459, IsValidNick, IsValidUser, IsValidChannel.
-/
set_option linter.unusedSimpArgs false
namespace Girc.Proofs.Trans
open Girc Girc.Model Girc.Go Girc.Gen

/-! ### ToRFC1459 -/

theorem ToRFC1459_loop1_eq : ∀ (fuel : Nat) (out : Bytes) (n : Nat), n ≤ out.length → out.length - n < fuel →
    Fn.ToRFC1459_loop1 fuel out (n : Int) = .ok (.done (out.take n ++ (out.drop n).map fold1))
  | 0, _, _, _, h => by omega
  | fuel + 1, out, n, hn, hf => by
    unfold Fn.ToRFC1459_loop1
    by_cases hlt : n < out.length
    · obtain ⟨c, hd, hc, _⟩ := atI_step out n hlt
      have e1 : ((n : Int) + 1) = ((n + 1 : Nat) : Int) := by omega
      have hl : decide ((n : Int) < len out) = true := by dec_tac
      simp only [hl, hc, bind, Except.bind, pure, Except.pure, andE_ok_ok, e1]
      rw [hd]
      by_cases hcond : (decide (c ≥ 65) && decide (c ≤ 94)) = true
      · simp only [hcond, if_true, setI_nat out n (c + 32) hlt]
        rw [ToRFC1459_loop1_eq fuel (out.set n (c + 32)) (n + 1) (by simp; omega) (by simp; omega)]
        simp [take_succ_set out n (c + 32) hlt, drop_succ_set, fold1, hcond]
      · simp only [hcond]
        rw [ToRFC1459_loop1_eq fuel out (n + 1) (by omega) (by omega)]
        simp [fold1, hcond, List.take_add_one, ‹out[n]? = some c›]
    · have hl : decide ((n : Int) < len out) = false := by dec_tac
      have h1 : out.drop n = [] := by simp; omega
      have h2 : out.take n = out := List.take_of_length_le (by omega)
      simp [hl, h1, h2, pure, Except.pure]

theorem ToRFC1459_eq (input : Bytes) : Fn.ToRFC1459 input = .ok (fold input) := by
  unfold Fn.ToRFC1459
  have hl := ToRFC1459_loop1_eq (fuelTo 0 (len input)) input 0 (by omega) (by fuel_tac)
  simp only [Int.natCast_zero] at hl
  simp [hl, bind, Except.bind, pure, Except.pure, fold]

/-! ### IsValidNick -/

theorem nickRest_cond : ∀ c : UInt8,
    ((decide (c < 0x41) || decide (c > 0x7D)) && (decide (c < 0x30) || decide (c > 0x39)) && (c != 0x2D)) = !nickRest c := by
  decide +kernel

theorem nickFirst_cond : ∀ c : UInt8, ((decide (c < 0x41) || decide (c > 0x7D)) && (c != 0x3F)) = !nickFirst c := by
  decide +kernel

theorem IsValidNick_loop1_eq (nick : Bytes) : ∀ (fuel n : Nat), n ≤ nick.length → nick.length - n < fuel →
    Fn.IsValidNick_loop1 nick fuel (n : Int) = .ok (if (nick.drop n).all nickRest then .done () else .ret false)
  | 0, _, _, h => by omega
  | fuel + 1, n, hn, hf => by
    unfold Fn.IsValidNick_loop1
    by_cases hlt : n < nick.length
    · obtain ⟨c, hd, hc, _⟩ := atI_step nick n hlt
      have e1 : ((n : Int) + 1) = ((n + 1 : Nat) : Int) := by omega
      have hl : decide ((n : Int) < len nick) = true := by simp [len]; omega
      simp only [hl, hc, bind, Except.bind, pure, Except.pure, andE_ok_ok, orE_ok_ok, e1, nickRest_cond]
      rw [hd, IsValidNick_loop1_eq nick fuel (n+1) (by omega) (by omega)]
      cases hnr : nickRest c <;> simp [hnr]
    · have hl : decide ((n : Int) < len nick) = false := by simp [len]; omega
      have : nick.drop n = [] := by simp; omega
      simp [hl, this, pure, Except.pure]

theorem IsValidNick_eq (nick : Bytes) : Fn.IsValidNick nick = .ok (isValidNick nick) := by
  unfold Fn.IsValidNick
  cases nick with
  | nil => simp [isValidNick, pure, Except.pure]
  | cons c r =>
    have hl := IsValidNick_loop1_eq (c :: r) (fuelTo 1 (len (c :: r))) 1 (by simp) (by fuel_tac)
    simp only [Int.natCast_one] at hl
    simp only [atI_cons_zero, hl, bind, Except.bind, pure, Except.pure, andE_ok_ok, orE_ok_ok, nickFirst_cond, isValidNick]
    cases hf : nickFirst c <;> cases hr : r.all nickRest <;> simp [hr]

/-! ### IsValidUser -/

theorem userRest_cond : ∀ c : UInt8,
    ((decide (c < 0x41) || decide (c > 0x7D)) && (decide (c < 0x30) || decide (c > 0x39)) && (c != 0x2D) && (c != 0x2E)) = !userRest c := by
  decide +kernel

theorem userFirst_cond : ∀ c : UInt8,
    ((decide (c < 0x41) || decide (c > 0x5A)) && (decide (c < 0x61) || decide (c > 0x7A)) && (decide (c < 0x30) || decide (c > 0x39))) = !userFirst c := by
  decide +kernel

theorem IsValidUser_loop1_eq (name : Bytes) : ∀ (fuel n : Nat), n ≤ name.length → name.length - n < fuel →
    Fn.IsValidUser_loop1 name fuel (n : Int) = .ok (if (name.drop n).all userRest then .done () else .ret false)
  | 0, _, _, h => by omega
  | fuel + 1, n, hn, hf => by
    unfold Fn.IsValidUser_loop1
    by_cases hlt : n < name.length
    · obtain ⟨c, hd, hc, _⟩ := atI_step name n hlt
      have e1 : ((n : Int) + 1) = ((n + 1 : Nat) : Int) := by omega
      have hl : decide ((n : Int) < len name) = true := by simp [len]; omega
      simp only [hl, hc, bind, Except.bind, pure, Except.pure, andE_ok_ok, orE_ok_ok, e1, userRest_cond]
      rw [hd, IsValidUser_loop1_eq name fuel (n+1) (by omega) (by omega)]
      cases hnr : userRest c <;> simp [hnr]
    · have hl : decide ((n : Int) < len name) = false := by simp [len]; omega
      have : name.drop n = [] := by simp; omega
      simp [hl, this, pure, Except.pure]

theorem IsValidUser_loop1_top (c : Byte) (r : Bytes) :
    Fn.IsValidUser_loop1 (c :: r) (fuelTo 1 (len (c :: r))) 1 = .ok (if r.all userRest then .done () else .ret false) := by
  have hl := IsValidUser_loop1_eq (c :: r) (fuelTo 1 (len (c :: r))) 1 (by simp) (by fuel_tac)
  simpa using hl

theorem IsValidUser_eq (name : Bytes) : Fn.IsValidUser name = .ok (isValidUser name) := by
  unfold Fn.IsValidUser
  cases name with
  | nil => simp [isValidUser, pure, Except.pure]
  | cons c r =>
    by_cases hc : c = 0x7E
    · subst hc
      cases r with
      | nil => simp [atI_cons_zero, isValidUser, bind, Except.bind, pure, Except.pure, len]
      | cons d r' =>
        have hs : sliceI (0x7E :: d :: r') 1 (len (0x7E :: d :: r')) = .ok (d :: r') := by
          have := sliceI_from (0x7E :: d :: r') 1 (by simp)
          simpa using this
        have hlen : decide (len (0x7E :: d :: r') < 2) = false := by dec_tac
        simp only [atI_cons_zero, hs, hlen, IsValidUser_loop1_top, bind, Except.bind, pure, Except.pure, andE_ok_ok, orE_ok_ok,
          userFirst_cond, isValidUser, isValidUserBody]
        cases hf : userFirst d <;> cases hr : r'.all userRest <;> simp
    · simp only [atI_cons_zero, IsValidUser_loop1_top, bind, Except.bind, pure, Except.pure, andE_ok_ok, orE_ok_ok,
        userFirst_cond, isValidUser, isValidUserBody]
      cases hf : userFirst c <;> cases hr : r.all userRest <;> simp [hc]

/-! ### IsValidChannel -/

theorem chanId_cond : ∀ c : UInt8,
    ((decide (c < 0x30) || decide (c > 0x39)) && (decide (c < 0x41) || decide (c > 0x5A))) = !chanIdByte c := by
  decide +kernel

theorem chanBad_cond : ∀ c : UInt8, (indexByteI [0x00, 0x07, 0x0D, 0x0A, 0x20, 0x2C, 0x3A] c != -1) = chanBad c := by
  decide +kernel

theorem chanPrefix_cond : ∀ c : UInt8, (indexByteI [0x21, 0x23, 0x26, 0x2A, 0x7E, 0x2B] c == -1) = !chanPrefix c := by
  decide +kernel

theorem IsValidChannel_loop1_eq (ch : Bytes) (h6 : 6 ≤ ch.length) : ∀ (fuel n : Nat), n ≤ 6 → 6 - n < fuel →
    Fn.IsValidChannel_loop1 ch fuel (n : Int) = .ok (if ((ch.take 6).drop n).all chanIdByte then .done () else .ret false)
  | 0, _, _, h => by omega
  | fuel + 1, n, hn, hf => by
    unfold Fn.IsValidChannel_loop1
    by_cases hlt : n < 6
    · obtain ⟨c, hd, hc, _⟩ := atI_step ch n (by omega)
      have e1 : ((n : Int) + 1) = ((n + 1 : Nat) : Int) := by omega
      have hl : decide ((n : Int) < 6) = true := by simp; omega
      have hd' : (ch.take 6).drop n = c :: (ch.take 6).drop (n + 1) := by
        rw [List.drop_take, List.drop_take, hd]
        have : 6 - n = (6 - (n + 1)) + 1 := by omega
        rw [this, List.take_succ_cons]
      simp only [hl, hc, bind, Except.bind, pure, Except.pure, andE_ok_ok, orE_ok_ok, e1, chanId_cond]
      rw [hd', IsValidChannel_loop1_eq ch h6 fuel (n+1) (by omega) (by omega)]
      cases hnr : chanIdByte c <;> simp [hnr]
    · have hl : decide ((n : Int) < 6) = false := by simp; omega
      have : (ch.take 6).drop n = [] := by simp; omega
      simp [hl, this, pure, Except.pure]

theorem IsValidChannel_loop2_eq (ch : Bytes) : ∀ (fuel n : Nat), n ≤ ch.length → ch.length - n < fuel →
    Fn.IsValidChannel_loop2 ch [0x00, 0x07, 0x0D, 0x0A, 0x20, 0x2C, 0x3A] fuel (n : Int) =
      .ok (if (ch.drop n).any chanBad then .ret false else .done ())
  | 0, _, _, h => by omega
  | fuel + 1, n, hn, hf => by
    unfold Fn.IsValidChannel_loop2
    by_cases hlt : n < ch.length
    · obtain ⟨c, hd, hc, _⟩ := atI_step ch n hlt
      have e1 : ((n : Int) + 1) = ((n + 1 : Nat) : Int) := by omega
      have hl : decide ((n : Int) < len ch) = true := by simp [len]; omega
      simp only [hl, hc, bind, Except.bind, pure, Except.pure, e1, chanBad_cond]
      rw [hd, IsValidChannel_loop2_eq ch fuel (n+1) (by omega) (by omega)]
      cases hnr : chanBad c <;> simp [hnr]
    · have hl : decide ((n : Int) < len ch) = false := by simp [len]; omega
      have : ch.drop n = [] := by simp; omega
      simp [hl, this, pure, Except.pure]

theorem IsValidChannel_eq (ch : Bytes) : Fn.IsValidChannel ch = .ok (isValidChannel ch) := by
  unfold Fn.IsValidChannel isValidChannel
  have e1 : decide (len ch ≤ 1) = decide (ch.length ≤ 1) := by decc_tac
  have e2 : decide (len ch > 50) = decide (ch.length > 50) := by decc_tac
  rw [e1, e2]
  cases hlen : (decide (ch.length ≤ 1) || decide (ch.length > 50))
  · cases ch with
    | nil => simp at hlen
    | cons c r =>
      have hl2 := IsValidChannel_loop2_eq (c :: r) (fuelTo 1 (len (c :: r))) 1 (by simp) (by fuel_tac)
      simp only [Int.natCast_one, List.drop_succ_cons, List.drop_zero] at hl2
      simp only [atI_cons_zero, hl2, bind, Except.bind, pure, Except.pure, chanPrefix_cond]
      cases hp : chanPrefix c
      · simp
      · by_cases hb : c = 0x21
        · subst hb
          by_cases h7 : (0x21 :: r).length < 7
          · have e3 : decide (len (0x21 :: r) < 7) = true := by dec_tac
            have h7' : r.length < 6 := by simp at h7; omega
            simp [e3]
            intro h; omega
          · have e3 : decide (len (0x21 :: r) < 7) = false := by dec_tac
            have h7' : ¬ r.length < 6 := by simp at h7; omega
            have hl1 := IsValidChannel_loop1_eq (0x21 :: r) (by simp at h7 ⊢; omega) (fuelTo 1 6) 1 (by omega) (by fuel_tac)
            simp only [Int.natCast_one, List.take_succ_cons, List.drop_succ_cons, List.drop_zero] at hl1
            simp only [e3, hl1]
            cases hid : (r.take 5).all chanIdByte <;> cases hbad : r.any chanBad <;> simp <;> omega
        · cases hbad : r.any chanBad <;> simp [hb]
  · simp [pure, Except.pure]

end Girc.Proofs.Trans
