import Girc.Spec.RefTracker
/-
  C04: which messages a protocol-conformant server can send in a given situation (decidable, one
  clause per message kind, over the REFERENCE state — i.e. over what the client has been told).
-/
namespace Girc.Spec
open Girc Girc.Model

namespace Ref

def knownUser (r : Ref) (nick : Bytes) : Bool := AMap.contains r.users (fold nick)
def knownChan (r : Ref) (name : Bytes) : Bool := AMap.contains r.chans (fold name)

/-- A NAMES entry `prefixes nick[!user@host]` with a valid nick. -/
def wfNamesEntry (part : Bytes) : Bool :=
  let (_, nick, ok) := parseUserPrefix part
  ok && (if nick.contains AT then
      (let s := parseSource nick; isValidNick s.name && !s.ident.isEmpty && !s.host.isEmpty)
    else isValidNick nick)

/-- Users sending commands have valid nicknames. -/
def userSource (e : Event) : Bool :=
  match e.source with
  | some s => isValidNick s.name
  | none => false

def conformant (cfg : Cfg) (r : Ref) (e : Event) : Bool :=
  let c := e.command
  let last := e.params.getLastD []
  -- an account tag is only ever attached to messages of users (valid nick)
  (match e.tags with
   | some t => (tagsGet (some t) sAccount).isNone || userSource e
   | none => true) &&
  (if c = cJOIN then
    userSource e && (match e.source, e.params with
      | some src, chan :: _ =>
        isValidChannel chan &&
        (if r.isMe cfg src.name then !r.knownChan chan
         else r.knownChan chan && !r.isMember (fold chan) (fold src.name))
      | _, _ => false)
  else if c = cPART then
    userSource e && (match e.source, e.params with
      | some src, chan :: _ => r.knownChan chan && r.isMember (fold chan) (fold src.name)
      | _, _ => false)
  else if c = cKICK then
    (match e.params with
      | chan :: victim :: _ => r.knownChan chan && r.isMember (fold chan) (fold victim)
      | _ => false)
  else if c = cQUIT then
    userSource e && (match e.source with | some src => r.knownUser src.name && !r.isMe cfg src.name | none => false)
  else if c = cNICK then
    userSource e && (match e.source, e.params with
      | some src, _ :: _ =>
        isValidNick last && (r.knownUser src.name || r.isMe cfg src.name) &&
        (fold last = fold src.name || (!r.knownUser last && !r.isMe cfg last))
      | _, _ => false)
  else if c = c353 then
    (match e.params with
      | _ :: _ :: chan :: _ :: _ => r.knownChan chan && (splitOnByte SP last).all (fun p => p.isEmpty || wfNamesEntry p)
      | _ => false)
  else if c = cMODE then
    (match e.params with
      | target :: _ :: _ => !isValidChannel target || r.knownChan target
      | _ => true)
  else if c = c001 then
    -- the welcome names the client, once, before anything is tracked
    (match e.params with | p :: _ => isValidNick p && r.chans.isEmpty && r.users.isEmpty | [] => false)
  else true)

end Ref

/-- A conformant history: every message is conformant in the reference state reached so far. -/
def conformantHistory (cfg : Cfg) : Ref → List Event → Bool
  | _, [] => true
  | r, e :: rest => r.conformant cfg e && conformantHistory cfg (r.step cfg e) rest

end Girc.Spec
