package main

import (
	"fmt"
	"net/url"
	"strings"
	"unicode/utf8"

	"github.com/lrstanley/girc"
)

// badURLs: every byte-suffix (at rune boundaries) of every word of the texts for which url.Parse fails —
// the only strings splitMessage can ask the oracle about.
func badURLs(texts ...string) []string {
	seen := map[string]bool{}
	var out []string
	for _, t := range texts {
		t = strings.ToValidUTF8(t, "?")
		words := strings.FieldsFunc(t, func(r rune) bool {
			switch r {
			case '\t', '\v', '\f', ' ', 0x85, 0xA0, '\n', '\r':
				return true
			}
			return false
		})
		for _, w := range words {
			for i := 0; i < len(w); {
				suf := w[i:]
				if !seen[suf] {
					seen[suf] = true
					if _, err := url.Parse(suf); err != nil {
						out = append(out, suf)
					}
				}
				_, sz := utf8.DecodeRuneInString(w[i:])
				i += sz
			}
		}
	}
	return out
}

var splitSeps = func(r rune) bool {
	switch r {
	case '\t', '\v', '\f', ' ', 0x85, 0xA0, '\n', '\r':
		return true
	}
	return false
}

// refines: the words of the pieces, in order, are the original words, each possibly cut into consecutive non-empty chunks.
func refines(pieces []string, words []string) string {
	var pw []string
	for _, p := range pieces {
		pw = append(pw, strings.FieldsFunc(p, splitSeps)...)
	}
	i := 0
	for _, w := range words {
		rest := w
		for rest != "" {
			if i >= len(pw) {
				return fmt.Sprintf("content lost: word %q not fully present", w)
			}
			if !strings.HasPrefix(rest, pw[i]) || pw[i] == "" {
				return fmt.Sprintf("piece word %q does not continue %q", pw[i], rest)
			}
			rest = rest[len(pw[i]):]
			i++
		}
	}
	if i != len(pw) {
		return fmt.Sprintf("extra content: %q", pw[i:])
	}
	return ""
}

func hasCodes(s string) bool { return strings.ContainsAny(s, sevenCodes) }

func init() {
	props["C11"] = runC11
	genOps["evsplit"] = "gen.Event.split" // the regenerated (*Event).split (its text splitter is the model's)
	runners["splitmsg"] = func(c *Ctx, in map[string]string) {
		text := in["text"]
		var w int
		fmt.Sscan(in["width"], &w)
		hin := hexIn(in)
		out := safely(func() string { return hxList(girc.VerifSplitMessage(text, w)) })
		if m := c.L.Call("splitmsg", hx(text), fmt.Sprint(w), hxList(badURLs(text))); m != out {
			c.R.Mismatch("splitmsg", hin, out, m)
		}
		if strings.HasPrefix(out, "panic") {
			c.R.Violation("split.panic", hin, out, "", "splitMessage panicked")
			return
		}
		pieces := girc.VerifSplitMessage(text, w)
		for _, p := range pieces {
			if p == "" {
				c.R.Violation("split.empty_piece", hin, out, "", "an empty piece would be sent")
			}
			if w >= 4 && !hasCodes(text) && len(p) > w {
				c.R.Violation("split.piece_too_long", hin, fmt.Sprintf("%d bytes: %q", len(p), p), fmt.Sprint(w), "a piece exceeds the width")
			}
		}
		if w >= 4 && !hasCodes(text) {
			words := strings.FieldsFunc(strings.ToValidUTF8(text, "?"), splitSeps)
			if msg := refines(pieces, words); msg != "" {
				c.R.Violation("split.content", hin, fmt.Sprintf("%q", pieces), fmt.Sprintf("%q", words), msg)
			}
		}
	}
	runners["evsplit"] = func(c *Ctx, in map[string]string) {
		e := evFromIn(in)
		var ml int
		fmt.Sscan(in["maxlen"], &ml)
		hin := hexIn(in)
		show := func(evs []*girc.Event) string {
			var l []string
			for _, x := range evs {
				l = append(l, showEvent(x))
			}
			return strings.Join(l, ";")
		}
		out := safely(func() string { return show(girc.VerifEventSplit(e, ml)) })
		// the URL oracle: for a CTCP event the splitter sees ctcp.Text, whose last word lacks the trailing delimiter
		texts := []string{e.Last()}
		if ct := girc.DecodeCTCP(e); ct != nil {
			texts = append(texts, ct.Text)
		}
		sargs := []string{encTags(e.Tags), encSource(e.Source), hx(e.Command), hxList(e.Params), fmt.Sprint(ml), hxList(badURLs(texts...))}
		if m := c.L.Call("evsplit", sargs...); m != out {
			c.R.Mismatch("evsplit", hin, out, m)
		}
		if !strings.HasPrefix(out, "panic") {
			c.genCheck("evsplit", hin, out, sargs...)
		}
		if strings.HasPrefix(out, "panic") {
			c.R.Violation("evsplit.panic", hin, out, "", "Event.split panicked")
			return
		}
		pieces := girc.VerifEventSplit(e, ml)
		if len(pieces) == 1 && pieces[0] == e {
			return // not split
		}
		isCT, ct := e.IsCTCP()
		cmdOnly := *e
		cmdOnly.Source = nil
		cmdOnly.Params = append(append([]string{}, e.Params[:len(e.Params)-1]...), "")
		for _, p := range pieces {
			if p.Command != e.Command || fmt.Sprint(p.Params[:len(p.Params)-1]) != fmt.Sprint(e.Params[:len(e.Params)-1]) {
				c.R.Violation("evsplit.header", hin, showEvent(p), showEvent(e), "a piece does not keep the command and target")
			}
			if !hasCodes(e.Last()) && ml-cmdOnly.Len() >= 16 {
				q := *p
				q.Source = nil
				if q.Len() > ml {
					c.R.Violation("evsplit.too_long", hin, fmt.Sprint(q.Len()), fmt.Sprint(ml), "a piece is longer than the limit")
				}
			}
			if isCT {
				if ok, pc := p.IsCTCP(); !ok || pc.Command != ct.Command {
					c.R.Violation("evsplit.ctcp", hin, showEvent(p), "", "a piece lost the CTCP wrapping")
				}
			}
		}
	}
}

func (r *RNG) splitText() string {
	var b strings.Builder
	n := 1 + r.Intn(14)
	for i := 0; i < n; i++ {
		switch r.Intn(14) {
		case 0:
			b.WriteString(r.From("abcdefghijklmnopqrstuvwxyz", 31+r.Intn(60)))
		case 1:
			b.WriteString("https://example.com/" + r.From("abc/def-ghi_?=&.", r.Intn(50)))
		case 2:
			b.WriteString(r.Pick([]string{"12:30", "ab%c", "100%", "%zz", "a:b:c", "::1", "x-y+z=w|v/u~t:s;r,q.p"}))
		case 3:
			b.WriteString(strings.Repeat(r.Pick([]string{"é", "ϗ", "😀", "日本"}), 1+r.Intn(25)))
		case 4:
			b.WriteString(r.Pick([]string{"\n", "\r\n", "\n\n", " \n "}))
			continue
		case 5:
			b.WriteString(r.Pick([]string{"\t", " ", "\u0085", "  ", "\v"}))
			continue
		case 6:
			b.WriteString(r.From("abc-+_=|/~:;,.", 5+r.Intn(30)))
		case 7:
			b.WriteString(r.Pick([]string{"\xff", "\xc3", "a\xe2\x82b"}))
		default:
			b.WriteString(r.From("abcdefghij", 1+r.Intn(9)))
		}
		b.WriteString(" ")
	}
	return b.String()
}

func runC11(c *Ctx) {
	r := c.R
	r.Rule = "splitMessage / Event.split vs model with the url.Parse verdict supplied for every word suffix (ASCII and multi-byte text, long unbroken words, URLs, punctuation runs, 12:30, % sequences, embedded newlines, " +
		"invalid UTF-8, formatting codes, CTCP ACTIONs), EVERY width 1..60 on fixed texts and random widths up to 500; content/length/empty-piece predicates on the implementation for plain text; " +
		"Cmd.Join/List with channel lists near the limit and MaxEventLength after random ISUPPORT lines through real sessions; non-trivial = text longer than the width; distinct = distinct (text,width)"
	fixed := []string{"abcdefghi", "abcde ab%c", "wxyz+abcdefg", "aaaaaaa 12:30 b", "hello world foo bar baz", "abcdefghijklmnopqrstuvwxyz", strings.Repeat("é", 40), "a\nb", "", "   ",
		"https://example.com/a/b/c/d/e/f/g/h see", "one-two-three-four-five six", "\x0304red text\x03 plain \x02bold words here\x02 end", "😀😀😀😀😀😀😀😀 x"}
	for _, t := range fixed {
		for w := 1; w <= 60; w++ {
			c.run("splitmsg", map[string]string{"text": t, "width": fmt.Sprint(w)})
			r.Count(fmt.Sprint(w)+t, len(t) > w, "fixed-all-widths")
		}
	}
	r.Exhaustive = true
	for i := 0; i < 2500*c.Scale; i++ {
		t := c.Rng.splitText()
		if c.Rng.Chance(10) {
			t = c.Rng.Pick([]string{"\x02", "\x0304", "\x03", "\x1f"}) + t + c.Rng.Pick([]string{"\x0f more", "\x02 x", ""})
		}
		w := 1 + c.Rng.Intn(120)
		if c.Rng.Chance(20) {
			w = 200 + c.Rng.Intn(300)
		}
		c.run("splitmsg", map[string]string{"text": t, "width": fmt.Sprint(w)})
		r.Count(fmt.Sprint(w)+t, len(t) > w, "random", fmt.Sprintf("codes=%v", hasCodes(t)))
		if i < 2 {
			r.Sample(map[string]string{"text": q(t), "width": fmt.Sprint(w), "pieces": fmt.Sprintf("%q", girc.VerifSplitMessage(t, w))})
		}
	}
	for i := 0; i < 1500*c.Scale; i++ {
		t := c.Rng.splitText()
		for len(t) < 300 && c.Rng.Chance(70) {
			t += c.Rng.splitText()
		}
		e := &girc.Event{Command: c.Rng.Pick([]string{"PRIVMSG", "NOTICE", "PRIVMSG", "TOPIC"}), Params: []string{c.Rng.Pick([]string{"#chan", "nick", "#" + strings.Repeat("c", 40)}), t}}
		if c.Rng.Chance(25) {
			e.Params[1] = "\x01ACTION " + t + "\x01"
		}
		if c.Rng.Chance(30) {
			e.Source = &girc.Source{Name: "me", Ident: "u", Host: "h"}
		}
		if c.Rng.Chance(15) {
			e.Tags = girc.Tags{"k": "v"}
		}
		if c.Rng.Chance(5) {
			e.Params = e.Params[1:]
		}
		in := evIn(e)
		in["maxlen"] = c.Rng.Pick([]string{"395", "395", "200", "100", "50", "30", "907"})
		c.run("evsplit", in)
		r.Count(fmt.Sprint(in), len(t) > 100, "evsplit")
	}
	// sessions: Join/List batching, MaxEventLength after ISUPPORT, Message splitting on the wire
	for i := 0; i < 60*c.Scale; i++ {
		in := map[string]string{"nick": "me", "check": "c11"}
		if c.Rng.Chance(20) {
			in["globalformat"] = "1"
		}
		steps := []string{"R:srv 001 me :Welcome"}
		if c.Rng.Chance(60) {
			steps = append(steps, "R:srv 005 me "+c.Rng.Pick([]string{"LINELEN=1024", "NICKLEN=9", "NICKLEN=50 USERLEN=30 HOSTLEN=100", "LINELEN=300 NICKLEN=20", "MAXNICKLEN=40", "LINELEN=abc", "HOSTLEN=10 USERLEN=5", "LINELEN=100", "NICKLEN=-5"})+" :are supported by this server", "D")
		}
		var chans []string
		for k := c.Rng.Intn(12); k > 0; k-- {
			chans = append(chans, "#"+c.Rng.From("abcdefgh", 1+c.Rng.Intn([]int{8, 60, 130, 400}[c.Rng.Intn(4)])))
		}
		if len(chans) > 0 {
			steps = append(steps, "C"+c.Rng.Pick([]string{"Join", "List"})+"\x00"+strings.Join(chans, "\x00"))
		}
		for k := c.Rng.Intn(3); k > 0; k-- {
			t := c.Rng.splitText() + c.Rng.splitText() + c.Rng.splitText()
			for len(t) < 600 && c.Rng.Bool() {
				t += c.Rng.splitText()
			}
			t = strings.NewReplacer("\xff", "", "\xc3", "", "\xe2\x82", "").Replace(t)
			steps = append(steps, "C"+c.Rng.Pick([]string{"Message", "Notice", "Action"})+"\x00"+c.Rng.Pick([]string{"#chan", "bob"})+"\x00"+t)
		}
		steps = append(steps, "D")
		stepsToIn(in, steps)
		c.run("session", in)
		r.Count(fmt.Sprint(in), true, "session")
		r.Traces++
	}
	// a Join/List made BEFORE the server announces its limits, a 005 that shrinks them, then bulk Join/List: the batching uses
	// the limit in force when each call is made
	for _, tok := range []string{"NICKLEN=100 HOSTLEN=200", "LINELEN=200", "LINELEN=1024"} {
		in := map[string]string{"nick": "me", "check": "c11"}
		var many []string
		for k := 0; k < 40; k++ {
			many = append(many, fmt.Sprintf("#channel-number-%02d", k))
		}
		steps := []string{"R:srv 001 me :Welcome", "CJoin\x00#first\x00#second", "CList\x00#first", "R:srv 005 me " + tok + " :are supported by this server", "D",
			"CJoin\x00" + strings.Join(many, "\x00"), "CList\x00" + strings.Join(many, "\x00"), "D"}
		stepsToIn(in, steps)
		c.run("session", in)
		r.Count(fmt.Sprint(in), true, "session-limit-after-first-call")
		r.Traces++
	}
	// bulk Join/List naming channels the client is ALREADY in (first, middle, last position): every channel asked for is sent
	for _, pos := range []int{0, 1, 2} {
		in := map[string]string{"nick": "me", "check": "c11"}
		list := []string{"#x", "#y"}
		list = append(list[:pos], append([]string{"#here"}, list[pos:]...)...)
		steps := []string{"R:srv 001 me :Welcome", "R:me!u@h JOIN #here", "R:srv 353 me = #here :me @bob", "R:me!u@h JOIN #Also", "D",
			"CJoin\x00" + strings.Join(list, "\x00"), "CList\x00" + strings.Join(list, "\x00"), "CJoin\x00#HERE", "CJoin\x00#also\x00#z\x00#also", "D"}
		stepsToIn(in, steps)
		c.run("session", in)
		r.Count(fmt.Sprint(in), true, "session-join-already-joined")
		r.Traces++
	}
	// one client, two servers: limits do not carry over
	for _, first := range []string{"LINELEN=2048", "NICKLEN=60 USERLEN=40 HOSTLEN=200", "LINELEN=300"} {
		c.run("linelenreconnect", map[string]string{"first": first})
		c.run("linelenreconnect", map[string]string{"first": first, "second": "NETWORK=OtherNet CHANTYPES=#"})
		r.Traces += 2
	}
	// a server that LOWERS the limit below the default, then messages whose lines fall between the new limit and the
	// default one (they fit the default and must still be split)
	for _, tok := range []string{"LINELEN=300 NICKLEN=20", "NICKLEN=50 USERLEN=30 HOSTLEN=100", "LINELEN=200", "NICKLEN=40 HOSTLEN=100", "LINELEN=400 NICKLEN=60"} {
		in := map[string]string{"nick": "me", "check": "c11"}
		steps := []string{"R:srv 001 me :Welcome", "R:srv 005 me " + tok + " :are supported by this server", "D"}
		for L := 120 + c.Rng.Intn(9); L <= 430; L += 23 {
			var b strings.Builder
			for b.Len() < L {
				b.WriteString(c.Rng.From("abcdefghij", 1+c.Rng.Intn(9)))
				b.WriteByte(' ')
			}
			steps = append(steps, "C"+c.Rng.Pick([]string{"Message", "Notice"})+"\x00#chan\x00"+strings.TrimSpace(b.String()[:L]))
		}
		steps = append(steps, "D")
		stepsToIn(in, steps)
		c.run("session", in)
		r.Count(fmt.Sprint(in), true, "session-lowered-limit")
		r.Traces++
	}
}
