package main

import (
	"bufio"
	"fmt"
	"net"
	"runtime"
	"sort"
	"strings"
	"sync"
	"sync/atomic"
	"time"

	"github.com/lrstanley/girc"
)

// ---- C07: connection lifecycle scenarios on a real client (in process, net.Pipe peers) ----
//
// One client, several consecutive connections. Each connection is ended by one terminator
// (close|quit|error|eof) at one placement (reg|burst|handler|queued) against one peer behaviour
// after QUIT (passive|error|close). Everything observable is recorded and judged by the property's
// predicates; the observation summary is also handed to the Lean lifecycle model (`life.allowed`).

type lifeObs struct {
	Idx            int
	Term, Place    string
	Peer           string
	Ret            string // "nil" | "errevent:<text>" | "err:<text>" | "timeout"
	RetMs          int64
	Lifecycle      []string // INITIALIZED / CLOSED / DISCONNECTED in the order handlers saw them
	Delivered      []string // every other event a foreground wildcard handler saw, in order
	SentBeforeErr  []string // lines the peer wrote before its ERROR (ERROR included), in order
	PeerLines      []string // what the peer read
	PeerEOF        bool
	ConnectedAfter bool
	GBefore        int
	GAfter         int
	ChansAtStart   int // tracked channels after this connection's 001 + barrier (-1 if not reached)
	UsersAtStart   int
	QuitWritten    bool
	SockClosed     bool // the client called Close() on its socket
	PingOff        bool // the client runs with keep-alive pings disabled (pingLoop returned nil at once)
	ErrWritten     bool // the peer's write of the ERROR line returned without error: on the synchronous pipe the client has READ it
}

// closeRecorder records whether the client closed its own end (when the PEER closes first, the peer's EOF says
// nothing about that).
type closeRecorder struct {
	net.Conn
	closed int32
}

func (c *closeRecorder) Close() error {
	atomic.AddInt32(&c.closed, 1)
	return c.Conn.Close()
}

type lifeClient struct {
	lateSender bool // its DISCONNECTED handler sends a message and calls Quit()
	c          *girc.Client
	mu         sync.Mutex
	cur        *lifeObs
	fire       chan string // signals from handlers to the scenario ("line10", "block", "queued")
}

func newLifeClient(pingOff ...bool) *lifeClient {
	lc := &lifeClient{fire: make(chan string, 64)}
	cfg := girc.Config{Server: "irc.example.org", Port: 6667, Nick: "me", User: "me", Name: "me", AllowFlood: true,
		RecoverFunc: func(c *girc.Client, e *girc.HandlerError) {}}
	if len(pingOff) > 0 && pingOff[0] {
		// keep-alive pings disabled: pingLoop returns nil at once, which must not end the connection
		cfg.PingDelay = -1
	}
	lc.c = girc.New(cfg)
	lc.c.Handlers.Add(girc.ALL_EVENTS, func(c *girc.Client, e girc.Event) {
		lc.mu.Lock()
		o := lc.cur
		switch e.Command {
		case girc.INITIALIZED, girc.CLOSED, girc.DISCONNECTED:
			if o != nil {
				o.Lifecycle = append(o.Lifecycle, e.Command)
			}
			idx := -1
			if o != nil {
				idx = o.Idx
			}
			lc.mu.Unlock()
			if e.Command == girc.DISCONNECTED && lc.lateSender && idx >= 0 {
				// an application that says goodbye from its DISCONNECTED handler: nothing of it may reach the NEXT connection
				c.Cmd.Message("#late", fmt.Sprintf("sent from the teardown of c%d ", idx))
				c.Quit(fmt.Sprintf("bye c%d", idx))
			}
			return
		}
		if o != nil {
			o.Delivered = append(o.Delivered, e.String())
		}
		lc.mu.Unlock()
		last := e.Last()
		switch {
		case strings.HasSuffix(last, " line 10"):
			lc.signal("line10")
		case last == "boom":
			panic("a foreground handler panics (RecoverFunc is installed): later events must still be delivered")
		case last == "block":
			lc.signal("block")
			time.Sleep(40 * time.Millisecond)
		case last == "queue":
			for i := 0; i < 18; i++ {
				c.Cmd.Message("#out", fmt.Sprintf("queued %d", i))
			}
			lc.signal("queued")
		}
	})
	return lc
}

func (lc *lifeClient) signal(s string) {
	select {
	case lc.fire <- s:
	default:
	}
}

// libGoroutines counts goroutines that are executing library code, other than background handlers
// still finishing (handleConnect sleeps 2 s before announcing CONNECTED; the property exempts those).
func libGoroutines() (int, string) {
	buf := make([]byte, 1<<20)
	buf = buf[:runtime.Stack(buf, true)]
	n := 0
	var first string
	for _, g := range strings.Split(string(buf), "\n\n") {
		if !strings.Contains(g, "github.com/lrstanley/girc.") && !strings.Contains(g, "girc/internal/ctxgroup") {
			continue
		}
		if strings.Contains(g, "girc.handleConnect") || strings.Contains(g, "verifharness") && !strings.Contains(g, "girc.(*Client).") {
			continue
		}
		if strings.Contains(g, "main.(*lifeClient).runLifeConn") {
			continue // the scenario's own goroutine
		}
		n++
		if first == "" {
			first = g
		}
	}
	return n, first
}

// settleGoroutines waits (up to 2 s) for the library's goroutines to drop to target.
func settleGoroutines(target int) int {
	n, _ := libGoroutines()
	for i := 0; i < 200 && n > target; i++ {
		time.Sleep(10 * time.Millisecond)
		n, _ = libGoroutines()
	}
	return n
}

// runLifeConn runs ONE connection of the client to its end and returns what was observed.
func (lc *lifeClient) runLifeConn(idx int, term, place, peer string, r *RNG) *lifeObs {
	o := &lifeObs{Idx: idx, Term: term, Place: place, Peer: peer, ChansAtStart: -1, UsersAtStart: -1}
	for len(lc.fire) > 0 {
		<-lc.fire
	}
	lc.mu.Lock()
	lc.cur = o
	lc.mu.Unlock()
	o.GBefore = settleGoroutines(0)
	cli, srv := net.Pipe()
	var pmu sync.Mutex
	var stopReading int32
	stopped := make(chan struct{})
	clientLines := make(chan string, 1024)
	readerDone := make(chan struct{})
	go func() { // the peer's reader: always consuming, so client writes never block
		defer close(readerDone)
		rd := bufio.NewReader(srv)
		for {
			if atomic.LoadInt32(&stopReading) == 1 {
				<-stopped // the peer has stopped reading: the client's next write blocks until the peer closes
				pmu.Lock()
				o.PeerEOF = true
				pmu.Unlock()
				return
			}
			l, err := rd.ReadString('\n')
			if l != "" {
				l = strings.TrimRight(l, "\r\n")
				pmu.Lock()
				o.PeerLines = append(o.PeerLines, l)
				isQuit := strings.HasPrefix(l, "QUIT")
				if isQuit {
					o.QuitWritten = true
				}
				pmu.Unlock()
				if isQuit {
					// the peer's answer to QUIT, at once (a server on the loopback is this fast)
					switch peer {
					case "error":
						srv.SetWriteDeadline(time.Now().Add(time.Second))
						srv.Write([]byte("ERROR :Closing Link: quit\r\n"))
						srv.Close()
					case "close":
						srv.Close()
					}
				}
				select {
				case clientLines <- l:
				default:
				}
			}
			if err != nil {
				pmu.Lock()
				o.PeerEOF = true
				pmu.Unlock()
				return
			}
		}
	}()
	send := func(l string) bool {
		srv.SetWriteDeadline(time.Now().Add(2 * time.Second))
		_, err := srv.Write([]byte(l + "\r\n"))
		return err == nil
	}
	connDone := make(chan struct{}) // closed when Connect has returned
	waitLine := func(prefix string, d time.Duration) bool {
		t := time.After(d)
		for {
			select {
			case <-connDone:
				return false
			case l := <-clientLines:
				if strings.HasPrefix(l, prefix) {
					return true
				}
			case <-t:
				return false
			}
		}
	}
	waitFire := func(what string, d time.Duration) bool {
		t := time.After(d)
		for {
			select {
			case <-connDone:
				return false
			case s := <-lc.fire:
				if s == what {
					return true
				}
			case <-t:
				return false
			}
		}
	}
	ret := make(chan error, 1)
	start := time.Now()
	wrapped := &closeRecorder{Conn: cli}
	go func() { ret <- lc.c.MockConnect(wrapped) }()

	tag := fmt.Sprintf("c%d", idx)
	terminate := func() {
		switch term {
		case "close":
			lc.c.Close()
		case "quit":
			lc.c.Quit("bye " + tag)
		case "error":
			pmu.Lock()
			o.SentBeforeErr = append(o.SentBeforeErr, "ERROR :Closing Link: "+tag)
			pmu.Unlock()
			if r.Bool() {
				// more lines follow the ERROR in the same segment (never handled: execLoop stops at the ERROR); a
				// later connection of this client must not see them
				srv.SetWriteDeadline(time.Now().Add(2 * time.Second))
				_, werr := srv.Write([]byte("ERROR :Closing Link: " + tag + "\r\n:me!u@h JOIN #stale" + tag + "\r\n:x!u@h PRIVMSG me :" + tag + " after the error\r\n:x!u@h NOTICE me :" + tag + " after the error\r\n"))
				o.ErrWritten = werr == nil
			} else {
				o.ErrWritten = send("ERROR :Closing Link: " + tag)
			}
			if r.Bool() {
				time.Sleep(time.Duration(r.Intn(3)) * time.Millisecond)
			}
			srv.Close()
		case "eof":
			srv.Close()
		}
	}
	sendRec := func(l string) bool {
		pmu.Lock()
		o.SentBeforeErr = append(o.SentBeforeErr, l)
		pmu.Unlock()
		return send(l)
	}
	peerScript := func() {
		if !waitLine("USER", 3*time.Second) {
			return
		}
		if place == "reg" {
			if r.Bool() {
				sendRec(":srv NOTICE * :" + tag + " looking up your hostname")
			}
			terminate()
			return
		}
		sendRec(":srv 001 me :Welcome " + tag)
		sendRec("PING :bar" + tag)
		if waitLine("PONG", 3*time.Second) {
			// the state API at the start of this connection (after the welcome has been processed)
			o.ChansAtStart = len(lc.c.ChannelList())
			o.UsersAtStart = len(lc.c.UserList())
		}
		switch place {
		case "burst":
			fired := make(chan struct{})
			go func() {
				if waitFire("line10", 3*time.Second) {
					if term == "close" || term == "quit" {
						terminate()
					}
				}
				close(fired)
			}()
			for i := 0; i < 40; i++ {
				if (term == "error" || term == "eof") && i == 20 {
					terminate()
					break
				}
				l := fmt.Sprintf(":x!u@h PRIVMSG me :%s line %d", tag, i)
				switch i {
				case 2: // tracked state that the next connection must not inherit
					l = fmt.Sprintf(":me!u@h JOIN #left%s", tag)
				case 3:
					l = fmt.Sprintf(":srv 353 me = #left%s :me @bob +carl", tag)
				case 15:
					l = fmt.Sprintf(":me!u@h JOIN #stale%s", tag)
				}
				if !sendRec(l) {
					break
				}
				if r.Chance(30) {
					runtime.Gosched()
				}
			}
			<-fired
		case "handler":
			if r.Chance(40) {
				sendRec(":x!u@h PRIVMSG me :boom")
			}
			for i := 0; i < 5; i++ {
				sendRec(fmt.Sprintf(":x!u@h PRIVMSG me :%s pre %d", tag, i))
			}
			sendRec(":x!u@h PRIVMSG me :block")
			if term == "close" || term == "quit" {
				waitFire("block", 3*time.Second)
				terminate()
			} else {
				for i := 0; i < 3; i++ {
					sendRec(fmt.Sprintf(":x!u@h PRIVMSG me :%s post %d", tag, i))
				}
				terminate()
			}
		case "midwrite":
			// the peer stops reading, lets the client run into a blocked write (net.Pipe is synchronous), then closes:
			// the write FAILS before the teardown, which must close the socket all the same
			atomic.StoreInt32(&stopReading, 1)
			sendRec(":x!u@h PRIVMSG me :queue")
			time.Sleep(30 * time.Millisecond)
			srv.Close()
			close(stopped)
		case "queued":
			sendRec(":x!u@h PRIVMSG me :queue")
			if term == "close" || term == "quit" {
				waitFire("queued", 3*time.Second)
			}
			terminate()
		}
	}
	scriptDone := make(chan struct{})
	go func() { peerScript(); close(scriptDone) }()

	select {
	case err := <-ret:
		close(connDone)
		o.RetMs = time.Since(start).Milliseconds()
		switch e := err.(type) {
		case nil:
			o.Ret = "nil"
		case *girc.ErrEvent:
			o.Ret = "errevent:" + e.Error()
		default:
			o.Ret = "err:" + err.Error()
		}
	case <-time.After(12 * time.Second):
		o.Ret = "timeout"
		close(connDone)
		o.RetMs = time.Since(start).Milliseconds()
		srv.Close()
		cli.Close()
		select {
		case <-ret:
		case <-time.After(40 * time.Second):
		}
	}
	o.ConnectedAfter = lc.c.IsConnected()
	o.SockClosed = atomic.LoadInt32(&wrapped.closed) > 0
	// the socket must be closed on return: the peer's reader sees EOF
	select {
	case <-readerDone:
	case <-time.After(2 * time.Second):
	}
	srv.Close()
	<-readerDone
	<-scriptDone
	lc.mu.Lock()
	lc.cur = nil
	lc.mu.Unlock()
	o.GAfter = settleGoroutines(o.GBefore)
	return o
}

func lifeSummary(o *lifeObs) string {
	return fmt.Sprintf("conn %d term=%s place=%s peer=%s ret=%q in %dms lifecycle=%v delivered=%d peerEOF=%v connectedAfter=%v goroutines %d->%d chansAtStart=%d quitWritten=%v",
		o.Idx, o.Term, o.Place, o.Peer, o.Ret, o.RetMs, o.Lifecycle, len(o.Delivered), o.PeerEOF, o.ConnectedAfter, o.GBefore, o.GAfter, o.ChansAtStart, o.QuitWritten)
}

// judgeLife evaluates the property's predicates on one connection's observations.
func judgeLife(c *Ctx, hin map[string]string, o *lifeObs, prev *lifeObs) {
	viol := func(name, detail string) {
		c.R.Violation("life."+name, hin, lifeSummary(o), "", detail)
	}
	tag := fmt.Sprintf("c%d", o.Idx)
	if o.Ret == "timeout" {
		viol("no_return", "Connect did not return within 12 s of the terminating event")
		return
	}
	switch o.Term {
	case "close":
		if o.Ret != "nil" {
			viol("close_not_nil", "Connect must return nil after Close()")
		}
	case "quit":
		if o.Ret != "nil" {
			viol("quit_not_nil", "Connect must return nil after Quit()")
		}
		if !o.QuitWritten {
			viol("quit_not_written", "Quit() did not put a QUIT on the wire")
		}
	case "error":
		// The server said ERROR and closed. If the client got to handle the ERROR, Connect must report it
		// and everything sent before it was handled first; if a write hit the closed socket before the
		// ERROR was taken off the wire, the peer's close is what is reported (a non-nil I/O error) and what
		// was handled is a prefix of what was sent.
		var want []string
		for _, l := range o.SentBeforeErr {
			if !strings.HasPrefix(l, "PING") {
				if e := girc.ParseEvent(l); e != nil {
					l = e.String() // the canonical rendering, as the recording handler produces it
				}
				want = append(want, strings.TrimPrefix(l, ":"))
			}
		}
		var got []string
		sawError := false
		for _, l := range o.Delivered {
			// the library's own notifications (CLIENT_CONNECTED, CLIENT_STATE_UPDATED, ...) are not server events
			if !strings.HasPrefix(l, "PING") && !strings.HasPrefix(l, "CLIENT_") {
				got = append(got, strings.TrimPrefix(l, ":"))
			}
			if strings.HasPrefix(l, "ERROR") {
				sawError = true
			}
		}
		if sawError {
			if o.Ret != "errevent:Closing Link: "+tag {
				viol("error_not_errevent", "handlers saw the server's ERROR, so Connect must return an ErrEvent carrying its text")
			}
			// (when the cancellation wins the race, the flush path also hands the lines that FOLLOWED the ERROR to the
			// handlers; the property speaks about what came before it)
			if len(got) < len(want) || strings.Join(got[:len(want)], "\n") != strings.Join(want, "\n") {
				viol("events_before_error", fmt.Sprintf("delivered %d events, the server had sent %d up to and including ERROR; first difference at %d", len(got), len(want), firstDiffIdx(got, want)))
			}
		} else {
			if o.Ret == "nil" || strings.HasPrefix(o.Ret, "errevent:") {
				viol("error_lost", "the ERROR never reached a handler, yet Connect did not report an I/O error")
			}
			// While a foreground handler is busy the client has nothing to write, so no write error can pre-empt the
			// read side: the peer's (synchronous) write of the ERROR completed, i.e. readLoop took it off the wire
			// and queued it before it could see the close. It must be delivered and reported.
			if o.Place == "handler" && o.ErrWritten {
				viol("error_dropped", "the client had read the server's ERROR (and had nothing to write), yet no handler saw it and Connect returned "+o.Ret)
			}
			if len(got) > len(want) || strings.Join(got, "\n") != strings.Join(want[:len(got)], "\n") {
				viol("events_order", "what handlers saw is not a prefix of what the server sent")
			}
		}
	case "eof":
		if o.Ret == "nil" || strings.HasPrefix(o.Ret, "errevent:") {
			viol("eof_not_ioerr", "Connect must return a non-nil I/O error after the peer closes")
		}
	}
	// lifecycle events
	nd, nc := 0, 0
	for _, l := range o.Lifecycle {
		if l == girc.DISCONNECTED {
			nd++
		}
		if l == girc.CLOSED {
			nc++
		}
	}
	if nd != 1 || len(o.Lifecycle) == 0 || o.Lifecycle[len(o.Lifecycle)-1] != girc.DISCONNECTED {
		viol("disconnected_once", "DISCONNECTED must be emitted exactly once, last")
	}
	wantClosed := 0
	if o.Ret == "nil" {
		wantClosed = 1
	}
	if nc != wantClosed || (nc == 1 && (len(o.Lifecycle) < 2 || o.Lifecycle[len(o.Lifecycle)-2] != girc.CLOSED)) {
		viol("closed_iff_requested", "CLOSED must precede DISCONNECTED exactly when the close was requested (Connect returns nil)")
	}
	if o.ConnectedAfter {
		viol("still_connected", "IsConnected() is true after Connect returned")
	}
	if !o.PeerEOF || !o.SockClosed {
		viol("socket_open", "the socket was not closed when Connect returned")
	}
	if o.GAfter > o.GBefore {
		viol("goroutine_leak", fmt.Sprintf("%d goroutines before, %d two seconds after Connect returned", o.GBefore, o.GAfter))
	}
	// a reconnect starts from empty tracked state and sees nothing of the previous connection
	if o.ChansAtStart > 0 || o.UsersAtStart > 0 {
		viol("state_not_empty", fmt.Sprintf("%d channels / %d users tracked right after the welcome of a new connection", o.ChansAtStart, o.UsersAtStart))
	}
	for _, l := range o.Delivered {
		if prev != nil && (strings.Contains(l, fmt.Sprintf("c%d ", prev.Idx)) || strings.HasSuffix(l, fmt.Sprintf("c%d", prev.Idx))) {
			viol("stale_event", "an event received on the previous connection was delivered on this one: "+l)
			break
		}
	}
	if len(o.PeerLines) > 0 && o.PeerLines[0] != "CAP LS 302" {
		viol("stale_output", "the first line of the connection is not the start of registration: "+o.PeerLines[0])
	}
	for _, l := range o.PeerLines {
		if prev != nil && strings.Contains(l, fmt.Sprintf("bye c%d", prev.Idx)) {
			viol("stale_output", "a QUIT queued on the previous connection was written on this one")
		}
	}
}

// modelReplay: synthesise, from what was observed, a canonical schedule of the lifecycle model that
// explains it (every handled event was sent, read and taken; then the terminating cause; then the loops
// wind down) and run it on the Lean model: the model must accept the schedule and end with the same
// return value class, lifecycle events and ERROR delivery as the real client.
func modelReplay(c *Ctx, hin map[string]string, o *lifeObs) {
	var toks []string
	errDelivered := false
	var errText string
	n := 0
	for _, l := range o.Delivered {
		if strings.HasPrefix(l, "CLIENT_") {
			continue
		}
		if strings.HasPrefix(l, "ERROR") {
			if e := girc.ParseEvent(l); e != nil {
				errText = e.Last()
			}
			if !errDelivered {
				toks = append(toks, "pe"+hx(errText), "rt", "et")
				errDelivered = true
				n++
				continue
			}
		}
		if errDelivered {
			break // nothing is taken by execLoop after an ERROR
		}
		toks = append(toks, fmt.Sprintf("ps%d", n), "rt", "et")
		n++
	}
	execRunning := !errDelivered
	pingExit := "pn" // pingLoop leaves through the cancelled context …
	if o.PingOff {
		// … unless pings are disabled: then it returned nil at the very start, and that ended nothing
		pingExit = "pd"
		toks = append([]string{"cfg:pingoff"}, toks...)
	}
	wind := func(sendRunning bool) {
		toks = append(toks, "rc")
		if execRunning {
			toks = append(toks, "ef")
		}
		if sendRunning {
			toks = append(toks, "sc")
		}
		toks = append(toks, pingExit, "mw")
	}
	want := ""
	switch {
	case o.Ret == "nil":
		if o.QuitWritten {
			toks = append(toks, "uq", "st")
			wind(false)
		} else {
			toks = append(toks, "uc")
			wind(true)
		}
		toks = append(toks, "mc", "mt", "md", "mf")
		want = "res=nil emitted=C,D"
	case strings.HasPrefix(o.Ret, "errevent:"):
		toks = append(toks, "pc")
		wind(true)
		toks = append(toks, "mt", "md", "mf")
		want = "res=errevent:" + hx(strings.TrimPrefix(o.Ret, "errevent:")) + " emitted=D"
	default: // an I/O error
		toks = append(toks, "pc", "re")
		if execRunning {
			toks = append(toks, "ef")
		}
		toks = append(toks, "sc", pingExit, "mw", "mt", "md", "mf")
		want = "res=io emitted=D"
	}
	resp := c.L.Call("life.run", strings.Join(toks, ","))
	var lc []string
	for _, l := range o.Lifecycle {
		switch l {
		case girc.CLOSED:
			lc = append(lc, "C")
		case girc.DISCONNECTED:
			lc = append(lc, "D")
		}
	}
	obs := strings.SplitN(want, " ", 2)[0] + " emitted=" + strings.Join(lc, ",")
	if !strings.HasPrefix(resp, obs+" ") {
		c.R.Mismatch("life.model", hin, lifeSummary(o)+" => observed "+obs, resp+" for schedule "+strings.Join(toks, ","))
	}
}

func firstDiffIdx(a, b []string) int {
	for i := 0; i < len(a) && i < len(b); i++ {
		if a[i] != b[i] {
			return i
		}
	}
	if len(a) < len(b) {
		return len(a)
	}
	return len(b)
}

var lifeStuck int

func init() {
	props["C07"] = runC07
	props["lifeprobe"] = func(c *Ctx) {
		// exploration aid: distribution of return values per scenario
		dist := map[string]int{}
		for _, term := range []string{"close", "quit", "error", "eof"} {
			for _, place := range []string{"reg", "burst", "handler", "queued"} {
				for _, peer := range []string{"passive", "error", "close"} {
					if term != "quit" && peer != "passive" {
						continue
					}
					for k := 0; k < 6; k++ {
						lc := newLifeClient()
						o := lc.runLifeConn(0, term, place, peer, c.Rng)
						ret := o.Ret
						if strings.HasPrefix(ret, "err:") {
							ret = "err"
						}
						dist[fmt.Sprintf("%s/%s/%s -> %s lifecycle=%v", term, place, peer, ret, o.Lifecycle)]++
					}
				}
			}
		}
		var keys []string
		for k := range dist {
			keys = append(keys, k)
		}
		sort.Strings(keys)
		for _, k := range keys {
			fmt.Printf("%3d  %s\n", dist[k], k)
		}
	}
	runners["life"] = func(c *Ctx, in map[string]string) {
		hin := hexIn(in)
		if lifeStuck >= 2 {
			return // Connect has already failed to return twice (reported): every further scenario would cost another minute
		}
		terms := strings.Split(in["terms"], ",")
		places := strings.Split(in["places"], ",")
		peers := strings.Split(in["peers"], ",")
		lc := newLifeClient(in["pingoff"] == "1")
		lc.lateSender = in["latesender"] == "1"
		var prev *lifeObs
		for i := range terms {
			o := lc.runLifeConn(i, terms[i], places[i], peers[i], c.Rng)
			o.PingOff = in["pingoff"] == "1"
			judgeLife(c, hin, o, prev)
			if o.Ret != "timeout" {
				modelReplay(c, hin, o)
			}
			c.R.Count(fmt.Sprintf("%s/%s/%s/%d", terms[i], places[i], peers[i], i), true, "term="+terms[i], "place="+places[i], "ret="+strings.SplitN(o.Ret, ":", 2)[0])
			if o.Ret == "timeout" {
				lifeStuck++
				return
			}
			prev = o
		}
	}
}

func runC07(c *Ctx) {
	c.R.Rule = "one client, three consecutive connections each; every connection ended by one of Close/Quit/ERROR/EOF at one of four placements (during registration, mid-burst, while a foreground handler runs, with 18 outputs queued) against a peer that answers QUIT passively, with ERROR, or by closing; " +
		"judged by the property's predicates (return value class, bounded return, events before ERROR delivered in order, CLOSED/DISCONNECTED, socket closed, IsConnected, goroutines, empty tracked state and no stale input/output on reconnect); non-trivial = every case"
	terms := []string{"close", "quit", "error", "eof"}
	places := []string{"reg", "burst", "handler", "queued"}
	peers := []string{"passive", "error", "close"}
	n := 0
	// the full matrix once (as the first connection), then random triples
	for _, t := range terms {
		for _, p := range places {
			for _, pe := range peers {
				if t != "quit" && pe != "passive" {
					continue
				}
				t2, p2 := terms[c.Rng.Intn(4)], places[c.Rng.Intn(4)]
				in := map[string]string{"terms": t + "," + t2 + ",close", "places": p + "," + p2 + ",burst", "peers": pe + "," + peers[c.Rng.Intn(3)] + ",passive"}
				c.run("life", in)
				n++
			}
		}
	}
	for _, t2 := range []string{"close", "eof"} {
		c.run("life", map[string]string{"terms": "eof," + t2 + ",close", "places": "midwrite,burst,burst", "peers": "passive,passive,passive"})
		n++
	}
	// keep-alive pings disabled (Config.PingDelay < 0): one loop of the group returns nil at once; the connection
	// must live until it is ended by one of the four causes all the same
	for _, t := range terms {
		c.run("life", map[string]string{"pingoff": "1", "terms": t + "," + terms[c.Rng.Intn(4)] + ",close", "places": places[c.Rng.Intn(4)] + ",handler,burst", "peers": "passive,passive,passive"})
		n++
	}
	// real TCP sockets on the loopback interface: the server ends the connection by FIN and by RST
	for _, how := range []string{"fin", "rst"} {
		c.run("tcprst", map[string]string{"how": how})
		n++
	}
	// an application whose DISCONNECTED handler still sends and quits: the next connection starts clean all the same
	for _, t := range []string{"close", "error", "eof"} {
		c.run("life", map[string]string{"latesender": "1", "terms": t + "," + terms[c.Rng.Intn(4)] + ",close", "places": "burst," + places[c.Rng.Intn(4)] + ",reg", "peers": "passive,passive,passive"})
		n++
	}
	// a session that follows a FAILED transport upgrade: Close() ends it for good (Connect returns nil, no further dial)
	c.run("stsfailedthenclose", map[string]string{"scenario": "ack, refused redial, plain session, Close"})
	n++
	// several events and the ERROR queued behind a busy foreground handler, more than once per run
	for i := 0; i < 4; i++ {
		c.run("life", map[string]string{"terms": "error,error,error", "places": "handler,handler,handler", "peers": "passive,passive,passive"})
		n++
	}
	for i := 0; i < 6*(c.Scale-1); i++ {
		var ts, ps, pes []string
		for k := 0; k < 3; k++ {
			ts = append(ts, terms[c.Rng.Intn(4)])
			ps = append(ps, places[c.Rng.Intn(4)])
			pes = append(pes, peers[c.Rng.Intn(3)])
		}
		in := map[string]string{"terms": strings.Join(ts, ","), "places": strings.Join(ps, ","), "peers": strings.Join(pes, ",")}
		if c.Rng.Chance(20) {
			in["pingoff"] = "1"
		}
		c.run("life", in)
		n++
	}
	c.R.Traces = n * 3
}
