import Girc.Spec.Sim
import Girc.Proofs.InvHandlers
import Girc.Proofs.SimLeaveOps
/-
  C04 proofs, part 4: messages that remove members (PART, KICK, QUIT), with users forgotten exactly
  when they share no tracked channel.
  In every statement `st`/`r` are the states AFTER the account-tag step.
-/
namespace Girc.Proofs.SimLeave
open Girc Girc.Model Girc.Spec Girc.Proofs.InvBase

/-- "Is this me" is the same question on both sides. -/
theorem isMe_iff {st : St} {r : Ref} (h : Sim st r) (cfg : Cfg) (n : Bytes) :
    r.isMe cfg n = true ↔ fold n = getID cfg st := by
  unfold Ref.isMe Ref.myNick getID getNick
  rw [h.nick]
  simp

theorem isMember_iff (r : Ref) (c u : Bytes) : r.isMember c u = true ↔ (c, u) ∈ r.members := by
  unfold Ref.isMember
  exact List.contains_iff_mem

/-! ### what the reference does -/

theorem cmdStep_PART (cfg : Cfg) (r : Ref) (e : Event) (hcmd : e.command = cPART) :
    r.cmdStep cfg e =
      (match e.source, e.params with
       | some src, chan :: _ =>
         if chan.isEmpty then r
         else if r.isMe cfg src.name then r.dropChan (fold chan)
         else if AMap.contains r.chans (fold chan) then r.dropMember (fold chan) (fold src.name) else r
       | _, _ => r) := by
  unfold Ref.cmdStep
  simp only [hcmd, show cPART ≠ c001 from by decide, show cPART ≠ cJOIN from by decide, if_false, if_true]
  rfl

theorem cmdStep_KICK (cfg : Cfg) (r : Ref) (e : Event) (hcmd : e.command = cKICK) :
    r.cmdStep cfg e =
      (match e.params with
       | chan :: victim :: _ =>
         if r.isMe cfg victim then r.dropChan (fold chan)
         else if AMap.contains r.chans (fold chan) then r.dropMember (fold chan) (fold victim) else r
       | _ => r) := by
  unfold Ref.cmdStep
  simp only [hcmd, show cKICK ≠ c001 from by decide, show cKICK ≠ cJOIN from by decide,
    show cKICK ≠ cPART from by decide, if_false, if_true]
  rfl

theorem cmdStep_QUIT (cfg : Cfg) (r : Ref) (e : Event) (hcmd : e.command = cQUIT) :
    r.cmdStep cfg e =
      (match e.source with
       | some src => if r.isMe cfg src.name then r else r.dropUser (fold src.name)
       | none => r) := by
  unfold Ref.cmdStep
  simp only [hcmd, show cQUIT ≠ c001 from by decide, show cQUIT ≠ cJOIN from by decide,
    show cQUIT ≠ cPART from by decide, show cQUIT ≠ cKICK from by decide, if_false, if_true]
  rfl

/-! ### what a conformant server sends -/

theorem conformant_PART {cfg : Cfg} {r : Ref} {e : Event} (hc : r.conformant cfg e = true)
    (hcmd : e.command = cPART) :
    ∃ src chan rest, e.source = some src ∧ e.params = chan :: rest ∧
      r.knownChan chan = true ∧ r.isMember (fold chan) (fold src.name) = true := by
  unfold Ref.conformant at hc
  simp only [hcmd, show cPART ≠ cJOIN from by decide, if_false, if_true, Bool.and_eq_true] at hc
  obtain ⟨_, _, hm⟩ := hc
  cases hs : e.source with
  | none => rw [hs] at hm; simp at hm
  | some src =>
    cases hp : e.params with
    | nil => rw [hs, hp] at hm; simp at hm
    | cons chan rest =>
      rw [hs, hp] at hm
      simp only [Bool.and_eq_true] at hm
      exact ⟨src, chan, rest, rfl, rfl, hm.1, hm.2⟩

theorem conformant_KICK {cfg : Cfg} {r : Ref} {e : Event} (hc : r.conformant cfg e = true)
    (hcmd : e.command = cKICK) :
    ∃ chan victim rest, e.params = chan :: victim :: rest ∧
      r.knownChan chan = true ∧ r.isMember (fold chan) (fold victim) = true := by
  unfold Ref.conformant at hc
  simp only [hcmd, show cKICK ≠ cJOIN from by decide, show cKICK ≠ cPART from by decide,
    if_false, if_true, Bool.and_eq_true] at hc
  obtain ⟨_, hm⟩ := hc
  cases hp : e.params with
  | nil => rw [hp] at hm; simp at hm
  | cons chan l =>
    cases l with
    | nil => rw [hp] at hm; simp at hm
    | cons victim rest =>
      rw [hp] at hm
      simp only [Bool.and_eq_true] at hm
      exact ⟨chan, victim, rest, rfl, hm.1, hm.2⟩

theorem conformant_QUIT {cfg : Cfg} {r : Ref} {e : Event} (hc : r.conformant cfg e = true)
    (hcmd : e.command = cQUIT) :
    ∃ src, e.source = some src ∧ r.knownUser src.name = true ∧ r.isMe cfg src.name = false := by
  unfold Ref.conformant at hc
  simp only [hcmd, show cQUIT ≠ cJOIN from by decide, show cQUIT ≠ cPART from by decide,
    show cQUIT ≠ cKICK from by decide, if_false, if_true, Bool.and_eq_true] at hc
  obtain ⟨_, _, hm⟩ := hc
  cases hs : e.source with
  | none => rw [hs] at hm; simp at hm
  | some src =>
    rw [hs] at hm
    simp only [Bool.and_eq_true, Bool.not_eq_true'] at hm
    exact ⟨src, rfl, hm.1, hm.2⟩

/-! ### the three messages -/

theorem sim_PART {st : St} {r : Ref} (cfg : Cfg) (e : Event) (h : Sim st r)
    (hc : r.conformant cfg e = true) (hcmd : e.command = cPART) :
    ∃ st', handlePART cfg st e = .ok st' ∧ Sim st' (r.cmdStep cfg e) := by
  obtain ⟨src, chan, rest, hs, hp, hkc, hm⟩ := conformant_PART hc hcmd
  have hkc : AMap.contains r.chans (fold chan) = true := hkc
  rw [cmdStep_PART cfg r e hcmd]
  unfold handlePART
  rw [hs, hp]
  simp only []
  by_cases hemp : chan = []
  · subst hemp
    exact ⟨st, by simp, by simpa using h⟩
  · have hemp' : chan.isEmpty = false := by simpa using hemp
    rw [if_neg hemp, hemp']
    simp only [Bool.false_eq_true, if_false]
    by_cases hme : fold src.name = getID cfg st
    · rw [if_pos hme, if_pos ((isMe_iff h cfg src.name).mpr hme)]
      exact sim_dropChan h chan hkc
    · have hme' : ¬ r.isMe cfg src.name = true := fun hh => hme ((isMe_iff h cfg src.name).mp hh)
      rw [if_neg hme, if_neg hme', if_pos hkc]
      have := sim_dropMember h chan (fold src.name) hemp
        (by rw [fold_idem]; exact (isMember_iff r _ _).mp hm)
      rw [fold_idem] at this
      exact this

theorem sim_KICK {st : St} {r : Ref} (cfg : Cfg) (e : Event) (h : Sim st r)
    (hc : r.conformant cfg e = true) (hcmd : e.command = cKICK) :
    ∃ st', handleKICK cfg st e = .ok st' ∧ Sim st' (r.cmdStep cfg e) := by
  obtain ⟨chan, victim, rest, hp, hkc, hm⟩ := conformant_KICK hc hcmd
  have hkc : AMap.contains r.chans (fold chan) = true := hkc
  rw [cmdStep_KICK cfg r e hcmd]
  have hrun : handleKICK cfg st e =
      (if fold victim = getID cfg st then st.deleteChannel chan else st.deleteUser chan victim) := by
    unfold handleKICK
    rw [hp]
    rfl
  rw [hrun, hp]
  simp only []
  by_cases hme : fold victim = getID cfg st
  · rw [if_pos hme, if_pos ((isMe_iff h cfg victim).mpr hme)]
    exact sim_dropChan h chan hkc
  · have hme' : ¬ r.isMe cfg victim = true := fun hh => hme ((isMe_iff h cfg victim).mp hh)
    rw [if_neg hme, if_neg hme', if_pos hkc]
    have hemp : chan ≠ [] := by
      intro e'
      exact h.chanKeysNonempty (fold chan) hkc (by rw [e']; rfl)
    exact sim_dropMember h chan victim hemp ((isMember_iff r _ _).mp hm)

theorem sim_QUIT {st : St} {r : Ref} (cfg : Cfg) (e : Event) (h : Sim st r)
    (hc : r.conformant cfg e = true) (hcmd : e.command = cQUIT) :
    ∃ st', handleQUIT cfg st e = .ok st' ∧ Sim st' (r.cmdStep cfg e) := by
  obtain ⟨src, hs, hku, hnme⟩ := conformant_QUIT hc hcmd
  rw [cmdStep_QUIT cfg r e hcmd]
  unfold handleQUIT
  rw [hs]
  simp only []
  have hme : ¬ fold src.name = getID cfg st := by
    intro hh
    rw [(isMe_iff h cfg src.name).mpr hh] at hnme
    cases hnme
  rw [if_neg hme, hnme]
  simp only [Bool.false_eq_true, if_false]
  have := sim_dropUser h (fold src.name) (by rw [fold_idem]; exact hku)
  rw [fold_idem] at this
  exact this

end Girc.Proofs.SimLeave
