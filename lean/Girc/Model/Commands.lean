import Girc.Model.Handlers
/-
  Model of commands.go: what each helper hands to `Send` (or, for Ping/Pong, to `write`).
  Join/List take the current MaxEventLength.
-/
namespace Girc.Model
open Girc

def b (s : String) : Bytes := s.toUTF8.toList

/-- The batching loop of `Join`/`List` (after the repair: a channel that does not fit flushes the
    batch and starts the next one). `max` = MaxEventLength − len(cmd) − 1. -/
def batchChannels (max : Int) : List Bytes → Bytes → List Bytes
  | [], buffer => [buffer]        -- `if i == len(channels)-1 { Send(buffer) }`: always, even if empty
  | ch :: rest, buffer =>
    if !buffer.isEmpty && ((buffer ++ [0x2C] ++ ch).length : Int) > max then
      buffer :: batchChannels max rest ch
    else
      batchChannels max rest (if buffer.isEmpty then ch else buffer ++ [0x2C] ++ ch)

def joinBatches (max : Int) (channels : List Bytes) : List Bytes :=
  match channels with
  | [] => []
  | _ => batchChannels max channels []

def ev (cmd : String) (ps : List Bytes) : Event := { command := b cmd, params := ps }

/-- `Commands.*`: the `Out`s of one helper call. `maxEventLength` is read when the call is made. -/
def helperOuts (maxEventLength : Int) (name : Bytes) (a : List Bytes) : List Out :=
  let arg (i : Nat) : Bytes := a.getD i []
  let n := String.fromUTF8? (ByteArray.mk name.toArray) |>.getD ""
  match n with
  | "Nick" => [.send (ev "NICK" [arg 0])]
  | "Join" => (joinBatches (maxEventLength - 4 - 1) a).map fun bch => .send (ev "JOIN" [bch])
  | "JoinKey" => [.send (ev "JOIN" [arg 0, arg 1])]
  | "Part" => a.map fun c => .send (ev "PART" [c])
  | "PartMessage" => [.send (ev "PART" [arg 0, arg 1])]
  | "Message" => [.send (ev "PRIVMSG" [arg 0, arg 1])]
  | "Notice" => [.send (ev "NOTICE" [arg 0, arg 1])]
  | "Action" => [.send (ev "PRIVMSG" [arg 0, [0x01] ++ b "ACTION " ++ arg 1 ++ [0x01]])]
  | "Topic" => [.send (ev "TOPIC" [arg 0, arg 1])]
  | "Kick" => (if (arg 2).isEmpty then [] else [.send (ev "KICK" [arg 0, arg 1, arg 2])]) ++ [.send (ev "KICK" [arg 0, arg 1])]
  | "Mode" => [.send (ev "MODE" ([arg 0, arg 1] ++ a.drop 2))]
  | "Ban" => [.send (ev "MODE" [arg 0, b "+b", arg 1])]
  | "Invite" => (a.drop 1).map fun u => .send (ev "INVITE" [u, arg 0])
  | "Away" => if (arg 0).isEmpty then [.send (ev "AWAY" [])] else [.send (ev "AWAY" [arg 0])]
  | "List" => if a.isEmpty then [.send (ev "LIST" [])] else (joinBatches (maxEventLength - 4 - 1) a).map fun bch => .send (ev "LIST" [bch])
  | "Who" => a.map fun u => .send (ev "WHO" [u, b "%tcuhnr,2"])
  | "Whois" => a.map fun u => .send (ev "WHOIS" [u])
  | "Whowas" => [.send (ev "WHOWAS" [arg 0, b "3"])]
  | "Oper" => [.send (ev "OPER" [arg 0, arg 1])]
  | "Ping" => [.write (ev "PING" [arg 0])]
  | "Pong" => [.write (ev "PONG" [arg 0])]
  | "Monitor" => [.send (ev "MONITOR" ([b "+"] ++ a))]
  | "SendCTCP" => let o := encodeCTCPRaw (arg 1) (arg 2); if o.isEmpty then [] else [.send (ev "PRIVMSG" [arg 0, o])]
  | "SendCTCPReply" => let o := encodeCTCPRaw (arg 1) (arg 2); if o.isEmpty then [] else [.send (ev "NOTICE" [arg 0, o])]
  | "Quit" => [.send (ev "QUIT" [arg 0])]
  | "SendEvent" => [.send { command := arg 0, params := a.drop 1 }]
  -- `SendRaw(lines...)`: every line is parsed and sent, up to the first one that does not parse
  | "SendRaw" => ((a.map parseEvent).takeWhile Option.isSome).filterMap (fun o => o.map Out.send)
  | _ => []

/-- `MaxEventLength()` -/
def maxEventLength (cfg : Cfg) (st : St) : Int :=
  if cfg.disableTracking then 510 - 115 else st.maxLineLength - st.maxPrefixLength

end Girc.Model
