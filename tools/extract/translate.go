// translate.go: a syntax-directed translator from a small, documented subset of Go to Lean 4.
//
// It regenerates lean/Girc/Gen/Funcs.lean from the Go sources on every extractor run.  The output is
// ordinary Lean `do`-notation in the `Except Fault` monad over the run-time of Girc/Base/GoSem.lean:
//
//	Go string / []byte  ->  Bytes (List UInt8)        byte -> UInt8 (wraps)      int -> Int
//	bool -> Bool        []string -> List Bytes        *T -> Option T             map[string]string -> Option Tags
//	s[i]   -> (<- atI s i)      s[a:b] -> (<- sliceI s a b)      p.f -> (<- deref p).f    (a Go panic is Except.error)
//	a && b -> (a && b) when b cannot panic, otherwise (<- andE (do pure a) (do pure b))    (short circuit kept)
//	for    -> a fuel-bounded recursive helper F_loopK (fuel, carried variables) returning LoopR.done / LoopR.ret
//
// The translation is generic: there is no per-function template.  The only per-project tables are
//   - targets      – which functions to translate,
//   - structTable  – which fields of which Go structs exist in the Lean structures,
//   - stdlibTable  – the NAMED Lean model of each standard-library call.
//
// Fail-closed: a target that is missing or uses a construct outside the subset is emitted as
//
//	def F … : Except Fault T := .error (.unsupported "reason")
//
// so that the equivalence theorem in Girc/Proofs/Trans*.lean stops building.
package main

import (
	"fmt"
	"go/ast"
	"go/parser"
	"go/token"
	"os"
	"path/filepath"
	"sort"
	"strconv"
	"strings"
)

// ---------------------------------------------------------------------------------------------
// tables
// ---------------------------------------------------------------------------------------------

// target functions: {Go name, receiver type ("" for plain functions)}.  The Lean name is the Go name,
// prefixed with "<Recv>_" for methods.
var trTargets = [][2]string{
	{"ToRFC1459", ""}, {"IsValidNick", ""}, {"IsValidUser", ""}, {"IsValidChannel", ""},
	{"validTag", ""}, {"validTagValue", ""},
	{"IsValidChannelMode", ""}, {"isValidUserPrefix", ""}, {"parsePrefixes", ""},
	{"EncodeCTCPRaw", ""}, {"DecodeCTCP", ""},
	{"ParseSource", ""}, {"Len", "Source"}, {"writeTo", "Source"},
	{"Glob", ""},
	{"Get", "Tags"}, {"ParseTags", ""}, {"ParseEvent", ""},
	{"Bytes", "Tags"}, {"writeTo", "Tags"}, {"Len", "Tags"}, {"Set", "Tags"},
	{"LenOpts", "Event"}, {"Len", "Event"}, {"Bytes", "Event"},
	{"Bytes", "Source"}, {"String", "Source"},
	{"Last", "Event"}, {"IsCTCP", "Event"}, {"IsAction", "Event"}, {"StripAction", "Event"},
	{"IsFromChannel", "Event"}, {"IsFromUser", "Event"},
	{"ID", "Source"}, {"Equals", "Source"}, {"IsHostmask", "Source"}, {"IsServer", "Source"},
	{"parseUserPrefix", ""}, {"hasArg", "CModes"},
	{"TrimFmt", ""}, {"Fmt", ""}, {"StripRaw", ""},
	// phase 3: value-level pieces of the stateful code
	{"NewCModes", ""}, {"Parse", "CModes"}, {"Apply", "CModes"}, {"Get", "CModes"}, {"HasMode", "CModes"},
	{"String", "CModes"}, {"Copy", "CModes"},
	{"reset", "Perms"}, {"set", "Perms"}, {"setFromMode", "Perms"}, {"IsAdmin", "Perms"}, {"IsTrusted", "Perms"},
	{"InChannel", "User"}, {"addChannel", "User"}, {"deleteChannel", "User"},
	{"UserIn", "Channel"}, {"addUser", "Channel"}, {"deleteUser", "Channel"},
	{"Encode", "SASLPlain"}, {"Encode", "SASLExternal"},
	{"rate", "ircConn"},
	{"Join", "Commands"}, {"List", "Commands"}, {"Part", "Commands"}, {"Kick", "Commands"}, {"Mode", "Commands"},
	{"Ban", "Commands"}, {"Invite", "Commands"}, {"Back", "Commands"}, {"Away", "Commands"}, {"Who", "Commands"},
	{"Whois", "Commands"}, {"Ping", "Commands"}, {"Pong", "Commands"},
	{"parseCap", ""},
	{"Nick", "Commands"}, {"JoinKey", "Commands"}, {"PartMessage", "Commands"}, {"Message", "Commands"},
	{"Notice", "Commands"}, {"Action", "Commands"}, {"Topic", "Commands"}, {"Oper", "Commands"}, {"Unban", "Commands"},
	{"SendRaw", "Commands"},
	// phase 4: the splitter's event side, the remaining value-level helpers, the STS clock predicates
	{"Copy", "Source"}, {"Copy", "Event"}, {"split", "Event"},
	{"sliceInsert", ""},
	{"Count", "Tags"}, {"Keys", "Tags"}, {"Equals", "Tags"}, {"Remove", "Tags"},
	{"Equals", "Event"}, {"String", "Event"},
	{"EncodeCTCP", ""}, {"parseCMD", "CTCP"},
	{"expired", "strictTransport"}, {"enabled", "strictTransport"}, {"reset", "strictTransport"},
}

// suffix targets: the TAIL of a function that is otherwise outside the subset (a handler whose first part reads client
// state).  The generated function `lean` is the translation of the body from the first top-level statement of kind
// `from` ("for") to the end; the variables declared before that point which the tail uses (`captured`, with their Go
// types – the translator has no type checker for the untranslated part, so the types are table entries and a wrong
// entry makes the generated Lean ill-typed) become parameters, after the function's own parameters that the tail uses.
type suffixTarget struct {
	fn, recv, lean, from string
	captured             [][2]string
}

var trSuffixTargets = []suffixTarget{
	{"handleSASL", "", "handleSASL_chunks", "for", [][2]string{{"auth", "string"}}},
}

// structTable: Go struct -> the fields that exist in the Lean structure of the same name
// (Girc/Base/GoSem.lean).  The Lean field name is the Go name with a lower-case first letter.  Other
// fields of the Go struct are outside the model: writing them is dropped, reading them is unsupported.
var structTable = map[string][]string{
	"Source":    {"Name", "Ident", "Host"},
	"Event":     {"Tags", "Source", "Command", "Params"},
	"CTCPEvent": {"Source", "Command", "Text", "Reply"},
	"CMode":     {"add", "name", "setting", "args"},
	"CModes":    {"raw", "modesListArgs", "modesArgs", "modesSetArgs", "modesNoArgs", "prefixes", "modes"},
	"Perms":     {"Owner", "Admin", "Op", "HalfOp", "Voice"},
	// User: the Lean structure has further fields (perms, name, account, away) the translator does not know: a struct
	// with unlisted Lean fields can be read and updated through a pointer but never built by translated code (structOpaque).
	"User":            {"Nick", "Ident", "Host", "ChannelList"},
	"Channel":         {"Name", "Topic", "UserList", "Modes"},
	"SASLPlain":       {"User", "Pass"},
	"SASLExternal":    {"Identity"},
	"ircConn":         {"lastWrite", "lastDue", "writeDelay"},
	"strictTransport": {"beginUpgrade", "upgradePort", "persistenceDuration", "persistenceReceived", "preload", "lastFailed"},
}

// leanStructName: Go struct -> Lean structure where the names differ.
var leanStructName = map[string]string{"ircConn": "IrcConn", "strictTransport": "StrictTransport"}

func leanStruct(n string) string {
	if l, ok := leanStructName[n]; ok {
		return l
	}
	return n
}

// typeAliasTable: library types that are represented by a kind of the subset.  time.Time and time.Duration are both
// integer nanoseconds (TRUSTED, TRANSLATOR_NOTES §3: wall/monotonic clock readings are one Int; Go's own type checker
// keeps instants and durations apart).
var typeAliasTable = map[string]kind{"time.Time": kInt, "time.Duration": kInt}

// pkgQualifiedConsts: typed library constants.
var pkgQualifiedConsts = map[string]string{
	"time.Nanosecond": "1", "time.Microsecond": "1000", "time.Millisecond": "1000000", "time.Second": "1000000000",
	"time.Minute": "60000000000", "time.Hour": "3600000000000",
}

// timeMethodTable: methods of time.Time / time.Duration values (both kInt; Go ints have no methods, so a method call on
// a kInt expression is one of these).  $0 = receiver, $1 = argument.
var timeMethodTable = map[string]struct {
	tmpl string
	ret  kind
}{
	"After":  {"(decide ($0 > $1))", kBool},
	"Before": {"(decide ($0 < $1))", kBool},
	"Equal":  {"($0 == $1)", kBool},
	"Sub":    {"($0 - $1)", kInt},
	"Add":    {"($0 + $1)", kInt},
}

// handleTypes: parameter types that are handles on the client object.  Such a parameter is DROPPED from the generated
// signature; the body may use it only as the root of a sink call (sinkTable) or of an environment read (envReadTable),
// or to call another translated method of the same handle type.
var handleTypes = map[string]bool{"Commands": true, "Client": true, "CTCP": true}

// sinkTable: "effect calls".  A call statement `<text>(arg)` appends `<constructor> arg` to the output list `outs_`,
// which becomes the LAST result of the generated function (and of every translated function that calls it).
var sinkTable = map[string]string{
	"c.write": "Out.write", "c.Send": "Out.send", "c.receive": "Out.inject",
	"cmd.c.write": "Out.write", "cmd.c.Send": "Out.send",
}

// envReadTable: calls that READ state outside the model (client state, the clock).  Each becomes an explicit leading
// parameter of the generated function; it may occur only once and not inside a loop (it is read once).
var envReadTable = map[string]struct {
	param string
	k     kind
}{
	"cmd.c.MaxEventLength()": {"maxEventLength", kInt},
	"time.Now()":             {"now", kInt},
}

// structOpaque: structs of structTable that have further Lean fields the translator does not know; composite
// literals, `new` and zero values of these are outside the subset.
var structOpaque = map[string]bool{"User": true}

// fieldRename: Go field -> Lean field where the hand-written structure uses another name (default: the Go
// name with a lower-case first letter).
var fieldRename = map[string]string{
	"CModes.modesListArgs": "listArgs", "CModes.modesArgs": "argsM", "CModes.modesSetArgs": "setArgs",
	"CModes.modesNoArgs": "noArgs",
	"Perms.HalfOp":       "halfop", "User.ChannelList": "chans", "Channel.UserList": "users",
}

func leanField(st, goField string) string {
	if n, ok := fieldRename[st+"."+goField]; ok {
		return n
	}
	return lowerFirst(goField)
}

// stdlibTable: Go call -> Lean term template ($1, $2 … = translated arguments), argument kinds, result
// kind, and whether the Lean term is in `Except Fault` (can fail).  The assumed behaviour of each entry
// is documented at the Lean definition (Girc/Base/GoSem.lean, GoLib.lean, Bytes.lean, Utf8.lean).
type libFn struct {
	tmpl string
	args []kind
	ret  kind
	eff  bool
}

var stdlibTable = map[string]libFn{
	"strings.IndexByte":                 {"indexByteI $1 $2", []kind{kStr, kByte}, kInt, false},
	"bytes.IndexByte":                   {"indexByteI $1 $2", []kind{kStr, kByte}, kInt, false},
	"strings.Index":                     {"indexI $1 $2", []kind{kStr, kStr}, kInt, false},
	"strings.Contains":                  {"containsSub $1 $2", []kind{kStr, kStr}, kBool, false},
	"strings.HasPrefix":                 {"hasPrefix $1 $2", []kind{kStr, kStr}, kBool, false},
	"strings.HasSuffix":                 {"hasSuffix $1 $2", []kind{kStr, kStr}, kBool, false},
	"strings.Split":                     {"split $1 $2", []kind{kStr, kStr}, kStrs, true},
	"strings.SplitN":                    {"splitN $1 $2 $3", []kind{kStr, kStr, kInt}, kStrs, true},
	"base64.StdEncoding.EncodeToString": {"b64Encode $1", []kind{kStr}, kStr, false},
	"strings.ToUpper":                   {"toUpperAscii $1", []kind{kStr}, kStr, false},
	"strings.ToLower":                   {"toLowerAscii $1", []kind{kStr}, kStr, false},
	"strings.ReplaceAll":                {"replaceAll $1 $2 $3", []kind{kStr, kStr, kStr}, kStr, true},
	"bytes.ToValidUTF8":                 {"toValidUTF8 $2 $1", []kind{kStr, kStr}, kStr, false},
	// function-valued argument: keyed by "callee/argument name"
	"strings.TrimFunc/cutCRFunc": {"trimCRLF $1", []kind{kStr}, kStr, false},
	// package-local one-line wrapper around strings.FieldsFunc (its predicate is pinned in Gen/Facts.lean)
	"splitParams": {"fieldsSp $1", []kind{kStr}, kStrs, false},
}

// modelCalleeTable ("package-local callee table"): functions of the package that are NOT translated; a call is mapped to
// a designated hand-written MODEL function (TRUSTED: the harness' correspondence stream named in `covered` compares the
// Go function with that model).  `params` become extra leading parameters of every generated function that calls it
// directly (such a function cannot be called from another translated function: fail-closed); `imp` is imported by
// Funcs.lean.  The entry is used only while the Go function has exactly the parameter / result types listed here and is
// not itself a translation target.
type modelCallee struct {
	tmpl    string
	args    []kind
	ret     kind
	eff     bool
	params  [][2]string
	imp     string
	covered string
}

var modelCalleeTable = map[string]modelCallee{
	"splitMessage": {"splitMessageGo isURL $1 $2", []kind{kStr, kInt}, kStrs, true,
		[][2]string{{"isURL", "Bytes → Bool"}}, "Girc.Model.Split", "C11 stream: Go splitMessage vs the model op `splitmsg`"},
}

// regexDeleteTable: `X.ReplaceAllString(s, "")` for a package-level `var X = regexp.MustCompile(<pattern>)`: the
// regular expression, keyed by its SOURCE TEXT, is mapped to a hand-written matcher (TRUSTED; the harness compares the
// matcher with the real regexp in its stdlib stream).  A changed pattern is not in the table: fail-closed.
var regexDeleteTable = map[string]string{
	`\x03([019]?\d(,[019]?\d)?)`: "stripColor $1",
}

// stdlibProcTable: library procedures that update their (single, local-variable) argument in place:
// Go call -> Lean function applied to the old value, and the kind of the argument.
var stdlibProcTable = map[string]struct {
	fn  string
	arg kind
}{
	"sort.Strings": {"sortStrings", kStrs},
}

// ---------------------------------------------------------------------------------------------
// types
// ---------------------------------------------------------------------------------------------

type kind int

const (
	kInvalid kind = iota
	kInt
	kByte
	kBool
	kStr     // string or []byte
	kStrs    // []string
	kStructs // []S for a struct S of structTable
	kPtrs    // []*S for a struct S of structTable (phase 4: `[]*Event`)
	kOuts    // the output list of sink calls (`outs_ : List Out`)
	kMapMap  // map[string]map[string]string, nil-able; the inner maps are values (no two entries alias, §2.5)
	kPtr     // *Struct
	kStruct
	kBuf  // *bytes.Buffer (threaded as Bytes)
	kMap  // Tags (map[string]string), nil-able
	kErr  // error: nil or an abstract error value (the message text is not modelled)
	kUInt // untyped integer constant
	kURune
	kNil
)

type gty struct {
	k    kind
	name string // struct name for kPtr / kStruct
}

func (t gty) lean() string {
	switch t.k {
	case kInt, kUInt:
		return "Int"
	case kByte, kURune:
		return "UInt8"
	case kBool:
		return "Bool"
	case kStr, kBuf:
		return "Bytes"
	case kStrs:
		return "List Bytes"
	case kPtr:
		return "Option " + leanStruct(t.name)
	case kStruct:
		return leanStruct(t.name)
	case kStructs:
		return "List " + leanStruct(t.name)
	case kPtrs:
		return "List (Option " + leanStruct(t.name) + ")"
	case kOuts:
		return "List Out"
	case kMapMap:
		return "Option (AMap (Option Tags))"
	case kMap:
		return "Option Tags"
	case kErr:
		return "Option GoErr"
	}
	return "?"
}

func leanTuple(ts []gty) string {
	if len(ts) == 0 {
		return "Unit"
	}
	parts := make([]string, len(ts))
	for i, t := range ts {
		parts[i] = t.lean()
		if len(ts) > 1 && strings.Contains(parts[i], " ") {
			parts[i] = "(" + parts[i] + ")"
		}
	}
	return strings.Join(parts, " × ")
}

func tupleVal(vs []string) string {
	switch len(vs) {
	case 0:
		return "()"
	case 1:
		return vs[0]
	}
	return "(" + strings.Join(vs, ", ") + ")"
}

type unsupported struct{ msg string }

var leanReserved = map[string]bool{"match": true, "end": true, "from": true, "at": true, "fun": true, "have": true,
	"show": true, "then": true, "do": true, "in": true, "let": true, "mut": true, "open": true, "instance": true,
	"where": true, "with": true, "if": true, "else": true, "def": true, "theorem": true, "fuel": true, "len": true,
	"ret_": true, "st_": true, "some": true, "none": true, "pure": true, "return": true, "for": true, "unless": true,
	"try": true, "catch": true, "finally": true, "by": true, "Type": true, "Prop": true, "split": true, "prefix": true,
	"infix": true, "postfix": true, "notation": true, "section": true, "namespace": true, "variable": true,
	"deriving": true, "structure": true, "class": true, "inductive": true, "export": true, "import": true,
	"private": true, "protected": true, "partial": true, "unsafe": true, "macro": true, "syntax": true, "local": true}

func leanVar(s string) string {
	if leanReserved[s] {
		return s + "_"
	}
	return s
}

func lowerFirst(s string) string {
	if s == "" {
		return s
	}
	return strings.ToLower(s[:1]) + s[1:]
}

// ---------------------------------------------------------------------------------------------
// generator state
// ---------------------------------------------------------------------------------------------

type trGen struct {
	p       *pkgFiles
	repo    string
	consts  map[string]string // Lean const name -> definition line
	sigs    map[string]*trSig // Lean function name -> signature (targets only)
	defs    map[string]string // Lean function name -> emitted text
	deps    map[string][]string
	status  map[string]string // Lean function name -> "" (ok) or reason
	busy    map[string]bool
	imports map[string]bool // extra Lean modules Funcs.lean imports (model callees)
}

type trSig struct {
	name    string
	fd      *ast.FuncDecl
	params  []trParam // receiver first
	rets    []gty
	inout   []string        // names of in-out (buffer) parameters, appended to the results
	orders  []string        // package-level maps the body ranges over: one extra leading parameter `<map>_order_` each
	mapout  []string        // map parameters whose entries the body assigns (caller-visible): appended to the results after the buffers
	rebound map[string]bool // map-out parameters that the body also re-binds (`t = make(Tags)`)
	// phase 3
	handles  map[string]string // dropped handle parameters: Go name -> type name (handleTypes)
	envs     []string          // environment reads (keys of envReadTable) in the body: one leading parameter each
	caps     []string          // slice parameters whose capacity the body reads (`cap(p)`): one leading parameter `<p>_spare_` each (§2.16)
	models   []string          // model callees (keys of modelCalleeTable) the body calls: their extra leading parameters
	ptrout   []string          // pointer parameters the body writes THROUGH (`p.f = e`): the final pointer is an extra result
	sinks    bool              // the body (or a callee) calls a sink: `outs_ : List Out` is the last result
	variadic bool              // the last parameter is `xs ...T`
	body     *ast.BlockStmt    // what is translated: the whole body, or its tail for a suffix target
	suffix   *suffixTarget
	ok       bool
	why      string
}

func (s *trSig) isCap(n string) bool {
	for _, p := range s.caps {
		if p == n {
			return true
		}
	}
	return false
}

func (s *trSig) isPtrout(n string) bool {
	for _, p := range s.ptrout {
		if p == n {
			return true
		}
	}
	return false
}

func (s *trSig) extras() bool {
	return len(s.inout) > 0 || len(s.mapout) > 0 || len(s.ptrout) > 0 || s.sinks
}

func (s *trSig) paramType(n string) (gty, bool) {
	for _, p := range s.params {
		if p.name == n {
			return p.t, true
		}
	}
	return gty{}, false
}

type trParam struct {
	name string
	t    gty
}

func (s *trSig) resultType() string {
	ts := append([]gty{}, s.rets...)
	for range s.inout {
		ts = append(ts, gty{k: kBuf})
	}
	for range s.mapout {
		ts = append(ts, gty{k: kMap})
	}
	parts := []string{}
	for _, t := range ts {
		parts = append(parts, t.lean())
	}
	for _, p := range s.ptrout {
		t, _ := s.paramType(p)
		parts = append(parts, t.lean())
	}
	if s.sinks {
		parts = append(parts, "List Out")
	}
	if len(parts) == 0 {
		return "Unit"
	}
	if len(parts) > 1 {
		for i := range parts {
			if strings.Contains(parts[i], " ") {
				parts[i] = "(" + parts[i] + ")"
			}
		}
	}
	return strings.Join(parts, " × ")
}

// leadParams renders the extra leading parameters (range orders, environment reads).
func (s *trSig) leadParams() []string {
	var out []string
	for _, o := range s.orders {
		out = append(out, fmt.Sprintf("(%s_order_ : List Bytes)", leanVar(o)))
	}
	for _, c := range s.caps {
		t, _ := s.paramType(c)
		out = append(out, fmt.Sprintf("(%s_spare_ : %s)", c, t.lean()))
	}
	seen := map[string]bool{}
	for _, m := range s.models {
		for _, prm := range modelCalleeTable[m].params {
			if !seen[prm[0]] {
				seen[prm[0]] = true
				out = append(out, fmt.Sprintf("(%s : %s)", prm[0], prm[1]))
			}
		}
	}
	for _, e := range s.envs {
		er := envReadTable[e]
		out = append(out, fmt.Sprintf("(%s : %s)", er.param, gty{k: er.k}.lean()))
	}
	return out
}

func trLeanName(name, recv string) string {
	if recv != "" {
		return recv + "_" + name
	}
	return name
}

func (g *trGen) pos(n ast.Node) string {
	p := g.p.fset.Position(n.Pos())
	return fmt.Sprintf("%s:%d", filepath.Base(p.Filename), p.Line)
}

// goType resolves a Go type expression to a kind of the subset.
func (g *trGen) goType(e ast.Expr) (gty, bool) {
	switch v := e.(type) {
	case *ast.Ident:
		switch v.Name {
		case "int":
			return gty{k: kInt}, true
		case "byte", "uint8":
			return gty{k: kByte}, true
		case "bool":
			return gty{k: kBool}, true
		case "string":
			return gty{k: kStr}, true
		case "Tags":
			return gty{k: kMap}, true
		case "error":
			return gty{k: kErr}, true
		}
		if _, ok := structTable[v.Name]; ok {
			return gty{k: kStruct, name: v.Name}, true
		}
	case *ast.ArrayType:
		if v.Len == nil {
			if id, ok := v.Elt.(*ast.Ident); ok {
				switch id.Name {
				case "byte", "uint8":
					return gty{k: kStr}, true
				case "string":
					return gty{k: kStrs}, true
				}
				if _, ok := structTable[id.Name]; ok {
					return gty{k: kStructs, name: id.Name}, true
				}
			}
			if st, ok := v.Elt.(*ast.StarExpr); ok {
				if id, ok := st.X.(*ast.Ident); ok {
					if _, ok := structTable[id.Name]; ok {
						return gty{k: kPtrs, name: id.Name}, true
					}
				}
			}
		}
	case *ast.MapType:
		if k, ok := v.Key.(*ast.Ident); ok && k.Name == "string" {
			if inner, ok := g.goType(v.Value); ok {
				switch inner.k {
				case kStr:
					if id, isId := v.Value.(*ast.Ident); isId && id.Name == "string" {
						return gty{k: kMap}, true
					}
				case kMap:
					return gty{k: kMapMap}, true
				}
			}
		}
	case *ast.Ellipsis:
		// variadic parameter `xs ...T`: a []T
		return g.goType(&ast.ArrayType{Elt: v.Elt})
	case *ast.SelectorExpr:
		if k, ok := typeAliasTable[exprString(v)]; ok {
			return gty{k: k}, true
		}
		// io.Writer: only *bytes.Buffer arguments are modelled (a writer is its contents; Write never fails)
		if x, ok := v.X.(*ast.Ident); ok && x.Name == "io" && v.Sel.Name == "Writer" {
			return gty{k: kBuf}, true
		}
	case *ast.StarExpr:
		if sel, ok := v.X.(*ast.SelectorExpr); ok {
			if x, ok := sel.X.(*ast.Ident); ok && x.Name == "bytes" && sel.Sel.Name == "Buffer" {
				return gty{k: kBuf}, true
			}
		}
		if id, ok := v.X.(*ast.Ident); ok {
			if _, ok := structTable[id.Name]; ok {
				return gty{k: kPtr, name: id.Name}, true
			}
		}
	}
	return gty{}, false
}

// structFieldType finds the declared type of a modelled field in the Go struct declaration.
func (g *trGen) structFieldType(st, field string) (gty, bool) {
	modelled := false
	for _, f := range structTable[st] {
		if f == field {
			modelled = true
		}
	}
	if !modelled {
		return gty{}, false
	}
	for _, fn := range g.sortedFiles() {
		for _, d := range g.p.files[fn].Decls {
			gd, ok := d.(*ast.GenDecl)
			if !ok || gd.Tok != token.TYPE {
				continue
			}
			for _, s := range gd.Specs {
				ts := s.(*ast.TypeSpec)
				stt, ok := ts.Type.(*ast.StructType)
				if !ok || ts.Name.Name != st {
					continue
				}
				for _, fl := range stt.Fields.List {
					for _, n := range fl.Names {
						if n.Name == field {
							return g.goType(fl.Type)
						}
					}
				}
			}
		}
	}
	return gty{}, false
}

func (g *trGen) sortedFiles() []string {
	names := make([]string, 0, len(g.p.files))
	for n := range g.p.files {
		names = append(names, n)
	}
	sort.Strings(names)
	return names
}

func (g *trGen) findFunc(name, recv string) *ast.FuncDecl {
	for _, fn := range g.sortedFiles() {
		for _, d := range g.p.files[fn].Decls {
			fd, ok := d.(*ast.FuncDecl)
			if !ok || fd.Name.Name != name {
				continue
			}
			r := ""
			if fd.Recv != nil && len(fd.Recv.List) > 0 {
				t := fd.Recv.List[0].Type
				if st, ok := t.(*ast.StarExpr); ok {
					t = st.X
				}
				if id, ok := t.(*ast.Ident); ok {
					r = id.Name
				}
			}
			if r == recv {
				return fd
			}
		}
	}
	return nil
}

func (g *trGen) signature(name, recv string, sfx *suffixTarget) *trSig {
	s := &trSig{name: trLeanName(name, recv), suffix: sfx}
	if sfx != nil {
		s.name = sfx.lean
	}
	fd := g.findFunc(name, recv)
	if fd == nil || fd.Body == nil {
		s.why = "function not found in the Go sources"
		return s
	}
	s.fd = fd
	s.body = fd.Body
	if sfx != nil {
		at := -1
		for i, st := range fd.Body.List {
			if _, isFor := st.(*ast.ForStmt); isFor && sfx.from == "for" {
				at = i
				break
			}
		}
		if at < 0 {
			s.why = "suffix target: no top-level `" + sfx.from + "` statement in " + name
			return s
		}
		s.body = &ast.BlockStmt{Lbrace: fd.Body.List[at].Pos(), List: fd.Body.List[at:], Rbrace: fd.Body.Rbrace}
	}
	usedInBody := map[string]bool{}
	identsIn(s.body, usedInBody)
	s.handles = map[string]string{}
	add := func(fl *ast.Field) bool {
		// a handle on the client object: dropped
		ht := fl.Type
		if st, ok := ht.(*ast.StarExpr); ok {
			ht = st.X
		}
		if id, ok := ht.(*ast.Ident); ok && handleTypes[id.Name] {
			for _, n := range fl.Names {
				s.handles[n.Name] = id.Name
			}
			return true
		}
		if sfx != nil {
			// a suffix target keeps only the parameters its tail uses
			var keep []*ast.Ident
			for _, n := range fl.Names {
				if usedInBody[n.Name] {
					keep = append(keep, n)
				}
			}
			if len(keep) == 0 {
				return true
			}
			fl = &ast.Field{Names: keep, Type: fl.Type}
		}
		if _, isVar := fl.Type.(*ast.Ellipsis); isVar {
			s.variadic = true
		}
		t, ok := g.goType(fl.Type)
		if !ok {
			s.why = "parameter type outside the subset at " + g.pos(fl)
			return false
		}
		if len(fl.Names) == 0 {
			s.why = "unnamed parameter at " + g.pos(fl)
			return false
		}
		for _, n := range fl.Names {
			s.params = append(s.params, trParam{leanVar(n.Name), t})
			if t.k == kBuf {
				s.inout = append(s.inout, leanVar(n.Name))
			}
		}
		return true
	}
	if fd.Recv != nil {
		for _, fl := range fd.Recv.List {
			if !add(fl) {
				return s
			}
		}
	}
	for _, fl := range fd.Type.Params.List {
		if !add(fl) {
			return s
		}
	}
	if sfx != nil {
		for _, cv := range sfx.captured {
			te, err := parser.ParseExpr(cv[1])
			if err != nil {
				s.why = "suffix target: bad captured type " + cv[1]
				return s
			}
			t, ok := g.goType(te)
			if !ok {
				s.why = "suffix target: captured type outside the subset: " + cv[1]
				return s
			}
			s.params = append(s.params, trParam{leanVar(cv[0]), t})
		}
		if fd.Type.Results != nil && len(fd.Type.Results.List) > 0 {
			s.why = "suffix target with results"
			return s
		}
	}
	if fd.Type.Results != nil {
		for _, fl := range fd.Type.Results.List {
			t, ok := g.goType(fl.Type)
			if !ok {
				s.why = "result type outside the subset at " + g.pos(fl)
				return s
			}
			n := len(fl.Names)
			if n == 0 {
				n = 1
			}
			for i := 0; i < n; i++ {
				s.rets = append(s.rets, t)
			}
		}
	}
	// ranges over package-level maps: the visiting order becomes an explicit leading parameter
	isParam := func(n string) bool {
		for _, prm := range s.params {
			if prm.name == leanVar(n) {
				return true
			}
		}
		return false
	}
	ast.Inspect(s.body, func(x ast.Node) bool {
		if rs, ok := x.(*ast.RangeStmt); ok {
			if id, ok := rs.X.(*ast.Ident); ok && !isParam(id.Name) && g.pkgMap(id.Name) != nil {
				dup := false
				for _, o := range s.orders {
					if o == id.Name {
						dup = true
					}
				}
				if !dup {
					s.orders = append(s.orders, id.Name)
				}
			}
		}
		return true
	})
	// map parameters the body writes through (`p[k] = v`): the final caller-visible map is an extra result
	s.rebound = map[string]bool{}
	for _, prm := range s.params {
		if prm.t.k != kMap {
			continue
		}
		elem, rebind := false, false
		ast.Inspect(s.body, func(x ast.Node) bool {
			switch v := x.(type) {
			case *ast.AssignStmt:
				for _, l := range v.Lhs {
					if ix, ok := l.(*ast.IndexExpr); ok {
						if id, ok := ix.X.(*ast.Ident); ok && leanVar(id.Name) == prm.name {
							elem = true
						}
					}
					if id, ok := l.(*ast.Ident); ok && leanVar(id.Name) == prm.name && v.Tok != token.DEFINE {
						rebind = true
					}
				}
			case *ast.CallExpr:
				if id, ok := v.Fun.(*ast.Ident); ok && id.Name == "delete" && len(v.Args) > 0 {
					if a, ok := v.Args[0].(*ast.Ident); ok && leanVar(a.Name) == prm.name {
						elem = true
					}
				}
			}
			return true
		})
		if elem {
			s.mapout = append(s.mapout, prm.name)
			if rebind {
				s.rebound[prm.name] = true
			}
		}
	}
	// slice parameters whose capacity is read: `cap(p)`
	ast.Inspect(s.body, func(x ast.Node) bool {
		if c, ok := x.(*ast.CallExpr); ok {
			if id, ok := c.Fun.(*ast.Ident); ok && id.Name == "cap" && len(c.Args) == 1 {
				if a, ok := c.Args[0].(*ast.Ident); ok {
					if t, ok := s.paramType(leanVar(a.Name)); ok && (t.k == kStrs || t.k == kStr || t.k == kStructs || t.k == kPtrs) && !s.isCap(leanVar(a.Name)) {
						s.caps = append(s.caps, leanVar(a.Name))
					}
				}
			}
		}
		return true
	})
	// environment reads
	ast.Inspect(s.body, func(x ast.Node) bool {
		if c, ok := x.(*ast.CallExpr); ok {
			// (environment reads are recorded while the body is translated: only the ones that are not erased count)
			if _, ok := sinkTable[exprString(c.Fun)]; ok {
				s.sinks = true
			}
		}
		return true
	})
	if s.why != "" {
		return s
	}
	// pointer parameters the body writes through
	for _, prm := range s.params {
		if prm.t.k != kPtr {
			continue
		}
		through := false
		ast.Inspect(s.body, func(x ast.Node) bool {
			switch v := x.(type) {
			case *ast.AssignStmt:
				for _, l := range v.Lhs {
					if r := lvalueRoot(l); r != nil && r != l && leanVar(r.Name) == prm.name {
						through = true
					}
				}
			case *ast.IncDecStmt:
				if r := lvalueRoot(v.X); r != nil && r != v.X && leanVar(r.Name) == prm.name {
					through = true
				}
			case *ast.CallExpr:
				n := calleeName(v.Fun)
				if _, ok := stdlibProcTable[n]; (ok || n == "copy") && len(v.Args) > 0 {
					if r := lvalueRoot(v.Args[0]); r != nil && r != v.Args[0] && leanVar(r.Name) == prm.name {
						through = true
					}
				}
			}
			return true
		})
		if through {
			s.ptrout = append(s.ptrout, prm.name)
		}
	}
	s.ok = true
	return s
}

// lvalueRoot returns the variable at the root of an lvalue path x.f[i].g …, or nil.
func lvalueRoot(e ast.Expr) *ast.Ident {
	for {
		switch r := e.(type) {
		case *ast.IndexExpr:
			e = r.X
			continue
		case *ast.SelectorExpr:
			e = r.X
			continue
		case *ast.ParenExpr:
			e = r.X
			continue
		case *ast.SliceExpr:
			e = r.X
			continue
		case *ast.Ident:
			return r
		}
		return nil
	}
}

// calleeOf resolves a call to the signature of a translated function, given the types of the caller's parameters.
func (g *trGen) calleeOf(caller *trSig, c *ast.CallExpr) (*trSig, []ast.Expr) {
	switch fn := c.Fun.(type) {
	case *ast.Ident:
		if sig := g.sigs[fn.Name]; sig != nil {
			return sig, c.Args
		}
	case *ast.SelectorExpr:
		if id, ok := fn.X.(*ast.Ident); ok {
			if ht, ok := caller.handles[id.Name]; ok {
				if sig := g.sigs[ht+"_"+fn.Sel.Name]; sig != nil {
					return sig, c.Args
				}
				return nil, nil
			}
			if t, ok := caller.paramType(leanVar(id.Name)); ok && (t.k == kPtr || t.k == kStruct) {
				if sig := g.sigs[t.name+"_"+fn.Sel.Name]; sig != nil {
					return sig, append([]ast.Expr{fn.X}, c.Args...)
				}
			}
		}
	}
	return nil, nil
}

// propagate closes `sinks` and `ptrout` over calls between targets (a caller of a sink function has sinks; a pointer
// parameter passed to a ptrout parameter of a callee is written through).
func (g *trGen) propagate(names []string) {
	for changed := true; changed; {
		changed = false
		for _, n := range names {
			s := g.sigs[n]
			if !s.ok {
				continue
			}
			ast.Inspect(s.body, func(x ast.Node) bool {
				c, ok := x.(*ast.CallExpr)
				if !ok {
					return true
				}
				callee, args := g.calleeOf(s, c)
				if callee == nil || !callee.ok {
					return true
				}
				if callee.sinks && !s.sinks {
					s.sinks, changed = true, true
				}
				for i, a := range args {
					if i >= len(callee.params) || !callee.isPtrout(callee.params[i].name) {
						continue
					}
					if id, ok := a.(*ast.Ident); ok {
						if t, ok := s.paramType(leanVar(id.Name)); ok && t.k == kPtr && !s.isPtrout(leanVar(id.Name)) {
							s.ptrout = append(s.ptrout, leanVar(id.Name))
							changed = true
						}
					}
				}
				return true
			})
		}
	}
	// deterministic order: parameter order
	for _, n := range names {
		s := g.sigs[n]
		var ord []string
		for _, p := range s.params {
			if s.isPtrout(p.name) {
				ord = append(ord, p.name)
			}
		}
		s.ptrout = ord
	}
}

// ---------------------------------------------------------------------------------------------
// per-function translator
// ---------------------------------------------------------------------------------------------

type loopCtx struct {
	extra   string // range loops: the name of the list of keys still to be visited
	helper  string
	imm     []string // immutable arguments (Lean names)
	carried []string // all carried variables, in order
	outer   []string // carried variables that are live after the loop
	post    ast.Stmt
}

type ftr struct {
	g          *trGen
	sig        *trSig
	scopes     []map[string]gty
	order      []string // declaration order of every local (for deterministic argument lists)
	named      []string // named results
	helpers    []string
	nloops     int
	alias      map[string]string // Go variable name -> Lean name, for names that are re-declared in a later sibling scope
	ndecl      map[string]int
	ntmp       int
	loop       *loopCtx
	deps       map[string]bool
	inClosed   bool
	capAlias   map[string]string // local variable -> the capacity-tracked parameter it was resliced from (shares its array)
	capDirty   map[string]bool   // capacity-tracked parameters whose array has been written through an alias
	sliceNilOK bool              // the expression being translated is the whole condition of an else-less `if`
}

func (f *ftr) fail(n ast.Node, format string, a ...interface{}) {
	msg := fmt.Sprintf(format, a...)
	if n != nil {
		msg += " at " + f.g.pos(n)
	}
	panic(unsupported{msg})
}

func (f *ftr) push() { f.scopes = append(f.scopes, map[string]gty{}) }
func (f *ftr) pop()  { f.scopes = f.scopes[:len(f.scopes)-1] }

func (f *ftr) lookup(name string) (gty, bool) {
	for i := len(f.scopes) - 1; i >= 0; i-- {
		if t, ok := f.scopes[i][name]; ok {
			return t, true
		}
	}
	return gty{}, false
}

func (f *ftr) declare(n ast.Node, name string, t gty) {
	if _, ok := f.lookup(name); ok {
		f.fail(n, "variable %q shadows a variable that is still in scope (Lean `let mut` cannot be shadowed)", name)
	}
	reused := false
	for _, o := range f.order {
		if o == name {
			reused = true
		}
	}
	f.scopes[len(f.scopes)-1][name] = t
	if !reused {
		f.order = append(f.order, name)
		return
	}
	// the name was used by an earlier, now closed, sibling scope: the new variable gets a fresh Lean name
	if f.loop != nil {
		// the earlier variable may be a carried argument of the enclosing helper under the plain name
	}
	f.ndecl[name]++
	fresh := fmt.Sprintf("%s_%d", leanVar(name), f.ndecl[name]+1)
	for _, o := range f.order {
		if leanVar(o) == fresh {
			f.fail(n, "cannot pick a fresh name for the re-declared variable %q", name)
		}
	}
	f.alias[name] = fresh
}

// lv is the Lean name of a local variable.
func (f *ftr) lv(name string) string {
	if a, ok := f.alias[name]; ok {
		return a
	}
	return leanVar(name)
}

// declareScoped is for loop counters: the same name may be reused by sibling loops (it never lives in
// the enclosing Lean do-block, it is an argument of the loop helper).
func (f *ftr) declareScoped(n ast.Node, name string, t gty) {
	if _, ok := f.lookup(name); ok {
		f.fail(n, "loop variable %q shadows an outer variable", name)
	}
	f.scopes[len(f.scopes)-1][name] = t
	seen := false
	for _, o := range f.order {
		if o == name {
			seen = true
		}
	}
	if !seen {
		f.order = append(f.order, name)
	}
}

// ---- constants --------------------------------------------------------------------------------

func bytesLit(s string) string {
	if s == "" {
		return "([] : Bytes)"
	}
	parts := make([]string, len(s))
	for i := 0; i < len(s); i++ {
		parts[i] = fmt.Sprintf("0x%02X", s[i])
	}
	return "[" + strings.Join(parts, ", ") + "]"
}

// pkgConst resolves a package-level constant; typed and string constants become named `abbrev`s in the
// generated file, untyped numeric constants are inlined.
func (f *ftr) pkgConst(id *ast.Ident) (string, gty, bool) {
	g := f.g
	for _, fn := range g.sortedFiles() {
		for _, d := range g.p.files[fn].Decls {
			gd, ok := d.(*ast.GenDecl)
			if !ok || gd.Tok != token.CONST {
				continue
			}
			for _, s := range gd.Specs {
				vs := s.(*ast.ValueSpec)
				for i, n := range vs.Names {
					if n.Name != id.Name || i >= len(vs.Values) {
						continue
					}
					val := vs.Values[i]
					var declared *gty
					if vs.Type != nil {
						t, ok := g.goType(vs.Type)
						if !ok {
							f.fail(id, "constant %s has a type outside the subset", id.Name)
						}
						declared = &t
					}
					isStrLit := true
					if bl, ok := val.(*ast.BasicLit); ok && bl.Kind != token.STRING {
						isStrLit = false
					}
					if str, ok := g.p.constString(val); ok && isStrLit {
						if declared != nil && declared.k != kStr {
							f.fail(id, "constant %s: string value with non-string type", id.Name)
						}
						name := leanVar(id.Name)
						g.consts[name] = fmt.Sprintf("abbrev %s : Bytes := %s  -- %q (%s)", name, bytesLit(str), str, g.pos(vs))
						return name, gty{k: kStr}, true
					}
					lit, ok := val.(*ast.BasicLit)
					if !ok {
						f.fail(id, "constant %s is not a literal", id.Name)
					}
					code, lt := f.basicLit(lit)
					if declared == nil {
						return fmt.Sprintf("%s /-%s-/", code, id.Name), lt, true
					}
					if !((declared.k == kByte && (lt.k == kURune || lt.k == kUInt)) || (declared.k == kInt && lt.k == kUInt)) {
						f.fail(id, "constant %s: literal does not fit its declared type", id.Name)
					}
					name := leanVar(id.Name)
					g.consts[name] = fmt.Sprintf("abbrev %s : %s := %s  -- %s (%s)", name, declared.lean(), code, lit.Value, g.pos(vs))
					return name, *declared, true
				}
			}
		}
	}
	return "", gty{}, false
}

// pkgMapInfo describes `var X = map[string]T{"k": v, …}` (T = string or int) with constant keys and values.
type pkgMapInfo struct {
	valKind kind
	keys    []string
}

// pkgMap resolves a package-level map variable and emits its table (`abbrev X : List (Bytes × T)`, source order).
func (g *trGen) pkgMap(name string) *pkgMapInfo {
	val, ok := g.p.valueSpec(name)
	if !ok {
		return nil
	}
	cl, ok := val.(*ast.CompositeLit)
	if !ok {
		return nil
	}
	mt, ok := cl.Type.(*ast.MapType)
	if !ok {
		return nil
	}
	if id, ok := mt.Key.(*ast.Ident); !ok || id.Name != "string" {
		return nil
	}
	vk := kInvalid
	if id, ok := mt.Value.(*ast.Ident); ok {
		switch id.Name {
		case "string":
			vk = kStr
		case "int":
			vk = kInt
		}
	}
	if vk == kInvalid {
		return nil
	}
	info := &pkgMapInfo{valKind: vk}
	var rows []string
	seen := map[string]bool{}
	for _, el := range cl.Elts {
		kv, ok := el.(*ast.KeyValueExpr)
		if !ok {
			return nil
		}
		k, ok := g.p.constString(kv.Key)
		if !ok || seen[k] {
			return nil
		}
		seen[k] = true
		var v string
		if vk == kStr {
			sv, ok := g.p.constString(kv.Value)
			if !ok {
				return nil
			}
			v = bytesLit(sv)
		} else {
			iv, ok := g.p.constInt(kv.Value)
			if !ok {
				return nil
			}
			v = fmt.Sprintf("%d", iv)
		}
		info.keys = append(info.keys, k)
		rows = append(rows, "("+bytesLit(k)+", "+v+")")
	}
	elt := "Bytes"
	if vk == kInt {
		elt = "Int"
	}
	g.consts[leanVar(name)] = fmt.Sprintf("abbrev %s : List (Bytes × %s) := [%s]  -- package-level map (%s)", leanVar(name), elt,
		strings.Join(rows, ", "), g.pos(val))
	return info
}

// replacerConst resolves `var X = strings.NewReplacer(a, b, …)` (arguments: string constants, or one
// spread `S...` of a package-level `var S = []string{…}`) to a generated table of (old, new) pairs.
func (f *ftr) replacerConst(id *ast.Ident) (string, bool) {
	val, ok := f.g.p.valueSpec(id.Name)
	if !ok {
		return "", false
	}
	call, ok := val.(*ast.CallExpr)
	if !ok || calleeName(call.Fun) != "strings.NewReplacer" {
		return "", false
	}
	args := call.Args
	if call.Ellipsis.IsValid() && len(args) == 1 {
		sid, ok := args[0].(*ast.Ident)
		if !ok {
			f.fail(id, "replacer %s: spread of a non-variable", id.Name)
		}
		sv, ok := f.g.p.valueSpec(sid.Name)
		if !ok {
			f.fail(id, "replacer %s: %s is not a package-level variable", id.Name, sid.Name)
		}
		cl, ok := sv.(*ast.CompositeLit)
		if !ok {
			f.fail(id, "replacer %s: %s is not a []string literal", id.Name, sid.Name)
		}
		args = cl.Elts
	}
	if len(args)%2 != 0 || len(args) == 0 {
		f.fail(id, "replacer %s: odd number of arguments", id.Name)
	}
	var pairs []string
	for i := 0; i < len(args); i += 2 {
		o, ok1 := f.g.p.constString(args[i])
		n, ok2 := f.g.p.constString(args[i+1])
		if !ok1 || !ok2 {
			f.fail(id, "replacer %s: non-constant argument", id.Name)
		}
		if o == "" {
			f.fail(id, "replacer %s has an empty old string", id.Name)
		}
		pairs = append(pairs, "("+bytesLit(o)+", "+bytesLit(n)+")")
	}
	name := leanVar(id.Name)
	f.g.consts[name] = fmt.Sprintf("abbrev %s : List (Bytes × Bytes) := [%s]  -- strings.NewReplacer (%s)", name,
		strings.Join(pairs, ", "), f.g.pos(val))
	return name, true
}

func (f *ftr) basicLit(l *ast.BasicLit) (string, gty) {
	switch l.Kind {
	case token.INT:
		v, err := strconv.ParseInt(l.Value, 0, 64)
		if err != nil {
			f.fail(l, "integer literal %s", l.Value)
		}
		if strings.HasPrefix(l.Value, "0x") || strings.HasPrefix(l.Value, "0X") {
			return fmt.Sprintf("0x%02X", v), gty{k: kUInt}
		}
		return fmt.Sprintf("%d", v), gty{k: kUInt}
	case token.CHAR:
		s, err := strconv.Unquote(l.Value)
		if err != nil || len(s) != 1 || s[0] >= 0x80 {
			f.fail(l, "character literal %s is not a single ASCII byte", l.Value)
		}
		return fmt.Sprintf("0x%02X", s[0]), gty{k: kURune}
	case token.STRING:
		s, err := strconv.Unquote(l.Value)
		if err != nil {
			f.fail(l, "string literal")
		}
		return bytesLit(s), gty{k: kStr}
	}
	f.fail(l, "literal %s", l.Value)
	return "", gty{}
}

// ---- expressions ------------------------------------------------------------------------------

// xr is a translated expression: Lean code of type t; eff = the code contains a nested `(← …)` action
// (it can fail) and therefore must not be moved under a short-circuit operator without a `do`.
type xr struct {
	code string
	t    gty
	eff  bool
}

func isUntyped(t gty) bool { return t.k == kUInt || t.k == kURune }

// unify checks that two operand types are compatible and returns the common type.
func (f *ftr) unify(n ast.Node, a, b gty) gty {
	if a.k == b.k && a.name == b.name {
		return a
	}
	if isUntyped(a) && isUntyped(b) {
		return a
	}
	fits := func(u, t gty) bool {
		return (u.k == kUInt && (t.k == kInt || t.k == kByte)) || (u.k == kURune && t.k == kByte)
	}
	if fits(a, b) {
		return b
	}
	if fits(b, a) {
		return a
	}
	if a.k == kNil && (b.k == kPtr || b.k == kMap || b.k == kErr || b.k == kMapMap) {
		return b
	}
	if b.k == kNil && (a.k == kPtr || a.k == kMap || a.k == kErr || a.k == kMapMap) {
		return a
	}
	f.fail(n, "operands of different types (%s vs %s)", a.lean(), b.lean())
	return a
}

func (f *ftr) expr(e ast.Expr) xr {
	switch v := e.(type) {
	case *ast.ParenExpr:
		return f.expr(v.X)
	case *ast.BasicLit:
		c, t := f.basicLit(v)
		return xr{c, t, false}
	case *ast.Ident:
		switch v.Name {
		case "true", "false":
			return xr{v.Name, gty{k: kBool}, false}
		case "nil":
			return xr{"none", gty{k: kNil}, false}
		}
		if t, ok := f.lookup(v.Name); ok {
			if f.capDirty[v.Name] {
				f.fail(v, "parameter %s is read after its backing array was written through a reslice of it (aliasing)", v.Name)
			}
			return xr{f.lv(v.Name), t, false}
		}
		if c, t, ok := f.pkgConst(v); ok {
			return xr{c, t, false}
		}
		if _, ok := f.sig.handles[v.Name]; ok {
			f.fail(v, "handle parameter %s used outside a sink call / environment read", v.Name)
		}
		f.fail(v, "identifier %s is neither a local variable nor a package constant", v.Name)
	case *ast.UnaryExpr:
		x := f.expr(v.X)
		switch v.Op {
		case token.NOT:
			if x.t.k != kBool {
				f.fail(v, "! on a non-bool")
			}
			return xr{"(!" + x.code + ")", x.t, x.eff}
		case token.SUB:
			if x.t.k == kUInt {
				return xr{"-" + x.code, x.t, false}
			}
			if x.t.k == kInt {
				return xr{"(-" + x.code + ")", x.t, x.eff}
			}
		case token.AND:
			// &T{…}: a pointer to a fresh struct value
			if cl, ok := v.X.(*ast.CompositeLit); ok {
				s := f.compositeLit(cl)
				if s.t.k == kStruct {
					return xr{"(some " + s.code + ")", gty{k: kPtr, name: s.t.name}, s.eff}
				}
			} else if s := f.expr(v.X); s.t.k == kStruct {
				// &x: a pointer to (a copy of) an addressable struct; writes through it are assigned back by callExtras
				return xr{"(some " + s.code + ")", gty{k: kPtr, name: s.t.name}, s.eff}
			}
		}
		f.fail(v, "unary operator %s", v.Op)
	case *ast.StarExpr:
		x := f.expr(v.X)
		if x.t.k != kPtr {
			f.fail(v, "* on %s", x.t.lean())
		}
		return xr{"(← deref " + x.code + ")", gty{k: kStruct, name: x.t.name}, true}
	case *ast.BinaryExpr:
		return f.binary(v)
	case *ast.IndexExpr:
		x := f.expr(v.X)
		if x.t.k == kMap {
			k := f.expr(v.Index)
			f.assignable(v, gty{k: kStr}, k.t)
			return xr{"(mapGet " + x.code + " " + k.code + ")", gty{k: kStr}, x.eff || k.eff}
		}
		if x.t.k == kMapMap {
			k := f.expr(v.Index)
			f.assignable(v, gty{k: kStr}, k.t)
			return xr{"(mapGet2 " + x.code + " " + k.code + ")", gty{k: kMap}, x.eff || k.eff}
		}
		i := f.intExpr(v.Index)
		switch x.t.k {
		case kStr:
			return xr{"(← atI " + x.code + " " + i.code + ")", gty{k: kByte}, true}
		case kStrs:
			return xr{"(← atL " + x.code + " " + i.code + ")", gty{k: kStr}, true}
		case kStructs:
			return xr{"(← atA " + x.code + " " + i.code + ")", gty{k: kStruct, name: x.t.name}, true}
		case kPtrs:
			return xr{"(← atA " + x.code + " " + i.code + ")", gty{k: kPtr, name: x.t.name}, true}
		}
		f.fail(v, "index expression on %s", x.t.lean())
	case *ast.SliceExpr:
		if v.Slice3 {
			f.fail(v, "3-index slice")
		}
		x := f.expr(v.X)
		lo, hi := "0", "(len "+x.code+")"
		if v.Low != nil {
			lo = f.intExpr(v.Low).code
		}
		if v.High != nil {
			hi = f.intExpr(v.High).code
		}
		if id, ok := v.X.(*ast.Ident); ok && f.sig.isCap(leanVar(id.Name)) && f.isParam(id.Name) {
			// a reslice of a capacity-tracked parameter may extend into its spare capacity
			return xr{"(← sliceCapA " + x.code + " " + x.code + "_spare_ " + lo + " " + hi + ")", x.t, true}
		}
		switch x.t.k {
		case kStr:
			return xr{"(← sliceI " + x.code + " " + lo + " " + hi + ")", x.t, true}
		case kStrs:
			return xr{"(← sliceL " + x.code + " " + lo + " " + hi + ")", x.t, true}
		case kStructs:
			return xr{"(← sliceA " + x.code + " " + lo + " " + hi + ")", x.t, true}
		}
		f.fail(v, "slice expression on %s", x.t.lean())
	case *ast.SelectorExpr:
		return f.selector(v)
	case *ast.CallExpr:
		return f.call(v)
	case *ast.CompositeLit:
		return f.compositeLit(v)
	}
	f.fail(e, "expression form %T", e)
	return xr{}
}

// intExpr translates an expression that must be an int (index, bound).
func (f *ftr) intExpr(e ast.Expr) xr {
	x := f.expr(e)
	if x.t.k != kInt && x.t.k != kUInt {
		f.fail(e, "int expression expected, got %s", x.t.lean())
	}
	return x
}

func (f *ftr) selector(v *ast.SelectorExpr) xr {
	if id, ok := v.X.(*ast.Ident); ok {
		if _, isLocal := f.lookup(id.Name); !isLocal {
			if c, ok := pkgQualifiedConsts[id.Name+"."+v.Sel.Name]; ok {
				return xr{fmt.Sprintf("(%s : Int) /-%s.%s-/", c, id.Name, v.Sel.Name), gty{k: kInt}, false}
			}
		}
	}
	x := f.expr(v.X)
	st := x.t.name
	if x.t.k != kPtr && x.t.k != kStruct {
		f.fail(v, "field selector on %s", x.t.lean())
	}
	ft, ok := f.g.structFieldType(st, v.Sel.Name)
	if !ok {
		f.fail(v, "field %s.%s is outside the model", st, v.Sel.Name)
	}
	fld := leanField(st, v.Sel.Name)
	if x.t.k == kPtr {
		return xr{"(← deref " + x.code + ")." + fld, ft, true}
	}
	return xr{x.code + "." + fld, ft, x.eff}
}

func (f *ftr) zero(n ast.Node, t gty) string {
	switch t.k {
	case kInt:
		return "0"
	case kByte:
		return "0"
	case kBool:
		return "false"
	case kStr, kStrs, kStructs, kPtrs:
		return "[]"
	case kPtr, kMap, kErr, kMapMap:
		return "none"
	case kStruct:
		return f.structVal(n, t.name, map[string]string{})
	}
	f.fail(n, "no zero value for %s", t.lean())
	return ""
}

func (f *ftr) structVal(n ast.Node, st string, vals map[string]string) string {
	if structOpaque[st] {
		f.fail(n, "a value of struct %s is built (it has fields outside the model)", st)
	}
	var parts []string
	for _, fld := range structTable[st] {
		ft, ok := f.g.structFieldType(st, fld)
		if !ok {
			f.fail(n, "struct %s no longer has field %s", st, fld)
		}
		v, ok := vals[fld]
		if !ok {
			v = f.zero(n, ft)
		}
		parts = append(parts, leanField(st, fld)+" := "+v)
	}
	return "({ " + strings.Join(parts, ", ") + " } : " + leanStruct(st) + ")"
}

func (f *ftr) compositeLit(v *ast.CompositeLit) xr {
	t, ok := f.g.goType(v.Type)
	if !ok {
		f.fail(v, "composite literal type")
	}
	switch t.k {
	case kStr: // []byte{…}
		var parts []string
		for _, el := range v.Elts {
			x := f.expr(el)
			if x.eff || !(isUntyped(x.t) || x.t.k == kByte) {
				f.fail(el, "[]byte literal element")
			}
			parts = append(parts, x.code)
		}
		if len(parts) == 0 {
			return xr{"([] : Bytes)", t, false}
		}
		return xr{"([" + strings.Join(parts, ", ") + "] : Bytes)", t, false}
	case kMap: // Tags{} / map[string]string{}: a fresh empty map (entries are outside the subset)
		if len(v.Elts) != 0 {
			f.fail(v, "map literal with entries")
		}
		return xr{"(some ([] : Tags))", t, false}
	case kStrs, kStructs, kPtrs: // []string{…} / []S{…} / []*S{…}
		var parts []string
		eff := false
		want := gty{k: kStr}
		if t.k == kStructs {
			want = gty{k: kStruct, name: t.name}
		}
		if t.k == kPtrs {
			want = gty{k: kPtr, name: t.name}
		}
		for _, el := range v.Elts {
			if _, isKV := el.(*ast.KeyValueExpr); isKV {
				f.fail(el, "keyed slice literal")
			}
			x := f.expr(el)
			f.assignable(el, want, x.t)
			parts = append(parts, x.code)
			eff = eff || x.eff
		}
		if len(parts) == 0 {
			return xr{"([] : " + t.lean() + ")", t, false}
		}
		return xr{"([" + strings.Join(parts, ", ") + "] : " + t.lean() + ")", t, eff}
	case kStruct:
		vals := map[string]string{}
		eff := false
		for _, el := range v.Elts {
			kv, ok := el.(*ast.KeyValueExpr)
			if !ok {
				f.fail(el, "positional struct literal")
			}
			key := kv.Key.(*ast.Ident).Name
			ft, modelled := f.g.structFieldType(t.name, key)
			if !modelled {
				continue // field outside the model: dropped
			}
			x := f.expr(kv.Value)
			f.assignable(kv, ft, x.t)
			vals[key] = x.code
			eff = eff || x.eff
		}
		return xr{f.structVal(v, t.name, vals), t, eff}
	}
	f.fail(v, "composite literal of %s", t.lean())
	return xr{}
}

func (f *ftr) assignable(n ast.Node, dst, src gty) {
	if dst.k == src.k && dst.name == src.name {
		return
	}
	if (dst.k == kInt && src.k == kUInt) || (dst.k == kByte && (src.k == kUInt || src.k == kURune)) {
		return
	}
	if (dst.k == kPtr || dst.k == kMap || dst.k == kErr || dst.k == kMapMap) && src.k == kNil {
		return
	}
	f.fail(n, "cannot assign %s to %s", src.lean(), dst.lean())
}

func (f *ftr) binary(v *ast.BinaryExpr) xr {
	a, b := f.expr(v.X), f.expr(v.Y)
	switch v.Op {
	case token.LAND, token.LOR:
		if a.t.k != kBool || b.t.k != kBool {
			f.fail(v, "%s on non-bool", v.Op)
		}
		if !b.eff {
			op := " && "
			if v.Op == token.LOR {
				op = " || "
			}
			return xr{"(" + a.code + op + b.code + ")", a.t, a.eff}
		}
		fn := "andE"
		if v.Op == token.LOR {
			fn = "orE"
		}
		return xr{"(← " + fn + " " + monadic(a) + " " + monadic(b) + ")", a.t, true}
	case token.EQL, token.NEQ:
		if a.t.k == kNil || b.t.k == kNil {
			x := a
			if a.t.k == kNil {
				x = b
			}
			if x.t.k == kStr || x.t.k == kStrs || x.t.k == kStructs || x.t.k == kPtrs {
				// nil-ness of slices is not modelled (nil = empty, §2.1): `sliceIsNil` identifies the empty slice with nil.
				// Admitted only as the whole condition `x != nil` of an `if` without `else` (the copy-if-present idiom);
				// TRUST: the guarded block has the same value-level effect on an empty non-nil slice as being skipped.
				if !f.sliceNilOK || v.Op != token.NEQ {
					f.fail(v, "nil comparison on a slice outside `if x != nil { … }` (nil-ness of slices is not modelled)")
				}
				return xr{"(!(sliceIsNil " + x.code + "))", gty{k: kBool}, x.eff}
			}
			if x.t.k != kPtr && x.t.k != kMap && x.t.k != kErr && x.t.k != kMapMap {
				f.fail(v, "nil comparison on %s", x.t.lean())
			}
			m := ".isNone"
			if v.Op == token.NEQ {
				m = ".isSome"
			}
			return xr{x.code + m, gty{k: kBool}, x.eff}
		}
		t := f.unify(v, a.t, b.t)
		switch t.k {
		case kInt, kByte, kBool, kStr, kUInt, kURune:
		default:
			f.fail(v, "== on %s", t.lean())
		}
		op := " == "
		if v.Op == token.NEQ {
			op = " != "
		}
		return xr{"(" + a.code + op + b.code + ")", gty{k: kBool}, a.eff || b.eff}
	case token.LSS, token.GTR, token.LEQ, token.GEQ:
		t := f.unify(v, a.t, b.t)
		if t.k != kInt && t.k != kByte {
			f.fail(v, "ordering comparison on %s", t.lean())
		}
		op := map[token.Token]string{token.LSS: " < ", token.GTR: " > ", token.LEQ: " ≤ ", token.GEQ: " ≥ "}[v.Op]
		return xr{"(decide (" + a.code + op + b.code + "))", gty{k: kBool}, a.eff || b.eff}
	case token.ADD, token.SUB, token.MUL:
		t := f.unify(v, a.t, b.t)
		if t.k == kStr && v.Op == token.ADD {
			return xr{"(" + a.code + " ++ " + b.code + ")", t, a.eff || b.eff}
		}
		if t.k != kInt && t.k != kByte && !isUntyped(t) {
			f.fail(v, "arithmetic on %s", t.lean())
		}
		return xr{"(" + a.code + " " + v.Op.String() + " " + b.code + ")", t, a.eff || b.eff}
	case token.QUO:
		// integer division truncates towards zero; a zero divisor panics
		t := f.unify(v, a.t, b.t)
		if t.k != kInt && t.k != kUInt {
			f.fail(v, "/ on %s", t.lean())
		}
		if lit, ok := v.Y.(*ast.BasicLit); ok && lit.Kind == token.INT && lit.Value != "0" {
			return xr{"(Int.tdiv " + a.code + " " + b.code + ")", gty{k: kInt}, a.eff}
		}
		return xr{"(← divI " + a.code + " " + b.code + ")", gty{k: kInt}, true}
	}
	f.fail(v, "binary operator %s", v.Op)
	return xr{}
}

// monadic renders an expression as a term of type `Except Fault T`.
func monadic(x xr) string {
	if !x.eff {
		return "(pure " + x.code + ")"
	}
	// `(← m)` alone is just `m`
	if strings.HasPrefix(x.code, "(← ") && strings.HasSuffix(x.code, ")") && balanced(x.code[len("(← "):len(x.code)-1]) {
		return "(" + x.code[len("(← "):len(x.code)-1] + ")"
	}
	return "(do pure " + x.code + ")"
}

func balanced(s string) bool {
	d := 0
	for _, c := range s {
		switch c {
		case '(':
			d++
		case ')':
			d--
			if d < 0 {
				return false
			}
		}
	}
	return d == 0
}

func calleeName(e ast.Expr) string {
	switch v := e.(type) {
	case *ast.Ident:
		return v.Name
	case *ast.SelectorExpr:
		if x, ok := v.X.(*ast.Ident); ok {
			return x.Name + "." + v.Sel.Name
		}
		if inner := calleeName(v.X); inner != "" {
			return inner + "." + v.Sel.Name
		}
	}
	return ""
}

func (f *ftr) call(v *ast.CallExpr) xr {
	if v.Ellipsis.IsValid() {
		// append(a, b...) – handled below; F(xs...) of a variadic translated function – handled by callTarget
		if id, ok := v.Fun.(*ast.Ident); !ok || id.Name != "append" {
			if sig := f.calleeSigSafe(v); sig == nil || !sig.variadic {
				f.fail(v, "variadic call")
			}
		}
	}
	// environment read: the value is a parameter of the generated function
	if er, ok := envReadTable[exprString(v.Fun)+"()"]; ok && len(v.Args) == 0 {
		if f.loop != nil {
			f.fail(v, "environment read %s() inside a loop", exprString(v.Fun))
		}
		key := exprString(v.Fun) + "()"
		for _, e := range f.sig.envs {
			if e == key {
				f.fail(v, "environment read %s occurs more than once", key)
			}
		}
		f.sig.envs = append(f.sig.envs, key)
		return xr{er.param, gty{k: er.k}, false}
	}
	// methods of time.Time / time.Duration values
	if sel, ok := v.Fun.(*ast.SelectorExpr); ok && len(v.Args) == 1 {
		if tm, ok := timeMethodTable[sel.Sel.Name]; ok {
			if rt := f.tryExprType(sel.X); rt != nil && rt.k == kInt {
				x, y := f.expr(sel.X), f.expr(v.Args[0])
				if y.t.k != kInt {
					f.fail(v, "time method %s on %s", sel.Sel.Name, y.t.lean())
				}
				code := strings.ReplaceAll(strings.ReplaceAll(tm.tmpl, "$0", x.code), "$1", y.code)
				return xr{code, gty{k: tm.ret}, x.eff || y.eff}
			}
		}
	}
	// time.Since(t) = time.Now().Sub(t): the clock is the environment read `time.Now()` (read once, not inside a loop)
	if exprString(v.Fun) == "time.Since" && len(v.Args) == 1 {
		if f.loop != nil {
			f.fail(v, "time.Since inside a loop")
		}
		for _, e := range f.sig.envs {
			if e == "time.Now()" {
				f.fail(v, "the clock is read more than once")
			}
		}
		x := f.expr(v.Args[0])
		if x.t.k != kInt {
			f.fail(v, "time.Since of %s", x.t.lean())
		}
		f.sig.envs = append(f.sig.envs, "time.Now()")
		return xr{"(timeSince " + envReadTable["time.Now()"].param + " " + x.code + ")", gty{k: kInt}, x.eff}
	}
	// int(d.Seconds()) for a time.Duration d: whole seconds, truncated towards zero (the float64 in between is not modelled)
	if id, ok := v.Fun.(*ast.Ident); ok && id.Name == "int" && len(v.Args) == 1 {
		if c, ok := v.Args[0].(*ast.CallExpr); ok && len(c.Args) == 0 {
			if sel, ok := c.Fun.(*ast.SelectorExpr); ok && sel.Sel.Name == "Seconds" {
				x := f.expr(sel.X)
				if x.t.k != kInt {
					f.fail(v, "Seconds() of %s", x.t.lean())
				}
				return xr{"(durWholeSeconds " + x.code + ")", gty{k: kInt}, x.eff}
			}
		}
	}
	// conversions
	if t, ok := f.g.goType(v.Fun); ok && len(v.Args) == 1 {
		x := f.expr(v.Args[0])
		switch {
		case t.k == kStr && x.t.k == kStr:
			return xr{x.code, t, x.eff} // string(b []byte) / []byte(s): same representation
		case t.k == kStr && (x.t.k == kByte || x.t.k == kURune):
			if _, isArr := v.Fun.(*ast.ArrayType); !isArr {
				return xr{"(strOfByte " + x.code + ")", t, x.eff}
			}
		case t.k == kInt && (x.t.k == kInt || x.t.k == kUInt):
			return xr{x.code, t, x.eff}
		}
		f.fail(v, "conversion %s(%s)", t.lean(), x.t.lean())
	}
	name := calleeName(v.Fun)
	switch name {
	case "len":
		x := f.expr(v.Args[0])
		switch x.t.k {
		case kStr, kStrs, kStructs, kPtrs:
			return xr{"(len " + x.code + ")", gty{k: kInt}, x.eff}
		case kMap:
			return xr{"(mapLen " + x.code + ")", gty{k: kInt}, x.eff}
		}
		f.fail(v, "len of %s", x.t.lean())
	case "cap":
		if id, ok := v.Args[0].(*ast.Ident); ok && len(v.Args) == 1 && f.sig.isCap(leanVar(id.Name)) && f.isParam(id.Name) {
			x := f.expr(v.Args[0])
			return xr{"((len " + x.code + ") + (len " + x.code + "_spare_))", gty{k: kInt}, false}
		}
		f.fail(v, "cap of anything but a slice parameter (capacity is modelled for parameters only, §2.16)")
	case "make":
		if t, ok := f.g.goType(v.Args[0]); ok && t.k == kMap && len(v.Args) == 1 {
			return xr{"(some ([] : Tags))", t, false}
		}
		if t, ok := f.g.goType(v.Args[0]); ok && t.k == kMapMap && len(v.Args) == 1 {
			return xr{"(some ([] : AMap (Option Tags)))", t, false}
		}
		if t, ok := f.g.goType(v.Args[0]); ok && (t.k == kStructs || t.k == kStrs || t.k == kStr) && len(v.Args) == 3 {
			// make([]T, n, c): the capacity is not modelled, its run-time check (0 ≤ n ≤ c) is
			n, c := f.intExpr(v.Args[1]), f.intExpr(v.Args[2])
			elt := gty{k: kStr}
			switch t.k {
			case kStructs:
				elt = gty{k: kStruct, name: t.name}
			case kStr:
				elt = gty{k: kByte}
			}
			return xr{"(← makeCapA " + f.zero(v, elt) + " " + n.code + " " + c.code + ")", t, true}
		}
		if t, ok := f.g.goType(v.Args[0]); ok && (t.k == kStructs || t.k == kStrs || t.k == kStr) && len(v.Args) == 2 {
			n := f.intExpr(v.Args[1])
			elt := gty{k: kStr}
			switch t.k {
			case kStructs:
				elt = gty{k: kStruct, name: t.name}
			case kStr:
				elt = gty{k: kByte}
			}
			return xr{"(← makeA " + f.zero(v, elt) + " " + n.code + ")", t, true}
		}
		f.fail(v, "make of a type outside the subset")
	case "new":
		if sel, ok := v.Args[0].(*ast.SelectorExpr); ok && calleeName(sel) == "bytes.Buffer" {
			return xr{"([] : Bytes)", gty{k: kBuf}, false}
		}
		t, ok := f.g.goType(v.Args[0])
		if !ok || t.k != kStruct {
			f.fail(v, "new of a type outside the subset")
		}
		return xr{"(some " + f.zero(v, t) + ")", gty{k: kPtr, name: t.name}, false}
	case "append":
		// append into a reslice of a capacity-tracked parameter (or an alias of one) would write into the shared array
		{
			a0 := v.Args[0]
			if se, ok := a0.(*ast.SliceExpr); ok {
				a0 = se.X
			}
			if id, ok := a0.(*ast.Ident); ok {
				_, isAlias := f.capAlias[id.Name]
				if isAlias || (f.sig.isCap(leanVar(id.Name)) && f.isParam(id.Name)) {
					f.fail(v, "append to (a reslice of) the capacity-tracked parameter %s: it may write into the shared array", id.Name)
				}
			}
		}
		x := f.expr(v.Args[0])
		if len(v.Args) != 2 {
			f.fail(v, "append with %d arguments", len(v.Args))
		}
		y := f.expr(v.Args[1])
		switch {
		case v.Ellipsis.IsValid() && x.t.k == y.t.k && x.t.name == y.t.name && (x.t.k == kStr || x.t.k == kStrs || x.t.k == kStructs || x.t.k == kPtrs):
			return xr{"(" + x.code + " ++ " + y.code + ")", x.t, x.eff || y.eff}
		case !v.Ellipsis.IsValid() && x.t.k == kPtrs && y.t.k == kPtr && x.t.name == y.t.name:
			return xr{"(" + x.code + " ++ [" + y.code + "])", x.t, x.eff || y.eff}
		case !v.Ellipsis.IsValid() && x.t.k == kStructs && y.t.k == kStruct && x.t.name == y.t.name:
			return xr{"(" + x.code + " ++ [" + y.code + "])", x.t, x.eff || y.eff}
		case !v.Ellipsis.IsValid() && x.t.k == kStrs && y.t.k == kStr:
			return xr{"(" + x.code + " ++ [" + y.code + "])", x.t, x.eff || y.eff}
		case !v.Ellipsis.IsValid() && x.t.k == kStr && (y.t.k == kByte || isUntyped(y.t)):
			return xr{"(" + x.code + " ++ [" + y.code + "])", x.t, x.eff || y.eff}
		}
		f.fail(v, "append(%s, %s)", x.t.lean(), y.t.lean())
	}
	if name == "fmt.Sprintf" {
		// only formats made of literal text and `%02d` verbs (int arguments)
		if len(v.Args) == 0 {
			f.fail(v, "fmt.Sprintf without a format")
		}
		format, ok := f.g.p.constString(v.Args[0])
		if !ok {
			f.fail(v, "fmt.Sprintf with a non-constant format")
		}
		var parts []string
		eff := false
		argi := 1
		lit := ""
		flush := func() {
			if lit != "" {
				parts = append(parts, bytesLit(lit))
				lit = ""
			}
		}
		for i := 0; i < len(format); i++ {
			if format[i] != '%' {
				lit += string(format[i])
				continue
			}
			if strings.HasPrefix(format[i:], "%%") {
				lit += "%"
				i++
				continue
			}
			if strings.HasPrefix(format[i:], "%s") && argi < len(v.Args) {
				// %s of a string argument: the bytes of the string
				flush()
				a := f.expr(v.Args[argi])
				if a.t.k != kStr {
					f.fail(v, "fmt.Sprintf %%s of %s", a.t.lean())
				}
				argi++
				eff = eff || a.eff
				parts = append(parts, a.code)
				i++
				continue
			}
			if !strings.HasPrefix(format[i:], "%02d") || argi >= len(v.Args) {
				f.fail(v, "fmt.Sprintf format %q (only literal text, %%s of strings and %%02d are modelled)", format)
			}
			flush()
			a := f.intExpr(v.Args[argi])
			argi++
			eff = eff || a.eff
			parts = append(parts, "(fmtD2 "+a.code+")")
			i += 3
		}
		flush()
		if argi != len(v.Args) {
			f.fail(v, "fmt.Sprintf: %d arguments for format %q", len(v.Args)-1, format)
		}
		if len(parts) == 0 {
			return xr{"([] : Bytes)", gty{k: kStr}, false}
		}
		return xr{"(" + strings.Join(parts, " ++ ") + ")", gty{k: kStr}, eff}
	}
	if name == "errors.New" && len(v.Args) == 1 {
		// the message is evaluated (its panics are kept) and then abstracted away
		x := f.expr(v.Args[0])
		if x.t.k != kStr {
			f.fail(v, "errors.New of %s", x.t.lean())
		}
		return xr{"(errOf " + x.code + ")", gty{k: kErr}, x.eff}
	}
	if name == "fmt.Errorf" {
		// an error VALUE: non-nil, message text abstracted.  The arguments must be expressions of the subset
		// that cannot panic (they are only formatted).
		for _, a := range v.Args {
			if x := f.expr(a); x.eff {
				f.fail(a, "fmt.Errorf argument that can panic")
			}
		}
		return xr{"(some GoErr.mk)", gty{k: kErr}, false}
	}
	// standard library (possibly keyed by a function-valued argument)
	key := name
	args := v.Args
	if len(args) > 0 {
		if id, ok := args[len(args)-1].(*ast.Ident); ok {
			if _, ok := stdlibTable[name+"/"+id.Name]; ok {
				key = name + "/" + id.Name
				args = args[:len(args)-1]
			}
		}
	}
	if lf, ok := stdlibTable[key]; ok {
		if len(args) != len(lf.args) {
			f.fail(v, "%s: %d arguments", key, len(args))
		}
		code := lf.tmpl
		eff := lf.eff
		for i, a := range args {
			x := f.expr(a)
			want := gty{k: lf.args[i]}
			if x.t.k == kNil && want.k == kStr {
				x = xr{"([] : Bytes)", want, false} // nil []byte
			}
			f.assignable(a, want, x.t)
			code = strings.ReplaceAll(code, "$"+strconv.Itoa(i+1), x.code)
			eff = eff || x.eff
		}
		ret := lf.ret
		if lf.eff {
			return xr{"(← " + code + ")", gty{k: ret}, true}
		}
		return xr{"(" + code + ")", gty{k: ret}, eff}
	}
	// X.Replace(s) for a package-level `var X = strings.NewReplacer(…)`
	if sel, ok := v.Fun.(*ast.SelectorExpr); ok && sel.Sel.Name == "Replace" && len(v.Args) == 1 {
		if id, ok := sel.X.(*ast.Ident); ok {
			if _, isLocal := f.lookup(id.Name); !isLocal {
				if name, ok := f.replacerConst(id); ok {
					x := f.expr(v.Args[0])
					f.assignable(v, gty{k: kStr}, x.t)
					return xr{"(replacer " + name + " " + x.code + ")", gty{k: kStr}, x.eff}
				}
			}
		}
	}
	// X.ReplaceAllString(s, "") for a package-level regular expression of regexDeleteTable
	if sel, ok := v.Fun.(*ast.SelectorExpr); ok && sel.Sel.Name == "ReplaceAllString" && len(v.Args) == 2 {
		if id, ok := sel.X.(*ast.Ident); ok {
			if _, isLocal := f.lookup(id.Name); !isLocal {
				if val, ok := f.g.p.valueSpec(id.Name); ok {
					if ce, ok := val.(*ast.CallExpr); ok && calleeName(ce.Fun) == "regexp.MustCompile" && len(ce.Args) == 1 {
						pat, ok1 := f.g.p.constString(ce.Args[0])
						repl, ok2 := f.g.p.constString(v.Args[1])
						tmpl, ok3 := regexDeleteTable[pat]
						if !ok1 || !ok3 {
							f.fail(v, "regular expression %s is not in the table of hand-modelled patterns", id.Name)
						}
						if !ok2 || repl != "" {
							f.fail(v, "%s.ReplaceAllString with a non-empty replacement", id.Name)
						}
						x := f.expr(v.Args[0])
						f.assignable(v, gty{k: kStr}, x.t)
						return xr{"(" + strings.ReplaceAll(tmpl, "$1", x.code) + ")", gty{k: kStr}, x.eff}
					}
				}
			}
		}
	}
	// bytes.Buffer read accessors
	if sel, ok := v.Fun.(*ast.SelectorExpr); ok {
		if id, ok := sel.X.(*ast.Ident); ok {
			if t, ok := f.lookup(id.Name); ok && t.k == kBuf && len(v.Args) == 0 {
				switch sel.Sel.Name {
				case "Len":
					return xr{"(len " + f.lv(id.Name) + ")", gty{k: kInt}, false}
				case "Bytes", "String":
					return xr{f.lv(id.Name), gty{k: kStr}, false}
				}
			}
		}
	}
	// a package-local function that is mapped to a designated model function
	if mc, ok := modelCalleeTable[name]; ok && f.g.sigs[name] == nil {
		fd := f.g.findFunc(name, "")
		okSig := fd != nil && fd.Type.Results != nil && len(fd.Type.Results.List) == 1 && len(fd.Type.Results.List[0].Names) <= 1
		var ptypes []gty
		if okSig {
			for _, fl := range fd.Type.Params.List {
				t, ok := f.g.goType(fl.Type)
				if !ok {
					okSig = false
					break
				}
				for range fl.Names {
					ptypes = append(ptypes, t)
				}
			}
		}
		if okSig {
			rt, ok := f.g.goType(fd.Type.Results.List[0].Type)
			okSig = ok && rt.k == mc.ret && len(ptypes) == len(mc.args)
			for i := 0; okSig && i < len(ptypes); i++ {
				okSig = ptypes[i].k == mc.args[i]
			}
		}
		if !okSig {
			f.fail(v, "model callee %s: the Go function no longer has the signature of its table entry", name)
		}
		if len(v.Args) != len(mc.args) {
			f.fail(v, "model callee %s: %d arguments", name, len(v.Args))
		}
		code, eff := mc.tmpl, mc.eff
		for i, a := range v.Args {
			x := f.expr(a)
			f.assignable(a, gty{k: mc.args[i]}, x.t)
			code = strings.ReplaceAll(code, "$"+strconv.Itoa(i+1), parenArg(x.code))
			eff = eff || x.eff
		}
		have := false
		for _, m := range f.sig.models {
			have = have || m == name
		}
		if !have {
			f.sig.models = append(f.sig.models, name)
		}
		f.g.imports[mc.imp] = true
		if mc.eff {
			return xr{"(← " + code + ")", gty{k: mc.ret}, true}
		}
		return xr{"(" + code + ")", gty{k: mc.ret}, eff}
	}
	// another translated function
	if x, ok := f.callTarget(v, false); ok {
		return x
	}
	f.fail(v, "call of %s (not in the stdlib table, not a translated function)", exprString(v.Fun))
	return xr{}
}

func exprString(e ast.Expr) string {
	switch v := e.(type) {
	case *ast.Ident:
		return v.Name
	case *ast.SelectorExpr:
		return exprString(v.X) + "." + v.Sel.Name
	}
	return fmt.Sprintf("%T", e)
}

// callTarget translates a call of another target function or method.  In expression position the
// callee must have no in-out parameters and exactly one result (or several, used by a tuple define).
func (f *ftr) callTarget(v *ast.CallExpr, allowMulti bool) (xr, bool) {
	var sig *trSig
	var args []ast.Expr
	switch fn := v.Fun.(type) {
	case *ast.Ident:
		sig = f.g.sigs[fn.Name]
		args = v.Args
	case *ast.SelectorExpr:
		// method of a handle parameter: the receiver is dropped
		if id, ok := fn.X.(*ast.Ident); ok {
			if ht, ok := f.sig.handles[id.Name]; ok {
				sig = f.g.sigs[ht+"_"+fn.Sel.Name]
				args = v.Args
				break
			}
		}
		// method call x.M(…): find the receiver type
		rx := f.tryExprType(fn.X)
		if rx == nil || (rx.k != kPtr && rx.k != kStruct && rx.k != kMap) {
			return xr{}, false
		}
		recv := rx.name
		if rx.k == kMap {
			recv = "Tags"
		}
		sig = f.g.sigs[recv+"_"+fn.Sel.Name]
		args = append([]ast.Expr{fn.X}, v.Args...)
	}
	if sig == nil {
		return xr{}, false
	}
	if !sig.ok {
		f.fail(v, "callee %s is itself unsupported (%s)", sig.name, sig.why)
	}
	if why := f.g.ensure(sig.name); why != "" {
		f.fail(v, "callee %s is itself unsupported (%s)", sig.name, why)
	}
	var packed *xr
	if sig.variadic && !v.Ellipsis.IsValid() {
		// pack the trailing arguments into the slice parameter
		nfix := len(sig.params) - 1
		if len(args) < nfix {
			f.fail(v, "call of %s with %d arguments", sig.name, len(args))
		}
		vt := sig.params[nfix].t
		elt := gty{k: kStr}
		if vt.k == kStructs {
			elt = gty{k: kStruct, name: vt.name}
		}
		var parts []string
		eff := false
		for _, a := range args[nfix:] {
			x := f.expr(a)
			f.assignable(a, elt, x.t)
			parts = append(parts, x.code)
			eff = eff || x.eff
		}
		packed = &xr{"([" + strings.Join(parts, ", ") + "] : " + vt.lean() + ")", vt, eff}
		args = args[:nfix]
	}
	if packed == nil && len(args) != len(sig.params) {
		f.fail(v, "call of %s with %d arguments", sig.name, len(args))
	}
	if len(sig.envs) > 0 {
		f.fail(v, "call of %s, which reads the environment (its parameters are not threaded through callers)", sig.name)
	}
	if len(sig.caps) > 0 {
		f.fail(v, "call of %s, which reads the capacity of a slice parameter (its spare-capacity parameter is not threaded through callers)", sig.name)
	}
	if len(sig.models) > 0 {
		f.fail(v, "call of %s, which calls a model callee (its parameters are not threaded through callers)", sig.name)
	}
	if len(sig.mapout) > 0 {
		f.fail(v, "call of %s, which assigns entries of its map argument", sig.name)
	}
	if len(sig.orders) > 0 {
		f.fail(v, "call of %s, which ranges over a package-level map (its order parameters are not threaded through callers)", sig.name)
	}
	f.deps[sig.name] = true
	code := sig.name
	for i, a := range args {
		x := f.expr(a)
		if sig.params[i].t.k == kPtr && x.t.k == kStruct && x.t.name == sig.params[i].t.name {
			// addressable struct value as the receiver / argument of a pointer method: (&x).M()
			if ue, ok := a.(*ast.UnaryExpr); !(ok && ue.Op == token.AND) {
				x = xr{"(some " + x.code + ")", sig.params[i].t, x.eff}
			}
		}
		f.assignable(a, sig.params[i].t, x.t)
		code += " " + x.code
	}
	if packed != nil {
		code += " " + packed.code
	}
	if len(sig.ptrout) > 0 || sig.sinks {
		if !allowMulti {
			f.fail(v, "call of %s (it writes through a pointer / calls a sink) in expression position", sig.name)
		}
		return xr{"(← " + code + ")", gty{}, true}, true // statement-level only; handled by callExtras
	}
	if len(sig.inout) > 0 {
		return xr{code, gty{}, true}, true // statement-level only; handled by the caller
	}
	if len(sig.rets) == 1 {
		return xr{"(← " + code + ")", sig.rets[0], true}, true
	}
	if allowMulti {
		return xr{"(← " + code + ")", gty{}, true}, true
	}
	f.fail(v, "call of %s with %d results in expression position", sig.name, len(sig.rets))
	return xr{}, false
}

// tryExprType computes the type of a simple receiver expression without emitting code.
func (f *ftr) tryExprType(e ast.Expr) *gty {
	switch v := e.(type) {
	case *ast.Ident:
		if t, ok := f.lookup(v.Name); ok {
			return &t
		}
	case *ast.SelectorExpr:
		xt := f.tryExprType(v.X)
		if xt != nil && (xt.k == kPtr || xt.k == kStruct) {
			if ft, ok := f.g.structFieldType(xt.name, v.Sel.Name); ok {
				return &ft
			}
		}
	}
	return nil
}

// ---- statements -------------------------------------------------------------------------------

type emitter struct {
	lines []string
}

func (e *emitter) add(ind int, s string) {
	e.lines = append(e.lines, strings.Repeat("  ", ind)+s)
}

// retCode renders a `return` of the given result values (in-out buffers appended).
func (f *ftr) retCode(vals []string) string {
	all := append([]string{}, vals...)
	all = append(all, f.sig.inout...)
	for _, m := range f.sig.mapout {
		if f.sig.rebound[m] {
			all = append(all, m+"_out_")
		} else {
			all = append(all, m)
		}
	}
	all = append(all, f.sig.ptrout...)
	if f.sig.sinks {
		all = append(all, "outs_")
	}
	v := tupleVal(all)
	if f.loop != nil {
		return "return .ret " + v
	}
	return "return " + v
}

func (f *ftr) block(list []ast.Stmt, ind int, em *emitter) (terminates bool) {
	for i, s := range list {
		if why := f.erasable(s); why != "" {
			em.add(ind, "-- erased ("+why+"): statement at "+f.g.pos(s))
			continue
		}
		if f.stmt(s, ind, em) {
			if i != len(list)-1 {
				f.fail(list[i+1], "unreachable statement")
			}
			return true
		}
	}
	return false
}

func (f *ftr) setVar(n ast.Node, name string, val xr, ind int, em *emitter) {
	t, ok := f.lookup(name)
	if !ok {
		f.fail(n, "assignment to unknown variable %s", name)
	}
	val = f.coerce(n, t, val)
	em.add(ind, f.lv(name)+" := "+val.code)
	if f.sig.rebound[f.lv(name)] && f.isParam(name) {
		if f.loop != nil {
			f.fail(n, "map parameter %s is re-bound inside a loop", name)
		}
		em.add(ind, f.lv(name)+"_linked_ := false")
	}
}

// coerce checks assignability and renders an untyped nil at a slice type as the empty slice.
func (f *ftr) coerce(n ast.Node, dst gty, x xr) xr {
	if x.t.k == kNil && (dst.k == kStr || dst.k == kStrs) {
		if dst.k == kStr {
			return xr{"([] : Bytes)", dst, false}
		}
		return xr{"([] : List Bytes)", dst, false}
	}
	f.assignable(n, dst, x.t)
	return x
}

func (f *ftr) defType(n ast.Node, t gty) gty {
	switch t.k {
	case kUInt:
		return gty{k: kInt}
	case kURune:
		f.fail(n, "rune-typed variable")
	case kNil:
		f.fail(n, "variable initialised with untyped nil")
	case kInvalid:
		f.fail(n, "value without a single type")
	}
	return t
}

func (f *ftr) stmt(s ast.Stmt, ind int, em *emitter) (terminates bool) {
	switch v := s.(type) {
	case *ast.EmptyStmt:
		return false
	case *ast.BlockStmt:
		f.push()
		defer f.pop()
		return f.block(v.List, ind, em)
	case *ast.DeclStmt:
		gd, ok := v.Decl.(*ast.GenDecl)
		if !ok || gd.Tok != token.VAR {
			f.fail(v, "declaration statement")
		}
		for _, sp := range gd.Specs {
			vs := sp.(*ast.ValueSpec)
			if vs.Type == nil || len(vs.Values) != 0 {
				f.fail(vs, "var declaration with initialiser")
			}
			t, ok := f.g.goType(vs.Type)
			if !ok {
				f.fail(vs, "var type outside the subset")
			}
			for _, n := range vs.Names {
				f.declare(n, n.Name, t)
				em.add(ind, fmt.Sprintf("let mut %s : %s := %s", f.lv(n.Name), t.lean(), f.zero(n, t)))
			}
		}
		return false
	case *ast.AssignStmt:
		f.assign(v, ind, em)
		return false
	case *ast.IncDecStmt:
		op := " + 1"
		if v.Tok == token.DEC {
			op = " - 1"
		}
		id, ok := v.X.(*ast.Ident)
		if !ok {
			f.fail(v, "++/-- on a non-variable")
		}
		t, _ := f.lookup(id.Name)
		if t.k != kInt {
			f.fail(v, "++/-- on %s", t.lean())
		}
		em.add(ind, f.lv(id.Name)+" := "+f.lv(id.Name)+op)
		return false
	case *ast.ExprStmt:
		f.exprStmt(v, ind, em)
		return false
	case *ast.ReturnStmt:
		var vals []string
		if len(v.Results) == 0 {
			if len(f.sig.rets) > 0 && len(f.named) == 0 {
				f.fail(v, "naked return without named results")
			}
			for _, n := range f.named {
				vals = append(vals, f.lv(n))
			}
		} else {
			if len(v.Results) != len(f.sig.rets) {
				f.fail(v, "return of a multi-valued call")
			}
			for i, r := range v.Results {
				x := f.coerce(r, f.sig.rets[i], f.expr(r))
				vals = append(vals, x.code)
			}
		}
		em.add(ind, f.retCode(vals))
		return true
	case *ast.IfStmt:
		return f.ifStmt(v, ind, em)
	case *ast.SwitchStmt:
		return f.switchStmt(v, ind, em)
	case *ast.ForStmt:
		f.forStmt(v, ind, em)
		return false
	case *ast.RangeStmt:
		f.rangeStmt(v, ind, em)
		return false
	case *ast.BranchStmt:
		if v.Label != nil || f.loop == nil {
			f.fail(v, "%s outside a loop / with a label", v.Tok)
		}
		switch v.Tok {
		case token.BREAK:
			em.add(ind, "return .done "+tupleVal(f.loop.outer))
			return true
		case token.CONTINUE:
			if f.loop.post != nil {
				f.stmt(f.loop.post, ind, em)
			}
			em.add(ind, "return (← "+f.loopCall("fuel")+")")
			return true
		}
		f.fail(v, "%s", v.Tok)
	}
	f.fail(s, "statement form %T", s)
	return false
}

func (f *ftr) loopCall(fuel string) string {
	parts := []string{f.loop.helper}
	parts = append(parts, f.loop.imm...)
	parts = append(parts, fuel)
	if f.loop.extra != "" {
		parts = append(parts, f.loop.extra)
	}
	parts = append(parts, f.loop.carried...)
	return strings.Join(parts, " ")
}

// bufWrite2 translates `n, err = w.Write(b)` / `n, err := w.Write(b)` for a buffer w: the bytes are appended,
// n is their number and err is nil (a bytes.Buffer write never fails).
func (f *ftr) bufWrite2(v *ast.AssignStmt, ind int, em *emitter) bool {
	if len(v.Lhs) != 2 || len(v.Rhs) != 1 {
		return false
	}
	call, ok := v.Rhs[0].(*ast.CallExpr)
	if !ok || len(call.Args) != 1 {
		return false
	}
	sel, ok := call.Fun.(*ast.SelectorExpr)
	if !ok || (sel.Sel.Name != "Write" && sel.Sel.Name != "WriteString") {
		return false
	}
	id, ok := sel.X.(*ast.Ident)
	if !ok {
		return false
	}
	if t, ok := f.lookup(id.Name); !ok || t.k != kBuf {
		return false
	}
	x := f.expr(call.Args[0])
	f.assignable(v, gty{k: kStr}, x.t)
	f.ntmp++
	tmp := fmt.Sprintf("wr%d_", f.ntmp)
	em.add(ind, fmt.Sprintf("let %s : Bytes := %s", tmp, x.code))
	em.add(ind, fmt.Sprintf("%s := %s ++ %s", f.lv(id.Name), f.lv(id.Name), tmp))
	vals := [2]xr{{"(len " + tmp + ")", gty{k: kInt}, false}, {"none", gty{k: kErr}, false}}
	for i, l := range v.Lhs {
		lid, ok := l.(*ast.Ident)
		if !ok {
			f.fail(l, "assignment target of a Write result")
		}
		if lid.Name == "_" {
			continue
		}
		if v.Tok == token.DEFINE {
			f.declare(lid, lid.Name, vals[i].t)
			em.add(ind, fmt.Sprintf("let mut %s : %s := %s", f.lv(lid.Name), vals[i].t.lean(), vals[i].code))
		} else {
			f.setVar(v, lid.Name, vals[i], ind, em)
		}
	}
	return true
}

func (f *ftr) assign(v *ast.AssignStmt, ind int, em *emitter) {
	if (v.Tok == token.DEFINE || v.Tok == token.ASSIGN) && f.bufWrite2(v, ind, em) {
		return
	}
	switch v.Tok {
	case token.DEFINE:
		if len(v.Lhs) == len(v.Rhs) {
			// evaluate every right-hand side before declaring (no right-hand side may mention a new name)
			var xs []xr
			for _, r := range v.Rhs {
				xs = append(xs, f.expr(r))
			}
			for i, l := range v.Lhs {
				id, ok := l.(*ast.Ident)
				if !ok {
					f.fail(l, "define of a non-identifier")
				}
				if id.Name == "_" {
					f.fail(l, "blank identifier")
				}
				t := f.defType(l, xs[i].t)
				f.declare(id, id.Name, t)
				em.add(ind, fmt.Sprintf("let mut %s : %s := %s", f.lv(id.Name), t.lean(), xs[i].code))
				f.noteCapAlias(id.Name, v.Rhs[i])
			}
			return
		}
		// `v, ok := X[k]` on a package-level map literal
		if ix, ok := v.Rhs[0].(*ast.IndexExpr); ok && len(v.Lhs) == 2 && len(v.Rhs) == 1 {
			if id, ok := ix.X.(*ast.Ident); ok {
				if _, isLocal := f.lookup(id.Name); !isLocal {
					if info := f.g.pkgMap(id.Name); info != nil {
						k := f.expr(ix.Index)
						f.assignable(v, gty{k: kStr}, k.t)
						get, zero := "pmGetS", gty{k: kStr}
						if info.valKind == kInt {
							get, zero = "pmGetI", gty{k: kInt}
						}
						names := [2]string{v.Lhs[0].(*ast.Ident).Name, v.Lhs[1].(*ast.Ident).Name}
						if names[0] != "_" {
							f.declare(v, names[0], zero)
							em.add(ind, fmt.Sprintf("let mut %s : %s := (%s %s %s)", f.lv(names[0]), zero.lean(), get, leanVar(id.Name), k.code))
						}
						if names[1] != "_" {
							f.declare(v, names[1], gty{k: kBool})
							em.add(ind, fmt.Sprintf("let mut %s : Bool := (pmHas %s %s)", f.lv(names[1]), leanVar(id.Name), k.code))
						}
						return
					}
				}
			}
		}
		// `v, ok := m[k]` on a map
		if ix, ok := v.Rhs[0].(*ast.IndexExpr); ok && len(v.Lhs) == 2 && len(v.Rhs) == 1 {
			m := f.expr(ix.X)
			k := f.expr(ix.Index)
			if m.t.k == kMap {
				f.assignable(v, gty{k: kStr}, k.t)
				names := [2]string{v.Lhs[0].(*ast.Ident).Name, v.Lhs[1].(*ast.Ident).Name}
				if names[0] != "_" {
					f.declare(v, names[0], gty{k: kStr})
					em.add(ind, fmt.Sprintf("let mut %s : Bytes := (mapGet %s %s)", f.lv(names[0]), m.code, k.code))
				}
				if names[1] != "_" {
					f.declare(v, names[1], gty{k: kBool})
					em.add(ind, fmt.Sprintf("let mut %s : Bool := (mapHas %s %s)", f.lv(names[1]), m.code, k.code))
				}
				return
			}
		}
		// `a, b := F(…)` for a translated function with several results
		if call, ok := v.Rhs[0].(*ast.CallExpr); ok && len(v.Rhs) == 1 {
			if x, ok := f.callTarget(call, true); ok {
				sig := f.calleeSig(call)
				if len(sig.ptrout) > 0 || sig.sinks {
					f.fail(v, "results of %s (it writes through a pointer / calls a sink) are used", sig.name)
				}
				if len(sig.inout) == 0 && len(sig.rets) == len(v.Lhs) {
					var pats []string
					for i, l := range v.Lhs {
						id := l.(*ast.Ident)
						if id.Name == "_" {
							pats = append(pats, "_")
							continue
						}
						f.declare(id, id.Name, sig.rets[i])
						pats = append(pats, f.lv(id.Name)+"_0")
					}
					em.add(ind, "let ("+strings.Join(pats, ", ")+") := "+x.code)
					for i, l := range v.Lhs {
						id := l.(*ast.Ident)
						if id.Name != "_" {
							em.add(ind, fmt.Sprintf("let mut %s : %s := %s_0", f.lv(id.Name), sig.rets[i].lean(), f.lv(id.Name)))
						}
					}
					return
				}
			}
		}
		f.fail(v, "multi-value define from one call")
	case token.ASSIGN:
		if len(v.Lhs) == 2 && len(v.Rhs) == 1 {
			// `v, ok = m[k]` on a map (either side may be blank)
			if ix, ok := v.Rhs[0].(*ast.IndexExpr); ok {
				if mt := f.tryExprType(ix.X); mt != nil && mt.k == kMap {
					m, k := f.expr(ix.X), f.expr(ix.Index)
					f.assignable(v, gty{k: kStr}, k.t)
					vals := [2]xr{{"(mapGet " + m.code + " " + k.code + ")", gty{k: kStr}, m.eff || k.eff},
						{"(mapHas " + m.code + " " + k.code + ")", gty{k: kBool}, m.eff || k.eff}}
					for i, l := range v.Lhs {
						if id, ok := l.(*ast.Ident); ok && id.Name == "_" {
							continue
						}
						f.assignTo(l, vals[i], v, ind, em)
					}
					return
				}
			}
		}
		if call, ok := v.Rhs[0].(*ast.CallExpr); ok && len(v.Rhs) == 1 && len(v.Lhs) > 1 {
			// `a, b = F(…)` for a translated function with several results: the results are bound first, then assigned
			// left to right (the targets must be plain variables)
			if x, ok := f.callTarget(call, true); ok {
				sig := f.calleeSig(call)
				if len(sig.ptrout) > 0 || sig.sinks || len(sig.inout) > 0 || len(sig.rets) != len(v.Lhs) {
					f.fail(v, "multi-value assignment from %s", sig.name)
				}
				f.ntmp++
				var pats []string
				for i, l := range v.Lhs {
					id, ok := l.(*ast.Ident)
					if !ok {
						f.fail(l, "multi-value assignment to a non-variable")
					}
					if id.Name == "_" {
						pats = append(pats, "_")
					} else {
						pats = append(pats, fmt.Sprintf("ma%d_%d_", f.ntmp, i+1))
					}
				}
				em.add(ind, "let ("+strings.Join(pats, ", ")+") := "+x.code)
				for i, l := range v.Lhs {
					if id := l.(*ast.Ident); id.Name != "_" {
						f.setVar(v, id.Name, xr{pats[i], sig.rets[i], false}, ind, em)
					}
				}
				return
			}
		}
		if len(v.Lhs) != len(v.Rhs) {
			f.fail(v, "multi-value assignment from one call")
		}
		if len(v.Lhs) > 1 {
			f.fail(v, "parallel assignment")
		}
		f.assignTo(v.Lhs[0], f.expr(v.Rhs[0]), v, ind, em)
		if id, ok := v.Lhs[0].(*ast.Ident); ok {
			f.noteCapAlias(id.Name, v.Rhs[0])
		}
		return
	case token.ADD_ASSIGN, token.SUB_ASSIGN:
		op := token.ADD
		if v.Tok == token.SUB_ASSIGN {
			op = token.SUB
		}
		be := &ast.BinaryExpr{X: v.Lhs[0], Op: op, Y: v.Rhs[0], OpPos: v.TokPos}
		f.assignTo(v.Lhs[0], f.binary(be), v, ind, em)
		return
	}
	f.fail(v, "assignment operator %s", v.Tok)
}

func (f *ftr) assignTo(lhs ast.Expr, val xr, n ast.Node, ind int, em *emitter) {
	switch l := lhs.(type) {
	case *ast.Ident:
		f.setVar(n, l.Name, val, ind, em)
		return
	case *ast.IndexExpr:
		id, ok := l.X.(*ast.Ident)
		if !ok {
			f.assignPath(lhs, val, n, ind, em)
			return
		}
		t, _ := f.lookup(id.Name)
		if t.k == kMap {
			k := f.expr(l.Index)
			f.assignable(n, gty{k: kStr}, k.t)
			f.assignable(n, gty{k: kStr}, val.t)
			em.add(ind, fmt.Sprintf("%s := (← mapSet %s %s %s)", f.lv(id.Name), f.lv(id.Name), k.code, val.code))
			if f.sig.rebound[f.lv(id.Name)] && f.isParam(id.Name) {
				if f.loop != nil {
					f.fail(n, "entry of the re-bound map parameter %s is assigned inside a loop", id.Name)
				}
				em.add(ind, fmt.Sprintf("if %s_linked_ then", f.lv(id.Name)))
				em.add(ind+1, fmt.Sprintf("%s_out_ := %s", f.lv(id.Name), f.lv(id.Name)))
			}
			return
		}
		if t.k == kStrs || t.k == kStructs || t.k == kMapMap {
			f.assignPath(lhs, val, n, ind, em)
			if p, ok := f.capAlias[id.Name]; ok {
				if f.loop != nil {
					f.fail(n, "write through a reslice of parameter %s inside a loop", p)
				}
				f.capDirty[p] = true
			}
			return
		}
		if t.k != kStr {
			f.fail(n, "element assignment on %s", t.lean())
		}
		f.assignable(n, gty{k: kByte}, val.t)
		i := f.intExpr(l.Index)
		em.add(ind, fmt.Sprintf("%s := (← setI %s %s %s)", f.lv(id.Name), f.lv(id.Name), i.code, val.code))
		return
	case *ast.SelectorExpr:
		id, ok := l.X.(*ast.Ident)
		if !ok {
			f.assignPath(lhs, val, n, ind, em)
			return
		}
		t, ok := f.lookup(id.Name)
		if !ok || (t.k != kPtr && t.k != kStruct) {
			f.fail(n, "field assignment on %s", t.lean())
		}
		ft, modelled := f.g.structFieldType(t.name, l.Sel.Name)
		if !modelled {
			f.fail(n, "assignment to field %s.%s, which is outside the model", t.name, l.Sel.Name)
		}
		f.assignable(n, ft, val.t)
		name := f.lv(id.Name)
		if f.isParam(id.Name) && !(t.k == kPtr && f.sig.isPtrout(name)) {
			f.fail(n, "field assignment through parameter %s (caller-visible mutation)", id.Name)
		}
		if t.k == kPtr {
			em.add(ind, fmt.Sprintf("%s := some { (← deref %s) with %s := %s }", name, name, leanField(t.name, l.Sel.Name), val.code))
		} else {
			em.add(ind, fmt.Sprintf("%s := { %s with %s := %s }", name, name, leanField(t.name, l.Sel.Name), val.code))
		}
		return
	}
	f.fail(n, "assignment target %T", lhs)
}

// assignPath assigns to a general lvalue path x.f[i].g …: the new value of the root variable is rebuilt from the inside
// out (`{ x with f := (← setA x.f i { (← atA x.f i) with g := v }) }`).  The right-hand side has been evaluated before.
func (f *ftr) assignPath(lhs ast.Expr, val xr, n ast.Node, ind int, em *emitter) {
	switch l := lhs.(type) {
	case *ast.ParenExpr:
		f.assignPath(l.X, val, n, ind, em)
	case *ast.Ident:
		t, ok := f.lookup(l.Name)
		if !ok {
			f.fail(n, "assignment to unknown variable %s", l.Name)
		}
		if f.isParam(l.Name) && t.k == kPtr && !f.sig.isPtrout(f.lv(l.Name)) {
			f.fail(n, "assignment through pointer parameter %s", l.Name)
		}
		f.assignable(n, t, val.t)
		if f.isParam(l.Name) && (t.k == kMap || t.k == kMapMap) {
			f.fail(n, "assignment into an entry of map parameter %s through a path", l.Name)
		}
		em.add(ind, f.lv(l.Name)+" := "+val.code)
	case *ast.IndexExpr:
		c := f.expr(l.X)
		if c.t.k == kMap || c.t.k == kMapMap {
			// m[k] = v on a map value (`out[a][b] = v`: the inner map is written back into the outer one – maps are
			// values here; faithful as long as no two entries share an inner map, §2.5)
			k := f.expr(l.Index)
			f.assignable(n, gty{k: kStr}, k.t)
			fn, want := "mapSet", gty{k: kStr}
			if c.t.k == kMapMap {
				fn, want = "mapSet2", gty{k: kMap}
			}
			if val.t.k == kNil {
				val = xr{"none", want, false}
			}
			f.assignable(n, want, val.t)
			f.assignPath(l.X, xr{fmt.Sprintf("(← %s %s %s %s)", fn, c.code, k.code, val.code), c.t, true}, n, ind, em)
			return
		}
		i := f.intExpr(l.Index)
		var code string
		switch c.t.k {
		case kStr:
			f.assignable(n, gty{k: kByte}, val.t)
			code = fmt.Sprintf("(← setI %s %s %s)", c.code, i.code, val.code)
		case kStrs:
			f.assignable(n, gty{k: kStr}, val.t)
			code = fmt.Sprintf("(← setA %s %s %s)", c.code, i.code, val.code)
		case kStructs:
			f.assignable(n, gty{k: kStruct, name: c.t.name}, val.t)
			code = fmt.Sprintf("(← setA %s %s %s)", c.code, i.code, val.code)
		default:
			f.fail(n, "element assignment on %s", c.t.lean())
		}
		f.assignPath(l.X, xr{code, c.t, true}, n, ind, em)
	case *ast.SliceExpr:
		// copy(x[lo:], src): the tail of x from lo is replaced by the (equally long) new tail
		if l.High != nil || l.Slice3 {
			f.fail(n, "copy into a slice expression with an upper bound")
		}
		c := f.expr(l.X)
		if c.t.k != val.t.k || c.t.name != val.t.name {
			f.fail(n, "copy into a slice expression of another type")
		}
		fn := map[kind]string{kStr: "sliceI", kStrs: "sliceL", kStructs: "sliceA", kPtrs: "sliceA"}[c.t.k]
		if fn == "" {
			f.fail(n, "copy into a slice expression of %s", c.t.lean())
		}
		lo := "0"
		if l.Low != nil {
			lo = f.intExpr(l.Low).code
		}
		f.assignPath(l.X, xr{fmt.Sprintf("((← %s %s 0 %s) ++ %s)", fn, c.code, lo, val.code), c.t, true}, n, ind, em)
	case *ast.SelectorExpr:
		c := f.expr(l.X)
		if c.t.k != kPtr && c.t.k != kStruct {
			f.fail(n, "field assignment on %s", c.t.lean())
		}
		ft, modelled := f.g.structFieldType(c.t.name, l.Sel.Name)
		if !modelled {
			f.fail(n, "assignment to field %s.%s, which is outside the model", c.t.name, l.Sel.Name)
		}
		f.assignable(n, ft, val.t)
		fld := leanField(c.t.name, l.Sel.Name)
		var code string
		if c.t.k == kPtr {
			code = fmt.Sprintf("(some { %s with %s := %s })", c.code, fld, val.code)
			// c.code is `x`; the pointee is read through deref
			code = fmt.Sprintf("(some { (← deref %s) with %s := %s })", c.code, fld, val.code)
		} else {
			code = fmt.Sprintf("{ %s with %s := %s }", c.code, fld, val.code)
		}
		f.assignPath(l.X, xr{code, c.t, true}, n, ind, em)
	default:
		f.fail(n, "assignment target %T", lhs)
	}
}

// noteCapAlias records that the local `name` shares the backing array of a capacity-tracked parameter when it is bound
// to a reslice of that parameter or of another such alias (§2.16).
func (f *ftr) noteCapAlias(name string, rhs ast.Expr) {
	for {
		if pe, ok := rhs.(*ast.ParenExpr); ok {
			rhs = pe.X
			continue
		}
		break
	}
	var root *ast.Ident
	switch r := rhs.(type) {
	case *ast.SliceExpr:
		root, _ = r.X.(*ast.Ident)
	case *ast.Ident:
		root = r
	}
	if root == nil {
		return
	}
	if f.sig.isCap(leanVar(root.Name)) && f.isParam(root.Name) {
		f.capAlias[name] = root.Name
	} else if p, ok := f.capAlias[root.Name]; ok {
		f.capAlias[name] = p
	}
}

func (f *ftr) isParam(name string) bool {
	for _, p := range f.sig.params {
		if p.name == leanVar(name) {
			return true
		}
	}
	return false
}

func (f *ftr) exprStmt(v *ast.ExprStmt, ind int, em *emitter) {
	call, ok := v.X.(*ast.CallExpr)
	if !ok {
		f.fail(v, "expression statement")
	}
	if pr, ok := stdlibProcTable[calleeName(call.Fun)]; ok {
		if len(call.Args) != 1 {
			f.fail(v, "%s with %d arguments", calleeName(call.Fun), len(call.Args))
		}
		id, ok := call.Args[0].(*ast.Ident)
		if !ok {
			// a field path rooted at a local / a written-through pointer parameter: `sort.Strings(u.ChannelList)`
			x := f.expr(call.Args[0])
			if x.t.k != pr.arg {
				f.fail(v, "%s: argument of the wrong type", calleeName(call.Fun))
			}
			f.assignPath(call.Args[0], xr{"(" + pr.fn + " " + x.code + ")", x.t, x.eff}, v, ind, em)
			return
		}
		t, ok := f.lookup(id.Name)
		if !ok || t.k != pr.arg || f.isParam(id.Name) {
			f.fail(v, "%s: the argument must be a local variable of the expected type (a parameter would alias the caller's slice)", calleeName(call.Fun))
		}
		em.add(ind, fmt.Sprintf("%s := (%s %s)", f.lv(id.Name), pr.fn, f.lv(id.Name)))
		return
	}
	if calleeName(call.Fun) == "delete" && len(call.Args) == 2 {
		// delete(m, k) on a map variable (a no-op on a nil map / missing key)
		id, ok := call.Args[0].(*ast.Ident)
		if !ok {
			f.fail(v, "delete on a non-variable")
		}
		t, _ := f.lookup(id.Name)
		if t.k != kMap {
			f.fail(v, "delete on %s", t.lean())
		}
		k := f.expr(call.Args[1])
		f.assignable(v, gty{k: kStr}, k.t)
		if f.sig.rebound[f.lv(id.Name)] && f.isParam(id.Name) {
			f.fail(v, "delete on the re-bound map parameter %s", id.Name)
		}
		em.add(ind, fmt.Sprintf("%s := (mapDelete %s %s)", f.lv(id.Name), f.lv(id.Name), k.code))
		return
	}
	if calleeName(call.Fun) == "copy" && len(call.Args) == 2 {
		// copy(dst, src), count discarded; dst is an lvalue path (value semantics: dst and src do not overlap)
		d, sx := f.expr(call.Args[0]), f.expr(call.Args[1])
		if d.t.k != sx.t.k || d.t.name != sx.t.name || (d.t.k != kStr && d.t.k != kStrs && d.t.k != kStructs) {
			f.fail(v, "copy(%s, %s)", d.t.lean(), sx.t.lean())
		}
		if r := lvalueRoot(call.Args[0]); r == nil || (f.isParam(r.Name) && r == call.Args[0]) {
			f.fail(v, "copy into a parameter slice (it would alias the caller's slice)")
		}
		f.assignPath(call.Args[0], xr{"(copyA " + d.code + " " + sx.code + ")", d.t, d.eff || sx.eff}, v, ind, em)
		if r := lvalueRoot(call.Args[0]); r != nil {
			if p, ok := f.capAlias[r.Name]; ok {
				if f.loop != nil {
					f.fail(v, "write through a reslice of parameter %s inside a loop", p)
				}
				f.capDirty[p] = true // the parameter's array has been overwritten: later reads of it are rejected
			}
		}
		return
	}
	if ctor, ok := sinkTable[exprString(call.Fun)]; ok {
		if root := lvalueRoot(call.Fun.(*ast.SelectorExpr).X); root == nil || f.sig.handles[root.Name] == "" {
			f.fail(v, "sink call %s whose root is not a handle parameter", exprString(call.Fun))
		}
		if len(call.Args) != 1 {
			f.fail(v, "sink call with %d arguments", len(call.Args))
		}
		x := f.expr(call.Args[0])
		if x.t.k != kPtr || x.t.name != "Event" {
			f.fail(v, "sink argument of type %s", x.t.lean())
		}
		arg := "(← deref " + x.code + ")"
		if strings.HasPrefix(x.code, "(some ") && strings.HasSuffix(x.code, ")") && balanced(x.code[len("(some "):len(x.code)-1]) {
			arg = x.code[len("(some ") : len(x.code)-1] // &Event{…}: never nil
		}
		em.add(ind, fmt.Sprintf("outs_ := outs_ ++ [%s %s]", ctor, arg))
		return
	}
	if sel, ok := call.Fun.(*ast.SelectorExpr); ok {
		if id, ok := sel.X.(*ast.Ident); ok {
			if t, ok := f.lookup(id.Name); ok && t.k == kBuf {
				b := f.lv(id.Name)
				switch sel.Sel.Name {
				case "WriteString", "Write":
					x := f.expr(call.Args[0])
					f.assignable(v, gty{k: kStr}, x.t)
					em.add(ind, fmt.Sprintf("%s := %s ++ %s", b, b, x.code))
					return
				case "WriteByte":
					x := f.expr(call.Args[0])
					f.assignable(v, gty{k: kByte}, x.t)
					em.add(ind, fmt.Sprintf("%s := %s ++ [%s]", b, b, x.code))
					return
				}
				f.fail(v, "bytes.Buffer method %s", sel.Sel.Name)
			}
		}
	}
	// a translated function with in-out buffer parameters, results ignored
	if x, ok := f.callTarget(call, true); ok {
		sig := f.calleeSig(call)
		if len(sig.ptrout) > 0 || sig.sinks {
			f.callExtras(call, sig, x, ind, em)
			return
		}
		if len(sig.inout) == 0 {
			em.add(ind, "let _ ← "+strings.TrimSuffix(strings.TrimPrefix(x.code, "(← "), ")"))
			return
		}
		var outs []string
		for i, p := range sig.params {
			if p.t.k != kBuf {
				continue
			}
			args := call.Args
			if _, isSel := call.Fun.(*ast.SelectorExpr); isSel {
				args = append([]ast.Expr{call.Fun.(*ast.SelectorExpr).X}, call.Args...)
			}
			id, ok := args[i].(*ast.Ident)
			if !ok {
				f.fail(v, "buffer argument is not a variable")
			}
			outs = append(outs, f.lv(id.Name))
		}
		if len(outs) != 1 {
			f.fail(v, "call with %d buffer arguments", len(outs))
		}
		if len(sig.rets) == 0 {
			em.add(ind, outs[0]+" := (← "+x.code+")")
			return
		}
		// the results are discarded, the buffer is kept
		f.ntmp++
		tmp := fmt.Sprintf("io%d_", f.ntmp)
		em.add(ind, "let ("+strings.Repeat("_, ", len(sig.rets))+tmp+") ← "+x.code)
		em.add(ind, outs[0]+" := "+tmp)
		return
	}
	f.fail(v, "call statement %s", exprString(call.Fun))
}

// callExtras emits a call STATEMENT of a translated function that writes through pointer parameters and / or calls sinks:
// the ordinary results are discarded, the new pointees are assigned back to the argument variables and the callee's
// outputs are appended to `outs_`.
func (f *ftr) callExtras(call *ast.CallExpr, sig *trSig, x xr, ind int, em *emitter) {
	if len(sig.inout) > 0 || len(sig.mapout) > 0 {
		f.fail(call, "call of %s, which has buffer / map results as well as pointer / sink results", sig.name)
	}
	args := call.Args
	if sel, isSel := call.Fun.(*ast.SelectorExpr); isSel {
		if id, ok := sel.X.(*ast.Ident); !ok || f.sig.handles[id.Name] == "" {
			args = append([]ast.Expr{sel.X}, call.Args...)
		}
	}
	var pats []string
	for range sig.rets {
		pats = append(pats, "_")
	}
	type back struct {
		arg ast.Expr
		tmp string
		t   gty
	}
	var backs []back
	for i, p := range sig.params {
		if !sig.isPtrout(p.name) {
			continue
		}
		f.ntmp++
		tmp := fmt.Sprintf("po%d_", f.ntmp)
		pats = append(pats, tmp)
		backs = append(backs, back{args[i], tmp, p.t})
	}
	otmp := ""
	if sig.sinks {
		f.ntmp++
		otmp = fmt.Sprintf("os%d_", f.ntmp)
		pats = append(pats, otmp)
	}
	code := strings.TrimSuffix(strings.TrimPrefix(x.code, "(← "), ")")
	if len(pats) == 1 {
		em.add(ind, "let "+pats[0]+" ← "+code)
	} else {
		em.add(ind, "let ("+strings.Join(pats, ", ")+") ← "+code)
	}
	for _, b := range backs {
		switch a := b.arg.(type) {
		case *ast.UnaryExpr: // &x for a struct variable / field path x
			if a.Op != token.AND {
				f.fail(call, "pointer argument form")
			}
			f.assignPath(a.X, xr{"(← deref " + b.tmp + ")", gty{k: kStruct, name: b.t.name}, true}, call, ind, em)
		default:
			// a pointer variable, or an addressable struct used as the receiver of a pointer method (x.M() = (&x).M())
			at := f.expr(b.arg).t
			if at.k == kStruct {
				f.assignPath(b.arg, xr{"(← deref " + b.tmp + ")", at, true}, call, ind, em)
			} else {
				f.assignPath(b.arg, xr{b.tmp, b.t, false}, call, ind, em)
			}
		}
	}
	if otmp != "" {
		em.add(ind, "outs_ := outs_ ++ "+otmp)
	}
}

func (f *ftr) calleeSig(v *ast.CallExpr) *trSig {
	switch fn := v.Fun.(type) {
	case *ast.Ident:
		return f.g.sigs[fn.Name]
	case *ast.SelectorExpr:
		if id, ok := fn.X.(*ast.Ident); ok {
			if ht, ok := f.sig.handles[id.Name]; ok {
				return f.g.sigs[ht+"_"+fn.Sel.Name]
			}
		}
		rx := f.tryExprType(fn.X)
		recv := rx.name
		if rx.k == kMap {
			recv = "Tags"
		}
		return f.g.sigs[recv+"_"+fn.Sel.Name]
	}
	return nil
}

func (f *ftr) cond(e ast.Expr) string {
	x := f.expr(e)
	if x.t.k != kBool {
		f.fail(e, "condition is not a bool")
	}
	return x.code
}

func (f *ftr) ifStmt(v *ast.IfStmt, ind int, em *emitter) bool {
	if v.Init != nil {
		// the init variables live until the end of the if statement
		f.push()
		defer f.pop()
		f.stmt(v.Init, ind, em)
	}
	if be, ok := v.Cond.(*ast.BinaryExpr); ok && v.Else == nil && be.Op == token.NEQ {
		if id, ok := be.Y.(*ast.Ident); ok && id.Name == "nil" {
			f.sliceNilOK = true
		}
	}
	cnd := f.cond(v.Cond)
	f.sliceNilOK = false
	em.add(ind, "if "+cnd+" then")
	f.push()
	n0 := len(em.lines)
	dirty0, alias0 := map[string]bool{}, map[string]string{}
	for k, b := range f.capDirty {
		dirty0[k] = b
	}
	for k, a := range f.capAlias {
		alias0[k] = a
	}
	t1 := f.block(v.Body.List, ind+1, em)
	if len(em.lines) == n0 {
		em.add(ind+1, "pure ()")
	}
	f.pop()
	f.capAlias = alias0 // variables declared in the branch are out of scope
	if t1 {
		f.capDirty = dirty0 // the branch does not fall through: what it overwrote is not visible after the `if`
	}
	t2 := false
	if v.Else != nil {
		em.add(ind, "else")
		f.push()
		n0 = len(em.lines)
		switch e := v.Else.(type) {
		case *ast.BlockStmt:
			t2 = f.block(e.List, ind+1, em)
		default:
			t2 = f.stmt(e, ind+1, em)
		}
		if len(em.lines) == n0 {
			em.add(ind+1, "pure ()")
		}
		f.pop()
	}
	return t1 && t2
}

func (f *ftr) switchStmt(v *ast.SwitchStmt, ind int, em *emitter) bool {
	if v.Init != nil {
		f.fail(v, "switch with an init statement")
	}
	tagVar := ""
	var tagT gty
	if v.Tag != nil {
		// the tag is evaluated once; each case is an equality test against it, in order
		t := f.expr(v.Tag)
		switch t.t.k {
		case kStr, kByte, kInt, kUInt, kURune, kBool:
		default:
			f.fail(v, "switch on %s", t.t.lean())
		}
		tagT = f.defType(v, t.t)
		f.ntmp++
		tagVar = fmt.Sprintf("sw%d_", f.ntmp)
		em.add(ind, fmt.Sprintf("let %s : %s := %s", tagVar, tagT.lean(), t.code))
	}
	caseCond := func(e ast.Expr) string {
		if tagVar == "" {
			return f.cond(e)
		}
		x := f.expr(e)
		f.unify(e, tagT, x.t)
		if x.eff {
			f.fail(e, "case expression that can panic")
		}
		return "(" + tagVar + " == " + x.code + ")"
	}
	all := true
	hasDefault := false
	first := true
	for _, c := range v.Body.List {
		cc := c.(*ast.CaseClause)
		if len(cc.List) == 0 {
			if c != v.Body.List[len(v.Body.List)-1] {
				f.fail(cc, "default clause that is not last")
			}
			hasDefault = true
			em.add(ind, "else")
		} else {
			if len(cc.List) != 1 && tagVar == "" {
				f.fail(cc, "case with several expressions")
			}
			kw := "else if "
			if first {
				kw = "if "
			}
			cnd := caseCond(cc.List[0])
			for _, ce := range cc.List[1:] {
				cnd = "(" + cnd + " || " + caseCond(ce) + ")"
			}
			em.add(ind, kw+cnd+" then")
		}
		first = false
		f.push()
		n0 := len(em.lines)
		for _, s := range cc.Body {
			if br, ok := s.(*ast.BranchStmt); ok && (br.Tok == token.BREAK || br.Tok == token.FALLTHROUGH) {
				f.fail(br, "%s in a switch", br.Tok)
			}
		}
		t := f.block(cc.Body, ind+1, em)
		if len(em.lines) == n0 {
			em.add(ind+1, "pure ()")
		}
		f.pop()
		all = all && t
	}
	return all && hasDefault
}

// ---- erasure of statements about unmodelled state -----------------------------------------------

// erasable decides whether a statement only concerns state that is outside the model.  It returns a
// reason (non-empty) iff ALL of the following hold:
//   - it is an `if` or an assignment and writes at least one struct field outside the model
//     (structTable), and every other thing it writes is a variable declared inside the statement;
//   - it contains no return / break / continue / goto / loop / defer / go / func literal;
//   - every call in it is either a translated (hence side-effect free) target function, an entry of
//     the stdlib table, or a call whose receiver and arguments are value-typed (package-level
//     constants, literals, or variables declared inside the statement) – so it cannot reach the
//     modelled state through a pointer.
//
// Trust assumption (TRANSLATOR_NOTES.md): an erased statement terminates and does not panic.
func (f *ftr) erasable(s ast.Stmt) string {
	switch st := s.(type) {
	case *ast.IfStmt, *ast.AssignStmt:
	case *ast.ExprStmt:
		// rule 2: a method call ON AN UNMODELLED FIELD of a modelled struct (`u.Perms.set(name, Perms{})`): it can only
		// change state reachable from that field, which the model does not contain.  Its arguments must be
		// expressions of the subset that cannot panic (they are not evaluated).
		call, ok := st.X.(*ast.CallExpr)
		if !ok {
			return ""
		}
		sel, ok := call.Fun.(*ast.SelectorExpr)
		if !ok {
			return ""
		}
		fsel, ok := sel.X.(*ast.SelectorExpr)
		if !ok {
			return ""
		}
		rt := f.tryExprType(fsel.X)
		if rt == nil || (rt.k != kPtr && rt.k != kStruct) {
			return ""
		}
		if _, modelled := f.g.structFieldType(rt.name, fsel.Sel.Name); modelled {
			return ""
		}
		okArgs := true
		func() {
			defer func() {
				if r := recover(); r != nil {
					if _, isU := r.(unsupported); !isU {
						panic(r)
					}
					okArgs = false
				}
			}()
			for _, a := range call.Args {
				if x := f.expr(a); x.eff {
					okArgs = false
				}
			}
		}()
		if !okArgs {
			return ""
		}
		return "method call on " + rt.name + "." + fsel.Sel.Name + ", a field outside the model"
	default:
		return ""
	}
	declared := map[string]bool{}
	ast.Inspect(s, func(x ast.Node) bool {
		if as, ok := x.(*ast.AssignStmt); ok && as.Tok == token.DEFINE {
			for _, l := range as.Lhs {
				if id, ok := l.(*ast.Ident); ok {
					declared[id.Name] = true
				}
			}
		}
		return true
	})
	unmodelled := 0
	okAll := true
	var fields []string
	valueArg := func(e ast.Expr) bool {
		switch v := e.(type) {
		case *ast.BasicLit:
			return true
		case *ast.Ident:
			if declared[v.Name] {
				return true
			}
			if _, isLocal := f.lookup(v.Name); isLocal {
				return false
			}
			_, isConst := f.g.p.valueSpec(v.Name)
			return isConst && f.isPkgConst(v.Name)
		}
		return false
	}
	ast.Inspect(s, func(x ast.Node) bool {
		if !okAll {
			return false
		}
		switch v := x.(type) {
		case *ast.ReturnStmt, *ast.BranchStmt, *ast.ForStmt, *ast.RangeStmt, *ast.DeferStmt, *ast.GoStmt, *ast.FuncLit,
			*ast.IncDecStmt, *ast.SwitchStmt, *ast.SendStmt, *ast.LabeledStmt, *ast.SelectStmt, *ast.TypeSwitchStmt:
			okAll = false
		case *ast.AssignStmt:
			for _, l := range v.Lhs {
				switch t := l.(type) {
				case *ast.Ident:
					if t.Name != "_" && !declared[t.Name] {
						okAll = false
					}
				case *ast.SelectorExpr:
					id, isId := t.X.(*ast.Ident)
					if !isId {
						okAll = false
						break
					}
					vt, isLocal := f.lookup(id.Name)
					if !isLocal || (vt.k != kPtr && vt.k != kStruct) {
						okAll = false
						break
					}
					if _, modelled := f.g.structFieldType(vt.name, t.Sel.Name); modelled {
						okAll = false
						break
					}
					unmodelled++
					fields = append(fields, vt.name+"."+t.Sel.Name)
				default:
					okAll = false
				}
			}
		case *ast.CallExpr:
			name := calleeName(v.Fun)
			if name == "len" {
				return true
			}
			if _, ok := stdlibTable[name]; ok {
				return true
			}
			if sig := f.calleeSigSafe(v); sig != nil {
				if !(sig.ok && len(sig.inout) == 0 && f.g.ensure(sig.name) == "") {
					okAll = false
				}
				return true
			}
			if sel, ok := v.Fun.(*ast.SelectorExpr); ok {
				if id, ok := sel.X.(*ast.Ident); ok {
					if _, isLocal := f.lookup(id.Name); isLocal && !declared[id.Name] {
						okAll = false
					}
				} else {
					okAll = false
				}
			}
			for _, a := range v.Args {
				if !valueArg(a) {
					okAll = false
				}
			}
		}
		return true
	})
	if !okAll || unmodelled == 0 {
		return ""
	}
	return "writes only " + strings.Join(fields, ", ") + ", outside the model"
}

func (f *ftr) isPkgConst(name string) bool {
	for _, fn := range f.g.sortedFiles() {
		for _, d := range f.g.p.files[fn].Decls {
			if gd, ok := d.(*ast.GenDecl); ok && gd.Tok == token.CONST {
				for _, sp := range gd.Specs {
					for _, n := range sp.(*ast.ValueSpec).Names {
						if n.Name == name {
							return true
						}
					}
				}
			}
		}
	}
	return false
}

func (f *ftr) calleeSigSafe(v *ast.CallExpr) *trSig {
	switch fn := v.Fun.(type) {
	case *ast.Ident:
		return f.g.sigs[fn.Name]
	case *ast.SelectorExpr:
		if id, ok := fn.X.(*ast.Ident); ok {
			if ht, ok := f.sig.handles[id.Name]; ok {
				return f.g.sigs[ht+"_"+fn.Sel.Name]
			}
		}
		if rx := f.tryExprType(fn.X); rx != nil {
			recv := rx.name
			if rx.k == kMap {
				recv = "Tags"
			}
			return f.g.sigs[recv+"_"+fn.Sel.Name]
		}
	}
	return nil
}

// ---- loops ------------------------------------------------------------------------------------

// assignedIn collects the names assigned (not declared) in a statement, and the names declared.
func assignedIn(n ast.Node, assigned, declared map[string]bool, bufs func(string) bool, inouts func(*ast.CallExpr) []string) {
	ast.Inspect(n, func(x ast.Node) bool {
		switch v := x.(type) {
		case *ast.FuncLit:
			return false
		case *ast.AssignStmt:
			for _, l := range v.Lhs {
				root := l
				for {
					switch r := root.(type) {
					case *ast.IndexExpr:
						root = r.X
						continue
					case *ast.SelectorExpr:
						root = r.X
						continue
					}
					break
				}
				if id, ok := root.(*ast.Ident); ok {
					if v.Tok == token.DEFINE && root == l {
						declared[id.Name] = true
					} else {
						assigned[id.Name] = true
					}
				}
			}
		case *ast.IncDecStmt:
			if id, ok := v.X.(*ast.Ident); ok {
				assigned[id.Name] = true
			}
		case *ast.DeclStmt:
			if gd, ok := v.Decl.(*ast.GenDecl); ok {
				for _, sp := range gd.Specs {
					if vs, ok := sp.(*ast.ValueSpec); ok {
						for _, n := range vs.Names {
							declared[n.Name] = true
						}
					}
				}
			}
		case *ast.CallExpr:
			if _, ok := stdlibProcTable[calleeName(v.Fun)]; (ok || calleeName(v.Fun) == "copy") && len(v.Args) >= 1 {
				if id := lvalueRoot(v.Args[0]); id != nil {
					assigned[id.Name] = true
				}
			}
			if calleeName(v.Fun) == "delete" && len(v.Args) == 2 {
				if id, ok := v.Args[0].(*ast.Ident); ok {
					assigned[id.Name] = true
				}
			}
			if _, ok := sinkTable[exprString(v.Fun)]; ok {
				assigned["outs_"] = true
			}
			if sel, ok := v.Fun.(*ast.SelectorExpr); ok {
				if id, ok := sel.X.(*ast.Ident); ok && bufs(id.Name) {
					assigned[id.Name] = true
				}
			}
			for _, b := range inouts(v) {
				assigned[b] = true
			}
		}
		return true
	})
}

func identsIn(n ast.Node, out map[string]bool) {
	ast.Inspect(n, func(x ast.Node) bool {
		if _, ok := x.(*ast.FuncLit); ok {
			return false
		}
		if sel, ok := x.(*ast.SelectorExpr); ok {
			identsIn(sel.X, out)
			return false
		}
		if kv, ok := x.(*ast.KeyValueExpr); ok {
			identsIn(kv.Value, out)
			return false
		}
		if id, ok := x.(*ast.Ident); ok {
			out[id.Name] = true
		}
		return true
	})
}

func (f *ftr) forStmt(v *ast.ForStmt, ind int, em *emitter) {
	f.nloops++
	helper := fmt.Sprintf("%s_loop%d", f.sig.name, f.nloops)

	// the loop counter declared by the init statement (at most one `x := e`)
	var initName string
	var initVal xr
	f.push() // scope of the init variable
	defer f.pop()
	if v.Init != nil {
		as, ok := v.Init.(*ast.AssignStmt)
		if !ok || as.Tok != token.DEFINE || len(as.Lhs) != 1 || len(as.Rhs) != 1 {
			f.fail(v.Init, "for-init that is not a single `x := e`")
		}
		initName = as.Lhs[0].(*ast.Ident).Name
		initVal = f.expr(as.Rhs[0])
		initVal.t = f.defType(as, initVal.t)
		f.declareScoped(as, initName, initVal.t)
	}

	// variable analysis
	assigned, declared := map[string]bool{}, map[string]bool{}
	bufs := func(n string) bool { t, ok := f.lookup(n); return ok && t.k == kBuf }
	inouts := func(c *ast.CallExpr) []string { return f.inoutArgs(c) }
	assignedIn(v.Body, assigned, declared, bufs, inouts)
	if v.Post != nil {
		assignedIn(v.Post, assigned, declared, bufs, inouts)
	}
	used := map[string]bool{}
	identsIn(v.Body, used)
	if v.Cond != nil {
		identsIn(v.Cond, used)
	}
	if v.Post != nil {
		identsIn(v.Post, used)
	}
	var carried, outer, imm []string
	var carriedT, outerT, immT []gty
	for _, name := range f.order {
		t, ok := f.lookup(name)
		if !ok {
			continue
		}
		switch {
		case name == initName || (assigned[name] && !declared[name]):
			carried = append(carried, f.lv(name))
			carriedT = append(carriedT, t)
			if name != initName {
				outer = append(outer, f.lv(name))
				outerT = append(outerT, t)
			}
		case used[name]:
			imm = append(imm, f.lv(name))
			immT = append(immT, t)
		}
	}
	for _, name := range f.order {
		if declared[name] && assigned[name] {
			if _, ok := f.lookup(name); ok {
				f.fail(v, "loop body redeclares outer variable %s", name)
			}
		}
	}

	// fuel, evaluated at loop entry
	fuel := ""
	if be, ok := v.Cond.(*ast.BinaryExpr); ok && (be.Op == token.LSS || be.Op == token.LEQ) {
		if id, ok := be.X.(*ast.Ident); ok {
			lo := f.lv(id.Name)
			if id.Name == initName {
				lo = initVal.code
			}
			hi := f.expr(be.Y)
			if t, ok := f.lookup(id.Name); ok && t.k == kInt && !initVal.eff && (hi.t.k == kInt || hi.t.k == kUInt) {
				if be.Op == token.LEQ {
					fuel = "(fuelTo " + lo + " (" + hi.code + " + 1))"
				} else {
					fuel = "(fuelTo " + lo + " " + hi.code + ")"
				}
			}
		}
	}
	if fuel == "" {
		var lens []string
		for _, name := range f.order {
			if t, ok := f.lookup(name); ok && used[name] && (t.k == kStr || t.k == kStrs) {
				lens = append(lens, "len "+f.lv(name))
			}
		}
		if len(lens) == 0 {
			f.fail(v, "loop without a recognisable bound (no `i < n` condition, no string in scope)")
		}
		fuel = "((" + strings.Join(lens, " + ") + ").toNat + 1)"
	}

	// the helper
	saved := f.loop
	f.loop = &loopCtx{helper: helper, imm: imm, carried: carried, outer: outer, post: v.Post}
	var h emitter
	var sigParts []string
	for i, n := range imm {
		sigParts = append(sigParts, fmt.Sprintf("(%s : %s)", n, immT[i].lean()))
	}
	resT := fmt.Sprintf("Except Fault (LoopR %s %s)", parenT(leanTuple(outerT)), parenT(f.sig.resultType()))
	arrow := "Nat → "
	for _, t := range carriedT {
		arrow += parenArrow(t.lean()) + " → "
	}
	h.add(0, fmt.Sprintf("/-- the `for` statement at %s -/", f.g.pos(v)))
	h.add(0, fmt.Sprintf("def %s %s: %s%s", helper, joinSp(sigParts), arrow, resT))
	h.add(1, "| 0"+strings.Repeat(", _", len(carried))+" => .error .diverge")
	h.add(1, "| fuel + 1"+prefixEach(", ", carried)+" => do")
	for _, c := range carried {
		h.add(2, fmt.Sprintf("let mut %s := %s", c, c))
	}
	if v.Cond != nil {
		h.add(2, "if !"+f.cond(v.Cond)+" then")
		h.add(3, "return .done "+tupleVal(outer))
	}
	f.push()
	term := f.block(v.Body.List, 2, &h)
	f.pop()
	if !term {
		if v.Post != nil {
			f.stmt(v.Post, 2, &h)
		}
		h.add(2, f.loopCall("fuel"))
	}
	f.loop = saved
	f.helpers = append(f.helpers, strings.Join(h.lines, "\n"))

	// the call site
	call := helper + prefixEach(" ", imm) + " " + fuel
	for _, c := range carried {
		if initName != "" && c == f.lv(initName) {
			call += " " + parenArg(initVal.code)
		} else {
			call += " " + c
		}
	}
	f.loopCallSite(call, outer, ind, em)
}

// rangeStmt translates `for k := range m` / `for k, v := range m` over a map (a local, a parameter or a struct
// field) that the body does not assign.  Go leaves the iteration order unspecified; the translation visits
// `mapKeys m`, the keys in the order of the association list that REPRESENTS the map, so "for every order Go
// may pick" is "for every representation of the same map" (every permutation of the list) in the theorems.
func (f *ftr) rangeStmt(v *ast.RangeStmt, ind int, em *emitter) {
	f.nloops++
	helper := fmt.Sprintf("%s_loop%d", f.sig.name, f.nloops)
	if v.Tok != token.DEFINE || v.Key == nil {
		f.fail(v, "range without `:=` variables")
	}
	pkgOrder, pkgName := "", ""
	var pkgInfo *pkgMapInfo
	var m xr
	if id, ok := v.X.(*ast.Ident); ok {
		if _, isLocal := f.lookup(id.Name); !isLocal {
			for _, o := range f.sig.orders {
				if o == id.Name {
					pkgOrder = leanVar(id.Name) + "_order_"
				}
			}
			if pkgOrder == "" {
				f.fail(v, "range over %s, which is neither a local map nor a package-level map[string]string/int literal", id.Name)
			}
			pkgInfo = f.g.pkgMap(id.Name)
			pkgName = leanVar(id.Name)
		}
	}
	sliceMode := false
	if pkgOrder == "" {
		m = f.expr(v.X)
		if m.t.k == kStrs {
			// `for _, x := range <[]string expression>`: the expression is evaluated once, the elements are visited in order
			sliceMode = true
		} else if m.t.k != kMap {
			f.fail(v, "range over %s (only maps and []string)", m.t.lean())
		}
	}
	keyId, ok := v.Key.(*ast.Ident)
	if !ok {
		f.fail(v, "range key")
	}
	keyName, keyLean := keyId.Name, ""
	if keyName == "_" {
		keyName, keyLean = "", "k_"
	}
	if sliceMode && (keyName != "" || v.Value == nil) {
		f.fail(v, "range over a slice with an index variable (only `for _, x := range s`)")
	}
	valName := ""
	if v.Value != nil {
		vid, ok := v.Value.(*ast.Ident)
		if !ok {
			f.fail(v, "range value")
		}
		if vid.Name != "_" {
			valName = vid.Name
		}
	}
	f.push()
	defer f.pop()
	if keyName != "" {
		f.declareScoped(v, keyName, gty{k: kStr})
	}
	valT := gty{k: kStr}
	if pkgInfo != nil && pkgInfo.valKind == kInt {
		valT = gty{k: kInt}
	}
	if valName != "" {
		f.declareScoped(v, valName, valT)
	}

	assigned, declared := map[string]bool{}, map[string]bool{}
	bufs := func(n string) bool { t, ok := f.lookup(n); return ok && t.k == kBuf }
	inouts := func(c *ast.CallExpr) []string { return f.inoutArgs(c) }
	assignedIn(v.Body, assigned, declared, bufs, inouts)
	used := map[string]bool{}
	identsIn(v.Body, used)
	mvars := map[string]bool{}
	identsIn(v.X, mvars)
	for name := range mvars {
		if assigned[name] {
			f.fail(v, "the ranged-over map %s is assigned in the loop body", name)
		}
	}
	valMut := false
	if sliceMode && valName != "" && assigned[valName] {
		// the element variable of a slice range is an ordinary per-iteration variable: it may be assigned in the body
		valMut = true
	} else if (keyName != "" && assigned[keyName]) || (valName != "" && assigned[valName]) {
		f.fail(v, "range variable assigned in the loop body")
	}
	var carried, outer, imm []string
	var carriedT, outerT, immT []gty
	for _, name := range f.order {
		t, ok := f.lookup(name)
		if !ok || (keyName != "" && name == keyName) || name == valName {
			continue
		}
		switch {
		case assigned[name] && !declared[name]:
			carried = append(carried, f.lv(name))
			carriedT = append(carriedT, t)
			outer = append(outer, f.lv(name))
			outerT = append(outerT, t)
		case used[name] || (valName != "" && mvars[name]):
			imm = append(imm, f.lv(name))
			immT = append(immT, t)
		}
	}
	for _, name := range f.order {
		if declared[name] && assigned[name] {
			if _, ok := f.lookup(name); ok {
				f.fail(v, "loop body redeclares outer variable %s", name)
			}
		}
	}

	saved := f.loop
	f.loop = &loopCtx{helper: helper, imm: imm, carried: carried, outer: outer, extra: "keys_"}
	var h emitter
	var sigParts []string
	for i, n := range imm {
		sigParts = append(sigParts, fmt.Sprintf("(%s : %s)", n, immT[i].lean()))
	}
	resT := fmt.Sprintf("Except Fault (LoopR %s %s)", parenT(leanTuple(outerT)), parenT(f.sig.resultType()))
	arrow := "Nat → List Bytes → "
	for _, t := range carriedT {
		arrow += parenArrow(t.lean()) + " → "
	}
	h.add(0, fmt.Sprintf("/-- the `for … range` statement at %s -/", f.g.pos(v)))
	h.add(0, fmt.Sprintf("def %s %s: %s%s", helper, joinSp(sigParts), arrow, resT))
	h.add(1, "| 0, _"+strings.Repeat(", _", len(carried))+" => .error .diverge")
	h.add(1, "| fuel + 1, keys_"+prefixEach(", ", carried)+" => do")
	for _, c := range carried {
		h.add(2, fmt.Sprintf("let mut %s := %s", c, c))
	}
	h.add(2, "match keys_ with")
	h.add(2, "| [] => return .done "+tupleVal(outer))
	if keyName != "" {
		keyLean = f.lv(keyName)
	}
	if sliceMode && valName != "" {
		keyLean = f.lv(valName)
	}
	if valMut {
		h.add(2, "| "+keyLean+"_it_ :: keys_ =>")
		h.add(3, "let mut "+keyLean+" : Bytes := "+keyLean+"_it_")
	} else {
		h.add(2, "| "+keyLean+" :: keys_ =>")
	}
	if valName != "" && !sliceMode {
		switch {
		case pkgInfo == nil:
			h.add(3, fmt.Sprintf("let %s : Bytes := (mapGet %s %s)", f.lv(valName), m.code, keyLean))
		case pkgInfo.valKind == kInt:
			h.add(3, fmt.Sprintf("let %s : Int := (pmGetI %s %s)", f.lv(valName), pkgName, keyLean))
		default:
			h.add(3, fmt.Sprintf("let %s : Bytes := (pmGetS %s %s)", f.lv(valName), pkgName, keyLean))
		}
	}
	f.push()
	term := f.block(v.Body.List, 3, &h)
	f.pop()
	if !term {
		h.add(3, f.loopCall("fuel"))
	}
	f.loop = saved
	f.helpers = append(f.helpers, strings.Join(h.lines, "\n"))

	f.ntmp++
	ks := fmt.Sprintf("ks%d_", f.ntmp)
	if pkgOrder != "" {
		em.add(ind, fmt.Sprintf("let %s : List Bytes := %s", ks, pkgOrder))
	} else if sliceMode {
		em.add(ind, fmt.Sprintf("let %s : List Bytes := %s", ks, m.code))
	} else {
		em.add(ind, fmt.Sprintf("let %s : List Bytes := (mapKeys %s)", ks, m.code))
	}
	call := helper + prefixEach(" ", imm) + " (" + ks + ".length + 1) " + ks + prefixEach(" ", carried)
	f.loopCallSite(call, outer, ind, em)
}

// loopCallSite emits the `match ← helper … with` that follows every loop.
func (f *ftr) loopCallSite(call string, outer []string, ind int, em *emitter) {
	em.add(ind, "match ← "+call+" with")
	if f.loop != nil {
		em.add(ind, "| .ret ret_ => return .ret ret_")
	} else {
		em.add(ind, "| .ret ret_ => return ret_")
	}
	switch len(outer) {
	case 0:
		em.add(ind, "| .done _ => pure ()")
	case 1:
		em.add(ind, "| .done st_ => "+outer[0]+" := st_")
	default:
		var pats []string
		for i := range outer {
			pats = append(pats, fmt.Sprintf("st%d_", i+1))
		}
		em.add(ind, "| .done ("+strings.Join(pats, ", ")+") =>")
		for i, o := range outer {
			em.add(ind+1, o+" := "+pats[i])
		}
	}
}

func (f *ftr) inoutArgs(c *ast.CallExpr) []string {
	var sig *trSig
	args := c.Args
	switch fn := c.Fun.(type) {
	case *ast.Ident:
		sig = f.g.sigs[fn.Name]
	case *ast.SelectorExpr:
		if rx := f.tryExprType(fn.X); rx != nil {
			recv := rx.name
			if rx.k == kMap {
				recv = "Tags"
			}
			sig = f.g.sigs[recv+"_"+fn.Sel.Name]
			args = append([]ast.Expr{fn.X}, c.Args...)
		}
	}
	if sel, ok := c.Fun.(*ast.SelectorExpr); ok {
		if id, ok := sel.X.(*ast.Ident); ok {
			if ht, ok := f.sig.handles[id.Name]; ok {
				sig = f.g.sigs[ht+"_"+sel.Sel.Name]
				args = c.Args
			}
		}
	}
	if sig == nil || !sig.ok {
		return nil
	}
	var out []string
	if sig.sinks {
		out = append(out, "outs_")
	}
	for i, p := range sig.params {
		if i >= len(args) {
			break
		}
		if p.t.k == kBuf {
			if id, ok := args[i].(*ast.Ident); ok {
				out = append(out, id.Name)
			}
		}
		if sig.isPtrout(p.name) {
			a := args[i]
			if ue, ok := a.(*ast.UnaryExpr); ok && ue.Op == token.AND {
				a = ue.X
			}
			if id := lvalueRoot(a); id != nil {
				out = append(out, id.Name)
			}
		}
	}
	return out
}

func parenT(s string) string {
	if strings.Contains(s, " ") {
		return "(" + s + ")"
	}
	return s
}

func parenArrow(s string) string {
	if strings.Contains(s, "→") || strings.Contains(s, "×") {
		return "(" + s + ")"
	}
	return s
}

func parenArg(s string) string {
	if strings.ContainsAny(s, " ") && !(strings.HasPrefix(s, "(") && strings.HasSuffix(s, ")") && balanced(s[1:len(s)-1])) {
		return "(" + s + ")"
	}
	return s
}

func joinSp(parts []string) string {
	if len(parts) == 0 {
		return ""
	}
	return strings.Join(parts, " ") + " "
}

func prefixEach(p string, xs []string) string {
	s := ""
	for _, x := range xs {
		s += p + x
	}
	return s
}

// ---- one function -----------------------------------------------------------------------------

func (g *trGen) translateFunc(sig *trSig) (text string, deps []string, why string) {
	f := &ftr{g: g, sig: sig, deps: map[string]bool{}, alias: map[string]string{}, ndecl: map[string]int{},
		capAlias: map[string]string{}, capDirty: map[string]bool{}}
	defer func() {
		if r := recover(); r != nil {
			u, ok := r.(unsupported)
			if !ok {
				panic(r)
			}
			text, deps, why = "", nil, u.msg
		}
	}()
	fd := sig.fd
	f.push()
	sig.envs = nil
	sig.models = nil
	var sigParts []string
	for _, p := range sig.params {
		f.scopes[0][goName(p.name)] = p.t
		f.order = append(f.order, goName(p.name))
		sigParts = append(sigParts, fmt.Sprintf("(%s : %s)", p.name, p.t.lean()))
	}
	var em emitter
	// parameters that are assigned in the body become `let mut`
	assigned, declared := map[string]bool{}, map[string]bool{}
	bufs := func(n string) bool { t, ok := f.lookup(n); return ok && t.k == kBuf }
	assignedIn(sig.body, assigned, declared, bufs, func(c *ast.CallExpr) []string { return f.inoutArgs(c) })
	for _, p := range sig.params {
		if assigned[goName(p.name)] {
			if p.t.k == kPtr && !sig.isPtrout(p.name) {
				f.fail(fd, "pointer parameter %s is assigned (caller-visible mutation is outside the subset)", p.name)
			}
			if p.t.k == kPtr {
				// only writes THROUGH the pointer are modelled; re-binding the parameter itself is not
				ast.Inspect(sig.body, func(x ast.Node) bool {
					if as, ok := x.(*ast.AssignStmt); ok {
						for _, l := range as.Lhs {
							if id, ok := l.(*ast.Ident); ok && leanVar(id.Name) == p.name {
								f.fail(as, "pointer parameter %s is re-bound", p.name)
							}
						}
					}
					return true
				})
			}
			em.add(1, fmt.Sprintf("let mut %s := %s", p.name, p.name))
			if sig.rebound[p.name] {
				// the caller's view of the map, and whether the variable still refers to the caller's map
				em.add(1, fmt.Sprintf("let mut %s_out_ := %s", p.name, p.name))
				em.add(1, fmt.Sprintf("let mut %s_linked_ : Bool := true", p.name))
			}
		}
	}
	for _, p := range sig.ptrout {
		if !assigned[goName(p)] {
			em.add(1, fmt.Sprintf("let mut %s := %s", p, p))
		}
	}
	if sig.sinks {
		if _, clash := f.lookup("outs_"); clash {
			f.fail(fd, "the Go code uses the reserved name outs_")
		}
		f.scopes[0]["outs_"] = gty{k: kOuts}
		f.order = append(f.order, "outs_")
		em.add(1, "let mut outs_ : List Out := []")
	}
	// named results start at their zero value
	if fd.Type.Results != nil {
		i := 0
		for _, fl := range fd.Type.Results.List {
			for _, n := range fl.Names {
				f.declare(n, n.Name, sig.rets[i])
				f.named = append(f.named, n.Name)
				em.add(1, fmt.Sprintf("let mut %s : %s := %s", f.lv(n.Name), sig.rets[i].lean(), f.zero(n, sig.rets[i])))
				i++
			}
		}
	}
	term := f.block(sig.body.List, 1, &em)
	if !term {
		if len(sig.rets) > 0 {
			f.fail(fd, "function can fall off its end")
		}
		em.add(1, f.retCode(nil))
	}
	var b strings.Builder
	for _, h := range f.helpers {
		b.WriteString(h + "\n\n")
	}
	if sig.suffix != nil {
		fmt.Fprintf(&b, "/-- the tail of %s from its first top-level `%s` statement (%s) -/\n", goSigName(fd), sig.suffix.from, g.pos(sig.body.List[0]))
	} else {
		fmt.Fprintf(&b, "/-- %s  (%s) -/\n", goSigName(fd), g.pos(fd))
	}
	sigParts = append(sig.leadParams(), sigParts...)
	fmt.Fprintf(&b, "def %s %s: Except Fault %s := do\n", sig.name, joinSp(sigParts), parenT(sig.resultType()))
	b.WriteString(strings.Join(em.lines, "\n") + "\n")
	for d := range f.deps {
		deps = append(deps, d)
	}
	sort.Strings(deps)
	return b.String(), deps, ""
}

func goName(lean string) string {
	if strings.HasSuffix(lean, "_") && leanReserved[strings.TrimSuffix(lean, "_")] {
		return strings.TrimSuffix(lean, "_")
	}
	return lean
}

func goSigName(fd *ast.FuncDecl) string {
	if fd.Recv != nil && len(fd.Recv.List) > 0 {
		t := fd.Recv.List[0].Type
		star := ""
		if st, ok := t.(*ast.StarExpr); ok {
			t = st.X
			star = "*"
		}
		if id, ok := t.(*ast.Ident); ok {
			return "func (" + star + id.Name + ") " + fd.Name.Name
		}
	}
	return "func " + fd.Name.Name
}

func (g *trGen) stub(sig *trSig, why string) string {
	var b strings.Builder
	fmt.Fprintf(&b, "/-- UNSUPPORTED by tools/extract/translate.go: %s -/\n", why)
	var sigParts []string
	res := "Unit"
	if sig.ok {
		sigParts = sig.leadParams()
		for _, p := range sig.params {
			sigParts = append(sigParts, fmt.Sprintf("(%s : %s)", p.name, p.t.lean()))
		}
		res = parenT(sig.resultType())
	}
	fmt.Fprintf(&b, "def %s %s: Except Fault %s :=\n  .error (.unsupported %s)\n", sig.name, joinSp(sigParts), res, strconv.Quote(why))
	return b.String()
}

// ensure translates a target on demand (callees before callers); it returns "" or the reason why the
// target is unsupported.  A call cycle is outside the subset.
func (g *trGen) ensure(n string) string {
	if _, done := g.defs[n]; done {
		return g.status[n]
	}
	if g.busy[n] {
		return "recursive call cycle through " + n
	}
	g.busy[n] = true
	defer delete(g.busy, n)
	s := g.sigs[n]
	if !s.ok {
		g.defs[n], g.status[n] = g.stub(s, s.why), s.why
		return s.why
	}
	text, deps, why := g.translateFunc(s)
	if why != "" {
		g.defs[n], g.status[n] = g.stub(s, why), why
		return why
	}
	g.defs[n], g.deps[n] = text, deps
	return ""
}

// translateAll writes Funcs.lean next to Facts.lean.
func translateAll(p *pkgFiles, repo, outPath string) {
	g := &trGen{p: p, repo: repo, consts: map[string]string{}, sigs: map[string]*trSig{}, defs: map[string]string{},
		deps: map[string][]string{}, status: map[string]string{}, busy: map[string]bool{}, imports: map[string]bool{}}
	var names []string
	for _, t := range trTargets {
		s := g.signature(t[0], t[1], nil)
		g.sigs[s.name] = s
		names = append(names, s.name)
	}
	for i := range trSuffixTargets {
		t := &trSuffixTargets[i]
		s := g.signature(t.fn, t.recv, t)
		g.sigs[s.name] = s
		names = append(names, s.name)
	}
	g.propagate(names)
	for _, n := range names {
		g.ensure(n)
	}
	// callees first, otherwise target order
	var order []string
	done := map[string]bool{}
	var visit func(n string, depth int)
	visit = func(n string, depth int) {
		if done[n] || depth > len(names) {
			return
		}
		done[n] = true
		for _, d := range g.deps[n] {
			visit(d, depth+1)
		}
		order = append(order, n)
	}
	for _, n := range names {
		visit(n, 0)
	}

	var b strings.Builder
	b.WriteString("import Girc.Base.GoSem\n")
	var imps []string
	for m := range g.imports {
		imps = append(imps, m)
	}
	sort.Strings(imps)
	for _, m := range imps {
		b.WriteString("import " + m + "\n")
	}
	b.WriteString("/- GENERATED by tools/extract (translate.go) from the Go sources — do not edit.\n")
	b.WriteString("   Each definition is the syntax-directed translation of one Go function into the `Except Fault` monad\n")
	b.WriteString("   over the run-time of Girc/Base/GoSem.lean.  Equivalence with the hand-written models is proved in\n")
	b.WriteString("   Girc/Proofs/Trans*.lean and restated in Girc/Props/Tie*.lean. -/\n")
	b.WriteString("set_option linter.unusedVariables false\n")
	b.WriteString("namespace Girc.Gen.Fn\nopen Girc Girc.Model Girc.Go\n\n")
	var cn []string
	for n := range g.consts {
		cn = append(cn, n)
	}
	sort.Strings(cn)
	if len(cn) > 0 {
		b.WriteString("/-! ## package constants referenced by the translated functions -/\n")
		for _, n := range cn {
			b.WriteString(g.consts[n] + "\n")
		}
		b.WriteString("\n")
	}
	b.WriteString("/-! ## functions -/\n\n")
	for _, n := range order {
		b.WriteString(g.defs[n] + "\n")
	}
	b.WriteString("end Girc.Gen.Fn\n")
	writeIfChanged(outPath, b.String())
	for _, n := range names {
		if g.status[n] != "" {
			fmt.Fprintf(os.Stderr, "extract: translate: %s UNSUPPORTED: %s\n", n, g.status[n])
		}
	}
}
