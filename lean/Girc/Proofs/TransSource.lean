import Girc.Proofs.TransBase
import Girc.Model.Event
/-
  Translator equivalence, event.go: ParseSource, (*Source).Len, (*Source).writeTo.
-/
set_option linter.unusedSimpArgs false
namespace Girc.Proofs.Trans
open Girc Girc.Model Girc.Go Girc.Gen

/-- `sliceI` with integer bounds that are (provably) casts of naturals. -/
theorem sliceI_int (s : Bytes) (lo hi : Int) (a b : Nat) (ha : lo = a) (hb : hi = b) (h1 : a ≤ b) (h2 : b ≤ s.length) :
    sliceI s lo hi = .ok ((s.drop a).take (b - a)) := by
  subst ha hb
  exact ParseTotal.sliceI_nat s a b h1 h2

theorem sliceI_int_end (s : Bytes) (lo : Int) (a : Nat) (ha : lo = a) (h1 : a ≤ s.length) :
    sliceI s lo (len s) = .ok (s.drop a) := by
  subst ha
  exact sliceI_from s a h1

/-! ### (*Source).Len -/

theorem Source_Len_eq (s : Source) : Fn.Source_Len (some s) = .ok (sourceLen s : Int) := by
  unfold Fn.Source_Len sourceLen
  simp only [deref_some, bind, Except.bind, pure, Except.pure]
  have e1 : decide (len s.ident > 0) = decide (s.ident.length > 0) := by decc_tac
  have e2 : decide (len s.host > 0) = decide (s.host.length > 0) := by decc_tac
  rw [e1, e2]
  by_cases hi : s.ident.length > 0 <;> by_cases hh : s.host.length > 0 <;> simp [hi, hh, len] <;> omega

theorem Source_Len_nil : Fn.Source_Len none = .error .nilDeref := by
  unfold Fn.Source_Len; rfl

/-! ### (*Source).writeTo -/

theorem Source_writeTo_eq (s : Source) (buf : Bytes) : Fn.Source_writeTo (some s) buf = .ok (buf ++ sourceBytes s) := by
  unfold Fn.Source_writeTo sourceBytes
  simp only [deref_some, bind, Except.bind, pure, Except.pure]
  have e1 : decide (len s.ident > 0) = decide (s.ident.length > 0) := by decc_tac
  have e2 : decide (len s.host > 0) = decide (s.host.length > 0) := by decc_tac
  have hb : Fn.prefixIdent = BANG := rfl
  have ha : Fn.prefixHost = AT := rfl
  rw [e1, e2, hb, ha]
  by_cases hi : s.ident.length > 0 <;> by_cases hh : s.host.length > 0 <;> simp [hi, hh]

theorem Source_writeTo_nil (buf : Bytes) : Fn.Source_writeTo none buf = .error .nilDeref := by
  unfold Fn.Source_writeTo; rfl

/-! ### ParseSource -/

/-- Finish one branch: rewrite with the given facts only (so that casts stay in the form the slice
    facts were stated in), then clean up. -/
syntax "ps_tac" "[" Lean.Parser.Tactic.simpLemma,* "]" : tactic
macro_rules
  | `(tactic| ps_tac [$ls,*]) =>
    `(tactic| (simp only [$ls,*, deref_some, bind, Except.bind, pure, Except.pure, Bool.and_true, Bool.true_and,
        Bool.false_and, Bool.and_false, if_true, if_false, Bool.false_eq_true]; try simp [List.drop_take]))

theorem ParseSource_eq (raw : Bytes) : Fn.ParseSource raw = .ok (some (parseSource raw)) := by
  unfold Fn.ParseSource parseSource
  have hb : Fn.prefixIdent = BANG := rfl
  have ha : Fn.prefixHost = AT := rfl
  simp only [hb, ha, indexByteI]
  cases hu : indexOf BANG raw with
  | none =>
    have c1 : decide ((-1 : Int) > 0) = false := by decide
    cases hh : indexOf AT raw with
    | none => ps_tac [c1]
    | some h =>
      have hhl := ParseTotal.indexOf_lt hh
      cases h with
      | zero =>
        have c2 : decide (((0 : Nat) : Int) > 0) = false := by decide
        ps_tac [c1, c2]
      | succ h =>
        have c2 : decide (((h + 1 : Nat) : Int) > 0) = true := by dec_tac
        have s1 := sliceI_int raw 0 ((h + 1 : Nat) : Int) 0 (h + 1) rfl rfl (by omega) (by omega)
        have s2 := sliceI_int_end raw (((h + 1 : Nat) : Int) + 1) (h + 2) (by omega) (by omega)
        ps_tac [c1, c2, s1, s2]
  | some u =>
    have hul := ParseTotal.indexOf_lt hu
    cases u with
    | zero =>
      have c1 : decide (((0 : Nat) : Int) > 0) = false := by decide
      cases hh : indexOf AT raw with
      | none =>
        have c2 : decide ((-1 : Int) > 0) = false := by decide
        ps_tac [c1, c2]
      | some h =>
        have hhl := ParseTotal.indexOf_lt hh
        cases h with
        | zero => ps_tac [c1]
        | succ h =>
          have c2 : decide (((h + 1 : Nat) : Int) > 0) = true := by dec_tac
          have s1 := sliceI_int raw 0 ((h + 1 : Nat) : Int) 0 (h + 1) rfl rfl (by omega) (by omega)
          have s2 := sliceI_int_end raw (((h + 1 : Nat) : Int) + 1) (h + 2) (by omega) (by omega)
          ps_tac [c1, c2, s1, s2]
    | succ u =>
      have c1 : decide (((u + 1 : Nat) : Int) > 0) = true := by dec_tac
      have s1 := sliceI_int raw 0 ((u + 1 : Nat) : Int) 0 (u + 1) rfl rfl (by omega) (by omega)
      have s2 := sliceI_int_end raw (((u + 1 : Nat) : Int) + 1) (u + 2) (by omega) (by omega)
      cases hh : indexOf AT raw with
      | none =>
        have c2 : decide ((-1 : Int) > ((u + 1 : Nat) : Int)) = false := by dec_tac
        ps_tac [c1, c2, s1, s2]
      | some h =>
        have hhl := ParseTotal.indexOf_lt hh
        by_cases hgt : h > u + 1
        · have c2 : decide (((h : Nat) : Int) > ((u + 1 : Nat) : Int)) = true := by dec_tac
          have s3 := sliceI_int raw (((u + 1 : Nat) : Int) + 1) ((h : Nat) : Int) (u + 2) h (by omega) rfl (by omega) (by omega)
          have s4 := sliceI_int_end raw (((h : Nat) : Int) + 1) (h + 1) (by omega) (by omega)
          ps_tac [c1, c2, s1, s3, s4, hgt]
        · have c2 : decide (((h : Nat) : Int) > ((u + 1 : Nat) : Int)) = false := by dec_tac
          ps_tac [c1, c2, s1, s2, hgt]

end Girc.Proofs.Trans
