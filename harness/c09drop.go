package main

import (
	"bytes"
	"encoding/base64"
	"strings"
	"sync"

	"github.com/lrstanley/girc"
)

// C09, secrets on the DROPPED path: an event the client could not send (not connected, or the send queue
// timed out) is logged as "dropping event …"; a sensitive one must be redacted there as well.
type syncBuf struct {
	mu sync.Mutex
	b  bytes.Buffer
}

func (s *syncBuf) Write(p []byte) (int, error) { s.mu.Lock(); defer s.mu.Unlock(); return s.b.Write(p) }
func (s *syncBuf) String() string              { s.mu.Lock(); defer s.mu.Unlock(); return s.b.String() }

func init() {
	runners["sensitivedropped"] = func(c *Ctx, in map[string]string) {
		hin := hexIn(in)
		var dbg, out syncBuf
		cl := girc.New(girc.Config{Server: "irc.example.org", Port: 6667, Nick: "me", User: "me", Name: "me",
			ServerPass: in["pass"], SASL: &girc.SASLPlain{User: "acct", Pass: in["pass"]}, Debug: &dbg, Out: &out})
		// never connected: everything below is dropped
		cl.Cmd.Oper("admin", in["pass"])
		_ = cl.Cmd.SendRaw("PRIVMSG NickServ :hello") // a non-sensitive one, for contrast
		// the SASL handler answering a late "AUTHENTICATE +" after the connection has gone
		cl.RunHandlers(&girc.Event{Command: girc.AUTHENTICATE, Params: []string{"+"}})
		log := dbg.String() + "\n" + out.String()
		if !strings.Contains(log, "dropping event") {
			c.R.Mismatch("sensitivedropped.nothing_dropped", hin, "no 'dropping event' line was logged", "")
		}
		plain := "acct\x00acct\x00" + in["pass"]
		for _, sec := range []string{in["pass"], base64.StdEncoding.EncodeToString([]byte(in["pass"])), base64.StdEncoding.EncodeToString([]byte(plain))} {
			if sec != "" && strings.Contains(log, sec) {
				c.R.Violation("c09.secret_in_debug_dropped", hin, q(sec), "", "a secret (or its base64) appears in the log of a DROPPED sensitive event")
			}
		}
		c.R.Count("dropped/"+in["pass"], true, "sensitive-dropped")
	}
}
