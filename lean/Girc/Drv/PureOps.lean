import Girc.Model.SendPath
import Girc.Drv.EventOps
import Girc.Model.Ctcp
import Girc.Model.Sasl
import Girc.Model.Rate
import Girc.Model.CmdHandler
import Girc.Model.Format
import Girc.Base.Utf8
namespace Girc.Drv
open Girc Girc.Model

def showCtcp : Option CTCPEvent → String
  | none => "nil"
  | some c => s!"cmd={hx c.command} text={hx c.text} reply={bl c.reply} src={showSource c.source}"

def intArg (s : String) : Option Int := s.toInt?

def showAction : CmdAction → String
  | .none => "none"
  | .invoke id args raw => s!"invoke {id} {listHx args} {hx raw}"
  | .usage n => s!"usage {hx n}"
  | .help k => s!"help {k}"

/-- command table argument: flat list [name, aliases-joined-by-0x00, minArgs(decimal ascii), hasHelp(0/1)] per command,
    registered in order with `cmdAdd`; returns the table and the Add results. -/
def buildTable : List Bytes → Nat → CmdTable → List String → Option (CmdTable × List String)
  | [], _, tbl, rs => some (tbl, rs.reverse)
  | n :: al :: ma :: hh :: rest, id, tbl, rs => do
    let minArgs ← (String.fromUTF8? (ByteArray.mk ma.toArray)).bind String.toInt?
    let aliases := if al.isEmpty then [] else splitOnByte 0x00 al
    let (tbl', r) := cmdAdd tbl ⟨n, aliases, minArgs, hh = [0x31], id⟩
    let rs' := (match r with | .ok => "ok" | .invalidName => "invalid" | .duplicateName => "dupname" | .duplicateAlias => "dupalias") :: rs
    buildTable rest (id + 1) tbl' rs'
  | _, _, _, _ => none

def handlePure (op : String) (args : List String) : Option String :=
  match op, args with
  | "ctcpdec", [t, s, c, p] => do let e ← argEvent t s c p; pure (showCtcp (decodeCTCP e))
  | "ctcpenc", [c, t] => do let c ← arg c; let t ← arg t; pure (hx (encodeCTCPRaw c t))
  | "fmt", [a] => do let s ← arg a; pure (hx (fmt s))
  | "stripraw", [a] => do let s ← arg a; pure (hx (stripRaw s))
  | "trimfmt", [a] => do let s ← arg a; pure (hx (trimFmt tokenNames s) ++ " " ++ hx (trimFmt tokenNames.reverse s))
  | "b64", [a] => do let s ← arg a; pure (hx (b64Encode s))
  | "b64dec", [a] => do let s ← arg a; pure (optHx (b64Decode s))
  | "plain", [u, p, ps] => do let u ← arg u; let p ← arg p; let ps ← argList ps; pure (hx (saslPlainEncode u p ps))
  | "external", [i, ps] => do let i ← arg i; let ps ← argList ps; pure (hx (saslExternalEncode i ps))
  | "chunks", [a] => do let s ← arg a; pure (listHx (saslChunks s))
  | "rate", [wd, since, chars] => do
      let wd ← intArg wd; let since ← intArg since; let n ← chars.toNat?
      let (w, d) := rate wd since n
      pure s!"{w} {d}"
  -- `rateseq wd since n1,n2,…`: the sizes are passed to `rate` back to back (same instant, no socket write in between)
  -- on a connection whose last write was `since` ago; prints the final writeDelay and every returned delay
  | "rateseq", [wd, since, sizes] => do
      let wd ← intArg wd; let since ← intArg since
      let ns ← (sizes.splitOn ",").mapM (·.toNat?)
      let s0 : SendSt Unit := { writeDelay := wd, lastWrite := 0, lastDue := 0 }
      let r := runSend false s0 (ns.map fun n => SendOp.send since () n)
      pure s!"{r.1.writeDelay} {" ".intercalate (r.2.map toString)}"
  | "cmdmatch", [p, t] => do
      let p ← arg p; let t ← arg t
      pure (match matchCmd p t with
        | none => "nomatch"
        | some (n, r) => s!"{hx n} {hx r}")
  | "cmdexec", [pfx, tbl, t, s, c, p] => do
      let pfx ← arg pfx
      let (table, rs) ← buildTable (← argList tbl) 0 [] []
      let e ← argEvent t s c p
      pure (" ".intercalate rs ++ " | " ++ showAction (cmdExecute pfx table e))
  | "validutf8", [a] => do let s ← arg a; pure (bl (validUTF8 s))
  | "tovalidutf8", [r, a] => do let r ← arg r; let s ← arg a; pure (hx (toValidUTF8 r s))
  | "runecount", [a] => do let s ← arg a; pure (toString (runeCount s))
  | "atoi", [a] => do let s ← arg a; pure (match atoi s with | none => "err" | some n => toString n)
  | "fieldssp", [a] => do let s ← arg a; pure (listHx (fieldsSp s))
  | _, _ => none

end Girc.Drv
