import Girc.Proofs.TransSts
/-
  Tie (TieSts): the function bodies regenerated from the Go source on every run (Girc/Gen/Funcs.lean, written by
  tools/extract/translate.go) equal the predicates of the timed STS model the theorems of C10 are about, for ALL inputs.
  Only restatements of theorems proved in Girc/Proofs/TransSts.lean, each with a non-vacuity example that evaluates the
  generated function on a literal. An edit of the Go function changes Funcs.lean and the equivalence stops building.
  `time.Now()` is the parameter `now` (integer nanoseconds).
-/
namespace Girc.Props.TieSts
open Girc Girc.Model Girc.Gen

/-! ### state.go -/

theorem tie_strictTransport_expired : ∀ (now : Int) (s : StrictTransport) (lf : Option Int),
    Fn.strictTransport_expired now (some s) = .ok (expiredAt now (tstsOf s lf)) := Proofs.Trans.strictTransport_expired_eq
theorem tie_strictTransport_expired_nil : ∀ now : Int, Fn.strictTransport_expired now none = .error .nilDeref :=
  Proofs.Trans.strictTransport_expired_nil
-- a 60-second policy received at t = 0: not expired 60.9 s later, expired after 61 s
example : Fn.strictTransport_expired 60900000000 (some { persistenceDuration := 60 }) = .ok false := by rfl
example : Fn.strictTransport_expired 61000000000 (some { persistenceDuration := 60 }) = .ok true := by rfl

theorem tie_strictTransport_enabled : ∀ s : StrictTransport,
    Fn.strictTransport_enabled (some s) = .ok (stsOf s).enabled := Proofs.Trans.strictTransport_enabled_eq
theorem tie_strictTransport_enabled_nil : Fn.strictTransport_enabled none = .error .nilDeref :=
  Proofs.Trans.strictTransport_enabled_nil
example : Fn.strictTransport_enabled (some { upgradePort := 6697 }) = .ok true := by rfl
example : Fn.strictTransport_enabled (some { upgradePort := -1 }) = .ok false := by rfl

theorem tie_strictTransport_reset : ∀ s : StrictTransport,
    ∃ s', Fn.strictTransport_reset (some s) = .ok (some s') ∧ stsOf s' = (stsOf s).reset ∧
      s'.persistenceReceived = s.persistenceReceived ∧ s'.lastFailed = s.lastFailed :=
  Proofs.Trans.strictTransport_reset_eq
theorem tie_strictTransport_reset_nil : Fn.strictTransport_reset none = .error .nilDeref :=
  Proofs.Trans.strictTransport_reset_nil
example : Fn.strictTransport_reset (some { upgradePort := 6697, persistenceDuration := 60, preload := true, persistenceReceived := 5 }) =
    .ok (some { upgradePort := -1, persistenceDuration := -1, preload := false, persistenceReceived := 5 }) := by rfl

/-- The policy drop of `newConn` on a failed dial, in terms of the generated predicate. -/
theorem tie_dialFail_generated : ∀ (now : Int) (s : StrictTransport) (lf : Option Int) (d b : Bool),
    Fn.strictTransport_expired now (some s) = .ok b →
    (tstep (tstsOf s lf) (.dialFail now d)).1.toSts = if b && !d then (stsOf s).reset else stsOf s :=
  Proofs.Trans.dialFail_generated

end Girc.Props.TieSts
