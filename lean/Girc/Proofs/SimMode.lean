import Girc.Spec.Sim
import Girc.Proofs.InvHandlers
import Girc.Proofs.SimModeFlag
import Girc.Proofs.SimModeState
/-
  C04 proofs, part 6: MODE / RPL_CHANNELMODEIS. The implementation parses the whole flag string
  against the channel's CHANMODES classes, applies the settings, then walks the parsed list again
  for privilege changes; the reference folds one flag at a time. `st`/`r` are the states AFTER the
  account-tag step.
-/
namespace Girc.Proofs.SimMode
open Girc Girc.Model Girc.Spec
open Girc.Proofs.InvBase Girc.Proofs.InvHandlers

/-- The channel as `handleMODE` stores it after `Apply`. -/
def applied (ch : Channel) (changes : List CMode) : Channel := { ch with modes := ch.modes.apply changes }

theorem applied_nil (ch : Channel) : applied ch [] = ch := rfl

theorem applied_cons (ch : Channel) (m : CMode) (cs : List CMode) :
    applied ch (m :: cs) =
      applied { ch with modes := { ch.modes with modes := applyOne ch.modes.modes m } } cs := rfl

/-- The reference's channel update. -/
def setModesR (r : Ref) (k : Bytes) (rch : RChan) (ms : List (Byte × Bytes)) : Ref :=
  { r with chans := AMap.set r.chans k { rch with modes := ms } }

/-- The reference's optional privilege update. -/
def privStep (r : Ref) (k : Bytes) (priv : Option (Byte × Bytes × Bool)) : Ref :=
  match priv with
  | some pr => r.applyPriv k pr
  | none => r

/-- One ordinary flag, both sides. -/
theorem sim_flag {st : St} {r : Ref} {k : Bytes} {ch : Channel} (h : Sim st r)
    (hc : AMap.get? st.channels k = some ch) (m : CMode) :
    Sim (modePerms ch.name ch.modes.listArgs
          (setChannel st k { ch with modes := { ch.modes with modes := applyOne ch.modes.modes m } }) m)
      (privStep (setModesR r k (chanView ch) ((applyOne ch.modes.modes m).map mview)) k
        (if m.setting || ch.modes.listArgs.contains m.name then none else some (m.name, m.args, m.add))) := by
  have hk : k = fold ch.name := h.inv.chanKey k ch (get?_some_mem hc)
  have h1 := sim_setModes h hc (applyOne ch.modes.modes m)
    (applyOne_wf _ m (h.chanModesWF k ch hc).1)
  by_cases hskip : (m.setting || ch.modes.listArgs.contains m.name) = true
  · rw [if_pos hskip, modePerms_skip _ _ _ _ hskip]
    exact h1
  · rw [if_neg hskip]
    rw [Bool.or_eq_true, not_or] at hskip
    have hs : m.setting = false := by simpa using hskip.1
    have hl : ch.modes.listArgs.contains m.name = false := by simpa using hskip.2
    have h2 := sim_modePerms h1 ch.name ch.modes.listArgs m hs hl
    rw [← hk] at h2
    exact h2

/-- The lock-step induction over the flag string. -/
theorem sim_modeLoop (k : Bytes) : ∀ (flags : Bytes) (add : Bool) (args : List Bytes) (st : St) (r : Ref)
    (ch : Channel), Sim st r → AMap.get? st.channels k = some ch →
    Sim ((ch.modes.parseAux flags add args).foldl (modePerms ch.name ch.modes.listArgs)
          (setChannel st k (applied ch (ch.modes.parseAux flags add args))))
      (Ref.modeString flags add args r k) := by
  intro flags
  induction flags with
  | nil =>
    intro add args st r ch h hc
    rw [parseAux_nil, Ref.modeString, List.foldl_nil, applied_nil]
    exact sim_setChannel_self h hc
  | cons f rest ih =>
    intro add args st r ch h hc
    by_cases h1 : f = 0x2B
    · subst h1
      rw [parseAux_plus, Ref.modeString, if_pos rfl]
      exact ih true args st r ch h hc
    by_cases h2 : f = 0x2D
    · subst h2
      rw [parseAux_minus, Ref.modeString, if_neg (by decide), if_pos rfl]
      exact ih false args st r ch h hc
    have hrc : AMap.get? r.chans k = some (chanView ch) := by rw [← h.chans k, hc]; rfl
    rw [parseAux_flag _ _ _ _ _ h1 h2, Ref.modeString, if_neg h1, if_neg h2, hrc]
    dsimp only
    rw [modeFlag_eq ch (h.chanModesWF k ch hc)]
    dsimp only
    generalize hp : pstep ch.modes add f args = p
    obtain ⟨m, args'⟩ := p
    dsimp only
    have hname : m.name = f := by
      have : (pstep ch.modes add f args).1.name = f := by
        unfold pstep; split <;> rfl
      rw [hp] at this; exact this
    have hadd : m.add = add := by
      have : (pstep ch.modes add f args).1.add = add := by
        unfold pstep; split <;> rfl
      rw [hp] at this; exact this
    -- one step on both sides
    subst hname
    subst hadd
    have hstep := sim_flag h hc m
    -- the implementation side, reshaped
    generalize hch1 : ({ ch with modes := { ch.modes with modes := applyOne ch.modes.modes m } } : Channel) = ch1
      at hstep
    have hc1 : AMap.get? (modePerms ch.name ch.modes.listArgs (setChannel st k ch1) m).channels k = some ch1 := by
      rw [modePerms_channels]
      exact get?_set_self _ _ _
    have hih := ih m.add args' _ _ ch1 hstep hc1
    have hpa : ch1.modes.parseAux rest m.add args' = ch.modes.parseAux rest m.add args' := by
      rw [← hch1]; exact parseAux_modes _ _ _ _ _
    have hnm : ch1.name = ch.name := by rw [← hch1]
    have hla : ch1.modes.listArgs = ch.modes.listArgs := by rw [← hch1]
    rw [hpa, hnm, hla] at hih
    rw [List.foldl_cons, applied_cons, modePerms_setChannel]
    rw [modePerms_setChannel] at hih
    have hss : ∀ (s : St) (a b : Channel), setChannel (setChannel s k a) k b = setChannel s k b := by
      intro s a b; unfold setChannel; dsimp only; rw [set_set]
    rw [hss, ← hch1] at hih
    exact hih

theorem cmdStep_mode (cfg : Cfg) (r : Ref) (e : Event) (hcmd : e.command = cMODE ∨ e.command = c324) :
    r.cmdStep cfg e =
      match (if e.command = c324 && e.params.length > 2 then e.params.drop 1 else e.params) with
      | target :: flags :: args =>
        if isValidChannel target && AMap.contains r.chans (fold target)
          then Ref.modeString flags true args r (fold target) else r
      | _ => r := by
  have hor : (e.command = cMODE || e.command = c324) = true := by
    rcases hcmd with h | h <;> simp [h]
  unfold Ref.cmdStep
  dsimp only
  have n1 : e.command ≠ c001 := by rcases hcmd with h | h <;> rw [h] <;> decide
  have n2 : e.command ≠ cJOIN := by rcases hcmd with h | h <;> rw [h] <;> decide
  have n3 : e.command ≠ cPART := by rcases hcmd with h | h <;> rw [h] <;> decide
  have n4 : e.command ≠ cKICK := by rcases hcmd with h | h <;> rw [h] <;> decide
  have n5 : e.command ≠ cQUIT := by rcases hcmd with h | h <;> rw [h] <;> decide
  have n6 : e.command ≠ cNICK := by rcases hcmd with h | h <;> rw [h] <;> decide
  have n7 : e.command ≠ c353 := by rcases hcmd with h | h <;> rw [h] <;> decide
  rw [if_neg n1, if_neg n2, if_neg n3, if_neg n4, if_neg n5, if_neg n6, if_neg n7, if_pos hor]
  rfl

theorem sim_MODE {st : St} {r : Ref} (cfg : Cfg) (e : Event) (h : Sim st r)
    (hcmd : e.command = cMODE ∨ e.command = c324) :
    ∃ st', handleMODE st e = .ok st' ∧ Sim st' (r.cmdStep cfg e) := by
  rw [cmdStep_mode cfg r e hcmd]
  unfold handleMODE
  extract_lets ps
  show ∃ st', _ = Except.ok st' ∧ Sim st' (match ps with
      | target :: flags :: args =>
        if isValidChannel target && AMap.contains r.chans (fold target)
          then Ref.modeString flags true args r (fold target) else r
      | _ => r)
  clear_value ps
  match ps with
  | [] => exact ⟨st, rfl, h⟩
  | [_] => exact ⟨st, rfl, h⟩
  | target :: flags :: args =>
    have hlen : ¬ (target :: flags :: args).length < 2 := by simp
    rw [if_neg hlen, idx_ok _ 0 (by simp), ok_bind]
    dsimp only [List.getElem_cons_zero]
    by_cases hv : isValidChannel target = true
    · simp only [hv, Bool.not_true, Bool.false_eq_true, if_false, Bool.true_and]
      rw [lookupChannel_eq]
      cases hc : AMap.get? st.channels (fold target) with
      | none =>
        have : AMap.contains r.chans (fold target) = false := by
          rw [contains_eq_false_iff, ← h.chans, hc]; rfl
        rw [this]
        exact ⟨st, rfl, h⟩
      | some ch =>
        have : AMap.contains r.chans (fold target) = true := by
          rw [contains_iff_get?]; exact ⟨chanView ch, by rw [← h.chans, hc]; rfl⟩
        rw [this]
        dsimp only
        rw [idx_ok _ 1 (by simp), ok_bind]
        refine ⟨_, rfl, ?_⟩
        exact sim_modeLoop (fold target) flags true args st r ch h hc
    · have hv' : isValidChannel target = false := by simpa using hv
      simp only [hv', Bool.not_false, if_true, Bool.false_and, Bool.false_eq_true, if_false]
      exact ⟨st, rfl, h⟩

end Girc.Proofs.SimMode
