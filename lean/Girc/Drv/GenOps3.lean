import Girc.Drv.GenOps
import Girc.Model.State
import Girc.Model.Commands
import Girc.Model.SendPath
import Girc.Drv.RunOps
/-
  Driver ops `gen.<GoName>` for the phase-3 translated functions (value-level pieces of the stateful code), each next to a
  model op that prints the same format from the hand-written model.  A stored mode / mode change is passed as one byte
  string `add(0|1) name setting(0|1) args…` inside a `[…]` list.
-/
namespace Girc.Drv
open Girc Girc.Model Girc.Gen

def argMode (bs : Bytes) : Option CMode :=
  match bs with
  | a :: n :: s :: rest => some ⟨a = 0x31, n, s = 0x31, rest⟩
  | _ => none

def argModes (s : String) : Option (List CMode) := do (← argList s).mapM argMode

def showMode (m : CMode) : String :=
  (if m.add then "+" else "-") ++ Bytes.toHex [m.name] ++ (if m.setting then "s" else "t") ++ ":" ++ hx m.args

def showModes (ms : List CMode) : String := "[" ++ ",".intercalate (ms.map showMode) ++ "]"

def showCModes (c : CModes) : String :=
  s!"{hx c.raw} {hx c.listArgs} {hx c.argsM} {hx c.setArgs} {hx c.noArgs} {hx c.prefixes} {showModes c.modes}"

def showPerms (p : Perms) : String := bl p.owner ++ bl p.admin ++ bl p.op ++ bl p.halfop ++ bl p.voice

def argPerms (s : String) : Option Perms :=
  match s.toList with
  | [a, b, c, d, e] => some ⟨a = '1', b = '1', c = '1', d = '1', e = '1'⟩
  | _ => none

def showOut : Out → String
  | .write e => "write " ++ hx e.command ++ " " ++ listHx e.params
  | .send e => "send " ++ hx e.command ++ " " ++ listHx e.params
  | .inject e => "inject " ++ hx e.command ++ " " ++ listHx e.params
  | .close => "close"

def showOuts (os : List Out) : String := ";".intercalate (os.map showOut)

def showOptP {α : Type} (f : α → String) : Option α → String
  | some a => f a
  | none => "nil"

def handleGen3 (op : String) (args : List String) : Option String :=
  match op, args with
  -- modes.go
  | "gen.NewCModes", [cm, up] => do let cm ← arg cm; let up ← arg up; pure (genShow showCModes (Fn.NewCModes cm up))
  | "newcmodes", [cm, up] => do let cm ← arg cm; let up ← arg up; pure (showCModes (newCModes cm up))
  | "gen.CModes.Parse", [cm, up, fl, as] => do
      let cm ← arg cm; let up ← arg up; let fl ← arg fl; let as ← argList as
      pure (genShow showModes (Fn.CModes_Parse (some (newCModes cm up)) fl as))
  | "modeparse", [cm, up, fl, as] => do
      let cm ← arg cm; let up ← arg up; let fl ← arg fl; let as ← argList as
      pure (showModes ((newCModes cm up).parse fl as))
  | "gen.CModes.Apply", [st, ch] => do
      let st ← argModes st; let ch ← argModes ch
      pure (genShow (showOptP (fun (c : CModes) => showModes c.modes)) (Fn.CModes_Apply (some { newCModes [] [] with modes := st }) ch))
  | "modeapply", [st, ch] => do
      let st ← argModes st; let ch ← argModes ch
      pure (showModes (({ newCModes [] [] with modes := st } : CModes).apply ch).modes)
  | "gen.CModes.String", [st] => do
      let st ← argModes st; pure (genShow hx (Fn.CModes_String (some { newCModes [] [] with modes := st })))
  | "modestring", [st] => do let st ← argModes st; pure (hx ({ newCModes [] [] with modes := st } : CModes).toBytes)
  | "gen.CModes.HasMode", [st, m] => do
      let st ← argModes st; let m ← arg m; pure (genShow bl (Fn.CModes_HasMode (some { newCModes [] [] with modes := st }) m))
  | "hasmode", [st, m] => do
      let st ← argModes st; let m ← arg m; pure (bl (({ newCModes [] [] with modes := st } : CModes).hasMode m))
  | "gen.CModes.Get", [st, m] => do
      let st ← argModes st; let m ← arg m
      pure (genShow (fun (r : Bytes × Bool) => if r.2 then hx r.1 else "-") (Fn.CModes_Get (some { newCModes [] [] with modes := st }) m))
  | "modeget", [st, m] => do
      let st ← argModes st; let m ← arg m; pure (optHx (({ newCModes [] [] with modes := st } : CModes).get m))
  | "gen.CModes.Copy", [cm, up, st] => do
      let cm ← arg cm; let up ← arg up; let st ← argModes st
      pure (genShow showCModes (Fn.CModes_Copy (some { newCModes cm up with modes := st })))
  | "gen.Perms.set", [p, pre, add] => do
      let p ← argPerms p; let pre ← arg pre; pure (genShow (showOptP showPerms) (Fn.Perms_set (some p) pre (add == "1")))
  | "permsset", [pre] => do let pre ← arg pre; pure (showPerms (permsFromPrefix pre))
  | "gen.Perms.setFromMode", [p, m] => do
      let p ← argPerms p; let m ← argMode (← arg m); pure (genShow (showOptP showPerms) (Fn.Perms_setFromMode (some p) m))
  | "permsfrommode", [p, m] => do let p ← argPerms p; let m ← argMode (← arg m); pure (showPerms (p.setFromMode m))
  | "gen.Perms.IsAdmin", [p] => do let p ← argPerms p; pure (genShow bl (Fn.Perms_IsAdmin p))
  | "gen.Perms.IsTrusted", [p] => do let p ← argPerms p; pure (genShow bl (Fn.Perms_IsTrusted p))
  -- state.go list helpers (the user / channel is given by its list)
  | "gen.User.InChannel", [l, n] => do
      let l ← argList l; let n ← arg n; pure (genShow bl (Fn.User_InChannel (some { nick := [], chans := l }) n))
  | "userin", [l, n] => do let l ← argList l; let n ← arg n; pure (bl (({ nick := [], chans := l } : User).inChannel n))
  | "gen.User.addChannel", [l, n] => do
      let l ← argList l; let n ← arg n
      pure (genShow (showOptP (fun (u : User) => listHx u.chans)) (Fn.User_addChannel (some { nick := [], chans := l }) n))
  | "useradd", [l, n] => do let l ← argList l; let n ← arg n; pure (listHx (({ nick := [], chans := l } : User).addChannel n).chans)
  | "gen.User.deleteChannel", [l, n] => do
      let l ← argList l; let n ← arg n
      pure (genShow (showOptP (fun (u : User) => listHx u.chans)) (Fn.User_deleteChannel (some { nick := [], chans := l }) n))
  | "userdel", [l, n] => do let l ← argList l; let n ← arg n; pure (listHx (({ nick := [], chans := l } : User).deleteChannel n).chans)
  | "gen.Channel.UserIn", [l, n] => do
      let l ← argList l; let n ← arg n
      pure (genShow bl (Fn.Channel_UserIn (some { name := [], users := l, modes := newCModes [] [] }) n))
  | "gen.Channel.addUser", [l, n] => do
      let l ← argList l; let n ← arg n
      pure (genShow (showOptP (fun (c : Channel) => listHx c.users))
        (Fn.Channel_addUser (some { name := [], users := l, modes := newCModes [] [] }) n))
  | "chanadd", [l, n] => do
      let l ← argList l; let n ← arg n
      pure (listHx (({ name := [], users := l, modes := newCModes [] [] } : Channel).addUser n).users)
  | "gen.Channel.deleteUser", [l, n] => do
      let l ← argList l; let n ← arg n
      pure (genShow (showOptP (fun (c : Channel) => listHx c.users))
        (Fn.Channel_deleteUser (some { name := [], users := l, modes := newCModes [] [] }) n))
  | "chandel", [l, n] => do
      let l ← argList l; let n ← arg n
      pure (listHx (({ name := [], users := l, modes := newCModes [] [] } : Channel).deleteUser n).users)
  -- cap_sasl.go                                                                         mirrors
  | "gen.SASLPlain.Encode", [u, p, ps] => do                                            -- plain
      let u ← arg u; let p ← arg p; let ps ← argList ps; pure (genShow hx (Fn.SASLPlain_Encode (some ⟨u, p⟩) ps))
  | "gen.SASLExternal.Encode", [i, ps] => do                                            -- external
      let i ← arg i; let ps ← argList ps; pure (genShow hx (Fn.SASLExternal_Encode (some ⟨i⟩) ps))
  -- conn.go rate: now lastWrite lastDue writeDelay chars -> "writeDelay delay lastDue"
  | "gen.ircConn.rate", [now, lw, ld, wd, n] => do
      let now ← intArg now; let lw ← intArg lw; let ld ← intArg ld; let wd ← intArg wd; let n ← n.toNat?
      pure (genShow (fun (r : Int × Option IrcConn) => match r.2 with
        | some c => s!"{c.writeDelay} {r.1} {c.lastDue}" | none => "nil") (Fn.ircConn_rate now (some ⟨lw, ld, wd⟩) n))
  | "ratepiece", [now, lw, ld, wd, n] => do
      let now ← intArg now; let lw ← intArg lw; let ld ← intArg ld; let wd ← intArg wd; let n ← n.toNat?
      let s0 : SendSt Unit := { writeDelay := wd, lastWrite := lw, lastDue := ld }
      let r := sendPiece false s0 now () n
      pure s!"{r.1.writeDelay} {r.2} {r.1.lastDue}"
  -- commands.go: `gen.Commands.<Name> maxEventLength [args]` mirrors `helper <Name> maxEventLength [args]`
  | "helper", [nm, m, a] => do
      let m ← intArg m; let a ← argList a; pure (showOuts (helperOuts m nm.toUTF8.toList a))
  | "gen.Commands.Join", [m, a] => do let m ← intArg m; let a ← argList a; pure (genShow showOuts (Fn.Commands_Join m a))
  | "gen.Commands.List", [m, a] => do let m ← intArg m; let a ← argList a; pure (genShow showOuts (Fn.Commands_List m a))
  | "gen.Commands.Part", [_, a] => do let a ← argList a; pure (genShow showOuts (Fn.Commands_Part a))
  | "gen.Commands.Who", [_, a] => do let a ← argList a; pure (genShow showOuts (Fn.Commands_Who a))
  | "gen.Commands.Whois", [_, a] => do let a ← argList a; pure (genShow showOuts (Fn.Commands_Whois a))
  | "gen.Commands.Kick", [_, a] => do
      let a ← argList a; pure (genShow showOuts (Fn.Commands_Kick (a.getD 0 []) (a.getD 1 []) (a.getD 2 [])))
  | "gen.Commands.Mode", [_, a] => do
      let a ← argList a; pure (genShow showOuts (Fn.Commands_Mode (a.getD 0 []) (a.getD 1 []) (a.drop 2)))
  | "gen.Commands.Ban", [_, a] => do let a ← argList a; pure (genShow showOuts (Fn.Commands_Ban (a.getD 0 []) (a.getD 1 [])))
  | "gen.Commands.Invite", [_, a] => do let a ← argList a; pure (genShow showOuts (Fn.Commands_Invite (a.getD 0 []) (a.drop 1)))
  | "gen.Commands.Away", [_, a] => do let a ← argList a; pure (genShow showOuts (Fn.Commands_Away (a.getD 0 [])))
  | "gen.Commands.Ping", [_, a] => do let a ← argList a; pure (genShow showOuts (Fn.Commands_Ping (a.getD 0 [])))
  | "gen.Commands.Pong", [_, a] => do let a ← argList a; pure (genShow showOuts (Fn.Commands_Pong (a.getD 0 [])))
  | "gen.Commands.Nick", [_, a] => do let a ← argList a; pure (genShow showOuts (Fn.Commands_Nick (a.getD 0 [])))
  | "gen.Commands.JoinKey", [_, a] => do let a ← argList a; pure (genShow showOuts (Fn.Commands_JoinKey (a.getD 0 []) (a.getD 1 [])))
  | "gen.Commands.PartMessage", [_, a] => do
      let a ← argList a; pure (genShow showOuts (Fn.Commands_PartMessage (a.getD 0 []) (a.getD 1 [])))
  | "gen.Commands.Message", [_, a] => do let a ← argList a; pure (genShow showOuts (Fn.Commands_Message (a.getD 0 []) (a.getD 1 [])))
  | "gen.Commands.Notice", [_, a] => do let a ← argList a; pure (genShow showOuts (Fn.Commands_Notice (a.getD 0 []) (a.getD 1 [])))
  | "gen.Commands.Action", [_, a] => do let a ← argList a; pure (genShow showOuts (Fn.Commands_Action (a.getD 0 []) (a.getD 1 [])))
  | "gen.Commands.Topic", [_, a] => do let a ← argList a; pure (genShow showOuts (Fn.Commands_Topic (a.getD 0 []) (a.getD 1 [])))
  | "gen.Commands.Oper", [_, a] => do let a ← argList a; pure (genShow showOuts (Fn.Commands_Oper (a.getD 0 []) (a.getD 1 [])))
  | "gen.Commands.Unban", [_, a] => do let a ← argList a; pure (genShow showOuts (Fn.Commands_Unban (a.getD 0 []) (a.getD 1 [])))
  | "gen.Commands.SendRaw", [_, a] => do
      let a ← argList a
      pure (genShow (fun (r : Option Go.GoErr × List Out) => showOuts r.2 ++ (if r.1.isSome then " err" else "")) (Fn.Commands_SendRaw a))
  -- cap.go / cap_sasl.go                                                              mirrors
  | "gen.parseCap", [a] => do                                                           -- parsecap
      let s ← arg a
      pure (genShow (fun (r : Option (AMap (Option Tags))) => match r with
        | none => "nil"
        | some m => listHx ((sortedKeys m).map fun k => k ++ [0x3D] ++
            (match (AMap.get? m k).getD none with
             | none => str "nil"
             | some vm => j1 ((sortedKeys vm).map fun o => o ++ [0x3A] ++ (AMap.get? vm o).getD [])))) (Fn.parseCap s))
  | "gen.handleSASL.chunks", [a] => do                                                  -- chunks
      let s ← arg a
      pure (genShow (fun (os : List Out) => listHx (os.map fun o => match o with
        | .write e => e.params.getD 0 [] | _ => [])) (Fn.handleSASL_chunks s))
  | _, _ => none

end Girc.Drv
