import Girc.Base.Bytes
import Girc.Base.GoLib
/-
  C06 model: handler registration and event dispatch as an interleaving transition system.

  Threads: the dispatcher (execLoop calling RunHandlers for one event at a time), any number of
  registrar goroutines (Add / AddBg / AddHandler / AddTmp / Remove / Clear / ClearAll — each atomic
  under Caller.mu), the goroutines RunHandlers spawns (one per snapshot entry; a background entry's
  goroutine only spawns the real one and reports done at once), AddTmp's wrapper and deadline
  goroutines. One action = one atomic step at lock/channel granularity. A handler body is an opaque
  terminating action that returns normally, returns `true` (temporary handlers) or panics.

  RunHandlers(e) = four phases, each "snapshot under the read lock, spawn, wait for the spawned
  goroutines": (ALL_EVENTS, bg), (e.Command, bg) unless echo, (ALL_EVENTS, fg), (e.Command, fg) unless echo.

  Source anchors: handler.go RunHandlers / Caller.exec / register / remove / Remove / Clear / ClearAll /
  AddTmp / recoverHandlerPanic, client.go execLoop.
-/
namespace Girc.Model.Disp
open Girc

def star : Bytes := [0x2A]   -- ALL_EVENTS = "*"

structure Entry where
  id : Nat
  cmd : Bytes       -- stored upper-cased (`register` does strings.ToUpper)
  bg : Bool         -- the ":bg" suffix of the cuid
  tmp : Bool        -- registered through AddTmp (always bg)
  deriving DecidableEq, Repr

structure Evt where
  seq : Nat
  cmd : Bytes       -- ParseEvent upper-cases the command
  echo : Bool
  deriving DecidableEq, Repr

structure Phase where
  wild : Bool
  bg : Bool
  skipEcho : Bool
  deriving DecidableEq, Repr

/-- The four `exec` calls of RunHandlers, in order. -/
def phases : List Phase :=
  [⟨true, true, false⟩, ⟨false, true, true⟩, ⟨true, false, false⟩, ⟨false, false, true⟩]

def Phase.sel (ph : Phase) (ev : Evt) (e : Entry) : Bool :=
  e.bg == ph.bg && e.cmd == (if ph.wild then star else ev.cmd)

/-- `Caller.exec`'s stack: the entries of the table for that key with the right ":bg" suffix. -/
def snapshot (t : List Entry) (ev : Evt) (ph : Phase) : List Entry :=
  if ph.skipEcho && ev.echo then [] else t.filter (ph.sel ev)

/-- Is `e` a handler that should see `ev`? (the property's routing rule) -/
def routeOK (e : Entry) (ev : Evt) : Bool := e.cmd == star || (e.cmd == ev.cmd && !ev.echo)

/-- An invocation: handler id, event seq, phase index, background? -/
structure Inv where
  id : Nat
  seq : Nat
  phase : Nat
  bg : Bool
  deriving DecidableEq, Repr

inductive Res where
  | normal | wantRemove | panic
  deriving DecidableEq, Repr

inductive Pc where
  | idle
  /-- processing `ev`: phases `< k` have been snapshotted; `waiting` = goroutines of phase `k-1` the WaitGroup still waits for -/
  | at (ev : Evt) (k : Nat) (waiting : List Nat)
  deriving DecidableEq, Repr

structure DState where
  table : List Entry := []
  nextId : Nat := 0
  queue : List Evt := []
  nextSeq : Nat := 0
  pc : Pc := .idle
  pending : List Inv := []        -- spawned, body not yet started
  running : List Inv := []        -- body started, not yet returned
  tmpWant : List Nat := []        -- AddTmp wrappers whose handler returned true and which are about to call Remove
  doneClosed : List Nat := []     -- `close(done)` calls, in order
  recover : Bool := true          -- Config.RecoverFunc installed
  crashed : Bool := false
  -- history variables
  registry : List Entry := []     -- every entry ever registered
  removed : List Nat := []        -- ids taken out of the table (Remove / Clear / ClearAll / tmp / deadline)
  events : List Evt := []         -- every event received
  spawned : List Inv := []        -- every invocation ever spawned, in order
  started : List Inv := []
  finished : List Inv := []
  ended : List Nat := []          -- seqs whose RunHandlers has returned
  snaps : List (Nat × Nat × List Entry) := []   -- (seq, phase index, the table at the instant of the snapshot)
  deriving Repr

inductive Act where
  -- registrars (user goroutines, possibly inside handlers)
  | add (cmd : Bytes) (bg tmp : Bool)
  | remove (id : Nat)
  | clear (cmd : Bytes)
  | clearAll
  -- the reader
  | recv (cmd : Bytes) (echo : Bool)
  -- the dispatcher
  | take | snap | endEvent
  -- spawned goroutines
  | startInv (i : Inv)
  | finishInv (i : Inv) (r : Res)
  -- AddTmp's wrapper / deadline goroutine
  | tmpRemove (id : Nat)
  | deadline (id : Nat)
  deriving DecidableEq, Repr

def eraseId (t : List Entry) (id : Nat) : List Entry := t.filter (·.id != id)
def hasId (t : List Entry) (id : Nat) : Bool := t.any (·.id == id)

def step (s : DState) : Act → Option DState
  | .add cmd bg tmp =>
    if s.crashed then none else
    let e : Entry := { id := s.nextId, cmd := toUpperAscii cmd, bg := bg || tmp, tmp := tmp }
    some { s with table := s.table ++ [e], registry := s.registry ++ [e], nextId := s.nextId + 1 }
  | .remove id =>
    if s.crashed then none else
    if hasId s.table id then some { s with table := eraseId s.table id, removed := s.removed ++ [id] }
    else some s     -- Remove reports false
  | .clear cmd =>
    if s.crashed then none else
    let gone := s.table.filter (·.cmd == toUpperAscii cmd)
    some { s with table := s.table.filter (·.cmd != toUpperAscii cmd), removed := s.removed ++ gone.map (·.id) }
  | .clearAll =>
    if s.crashed then none else
    some { s with table := [], removed := s.removed ++ s.table.map (·.id) }
  | .recv cmd echo =>
    if s.crashed || cmd == star then none else
    let ev : Evt := { seq := s.nextSeq, cmd := cmd, echo := echo }
    some { s with queue := s.queue ++ [ev], events := s.events ++ [ev], nextSeq := s.nextSeq + 1 }
  | .take =>
    match s.pc, s.queue with
    | .idle, ev :: rest => if s.crashed then none else some { s with pc := .at ev 0 [], queue := rest }
    | _, _ => none
  | .snap =>
    match s.pc with
    | .at ev k [] =>
      if s.crashed then none else
      match phases[k]? with
      | none => none
      | some ph =>
        let invs := (snapshot s.table ev ph).map fun e => ({ id := e.id, seq := ev.seq, phase := k, bg := ph.bg } : Inv)
        -- a background entry's spawned goroutine starts the real one and is done: the WaitGroup only waits for foreground bodies
        some { s with pending := s.pending ++ invs, spawned := s.spawned ++ invs,
                      snaps := s.snaps ++ [(ev.seq, k, s.table)],
                      pc := .at ev (k + 1) (if ph.bg then [] else invs.map (·.id)) }
    | _ => none
  | .endEvent =>
    match s.pc with
    | .at ev k [] => if s.crashed || k < phases.length then none else some { s with pc := .idle, ended := s.ended ++ [ev.seq] }
    | _ => none
  | .startInv i =>
    if s.crashed || !s.pending.contains i then none
    else some { s with pending := s.pending.erase i, running := s.running ++ [i], started := s.started ++ [i] }
  | .finishInv i r =>
    if s.crashed || !s.running.contains i then none
    -- only AddTmp's wrapper interprets a `true` result
    else if r == .wantRemove && !(s.registry.any fun e => e.id == i.id && e.tmp) then none
    else
      let s := { s with running := s.running.erase i, finished := s.finished ++ [i] }
      -- `defer wg.Done()` runs whether the handler returned or panicked
      let s := if i.bg then s else
        match s.pc with
        | .at ev k w => { s with pc := .at ev k (w.erase i.id) }
        | .idle => s
      match r with
      | .normal => some s
      | .wantRemove => some { s with tmpWant := s.tmpWant ++ [i.id] }
      | .panic => some (if s.recover then s else { s with crashed := true })
  | .tmpRemove id =>
    if s.crashed || !s.tmpWant.contains id then none
    else
      let s := { s with tmpWant := s.tmpWant.erase id }
      -- `if ok := c.Remove(cuid); ok { close(done) }`
      if hasId s.table id then some { s with table := eraseId s.table id, removed := s.removed ++ [id], doneClosed := s.doneClosed ++ [id] }
      else some s
  | .deadline id =>
    if s.crashed then none
    else if hasId s.table id && (s.table.any fun e => e.id == id && e.tmp) then
      some { s with table := eraseId s.table id, removed := s.removed ++ [id], doneClosed := s.doneClosed ++ [id] }
    else some s

def run (s : DState) : List Act → Option DState
  | [] => some s
  | a :: rest => match step s a with | some s' => run s' rest | none => none

inductive Reach : DState → Prop where
  | init (recover : Bool) : Reach { recover := recover }
  | step {s s' : DState} (a : Act) : Reach s → step s a = some s' → Reach s'

/-- Sequential semantics (registrar operations only between events): which handlers one event reaches. -/
def dispatchIds (t : List Entry) (ev : Evt) : List Nat :=
  (phases.flatMap fun ph => snapshot t ev ph).map (·.id)

end Girc.Model.Disp
