import Girc.Proofs.ProtocolB
/- C10 — strict transport security is never downgraded. Property theorems only (decision logic). -/
namespace Girc.Props.C10
open Girc Girc.Model Girc.Spec Girc.Proofs.ProtocolB

/-- Plaintext + usable port: upgrade, nothing further is written, and the next dial is TLS on that port. -/
theorem upgrade_decision (cfg : Cfg) (sts : Sts) (v : CapVal) (p : Int)
    (htls : cfg.tlsActive = false) (hp : usablePort v = some p) :
    stsOnAck cfg sts v = ({ sts with upgradePort := p, beginUpgrade := true }, .upgrade) ∧
    ∀ cp ssl, planDial cp ssl (stsOnAck cfg sts v).1 = (p, true) :=
  Proofs.ProtocolB.upgrade_decision cfg sts v p htls hp

theorem upgrade_silent (cfg : Cfg) (st : St) (e : Event) (a b c : Bytes) (v : CapVal) (p : Int)
    (hp : e.params = [a, b, c]) (hack : b = cACK) (hd : cfg.disableSTS = false) (htls : cfg.tlsActive = false)
    (hv : AMap.get? (capAck st.tmpCap st.enabledCap (splitOnByte SP c)) sSts = some v) (hport : usablePort v = some p) :
    (handleCAP cfg st e).2 = [Out.close] ∧ (handleCAP cfg st e).1.sts.upgradePort = p ∧
      (handleCAP cfg st e).1.sts.beginUpgrade = true :=
  Proofs.ProtocolB.upgrade_silent cfg st e a b c v p hp hack hd htls hv hport

/-- Plaintext without a usable port: abort, and the stored policy is untouched (not retained). -/
theorem invalid_policy_not_retained (cfg : Cfg) (sts : Sts) (v : CapVal)
    (htls : cfg.tlsActive = false) (hp : usablePort v = none) :
    stsOnAck cfg sts v = (sts, .abort) :=
  Proofs.ProtocolB.invalid_policy_not_retained cfg sts v htls hp

/-- On TLS the port key is ignored and a duration is required; without it: abort and the
    persistence policy is not recorded. -/
theorem tls_needs_duration (cfg : Cfg) (sts : Sts) (v : CapVal)
    (htls : cfg.tlsActive = true) (hd : capValGet v sDuration = none) :
    (stsOnAck cfg sts v).2 = .abort ∧ (stsOnAck cfg sts v).1.persistenceDuration = sts.persistenceDuration ∧
    (stsOnAck cfg sts v).1.upgradePort = sts.upgradePort :=
  Proofs.ProtocolB.tls_needs_duration cfg sts v htls hd

theorem tls_ignores_port (cfg : Cfg) (sts : Sts) (v : CapVal) (htls : cfg.tlsActive = true) :
    (stsOnAck cfg sts v).1.upgradePort = sts.upgradePort ∧ (stsOnAck cfg sts v).2 ≠ .upgrade :=
  Proofs.ProtocolB.tls_ignores_port cfg sts v htls

/-- Once a policy is stored every later dial uses TLS on its port; only an EXPIRED policy with
    fallback allowed is ever dropped, and only by a failed dial. -/
theorem policy_sticks (cp : Int) (ssl : Bool) (s : Sts) (h : s.enabled = true) :
    planDial cp ssl s = (s.upgradePort, true) ∧
    (∀ disableFallback, (onDialFail disableFallback false s) = (s, .stsUpgradeFailed)) ∧
    (∀ expired, (onDialFail true expired s) = (s, .stsUpgradeFailed)) ∧
    (afterCleanEnd s).1.upgradePort = s.upgradePort :=
  Proofs.ProtocolB.policy_sticks cp ssl s h

/-- With DisableSTS the policy is never acted on; with DisableSTS or configured SSL it is never requested. -/
theorem sts_disabled (cfg : Cfg) (st : St) (e : Event) (h : cfg.disableSTS = true) :
    (handleCAP cfg st e).1.sts = st.sts ∧ AMap.contains (possibleCaps cfg) sSts = (AMap.contains cfg.supportedCaps sSts) :=
  Proofs.ProtocolB.sts_disabled cfg st e h

theorem sts_not_requested_on_ssl (cfg : Cfg) (h : cfg.ssl = true) :
    AMap.contains (possibleCaps cfg) sSts = AMap.contains cfg.supportedCaps sSts :=
  Proofs.ProtocolB.sts_not_requested_on_ssl cfg h

/-- Non-vacuity: "sts=port=6697" acknowledged on plaintext. -/
example : usablePort (some [(sPort, [0x36, 0x36, 0x39, 0x37])]) = some 6697 := by decide
example : usablePort (some [(sPort, [0x31, 0x35])]) = none := by decide

end Girc.Props.C10
