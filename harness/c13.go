package main

import (
	"fmt"
	"reflect"
	"sort"
	"strings"

	"github.com/lrstanley/girc"
)

// ---- C13: snapshot isolation on the real client ----

func renderUser(u *girc.User) string {
	if u == nil {
		return "nil"
	}
	var perms []string
	for k, p := range girc.VerifPermsMap(u.Perms) {
		perms = append(perms, fmt.Sprintf("%s=%v", k, p))
	}
	sort.Strings(perms)
	return fmt.Sprintf("%s|%s|%s|%q|%s|%s|%s|%v", u.Nick, u.Ident, u.Host, u.ChannelList, u.Extras.Name, u.Extras.Account, u.Extras.Away, perms)
}

func renderChannel(c *girc.Channel) string {
	if c == nil {
		return "nil"
	}
	// (Modes through BOTH readers: the rendered string and the per-mode lookups)
	var args []string
	for _, m := range "klbeIfjqaohvimnpst" {
		if a, ok := c.Modes.Get(string(m)); ok {
			args = append(args, string(m)+"="+a)
		}
		if c.Modes.HasMode(string(m)) {
			args = append(args, string(m)+"!")
		}
	}
	// … and the snapshot's own membership answers (they speak about the snapshot's list, not about the tracked state)
	var in []string
	for _, n := range []string{"bob", "Carl", "dave", "Eve[1]", "zed", "bob2", "carl2", "dave2", "zed2", "me"} {
		if c.UserIn(n) {
			in = append(in, n)
		}
	}
	return fmt.Sprintf("%s|%s|%q|%s|%v|len=%d in=%v", c.Name, c.Topic, c.UserList, c.Modes.String(), args, c.Len(), in)
}

type snapSet struct {
	users    []*girc.User
	channels []*girc.Channel
}

func takeSnaps(c *girc.Client) *snapSet {
	s := &snapSet{}
	// every tracked name in several spellings a caller may plausibly pass (case variants, a STATUSMSG-style prefix in
	// front, a hostmask): whatever a getter returns for them — if anything — must be a snapshot too
	spellings := func(n string) []string {
		out := []string{n, strings.ToUpper(n), strings.Title(n)}
		for _, p := range []string{"@", "+", "~", "&", "%", "#", ":"} {
			out = append(out, p+n)
		}
		return append(out, n+"!u@h")
	}
	for _, n := range c.UserList() {
		for _, sp := range spellings(n) {
			if u := c.LookupUser(sp); u != nil {
				s.users = append(s.users, u)
			}
		}
	}
	s.users = append(s.users, c.Users()...)
	for _, n := range c.ChannelList() {
		for _, sp := range spellings(n) {
			if ch := c.LookupChannel(sp); ch != nil {
				s.channels = append(s.channels, ch)
			}
		}
	}
	s.channels = append(s.channels, c.Channels()...)
	return s
}

func (s *snapSet) render() []string {
	var out []string
	for _, u := range s.users {
		out = append(out, "U:"+renderUser(u))
	}
	for _, c := range s.channels {
		out = append(out, "C:"+renderChannel(c))
	}
	return out
}

// scribble writes through every reference reachable from the snapshots.
func (s *snapSet) scribble() {
	for _, u := range s.users {
		if u == nil {
			continue
		}
		for i := range u.ChannelList {
			u.ChannelList[i] = "#SCRIBBLED"
		}
		// use spare capacity too, then reverse-sort in place
		full := u.ChannelList[:cap(u.ChannelList)]
		for i := range full {
			full[i] = "#SCRIBBLED-CAP"
		}
		u.ChannelList = append(u.ChannelList, "#appended")
		u.Nick, u.Ident, u.Host = "scribbled", "scribbled", "scribbled"
		u.Extras.Account, u.Extras.Away, u.Extras.Name = "scribbled", "scribbled", "scribbled"
		m := girc.VerifPermsMap(u.Perms)
		for k := range m {
			m[k] = girc.Perms{Owner: true, Admin: true, Op: true, HalfOp: true, Voice: true}
		}
		m["#injected"] = girc.Perms{Op: true}
	}
	for _, c := range s.channels {
		if c == nil {
			continue
		}
		for i := range c.UserList {
			c.UserList[i] = "scribbled"
		}
		full := c.UserList[:cap(c.UserList)]
		for i := range full {
			full[i] = "scribbled-cap"
		}
		c.UserList = append(c.UserList, "appended")
		c.Name, c.Topic = "scribbled", "scribbled"
		girc.VerifScribbleModes(&c.Modes)
		// … and through the snapshot's own public API (a mode list that is EMPTY but has spare capacity shares nothing visible)
		c.Modes.Apply(c.Modes.Parse("+ps-nt+k", []string{"snapkey"}))
		c.Modes.Apply(c.Modes.Parse("+l", []string{"77"}))
	}
}

// snapshotCheck is executed inside the worker (session op "snap:*").
type snapState struct {
	kept       *snapSet
	keptRender []string
}

func (ss *snapState) op(c *girc.Client, which string, res *SessResult) {
	switch which {
	case "mutate": // (a) modifying a returned object changes neither the tracked state nor later getters
		before := append(girc.VerifDumpState(c), takeSnaps(c).render()...)
		takeSnaps(c).scribble()
		after := append(girc.VerifDumpState(c), takeSnaps(c).render()...)
		if !reflect.DeepEqual(before, after) {
			res.Snap = append(res.Snap, "mutating snapshots changed the tracked state: "+firstDiff(before, after))
		}
	case "keep": // (b) take snapshots now …
		ss.kept = takeSnaps(c)
		ss.keptRender = ss.kept.render()
	case "scribblekept": // (c) writing through snapshots taken EARLIER, after the tracked state has moved on, changes nothing either
		if ss.kept != nil {
			before := girc.VerifDumpState(c)
			ss.kept.scribble()
			after := girc.VerifDumpState(c)
			if !reflect.DeepEqual(before, after) {
				res.Snap = append(res.Snap, "mutating snapshots taken earlier changed the tracked state: "+firstDiff(before, after))
			}
			ss.kept = nil
		}
	case "compare": // … and after further server events they must be unchanged
		if ss.kept != nil {
			now := ss.kept.render()
			if !reflect.DeepEqual(now, ss.keptRender) {
				res.Snap = append(res.Snap, "a snapshot handed out earlier changed after later state changes: "+firstDiff(now, ss.keptRender))
			}
		}
	}
}

func init() {
	props["C13"] = runC13
	sessionChecks["c13"] = func(c *Ctx, in, hin map[string]string, sc SessCfg, steps []string, cmp *SessCmp) {
		for _, s := range cmp.Res.Snap {
			c.R.Violation("c13.isolation", hin, s, "", "a getter result is not an isolated snapshot")
		}
	}
}

func runC13(c *Ctx) {
	r := c.R
	r.Rule = "real sessions: after a random conformant-ish history take the result of EVERY getter (LookupUser/LookupChannel for every tracked name, Users, Channels), dump them, write through every reachable reference " +
		"(every slice element incl. spare capacity, append, every string field, every permission-map entry + a new one, every mode-list element in place via a hook), re-query and compare tracked state and getters; " +
		"then keep fresh snapshots, apply further events (joins, parts, nick changes, modes, NAMES, kicks) and compare the kept snapshots with their earlier rendering; non-trivial = >= 2 users and >= 1 channel tracked; distinct = distinct history"
	for i := 0; i < 120*c.Scale; i++ {
		in := map[string]string{"nick": "me", "check": "c13"}
		steps := []string{"R:srv 001 me :Welcome", "R:srv 005 me PREFIX=(qaohv)~&@%+ CHANMODES=beI,k,l,imnpst" + c.Rng.Pick([]string{"", " STATUSMSG=@+", " STATUSMSG=~&@%+ CHANTYPES=#&"}) + " :are supported by this server"}
		nicks := []string{"bob", "Carl", "dave", "Eve[1]", "zed"}
		chans := []string{"#a", "#b", "#c"}
		ev := func() string {
			n, ch := c.Rng.Pick(nicks), c.Rng.Pick(chans)
			switch c.Rng.Intn(9) {
			case 0:
				return ":" + n + "!u@h JOIN " + ch
			case 1:
				return ":" + n + "!u@h PART " + ch
			case 2:
				return ":" + n + "!u@h NICK " + c.Rng.Pick(nicks) + c.Rng.Pick([]string{"", "2"})
			case 3:
				return ":srv 353 me = " + ch + " :@" + n + " +" + c.Rng.Pick(nicks) + " " + c.Rng.Pick(nicks)
			case 4:
				return ":bob!u@h MODE " + ch + " " + c.Rng.Pick([]string{"+mk key", "-m", "+o " + n, "-o " + n, "+l 5", "+v " + n, "-k key"})
			case 5:
				return ":" + n + "!u@h KICK " + ch + " " + c.Rng.Pick(nicks) + " :bye"
			case 6:
				return ":" + n + "!u@h QUIT :gone"
			case 7:
				return ":bob!u@h TOPIC " + ch + " :topic " + fmt.Sprint(c.Rng.Intn(100))
			default:
				return ":srv 354 me 1 " + ch + " user host " + n + " acct :Real Name"
			}
		}
		for _, ch := range chans[:1+c.Rng.Intn(3)] {
			steps = append(steps, "R:me!u@h JOIN "+ch, "R:srv 353 me = "+ch+" :me @bob +Carl dave")
		}
		for k := c.Rng.Intn(8); k > 0; k-- {
			steps = append(steps, "R"+ev())
		}
		if c.Rng.Chance(35) {
			// a mode list that has been non-empty and is empty again when the snapshots are taken
			ch := chans[0]
			steps = append(steps, "R:bob!u@h MODE "+ch+" +m", "R:bob!u@h MODE "+ch+" -m")
			if c.Rng.Bool() {
				steps = append(steps, "R:bob!u@h MODE "+ch+" +mk key", "R:bob!u@h MODE "+ch+" -mk key")
			}
		}
		steps = append(steps, "Smutate", "D", "Skeep")
		if c.Rng.Chance(50) {
			steps = append(steps, "R:bob!u@h MODE "+chans[0]+" +s", "Scompare", "R:bob!u@h MODE "+chans[0]+" +l 9", "Scompare")
		}
		for k := 2 + c.Rng.Intn(10); k > 0; k-- {
			steps = append(steps, "R"+ev())
			if c.Rng.Chance(20) {
				steps = append(steps, "Scompare")
			}
		}
		steps = append(steps, "Scompare", "Sscribblekept", "Smutate", "D")
		stepsToIn(in, steps)
		c.run("session", in)
		r.Count(strings.Join(steps, "\n"), true, "snapshot-session")
		r.Traces++
		if i < 1 {
			r.Sample(steps)
		}
	}
}
