import Girc.Proofs.Life
import Girc.Gen.Skel
import Girc.Spec.Skeletons
/- C07 — Connect always terminates cleanly and reports why. Property theorems only.
   The model (Model/Lifecycle.lean) is an interleaving transition system of main / execLoop / readLoop /
   sendLoop / pingLoop / user goroutines / the peer; every theorem quantifies over ALL reachable states,
   i.e. all placements of Close / Quit / ERROR / EOF relative to the loops. -/
namespace Girc.Props.C07
open Girc Girc.Model.Life

/-! ### the code the model was written against is the code in the tree (regenerated on every run) -/
theorem skel_internalConnect : Gen.skel_internalConnect = Spec.Skel.skel_internalConnect := by decide +kernel
theorem skel_execLoop : Gen.skel_execLoop = Spec.Skel.skel_execLoop := by decide +kernel
theorem skel_readLoop : Gen.skel_readLoop = Spec.Skel.skel_readLoop := by decide +kernel
theorem skel_sendLoop : Gen.skel_sendLoop = Spec.Skel.skel_sendLoop := by decide +kernel
theorem skel_pingLoop : Gen.skel_pingLoop = Spec.Skel.skel_pingLoop := by decide +kernel
theorem skel_Close : Gen.skel_Close = Spec.Skel.skel_Close := by decide +kernel
theorem skel_Quit : Gen.skel_Quit = Spec.Skel.skel_Quit := by decide +kernel
theorem skel_write : Gen.skel_write = Spec.Skel.skel_write := by decide +kernel
theorem skel_receive : Gen.skel_receive = Spec.Skel.skel_receive := by decide +kernel
theorem skel_decode : Gen.skel_decode = Spec.Skel.skel_decode := by decide +kernel
/-- every connection starts by resetting the tracked state; teardown closes the socket -/
theorem skel_state_reset : Gen.skel_state_reset = Spec.Skel.skel_state_reset ∧
    Gen.skel_ircConn_Close = Spec.Skel.skel_ircConn_Close := by decide +kernel
theorem skel_ctxgroup :
    Gen.skel_ctxgroup_New = Spec.Skel.skel_ctxgroup_New ∧ Gen.skel_ctxgroup_Wait = Spec.Skel.skel_ctxgroup_Wait ∧
    Gen.skel_ctxgroup_Go = Spec.Skel.skel_ctxgroup_Go := by decide +kernel

/-! ### what Connect returns -/

/-- For every reachable state in which Connect has returned `res`:
    nil exactly when the close was requested (Close() called or a QUIT written) before `group.Wait()`
    returned; otherwise, if handlers saw an ERROR, the result is the ErrEvent of the FIRST such ERROR;
    an ErrEvent result always carries the text of the first ERROR delivered; an I/O error is only
    reported after the peer closed and only when no ERROR had been handled. -/
theorem result_classification (s : LState) (h : Reach s) (res : Option Err) (hr : s.main = .returned res) :
    (res = none ↔ s.reqAtWait = true) ∧
    (s.reqAtWait = true → s.closeRequested = true) ∧
    (s.reqAtWait = false → ∀ e, firstError s.delivered = some e → res = some e) ∧
    (∀ t, res = some (.errEvent t) → firstError s.delivered = some (.errEvent t)) ∧
    (res = some .io → s.peerClosed = true ∧ firstError s.delivered = none) :=
  Proofs.Life.result_classification h res hr

/-- A requested close has cancelled the parent context by the time the loops are waited for, so the
    branch `ctx.Err() != nil ⇒ err = nil` is taken: Connect returns nil after Close()/Quit(). -/
theorem close_returns_nil (s : LState) (h : Reach s) (hw : s.main = .waiting) (hc : s.closeRequested = true) :
    s.parentCancelled = true := Proofs.Life.close_returns_nil h hw hc

/-- Every event received before an ERROR is delivered to handlers first: rx is FIFO with one
    consumer, and the reported ERROR is the first one delivered. -/
theorem events_before_error (s : LState) (h : Reach s) (res : Option Err) (hr : s.main = .returned res) (t : Bytes)
    (he : res = some (.errEvent t)) :
    ∃ pre e post, s.delivered = pre ++ [e] ++ post ∧ e.isError = true ∧ e.text = t ∧ (∀ x ∈ pre, x.isError = false) ∧
      s.received = pre ++ [e] ++ post ++ s.rx := by
  have hc := (Proofs.Life.result_classification h res hr).2.2.2.1 t he
  obtain ⟨pre, e, post, hd, h1, h2, h3⟩ := Proofs.Life.firstError_split s.delivered t hc
  exact ⟨pre, e, post, hd, h1, h2, h3, by rw [Proofs.Life.fifo h, hd]⟩

theorem fifo (s : LState) (h : Reach s) : s.received = s.delivered ++ s.rx := Proofs.Life.fifo h

/-! ### lifecycle events, socket, goroutines -/

/-- DISCONNECTED exactly once, last; CLOSED before it exactly when Connect returns nil. -/
theorem lifecycle_events (s : LState) (h : Reach s) (res : Option Err) (hr : s.main = .returned res) :
    s.emitted = if res = none then [.closed, .disconnected] else [.disconnected] :=
  (Proofs.Life.lifecycle_events h).1 res hr

/-- When Connect returns the socket is closed, `conn` is nil (IsConnected() is false) and all four
    loops have exited; and they had all exited before the socket was closed. -/
theorem at_return (s : LState) (h : Reach s) (res : Option Err) (hr : s.main = .returned res) :
    s.sockClosed = true ∧ s.connNil = true ∧ s.exec.done = true ∧ s.read.done = true ∧ s.send.done = true ∧
    s.ping.done = true := Proofs.Life.at_return h res hr

theorem sock_closed_after_loops (s : LState) (h : Reach s) (hc : s.sockClosed = true) :
    s.exec.done = true ∧ s.read.done = true ∧ s.send.done = true ∧ s.ping.done = true :=
  Proofs.Life.sock_closed_after_loops h hc

/-! ### the same client connects again: nothing of the previous connection is seen -/

/-- A new connection starts with empty queues whatever the previous one left behind … -/
theorem reconnect_clean (rx : List Ev) (tx : List OutEv) (cap : Nat) :
    (begin rx tx cap).rx = [] ∧ (begin rx tx cap).tx = [] ∧ (begin rx tx cap).delivered = [] := ⟨rfl, rfl, rfl⟩

/-- … so everything delivered to handlers was sent by the peer on THIS connection. -/
theorem no_stale (s : LState) (h : Reach s) : ∀ e ∈ s.delivered, e ∈ s.sent := Proofs.Life.no_stale h

/-! ### bounded termination -/

/-- Each terminating cause (Close(), a read error / EOF, a malformed line, a ping timeout, an ERROR
    taken by execLoop, a written QUIT, a write error) cancels the group. -/
theorem causes_cancel (s s' : LState) :
    (step s .userClose = some s' → s'.groupCancelled = true) ∧
    (step s .readEOF = some s' → s'.groupCancelled = true) ∧
    (step s .readParseErr = some s' → s'.groupCancelled = true) ∧
    (step s .pingTimeout = some s' → s'.groupCancelled = true) ∧
    (step s .execTake = some s' → (∃ e rest, s.rx = e :: rest ∧ e.isError = true) → s'.groupCancelled = true) ∧
    (step s .sendTake = some s' → (∃ rest, s.tx = .quit :: rest) → s'.groupCancelled = true) ∧
    (step s .sendFail = some s' → s'.groupCancelled = true) := Proofs.Life.causes_cancel s s'

/-- After that, under ANY schedule, at most `measure s` library steps can happen (the measure counts
    the loops still running, the queued events and outputs, and main's remaining statements) … -/
theorem bounded_termination (s s' : LState) (acts : List Act) (hc : s.groupCancelled = true)
    (hl : ∀ a ∈ acts, a.isLib = true) (hr : run s acts = some s') : acts.length + measure s' ≤ measure s :=
  Proofs.Life.bounded_termination s s' acts hc hl hr

/-- … some library step is always enabled until Connect has returned (no deadlock among the loops) … -/
theorem never_stuck (s : LState) (hc : s.groupCancelled = true) (hm : ∀ r, s.main ≠ .returned r) :
    ∃ a, a.isLib = true ∧ (step s a).isSome = true := Proofs.Life.lib_enabled s hc hm

/-- … hence every schedule that keeps running library steps ends with Connect returned. -/
theorem terminates (s s' : LState) (acts : List Act) (hc : s.groupCancelled = true)
    (hl : ∀ a ∈ acts, a.isLib = true) (hr : run s acts = some s')
    (hmax : ∀ a, a.isLib = true → step s' a = none) : ∃ r, s'.main = .returned r :=
  Proofs.Life.maximal_run_returns s s' acts hc hl hr hmax

/-! ### non-vacuity: concrete schedules -/
def evN (n : Nat) : Ev := ⟨false, [], n⟩
def evErr : Ev := ⟨true, [0x62, 0x79, 0x65], 9⟩   -- ERROR :bye

/-- ERROR then EOF: the ERROR is what is reported, even when the read loop saw the EOF first. -/
example : (run (begin [] []) [.peerSend (evN 0), .peerSend evErr, .peerClose, .readTake, .readTake, .readEOF,
      .execTake, .execFlush, .sendCancel, .pingCancel, .mainWait, .mainTeardown, .mainDisc, .mainFinish]).map
      (fun s => (s.main, s.emitted, s.delivered.length)) =
    some (.returned (some (.errEvent [0x62, 0x79, 0x65])), [.disconnected], 2) := by decide +kernel

/-- Quit(): the server answers with ERROR and closes before sendLoop's Close() is noticed — still nil, CLOSED emitted. -/
example : (run (begin [] []) [.userQuit, .sendTake, .peerSend evErr, .peerClose, .readTake, .execTake, .readCancel,
      .pingCancel, .mainWait, .mainClosedEv, .mainTeardown, .mainDisc, .mainFinish]).map
      (fun s => (s.main, s.emitted)) =
    some (.returned none, [.closed, .disconnected]) := by decide +kernel

end Girc.Props.C07
