package main

import (
	"encoding/base64"
	"fmt"
	"strconv"
	"strings"

	"github.com/lrstanley/girc"
)

func init() {
	sessionChecks["c09"] = func(c *Ctx, in, hin map[string]string, sc SessCfg, steps []string, cmp *SessCmp) {
		res := cmp.Res
		// what the server was told
		var chunks []string
		capEndAt, successAt, firstFailAt := -1, -1, -1
		for i, l := range cmp.ImplW {
			e := girc.ParseEvent(l)
			if e == nil {
				continue
			}
			if e.Command == "AUTHENTICATE" && len(e.Params) == 1 && e.Params[0] != "PLAIN" && e.Params[0] != "EXTERNAL" && e.Params[0] != "CUSTOM" {
				chunks = append(chunks, e.Params[0])
			}
			if e.Command == "CAP" && len(e.Params) >= 1 && e.Params[0] == "END" && capEndAt < 0 {
				capEndAt = i
			}
		}
		invited := 0
		for i, s := range steps {
			if s[0] != 'R' {
				continue
			}
			e := girc.ParseEvent(s[1:])
			if e == nil {
				continue
			}
			if e.Command == "AUTHENTICATE" {
				invited++
			}
			if e.Command == "903" && successAt < 0 {
				successAt = i
			}
			if (e.Command == "902" || e.Command == "904" || e.Command == "905" || e.Command == "906" || e.Command == "908") && firstFailAt < 0 {
				firstFailAt = i
			}
		}
		// exact credential
		if sc.SASL == "plain" && invited == 1 && in["invite"] == "+" {
			want := base64.StdEncoding.EncodeToString([]byte(sc.SASLUser + "\x00" + sc.SASLUser + "\x00" + sc.SASLPass))
			got := strings.Join(chunks, "")
			if len(want)%400 == 0 {
				if len(chunks) == 0 || chunks[len(chunks)-1] != "+" {
					c.R.Violation("c09.lone_plus", hin, fmt.Sprintf("%d chunks", len(chunks)), "", "response length is a multiple of 400 but no lone '+' followed")
				} else {
					got = strings.Join(chunks[:len(chunks)-1], "")
				}
			}
			if got != want {
				c.R.Violation("c09.exact", hin, fmt.Sprintf("len=%d", len(got)), fmt.Sprintf("len=%d", len(want)), "concatenated AUTHENTICATE chunks differ from base64(user NUL user NUL pass)")
			}
			for _, ch := range chunks {
				if len(ch) > 400 {
					c.R.Violation("c09.chunk_size", hin, fmt.Sprint(len(ch)), "<=400", "an AUTHENTICATE chunk exceeds 400 bytes")
				}
			}
		}
		if in["customlen"] != "" {
			want := sc.SASL[len("custom:"):]
			pay := chunks
			if len(want)%400 == 0 {
				if len(chunks) == 0 || chunks[len(chunks)-1] != "+" {
					c.R.Violation("c09.lone_plus", hin, fmt.Sprintf("%d chunks, last %q", len(chunks), lastOf(chunks)), "+", "the last chunk is exactly 400 bytes but no lone '+' followed")
				} else {
					pay = chunks[:len(chunks)-1]
				}
			}
			if strings.Join(pay, "") != want {
				c.R.Violation("c09.exact", hin, fmt.Sprintf("len=%d", len(strings.Join(pay, ""))), fmt.Sprintf("len=%d", len(want)), "concatenated AUTHENTICATE chunks differ from the mechanism's response")
			}
		}
		// "once authentication has started, CAP END is sent only after the success numeric": judged step by step on what the
		// real client wrote in answer to each received line (further CAP ACK/NEW/DEL lines may arrive in between)
		if sc.SASL != "" {
			started := false
			for i := range steps {
				for _, l := range cmp.PerStep[i] {
					if strings.HasPrefix(l, "AUTHENTICATE ") {
						started = true
					}
					if started && l == "CAP END" && (successAt < 0 || i < successAt) {
						c.R.Violation("c09.cap_end_before_success", hin, fmt.Sprintf("step %d (%s): %v", i, steps[i], cmp.PerStep[i]), "", "CAP END was written after authentication had started and before the success numeric")
					}
				}
			}
		}
		// fail closed
		if sc.SASL != "" && in["authstarted"] == "1" {
			if capEndAt >= 0 && successAt < 0 {
				c.R.Violation("c09.cap_end_without_success", hin, fmt.Sprint(cmp.ImplW), "", "CAP END was sent although the success numeric never arrived")
			}
			if firstFailAt >= 0 && (successAt < 0 || firstFailAt < successAt) && !strings.HasPrefix(cmp.ImplEnd, "errevent:") {
				c.R.Violation("c09.fail_closed", hin, cmp.ImplEnd, "errevent", "a SASL failure numeric did not make Connect return an error")
			}
			if in["giveup"] == "1" && !strings.HasPrefix(cmp.ImplEnd, "errevent:") {
				c.R.Violation("c09.giveup", hin, cmp.ImplEnd, "errevent", "the mechanism gave up but Connect did not return an error")
			}
		}
		// secrets never reach the log writers
		secrets := []string{}
		add := func(s string) {
			if len(s) >= 6 {
				secrets = append(secrets, s, base64.StdEncoding.EncodeToString([]byte(s)))
			}
		}
		add(sc.SASLPass)
		add(sc.ServerPass)
		if len(sc.WebIRC) == 4 {
			add(sc.WebIRC[0])
		}
		add(in["operpass"])
		if sc.SASL == "plain" {
			full := base64.StdEncoding.EncodeToString([]byte(sc.SASLUser + "\x00" + sc.SASLUser + "\x00" + sc.SASLPass))
			if len(full) >= 12 {
				secrets = append(secrets, full[:12], full[len(full)-12:])
			}
		}
		for _, sec := range secrets {
			if strings.Contains(res.Debug, sec) {
				c.R.Violation("c09.secret_in_debug", hin, q(sec), "", "a secret (or its base64) appears in the Debug writer")
			}
			if strings.Contains(res.Out, sec) {
				c.R.Violation("c09.secret_in_out", hin, q(sec), "", "a secret (or its base64) appears in the Out writer")
			}
		}
	}

	sessionChecks["c14"] = func(c *Ctx, in, hin map[string]string, sc SessCfg, steps []string, cmp *SessCmp) {
		// every CTCP-looking NOTICE the client wrote must be attributable to a sourced PRIVMSG CTCP request that is not ACTION
		allowed := map[string]int{}
		pingTexts := map[string][]string{} // requester -> payloads of its PING requests
		for _, s := range steps {
			if s[0] != 'R' {
				continue
			}
			e := girc.ParseEvent(s[1:])
			if e == nil || e.Command != "PRIVMSG" || e.Source == nil {
				continue
			}
			if ok, ct := e.IsCTCP(); ok && ct.Command != "ACTION" {
				allowed[girc.ToRFC1459(e.Source.Name)]++
				if ct.Command == "PING" {
					pingTexts[girc.ToRFC1459(e.Source.Name)] = append(pingTexts[girc.ToRFC1459(e.Source.Name)], ct.Text)
				}
			}
		}
		for _, l := range cmp.ImplW {
			e := girc.ParseEvent(l)
			if e == nil {
				continue
			}
			if e.Command == "PRIVMSG" && strings.Contains(e.Last(), "\x01") {
				c.R.Violation("c14.reply_as_privmsg", hin, l, "", "an automatic CTCP answer was sent as PRIVMSG (reply loops possible)")
			}
			if e.Command == "NOTICE" && len(e.Params) == 2 && strings.HasPrefix(e.Params[1], "\x01") {
				if allowed[e.Params[0]] == 0 {
					c.R.Violation("c14.unsolicited_reply", hin, l, "", "automatic CTCP reply without a sourced PRIVMSG request from that nick")
				} else {
					allowed[e.Params[0]]--
				}
				// a PING answer carries back the requester's OWN payload (nothing left over from somebody else's request)
				if body := strings.TrimSuffix(strings.TrimPrefix(e.Params[1], "\x01"), "\x01"); body == "PING" || strings.HasPrefix(body, "PING ") {
					payload := strings.TrimPrefix(strings.TrimPrefix(body, "PING"), " ")
					found := false
					for _, t := range pingTexts[e.Params[0]] {
						if t == payload {
							found = true
						}
					}
					if !found {
						c.R.Violation("c14.ping_payload", hin, l, fmt.Sprintf("one of %q", pingTexts[e.Params[0]]), "the automatic PING answer does not carry the payload of a PING request from that nick")
					}
				}
			}
		}
	}

	sessionChecks["c03"] = func(c *Ctx, in, hin map[string]string, sc SessCfg, steps []string, cmp *SessCmp) {}
}

func runC09Protocol(c *Ctx) {
	r := c.R
	for _, pw := range []string{"S3cr3t!dropped", "hunter2 with spaces", "p\xe9ss"} {
		c.run("sensitivedropped", map[string]string{"pass": pw})
		for _, at := range []string{"pass", "sasl", "oper", "webirc"} {
			c.run("sensitivefault", map[string]string{"pass": pw, "at": at})
		}
	}
	c.run("saslreconnect", map[string]string{"scenario": "link drops after the first of three chunks; reconnect"})
	for _, oc := range []string{"ok", "fail"} {
		for _, nt := range []string{"0", "1"} {
			c.run("sasllate", map[string]string{"outcome": oc, "notrack": nt})
		}
	}
	for i := 0; i < 120*c.Scale; i++ {
		in := map[string]string{"nick": "me", "check": "c09", "nosts": "1"}
		// choose the password length so that the base64 response lands on / next to a multiple of 400
		target := []int{20, 100, 396, 400, 404, 796, 800, 804, 1196, 1200, 1204, 1600, 2000, 2800}[c.Rng.Intn(14)]
		user := c.Rng.Pick([]string{"user", "u", "account\xe9"})
		raw := target/4*3 - c.Rng.Intn(3)
		n := raw - (2*len(user) + 2 + 7)
		if n < 0 {
			n = 0
		}
		pass := "S3cr3t!" + c.Rng.From("abcdefghijklmnopqrstuvwxyz0123456789+/=", n)
		kind := c.Rng.Pick([]string{"plain", "plain", "plain", "external", "custom"})
		in["sasl"] = kind
		in["sasluser"], in["saslpass"] = user, pass
		if kind == "custom" {
			in["sasl"] = "custom:" + c.Rng.Pick([]string{"cmVzcG9uc2U=", "cmVzcG9uc2U=\x00c2Vjb25k", "", strings.Repeat("QUJD", 100), strings.Repeat("QUJD", 200) + "QQ=="})
			if in["sasl"] == "custom:" {
				in["giveup"] = "1"
			}
		}
		if c.Rng.Chance(30) {
			in["serverpass"] = "srvP4ssw0rd" + c.Rng.From("xyz", 4)
		}
		if c.Rng.Chance(20) {
			in["webirc"] = "w3birc-secret\x00gw\x00host\x001.2.3.4"
		}
		steps := []string{"R:srv CAP * LS :multi-prefix away-notify sasl=PLAIN,EXTERNAL", "R:srv CAP * ACK :multi-prefix sasl"}
		midAuth := ""
		switch c.Rng.Intn(5) {
		case 0: // the server acknowledges in two lines: the second ACK arrives after authentication has started
			steps = []string{"R:srv CAP * LS :multi-prefix away-notify sasl=PLAIN,EXTERNAL", "R:srv CAP * ACK :sasl", "R:srv CAP * ACK :multi-prefix away-notify"}
		case 1: // cap-notify traffic in the middle of the exchange
			midAuth = "R:srv CAP * " + c.Rng.Pick([]string{"ACK :away-notify", "NEW :account-tag", "DEL :multi-prefix", "NEW :sasl=PLAIN", "ACK :multi-prefix"})
		}
		in["authstarted"] = "1"
		inv := c.Rng.Pick([]string{"+", "+", "+", "+", "x", ""})
		in["invite"] = inv
		if inv != "+" && kind != "custom" {
			in["giveup"] = "1"
		}
		steps = append(steps, "RAUTHENTICATE "+inv)
		if midAuth != "" {
			steps = append(steps, midAuth)
		}
		switch c.Rng.Intn(7) {
		case 0, 1:
			steps = append(steps, "R:srv 900 me me!u@h acct :You are now logged in", "R:srv 903 me :SASL authentication successful")
		case 2:
			steps = append(steps, "R:srv "+c.Rng.Pick([]string{"904", "905", "906", "908", "902"})+" me :SASL authentication failed")
		case 3:
			steps = append(steps, "R:srv 908 me PLAIN,EXTERNAL :are available mechanisms", "R:srv 904 me :failed", "R:srv 903 me :late success")
		case 4:
			steps = append(steps, "R:srv 901 me me!u@h :You are now logged out")
		case 5:
			// numerics that say nothing about THIS exchange having succeeded: the registration does not go on before 903
			steps = append(steps, "R:srv "+c.Rng.Pick([]string{"907 me :You have already authenticated using SASL", "900 me me!u@h acct :You are now logged in as acct", "907 me :again"}))
			if c.Rng.Bool() {
				steps = append(steps, "R:srv 903 me :SASL authentication successful")
			}
		}
		steps = append(steps, "R:srv 001 me :Welcome")
		stepsToIn(in, steps)
		c.run("session", in)
		r.Count(fmt.Sprint(in), true, "sasl="+kind)
		r.Traces++
		if i < 1 {
			r.Sample(steps)
		}
	}
	// the chunk loop on exact response lengths (custom mechanism answering with L bytes)
	for _, L := range []int{1, 2, 399, 400, 401, 799, 800, 801, 1199, 1200, 1201, 1599, 1600, 1601, 2000, 2400} {
		resp := strings.Repeat("QUJD", L/4) + "QUJD"[:L%4]
		in := map[string]string{"nick": "me", "check": "c09", "nosts": "1", "sasl": "custom:" + resp, "authstarted": "1", "invite": "+", "customlen": fmt.Sprint(L)}
		steps := []string{"R:srv CAP * LS :sasl", "R:srv CAP * ACK :sasl", "RAUTHENTICATE +", "R:srv 903 me :ok"}
		stepsToIn(in, steps)
		c.run("session", in)
		r.Count(fmt.Sprint("chunk-session", L), true, "chunk-lengths-session")
		r.Traces++
	}
	// OPER through the helper: the password must not be logged either
	for i := 0; i < 10*c.Scale; i++ {
		in := map[string]string{"nick": "me", "check": "c09", "operpass": "0perS3cret" + c.Rng.From("abc", 5)}
		steps := []string{"R:srv 001 me :Welcome", "COper\x00admin\x00" + in["operpass"]}
		stepsToIn(in, steps)
		c.run("session", in)
		r.Count(fmt.Sprint(in), true, "oper")
	}
}

func runC14Replies(c *Ctx) {
	r := c.R
	reqs := []string{"VERSION", "PING 12345", "PING", "PONG", "SOURCE", "TIME", "FINGER", "ACTION waves", "FOO", "FOO bar", "version", "Version", "VERSION extra text", "", " x", "CLIENTINFO", "ERRMSG x", "PING \x01", "\u00c9CHO hi", "ΡΙΝG 1", "ＶＥＲＳＩＯＮ", "P٣"}
	for i := 0; i < 150*c.Scale; i++ {
		in := map[string]string{"nick": "me", "check": "c14", "version": c.Rng.Pick([]string{"", "mybot 1.0"})}
		if c.Rng.Chance(35) {
			in["scribblers"] = "1" // user handlers that rewrite the event they were handed: the automatic answer still goes to the requester
		}
		steps := []string{"R:srv 001 me :Welcome"}
		if c.Rng.Bool() {
			steps = append(steps, "R:me!u@h JOIN #a", "R:srv CAP * ACK :echo-message")
		}
		for k := 1 + c.Rng.Intn(4); k > 0; k-- {
			src := c.Rng.Pick([]string{":bob!b@h ", ":Bob[1]!b@h ", ":srv.example.org ", "", ":me!u@h ", ":x@y "})
			cmd := c.Rng.Pick([]string{"PRIVMSG", "PRIVMSG", "PRIVMSG", "NOTICE"})
			tgt := c.Rng.Pick([]string{"me", "#a", "ME"})
			body := "\x01" + c.Rng.Pick(reqs) + "\x01"
			if c.Rng.Chance(20) {
				body = c.Rng.Pick([]string{"\x01VERSION", "VERSION\x01", "\x01\x01", "\x01", "x\x01VERSION\x01", "\x01VERSION\x01 ", "\x01FOOBAR\x01\t", " \x01PING 1\x01", "\x01TIME\x01  "})
			}
			steps = append(steps, "R"+src+cmd+" "+tgt+" :"+body)
		}
		stepsToIn(in, steps)
		c.run("session", in)
		r.Count(fmt.Sprint(in), true, "replies")
		r.Traces++
	}
}

// the same CTCP payload arriving several times in a row under different commands / from different senders: each message is
// judged on its own (a request is answered, the identical text as a NOTICE is not; the answer goes to THAT message's sender)
func runC14Repeats(c *Ctx) {
	for _, req := range []string{"PING 42", "VERSION", "TIME", "FOO bar", "SOURCE"} {
		for _, order := range [][]string{{"PRIVMSG", "NOTICE", "PRIVMSG"}, {"NOTICE", "PRIVMSG", "NOTICE"}, {"PRIVMSG", "PRIVMSG", "NOTICE", "NOTICE"}} {
			in := map[string]string{"nick": "me", "check": "c14", "version": "mybot 1.0"}
			steps := []string{"R:srv 001 me :Welcome"}
			for i, cmd := range order {
				src := []string{":bob!b@h ", ":carl!c@h ", ":bob!b@h "}[i%3]
				steps = append(steps, "R"+src+cmd+" me :\x01"+req+"\x01")
			}
			stepsToIn(in, steps)
			c.run("session", in)
			c.R.Count(fmt.Sprint(in), true, "replies-repeated-payload")
			c.R.Traces++
		}
	}
}

func runC03Helpers(c *Ctx) {
	r := c.R
	nasty := []string{"x", "a b", "evil\r\nQUIT :pwned", "a\nJOIN #x", "a\rb", "\r\n", "nul\x00byte", "bad\xffutf8", ":colon", "", " ", "#chan\r\nPRIVMSG #other :hi", "tab\there",
		// longer than a line: whatever the client does with it, it is ONE CRLF-terminated line per event
		strings.Repeat("x", 505), strings.Repeat("y", 520), strings.Repeat("long text ", 70), strings.Repeat("z", 3000) + "\r\nQUIT :late", strings.Repeat("é", 300)}
	helpers := map[string][]string{
		"Message": {"PRIVMSG"}, "Notice": {"NOTICE"}, "Action": {"PRIVMSG"}, "Topic": {"TOPIC"}, "Kick": {"KICK"}, "Part": {"PART"}, "PartMessage": {"PART"},
		"Join": {"JOIN"}, "JoinKey": {"JOIN"}, "Nick": {"NICK"}, "Mode": {"MODE"}, "Ban": {"MODE"}, "Invite": {"INVITE"}, "Away": {"AWAY"}, "Who": {"WHO"}, "Whois": {"WHOIS"},
		"Whowas": {"WHOWAS"}, "Oper": {"OPER"}, "List": {"LIST"}, "Ping": {"PING"}, "Pong": {"PONG"}, "Monitor": {"MONITOR"}, "SendCTCP": {"PRIVMSG"}, "SendCTCPReply": {"NOTICE"}, "SendEvent": nil, "SendRaw": {"PRIVMSG"},
	}
	var names []string
	for k := range helpers {
		names = append(names, k)
	}
	sortStrings(names)
	for i := 0; i < 150*c.Scale; i++ {
		h := names[c.Rng.Intn(len(names))]
		var args []string
		for k := 1 + c.Rng.Intn(3); k > 0; k-- {
			args = append(args, c.Rng.Pick(nasty))
		}
		if h == "SendEvent" {
			args[0] = c.Rng.Pick([]string{"PRIVMSG", "FOO", "KICK"})
		}
		if h == "SendCTCP" || h == "SendCTCPReply" {
			args = append([]string{c.Rng.Pick(nasty), "VERSION"}, args...)
		}
		if h == "SendRaw" {
			// one raw line per argument, as SendRawf("PRIVMSG %s :%s", target, untrusted) builds it
			for j := range args {
				args[j] = "PRIVMSG #t :" + args[j]
			}
		}
		s := &Session{Cfg: SessCfg{Nick: "me", User: "me", AllowFlood: true}, Steps: []Step{
			{Op: "recv", Arg: ":srv 001 me :Welcome"}, {Op: "barrier"}, {Op: "call", Arg: h, Args: args}, {Op: "sleep"}, {Op: "barrier"}}}
		res := c.RunSession(s)
		in := map[string]string{"helper": h, "nargs": fmt.Sprint(len(args))}
		for j, a := range args {
			in[fmt.Sprintf("a%d", j)] = a
		}
		hin := hexIn(in)
		if res.Crashed || res.Wedged {
			c.R.Violation("c03.helper_crash", hin, firstLine(res.CrashOut), "", "command helper crashed or wedged the client")
			continue
		}
		allowed := helpers[h]
		if h == "SendEvent" {
			allowed = []string{args[0]}
		}
		for _, l := range res.Written[3:] {
			cmd := strings.SplitN(l, " ", 2)[0]
			if strings.ContainsAny(l, "\r\n") {
				c.R.Violation("c03.helper_crlf", hin, q(l), "", "a written line contains CR or LF")
			}
			ok := false
			for _, a := range allowed {
				if a == cmd {
					ok = true
				}
			}
			if !ok {
				c.R.Violation("c03.helper_injection", hin, q(l), fmt.Sprint(allowed), "the server received a line whose command is not the helper's: text injected a command")
			}
		}
		r.Count(fmt.Sprint(in), strings.ContainsAny(strings.Join(args, ""), "\r\n\x00\xff"), "helper:"+h)
		r.Traces++
	}
}

func init() {
	sessionChecks["c11"] = func(c *Ctx, in, hin map[string]string, sc SessCfg, steps []string, cmp *SessCmp) {
		// "MaxEventLength is the server's advertised line length (512 by default) minus CRLF and the prefix estimate":
		// after every 005, the line length in use (hook dump: maxline) is the advertised LINELEN - 2, or 510
		if !sc.DisableTracking {
			opts := map[string]string{}
			wantLine := 510
			di := 0
			for _, st := range steps {
				if st == "D" {
					if di < len(cmp.ImplDump) {
						for _, l := range cmp.ImplDump[di] {
							if strings.HasPrefix(l, "maxline=") && l != fmt.Sprintf("maxline=%d", wantLine) {
								c.R.Violation("c11.linelen", hin, l, fmt.Sprintf("maxline=%d", wantLine), "the line length in use is not the server's advertised line length minus CRLF")
							}
						}
					}
					di++
					continue
				}
				if st[0] != 'R' {
					continue
				}
				e := girc.ParseEvent(st[1:])
				if e == nil || e.Command != "005" || len(e.Params) < 2 || !strings.HasSuffix(e.Last(), "this server") {
					continue
				}
				for _, tok := range e.Params[1 : len(e.Params)-1] {
					j := strings.IndexByte(tok, '=')
					if j < 1 || j+1 == len(tok) {
						opts[tok] = ""
					} else {
						opts[tok[:j]] = tok[j+1:]
					}
				}
				if v, err := strconv.Atoi(opts["LINELEN"]); err == nil {
					wantLine = v - 2
				}
			}
		}
		// MaxEventLength = advertised line length (512 default) - CRLF - (4 + nick + user + host estimates)
		maxlen := 395
		for _, d := range cmp.Res.Getters {
			for _, l := range d {
				if strings.HasPrefix(l, "maxlen=") {
					fmt.Sscan(l[len("maxlen="):], &maxlen)
				}
			}
		}
		var given []string
		var texts []string
		for _, st := range steps {
			if st[0] != 'C' {
				continue
			}
			f := strings.Split(st[1:], "\x00")
			switch f[0] {
			case "Join", "List":
				given = append(given, f[1:]...)
			case "Message", "Notice", "Action":
				texts = append(texts, f[2])
			}
		}
		var sent []string
		for _, l := range cmp.ImplW {
			e := girc.ParseEvent(l)
			if e == nil {
				continue
			}
			if (e.Command == "JOIN" || e.Command == "LIST") && len(e.Params) == 1 {
				names := strings.Split(e.Params[0], ",")
				sent = append(sent, names...)
				if len(l) > maxlen && len(names) > 1 {
					c.R.Violation("c11.join_fits", hin, fmt.Sprintf("%d bytes", len(l)), fmt.Sprint(maxlen), "a JOIN/LIST line with several channels exceeds MaxEventLength")
				}
			}
			if (e.Command == "PRIVMSG" || e.Command == "NOTICE") && len(e.Params) == 2 && !strings.HasPrefix(e.Params[1], "\x01VERSION") {
				if len(l) > maxlen && maxlen > 60 && sc.GlobalFormat == false && !hasCodes(l) {
					c.R.Violation("c11.line_fits", hin, fmt.Sprintf("%d bytes", len(l)), fmt.Sprint(maxlen), "a PRIVMSG/NOTICE line exceeds MaxEventLength")
				}
				if e.Params[1] == "" {
					c.R.Violation("c11.empty_piece", hin, l, "", "an empty message piece was sent")
				}
			}
		}
		if fmt.Sprint(sent) != fmt.Sprint(given) && len(given) > 0 {
			c.R.Violation("c11.join_all_once", hin, fmt.Sprintf("%d sent", len(sent)), fmt.Sprintf("%d given", len(given)), "Join/List did not send every given channel exactly once in order")
		}
	}
}
