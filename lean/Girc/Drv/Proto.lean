import Girc.Base.Bytes
/- Line protocol helpers for the driver (core only). -/
namespace Girc.Drv
open Girc

def hx (b : Bytes) : String := if b.isEmpty then "_" else Bytes.toHex b
def bl (b : Bool) : String := if b then "1" else "0"
def optHx : Option Bytes → String
  | none => "-"
  | some b => hx b
def listHx (l : List Bytes) : String := "[" ++ ",".intercalate (l.map hx) ++ "]"
def optNat : Option Nat → String
  | none => "-1"
  | some n => toString n

/-- decode one argument: "_" is the empty string, otherwise hex. -/
def arg (s : String) : Option Bytes := if s = "_" then some [] else Bytes.ofHex s

/-- An argument that is a list of byte strings: "[h1,h2,...]" -/
def argList (s : String) : Option (List Bytes) :=
  if s = "[]" then some []
  else if s.startsWith "[" && s.endsWith "]" then
    let inner := (s.drop 1).dropEnd 1
    (inner.toString.splitOn ",").mapM arg
  else none

end Girc.Drv
