import Girc.Base.GoLib
import Girc.Base.GoSem
/- Model of cap_sasl.go: SASL PLAIN/EXTERNAL encoders, base64.StdEncoding, the AUTHENTICATE chunk loop. -/
namespace Girc.Model
open Girc

def saslChunkSize : Nat := 400

-- `b64Char` and `b64Encode` are declared in Girc/Base/GoSem.lean (stdlib table entry of the translator).

def b64Val (c : Byte) : Option Nat :=
  if 0x41 ≤ c && c ≤ 0x5A then some (c.toNat - 0x41)
  else if 0x61 ≤ c && c ≤ 0x7A then some (c.toNat - 0x61 + 26)
  else if 0x30 ≤ c && c ≤ 0x39 then some (c.toNat - 0x30 + 52)
  else if c = 0x2B then some 62
  else if c = 0x2F then some 63
  else none

/-- Reference decoder (RFC 4648), used to state that the encoder loses nothing. -/
def b64Decode : Bytes → Option Bytes
  | [] => some []
  | [a, b, 0x3D, 0x3D] => do
    let x ← b64Val a; let y ← b64Val b
    pure [UInt8.ofNat ((x * 64 + y) / 16)]
  | [a, b, c, 0x3D] => do
    let x ← b64Val a; let y ← b64Val b; let z ← b64Val c
    let n := (x * 64 + y) * 64 + z
    pure [UInt8.ofNat (n / 1024), UInt8.ofNat (n / 4 % 256)]
  | a :: b :: c :: d :: rest => do
    let x ← b64Val a; let y ← b64Val b; let z ← b64Val c; let w ← b64Val d
    let n := ((x * 64 + y) * 64 + z) * 64 + w
    let r ← b64Decode rest
    pure (UInt8.ofNat (n / 65536) :: UInt8.ofNat (n / 256 % 256) :: UInt8.ofNat (n % 256) :: r)
  | _ => none

def PLUS : Bytes := [0x2B]

/-- `SASLPlain.Encode`. -/
def saslPlainEncode (user pass : Bytes) (params : List Bytes) : Bytes :=
  if params ≠ [PLUS] then []
  else b64Encode (user ++ [0x00] ++ user ++ [0x00] ++ pass)

/-- `SASLExternal.Encode`. -/
def saslExternalEncode (identity : Bytes) (params : List Bytes) : Bytes :=
  if params ≠ [PLUS] then []
  else if identity ≠ [] then identity else PLUS

/-- The chunk loop of `handleSASL`: the parameters of the AUTHENTICATE events written, in order. -/
def saslChunksFuel : Nat → Bytes → List Bytes
  | 0, _ => []
  | n + 1, auth =>
    if auth.length > saslChunkSize then auth.take saslChunkSize :: saslChunksFuel n (auth.drop saslChunkSize)
    else if auth.length = 400 then [auth, PLUS] else [auth]

def saslChunks (auth : Bytes) : List Bytes := saslChunksFuel (auth.length + 1) auth

end Girc.Model
