import Girc.Model.Heap
import Girc.Gen.Facts
/-
  C13 — state getters return isolated snapshots. Property theorems only.
  Trusted (Go semantics): code can write only through references it holds; allocation returns a
  location no live object refers to. The theorems: with the copy facts of the current source every
  reference-typed field of a snapshot is freshly allocated, hence (a) writing through ANY reference of
  the snapshot never changes what a tracked object means, and (b) writing through any reference that
  existed when the snapshot was taken (or was allocated later) never changes what the snapshot means.
-/
namespace Girc.Props.C13
open Girc Girc.Model

/-! ### Tie to the source -/

/-- The reference-typed fields of the four types are exactly these (a new slice/map/pointer field
    would change the regenerated field list and break this obligation). -/
theorem gen_user_ref_fields : (Gen.fields_User.filter (fun f => f.2 != [0x76, 0x61, 0x6C, 0x75, 0x65])).map (·.1) =
    [[0x43, 0x68, 0x61, 0x6E, 0x6E, 0x65, 0x6C, 0x4C, 0x69, 0x73, 0x74], [0x50, 0x65, 0x72, 0x6D, 0x73]] := by decide
theorem gen_channel_ref_fields : (Gen.fields_Channel.filter (fun f => f.2 != [0x76, 0x61, 0x6C, 0x75, 0x65])).map (·.1) =
    [[0x55, 0x73, 0x65, 0x72, 0x4C, 0x69, 0x73, 0x74], [0x4D, 0x6F, 0x64, 0x65, 0x73]] := by decide
theorem gen_cmodes_ref_fields : (Gen.fields_CModes.filter (fun f => f.2 != [0x76, 0x61, 0x6C, 0x75, 0x65])).map (·.1) =
    [[0x6D, 0x6F, 0x64, 0x65, 0x73]] := by decide
theorem gen_userperms_ref_fields : (Gen.fields_UserPerms.filter (fun f => f.2 != [0x76, 0x61, 0x6C, 0x75, 0x65])).map (·.1) =
    [[0x63, 0x68, 0x61, 0x6E, 0x6E, 0x65, 0x6C, 0x73]] := by decide
/-- Every one of them is assigned a fresh allocation (`make(…)` or a nested `.Copy()`) in the Copy methods. -/
theorem gen_copy_user_fresh : Gen.copyFresh_User = [[0x43, 0x68, 0x61, 0x6E, 0x6E, 0x65, 0x6C, 0x4C, 0x69, 0x73, 0x74], [0x50, 0x65, 0x72, 0x6D, 0x73]] := by decide
theorem gen_copy_channel_fresh : Gen.copyFresh_Channel = [[0x4D, 0x6F, 0x64, 0x65, 0x73], [0x55, 0x73, 0x65, 0x72, 0x4C, 0x69, 0x73, 0x74]] := by decide
theorem gen_copy_cmodes_fresh : Gen.copyFresh_CModes = [[0x6D, 0x6F, 0x64, 0x65, 0x73]] := by decide
theorem gen_copy_userperms_fresh : Gen.copyFresh_UserPerms = [[0x63, 0x68, 0x61, 0x6E, 0x6E, 0x65, 0x6C, 0x73]] := by decide
/-- The four getters return `.Copy()` of what they look up. -/
theorem gen_getters_copy : Gen.getterCopies.all (·.2) = true ∧ Gen.getterCopies.length = 4 := by decide

/-! ### The copy is faithful and does not disturb the original -/

theorem copyUser_abs (f1 f2 : Bool) (h : Heap) (u : UserObj) (hb : u.below h.next) :
    (copyUser f1 f2 h u).2.abs (copyUser f1 f2 h u).1 = u.abs h ∧ u.abs (copyUser f1 f2 h u).1 = u.abs h := by
  obtain ⟨h1, h2⟩ := hb
  cases f1 <;> cases f2 <;>
    simp [copyUser, UserObj.abs, List.take_take] <;> (try constructor) <;>
    (try simp [Nat.ne_of_lt h1]) <;> omega

theorem copyChannel_abs (f1 f2 : Bool) (h : Heap) (c : ChanObj) (hb : c.below h.next) :
    (copyChannel f1 f2 h c).2.abs (copyChannel f1 f2 h c).1 = c.abs h ∧ c.abs (copyChannel f1 f2 h c).1 = c.abs h := by
  obtain ⟨h1, h2⟩ := hb
  cases f1 <;> cases f2 <;>
    simp [copyChannel, ChanObj.abs, List.take_take] <;> (try constructor) <;>
    (try simp [Nat.ne_of_lt h1, Nat.ne_of_lt h2, Nat.ne_of_lt (Nat.lt_succ_of_lt h2)]) <;> omega

/-! ### Freshness: with the facts of the current source, no reference of the snapshot existed before -/

private theorem copyUser_tt_chanList (h : Heap) (u : UserObj) :
    (copyUser true true h u).2.chanList = h.next := rfl
private theorem copyUser_tt_perms (h : Heap) (u : UserObj) :
    (copyUser true true h u).2.perms = h.next + 1 := rfl
private theorem copyUser_tt_next (h : Heap) (u : UserObj) :
    (copyUser true true h u).1.next = h.next + 1 + 1 := rfl
private theorem copyChannel_tt_userList (h : Heap) (c : ChanObj) :
    (copyChannel true true h c).2.userList = h.next := rfl
private theorem copyChannel_tt_modeList (h : Heap) (c : ChanObj) :
    (copyChannel true true h c).2.modeList = h.next + 1 := rfl
private theorem copyChannel_tt_next (h : Heap) (c : ChanObj) :
    (copyChannel true true h c).1.next = h.next + 1 + 1 := rfl

theorem copyUser_fresh (h : Heap) (u : UserObj) :
    h.next ≤ (copyUser true true h u).2.chanList ∧ h.next ≤ (copyUser true true h u).2.perms ∧
    (copyUser true true h u).2.below (copyUser true true h u).1.next := by
  simp only [UserObj.below, copyUser_tt_chanList, copyUser_tt_perms, copyUser_tt_next]; unfold Loc at *; omega

theorem copyChannel_fresh (h : Heap) (c : ChanObj) :
    h.next ≤ (copyChannel true true h c).2.userList ∧ h.next ≤ (copyChannel true true h c).2.modeList ∧
    (copyChannel true true h c).2.below (copyChannel true true h c).1.next := by
  simp only [ChanObj.below, copyChannel_tt_userList, copyChannel_tt_modeList, copyChannel_tt_next]; unfold Loc at *; omega

/-! ### Frame: a write that does not go through a reference of the object cannot change it -/

theorem user_frame (h : Heap) (u : UserObj) (w : Write) (hw : ¬ u.owns w) : u.abs (h.write w) = u.abs h := by
  cases w with
  | str l v => simp only [UserObj.owns] at hw; simp [UserObj.abs, Heap.write, Ne.symm hw]
  | perm l v => simp only [UserObj.owns] at hw; simp [UserObj.abs, Heap.write, Ne.symm hw]
  | mode l v => simp [UserObj.abs, Heap.write]

theorem chan_frame (h : Heap) (c : ChanObj) (w : Write) (hw : ¬ c.owns w) : c.abs (h.write w) = c.abs h := by
  cases w with
  | str l v => simp only [ChanObj.owns] at hw; simp [ChanObj.abs, Heap.write, Ne.symm hw]
  | perm l v => simp [ChanObj.abs, Heap.write]
  | mode l v => simp only [ChanObj.owns] at hw; simp [ChanObj.abs, Heap.write, Ne.symm hw]

/-! ### Isolation, both directions, for every sequence of writes -/

/-- (a) Modifying the returned object — any field, element, map entry or mode, any number of
    times — never changes what a tracked user means (hence nothing a later getter returns). -/
theorem mutate_user_snapshot_frame (h : Heap) (u live : UserObj) (hl : live.below h.next) (ws : List Write)
    (hws : ∀ w ∈ ws, (copyUser true true h u).2.owns w) :
    live.abs (ws.foldl Heap.write (copyUser true true h u).1) = live.abs (copyUser true true h u).1 := by
  obtain ⟨hl1, hl2⟩ := hl
  have hf1 := copyUser_tt_chanList h u
  have hf2 := copyUser_tt_perms h u
  generalize (copyUser true true h u).2 = s at hws hf1 hf2
  generalize (copyUser true true h u).1 = h'
  induction ws generalizing h' with
  | nil => rfl
  | cons w rest ih =>
    simp only [List.foldl_cons]
    rw [ih (fun w' hw' => hws w' (List.mem_cons_of_mem _ hw')) (h'.write w)]
    apply user_frame
    have ho := hws w List.mem_cons_self
    intro hlo
    cases w with
    | str l v => simp only [UserObj.owns] at ho hlo; unfold Loc at *; omega
    | perm l v => simp only [UserObj.owns] at ho hlo; unfold Loc at *; omega
    | mode l v => exact ho

/-- (b) Later changes of the tracked state — writes through any reference that existed when the
    snapshot was taken, or was allocated afterwards — never alter the object already handed out. -/
theorem live_steps_user_snapshot_frame (h : Heap) (u : UserObj) (ws : List Write)
    (hws : ∀ w ∈ ws, ¬ (copyUser true true h u).2.owns w) :
    (copyUser true true h u).2.abs (ws.foldl Heap.write (copyUser true true h u).1) =
      (copyUser true true h u).2.abs (copyUser true true h u).1 := by
  generalize (copyUser true true h u).1 = h'
  induction ws generalizing h' with
  | nil => rfl
  | cons w rest ih =>
    simp only [List.foldl_cons]
    rw [ih (fun w' hw' => hws w' (List.mem_cons_of_mem _ hw')) (h'.write w)]
    exact user_frame _ _ _ (hws w List.mem_cons_self)

/-- Writes through references that existed before the copy do not go through the snapshot. -/
theorem old_refs_not_owned_user (h : Heap) (u : UserObj) (w : Write)
    (hold : match w with | .str l _ => l < h.next | .perm l _ => l < h.next | .mode l _ => l < h.next) :
    ¬ (copyUser true true h u).2.owns w := by
  have hf1 := copyUser_tt_chanList h u
  have hf2 := copyUser_tt_perms h u
  cases w with
  | str l v => simp only [UserObj.owns]; simp only at hold; unfold Loc at *; omega
  | perm l v => simp only [UserObj.owns]; simp only at hold; unfold Loc at *; omega
  | mode l v => simp [UserObj.owns]

theorem mutate_channel_snapshot_frame (h : Heap) (c live : ChanObj) (hl : live.below h.next) (ws : List Write)
    (hws : ∀ w ∈ ws, (copyChannel true true h c).2.owns w) :
    live.abs (ws.foldl Heap.write (copyChannel true true h c).1) = live.abs (copyChannel true true h c).1 := by
  obtain ⟨hl1, hl2⟩ := hl
  have hf1 := copyChannel_tt_userList h c
  have hf2 := copyChannel_tt_modeList h c
  generalize (copyChannel true true h c).2 = s at hws hf1 hf2
  generalize (copyChannel true true h c).1 = h'
  induction ws generalizing h' with
  | nil => rfl
  | cons w rest ih =>
    simp only [List.foldl_cons]
    rw [ih (fun w' hw' => hws w' (List.mem_cons_of_mem _ hw')) (h'.write w)]
    apply chan_frame
    have ho := hws w List.mem_cons_self
    intro hlo
    cases w with
    | str l v => simp only [ChanObj.owns] at ho hlo; unfold Loc at *; omega
    | perm l v => exact ho
    | mode l v => simp only [ChanObj.owns] at ho hlo; unfold Loc at *; omega

theorem live_steps_channel_snapshot_frame (h : Heap) (c : ChanObj) (ws : List Write)
    (hws : ∀ w ∈ ws, ¬ (copyChannel true true h c).2.owns w) :
    (copyChannel true true h c).2.abs (ws.foldl Heap.write (copyChannel true true h c).1) =
      (copyChannel true true h c).2.abs (copyChannel true true h c).1 := by
  generalize (copyChannel true true h c).1 = h'
  induction ws generalizing h' with
  | nil => rfl
  | cons w rest ih =>
    simp only [List.foldl_cons]
    rw [ih (fun w' hw' => hws w' (List.mem_cons_of_mem _ hw')) (h'.write w)]
    exact chan_frame _ _ _ (hws w List.mem_cons_self)

theorem old_refs_not_owned_channel (h : Heap) (c : ChanObj) (w : Write)
    (hold : match w with | .str l _ => l < h.next | .perm l _ => l < h.next | .mode l _ => l < h.next) :
    ¬ (copyChannel true true h c).2.owns w := by
  have hf1 := copyChannel_tt_userList h c
  have hf2 := copyChannel_tt_modeList h c
  cases w with
  | str l v => simp only [ChanObj.owns]; simp only at hold; unfold Loc at *; omega
  | perm l v => simp [ChanObj.owns]
  | mode l v => simp only [ChanObj.owns]; simp only at hold; unfold Loc at *; omega

/-! ### The facts matter: the repaired defect, on the model -/

def h0 : Heap := { strArr := fun l => if l = 0 then [[0x23, 0x61]] else [], next := 2 }
def u0 : UserObj := { nick := [0x6E], ident := [], host := [], name := [], account := [], away := [], chanList := 0, chanLen := 1, perms := 1 }
/-- With the header merely copied (the old `*nu = *u; copy(nu.ChannelList, u.ChannelList)`), a write
    through the snapshot changes the tracked user. -/
example : (u0.abs (((copyUser false true h0 u0).1).write (.str (copyUser false true h0 u0).2.chanList [[0x58]]))).chans ≠ (u0.abs h0).chans := by
  decide
/-- With a fresh allocation it does not. -/
example : (u0.abs (((copyUser true true h0 u0).1).write (.str (copyUser true true h0 u0).2.chanList [[0x58]]))).chans = (u0.abs h0).chans := by
  decide

end Girc.Props.C13
