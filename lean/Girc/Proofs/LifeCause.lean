import Girc.Model.Lifecycle
import Girc.Proofs.LifeInv
/-
  C07 helper: "a connection ends only for a reason". The group context is cancelled only after a
  terminating cause has occurred; the causes are recorded by history variables that no step reads.
-/
namespace Girc.Proofs.Life
open Girc Girc.Model.Life

/-- A terminating cause has occurred in the history of `s`: Close() was called or a QUIT was written,
    the peer closed the connection, an ERROR was delivered to handlers, a malformed line was read,
    the ping loop timed out, or a socket write failed. -/
def HasCause (s : LState) : Prop :=
  s.closeRequested = true ∨ s.peerClosed = true ∨ firstError s.delivered ≠ none ∨
  s.parseErrSeen = true ∨ s.pingTimedOut = true ∨ s.writeFailed = true

theorem firstError_append_ne_none (a b : List Ev) (h : firstError a ≠ none) : firstError (a ++ b) ≠ none := by
  rw [firstError_append]
  cases hx : firstError a with
  | none => exact absurd hx h
  | some x => simp

theorem firstError_snoc_error (a : List Ev) (e : Ev) (h : e.isError = true) : firstError (a ++ [e]) ≠ none := by
  rw [firstError_append]
  cases hx : firstError a with
  | none => simp [firstError, h]
  | some x => simp

/-- Causes are never forgotten: `delivered` only grows, the flags are only ever set. -/
theorem HasCause.mono {s s' : LState} (x : List Ev) (h : HasCause s)
    (h1 : s.closeRequested = true → s'.closeRequested = true) (h2 : s.peerClosed = true → s'.peerClosed = true)
    (h3 : s'.delivered = s.delivered ++ x) (h4 : s.parseErrSeen = true → s'.parseErrSeen = true)
    (h5 : s.pingTimedOut = true → s'.pingTimedOut = true) (h6 : s.writeFailed = true → s'.writeFailed = true) :
    HasCause s' := by
  rcases h with h | h | h | h | h | h
  · exact .inl (h1 h)
  · exact .inr (.inl (h2 h))
  · exact .inr (.inr (.inl (by rw [h3]; exact firstError_append_ne_none _ _ h)))
  · exact .inr (.inr (.inr (.inl (h4 h))))
  · exact .inr (.inr (.inr (.inr (.inl (h5 h)))))
  · exact .inr (.inr (.inr (.inr (.inr (h6 h)))))

/-- The cause invariant is inductive relative to `Good`. -/
theorem cause_step {s s' : LState} (a : Act) (g : Good s) (c : s.groupCancelled = true → HasCause s)
    (h : step s a = some s') : s'.groupCancelled = true → HasCause s' := by
  intro hc'
  have hsock := g.sock_eq
  have hmd := g.main_done
  have hegc := g.exec_gc
  cases a
  case execTake =>
    simp only [step] at h
    split at h
    · rename_i e rest hx hrx
      split at h <;> cases h
      · rename_i he
        exact .inr (.inr (.inl (firstError_snoc_error _ _ he)))
      · exact (c hc').mono [e] id id rfl id id id
    · cases h
  case execFlush =>
    simp only [step] at h
    split at h
    · split at h
      · rename_i hx hgc
        cases h
        refine (c hgc).mono s.rx ?_ ?_ ?_ ?_ ?_ ?_ <;> split <;> simp [LState.fail]
      · cases h
    · cases h
  all_goals
    simp only [step] at h
    (repeat' split at h)
    all_goals first
    | (cases h; done)
    | (cases h; simp_all [HasCause, LState.fail, afterTd]; try grind)

theorem cause_of_reach {s : LState} (h : Reach s) : s.groupCancelled = true → HasCause s := by
  induction h with
  | init rx tx cap pingOff => intro hc; simp [begin] at hc
  | step a hr hstep ih => exact cause_step a (good_of_reach hr) ih hstep

end Girc.Proofs.Life
