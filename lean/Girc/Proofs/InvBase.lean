import Girc.Spec.Inv
import Girc.Proofs.TagsAux
import Girc.Proofs.InvAMap
import Girc.Proofs.InvSort
/-
  Base library for the state invariant: association-list and sorted-list lemmas (InvAMap.lean,
  InvSort.lean), the lookup form `InvL` of the invariant, the invariant of the initial state, and
  preservation under attribute-only updates.
-/
namespace Girc.Proofs.InvBase
open Girc Girc.Model Girc.Spec

/-! ### Lookup form of the invariant

`InvL cs us` is `Inv` stated on the two maps with `AMap.get?` instead of list membership. Since keys
are duplicate-free the two coincide (`inv_iff_invL`); `get?` interacts with `set` / `erase` by plain
rewriting (`get?_set`, `get?_erase`), which makes `InvL` the convenient form for preservation proofs. -/

structure InvL (cs : AMap Channel) (us : AMap User) : Prop where
  chanKeys : (AMap.keys cs).Nodup
  userKeys : (AMap.keys us).Nodup
  chanKey : ∀ k ch, AMap.get? cs k = some ch → k = fold ch.name
  userKey : ∀ n u, AMap.get? us n = some u → n = fold u.nick
  chanToUser : ∀ k ch, AMap.get? cs k = some ch → ∀ n ∈ ch.users, ∃ u, AMap.get? us n = some u ∧ k ∈ u.chans
  userToChan : ∀ n u, AMap.get? us n = some u → ∀ k ∈ u.chans, ∃ ch, AMap.get? cs k = some ch ∧ n ∈ ch.users
  chanSorted : ∀ k ch, AMap.get? cs k = some ch → sortedStrict ch.users = true ∧ folded ch.users = true
  userSorted : ∀ n u, AMap.get? us n = some u → sortedStrict u.chans = true ∧ folded u.chans = true
  userHasChan : ∀ n u, AMap.get? us n = some u → u.chans ≠ []

theorem _root_.Girc.Spec.Inv.toInvL {st : St} (h : Inv st) : InvL st.channels st.users := by
  have mc := fun k ch => mem_iff_get? h.chanKeys k ch
  have mu := fun n u => mem_iff_get? h.userKeys n u
  exact {
    chanKeys := h.chanKeys
    userKeys := h.userKeys
    chanKey := fun k ch hk => h.chanKey k ch ((mc k ch).mpr hk)
    userKey := fun n u hn => h.userKey n u ((mu n u).mpr hn)
    chanToUser := fun k ch hk n hn => by
      obtain ⟨u, hu, hku⟩ := h.chanToUser k ch ((mc k ch).mpr hk) n hn
      exact ⟨u, (mu n u).mp hu, hku⟩
    userToChan := fun n u hn k hk => by
      obtain ⟨ch, hch, hnc⟩ := h.userToChan n u ((mu n u).mpr hn) k hk
      exact ⟨ch, (mc k ch).mp hch, hnc⟩
    chanSorted := fun k ch hk => h.chanSorted k ch ((mc k ch).mpr hk)
    userSorted := fun n u hn => h.userSorted n u ((mu n u).mpr hn)
    userHasChan := fun n u hn => h.userHasChan n u ((mu n u).mpr hn) }

/-- Constructor-style lemma: rebuild `Inv` for any state from the lookup form on its two maps. -/
theorem inv_of_invL {st : St} (h : InvL st.channels st.users) : Inv st := by
  have mc := fun k ch => mem_iff_get? h.chanKeys k ch
  have mu := fun n u => mem_iff_get? h.userKeys n u
  exact {
    chanKeys := h.chanKeys
    userKeys := h.userKeys
    chanKey := fun k ch hk => h.chanKey k ch ((mc k ch).mp hk)
    userKey := fun n u hn => h.userKey n u ((mu n u).mp hn)
    chanToUser := fun k ch hk n hn => by
      obtain ⟨u, hu, hku⟩ := h.chanToUser k ch ((mc k ch).mp hk) n hn
      exact ⟨u, (mu n u).mpr hu, hku⟩
    userToChan := fun n u hn k hk => by
      obtain ⟨ch, hch, hnc⟩ := h.userToChan n u ((mu n u).mp hn) k hk
      exact ⟨ch, (mc k ch).mpr hch, hnc⟩
    chanSorted := fun k ch hk => h.chanSorted k ch ((mc k ch).mp hk)
    userSorted := fun n u hn => h.userSorted n u ((mu n u).mp hn)
    userHasChan := fun n u hn => h.userHasChan n u ((mu n u).mp hn) }

theorem inv_iff_invL (st : St) : Inv st ↔ InvL st.channels st.users := ⟨Inv.toInvL, inv_of_invL⟩

/-- Rebuild `Inv` after changing both maps (all other fields arbitrary). -/
theorem inv_of_invL_maps {st : St} {cs : AMap Channel} {us : AMap User} (h : InvL cs us)
    (hc : st.channels = cs) (hu : st.users = us) : Inv st := by
  subst hc; subst hu; exact inv_of_invL h

theorem inv_with_maps (st : St) {cs : AMap Channel} {us : AMap User} (h : InvL cs us) :
    Inv { st with channels := cs, users := us } := inv_of_invL h

/-! ### Projections in convenient forms -/

theorem lookupUser_eq (st : St) (n : Bytes) : st.lookupUser n = AMap.get? st.users (fold n) := rfl
theorem lookupChannel_eq (st : St) (k : Bytes) : st.lookupChannel k = AMap.get? st.channels (fold k) := rfl

theorem _root_.Girc.Spec.Inv.get?_user_iff {st : St} (h : Inv st) (n : Bytes) (u : User) :
    AMap.get? st.users n = some u ↔ (n, u) ∈ st.users := (mem_iff_get? h.userKeys n u).symm

theorem _root_.Girc.Spec.Inv.get?_channel_iff {st : St} (h : Inv st) (k : Bytes) (c : Channel) :
    AMap.get? st.channels k = some c ↔ (k, c) ∈ st.channels := (mem_iff_get? h.chanKeys k c).symm

theorem _root_.Girc.Spec.Inv.lookupUser_mem {st : St} (_h : Inv st) {n : Bytes} {u : User} (hl : st.lookupUser n = some u) :
    (fold n, u) ∈ st.users := get?_some_mem hl

theorem _root_.Girc.Spec.Inv.lookupChannel_mem {st : St} (_h : Inv st) {k : Bytes} {c : Channel} (hl : st.lookupChannel k = some c) :
    (fold k, c) ∈ st.channels := get?_some_mem hl

theorem _root_.Girc.Spec.Inv.lookupUser_nick {st : St} (h : Inv st) {n : Bytes} {u : User} (hl : st.lookupUser n = some u) :
    fold n = fold u.nick := h.userKey _ _ (h.lookupUser_mem hl)

theorem _root_.Girc.Spec.Inv.lookupChannel_name {st : St} (h : Inv st) {k : Bytes} {c : Channel} (hl : st.lookupChannel k = some c) :
    fold k = fold c.name := h.chanKey _ _ (h.lookupChannel_mem hl)

theorem _root_.Girc.Spec.Inv.lookupUser_chans_ne_nil {st : St} (h : Inv st) {n : Bytes} {u : User} (hl : st.lookupUser n = some u) :
    u.chans ≠ [] := h.userHasChan _ _ (h.lookupUser_mem hl)

theorem _root_.Girc.Spec.Inv.lookupUser_iff_mem {st : St} (h : Inv st) (n : Bytes) (u : User) :
    st.lookupUser n = some u ↔ (fold n, u) ∈ st.users := h.get?_user_iff (fold n) u

theorem _root_.Girc.Spec.Inv.lookupChannel_iff_mem {st : St} (h : Inv st) (k : Bytes) (c : Channel) :
    st.lookupChannel k = some c ↔ (fold k, c) ∈ st.channels := h.get?_channel_iff (fold k) c

/-- A user and a channel that both exist agree on membership. -/
theorem InvL.mem_users_iff_mem_chans {cs : AMap Channel} {us : AMap User} (h : InvL cs us)
    {k n : Bytes} {c : Channel} {u : User} (hc : AMap.get? cs k = some c) (hu : AMap.get? us n = some u) :
    n ∈ c.users ↔ k ∈ u.chans := by
  constructor
  · intro hn
    obtain ⟨u', hu', hk⟩ := h.chanToUser k c hc n hn
    rw [hu] at hu'; cases hu'; exact hk
  · intro hk
    obtain ⟨c', hc', hn⟩ := h.userToChan n u hu k hk
    rw [hc] at hc'; cases hc'; exact hn

theorem _root_.Girc.Spec.Inv.mem_users_iff_mem_chans {st : St} (h : Inv st) {k n : Bytes} {c : Channel} {u : User}
    (hc : (k, c) ∈ st.channels) (hu : (n, u) ∈ st.users) : n ∈ c.users ↔ k ∈ u.chans :=
  h.toInvL.mem_users_iff_mem_chans (mem_get? h.chanKeys hc) (mem_get? h.userKeys hu)

theorem InvL.chans_nodup {cs : AMap Channel} {us : AMap User} (h : InvL cs us) {n : Bytes} {u : User}
    (hu : AMap.get? us n = some u) : u.chans.Nodup := sortedStrict_nodup (h.userSorted n u hu).1

theorem InvL.users_nodup {cs : AMap Channel} {us : AMap User} (h : InvL cs us) {k : Bytes} {c : Channel}
    (hc : AMap.get? cs k = some c) : c.users.Nodup := sortedStrict_nodup (h.chanSorted k c hc).1

/-- Keys are folded. -/
theorem InvL.fold_userKey {cs : AMap Channel} {us : AMap User} (h : InvL cs us) {n : Bytes} {u : User}
    (hu : AMap.get? us n = some u) : fold n = n := by
  rw [h.userKey n u hu, fold_idem]

theorem InvL.fold_chanKey {cs : AMap Channel} {us : AMap User} (h : InvL cs us) {k : Bytes} {c : Channel}
    (hc : AMap.get? cs k = some c) : fold k = k := by
  rw [h.chanKey k c hc, fold_idem]

/-! ### The initial state, irrelevant fields, attribute-only updates -/

theorem invL_nil : InvL [] [] := by
  refine ⟨List.nodup_nil, List.nodup_nil, ?_, ?_, ?_, ?_, ?_, ?_, ?_⟩ <;> intro _ _ h <;> cases h

theorem inv_init : Inv ({} : St) := inv_of_invL invL_nil

/-- Fields outside the two maps do not matter. -/
theorem inv_of_maps_eq (st st' : St) (h : Inv st) (hc : st'.channels = st.channels) (hu : st'.users = st.users) :
    Inv st' := by
  apply inv_of_invL
  rw [hc, hu]
  exact h.toInvL

/-- Replacing a user by one with the same nick and channel list (lookup form). -/
theorem InvL.setUser_attrs {cs : AMap Channel} {us : AMap User} (h : InvL cs us) {n : Bytes} {u u' : User}
    (hm : AMap.get? us n = some u) (hn : u'.nick = u.nick) (hc : u'.chans = u.chans) :
    InvL cs (AMap.set us n u') := by
  have hget : ∀ x v, AMap.get? (AMap.set us n u') x = some v →
      ∃ w, AMap.get? us x = some w ∧ v.nick = w.nick ∧ v.chans = w.chans := by
    intro x v hx
    rw [get?_set] at hx
    by_cases e : x = n
    · rw [if_pos e] at hx; cases hx; subst e; exact ⟨u, hm, hn, hc⟩
    · rw [if_neg e] at hx; exact ⟨v, hx, rfl, rfl⟩
  have hget' : ∀ x w, AMap.get? us x = some w →
      ∃ v, AMap.get? (AMap.set us n u') x = some v ∧ v.nick = w.nick ∧ v.chans = w.chans := by
    intro x w hx
    rw [get?_set]
    by_cases e : x = n
    · rw [if_pos e]; subst e; rw [hm] at hx; cases hx; exact ⟨u', rfl, hn, hc⟩
    · rw [if_neg e]; exact ⟨w, hx, rfl, rfl⟩
  exact {
    chanKeys := h.chanKeys
    userKeys := keys_set_nodup h.userKeys n u'
    chanKey := h.chanKey
    userKey := fun x v hx => by
      obtain ⟨w, hw, e1, _⟩ := hget x v hx
      rw [e1]; exact h.userKey x w hw
    chanToUser := fun k ch hk x hx => by
      obtain ⟨w, hw, hkw⟩ := h.chanToUser k ch hk x hx
      obtain ⟨v, hv, _, e2⟩ := hget' x w hw
      exact ⟨v, hv, e2 ▸ hkw⟩
    userToChan := fun x v hx k hk => by
      obtain ⟨w, hw, _, e2⟩ := hget x v hx
      exact h.userToChan x w hw k (e2 ▸ hk)
    chanSorted := h.chanSorted
    userSorted := fun x v hx => by
      obtain ⟨w, hw, _, e2⟩ := hget x v hx
      rw [e2]; exact h.userSorted x w hw
    userHasChan := fun x v hx => by
      obtain ⟨w, hw, _, e2⟩ := hget x v hx
      rw [e2]; exact h.userHasChan x w hw }

/-- Replacing a channel by one with the same name and user list (lookup form). -/
theorem InvL.setChannel_attrs {cs : AMap Channel} {us : AMap User} (h : InvL cs us) {k : Bytes} {c c' : Channel}
    (hm : AMap.get? cs k = some c) (hn : c'.name = c.name) (hu : c'.users = c.users) :
    InvL (AMap.set cs k c') us := by
  have hget : ∀ x v, AMap.get? (AMap.set cs k c') x = some v →
      ∃ w, AMap.get? cs x = some w ∧ v.name = w.name ∧ v.users = w.users := by
    intro x v hx
    rw [get?_set] at hx
    by_cases e : x = k
    · rw [if_pos e] at hx; cases hx; subst e; exact ⟨c, hm, hn, hu⟩
    · rw [if_neg e] at hx; exact ⟨v, hx, rfl, rfl⟩
  have hget' : ∀ x w, AMap.get? cs x = some w →
      ∃ v, AMap.get? (AMap.set cs k c') x = some v ∧ v.name = w.name ∧ v.users = w.users := by
    intro x w hx
    rw [get?_set]
    by_cases e : x = k
    · rw [if_pos e]; subst e; rw [hm] at hx; cases hx; exact ⟨c', rfl, hn, hu⟩
    · rw [if_neg e]; exact ⟨w, hx, rfl, rfl⟩
  exact {
    chanKeys := keys_set_nodup h.chanKeys k c'
    userKeys := h.userKeys
    chanKey := fun x v hx => by
      obtain ⟨w, hw, e1, _⟩ := hget x v hx
      rw [e1]; exact h.chanKey x w hw
    userKey := h.userKey
    chanToUser := fun x v hx n hnv => by
      obtain ⟨w, hw, _, e2⟩ := hget x v hx
      exact h.chanToUser x w hw n (e2 ▸ hnv)
    userToChan := fun n u hnu x hx => by
      obtain ⟨w, hw, hnw⟩ := h.userToChan n u hnu x hx
      obtain ⟨v, hv, _, e2⟩ := hget' x w hw
      exact ⟨v, hv, e2 ▸ hnw⟩
    chanSorted := fun x v hx => by
      obtain ⟨w, hw, _, e2⟩ := hget x v hx
      rw [e2]; exact h.chanSorted x w hw
    userSorted := h.userSorted
    userHasChan := h.userHasChan }

/-- Replacing a user by one with the same nick and channel list preserves the invariant. -/
theorem inv_setUser_attrs (st : St) (n : Bytes) (u u' : User) (h : Inv st) (hm : (n, u) ∈ st.users)
    (hn : u'.nick = u.nick) (hc : u'.chans = u.chans) : Inv (setUser st n u') :=
  inv_of_invL (st := setUser st n u') (h.toInvL.setUser_attrs (mem_get? h.userKeys hm) hn hc)

/-- Replacing a channel by one with the same name and user list preserves the invariant. -/
theorem inv_setChannel_attrs (st : St) (k : Bytes) (c c' : Channel) (h : Inv st) (hm : (k, c) ∈ st.channels)
    (hn : c'.name = c.name) (hu : c'.users = c.users) : Inv (setChannel st k c') :=
  inv_of_invL (st := setChannel st k c') (h.toInvL.setChannel_attrs (mem_get? h.chanKeys hm) hn hu)

/-! ### The executable check -/

theorem nodupKeys_iff (l : List Bytes) : nodupKeys l = true ↔ l.Nodup := by
  induction l with
  | nil => simp [nodupKeys]
  | cons x xs ih => simp [nodupKeys, ih]

theorem userCheck_iff (us : AMap User) (n k : Bytes) :
    (match AMap.get? us n with | some u => u.chans.contains k | none => false) = true ↔
      ∃ u, AMap.get? us n = some u ∧ k ∈ u.chans := by
  cases AMap.get? us n with
  | none => simp
  | some u => simp

theorem chanCheck_iff (cs : AMap Channel) (k n : Bytes) :
    (match AMap.get? cs k with | some ch => ch.users.contains n | none => false) = true ↔
      ∃ ch, AMap.get? cs k = some ch ∧ n ∈ ch.users := by
  cases AMap.get? cs k with
  | none => simp
  | some ch => simp

/-- The executable check, unfolded into the lookup form. -/
theorem invB_iff_invL (st : St) : invB st = true ↔ InvL st.channels st.users := by
  unfold invB
  simp only [Bool.and_eq_true, List.all_eq_true, nodupKeys_iff, beq_iff_eq,
    Bool.not_eq_true', List.isEmpty_eq_false_iff]
  constructor
  · rintro ⟨⟨⟨hcn, hun⟩, hC⟩, hU⟩
    have mc := fun k ch => mem_iff_get? hcn k ch
    have mu := fun n u => mem_iff_get? hun n u
    exact {
      chanKeys := hcn
      userKeys := hun
      chanKey := fun k ch hk => (hC (k, ch) ((mc k ch).mpr hk)).1.1.1
      userKey := fun n u hn => (hU (n, u) ((mu n u).mpr hn)).1.1.1.1
      chanToUser := fun k ch hk n hn =>
        (userCheck_iff st.users n k).mp ((hC (k, ch) ((mc k ch).mpr hk)).2 n hn)
      userToChan := fun n u hn k hk =>
        (chanCheck_iff st.channels k n).mp ((hU (n, u) ((mu n u).mpr hn)).2 k hk)
      chanSorted := fun k ch hk => ⟨(hC (k, ch) ((mc k ch).mpr hk)).1.1.2, (hC (k, ch) ((mc k ch).mpr hk)).1.2⟩
      userSorted := fun n u hn =>
        ⟨(hU (n, u) ((mu n u).mpr hn)).1.1.1.2, (hU (n, u) ((mu n u).mpr hn)).1.1.2⟩
      userHasChan := fun n u hn => (hU (n, u) ((mu n u).mpr hn)).1.2 }
  · intro h
    refine ⟨⟨⟨h.chanKeys, h.userKeys⟩, ?_⟩, ?_⟩
    · rintro ⟨k, ch⟩ hm
      have hk := mem_get? h.chanKeys hm
      exact ⟨⟨⟨h.chanKey k ch hk, (h.chanSorted k ch hk).1⟩, (h.chanSorted k ch hk).2⟩,
        fun x hx => (userCheck_iff st.users x k).mpr (h.chanToUser k ch hk x hx)⟩
    · rintro ⟨n, u⟩ hm
      have hn := mem_get? h.userKeys hm
      exact ⟨⟨⟨⟨h.userKey n u hn, (h.userSorted n u hn).1⟩, (h.userSorted n u hn).2⟩, h.userHasChan n u hn⟩,
        fun x hx => (chanCheck_iff st.channels x n).mpr (h.userToChan n u hn x hx)⟩

/-- The executable check decides the invariant. -/
theorem invB_iff (st : St) : invB st = true ↔ Inv st :=
  (invB_iff_invL st).trans (inv_iff_invL st).symm

end Girc.Proofs.InvBase
