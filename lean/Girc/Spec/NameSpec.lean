import Girc.Base.Bytes
/-
  C15 specification: the documented grammars, written as ranges/sets
  independently of the Go conditions.

    nickname =  ( letter / special / "?" ) *( letter / digit / special / "-" )
    letter   =  0x41-0x5A / 0x61-0x7A ; digit = 0x30-0x39 ; special = 0x5B-0x60 / 0x7B-0x7D
    user     =  [ "~" ] alnum *( letter / digit / special / "-" / "." )
    channel  =  2..50 bytes; prefix in "!#&*~+"; "!" ⇒ ≥ 7 bytes and five (A-Z / 0-9);
                no NUL BEL CR LF SPACE "," ":" after the prefix
    fold     =  bytes 0x41..0x5E ↦ +0x20 (A-Z→a-z, [ \ ] ^ → { | } ~), everything else fixed
-/
namespace Girc.Spec

def inRange (lo hi c : Byte) : Bool := lo ≤ c && c ≤ hi

def isLetter (c : Byte) : Bool := inRange 0x41 0x5A c || inRange 0x61 0x7A c
def isDigit (c : Byte) : Bool := inRange 0x30 0x39 c
def isSpecial (c : Byte) : Bool := inRange 0x5B 0x60 c || inRange 0x7B 0x7D c
def isUpperOrDigit (c : Byte) : Bool := inRange 0x41 0x5A c || isDigit c

def nickFirst (c : Byte) : Bool := isLetter c || isSpecial c || c = 0x3F
def nickRest (c : Byte) : Bool := isLetter c || isDigit c || isSpecial c || c = 0x2D
def userFirst (c : Byte) : Bool := isLetter c || isDigit c
def userRest (c : Byte) : Bool := nickRest c || c = 0x2E
def chanPrefix (c : Byte) : Bool := [0x21, 0x23, 0x26, 0x2A, 0x7E, 0x2B].contains c
def chanBad (c : Byte) : Bool := [0x00, 0x07, 0x0D, 0x0A, 0x20, 0x2C, 0x3A].contains c

/-- A valid nick: non-empty, first byte in the first class, all others in the rest class. -/
def ValidNick : Bytes → Prop
  | [] => False
  | c :: rest => nickFirst c = true ∧ ∀ b ∈ rest, nickRest b = true

def ValidUserBody : Bytes → Prop
  | [] => False
  | c :: rest => userFirst c = true ∧ ∀ b ∈ rest, userRest b = true

/-- A valid user: optional `~`, then an alphanumeric byte, then rest-class bytes. -/
def ValidUser (s : Bytes) : Prop := ValidUserBody s ∨ ∃ t, s = 0x7E :: t ∧ ValidUserBody t

/-- A valid channel. -/
def ValidChannel (s : Bytes) : Prop :=
  2 ≤ s.length ∧ s.length ≤ 50 ∧
  match s with
  | [] => False
  | c :: rest => chanPrefix c = true ∧
    (c = 0x21 → 7 ≤ s.length ∧ ∀ b ∈ rest.take 5, isUpperOrDigit b = true) ∧
    ∀ b ∈ rest, chanBad b = false

/-- The fold table. -/
def fold1 (c : Byte) : Byte := if inRange 0x41 0x5E c then c + 0x20 else c

/-- Executable deciders used by the driver when searching for failing inputs
    (proved equivalent to the `Prop`s in Props/C15.lean). -/
def validNickB : Bytes → Bool
  | [] => false
  | c :: rest => nickFirst c && rest.all nickRest

def validUserB : Bytes → Bool
  | [] => false
  | [c] => userFirst c
  | c :: d :: rest =>
    (userFirst c && (d :: rest).all userRest) || (c = 0x7E && userFirst d && rest.all userRest)

def validChannelB (s : Bytes) : Bool :=
  decide (2 ≤ s.length) && decide (s.length ≤ 50) &&
  match s with
  | [] => false
  | c :: rest => chanPrefix c &&
      (c != 0x21 || (decide (7 ≤ s.length) && (rest.take 5).all isUpperOrDigit)) &&
      rest.all (fun b => !chanBad b)

end Girc.Spec
