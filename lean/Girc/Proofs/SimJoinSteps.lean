import Girc.Proofs.SimJoinCore
/-
  C04 proofs, part 3 (steps): one commuting lemma per reference operation
  (`ensureChan`, `ensureUser`, `addMember`, `updUser`, `setPerms`, own ident/host).
-/
namespace Girc.Proofs.SimJoin
open Girc Girc.Model Girc.Spec Girc.Proofs.InvBase

/-! ### Small facts about the implementation-side records -/

theorem newCModes_raw (a b : Bytes) : (newCModes a b).raw = a := by
  rcases h : splitN4 a with ⟨x, y, z, w⟩
  simp only [newCModes, h]

theorem newCModes_prefixes (a b : Bytes) : (newCModes a b).prefixes = b := by
  rcases h : splitN4 a with ⟨x, y, z, w⟩
  simp only [newCModes, h]

theorem newCModes_modes (a b : Bytes) : (newCModes a b).modes = [] := by
  rcases h : splitN4 a with ⟨x, y, z, w⟩
  simp only [newCModes, h]

theorem modesWF_newCModes (a b : Bytes) : modesWF (newCModes a b) := by
  unfold modesWF
  refine ⟨?_, ?_⟩
  · intro x hx
    rw [newCModes_modes] at hx
    cases hx
  · rw [newCModes_raw]
    rcases h : splitN4 a with ⟨x, y, z, w⟩
    simp only [newCModes, h]

theorem chanModes_eq {st : St} {r : Ref} (h : SimW st r) : st.chanModes = r.chanmodesOpt := by
  unfold St.chanModes Ref.chanmodesOpt
  rw [h.opts]
  rfl

theorem userPrefixes_eq {st : St} {r : Ref} (h : SimW st r) : st.userPrefixes = r.prefixOpt := by
  unfold St.userPrefixes Ref.prefixOpt
  rw [h.opts]
  rfl

theorem chanView_addUser (c : Channel) (x : Bytes) : chanView (c.addUser x) = chanView c := by
  unfold Channel.addUser; split <;> rfl

theorem addUser_modes (c : Channel) (x : Bytes) : (c.addUser x).modes = c.modes := by
  unfold Channel.addUser; split <;> rfl

theorem userView_addChannel (u : User) (x : Bytes) : userView (u.addChannel x) = userView u := by
  unfold User.addChannel; split <;> rfl

theorem addChannel_perms_get (u : User) (b x : Bytes) :
    AMap.get? (u.addChannel b).perms x =
      if fold b ∈ u.chans then AMap.get? u.perms x
      else if x = fold b then some {} else AMap.get? u.perms x := by
  unfold User.addChannel User.inChannel
  split
  · rename_i hc
    rw [if_pos ((list_contains_iff_mem _ _).mp hc)]
  · rename_i hc
    have hm : fold b ∉ u.chans := fun hm => hc ((list_contains_iff_mem _ _).mpr hm)
    rw [if_neg hm]
    exact get?_set _ _ _ _

/-! ### `ensureChan` -/

theorem simW_ensureChan {st : St} {r : Ref} (h : SimW st r) (name : Bytes) (hne : name ≠ []) :
    SimW (InvJoin.ensureChannel st name) (r.ensureChan name) := by
  have hcont := contains_eq_of_view h.chans (fold name)
  cases hl : st.lookupChannel name with
  | some ch =>
    rw [InvJoin.ensureChannel_of_some hl]
    have hk : AMap.contains r.chans (fold name) = true := contains_of_get? h.chans hl
    unfold Ref.ensureChan
    rw [if_pos hk]
    exact h
  | none =>
    rw [InvJoin.ensureChannel_of_none hl]
    have hst : AMap.contains st.channels (fold name) = false := (contains_eq_false_iff _ _).mpr hl
    have hr : ¬ AMap.contains r.chans (fold name) = true := by rw [hcont, hst]; exact Bool.false_ne_true
    have hst' : ¬ AMap.contains st.channels (fold name) = true := by rw [hst]; exact Bool.false_ne_true
    unfold Ref.ensureChan St.createChannel
    rw [if_neg hr, if_neg hst']
    have hnomem : ∀ n, (fold name, n) ∉ r.members := fun n hm => hr (h.membersKnown _ _ hm).1
    refine { nick := h.nick, ident := h.ident, host := h.host, motd := h.motd, maxLine := h.maxLine,
             maxPrefix := h.maxPrefix, opts := h.opts, chans := ?_, chanModesWF := ?_,
             users := h.users, members := ?_, umembers := h.umembers, membersKnown := ?_,
             membersNodup := h.membersNodup, perms := h.perms, permsKnown := h.permsKnown,
             chanKeysNodup := keys_set_nodup h.chanKeysNodup _ _, userKeysNodup := h.userKeysNodup,
             chanKeysNonempty := ?_ }
    · intro k
      show (AMap.get? (AMap.set st.channels (fold name) _) k).map chanView = AMap.get? (AMap.set r.chans (fold name) _) k
      rw [get?_set, get?_set]
      by_cases e : k = fold name
      · rw [if_pos e, if_pos e]
        show some (chanView _) = _
        unfold chanView
        simp only [newCModes_raw, newCModes_prefixes, newCModes_modes, chanModes_eq h, userPrefixes_eq h,
          List.map_nil]
      · rw [if_neg e, if_neg e]; exact h.chans k
    · intro k ch hk
      change AMap.get? (AMap.set st.channels (fold name) _) k = some ch at hk
      rw [get?_set] at hk
      by_cases e : k = fold name
      · rw [if_pos e] at hk; cases hk; exact modesWF_newCModes _ _
      · rw [if_neg e] at hk; exact h.chanModesWF k ch hk
    · intro k ch hk n
      change AMap.get? (AMap.set st.channels (fold name) _) k = some ch at hk
      rw [get?_set] at hk
      by_cases e : k = fold name
      · rw [if_pos e] at hk; cases hk; subst e
        constructor
        · intro hn; cases hn
        · intro hm; exact absurd hm (hnomem n)
      · rw [if_neg e] at hk; exact h.members k ch hk n
    · intro k n hm
      obtain ⟨h1, h2⟩ := h.membersKnown k n hm
      exact ⟨contains_set_of_contains _ _ _ _ h1, h2⟩
    · intro k hk
      change AMap.contains (AMap.set r.chans (fold name) _) k = true at hk
      rw [contains_iff, mem_keys_set] at hk
      rcases hk with e | hk
      · rw [e]; intro e'; exact hne ((fold_eq_nil_iff name).mp e')
      · exact h.chanKeysNonempty k ((contains_iff _ _).mpr hk)

/-! ### `ensureUser` -/

theorem simW_ensureUser {st : St} {r : Ref} (h : SimW st r) (src : Source) :
    SimW (InvJoin.ensureUser st src) (r.ensureUser src) := by
  have hcont := contains_eq_of_view h.users (fold src.name)
  cases hl : st.lookupUser src.name with
  | some u =>
    rw [InvJoin.ensureUser_of_some hl]
    have hk : AMap.contains r.users (fold src.name) = true := contains_of_get? h.users hl
    unfold Ref.ensureUser
    rw [if_pos hk]
    exact h
  | none =>
    rw [InvJoin.ensureUser_of_none hl]
    have hst : AMap.contains st.users (fold src.name) = false := (contains_eq_false_iff _ _).mpr hl
    have hr : ¬ AMap.contains r.users (fold src.name) = true := by rw [hcont, hst]; exact Bool.false_ne_true
    have hst' : ¬ AMap.contains st.users (fold src.name) = true := by rw [hst]; exact Bool.false_ne_true
    unfold Ref.ensureUser St.createUser
    rw [if_neg hr, if_neg hst']
    have hnomem : ∀ k, (k, fold src.name) ∉ r.members := fun k hm => hr (h.membersKnown _ _ hm).2
    refine { nick := h.nick, ident := h.ident, host := h.host, motd := h.motd, maxLine := h.maxLine,
             maxPrefix := h.maxPrefix, opts := h.opts, chans := h.chans, chanModesWF := h.chanModesWF,
             users := ?_, members := h.members, umembers := ?_, membersKnown := ?_,
             membersNodup := h.membersNodup, perms := ?_, permsKnown := ?_,
             chanKeysNodup := h.chanKeysNodup, userKeysNodup := keys_set_nodup h.userKeysNodup _ _,
             chanKeysNonempty := h.chanKeysNonempty }
    · intro n
      show (AMap.get? (AMap.set st.users (fold src.name) _) n).map userView = AMap.get? (AMap.set r.users (fold src.name) _) n
      rw [get?_set, get?_set]
      by_cases e : n = fold src.name
      · rw [if_pos e, if_pos e]; rfl
      · rw [if_neg e, if_neg e]; exact h.users n
    · intro n u hu k
      change AMap.get? (AMap.set st.users (fold src.name) _) n = some u at hu
      rw [get?_set] at hu
      by_cases e : n = fold src.name
      · rw [if_pos e] at hu; cases hu; subst e
        constructor
        · intro hk; cases hk
        · intro hm; exact absurd hm (hnomem k)
      · rw [if_neg e] at hu; exact h.umembers n u hu k
    · intro k n hm
      obtain ⟨h1, h2⟩ := h.membersKnown k n hm
      exact ⟨h1, contains_set_of_contains _ _ _ _ h2⟩
    · intro k n u hm hu
      change AMap.get? (AMap.set st.users (fold src.name) _) n = some u at hu
      rw [get?_set] at hu
      by_cases e : n = fold src.name
      · subst e; exact absurd hm (hnomem k)
      · rw [if_neg e] at hu; exact h.perms k n u hm hu
    · intro p hp
      exact contains_set_of_contains _ _ _ _ (h.permsKnown p hp)

/-! ### `addMember` -/

theorem simW_addMember {st : St} {r : Ref} (h : SimW st r) {k n a b : Bytes} {ch : Channel} {u : User}
    (hc : AMap.get? st.channels k = some ch) (hu : AMap.get? st.users n = some u)
    (ha : fold a = n) (hb : fold b = k) :
    SimW { st with channels := AMap.set st.channels k (ch.addUser a),
                   users := AMap.set st.users n (u.addChannel b) }
      (r.addMember k n) := by
  have hkc : AMap.contains r.chans k = true := contains_of_get? h.chans hc
  have hnu : AMap.contains r.users n = true := contains_of_get? h.users hu
  have hin : k ∈ u.chans ↔ (k, n) ∈ r.members := h.umembers n u hu k
  refine { nick := ?_, ident := ?_, host := ?_, motd := ?_, maxLine := ?_, maxPrefix := ?_, opts := ?_,
           chans := ?_, chanModesWF := ?_, users := ?_, members := ?_, umembers := ?_, membersKnown := ?_,
           membersNodup := addMember_nodup r k n h.membersNodup, perms := ?_, permsKnown := ?_,
           chanKeysNodup := ?_, userKeysNodup := ?_, chanKeysNonempty := ?_ }
  · rw [addMember_me]; exact h.nick
  · rw [addMember_myIdent]; exact h.ident
  · rw [addMember_myHost]; exact h.host
  · rw [addMember_motd]; exact h.motd
  · rw [addMember_maxLine]; exact h.maxLine
  · rw [addMember_maxPrefix]; exact h.maxPrefix
  · rw [addMember_options]; exact h.opts
  · intro x
    rw [addMember_chans]
    show (AMap.get? (AMap.set st.channels k _) x).map chanView = _
    rw [get?_set]
    by_cases e : x = k
    · rw [if_pos e, e, ← h.chans k, hc]
      show some (chanView _) = some (chanView ch)
      rw [chanView_addUser]
    · rw [if_neg e]; exact h.chans x
  · intro x c hx
    change AMap.get? (AMap.set st.channels k _) x = some c at hx
    rw [get?_set] at hx
    by_cases e : x = k
    · rw [if_pos e] at hx; cases hx
      rw [addUser_modes]; exact h.chanModesWF k ch hc
    · rw [if_neg e] at hx; exact h.chanModesWF x c hx
  · intro x
    rw [addMember_users]
    show (AMap.get? (AMap.set st.users n _) x).map userView = _
    rw [get?_set]
    by_cases e : x = n
    · rw [if_pos e, e, ← h.users n, hu]
      show some (userView _) = some (userView u)
      rw [userView_addChannel]
    · rw [if_neg e]; exact h.users x
  · -- members
    intro x c hx y
    change AMap.get? (AMap.set st.channels k _) x = some c at hx
    rw [get?_set] at hx
    rw [mem_addMember]
    by_cases e : x = k
    · rw [if_pos e] at hx; cases hx; subst e
      rw [InvJoin.addUser_mem, ha, h.members x ch hc y]
      constructor
      · rintro (e | hm)
        · exact Or.inl (by rw [e])
        · exact Or.inr hm
      · rintro (e | hm)
        · exact Or.inl (by cases e; rfl)
        · exact Or.inr hm
    · rw [if_neg e] at hx
      rw [h.members x c hx y]
      constructor
      · exact Or.inr
      · rintro (e' | hm)
        · cases e'; exact absurd rfl e
        · exact hm
  · -- umembers
    intro y v hy x
    change AMap.get? (AMap.set st.users n _) y = some v at hy
    rw [get?_set] at hy
    rw [mem_addMember]
    by_cases e : y = n
    · rw [if_pos e] at hy; cases hy; subst e
      rw [InvJoin.addChannel_mem, hb, h.umembers y u hu x]
      constructor
      · rintro (e | hm)
        · exact Or.inl (by rw [e])
        · exact Or.inr hm
      · rintro (e | hm)
        · exact Or.inl (by cases e; rfl)
        · exact Or.inr hm
    · rw [if_neg e] at hy
      rw [h.umembers y v hy x]
      constructor
      · exact Or.inr
      · rintro (e' | hm)
        · cases e'; exact absurd rfl e
        · exact hm
  · -- membersKnown
    intro x y hm
    rw [addMember_chans, addMember_users]
    rcases (mem_addMember r k n (x, y)).mp hm with e | hm
    · cases e; exact ⟨hkc, hnu⟩
    · exact h.membersKnown x y hm
  · -- perms
    intro x y v hm hv
    change AMap.get? (AMap.set st.users n _) y = some v at hv
    rw [mem_addMember] at hm
    rw [get?_set] at hv
    rw [getPerms_addMember]
    by_cases hmem : (k, n) ∈ r.members
    · rw [if_pos hmem]
      have hm' : (x, y) ∈ r.members := by
        rcases hm with e | hm
        · rw [e]; exact hmem
        · exact hm
      by_cases e : y = n
      · rw [if_pos e] at hv; cases hv; subst e
        rw [addChannel_perms_get, hb, if_pos (hin.mpr hmem)]
        exact h.perms x y u hm' hu
      · rw [if_neg e] at hv; exact h.perms x y v hm' hv
    · rw [if_neg hmem]
      have hnin : k ∉ u.chans := fun hk => hmem (hin.mp hk)
      by_cases e : (x, y) = (k, n)
      · rw [if_pos e]
        cases e
        rw [if_pos rfl] at hv; cases hv
        rw [addChannel_perms_get, hb, if_neg hnin, if_pos rfl]
        rfl
      · rw [if_neg e]
        have hm' : (x, y) ∈ r.members := hm.resolve_left e
        by_cases ey : y = n
        · rw [if_pos ey] at hv; cases hv; subst ey
          have hxk : x ≠ k := fun e' => e (by rw [e'])
          rw [addChannel_perms_get, hb, if_neg hnin, if_neg hxk]
          exact h.perms x y u hm' hu
        · rw [if_neg ey] at hv; exact h.perms x y v hm' hv
  · -- permsKnown
    intro p hp
    rw [addMember_users]
    rcases mem_perms_addMember r k n p hp with hp | e
    · exact h.permsKnown p hp
    · rw [e]; exact hnu
  · rw [addMember_chans]; exact h.chanKeysNodup
  · rw [addMember_users]; exact h.userKeysNodup
  · rw [addMember_chans]; exact h.chanKeysNonempty

/-! ### `updUser` -/

theorem simW_updUser {st : St} {r : Ref} (h : SimW st r) {n : Bytes} {u u' : User} (f : RUser → RUser)
    (hu : AMap.get? st.users n = some u) (hchans : u'.chans = u.chans) (hperms : u'.perms = u.perms)
    (hview : userView u' = f (userView u)) :
    SimW (setUser st n u') (r.updUser n f) := by
  unfold Ref.updUser
  rw [known_of_get? h.users hu]
  refine { nick := h.nick, ident := h.ident, host := h.host, motd := h.motd, maxLine := h.maxLine,
           maxPrefix := h.maxPrefix, opts := h.opts, chans := h.chans, chanModesWF := h.chanModesWF,
           users := ?_, members := h.members, umembers := ?_, membersKnown := ?_,
           membersNodup := h.membersNodup, perms := ?_, permsKnown := ?_,
           chanKeysNodup := h.chanKeysNodup, userKeysNodup := keys_set_nodup h.userKeysNodup _ _,
           chanKeysNonempty := h.chanKeysNonempty }
  · intro x
    show (AMap.get? (AMap.set st.users n u') x).map userView = AMap.get? (AMap.set r.users n _) x
    rw [get?_set, get?_set]
    by_cases e : x = n
    · rw [if_pos e, if_pos e]
      show some (userView u') = _
      rw [hview]
    · rw [if_neg e, if_neg e]; exact h.users x
  · intro y v hy x
    change AMap.get? (AMap.set st.users n u') y = some v at hy
    rw [get?_set] at hy
    by_cases e : y = n
    · rw [if_pos e] at hy; cases hy; subst e
      rw [hchans]; exact h.umembers y u hu x
    · rw [if_neg e] at hy; exact h.umembers y v hy x
  · intro x y hm
    obtain ⟨h1, h2⟩ := h.membersKnown x y hm
    exact ⟨h1, contains_set_of_contains _ _ _ _ h2⟩
  · intro x y v hm hv
    change AMap.get? (AMap.set st.users n u') y = some v at hv
    rw [get?_set] at hv
    show _ = Ref.getPerms r x y
    by_cases e : y = n
    · rw [if_pos e] at hv; cases hv; subst e
      rw [hperms]; exact h.perms x y u hm hu
    · rw [if_neg e] at hv; exact h.perms x y v hm hv
  · intro p hp
    exact contains_set_of_contains _ _ _ _ (h.permsKnown p hp)

/-! ### `setPerms` -/

theorem simW_setPerms {st : St} {r : Ref} (h : SimW st r) {n : Bytes} {u : User} (k : Bytes) (p : Perms)
    (hu : AMap.get? st.users n = some u) :
    SimW (setUser st n { u with perms := AMap.set u.perms k p }) (r.setPerms k n p) := by
  have hnu : AMap.contains r.users n = true := contains_of_get? h.users hu
  refine { nick := h.nick, ident := h.ident, host := h.host, motd := h.motd, maxLine := h.maxLine,
           maxPrefix := h.maxPrefix, opts := h.opts, chans := h.chans, chanModesWF := h.chanModesWF,
           users := ?_, members := h.members, umembers := ?_, membersKnown := h.membersKnown,
           membersNodup := h.membersNodup, perms := ?_, permsKnown := ?_,
           chanKeysNodup := h.chanKeysNodup, userKeysNodup := h.userKeysNodup,
           chanKeysNonempty := h.chanKeysNonempty }
  · intro x
    show (AMap.get? (AMap.set st.users n _) x).map userView = AMap.get? r.users x
    rw [get?_set]
    by_cases e : x = n
    · rw [if_pos e, e, ← h.users n, hu]; rfl
    · rw [if_neg e]; exact h.users x
  · intro y v hy x
    change AMap.get? (AMap.set st.users n _) y = some v at hy
    rw [get?_set] at hy
    by_cases e : y = n
    · rw [if_pos e] at hy; cases hy; subst e
      exact h.umembers y u hu x
    · rw [if_neg e] at hy; exact h.umembers y v hy x
  · intro x y v hm hv
    change AMap.get? (AMap.set st.users n _) y = some v at hv
    change (x, y) ∈ r.members at hm
    rw [get?_set] at hv
    rw [getPerms_setPerms]
    by_cases ey : y = n
    · rw [if_pos ey] at hv; cases hv; subst ey
      show (AMap.get? (AMap.set u.perms k p) x).getD {} = _
      rw [get?_set]
      by_cases ex : x = k
      · subst ex; rw [if_pos rfl, if_pos rfl]; rfl
      · have : ¬ (x, y) = (k, y) := fun e => ex (by cases e; rfl)
        rw [if_neg ex, if_neg this]
        exact h.perms x y u hm hu
    · rw [if_neg ey] at hv
      have : ¬ (x, y) = (k, n) := fun e => ey (by cases e; rfl)
      rw [if_neg this]
      exact h.perms x y v hm hv
  · intro q hq
    show AMap.contains r.users q.1.2 = true
    rcases mem_perms_setPerms r k n p q hq with hq | e
    · exact h.permsKnown q hq
    · rw [e]; exact hnu

/-! ### Own ident / host -/

theorem simW_identHost {st : St} {r : Ref} (h : SimW st r) (i ho : Bytes) :
    SimW { st with ident := i, host := ho } { r with myIdent := i, myHost := ho } :=
  { nick := h.nick, ident := rfl, host := rfl, motd := h.motd, maxLine := h.maxLine,
    maxPrefix := h.maxPrefix, opts := h.opts, chans := h.chans, chanModesWF := h.chanModesWF,
    users := h.users, members := h.members, umembers := h.umembers, membersKnown := h.membersKnown,
    membersNodup := h.membersNodup, perms := h.perms, permsKnown := h.permsKnown,
    chanKeysNodup := h.chanKeysNodup, userKeysNodup := h.userKeysNodup,
    chanKeysNonempty := h.chanKeysNonempty }

end Girc.Proofs.SimJoin
