import Girc.Model.State
/-
  C13: a heap model of the reference-typed parts of the tracked objects (Go slices' backing arrays,
  the permission map, the mode list) and of `User.Copy` / `Channel.Copy` driven by per-field
  "freshly allocated vs header copied" facts (regenerated from state.go / modes.go).
-/
namespace Girc.Model
open Girc

abbrev Loc := Nat

structure Heap where
  strArr : Loc → List Bytes := fun _ => []      -- backing arrays of []string values
  permMap : Loc → AMap Perms := fun _ => []     -- map[string]Perms objects
  modeArr : Loc → List CMode := fun _ => []     -- backing arrays of []CMode values
  next : Loc := 0                                -- every location ≥ next is unallocated

/-- `*User` as laid out in memory: immutable strings by value, reference-typed fields as locations. -/
structure UserObj where
  nick : Bytes
  ident : Bytes
  host : Bytes
  name : Bytes
  account : Bytes
  away : Bytes
  chanList : Loc        -- ChannelList backing array
  chanLen : Nat
  perms : Loc           -- Perms.channels map
  deriving DecidableEq, Repr

structure ChanObj where
  name : Bytes
  topic : Bytes
  userList : Loc        -- UserList backing array
  userLen : Nat
  modesHdr : CModes     -- the string fields of CModes (values); its `modes` field is ignored here
  modeList : Loc        -- Modes.modes backing array
  modeLen : Nat
  deriving DecidableEq, Repr

/-- What the object means (what every getter / method reads). -/
def UserObj.abs (h : Heap) (u : UserObj) : User :=
  { nick := u.nick, ident := u.ident, host := u.host, name := u.name, account := u.account, away := u.away,
    chans := (h.strArr u.chanList).take u.chanLen, perms := h.permMap u.perms }

def ChanObj.abs (h : Heap) (c : ChanObj) : Channel :=
  { name := c.name, topic := c.topic, users := (h.strArr c.userList).take c.userLen,
    modes := { c.modesHdr with modes := (h.modeArr c.modeList).take c.modeLen } }

/-- A write through a reference: one location gets new contents. -/
inductive Write where
  | str (l : Loc) (v : List Bytes)
  | perm (l : Loc) (v : AMap Perms)
  | mode (l : Loc) (v : List CMode)

def Heap.write (h : Heap) : Write → Heap
  | .str l v => { h with strArr := fun x => if x = l then v else h.strArr x }
  | .perm l v => { h with permMap := fun x => if x = l then v else h.permMap x }
  | .mode l v => { h with modeArr := fun x => if x = l then v else h.modeArr x }

/-- Does the write go through a reference held by the object? -/
def UserObj.owns (u : UserObj) : Write → Prop
  | .str l _ => l = u.chanList
  | .perm l _ => l = u.perms
  | .mode _ _ => False

def ChanObj.owns (c : ChanObj) : Write → Prop
  | .str l _ => l = c.userList
  | .perm _ _ => False
  | .mode l _ => l = c.modeList

/-- The object was allocated before `n`. -/
def UserObj.below (u : UserObj) (n : Loc) : Prop := u.chanList < n ∧ u.perms < n
def ChanObj.below (c : ChanObj) (n : Loc) : Prop := c.userList < n ∧ c.modeList < n

/-- `User.Copy()` under the given facts: a field that is "fresh" gets a newly allocated location
    holding a copy of the contents, otherwise the header (the location) is copied. -/
def copyUser (freshChanList freshPerms : Bool) (h : Heap) (u : UserObj) : Heap × UserObj :=
  let (h, cl) := if freshChanList then
      ({ h with strArr := fun x => if x = h.next then (h.strArr u.chanList).take u.chanLen else h.strArr x, next := h.next + 1 }, h.next)
    else (h, u.chanList)
  let (h, pm) := if freshPerms then
      ({ h with permMap := fun x => if x = h.next then h.permMap u.perms else h.permMap x, next := h.next + 1 }, h.next)
    else (h, u.perms)
  (h, { u with chanList := cl, perms := pm })

/-- `Channel.Copy()` -/
def copyChannel (freshUserList freshModes : Bool) (h : Heap) (c : ChanObj) : Heap × ChanObj :=
  let (h, ul) := if freshUserList then
      ({ h with strArr := fun x => if x = h.next then (h.strArr c.userList).take c.userLen else h.strArr x, next := h.next + 1 }, h.next)
    else (h, c.userList)
  let (h, ml) := if freshModes then
      ({ h with modeArr := fun x => if x = h.next then (h.modeArr c.modeList).take c.modeLen else h.modeArr x, next := h.next + 1 }, h.next)
    else (h, c.modeList)
  (h, { c with userList := ul, modeList := ml })

end Girc.Model
