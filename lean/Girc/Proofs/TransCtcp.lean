import Girc.Proofs.TransBase
import Girc.Model.Ctcp
/-
  Translator equivalence, ctcp.go: EncodeCTCPRaw, DecodeCTCP.
-/
set_option linter.unusedSimpArgs false
namespace Girc.Proofs.Trans
open Girc Girc.Model Girc.Go Girc.Gen

/-! ### EncodeCTCPRaw -/

theorem EncodeCTCPRaw_eq (cmd text : Bytes) : Fn.EncodeCTCPRaw cmd text = .ok (encodeCTCPRaw cmd text) := by
  unfold Fn.EncodeCTCPRaw encodeCTCPRaw
  have h1 : strOfByte Fn.ctcpDelim = [ctcpDelim] := by decide
  have h2 : strOfByte Fn.eventSpace = [SP] := by decide
  cases cmd with
  | nil => simp [pure, Except.pure]
  | cons c r =>
    cases text with
    | nil => simp [h1, len, pure, Except.pure]
    | cons t ts =>
      have h3 : decide (len (t :: ts) > 0) = true := by dec_tac
      simp [h1, h2, h3, pure, Except.pure]

/-! ### DecodeCTCP -/

theorem ctcpTag_cond : ∀ c : UInt8,
    ((decide (c < 0x41) || decide (c > 0x5A)) && (decide (c < 0x30) || decide (c > 0x39))) = !ctcpTagByte c := by
  decide +kernel

theorem DecodeCTCP_loop1_eq (s : Bytes) : ∀ (fuel n : Nat), n ≤ s.length → s.length - n < fuel →
    Fn.DecodeCTCP_loop1 s fuel (n : Int) = .ok (if (s.drop n).all ctcpTagByte then .done () else .ret none)
  | 0, _, _, h => by omega
  | fuel + 1, n, hn, hf => by
    unfold Fn.DecodeCTCP_loop1
    by_cases hlt : n < s.length
    · obtain ⟨c, hd, hc, _⟩ := atI_step s n hlt
      have e1 : ((n : Int) + 1) = ((n + 1 : Nat) : Int) := by omega
      have hl : decide ((n : Int) < len s) = true := by dec_tac
      simp only [hl, hc, bind, Except.bind, pure, Except.pure, andE_ok_ok, orE_ok_ok, e1, ctcpTag_cond]
      rw [hd, DecodeCTCP_loop1_eq s fuel (n+1) (by omega) (by omega)]
      cases hnr : ctcpTagByte c <;> simp [hnr]
    · have hl : decide ((n : Int) < len s) = false := by dec_tac
      have : s.drop n = [] := by simp; omega
      simp [hl, this, pure, Except.pure]

theorem DecodeCTCP_loop2_eq (s : Bytes) (k : Nat) (hk : k ≤ s.length) : ∀ (fuel n : Nat), n ≤ k → k - n < fuel →
    Fn.DecodeCTCP_loop2 s (k : Int) fuel (n : Int) = .ok (if ((s.take k).drop n).all ctcpTagByte then .done () else .ret none)
  | 0, _, _, h => by omega
  | fuel + 1, n, hn, hf => by
    unfold Fn.DecodeCTCP_loop2
    by_cases hlt : n < k
    · obtain ⟨c, hd, hc, _⟩ := atI_step s n (by omega)
      have e1 : ((n : Int) + 1) = ((n + 1 : Nat) : Int) := by omega
      have hl : decide ((n : Int) < (k : Int)) = true := by dec_tac
      have hd' : (s.take k).drop n = c :: (s.take k).drop (n + 1) := by
        rw [List.drop_take, List.drop_take, hd]
        have : k - n = (k - (n + 1)) + 1 := by omega
        rw [this, List.take_succ_cons]
      simp only [hl, hc, bind, Except.bind, pure, Except.pure, andE_ok_ok, orE_ok_ok, e1, ctcpTag_cond]
      rw [hd', DecodeCTCP_loop2_eq s k hk fuel (n+1) (by omega) (by omega)]
      cases hnr : ctcpTagByte c <;> simp [hnr]
    · have hl : decide ((n : Int) < (k : Int)) = false := by dec_tac
      have : (s.take k).drop n = [] := by simp; omega
      simp only [hl, this, Bool.not_false, if_true, pure, Except.pure, List.all_nil]

/-- A string of length ≥ 3 is `x :: (mid ++ [z])`. -/
theorem split3 (p : Bytes) (h : 3 ≤ p.length) : ∃ x mid z, p = x :: (mid ++ [z]) ∧ 1 ≤ mid.length := by
  cases p with
  | nil => simp at h
  | cons x q =>
    have hq : q ≠ [] := by intro e; subst e; simp at h
    refine ⟨x, q.dropLast, q.getLast hq, ?_, ?_⟩
    · rw [List.dropLast_concat_getLast hq]
    · simp at h ⊢; omega

theorem atI_last (l : Bytes) (z : Byte) : atI (l ++ [z]) (l.length : Int) = .ok z :=
  ParseTotal.atI_nat (l ++ [z]) l.length z (by simp)

theorem DecodeCTCP_nil : Fn.DecodeCTCP none = .ok none := by
  unfold Fn.DecodeCTCP; rfl

theorem DecodeCTCP_eq (e : Event) : Fn.DecodeCTCP (some e) = .ok (decodeCTCP e) := by
  unfold Fn.DecodeCTCP decodeCTCP
  simp only [Option.isNone_some, Bool.false_eq_true, if_false, deref_some, bind, Except.bind, pure, Except.pure]
  obtain ⟨tags, source, command, params⟩ := e
  simp only []
  match params with
  | [] => simp [len]
  | [_] => simp [len, atL]
  | a :: b :: c :: l =>
    have hne : (len (a :: b :: c :: l) != 2) = true := by simp [len]; omega
    simp [hne]
  | [a, p] =>
    have hp1 : atL [a, p] 1 = .ok p := atL_nat [a, p] 1 p (by simp)
    have hl2 : (len [a, p] != 2) = false := by simp [len]
    simp only [hp1, hl2, orE_false, orE_ok_ok, andE_ok_ok, Bool.false_or]
    by_cases h3 : p.length < 3
    · have : decide (len p < 3) = true := by dec_tac
      simp [this, h3]
    · have h3' : decide (len p < 3) = false := by dec_tac
      simp only [h3', h3, Bool.false_eq_true, if_false]
      have hP : Fn.PRIVMSG = PRIVMSG := rfl
      have hN : Fn.NOTICE = NOTICE := rfl
      rw [hP, hN]
      cases hcmd : (command != PRIVMSG && command != NOTICE)
      · simp only [Bool.false_eq_true, if_false]
        obtain ⟨x, mid, z, rfl, hmid⟩ := split3 p (by omega)
        have hx : atI (x :: (mid ++ [z])) 0 = .ok x := atI_cons_zero _ _
        have hz : atI (x :: (mid ++ [z])) (len (x :: (mid ++ [z])) - 1) = .ok z := by
          have := atI_last (x :: mid) z
          have e : len (x :: (mid ++ [z])) - 1 = ((x :: mid).length : Int) := by simp [len]
          rw [e]; simpa using this
        have hs : sliceI (x :: (mid ++ [z])) 1 (len (x :: (mid ++ [z])) - 1) = .ok mid := by
          have := ParseTotal.sliceI_nat (x :: (mid ++ [z])) 1 (mid.length + 1) (Nat.le_add_left _ _) (by simp)
          have e : len (x :: (mid ++ [z])) - 1 = ((mid.length + 1 : Nat) : Int) := by simp [len]
          rw [e]; simpa using this
        have hd : Fn.ctcpDelim = ctcpDelim := rfl
        simp only [hx, hz, hs, hd, List.head?_cons, List.drop_succ_cons, List.drop_zero, orE_ok_ok]
        have hgl : (x :: (mid ++ [z])).getLast? = some z := by
          simp [List.getLast?_cons]
        have hdl : (mid ++ [z]).dropLast = mid := by simp
        rw [hgl, hdl]
        have hxz : ((x != ctcpDelim) || (z != ctcpDelim)) = (some x != some ctcpDelim || some z != some ctcpDelim) := by
          cases h1 : (x == ctcpDelim) <;> cases h2 : (z == ctcpDelim) <;> simp_all [bne]
        rw [hxz]
        cases hdel : (some x != some ctcpDelim || some z != some ctcpDelim)
        · simp only [Bool.false_eq_true, if_false]
          have hsp : Fn.eventSpace = SP := rfl
          rw [hsp]
          unfold indexByteI
          cases hi : indexOf SP mid with
          | none =>
            have hneg : decide ((-1 : Int) < 0) = true := by decide
            have hl1 := DecodeCTCP_loop1_eq mid (fuelTo 0 (len mid)) 0 (by omega) (by fuel_tac)
            simp only [Int.natCast_zero, List.drop_zero] at hl1
            simp only [hneg, if_true, hl1]
            cases hall : mid.all ctcpTagByte <;> simp
          | some k =>
            have hk := ParseTotal.indexOf_lt hi
            have hneg : decide (((k : Nat) : Int) < 0) = false := by dec_tac
            have hl2 := DecodeCTCP_loop2_eq mid k (by omega) (fuelTo 0 (k : Int)) 0 (by omega) (by fuel_tac)
            simp only [Int.natCast_zero, List.drop_zero] at hl2
            have e2 : ((k : Nat) : Int) + 1 = ((k + 1 : Nat) : Int) := by omega
            simp only [hneg, Bool.false_eq_true, if_false, hl2, sliceI_to mid k (by omega), e2,
              sliceI_from mid (k + 1) (by omega)]
            cases hall : (mid.take k).all ctcpTagByte <;> simp
        · simp
      · simp

end Girc.Proofs.Trans
