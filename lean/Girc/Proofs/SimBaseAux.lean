import Girc.Spec.Sim
import Girc.Proofs.InvHandlers
/-
  C04 proofs, helper library: sorted key lists, the derived membership lists of the reference tracker,
  what `Sim` says about the two list views, and generic preservation lemmas for attribute-only updates
  of one user (`updUser` on both sides).
-/
namespace Girc.Proofs.SimBase
open Girc Girc.Model Girc.Spec
open Girc.Proofs.InvBase Girc.Proofs.InvHandlers

/-! ### `eraseDups`, `sortedKeys` -/

theorem nodup_eraseDups_aux : ∀ (n : Nat) (l : List Bytes), l.length ≤ n → l.eraseDups.Nodup
  | _, [], _ => by simp
  | 0, _ :: _, h => by simp at h
  | n + 1, a :: as, h => by
    rw [List.eraseDups_cons, List.nodup_cons]
    refine ⟨?_, nodup_eraseDups_aux n _ ?_⟩
    · rw [List.mem_eraseDups]; simp
    · have := List.length_filter_le (fun b => !b == a) as
      simp only [List.length_cons] at h
      omega

theorem nodup_eraseDups (l : List Bytes) : l.eraseDups.Nodup := nodup_eraseDups_aux l.length l (Nat.le_refl _)

theorem sortedStrict_sortedKeys {β : Type} (m : AMap β) : sortedStrict (sortedKeys m) = true :=
  sortedStrict_sortBytes (nodup_eraseDups _)

theorem mem_sortedKeys {β : Type} (m : AMap β) (k : Bytes) : k ∈ sortedKeys m ↔ k ∈ AMap.keys m := by
  unfold sortedKeys
  rw [mem_sortBytes, List.mem_eraseDups]

/-- Maps (possibly of different value types) defined on the same keys list the same sorted keys. -/
theorem sortedKeys_congr {α β : Type} {m : AMap α} {m' : AMap β}
    (h : ∀ k, (AMap.get? m k).isSome = (AMap.get? m' k).isSome) : sortedKeys m = sortedKeys m' := by
  apply sortedStrict_ext (sortedStrict_sortedKeys m) (sortedStrict_sortedKeys m')
  intro k
  rw [mem_sortedKeys, mem_sortedKeys, ← get?_isSome_iff, ← get?_isSome_iff, h]

theorem filterMap_congr_mem {α β : Type} {l : List α} {f g : α → Option β} (h : ∀ x ∈ l, f x = g x) :
    l.filterMap f = l.filterMap g := by
  induction l with
  | nil => rfl
  | cons x xs ih =>
    rw [List.filterMap_cons, List.filterMap_cons, h x (List.mem_cons_self ..),
      ih (fun y hy => h y (List.mem_cons_of_mem _ hy))]

/-! ### `usersOf`, `chansOf` -/

theorem mem_usersOf (r : Ref) (k n : Bytes) : n ∈ r.usersOf k ↔ (k, n) ∈ r.members := by
  unfold Ref.usersOf
  rw [List.mem_map]
  constructor
  · rintro ⟨⟨a, b⟩, hp, rfl⟩
    rw [List.mem_filter] at hp
    have : a = k := by simpa using hp.2
    subst this; exact hp.1
  · intro h
    exact ⟨(k, n), List.mem_filter.mpr ⟨h, by simp⟩, rfl⟩

theorem mem_chansOf (r : Ref) (n k : Bytes) : k ∈ r.chansOf n ↔ (k, n) ∈ r.members := by
  unfold Ref.chansOf
  rw [List.mem_map]
  constructor
  · rintro ⟨⟨a, b⟩, hp, rfl⟩
    rw [List.mem_filter] at hp
    have : b = n := by simpa using hp.2
    subst this; exact hp.1
  · intro h
    exact ⟨(k, n), List.mem_filter.mpr ⟨h, by simp⟩, rfl⟩

theorem nodup_usersOf {r : Ref} (h : r.members.Nodup) (k : Bytes) : (r.usersOf k).Nodup := by
  unfold Ref.usersOf
  rw [List.Nodup, List.pairwise_map, List.pairwise_filter]
  refine List.Pairwise.imp ?_ h
  rintro ⟨a, b⟩ ⟨c, d⟩ hne ha hc hbd
  simp only [decide_eq_true_eq] at ha hc
  subst ha hc
  exact hne (by rw [show b = d from hbd])

theorem nodup_chansOf {r : Ref} (h : r.members.Nodup) (n : Bytes) : (r.chansOf n).Nodup := by
  unfold Ref.chansOf
  rw [List.Nodup, List.pairwise_map, List.pairwise_filter]
  refine List.Pairwise.imp ?_ h
  rintro ⟨a, b⟩ ⟨c, d⟩ hne ha hc hac
  simp only [decide_eq_true_eq] at ha hc
  subst ha hc
  exact hne (by rw [show a = c from hac])

/-! ### `Modes.String()` on both sides -/

theorem toBytes_eq_modesString (m : CModes) :
    m.toBytes = modesString (m.modes.map fun x => (x.name, x.args)) := by
  unfold CModes.toBytes modesString
  rw [List.length_map, List.flatMap_map, List.flatMap_map]

/-! ### What `Sim` says about the list views -/

theorem _root_.Girc.Spec.Sim.chan_of_ref {st : St} {r : Ref} (h : Sim st r) {k : Bytes}
    (hk : AMap.contains r.chans k = true) : ∃ ch, AMap.get? st.channels k = some ch := by
  obtain ⟨rc, hrc⟩ := (contains_iff_get? _ _).mp hk
  have := h.chans k
  rw [hrc] at this
  cases hg : AMap.get? st.channels k with
  | none => rw [hg] at this; cases this
  | some ch => exact ⟨ch, rfl⟩

theorem _root_.Girc.Spec.Sim.user_of_ref {st : St} {r : Ref} (h : Sim st r) {n : Bytes}
    (hn : AMap.contains r.users n = true) : ∃ u, AMap.get? st.users n = some u := by
  obtain ⟨ru, hru⟩ := (contains_iff_get? _ _).mp hn
  have := h.users n
  rw [hru] at this
  cases hg : AMap.get? st.users n with
  | none => rw [hg] at this; cases this
  | some u => exact ⟨u, rfl⟩

theorem _root_.Girc.Spec.Sim.chan_isSome {st : St} {r : Ref} (h : Sim st r) (k : Bytes) :
    (AMap.get? st.channels k).isSome = (AMap.get? r.chans k).isSome := by
  rw [← h.chans k, Option.isSome_map]

theorem _root_.Girc.Spec.Sim.user_isSome {st : St} {r : Ref} (h : Sim st r) (n : Bytes) :
    (AMap.get? st.users n).isSome = (AMap.get? r.users n).isSome := by
  rw [← h.users n, Option.isSome_map]

/-- A tracked channel's user list is the reference membership of that channel, sorted. -/
theorem _root_.Girc.Spec.Sim.chan_users {st : St} {r : Ref} (h : Sim st r) {k : Bytes} {ch : Channel}
    (hc : AMap.get? st.channels k = some ch) : ch.users = sortBytes (r.usersOf k) := by
  apply sortedStrict_ext (h.inv.chanSorted k ch (get?_some_mem hc)).1
    (sortedStrict_sortBytes (nodup_usersOf h.membersNodup k))
  intro n
  rw [mem_sortBytes, mem_usersOf, h.members k ch hc n]

/-- A tracked user lists exactly the channels the reference membership relation gives it. -/
theorem _root_.Girc.Spec.Sim.mem_user_chans {st : St} {r : Ref} (h : Sim st r) {n : Bytes} {u : User}
    (hu : AMap.get? st.users n = some u) (k : Bytes) : k ∈ u.chans ↔ (k, n) ∈ r.members := by
  have hmu : (n, u) ∈ st.users := get?_some_mem hu
  constructor
  · intro hk
    obtain ⟨ch, hch, hn⟩ := h.inv.userToChan n u hmu k hk
    exact (h.members k ch (mem_get? h.inv.chanKeys hch) n).mp hn
  · intro hm
    obtain ⟨ch, hch⟩ := h.chan_of_ref (h.membersKnown k n hm).1
    have hn : n ∈ ch.users := (h.members k ch hch n).mpr hm
    obtain ⟨u', hu', hk⟩ := h.inv.chanToUser k ch (get?_some_mem hch) n hn
    rw [mem_unique h.inv.userKeys hmu hu']
    exact hk

theorem _root_.Girc.Spec.Sim.user_chans {st : St} {r : Ref} (h : Sim st r) {n : Bytes} {u : User}
    (hu : AMap.get? st.users n = some u) : u.chans = sortBytes (r.chansOf n) := by
  apply sortedStrict_ext (h.inv.userSorted n u (get?_some_mem hu)).1
    (sortedStrict_sortBytes (nodup_chansOf h.membersNodup n))
  intro k
  rw [mem_sortBytes, mem_chansOf, h.mem_user_chans hu k]

theorem _root_.Girc.Spec.Sim.user_perms {st : St} {r : Ref} (h : Sim st r) {n : Bytes} {u : User}
    (hu : AMap.get? st.users n = some u) :
    (u.chans.map fun c => (c, (AMap.get? u.perms c).getD {})) =
      (sortBytes (r.chansOf n)).map fun c => (c, r.getPerms c n) := by
  rw [← h.user_chans hu]
  apply List.map_congr_left
  intro c hc
  rw [h.perms c n u ((h.mem_user_chans hu c).mp hc) hu]

/-! ### Attribute-only updates of one user -/

/-- The reference-side `updUser` never changes which keys are known. -/
theorem contains_updUser (r : Ref) (key : Bytes) (g : RUser → RUser) (n : Bytes) :
    AMap.contains (r.updUser key g).users n = AMap.contains r.users n := by
  unfold Ref.updUser
  split
  · next u hu =>
    show AMap.contains (AMap.set r.users key (g u)) n = _
    unfold AMap.contains
    rw [get?_set]
    split
    · next hn => subst hn; rw [hu]; rfl
    · rfl
  · rfl

theorem keys_updUser (r : Ref) (key : Bytes) (g : RUser → RUser) :
    AMap.keys (r.updUser key g).users = AMap.keys r.users := by
  unfold Ref.updUser
  split
  · next u hu => exact keys_set_of_mem _ _ (get?_some_mem_keys hu)
  · rfl

theorem updUser_me (r : Ref) (key : Bytes) (g : RUser → RUser) : (r.updUser key g).me = r.me := by
  unfold Ref.updUser; split <;> rfl
theorem updUser_members (r : Ref) (key : Bytes) (g : RUser → RUser) : (r.updUser key g).members = r.members := by
  unfold Ref.updUser; split <;> rfl
theorem updUser_chans (r : Ref) (key : Bytes) (g : RUser → RUser) : (r.updUser key g).chans = r.chans := by
  unfold Ref.updUser; split <;> rfl
theorem updUser_perms (r : Ref) (key : Bytes) (g : RUser → RUser) : (r.updUser key g).perms = r.perms := by
  unfold Ref.updUser; split <;> rfl

theorem isEmpty_eq_of_keys {α β : Type} {m : AMap α} {m' : AMap β} (h : AMap.keys m = AMap.keys m') :
    m.isEmpty = m'.isEmpty := by
  cases m <;> cases m' <;> simp_all [AMap.keys]

/-- Conformance only reads who the client is, the membership relation, the channels, and which
    users are known. -/
theorem conformant_congr (cfg : Cfg) {r r' : Ref} (e : Event)
    (hme : r'.me = r.me) (hmem : r'.members = r.members) (hch : r'.chans = r.chans)
    (hu : ∀ n, AMap.contains r'.users n = AMap.contains r.users n)
    (hemp : r'.users.isEmpty = r.users.isEmpty) :
    r'.conformant cfg e = r.conformant cfg e := by
  unfold Ref.conformant
  simp only [Ref.knownUser, Ref.knownChan, Ref.isMe, Ref.myNick, Ref.isMember, hme, hmem, hch, hu, hemp]
  rfl

theorem conformant_updUser (cfg : Cfg) (r : Ref) (key : Bytes) (g : RUser → RUser) (e : Event) :
    (r.updUser key g).conformant cfg e = r.conformant cfg e :=
  conformant_congr cfg e (updUser_me r key g) (updUser_members r key g) (updUser_chans r key g)
    (contains_updUser r key g) (isEmpty_eq_of_keys (keys_updUser r key g))

/-- Updating attributes of one user the same way on both sides keeps the relation. The implementation
    looks the user up under `fold name` (`updUser` folds), the reference under the key `fold name`. -/
theorem sim_updUser {st : St} {r : Ref} (h : Sim st r) (name : Bytes) (f : User → User) (g : RUser → RUser)
    (hf : ∀ u, (f u).nick = u.nick ∧ (f u).chans = u.chans ∧ (f u).perms = u.perms)
    (hfg : ∀ u, userView (f u) = g (userView u)) :
    Sim (updUser st name f) (r.updUser (fold name) g) := by
  have hinv := updUser_inv st name f h.inv (fun u => ⟨(hf u).1, (hf u).2.1⟩)
  unfold updUser St.lookupUser at *
  unfold Ref.updUser
  have hus := h.users (fold name)
  cases hg : AMap.get? st.users (fold name) with
  | none =>
    rw [hg] at hus hinv
    rw [← hus]
    exact h
  | some u =>
    rw [hg] at hus hinv
    rw [← hus]
    simp only [Option.map_some]
    have hcont : ∀ n, AMap.contains r.users n = true →
        AMap.contains (AMap.set r.users (fold name) (g (userView u))) n = true := by
      intro n hn
      rw [contains_iff] at hn ⊢
      exact (mem_keys_set _ _ _ _).mpr (Or.inr hn)
    exact
      { inv := hinv
        nick := h.nick, ident := h.ident, host := h.host, motd := h.motd
        maxLine := h.maxLine, maxPrefix := h.maxPrefix, opts := h.opts
        chans := h.chans, chanModesWF := h.chanModesWF
        users := by
          intro n
          show (AMap.get? (AMap.set st.users (fold name) (f u)) n).map userView =
            AMap.get? (AMap.set r.users (fold name) (g (userView u))) n
          rw [get?_set, get?_set]
          split
          · rw [Option.map_some, hfg]
          · exact h.users n
        members := h.members
        membersKnown := fun k n hm => ⟨(h.membersKnown k n hm).1, hcont n (h.membersKnown k n hm).2⟩
        membersNodup := h.membersNodup
        perms := by
          intro k n u' hm hu'
          change AMap.get? (AMap.set st.users (fold name) (f u)) n = some u' at hu'
          rw [get?_set] at hu'
          split at hu'
          · next hn =>
            subst hn
            cases hu'
            rw [(hf u).2.2]
            exact h.perms k _ u hm hg
          · exact h.perms k n u' hm hu'
        permsKnown := fun p hp => hcont _ (h.permsKnown p hp)
        chanKeysNodup := h.chanKeysNodup
        userKeysNodup := keys_set_nodup h.userKeysNodup _ _
        chanKeysNonempty := h.chanKeysNonempty }

end Girc.Proofs.SimBase
