import Girc.Base.Utf8
import Girc.Base.GoLib
/-
  Splitting facts for `validUTF8`: a valid prefix can be dropped, and a string can be cut at an
  ASCII byte. Proved from the definitions via a fuel-free characterisation.
-/
namespace Girc.Proofs.RoundtripUtf8
open Girc

/-- Fuel-free validity. -/
inductive Valid : Bytes → Prop
  | nil : Valid []
  | step (s : Bytes) (w : Nat) : utf8Width s = some w → Valid (s.drop w) → Valid s

theorem isCont_ge : ∀ b : UInt8, isCont b = true → 0x80 ≤ b := by decide +kernel

/-- `utf8Width` only looks at the `w` bytes it accepts, and all but the first are ≥ 0x80. -/
theorem utf8Width_spec (s : Bytes) (w : Nat) (h : utf8Width s = some w) :
    1 ≤ w ∧ w ≤ s.length ∧ (∀ t, utf8Width (s.take w ++ t) = some w) ∧
      (∀ x ∈ (s.take w).tail, 0x80 ≤ x) := by
  cases s with
  | nil => simp [utf8Width] at h
  | cons b0 rest =>
    by_cases h1 : b0 < 0x80
    · simp only [utf8Width, h1, if_true, Option.some.injEq] at h
      subst h
      refine ⟨by omega, by simp, ?_, by simp⟩
      intro t
      simp [utf8Width, h1]
    · by_cases h2 : (0xC2 ≤ b0 && b0 ≤ 0xDF) = true
      · simp only [utf8Width, h1, h2, if_true, if_false] at h
        cases rest with
        | nil => simp at h
        | cons b1 r =>
          simp only at h
          by_cases hc : isCont b1 = true
          · simp only [hc, if_true, Option.some.injEq] at h
            subst h
            refine ⟨by omega, by simp, ?_, ?_⟩
            · intro t
              simp [utf8Width, h1, h2, hc]
            · intro x hx
              simp at hx
              subst hx
              exact isCont_ge _ hc
          · simp [hc] at h
      · by_cases h3 : (0xE0 ≤ b0 && b0 ≤ 0xEF) = true
        · simp only [utf8Width, h1, h2, h3, if_true, if_false] at h
          cases rest with
          | nil => simp at h
          | cons b1 r =>
            cases r with
            | nil => simp at h
            | cons b2 r =>
              simp only at h
              by_cases hc : ((if b0 = 0xE0 then (0xA0 : UInt8) else 0x80) ≤ b1 &&
                  b1 ≤ (if b0 = 0xED then (0x9F : UInt8) else 0xBF) && isCont b2) = true
              · simp only [hc, if_true, if_false, Bool.false_eq_true, Option.some.injEq] at h
                subst h
                refine ⟨by omega, by simp, ?_, ?_⟩
                · intro t
                  simp only [List.take_succ_cons, List.take_zero, List.cons_append,
                    List.nil_append, utf8Width, h1, h2, h3, if_true, if_false, hc, Bool.false_eq_true]
                · intro x hx
                  simp only [Bool.and_eq_true, decide_eq_true_eq] at hc
                  simp at hx
                  rcases hx with hx | hx
                  · subst hx
                    by_cases he : b0 = 0xE0
                    · simp only [he, if_true] at hc
                      exact UInt8.le_trans (by decide) hc.1.1
                    · simp only [he, if_false] at hc
                      exact hc.1.1
                  · subst hx
                    exact isCont_ge _ hc.2
              · simp [hc] at h
        · by_cases h4 : (0xF0 ≤ b0 && b0 ≤ 0xF4) = true
          · simp only [utf8Width, h1, h2, h3, h4, if_true, if_false] at h
            cases rest with
            | nil => simp at h
            | cons b1 r =>
              cases r with
              | nil => simp at h
              | cons b2 r =>
                cases r with
                | nil => simp at h
                | cons b3 r =>
                  simp only at h
                  by_cases hc : ((if b0 = 0xF0 then (0x90 : UInt8) else 0x80) ≤ b1 &&
                      b1 ≤ (if b0 = 0xF4 then (0x8F : UInt8) else 0xBF) && isCont b2 &&
                      isCont b3) = true
                  · simp only [hc, if_true, if_false, Bool.false_eq_true, Option.some.injEq] at h
                    subst h
                    refine ⟨by omega, by simp, ?_, ?_⟩
                    · intro t
                      simp only [List.take_succ_cons, List.take_zero, List.cons_append,
                        List.nil_append, utf8Width, h1, h2, h3, h4, if_true, if_false, hc, Bool.false_eq_true]
                    · intro x hx
                      simp only [Bool.and_eq_true, decide_eq_true_eq] at hc
                      simp at hx
                      rcases hx with hx | hx | hx
                      · subst hx
                        by_cases he : b0 = 0xF0
                        · simp only [he, if_true] at hc
                          exact UInt8.le_trans (by decide) hc.1.1.1
                        · simp only [he, if_false] at hc
                          exact hc.1.1.1
                      · subst hx
                        exact isCont_ge _ hc.1.2
                      · subst hx
                        exact isCont_ge _ hc.2
                  · simp [hc] at h
          · simp [utf8Width, h1, h2, h3, h4] at h

theorem utf8Width_nil : utf8Width [] = none := rfl

theorem valid_of_fuel : ∀ (n : Nat) (s : Bytes), validUTF8Fuel n s = true → Valid s
  | _, [], _ => Valid.nil
  | 0, b :: r, h => by simp [validUTF8Fuel] at h
  | n + 1, b :: r, h => by
    simp only [validUTF8Fuel] at h
    cases hw : utf8Width (b :: r) with
    | none => rw [hw] at h; simp at h
    | some w =>
      rw [hw] at h
      exact Valid.step _ w hw (valid_of_fuel n _ h)

theorem fuel_of_valid {s : Bytes} (h : Valid s) : ∀ n, s.length ≤ n → validUTF8Fuel n s = true := by
  induction h with
  | nil => intro n _; cases n <;> simp [validUTF8Fuel]
  | step s w hw hv ih =>
    intro n hn
    obtain ⟨h1, h2, _, _⟩ := utf8Width_spec s w hw
    cases s with
    | nil => simp [utf8Width] at hw
    | cons b r =>
      cases n with
      | zero => simp at hn
      | succ m =>
        simp only [validUTF8Fuel, hw]
        apply ih
        simp only [List.length_drop]
        omega

theorem validUTF8_iff (s : Bytes) : validUTF8 s = true ↔ Valid s :=
  ⟨valid_of_fuel _ _, fun h => fuel_of_valid h _ (Nat.le_refl _)⟩

theorem Valid.drop_prefix {a : Bytes} (ha : Valid a) : ∀ b, Valid (a ++ b) → Valid b := by
  induction ha with
  | nil => intro b h; simpa using h
  | step a w hw hv ih =>
    intro b hab
    obtain ⟨h1, h2, h3, _⟩ := utf8Width_spec a w hw
    have hsplit : a ++ b = a.take w ++ (a.drop w ++ b) := by
      rw [← List.append_assoc, List.take_append_drop]
    have hw' : utf8Width (a ++ b) = some w := by rw [hsplit]; exact h3 _
    generalize hs : a ++ b = s at hab hw'
    cases hab with
    | nil => simp [utf8Width] at hw'
    | step _ w' hw'' hv' =>
      rw [hw'] at hw''
      cases hw''
      apply ih
      rw [← hs, List.drop_append_of_le_length h2] at hv'
      exact hv'

theorem Valid.cut_ascii {s : Bytes} (hs : Valid s) :
    ∀ (a : Bytes) (c : Byte) (b : Bytes), s = a ++ c :: b → c < 0x80 → Valid a := by
  induction hs with
  | nil => intro a c b h; simp at h
  | step s w hw hv ih =>
    intro a c b hs hc
    cases ha : a with
    | nil => exact Valid.nil
    | cons x a' =>
      obtain ⟨h1, h2, h3, h4⟩ := utf8Width_spec s w hw
      have hle : w ≤ a.length := by
        apply Nat.le_of_not_lt
        intro hlt
        have hmem : c ∈ (s.take w).tail := by
          rw [hs, List.take_append, ha]
          have : w - (x :: a').length = (w - (x :: a').length - 1) + 1 := by
            rw [ha] at hlt; omega
          rw [List.take_of_length_le (by rw [ha] at hlt; omega), this]
          simp
        have h80 := h4 c hmem
        exact absurd (UInt8.lt_of_lt_of_le hc h80) (UInt8.lt_irrefl _)
      have htake : s.take w = a.take w := by
        rw [hs, List.take_append_of_le_length hle]
      have hwa : utf8Width a = some w := by
        have := h3 (a.drop w)
        rw [htake, List.take_append_drop] at this
        exact this
      have hdrop : s.drop w = a.drop w ++ c :: b := by
        rw [hs, List.drop_append_of_le_length hle]
      rw [← ha]
      exact Valid.step a w hwa (ih (a.drop w) c b hdrop hc)

theorem valid_single (c : Byte) (hc : c < 0x80) : Valid [c] :=
  Valid.step [c] 1 (by simp [utf8Width, hc]) Valid.nil

/-- A valid prefix can be dropped. -/
theorem validUTF8_drop_prefix (a b : Bytes) (ha : validUTF8 a = true)
    (hab : validUTF8 (a ++ b) = true) : validUTF8 b = true :=
  (validUTF8_iff _).mpr (((validUTF8_iff _).mp ha).drop_prefix b ((validUTF8_iff _).mp hab))

/-- Cutting at an ASCII byte. -/
theorem validUTF8_split (a : Bytes) (c : Byte) (b : Bytes) (hc : c < 0x80)
    (h : validUTF8 (a ++ c :: b) = true) : validUTF8 a = true ∧ validUTF8 b = true := by
  have hv := (validUTF8_iff _).mp h
  have ha : Valid a := hv.cut_ascii a c b rfl hc
  have hcb : Valid (c :: b) := ha.drop_prefix _ hv
  have hb : Valid b := (valid_single c hc).drop_prefix b (by simpa using hcb)
  exact ⟨(validUTF8_iff _).mpr ha, (validUTF8_iff _).mpr hb⟩

theorem validUTF8_nil : validUTF8 [] = true := rfl

theorem valid_ascii : ∀ (s : Bytes), s.all (· < 0x80) = true → Valid s
  | [], _ => Valid.nil
  | c :: s, h => by
    simp only [List.all_cons, Bool.and_eq_true, decide_eq_true_eq] at h
    exact Valid.step (c :: s) 1 (by simp [utf8Width, h.1]) (by simpa using valid_ascii s h.2)

theorem validUTF8_ascii' (s : Bytes) (h : s.all (· < 0x80) = true) : validUTF8 s = true :=
  (validUTF8_iff _).mpr (valid_ascii s h)

/-- Empty, or starting with an ASCII byte. -/
def AsciiLead (r : Bytes) : Prop := r = [] ∨ ∃ c r', r = c :: r' ∧ c < 0x80

theorem AsciiLead.nil : AsciiLead [] := Or.inl rfl
theorem AsciiLead.cons {c : Byte} (hc : c < 0x80) (r : Bytes) : AsciiLead (c :: r) :=
  Or.inr ⟨c, r, rfl, hc⟩

/-- Cutting before an empty or ASCII-leading remainder. -/
theorem validUTF8_split_lead (a r : Bytes) (hr : AsciiLead r) (h : validUTF8 (a ++ r) = true) :
    validUTF8 a = true ∧ validUTF8 r = true := by
  rcases hr with hr | ⟨c, r', hr, hc⟩
  · subst hr; exact ⟨by simpa using h, rfl⟩
  · subst hr
    have ha := (validUTF8_split a c r' hc h).1
    exact ⟨ha, validUTF8_drop_prefix a _ ha h⟩

theorem validUTF8_drop_ascii (a b : Bytes) (ha : a.all (· < 0x80) = true)
    (hab : validUTF8 (a ++ b) = true) : validUTF8 b = true :=
  validUTF8_drop_prefix a b (validUTF8_ascii' a ha) hab

theorem joinWith_valid (c : Byte) (hc : c < 0x80) : ∀ (items : List Bytes),
    validUTF8 (joinWith [c] items) = true → ∀ it ∈ items, validUTF8 it = true
  | [], _ => by simp
  | [p], h => by simpa [joinWith] using h
  | p :: q :: ps, h => by
    simp only [joinWith, List.append_assoc, List.singleton_append] at h
    obtain ⟨h1, h2⟩ := validUTF8_split p c _ hc h
    intro it hit
    simp only [List.mem_cons] at hit
    rcases hit with hit | hit
    · subst hit; exact h1
    · exact joinWith_valid c hc (q :: ps) h2 it (by simpa using hit)

end Girc.Proofs.RoundtripUtf8
