import Girc.Proofs.InvBase
/-
  `handleCAP` only touches `enabledCap`, `tmpCap` and `sts`: the two tracked maps are unchanged.
-/
namespace Girc.Proofs.InvHandlers
open Girc Girc.Model Girc.Spec
open Girc.Proofs.InvBase

/-- `st'` has the same two tracked maps as `st`. -/
def Same (st st' : St) : Prop := st'.channels = st.channels ∧ st'.users = st.users

theorem Same.inv {st st' : St} (hs : Same st st') (h : Inv st) : Inv st' :=
  inv_of_maps_eq st st' h hs.1 hs.2

theorem handleCAP_same (cfg : Cfg) (st : St) (e : Event) : Same st (handleCAP cfg st e).1 := by
  unfold handleCAP
  extract_lets ps last possible st1 keys
  split
  · exact ⟨rfl, rfl⟩
  split
  · exact ⟨rfl, rfl⟩
  split
  next st2 outs done heq =>
  have hs : Same st st2 := by
    have h1 : Same st st1 := ⟨rfl, rfl⟩
    repeat' split at heq
    all_goals (cases heq; first | exact h1 | exact ⟨rfl, rfl⟩)
  clear heq
  split
  · exact hs
  split
  · extract_lets st3 stsCase st4 st5
    have h3 : Same st st3 := hs
    have h4 : Same st st4 := by
      unfold st4
      split
      · split
        · exact h3
        · exact h3
      · exact h3
    have h5 : Same st st5 := h4
    have hsts : ∀ r, stsCase = some r → Same st r.1 := by
      intro r hr
      unfold stsCase at hr
      split at hr
      · split at hr
        · cases hr
        · split at hr
          extract_lets st6 at hr
          have h6 : Same st st6 := h3
          split at hr
          · cases hr; exact h6
          · cases hr; exact h6
          · cases hr
      · cases hr
    clear_value stsCase
    cases stsCase with
    | some r => exact hsts r rfl
    | none =>
      dsimp only
      split <;> exact h5
  · exact hs

theorem handleCAP_maps (cfg : Cfg) (st : St) (e : Event) :
    (handleCAP cfg st e).1.channels = st.channels ∧ (handleCAP cfg st e).1.users = st.users :=
  handleCAP_same cfg st e

theorem handleCAP_inv (cfg : Cfg) (st : St) (e : Event) (h : Inv st) : Inv (handleCAP cfg st e).1 :=
  (handleCAP_same cfg st e).inv h

end Girc.Proofs.InvHandlers
