package main

import (
	"fmt"
	"strings"
	"sync/atomic"
	"time"

	"github.com/lrstanley/girc"
)

func init() {
	props["C17"] = runC17
	sessionChecks["c17"] = func(c *Ctx, in, hin map[string]string, sc SessCfg, steps []string, cmp *SessCmp) {
		// every PING is answered by exactly one PONG with the same token (the server's reading of the line)
		var pings []string
		nerr := 0
		for _, s := range steps {
			if s[0] != 'R' {
				continue
			}
			if e := girc.ParseEvent(s[1:]); e != nil {
				if e.Command == "PING" {
					pings = append(pings, e.Last())
				}
				if e.Command == "433" || e.Command == "436" || e.Command == "437" {
					nerr++
				}
			}
		}
		var pongs, nicks []string
		for _, l := range cmp.ImplW {
			if e := girc.ParseEvent(l); e != nil {
				if e.Command == "PONG" {
					pongs = append(pongs, e.Last())
				}
				if e.Command == "NICK" {
					nicks = append(nicks, e.Last())
				}
			}
		}
		if fmt.Sprint(pings) != fmt.Sprint(pongs) {
			c.R.Violation("c17.pong", hin, fmt.Sprintf("%q", pongs), fmt.Sprintf("%q", pings), "PONGs written differ from the PING tokens received")
		}
		switch {
		case sc.NickCollide == "empty" || sc.NickCollide == "fixed:":
			if len(nicks) != 0 {
				c.R.Violation("c17.callback_empty", hin, fmt.Sprintf("%q", nicks), "[]", "callback returned \"\" but a NICK was sent")
			}
		default:
			if len(nicks) != nerr {
				c.R.Violation("c17.one_per_numeric", hin, fmt.Sprintf("%d NICK lines %q", len(nicks), nicks), fmt.Sprint(nerr), "not exactly one alternative per nickname-error numeric")
			}
		}
		if sc.NickCollide == "" && in["chain"] == "1" {
			// the server rejected each proposal in turn: proposals are nick_, nick__, ... and never repeat
			for i, n := range nicks {
				if want := sc.Nick + strings.Repeat("_", i+1); n != want {
					c.R.Violation("c17.progression", hin, fmt.Sprintf("%q", nicks), want, "successive collisions do not append one more '_' each")
					break
				}
			}
		}
	}
}

func runC17(c *Ctx) {
	r := c.R
	r.Rule = "real sessions: PING tokens of every shape (empty, spaces, colon-leading, long, UTF-8, multiple params) injected before/after registration and between other traffic; " +
		"sequences of 433/436/437 of length 0-6 before and after 001 where the server rejects each proposal in turn, with no callback / a suffix callback / a fixed-value callback / one returning \"\", " +
		"with a 437 naming a channel; a PING while the flood limiter is saturated by a burst of 14 messages (latency < 700 ms); compared with the model and with the property predicates; non-trivial = >= 2 PINGs or >= 2 collisions; distinct = distinct (config, history)"
	for _, tok := range []string{"busy", "busy token"}[:1+min(c.Scale-1, 1)] {
		c.run("pongbusy", map[string]string{"token": tok})
	}
	for _, tok := range []string{"irc.example.org", "tok with space", "x"} {
		for _, one := range []string{"0", "1"} {
			c.run("pingrepeat", map[string]string{"token": tok, "n": fmt.Sprint(2 + c.Rng.Intn(4)), "oneWrite": one, "flood": one})
			r.Traces++
		}
	}
	toks := []string{"x", ":a b", ":", ":  lead", "123456789", ":é ü", "a b c", ":" + strings.Repeat("t", 300), "srv.example.org", "::x"}
	for i := 0; i < 120*c.Scale; i++ {
		in := map[string]string{"nick": c.Rng.Pick([]string{"me", "Nick[1]", "a", "a_nick_of_twenty_nine_chars_xy", "exactly_thirty_characters_long", "gu`est", "x-y|z^", "q{w}e\\"}), "check": "c17"}
		in["collide"] = c.Rng.Pick([]string{"", "", "", "suffix:-x", "fixed:other", "fixed:other", "empty", "fixed:", "suffix:", "suffix:`", "suffix:|-"})
		if c.Rng.Chance(15) {
			in["notrack"] = "1"
		}
		var steps []string
		registered := false
		cur := in["nick"]
		chain := true
		ncol := 0
		for k := 2 + c.Rng.Intn(10); k > 0; k-- {
			if c.Rng.Chance(12) {
				// the server announces a nickname length the proposals reach or exceed: the alternative is still the
				// rejected nickname plus '_' (the server will say so if it is too long), never a nickname already rejected
				steps = append(steps, fmt.Sprintf("R:srv 005 %s NICKLEN=%d CHANTYPES=# :are supported by this server", in["nick"], len(cur)+c.Rng.Intn(3)-1))
			}
			switch c.Rng.Intn(5) {
			case 0, 1:
				steps = append(steps, "RPING "+c.Rng.Pick(toks))
			case 2, 3:
				num := c.Rng.Pick([]string{"433", "433", "436", "437"})
				target := "*"
				if registered {
					target = in["nick"]
				}
				steps = append(steps, fmt.Sprintf("R:srv %s %s %s :Nickname is already in use", num, target, cur))
				ncol++
				switch {
				case in["collide"] == "":
					cur += "_"
				case strings.HasPrefix(in["collide"], "suffix:"):
					cur += in["collide"][len("suffix:"):]
				case strings.HasPrefix(in["collide"], "fixed:") && in["collide"] != "fixed:":
					cur = in["collide"][len("fixed:"):] // the server then rejects the callback's value as well
				}
				if c.Rng.Chance(10) {
					steps = append(steps, "R:srv 437 * #chan :Nick/channel is temporarily unavailable")
					chain = false
					ncol++
				}
			default:
				if !registered && c.Rng.Bool() {
					steps = append(steps, "R:srv 001 "+in["nick"]+" :Welcome")
					registered = true
				} else {
					steps = append(steps, "R:x!y@z PRIVMSG "+in["nick"]+" :hello")
				}
			}
		}
		if chain {
			in["chain"] = "1"
		}
		stepsToIn(in, steps)
		c.run("session", in)
		np := 0
		for _, s := range steps {
			if strings.HasPrefix(s, "RPING") {
				np++
			}
		}
		r.Count(fmt.Sprint(in), np >= 2 || ncol >= 2, "collide="+strings.SplitN(in["collide"], ":", 2)[0])
		r.Traces++
		if i < 2 {
			r.Sample(steps)
		}
	}
}

// "promptly written, independent of the flood limiter": with flood protection on and the limiter
// saturated by a burst of messages, a server PING must still be answered at once.
func init() {
	runners["pongbusy"] = func(c *Ctx, in map[string]string) {
		hin := hexIn(in)
		cl := girc.New(girc.Config{Server: "irc.example.org", Port: 6667, Nick: "me", User: "me", Name: "me"}) // AllowFlood off
		d, err := newDispClientFor(cl)
		if err != nil {
			c.R.Mismatch("pongbusy.setup", hin, err.Error(), "")
			return
		}
		defer func() { go d.close() }()
		idle := pongLatency(d, "idle")
		// saturate the limiter: the senders block inside Send once the allowance is used up
		var returned int32
		for i := 0; i < 14; i++ {
			go func(i int) {
				cl.Cmd.Message("#chan", fmt.Sprintf("burst message number %d with some padding to make it cost more", i))
				atomic.AddInt32(&returned, 1)
			}(i)
		}
		time.Sleep(250 * time.Millisecond)
		stillHeld := 14 - int(atomic.LoadInt32(&returned)) // senders blocked inside Send: the limiter is holding them
		busy := pongLatency(d, in["token"])
		if stillHeld == 0 {
			c.R.Mismatch("pongbusy.not_saturated", hin, "no sender was held back: the limiter was not saturated", "")
		}
		if idle < 0 || busy < 0 {
			c.R.Violation("pongbusy.unanswered", hin, fmt.Sprintf("idle=%dms busy=%dms (-1 = no PONG within 5 s)", idle, busy), "", "every PING is answered")
		} else if busy > 700 {
			c.R.Violation("pongbusy.delayed", hin, fmt.Sprintf("PONG %q took %d ms while the flood limiter was saturated (idle: %d ms)", in["token"], busy, idle), "< 700 ms", "the PONG is written promptly, independent of the flood limiter")
		}
		c.R.Count("pongbusy/"+in["token"], true, "pongbusy")
	}
}

// "for EVERY PING received … exactly one PONG": runs of PINGs with the SAME token, back to back with nothing written in between
// (the ircd's own name is the usual token, so every keep-alive PING of a connection looks the same)
func init() {
	runners["pingrepeat"] = func(c *Ctx, in map[string]string) {
		hin := hexIn(in)
		cl := girc.New(girc.Config{Server: "irc.example.org", Port: 6667, Nick: "me", User: "me", Name: "me", AllowFlood: in["flood"] != "0"})
		d, err := newDispClientFor(cl)
		if err != nil {
			c.R.Mismatch("pingrepeat.setup", hin, err.Error(), "")
			return
		}
		defer func() { go d.close() }()
		n := atoiDef(in["n"], 3)
		tok := in["token"]
		want := (&girc.Event{Command: "PONG", Params: []string{tok}}).String()
		// drain whatever is pending, then the run
		var lines []string
		for i := 0; i < n; i++ {
			lines = append(lines, "PING :"+tok)
		}
		if in["oneWrite"] == "1" {
			d.send(strings.Join(lines, "\r\n"))
		} else {
			for _, l := range lines {
				d.send(l)
			}
		}
		got, ok := 0, false
		d.send("PING :end-of-run")
		t := time.After(5 * time.Second)
	wait:
		for {
			select {
			case p, open := <-d.pongs:
				if !open {
					break wait
				}
				if p == want {
					got++
				}
				if strings.HasSuffix(p, "end-of-run") {
					ok = true
					break wait
				}
			case <-t:
				break wait
			}
		}
		if !ok || got != n {
			c.R.Violation("c17.ping_repeat", hin, fmt.Sprintf("%d PONGs (%q expected each) for %d PINGs; final barrier answered=%v", got, want, n, ok), fmt.Sprint(n),
				"every PING received is answered by exactly one PONG with the same token, also when the same token arrives several times in a row")
		}
		c.R.Count("pingrepeat/"+fmt.Sprint(in), true, "ping-repeat")
	}
}

func pongLatency(d *dispClient, tok string) int64 {
	t0 := time.Now()
	if !d.barrier(tok) {
		return -1
	}
	return time.Since(t0).Milliseconds()
}
