import Girc.Proofs.SimBase
import Girc.Proofs.SimAttr
import Girc.Proofs.SimJoin
import Girc.Proofs.SimLeave
import Girc.Proofs.SimNick
import Girc.Proofs.SimMode
/-
  C04 proofs, part 7: the dispatcher, one event, whole histories.
-/
namespace Girc.Proofs.SimMain
open Girc Girc.Model Girc.Spec
open Girc.Proofs.InvHandlers Girc.Proofs.InvBase

/-- "returns without a fault, in a state related to `r'`" for the dispatcher's result type. -/
def SimC (r' : Ref) (m : M (CState × List Out)) : Prop := ∃ cs' outs, m = .ok (cs', outs) ∧ Sim cs'.st r'

theorem simC_ite {r' : Ref} {c : Prop} [Decidable c] {a b : M (CState × List Out)}
    (ha : c → SimC r' a) (hb : ¬c → SimC r' b) : SimC r' (if c then a else b) := by
  by_cases hc : c
  · rw [if_pos hc]; exact ha hc
  · rw [if_neg hc]; exact hb hc

/-- The dispatcher, on post-tag states. -/
theorem sim_handleCommand {cs : CState} {r : Ref} (cfg : Cfg) (hT : cfg.disableTracking = false) (e : Event)
    (h : Sim cs.st r) (hc : r.conformant cfg e = true) :
    SimC (r.cmdStep cfg e) (handleCommand cfg cs e) := by
  unfold handleCommand
  extract_lets st ret c
  have h' : Sim st r := h
  have hret : ∀ (s : St) (o : List Out), Sim s (r.cmdStep cfg e) → SimC (r.cmdStep cfg e) (ret s o) :=
    fun s o hs => ⟨_, _, rfl, hs⟩
  have hbind : ∀ (m : M St), (∃ s, m = .ok s ∧ Sim s (r.cmdStep cfg e)) →
      SimC (r.cmdStep cfg e) (m >>= fun x => ret x []) := by
    intro m ⟨s, hm, hs⟩
    rw [hm]
    exact hret s [] hs
  have hother : e.command ∉ [c001, cJOIN, cPART, cKICK, cQUIT, cNICK, c353, cMODE, c324, c354, c352, cTOPIC, c332,
      cAWAY, cACCOUNT, cCHGHOST, c004, c005, c375, c372] → Sim st (r.cmdStep cfg e) := by
    intro hn
    rw [SimAttr.cmdStep_other cfg r e hn]
    exact h'
  have hcdef : c = e.command := rfl
  clear_value ret c
  subst hcdef
  -- PING
  refine simC_ite (fun hp => hret _ _ (hother (by rw [hp]; decide))) fun n1 => ?_
  -- 001
  refine simC_ite (fun hp => hret _ _ (SimAttr.sim_connect cfg e h' hc hp)) fun n2 => ?_
  -- 433 / 436 / 437
  refine simC_ite (fun hp => hret _ _ (hother ?_)) fun n3 => ?_
  · simp only [Bool.or_eq_true, decide_eq_true_eq] at hp
    rcases hp with (hp | hp) | hp <;> (rw [hp]; decide)
  -- tracking disabled: excluded
  refine simC_ite (fun hp => absurd hp (by simp [hT])) fun _ => ?_
  -- JOIN
  refine simC_ite (fun hp => ?_) fun n4 => ?_
  · obtain ⟨s, o, hj, hs⟩ := SimJoin.sim_JOIN cfg e h' hc hp
    rw [hj]
    exact hret s o hs
  refine simC_ite (fun hp => hbind _ (SimLeave.sim_PART cfg e h' hc hp)) fun n5 => ?_
  refine simC_ite (fun hp => hbind _ (SimLeave.sim_KICK cfg e h' hc hp)) fun n6 => ?_
  refine simC_ite (fun hp => hbind _ (SimLeave.sim_QUIT cfg e h' hc hp)) fun n7 => ?_
  refine simC_ite (fun hp => hbind _ (SimNick.sim_NICK cfg e h' hc hp)) fun n8 => ?_
  refine simC_ite (fun hp => hbind _ (SimJoin.sim_NAMES cfg e h' hc hp)) fun n9 => ?_
  refine simC_ite (fun hp => hbind _ (SimMode.sim_MODE cfg e h' (by simpa using hp))) fun n10 => ?_
  refine simC_ite (fun hp => hbind _ (SimAttr.sim_WHO cfg e h' (by simpa using hp))) fun n11 => ?_
  refine simC_ite (fun hp => hbind _ (SimAttr.sim_TOPIC cfg e h' (by simpa using hp))) fun n12 => ?_
  refine simC_ite (fun hp => hbind _ (SimAttr.sim_MYINFO cfg e h' hp)) fun n13 => ?_
  refine simC_ite (fun hp => hret _ _ (SimAttr.sim_ISUPPORT cfg e h' hp)) fun n14 => ?_
  refine simC_ite (fun hp => hret _ _ (SimAttr.sim_MOTD cfg e h' (by simpa using hp))) fun n15 => ?_
  -- CAP
  refine simC_ite (fun hp => ?_) fun n16 => ?_
  · have hcap := SimAttr.sim_CAP cfg e h' hp
    rcases hr : handleCAP cfg st e with ⟨s, o⟩
    rw [hr] at hcap
    exact hret s o hcap
  refine simC_ite (fun hp => hret _ _ (SimAttr.sim_CHGHOST cfg e h' hp)) fun n17 => ?_
  refine simC_ite (fun hp => hret _ _ (SimAttr.sim_AWAY cfg e h' hp)) fun n18 => ?_
  refine simC_ite (fun hp => hret _ _ (SimAttr.sim_ACCOUNT cfg e h' hp)) fun n19 => ?_
  -- AUTHENTICATE / 903
  refine simC_ite (fun hp => ?_) fun n20 => ?_
  · have hs := handleSASL_st cfg cs e
    rcases hr : handleSASL cfg cs e with ⟨cs', o⟩
    rw [hr] at hs
    refine ⟨cs', o, rfl, ?_⟩
    have hs' : cs'.st = cs.st := hs
    rw [hs']
    apply hother
    simp only [Bool.or_eq_true, decide_eq_true_eq] at hp
    rcases hp with hp | hp <;> (rw [hp]; decide)
  -- everything else
  have hrest : e.command ∉ [c001, cJOIN, cPART, cKICK, cQUIT, cNICK, c353, cMODE, c324, c354, c352, cTOPIC, c332,
      cAWAY, cACCOUNT, cCHGHOST, c004, c005, c375, c372] := by
    simp only [Bool.or_eq_true, decide_eq_true_eq, not_or] at n10 n11 n12 n15
    simp only [List.mem_cons, List.not_mem_nil, or_false, not_or]
    exact ⟨n2, n4, n5, n6, n7, n8, n9, n10.1, n10.2, n11.2, n11.1, n12.1, n12.2, n18, n19, n17, n13, n14,
      n15.1, n15.2⟩
  exact simC_ite (fun _ => hret _ _ (hother hrest)) fun _ => hret _ _ (hother hrest)

/-- The echo rule only fires for PRIVMSG/NOTICE, which the reference does not interpret. -/
theorem echo_other (cfg : Cfg) (st : St) (e : Event) (h : isEcho cfg st e = true) :
    e.command ∉ [c001, cJOIN, cPART, cKICK, cQUIT, cNICK, c353, cMODE, c324, c354, c352, cTOPIC, c332,
      cAWAY, cACCOUNT, cCHGHOST, c004, c005, c375, c372] := by
  unfold isEcho at h
  simp only [Bool.and_eq_true, Bool.or_eq_true, decide_eq_true_eq] at h
  rcases h.1.2 with hp | hp <;> (rw [hp]; decide)

/-- One event: the implementation model returns without a fault and stays related to the reference. -/
theorem sim_handleEvent {cs : CState} {r : Ref} (cfg : Cfg) (hT : cfg.disableTracking = false) (e : Event)
    (time idle : Bytes) (h : Sim cs.st r) (hc : r.conformant cfg e = true) :
    ∃ cs' outs, handleEvent cfg cs e time idle = .ok (cs', outs) ∧ Sim cs'.st (r.step cfg e) := by
  unfold handleEvent
  extract_lets echo cs1 ctcp jp
  have hcs1 : cs1.st = handleTags cs.st e := by
    unfold cs1
    rw [hT]
    rfl
  have h1 : Sim cs1.st (r.tagStep e) := by
    rw [hcs1]
    exact SimBase.sim_tagStep e h
  have hc1 : (r.tagStep e).conformant cfg e = true := by
    rw [SimBase.conformant_tagStep]
    exact hc
  have hecho : echo = true → Sim cs1.st (r.step cfg e) := by
    intro he
    unfold Ref.step
    rw [SimAttr.cmdStep_other cfg (r.tagStep e) e (echo_other cfg cs.st e he)]
    exact h1
  have hjp : ∀ x : CState × List Out, Sim x.1.st (r.step cfg e) →
      ∃ cs' outs, jp x = .ok (cs', outs) ∧ Sim cs'.st (r.step cfg e) :=
    fun ⟨_, _⟩ hx => ⟨_, _, rfl, hx⟩
  clear_value jp cs1 echo
  split
  · next he => exact hjp _ (hecho he)
  · obtain ⟨cs', outs, hcm, hs⟩ := sim_handleCommand cfg hT e h1 hc1
    rw [hcm]
    exact hjp _ hs

theorem sim_runEvents (cfg : Cfg) (hT : cfg.disableTracking = false) (es : List Event) :
    ∀ (cs : CState) (r : Ref), Sim cs.st r → conformantHistory cfg r es = true →
      ∃ cs', runEvents cfg cs es = .ok cs' ∧ Sim cs'.st (es.foldl (Ref.step cfg) r) := by
  induction es with
  | nil =>
    intro cs r h _
    exact ⟨cs, rfl, h⟩
  | cons e rest ih =>
    intro cs r h hch
    unfold conformantHistory at hch
    rw [Bool.and_eq_true] at hch
    obtain ⟨cs1, outs, he, hs⟩ := sim_handleEvent cfg hT e [] [] h hch.1
    obtain ⟨cs', hr, hs'⟩ := ih cs1 (r.step cfg e) hs hch.2
    refine ⟨cs', ?_, ?_⟩
    · unfold runEvents at hr ⊢
      rw [List.foldlM_cons, he]
      exact hr
    · rw [List.foldl_cons]
      exact hs'

/-- C04: after any conformant history, everything the state API shows equals the reference model. -/
theorem refinement (cfg : Cfg) (hT : cfg.disableTracking = false) (es : List Event)
    (hc : conformantHistory cfg {} es = true) :
    ∃ cs, runEvents cfg {} es = .ok cs ∧ observe cs.st = (Ref.run cfg es).observe := by
  obtain ⟨cs, hr, hs⟩ := sim_runEvents cfg hT es {} {} SimBase.sim_init hc
  exact ⟨cs, hr, SimBase.observe_eq hs⟩

end Girc.Proofs.SimMain
