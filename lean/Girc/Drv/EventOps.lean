import Girc.Drv.Proto
import Girc.Model.Event
import Girc.Spec.Grammar
namespace Girc.Drv
open Girc Girc.Model

def pairsOf : List Bytes → Option (List (Bytes × Bytes))
  | [] => some []
  | [_] => none
  | k :: v :: r => (pairsOf r).map ((k, v) :: ·)

/-- tags argument: "-" = nil map, otherwise a flat list [k1,v1,k2,v2,…] (insertion order). -/
def argTags (s : String) : Option (Option Tags) :=
  if s = "-" then some none else do
    let l ← argList s
    let ps ← pairsOf l
    pure (some ps)

def argSource (s : String) : Option (Option Source) :=
  if s = "-" then some none else do
    match ← argList s with
    | [n, i, h] => pure (some ⟨n, i, h⟩)
    | _ => none

def showTags : Option Tags → String
  | none => "-"
  | some t =>
    let ks := sortBytes (AMap.keys t).eraseDups
    listHx (ks.flatMap fun k => [k, (AMap.get? t k).getD []])

def showSource : Option Source → String
  | none => "-"
  | some s => listHx [s.name, s.ident, s.host]

/-- Commands with non-ASCII bytes are outside the `strings.ToUpper` model: shown as "~". -/
def showCmd (c : Bytes) : String := if isAscii c then hx c else "~"

def showEvent (e : Event) : String :=
  s!"tags={showTags e.tags} src={showSource e.source} cmd={showCmd e.command} params={listHx e.params}"

def showOptEvent : Option Event → String
  | none => "nil"
  | some e => showEvent e

def showFault : Fault → String
  | .indexOutOfRange => "panic:index" | .sliceBounds => "panic:slice" | .nilDeref => "panic:nil" | .diverge => "diverge"
  | .nilMap => "panic:nilmap"
  | .unsupported why => "panic:unsupported(" ++ why ++ ")"

def argEvent (t s c p : String) : Option Event := do
  let tags ← argTags t
  let src ← argSource s
  let cmd ← arg c
  let ps ← argList p
  pure { tags := tags, source := src, command := cmd, params := ps }

/-- Line tree argument for the grammar ops:
    tags ("-" | flat [k,v|"!",…] with hex "21"="!" marking 'no value' — encoded as separate flag list),
    we keep it simple: tags as [k1,f1,v1,…] where f = "00" (no value) or "01" (value). -/
def triplesOf : List Bytes → Option (List (Bytes × Option Bytes))
  | [] => some []
  | k :: f :: v :: r => (triplesOf r).map ((k, if f = [1] then some v else none) :: ·)
  | _ => none

def natsOf (l : List Bytes) : List Nat := l.map (fun b => b.foldl (fun a x => a * 256 + x.toNat) 0)

def argLine (tags pfx cmd mids midSp trail ending : String) : Option Spec.Line := do
  let tg ← if tags = "-" then pure none else do
    let l ← argList tags
    let ts ← triplesOf l
    pure (some ts)
  let px ← if pfx = "-" then pure none else do
    match ← argList pfx with
    | [n, fi, i, fh, h] => pure (some (⟨n, if fi = [1] then some i else none, if fh = [1] then some h else none⟩ : Spec.Prefix))
    | _ => none
  let c ← arg cmd
  let ms ← argList mids
  let sp := natsOf (← argList midSp)
  if sp.length ≠ ms.length then none
  let tr ← if trail = "-" then pure none else do
    match ← argList trail with
    | [n, t] => pure (some ((natsOf [n]).headD 0, t))
    | _ => none
  let en := ending.toNat?.getD 0
  pure { tags := tg, pfx := px, command := c, middles := sp.zip ms, trailing := tr, ending := en }

def handleEvent (op : String) (args : List String) : Option String :=
  match op, args with
  | "parse", [a] => do let s ← arg a; pure (showOptEvent (parseEvent s))
  | "parsego", [a] => do
      let s ← arg a
      pure (match parseEventGo s with
        | .ok r => showOptEvent r
        | .error f => showFault f)
  | "bytes", [t, s, c, p] => do let e ← argEvent t s c p; pure (hx (eventBytes e))
  | "len", [t, s, c, p] => do let e ← argEvent t s c p; pure (toString (eventLen e))
  | "parsesource", [a] => do let s ← arg a; pure (showSource (some (parseSource s)))
  | "sourcebytes", [s] => do
      match ← argSource s with
      | some src => pure (hx (sourceBytes src) ++ " " ++ toString (sourceLen src))
      | none => none
  | "parsetags", [a] => do let s ← arg a; pure (showTags (some (parseTags s)))
  | "tagsbytes", [t] => do let tg ← argTags t; pure (hx (tagsBytes tg))
  | "tagset", [t, k, v] => do
      let tg ← argTags t; let k ← arg k; let v ← arg v
      match tg with
      | none => none
      | some m => pure (match tagsSet m k v with
          | none => "err"
          | some m' => showTags (some m'))
  | "tagget", [t, k] => do let tg ← argTags t; let k ← arg k; pure (optHx (tagsGet tg k))
  | "tagenc", [a] => do let s ← arg a; pure (hx (tagEncode s))
  | "tagdec", [a] => do let s ← arg a; pure (hx (tagDecode s))
  | "validtag", [a] => do let s ← arg a; pure (bl (validTag s))
  | "validtagvalue", [a] => do let s ← arg a; pure (bl (validTagValue s))
  | "spec.line", [tags, pfx, cmd, mids, midSp, trail, ending] => do
      let l ← argLine tags pfx cmd mids midSp trail ending
      pure (bl (Spec.wfLine l) ++ " " ++ hx (Spec.render l) ++ " " ++ showEvent (Spec.meaning l))
  | "spec.unescape", [a] => do let s ← arg a; pure (hx (Spec.unescape s))
  | _, _ => none

end Girc.Drv
