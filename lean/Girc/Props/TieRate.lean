import Girc.Proofs.TransSaslRate
/-
  Tie (TieRate, C16): conn.go `(*ircConn).rate` regenerated from the Go source computes exactly the limiter part of the
  outgoing-path model's `sendPiece false` (Model/SendPath.lean): the returned delay, the new `writeDelay` and the new
  `lastDue`.  TRUSTED mapping (TRANSLATOR_NOTES §3): `time.Time` and `time.Duration` are integer nanoseconds, `time.Now()` is
  the explicit parameter `now`, `a.After(b)` is `a > b`, `a.Sub(b)` is `a - b`, `a.Add(d)` is `a + d`, `time.Second` is
  10^9, `/` is truncated division (`Int.tdiv`).
-/
namespace Girc.Props.TieRate
open Girc Girc.Model Girc.Gen
open Girc.Proofs.Trans (connSince connOf)

theorem tie_ircConn_rate : ∀ (c : IrcConn) (now : Int) (n : Nat),
    Fn.ircConn_rate now (some c) (n : Int) = .ok
      ((rate c.writeDelay (connSince c now) n).2,
       some { c with writeDelay := (rate c.writeDelay (connSince c now) n).1,
                     lastDue := now + (rate c.writeDelay (connSince c now) n).2 }) := Proofs.Trans.ircConn_rate_eq
theorem tie_ircConn_rate_sendPiece : ∀ {α : Type} (s : SendSt α) (now : Int) (e : α) (n : Nat),
    Fn.ircConn_rate now (some (connOf s)) (n : Int) = .ok
      ((sendPiece false s now e n).2, some (connOf (sendPiece false s now e n).1)) := Proofs.Trans.ircConn_rate_sendPiece
theorem tie_ircConn_rate_nil : ∀ now chars : Int, Fn.ircConn_rate now none chars = .error .nilDeref :=
  Proofs.Trans.ircConn_rate_nil
-- 100 bytes cost 2 s; 7.5 s of debt, 1 s elapsed since the last write: 8.5 s > 8 s, so the caller sleeps 2 s
example : Fn.ircConn_rate 11000000000 (some { lastWrite := 10000000000, lastDue := 0, writeDelay := 7500000000 }) 100 =
    .ok (2000000000, some { lastWrite := 10000000000, lastDue := 13000000000, writeDelay := 8500000000 }) := by rfl
example : Fn.ircConn_rate 11000000000 (some { lastWrite := 10000000000, lastDue := 0, writeDelay := 0 }) 100 =
    .ok (0, some { lastWrite := 10000000000, lastDue := 11000000000, writeDelay := 1000000000 }) := by rfl

end Girc.Props.TieRate
