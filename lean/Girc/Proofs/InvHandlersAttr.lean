import Girc.Proofs.InvHandlersCap
import Girc.Proofs.InvDelete
import Girc.Proofs.InvRename
/-
  One lemma per built-in handler: it returns without a fault and preserves the invariant.
  (JOIN and NAMES are in InvJoin.lean.)
-/
namespace Girc.Proofs.InvHandlers
open Girc Girc.Model Girc.Spec
open Girc.Proofs.InvBase

/-- "returns without a fault, in a consistent state" -/
def Good (m : M St) : Prop := ∃ st', m = .ok st' ∧ Inv st'

theorem good_ok {st : St} (h : Inv st) : Good (.ok st) := ⟨st, rfl, h⟩
theorem good_pure {st : St} (h : Inv st) : Good (pure st) := ⟨st, rfl, h⟩

theorem ok_bind {α β : Type} (a : α) (f : α → M β) : (Except.ok a >>= f) = f a := rfl

theorem idx_ok (ps : List Bytes) (i : Nat) (h : i < ps.length) : idx ps i = .ok ps[i] := by
  unfold idx
  rw [List.getElem?_eq_getElem h]

/-! ### attribute-only handlers -/

theorem handleConnect_inv (st : St) (e : Event) (h : Inv st) : Inv (handleConnect st e) := by
  unfold handleConnect
  split
  · exact inv_of_maps_eq _ _ h rfl rfl
  · exact h

theorem handleMYINFO_inv (st : St) (e : Event) (h : Inv st) : Good (handleMYINFO st e) := by
  unfold handleMYINFO
  split
  · exact good_pure h
  · rw [idx_ok _ 1 (by omega), idx_ok _ 2 (by omega)]
    exact good_ok (inv_of_maps_eq _ _ h rfl rfl)

theorem same_ite {st a b : St} {c : Prop} [Decidable c] (ha : Same st a) (hb : Same st b) :
    Same st (if c then a else b) := by
  split <;> assumption

theorem handleISUPPORT_same (st : St) (e : Event) : Same st (handleISUPPORT st e) := by
  unfold handleISUPPORT
  split
  · exact ⟨rfl, rfl⟩
  split
  · exact ⟨rfl, rfl⟩
  extract_lets items st1 maxLine
  cases optInt st1 sLINELEN with
  | none =>
    dsimp only
    exact same_ite ⟨rfl, rfl⟩ ⟨rfl, rfl⟩
  | some t =>
    dsimp only
    exact same_ite ⟨rfl, rfl⟩ ⟨rfl, rfl⟩

theorem handleISUPPORT_inv (st : St) (e : Event) (h : Inv st) : Inv (handleISUPPORT st e) :=
  (handleISUPPORT_same st e).inv h

theorem handleMOTD_inv (st : St) (e : Event) (h : Inv st) : Inv (handleMOTD st e) := by
  unfold handleMOTD
  split <;> exact inv_of_maps_eq _ _ h rfl rfl

theorem inv_setChannel_lookup {st : St} {k : Bytes} {c c' : Channel} (h : Inv st)
    (hl : st.lookupChannel k = some c) (hn : c'.name = c.name) (hu : c'.users = c.users) :
    Inv (setChannel st (fold k) c') :=
  inv_setChannel_attrs st (fold k) c c' h (h.lookupChannel_mem hl) hn hu

theorem inv_setUser_lookup {st : St} {n : Bytes} {u u' : User} (h : Inv st)
    (hl : st.lookupUser n = some u) (hn : u'.nick = u.nick) (hc : u'.chans = u.chans) :
    Inv (setUser st (fold n) u') :=
  inv_setUser_attrs st (fold n) u u' h (h.lookupUser_mem hl) hn hc

theorem handleTOPIC_inv (st : St) (e : Event) (h : Inv st) : Good (handleTOPIC st e) := by
  unfold handleTOPIC
  extract_lets jp
  have hjp : ∀ x, Good (jp x) := by
    intro ⟨name, topic⟩
    unfold jp
    dsimp only
    split
    · exact good_ok h
    · next ch hc => exact good_ok (inv_setChannel_lookup h hc rfl rfl)
  clear_value jp
  split
  · exact good_pure h
  · exact hjp _
  · exact hjp _
  · exact hjp _

theorem handleWHO_inv (st : St) (e : Event) (h : Inv st) : Good (handleWHO st e) := by
  unfold handleWHO
  extract_lets jp
  have hjp : ∀ x, Good (jp x) := by
    intro ⟨ident, host, nick, account, realname, whox⟩
    unfold jp
    dsimp only
    split
    · exact good_ok h
    · next user hu =>
      refine good_ok (inv_setUser_lookup h hu ?_ ?_)
      · split <;> rfl
      · split <;> rfl
  clear_value jp
  split
  · split
    · exact good_pure h
    · rw [idx_ok _ 1 (by omega), ok_bind]
      split
      · exact good_pure h
      · rw [idx_ok _ 3 (by omega), idx_ok _ 4 (by omega), idx_ok _ 5 (by omega), idx_ok _ 6 (by omega)]
        exact hjp _
  · split
    · exact good_pure h
    · rw [idx_ok _ 2 (by omega), idx_ok _ 3 (by omega), idx_ok _ 5 (by omega)]
      exact hjp _

theorem modePerms_inv (name la : Bytes) (st : St) (m : CMode) (h : Inv st) : Inv (modePerms name la st m) := by
  unfold modePerms
  split
  · exact h
  · split
    · exact h
    · split
      · exact h
      · next user hu => exact inv_setUser_lookup h hu rfl rfl

theorem foldl_modePerms_inv (name la : Bytes) (l : List CMode) :
    ∀ st : St, Inv st → Inv (l.foldl (modePerms name la) st) := by
  induction l with
  | nil => intro st h; exact h
  | cons m l ih => intro st h; exact ih _ (modePerms_inv name la st m h)

theorem handleMODE_inv (st : St) (e : Event) (h : Inv st) : Good (handleMODE st e) := by
  unfold handleMODE
  extract_lets ps
  split
  · exact good_pure h
  · rw [idx_ok ps 0 (by omega), ok_bind]
    split
    · exact good_pure h
    · split
      · exact good_ok h
      · next channel hc =>
        rw [idx_ok ps 1 (by omega), ok_bind]
        exact good_ok (foldl_modePerms_inv _ _ _ _ (inv_setChannel_lookup h hc rfl rfl))

theorem updUser_inv (st : St) (n : Bytes) (f : User → User) (h : Inv st)
    (hf : ∀ u, (f u).nick = u.nick ∧ (f u).chans = u.chans) : Inv (updUser st n f) := by
  unfold updUser
  split
  · next u hu => exact inv_setUser_lookup h hu (hf u).1 (hf u).2
  · exact h

theorem handleCHGHOST_inv (st : St) (e : Event) (h : Inv st) : Inv (handleCHGHOST st e) := by
  unfold handleCHGHOST
  split
  · exact updUser_inv _ _ _ h (fun _ => ⟨rfl, rfl⟩)
  · exact h

theorem handleAWAY_inv (st : St) (e : Event) (h : Inv st) : Inv (handleAWAY st e) := by
  unfold handleAWAY
  split
  · exact updUser_inv _ _ _ h (fun _ => ⟨rfl, rfl⟩)
  · exact h

theorem handleACCOUNT_inv (st : St) (e : Event) (h : Inv st) : Inv (handleACCOUNT st e) := by
  unfold handleACCOUNT
  split
  · exact updUser_inv _ _ _ h (fun _ => ⟨rfl, rfl⟩)
  · exact h

theorem handleTags_inv (st : St) (e : Event) (h : Inv st) : Inv (handleTags st e) := by
  unfold handleTags
  split
  · split
    · exact h
    · split
      · exact updUser_inv _ _ _ h (fun _ => ⟨rfl, rfl⟩)
      · exact h
  · exact h

/-! ### membership handlers (via deleteUser / deleteChannel / renameUser) -/

theorem handlePART_inv (cfg : Cfg) (st : St) (e : Event) (h : Inv st) : Good (handlePART cfg st e) := by
  unfold handlePART
  split
  · split
    · exact good_ok h
    · split
      · exact InvDelete.deleteChannel_inv st _ h
      · exact InvDelete.deleteUser_inv st _ _ h
  · exact good_ok h

theorem handleKICK_inv (cfg : Cfg) (st : St) (e : Event) (h : Inv st) : Good (handleKICK cfg st e) := by
  unfold handleKICK
  split
  · exact good_pure h
  · rw [idx_ok _ 0 (by omega), idx_ok _ 1 (by omega), ok_bind, ok_bind]
    split
    · exact InvDelete.deleteChannel_inv st _ h
    · exact InvDelete.deleteUser_inv st _ _ h

theorem handleNICK_inv (st : St) (e : Event) (h : Inv st) : Good (handleNICK st e) := by
  unfold handleNICK
  split
  · exact good_ok h
  · split
    · exact InvRename.renameUser_inv st _ _ h
    · exact good_ok h

theorem handleQUIT_inv (cfg : Cfg) (st : St) (e : Event) (h : Inv st) : Good (handleQUIT cfg st e) := by
  unfold handleQUIT
  split
  · exact good_ok h
  · split
    · exact good_ok h
    · exact InvDelete.deleteUser_inv st _ _ h

end Girc.Proofs.InvHandlers
