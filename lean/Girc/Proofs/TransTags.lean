import Girc.Proofs.TransBase
import Girc.Model.Tags
/-
  Translator equivalence, cap_tags.go: validTag, validTagValue.
-/
set_option linter.unusedSimpArgs false
namespace Girc.Proofs.Trans
open Girc Girc.Model Girc.Go Girc.Gen

/-! ### validTagValue -/

theorem tagVal_cond : ∀ c : UInt8, (decide (c < 0x21) || decide (c > 0x7E) || (c == 0x3B)) = !tagValByte c := by
  decide +kernel

theorem validTagValue_loop1_eq (s : Bytes) : ∀ (fuel n : Nat), n ≤ s.length → s.length - n < fuel →
    Fn.validTagValue_loop1 s fuel (n : Int) = .ok (if (s.drop n).all tagValByte then .done () else .ret false)
  | 0, _, _, h => by omega
  | fuel + 1, n, hn, hf => by
    unfold Fn.validTagValue_loop1
    by_cases hlt : n < s.length
    · obtain ⟨c, hd, hc, _⟩ := atI_step s n hlt
      have e1 : ((n : Int) + 1) = ((n + 1 : Nat) : Int) := by omega
      have hl : decide ((n : Int) < len s) = true := by dec_tac
      simp only [hl, hc, bind, Except.bind, pure, Except.pure, andE_ok_ok, orE_ok_ok, e1, tagVal_cond]
      rw [hd, validTagValue_loop1_eq s fuel (n+1) (by omega) (by omega)]
      cases hnr : tagValByte c <;> simp [hnr]
    · have hl : decide ((n : Int) < len s) = false := by dec_tac
      have : s.drop n = [] := by simp; omega
      simp [hl, this, pure, Except.pure]

theorem validTagValue_eq (v : Bytes) : Fn.validTagValue v = .ok (validTagValue v) := by
  unfold Fn.validTagValue validTagValue
  have hl := validTagValue_loop1_eq v (fuelTo 0 (len v)) 0 (by omega) (by fuel_tac)
  simp only [Int.natCast_zero, List.drop_zero] at hl
  simp only [hl, bind, Except.bind, pure, Except.pure]
  cases v.all tagValByte <;> rfl

/-! ### validTag -/

theorem tagKey_cond : ∀ c : UInt8,
    ((decide (c < 0x41) || decide (c > 0x5A)) && (decide (c < 0x61) || decide (c > 0x7A)) &&
      (decide (c < 0x2D) || decide (c > 0x39)) && (c != 0x5F)) = !tagKeyByte c := by
  decide +kernel

theorem validTag_loop1_eq (s : Bytes) : ∀ (fuel n : Nat), n ≤ s.length → s.length - n < fuel →
    Fn.validTag_loop1 s fuel (n : Int) = .ok (if (s.drop n).all tagKeyByte then .done () else .ret false)
  | 0, _, _, h => by omega
  | fuel + 1, n, hn, hf => by
    unfold Fn.validTag_loop1
    by_cases hlt : n < s.length
    · obtain ⟨c, hd, hc, _⟩ := atI_step s n hlt
      have e1 : ((n : Int) + 1) = ((n + 1 : Nat) : Int) := by omega
      have hl : decide ((n : Int) < len s) = true := by dec_tac
      simp only [hl, hc, bind, Except.bind, pure, Except.pure, andE_ok_ok, orE_ok_ok, e1, tagKey_cond]
      rw [hd, validTag_loop1_eq s fuel (n+1) (by omega) (by omega)]
      cases hnr : tagKeyByte c <;> simp [hnr]
    · have hl : decide ((n : Int) < len s) = false := by dec_tac
      have : s.drop n = [] := by simp; omega
      simp [hl, this, pure, Except.pure]

theorem validTag_loop1_top (s : Bytes) :
    Fn.validTag_loop1 s (fuelTo 0 (len s)) 0 = .ok (if s.all tagKeyByte then .done () else .ret false) := by
  have hl := validTag_loop1_eq s (fuelTo 0 (len s)) 0 (by omega) (by fuel_tac)
  simpa using hl

theorem validTag_eq (name : Bytes) : Fn.validTag name = .ok (validTag name) := by
  unfold Fn.validTag validTag
  cases name with
  | nil => simp [len, pure, Except.pure]
  | cons c r =>
    have h1 : decide (len (c :: r) < 1) = false := by dec_tac
    have h1' : ¬ ((c :: r).length < 1) := by simp
    simp only [h1, h1', atI_cons_zero, bind, Except.bind, pure, Except.pure, andE_ok_ok, if_false, Bool.false_eq_true]
    cases r with
    | nil =>
      have h2 : decide (len [c] ≥ 2) = false := by dec_tac
      simp only [h2, Bool.false_and, validTag_loop1_top, Bool.false_eq_true, if_false]
      cases hk : [c].all tagKeyByte <;> simp [hk]
    | cons d r' =>
      have h2 : decide (len (c :: d :: r') ≥ 2) = true := by dec_tac
      by_cases hc : c = 0x2B
      · subst hc
        have hs : sliceI (0x2B :: d :: r') 1 (len (0x2B :: d :: r')) = .ok (d :: r') := by
          have := sliceI_from (0x2B :: d :: r') 1 (by simp)
          simpa using this
        simp only [h2, Fn.prefixUserTag, beq_self_eq_true, Bool.and_self, if_true, hs, validTag_loop1_top]
        cases hk : (d :: r').all tagKeyByte <;> simp [hk]
      · have hne : (c == Fn.prefixUserTag) = false := by simp [Fn.prefixUserTag, hc]
        simp only [h2, hne, Bool.and_false, Bool.false_eq_true, if_false, validTag_loop1_top]
        cases hk : (c :: d :: r').all tagKeyByte <;> simp [hk, hc]

end Girc.Proofs.Trans
