import Girc.Proofs.SplitPack
import Girc.Proofs.SplitWords
/-
  C11: on plain text every line the splitter builds is at most `maxWidth` bytes; no piece is empty.
-/
namespace Girc.Proofs.SplitFits
open Girc Girc.Model Girc.Spec Girc.Proofs.Utf8 Girc.Proofs.RoundtripUtf8 Girc.Proofs.SplitUtf8
open Girc.Proofs.SplitPack Girc.Proofs.SplitWords

theorem exists_concat {α : Type} (l : List α) (h : l ≠ []) : ∃ front cur, l = front ++ [cur] :=
  ⟨l.dropLast, l.getLast h, (List.dropLast_concat_getLast h).symm⟩

theorem sepOf_length_le (cur : Bytes) : (sepOf cur).length ≤ 1 := by
  unfold sepOf; split <;> simp

theorem packWord_fits (isURL : Bytes → Bool) (w : Nat) (hw : 4 ≤ w) (fuel : Nat) (front : List Bytes)
    (cur word : Bytes) (hf : ∀ l ∈ front, l.length ≤ w) (hc : cur.length ≤ w) :
    packWord isURL w [] fuel (front ++ [cur]) word ≠ [] ∧
      ∀ l ∈ packWord isURL w [] fuel (front ++ [cur]) word, l.length ≤ w := by
  refine packWord_cases isURL w hw
    (fun _ front cur _ r => (∀ l ∈ front, l.length ≤ w) → cur.length ≤ w → r ≠ [] ∧ ∀ l ∈ r, l.length ≤ w)
    ?_ ?_ ?_ ?_ ?_ ?_ fuel front cur word hf hc
  · intro front cur word hf hc
    refine ⟨by simp, ?_⟩
    intro l hl
    rcases List.mem_append.mp hl with hl | hl
    · exact hf l hl
    · simp only [List.mem_singleton] at hl; subst hl; exact hc
  · intro fuel front cur word hfit hf hc
    refine ⟨by simp, ?_⟩
    intro l hl
    rcases List.mem_append.mp hl with hl | hl
    · exact hf l hl
    · simp only [List.mem_singleton] at hl; subst hl
      simp only [List.length_append]; omega
  · intro fuel front cur word r hce hnf ih hf hc
    apply ih
    · intro l hl
      rcases List.mem_append.mp hl with hl | hl
      · exact hf l hl
      · simp only [List.mem_singleton] at hl; subst hl; exact hc
    · simp
  · intro fuel front cur word j r hce h3 hj hjw hnf hsym ih hf hc
    apply ih hf
    simp only [List.length_append, List.length_take, List.length_cons, List.length_nil]
    omega
  · intro fuel front cur word left cut hnf hleft hl4 hcut hrest hf hc
    have hcl := cutLen_le word left hl4
    refine ⟨by simp, ?_⟩
    intro l hl
    rcases List.mem_append.mp hl with hl | hl
    · exact hf l hl
    · simp only [List.mem_singleton] at hl; subst hl
      simp only [List.length_append, List.length_take]
      omega
  · intro fuel front cur word left cut r hnf hleft hl4 hcut hrest ih hf hc
    have hcl := cutLen_le word left hl4
    apply ih
    · intro l hl
      rcases List.mem_append.mp hl with hl | hl
      · exact hf l hl
      · simp only [List.mem_singleton] at hl; subst hl
        simp only [List.length_append, List.length_take]
        omega
    · simp

theorem fresh_empty : FmtState.fresh {} = [] := rfl

theorem splitLoop_fits (isURL : Bytes → Bool) (w : Nat) (hw : 4 ≤ w) : ∀ (words : List Bytes) (out : List Bytes),
    (∀ wd ∈ words, hasCodeByte wd = false) → out ≠ [] → (∀ l ∈ out, l.length ≤ w) →
    ∀ l ∈ splitLoop isURL w words {} out, l.length ≤ w
  | [], out, _, _, ho => by simpa [splitLoop] using ho
  | word :: rest, out, hws, hne, ho => by
    have hrest : ∀ wd ∈ rest, hasCodeByte wd = false := fun wd h => hws wd (by simp [h])
    rw [splitLoop]
    split
    · simp only []
      split
      · exact splitLoop_fits isURL w hw rest out hrest hne ho
      · apply splitLoop_fits isURL w hw rest _ hrest (by simp)
        intro l hl
        rcases List.mem_append.mp hl with hl | hl
        · exact ho l hl
        · simp only [List.mem_singleton] at hl; subst hl; simp [fresh_empty]
    · simp only [trackWord_plain word (hws word (by simp)), fresh_empty]
      obtain ⟨front, cur, rfl⟩ := exists_concat out hne
      have hp := packWord_fits isURL w hw (2 * word.length + 4) front cur word
        (fun l hl => ho l (by simp [hl])) (ho cur (by simp))
      exact splitLoop_fits isURL w hw rest _ hrest hp.1 hp.2

theorem split_fits (isURL : Bytes → Bool) (t : Bytes) (w : Nat) (hp : plainText t = true) (hw : 4 ≤ w) :
    ∀ p ∈ splitMessage isURL t w, p.length ≤ w := by
  intro p hpm
  unfold splitMessage at hpm
  simp only [List.mem_map, List.mem_filter] at hpm
  obtain ⟨l, ⟨hl, _⟩, rfl⟩ := hpm
  have := splitLoop_fits isURL w hw _ [[]] (words_plain t hp _) (by simp) (by simp) l hl
  exact Nat.le_trans (toValidUTF8_length_le _ _) this

theorem split_no_empty (isURL : Bytes → Bool) (t : Bytes) (w : Nat) :
    ∀ p ∈ splitMessage isURL t w, p ≠ [] := by
  intro p hpm
  unfold splitMessage at hpm
  simp only [List.mem_map, List.mem_filter] at hpm
  obtain ⟨l, ⟨_, hne⟩, rfl⟩ := hpm
  apply toValidUTF8_ne_nil
  intro h; subst h; simp at hne

end Girc.Proofs.SplitFits
