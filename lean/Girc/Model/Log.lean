import Girc.Model.Format
import Girc.Model.Event
/-
  Model of what reaches the two log writers for an event the client sends
  (`debugLogEvent`, and `Event.Pretty`'s gate for `Config.Out`).
-/
namespace Girc.Model
open Girc

/-- The text after the logger prefix written to `Config.Debug` for an outgoing (or dropped) event.
    For a sensitive event the Go code calls `Printf(prefix, " %s ***redacted***", e.Command)` with the
    prefix as format string: the command and the literal text appear, the parameters never do. -/
def debugLine (sensitive dropped : Bool) (e : Event) : Bytes × Bytes :=
  let pfx : Bytes := if dropped then [0x64] else [0x3E]      -- which prefix; exact text abstracted
  if sensitive then (pfx, e.command) else (pfx, stripRaw (eventBytes e))

/-- Whether anything at all is written to `Config.Out`: `Pretty` refuses sensitive and echo events. -/
def outLine (sensitive echo : Bool) (e : Event) : Option Bytes :=
  if sensitive || echo then none else some (eventBytes e)   -- (the prettified text is a function of e)

end Girc.Model
