import Girc.Base.Utf8
import Girc.Base.GoLib
namespace Girc.Proofs.Utf8
open Girc

theorem toValidUTF8_of_valid (r s : Bytes) (h : validUTF8 s = true) : toValidUTF8 r s = s := by
  sorry

theorem validUTF8_append (a b : Bytes) (ha : validUTF8 a = true) (hb : validUTF8 b = true) :
    validUTF8 (a ++ b) = true := by
  sorry

theorem validUTF8_ascii (s : Bytes) (h : s.all (· < 0x80) = true) : validUTF8 s = true := by
  sorry

theorem toValidUTF8_nil_length_le (s : Bytes) : (toValidUTF8 [] s).length ≤ s.length := by
  sorry

end Girc.Proofs.Utf8
