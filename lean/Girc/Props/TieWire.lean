import Girc.Proofs.TransTags
import Girc.Proofs.TransParseTags
import Girc.Proofs.TransSource
/-
  Tie (TieWire): the function bodies regenerated from the Go source on every run (Girc/Gen/Funcs.lean, written by
  tools/extract/translate.go) equal the hand-written models the property theorems of C01, C02 and C03 are about, for ALL inputs.
  Only restatements of theorems proved in Girc/Proofs/Trans*.lean, each with a non-vacuity example that evaluates the
  generated function on a literal. An edit of the Go function changes Funcs.lean and the equivalence stops building.
-/
namespace Girc.Props.TieWire
open Girc Girc.Model Girc.Gen

/-! ### cap_tags.go -/

theorem tie_validTag : ∀ s : Bytes, Fn.validTag s = .ok (validTag s) := Proofs.Trans.validTag_eq
example : Fn.validTag [0x2B, 0x61, 0x2F, 0x62] = .ok true := by rfl
example : Fn.validTag [0x2B] = .ok false := by rfl

theorem tie_validTagValue : ∀ s : Bytes, Fn.validTagValue s = .ok (validTagValue s) := Proofs.Trans.validTagValue_eq
example : Fn.validTagValue [0x61, 0x5C, 0x73] = .ok true := by rfl
example : Fn.validTagValue [0x61, 0x3B] = .ok false := by rfl

theorem tie_ParseTags : ∀ raw : Bytes, Fn.ParseTags raw = .ok (some (parseTags raw)) := Proofs.Trans.ParseTags_eq
-- "@a=b;+c;=x"
example : Fn.ParseTags [0x40, 0x61, 0x3D, 0x62, 0x3B, 0x2B, 0x63, 0x3B, 0x3D, 0x78] =
    .ok (some [([0x61], [0x62]), ([0x2B, 0x63], [])]) := by rfl

/-- `Tags.Get` returns `(value, ok)`; the model returns `Option`. -/
theorem tie_Tags_Get : ∀ (t : Option Tags) (key : Bytes),
    Fn.Tags_Get t key = .ok (match tagsGet t key with
                             | some v => (v, true)
                             | none => ([], false)) := Proofs.Trans.Tags_Get_eq
-- {"a": `x\sy\`}.Get("a") = "x y\" (trailing backslash kept)
example : Fn.Tags_Get (some [([0x61], [0x78, 0x5C, 0x73, 0x79, 0x5C])]) [0x61] = .ok ([0x78, 0x20, 0x79, 0x5C], true) := by rfl
example : Fn.Tags_Get none [0x61] = .ok ([], false) := by rfl

/-! ### event.go -/

theorem tie_ParseSource : ∀ raw : Bytes, Fn.ParseSource raw = .ok (some (parseSource raw)) := Proofs.Trans.ParseSource_eq
-- "n!u@h"
example : Fn.ParseSource [0x6E, 0x21, 0x75, 0x40, 0x68] = .ok (some ⟨[0x6E], [0x75], [0x68]⟩) := by rfl

theorem tie_Source_Len : ∀ s : Source, Fn.Source_Len (some s) = .ok (sourceLen s : Int) := Proofs.Trans.Source_Len_eq
theorem tie_Source_Len_nil : Fn.Source_Len none = .error .nilDeref := Proofs.Trans.Source_Len_nil
example : Fn.Source_Len (some ⟨[0x6E], [0x75], [0x68]⟩) = .ok 5 := by rfl

theorem tie_Source_writeTo : ∀ (s : Source) (buf : Bytes), Fn.Source_writeTo (some s) buf = .ok (buf ++ sourceBytes s) :=
  Proofs.Trans.Source_writeTo_eq
theorem tie_Source_writeTo_nil : ∀ buf : Bytes, Fn.Source_writeTo none buf = .error .nilDeref := Proofs.Trans.Source_writeTo_nil
example : Fn.Source_writeTo (some ⟨[0x6E], [0x75], [0x68]⟩) [0x3A] = .ok [0x3A, 0x6E, 0x21, 0x75, 0x40, 0x68] := by rfl

end Girc.Props.TieWire
