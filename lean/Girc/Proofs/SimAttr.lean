import Girc.Spec.Sim
import Girc.Proofs.InvHandlers
import Girc.Proofs.SimAttrAux
/-
  C04 proofs, part 2: messages that change attributes only (no membership change).
  In every statement `st`/`r` are the states AFTER the account-tag step.
  (Helper lemmas: SimAttrAux.lean.)
-/
namespace Girc.Proofs.SimAttr
open Girc Girc.Model Girc.Spec
open Girc.Proofs.InvBase Girc.Proofs.InvHandlers

theorem sim_connect {st : St} {r : Ref} (cfg : Cfg) (e : Event) (h : Sim st r)
    (hc : r.conformant cfg e = true) (hcmd : e.command = c001) :
    Sim (handleConnect st e) (r.cmdStep cfg e) := by
  rw [cmdStep_c001 cfg r e hcmd]
  unfold handleConnect
  obtain ⟨tags, source, command, params⟩ := e
  rcases params with _ | ⟨p, rest⟩
  · exact h
  · exact sim_scalars h rfl rfl rfl rfl rfl rfl rfl h.ident h.host h.motd h.maxLine h.maxPrefix h.opts


theorem sim_TOPIC {st : St} {r : Ref} (cfg : Cfg) (e : Event) (h : Sim st r)
    (hcmd : e.command = cTOPIC ∨ e.command = c332) :
    ∃ st', handleTOPIC st e = .ok st' ∧ Sim st' (r.cmdStep cfg e) := by
  rw [cmdStep_TOPIC cfg r e hcmd]
  unfold handleTOPIC
  obtain ⟨tags, source, command, params⟩ := e
  rcases params with _ | ⟨n, _ | ⟨t, _ | ⟨x, rest⟩⟩⟩
  · exact ⟨st, rfl, h⟩
  · exact sim_topic_ok n [] h
  · exact sim_topic_ok n t h
  · exact sim_topic_ok t _ h


theorem sim_WHO {st : St} {r : Ref} (cfg : Cfg) (e : Event) (h : Sim st r)
    (hcmd : e.command = c352 ∨ e.command = c354) :
    ∃ st', handleWHO st e = .ok st' ∧ Sim st' (r.cmdStep cfg e) := by
  rcases hcmd with hcmd | hcmd
  · rw [cmdStep_c352 cfg r e hcmd]
    unfold handleWHO
    rw [if_neg (by rw [hcmd]; decide)]
    obtain ⟨tags, source, command, params⟩ := e
    by_cases hlen : params.length < 8
    · dsimp only
      rw [if_pos hlen, if_pos hlen]
      exact ⟨st, rfl, h⟩
    · dsimp only
      rw [if_neg hlen, if_neg hlen]
      rcases params with _ | ⟨a, _ | ⟨b, _ | ⟨c, _ | ⟨d, _ | ⟨e, _ | ⟨f, rest⟩⟩⟩⟩⟩⟩
      all_goals first
        | (exfalso; simp only [List.length_cons, List.length_nil] at hlen; omega)
        | skip
      exact sim_who_ok c d f [] (stripHopcount (Event.last ⟨tags, source, command, a :: b :: c :: d :: e :: f :: rest⟩) 0
        (Event.last ⟨tags, source, command, a :: b :: c :: d :: e :: f :: rest⟩)) false False (by simp) h
  · rw [cmdStep_c354 cfg r e hcmd]
    unfold handleWHO
    rw [if_pos hcmd]
    obtain ⟨tags, source, command, params⟩ := e
    by_cases hlen : params.length = 8
    · obtain ⟨a, b, c, d, e, f, g, i, rfl⟩ := length_eq_8 params hlen
      have hb : idx [a, b, c, d, e, f, g, i] 1 = .ok b := rfl
      dsimp only
      rw [if_neg (fun hne => hne rfl), hb, ok_bind]
      by_cases htok : b = sOne
      · rw [if_neg (fun hne => hne htok), if_neg (fun hne => hne htok)]
        exact sim_who_ok d e f g i true (g ≠ sZero) (by simp) h
      · rw [if_pos htok, if_pos htok]
        exact ⟨st, rfl, h⟩
    · dsimp only
      rw [if_pos hlen]
      refine ⟨st, rfl, ?_⟩
      split
      · exact absurd rfl hlen
      · exact h


theorem sim_MYINFO {st : St} {r : Ref} (cfg : Cfg) (e : Event) (h : Sim st r) (hcmd : e.command = c004) :
    ∃ st', handleMYINFO st e = .ok st' ∧ Sim st' (r.cmdStep cfg e) := by
  rw [cmdStep_c004 cfg r e hcmd]
  unfold handleMYINFO
  obtain ⟨tags, source, command, params⟩ := e
  rcases params with _ | ⟨x, _ | ⟨a, _ | ⟨b, rest⟩⟩⟩
  · exact ⟨st, rfl, h⟩
  · exact ⟨st, rfl, h⟩
  · exact ⟨st, rfl, h⟩
  · refine ⟨_, rfl, ?_⟩
    refine sim_scalars h rfl rfl rfl rfl rfl rfl h.nick h.ident h.host h.motd h.maxLine h.maxPrefix ?_
    intro k
    show AMap.get? (AMap.set (AMap.set st.serverOptions sSERVER a) sVERSION b) k
      = AMap.get? (AMap.set (AMap.set r.options sSERVER a) sVERSION b) k
    simp only [get?_set, h.opts]


theorem sim_ISUPPORT {st : St} {r : Ref} (cfg : Cfg) (e : Event) (h : Sim st r) (hcmd : e.command = c005) :
    Sim (handleISUPPORT st e) (r.cmdStep cfg e) := by
  rw [cmdStep_c005 cfg r e hcmd]
  dsimp only
  rw [handleISUPPORT_eq, handleISUPPORT_eq]
  by_cases h1 : (!isSuffixOfB sThisServer e.last) = true
  · rw [if_pos h1, if_pos h1]; exact h
  rw [if_neg h1, if_neg h1]
  by_cases h2 : e.params.length < 2
  · rw [if_pos h2, if_pos h2]; exact h
  rw [if_neg h2, if_neg h2]
  have ho := isupOpts_congr h.opts e
  have hI := optI_congr ho
  refine sim_scalars h rfl rfl rfl rfl rfl rfl h.nick h.ident h.host h.motd ?_ ?_ ho
  · dsimp only
    rw [hI, hI, hI, hI, hI, h.maxLine, h.maxPrefix]
  · dsimp only
    rw [hI, hI, hI, hI, hI, h.maxLine, h.maxPrefix]


theorem sim_MOTD {st : St} {r : Ref} (cfg : Cfg) (e : Event) (h : Sim st r)
    (hcmd : e.command = c375 ∨ e.command = c372) :
    Sim (handleMOTD st e) (r.cmdStep cfg e) := by
  unfold handleMOTD
  rcases hcmd with hcmd | hcmd
  · rw [cmdStep_c375 cfg r e hcmd, if_pos hcmd]
    exact sim_scalars h rfl rfl rfl rfl rfl rfl h.nick h.ident h.host rfl h.maxLine h.maxPrefix h.opts
  · rw [cmdStep_c372 cfg r e hcmd, if_neg (by rw [hcmd]; decide)]
    refine sim_scalars h rfl rfl rfl rfl rfl rfl h.nick h.ident h.host ?_ h.maxLine h.maxPrefix h.opts
    show (if st.motd.isEmpty then [] else st.motd ++ [LF]) ++ e.last = _
    rw [h.motd]; rfl


theorem sim_CHGHOST {st : St} {r : Ref} (cfg : Cfg) (e : Event) (h : Sim st r) (hcmd : e.command = cCHGHOST) :
    Sim (handleCHGHOST st e) (r.cmdStep cfg e) := by
  rw [cmdStep_CHGHOST cfg r e hcmd]
  unfold handleCHGHOST
  obtain ⟨tags, source, command, params⟩ := e
  rcases source with _ | src
  · exact h
  rcases params with _ | ⟨i, _ | ⟨h', _ | ⟨x, rest⟩⟩⟩
  · exact h
  · exact h
  · exact sim_updUser src.name (fun u => { u with ident := i, host := h' }) (fun u => { u with ident := i, host := h' }) h
      (fun _ => rfl) (fun _ => ⟨rfl, rfl, rfl⟩)
  · exact h


theorem sim_AWAY {st : St} {r : Ref} (cfg : Cfg) (e : Event) (h : Sim st r) (hcmd : e.command = cAWAY) :
    Sim (handleAWAY st e) (r.cmdStep cfg e) := by
  rw [cmdStep_AWAY cfg r e hcmd]
  unfold handleAWAY
  obtain ⟨tags, source, command, params⟩ := e
  rcases source with _ | src
  · exact h
  · exact sim_updUser src.name (fun u => { u with away := params.getLastD [] }) (fun u => { u with away := params.getLastD [] }) h
      (fun _ => rfl) (fun _ => ⟨rfl, rfl, rfl⟩)


theorem sim_ACCOUNT {st : St} {r : Ref} (cfg : Cfg) (e : Event) (h : Sim st r) (hcmd : e.command = cACCOUNT) :
    Sim (handleACCOUNT st e) (r.cmdStep cfg e) := by
  rw [cmdStep_ACCOUNT cfg r e hcmd]
  unfold handleACCOUNT
  obtain ⟨tags, source, command, params⟩ := e
  rcases source with _ | src
  · exact h
  rcases params with _ | ⟨a, _ | ⟨x, rest⟩⟩
  · exact h
  · exact sim_updUser src.name (fun u => { u with account := if a = sStar then [] else a })
      (fun u => { u with account := if a = sStar then [] else a }) h (fun _ => rfl) (fun _ => ⟨rfl, rfl, rfl⟩)
  · exact h


/-- Capability negotiation does not touch anything the relation talks about. -/
theorem sim_CAP {st : St} {r : Ref} (cfg : Cfg) (e : Event) (h : Sim st r) (hcmd : e.command = cCAP) :
    Sim (handleCAP cfg st e).1 (r.cmdStep cfg e) := by
  rw [cmdStep_other' cfg r e (by rw [hcmd]; decide)]
  exact (handleCAP_frame cfg st e).sim h

/-- Any command the tracker does not interpret means nothing to the reference model either. -/
theorem cmdStep_other (cfg : Cfg) (r : Ref) (e : Event)
    (h : e.command ∉ [c001, cJOIN, cPART, cKICK, cQUIT, cNICK, c353, cMODE, c324, c354, c352, cTOPIC, c332,
      cAWAY, cACCOUNT, cCHGHOST, c004, c005, c375, c372]) :
    r.cmdStep cfg e = r := cmdStep_other' cfg r e h

end Girc.Proofs.SimAttr
