#!/bin/bash
# Maintainer tool: verify a seeded change (built by an independent agent in a scratch worktree), run the
# registered checks against it, and file it under /verif/seeded/<name>/.
# usage: try_mutation.sh <name> <worktree> <property> [more properties to run]
set -u
name=$1; wt=$2; shift 2; props="$@"
export GOFLAGS=-mod=mod GOPROXY=off GOSUMDB=off GOTOOLCHAIN=local
dir=/verif/seeded/$name; mkdir -p $dir
cd $wt || exit 2
demo=$(ls zz_mutation_demo_test.go cmdhandler/zz_mutation_demo_test.go 2>/dev/null | head -1)
git diff > $dir/patch.diff
cp $demo $dir/ 2>/dev/null
pkg=.; case "$demo" in cmdhandler/*) pkg=./cmdhandler;; esac
b=$(go build ./... 2>&1 | tail -1)
t=$(go test -vet=off -count=1 -skip 'TestState|TestMutationDemo' ./... 2>&1 | grep -v "no test files" | tail -1)
d1=$(go test -vet=off -count=1 -run 'TestMutationDemo$' $pkg 2>&1 | tail -1)
git stash -q; d0=$(go test -vet=off -count=1 -run 'TestMutationDemo$' $pkg 2>&1 | tail -1); git stash pop -q
echo "build:[$b] suite:[$t] demo-with:[$d1] demo-without:[$d0]"
# run the checks against /repo with the patch applied
cd /repo && git status --short | grep -v '^??' && { echo "/repo dirty"; exit 3; }
# the evidence files are rewritten by every run: keep the ones from the unchanged tree
rm -rf /tmp/evidence_keep && cp -r /verif/evidence /tmp/evidence_keep
git apply $dir/patch.diff || { echo "patch does not apply to /repo"; exit 4; }
res=""
for p in $props; do
  out=$(cd /verif && ./check $p quick 2>&1 | tail -1 | cut -c1-200)
  res="$res$p: $out\n"
done
git checkout -- . 
rm -rf /verif/evidence && mv /tmp/evidence_keep /verif/evidence
printf "$res"
python3 - "$name" "$b" "$t" "$d1" "$d0" "$res" "$props" <<'PY'
import json,sys
name,b,t,d1,d0,res,props=sys.argv[1:8]
meta={"name":name,"breaks":props.split()[0],"ran_checks":props.split(),"confirmed":{"build":b,"existing_suite_with_change":t,"demo_with_change":d1,"demo_without_change":d0},
      "check_results":res.replace('\\n','\n').strip().split('\n')}
p='/verif/seeded/%s/meta.json'%name
try:
    old=json.load(open(p)); meta.update({k:v for k,v in old.items() if k in ('needs','what')})
except Exception: pass
json.dump(meta,open(p,'w'),indent=1)
PY
