import Girc.Spec.EventSpec
import Girc.Proofs.Utf8
/-
  C03 proofs about `Event.Bytes` / `Event.Len`.
  `san` = the sanitiser (`toValidUTF8 []` then drop CR/LF). Key facts: it only deletes bytes
  (`san_sublist`), distributes over ASCII separators (`san_append_ascii`), and is the identity on
  clean fields (`san_of_clean`). `rawBytes_length` ties the raw buffer to `eventLen` for all events.
-/
set_option linter.unusedSimpArgs false
namespace Girc.Proofs.Serialize
open Girc Girc.Model Girc.Spec Girc.Proofs.Utf8

/-- The sanitiser applied by `Event.Bytes`. -/
def san (s : Bytes) : Bytes := (toValidUTF8 [] s).filter (fun b => !isCRLF b)

theorem eventBytes_eq_san (e : Event) : eventBytes e = san (rawBytes e) := rfl

theorem san_nil : san [] = [] := rfl

theorem san_sublist (s : Bytes) : (san s).Sublist s :=
  (List.filter_sublist).trans (toValidUTF8_nil_sublist s)

theorem san_append_ascii (a b : Bytes) (x : Byte) (hx : x < 0x80) (hn : isCRLF x = false) :
    san (a ++ x :: b) = san a ++ x :: san b := by
  simp [san, toValidUTF8_append_ascii [] a b x hx, List.filter_cons, hn]

theorem no_crlf (e : Event) : CR ∉ eventBytes e ∧ LF ∉ eventBytes e := by
  constructor <;> intro h <;> simp [eventBytes, List.mem_filter, isCRLF] at h

theorem sourceBytes_length (s : Source) : (sourceBytes s).length = sourceLen s := by
  unfold sourceBytes sourceLen
  simp only [List.length_append]
  split <;> split <;> simp <;> omega

theorem paramsBytes_length : ∀ ps : List Bytes, (paramsBytes ps).length = paramsLen ps
  | [] => rfl
  | [p] => by
    simp only [paramsBytes, paramsLen]
    split <;> simp <;> omega
  | p :: q :: ps => by
    have := paramsBytes_length (q :: ps)
    simp only [paramsBytes, paramsLen, List.length_cons, List.length_append] at this ⊢
    omega

theorem tagsWrite_length_some (t : Tags) :
    (tagsWrite (some t)).length = if t.length > 0 then tagsLen (some t) + 1 else 0 := by
  cases t with
  | nil => rfl
  | cons p t => simp [tagsWrite, tagsBytes, tagsLen]

theorem rawBytes_length (e : Event) : (rawBytes e).length = eventLen e := by
  obtain ⟨tags, source, command, params⟩ := e
  simp only [rawBytes, eventLen, List.length_append, paramsBytes_length]
  have ht : (tagsWrite tags).length =
      (match tags with
       | some t => if t.length > 0 then tagsLen (some t) + 1 else 0
       | none => 0) := by
    cases tags with
    | none => rfl
    | some t => exact tagsWrite_length_some t
  have hs : (match source with
       | some s => COLON :: sourceBytes s ++ [SP]
       | none => []).length =
      (match source with
       | some s => sourceLen s + 2
       | none => 0) := by
    cases source with
    | none => rfl
    | some s => simp [sourceBytes_length]
  cases tags <;> cases source <;> simp only [] at ht hs ⊢ <;> omega

theorem len_ge (e : Event) : (eventBytes e).length ≤ eventLen e := by
  rw [← rawBytes_length, eventBytes_eq_san]
  exact (san_sublist _).length_le

/-! ### Tag section: any append-closed predicate of keys/values holds of the section -/

theorem mem_insertSorted {x a : Bytes} : ∀ {l : List Bytes}, x ∈ insertSorted a l → x = a ∨ x ∈ l
  | [], h => by simp [insertSorted] at h; exact Or.inl h
  | y :: ys, h => by
    simp only [insertSorted] at h
    split at h
    · simpa using h
    · rcases List.mem_cons.1 h with h | h
      · exact Or.inr (h ▸ List.mem_cons_self)
      · rcases mem_insertSorted h with h | h
        · exact Or.inl h
        · exact Or.inr (List.mem_cons_of_mem _ h)

theorem mem_sortBytes {x : Bytes} : ∀ {l : List Bytes}, x ∈ sortBytes l → x ∈ l
  | [], h => by simp [sortBytes] at h
  | y :: ys, h => by
    have h' : x ∈ insertSorted y (sortBytes ys) := h
    rcases mem_insertSorted h' with h | h
    · exact h ▸ List.mem_cons_self
    · exact List.mem_cons_of_mem _ (mem_sortBytes h)

theorem mem_of_lookup {β : Type} {k : Bytes} {v : β} : ∀ {t : List (Bytes × β)}, List.lookup k t = some v → (k, v) ∈ t
  | [], h => by simp at h
  | (k', v') :: t, h => by
    simp only [List.lookup_cons] at h
    split at h
    · rename_i heq
      have : k = k' := by simpa using heq
      cases h; subst this; exact List.mem_cons_self
    · exact List.mem_cons_of_mem _ (mem_of_lookup h)

section pred
variable (P : Bytes → Prop) (hnil : P []) (happ : ∀ a b, P a → P b → P (a ++ b))
  (heq : P [0x3D]) (hsemi : P [0x3B])
include hnil happ heq hsemi

theorem tagsBytesLoop_pred (t : Tags) : ∀ (ks : List Bytes) (cur : Nat),
    (∀ k ∈ ks, P k ∧ P ((AMap.get? t k).getD [])) → P (tagsBytesLoop t ks cur)
  | [], _, _ => hnil
  | k :: ks, cur, h => by
    have hk := h k List.mem_cons_self
    have h1 : P (if ((AMap.get? t k).getD []).length > 0 then 0x3D :: (AMap.get? t k).getD [] else []) := by
      split
      · exact happ [0x3D] _ heq hk.2
      · exact hnil
    have h2 : P (if ks.isEmpty then [] else [0x3B]) := by
      split
      · exact hnil
      · exact hsemi
    have ih := tagsBytesLoop_pred t ks
    have key : ∀ (c : Prop) [Decidable c] (x : Bytes), P x → P (if c then [] else x) := by
      intro c _ x hx; split
      · exact hnil
      · exact hx
    simp only [tagsBytesLoop]
    exact key _ _ (happ _ _ (happ _ _ (happ _ _ hk.1 h1) h2)
      (ih _ (fun k' hk' => h k' (List.mem_cons_of_mem _ hk'))))

theorem tagsBytesLoop_pred_sorted (t : Tags) (h : ∀ p ∈ t, P p.1 ∧ P p.2) (cur : Nat) :
    P (tagsBytesLoop t (sortBytes (AMap.keys t)) cur) := by
  apply tagsBytesLoop_pred P hnil happ heq hsemi
  intro k hk
  have hk' := mem_sortBytes hk
  simp only [AMap.keys, List.mem_map] at hk'
  obtain ⟨p, hp, rfl⟩ := hk'
  refine ⟨(h p hp).1, ?_⟩
  cases hl : AMap.get? t p.1 with
  | none => exact hnil
  | some v => exact (h _ (mem_of_lookup hl)).2

end pred

/-! ### Clean events are serialised verbatim -/

theorem cleanField_nil : cleanField [] = true := rfl

theorem cleanField_append (a b : Bytes) (ha : cleanField a = true) (hb : cleanField b = true) :
    cleanField (a ++ b) = true := by
  simp only [cleanField, Bool.and_eq_true, List.all_append] at ha hb ⊢
  exact ⟨validUTF8_append a b ha.1 hb.1, ha.2, hb.2⟩

theorem cleanField_cons_ascii (x : Byte) (s : Bytes) (hx : x < 0x80) (h1 : x ≠ CR) (h2 : x ≠ LF)
    (hs : cleanField s = true) : cleanField (x :: s) = true := by
  simp only [cleanField, Bool.and_eq_true, List.all_cons] at hs ⊢
  refine ⟨?_, ?_, hs.2⟩
  · rw [validUTF8_of_width_some (utf8Width_ascii s hx)]; exact hs.1
  · simp [h1, h2]

theorem cleanField_singleton (x : Byte) (hx : x < 0x80) (h1 : x ≠ CR) (h2 : x ≠ LF) :
    cleanField [x] = true := cleanField_cons_ascii x [] hx h1 h2 rfl

theorem san_of_clean (s : Bytes) (h : cleanField s = true) : san s = s := by
  simp only [cleanField, Bool.and_eq_true] at h
  unfold san
  rw [toValidUTF8_of_valid [] s h.1, List.filter_eq_self]
  intro b hb
  have := List.all_eq_true.1 h.2 b hb
  simpa [isCRLF] using this

theorem cleanField_tagsWrite (t : Option Tags)
    (h : t.all (fun t => t.all (fun p => cleanField p.1 && cleanField p.2)) = true) :
    cleanField (tagsWrite t) = true := by
  cases t with
  | none => rfl
  | some t =>
    cases ht : t with
    | nil => rfl
    | cons p t' =>
      rw [← ht]
      have hne : t.isEmpty = false := by rw [ht]; rfl
      simp only [tagsWrite, tagsBytes, hne, Bool.false_eq_true, if_false, List.isEmpty_cons]
      apply cleanField_append _ _ _ (cleanField_singleton SP (by decide) (by decide) (by decide))
      apply cleanField_cons_ascii _ _ (by decide) (by decide) (by decide)
      apply tagsBytesLoop_pred_sorted (fun s => cleanField s = true) cleanField_nil cleanField_append
        (cleanField_singleton _ (by decide) (by decide) (by decide))
        (cleanField_singleton _ (by decide) (by decide) (by decide))
      intro p hp
      simp only [Option.all_some, List.all_eq_true, Bool.and_eq_true] at h
      exact h p hp

theorem cleanField_sourceBytes (s : Source)
    (h : (cleanField s.name && cleanField s.ident && cleanField s.host) = true) :
    cleanField (sourceBytes s) = true := by
  simp only [Bool.and_eq_true] at h
  unfold sourceBytes
  refine cleanField_append _ _ (cleanField_append _ _ h.1.1 ?_) ?_
  · split
    · exact cleanField_cons_ascii _ _ (by decide) (by decide) (by decide) h.1.2
    · rfl
  · split
    · exact cleanField_cons_ascii _ _ (by decide) (by decide) (by decide) h.2
    · rfl

theorem cleanField_paramsBytes : ∀ ps : List Bytes, ps.all cleanField = true →
    cleanField (paramsBytes ps) = true
  | [], _ => rfl
  | [p], h => by
    simp only [List.all_cons, List.all_nil, Bool.and_true] at h
    simp only [paramsBytes]
    split
    · exact cleanField_cons_ascii _ _ (by decide) (by decide) (by decide)
        (cleanField_cons_ascii _ _ (by decide) (by decide) (by decide) h)
    · exact cleanField_cons_ascii _ _ (by decide) (by decide) (by decide) h
  | p :: q :: ps, h => by
    simp only [List.all_cons, Bool.and_eq_true] at h
    simp only [paramsBytes]
    have ih := cleanField_paramsBytes (q :: ps) (by simp [h.2.1, h.2.2])
    exact cleanField_cons_ascii _ _ (by decide) (by decide) (by decide) (cleanField_append _ _ h.1 ih)

theorem cleanField_rawBytes (e : Event) (h : cleanEvent e = true) : cleanField (rawBytes e) = true := by
  simp only [cleanEvent, Bool.and_eq_true] at h
  obtain ⟨⟨⟨hc, hp⟩, hs⟩, ht⟩ := h
  unfold rawBytes
  refine cleanField_append _ _ (cleanField_append _ _ (cleanField_append _ _
    (cleanField_tagsWrite _ ht) ?_) hc) (cleanField_paramsBytes _ hp)
  cases hsrc : e.source with
  | none => rfl
  | some s =>
    rw [hsrc] at hs
    simp only []
    apply cleanField_cons_ascii _ _ (by decide) (by decide) (by decide)
    exact cleanField_append _ _ (cleanField_sourceBytes s (by simpa using hs))
      (cleanField_singleton SP (by decide) (by decide) (by decide))

theorem len_eq (e : Event) (h : cleanEvent e = true) : eventLen e = (eventBytes e).length := by
  rw [eventBytes_eq_san, san_of_clean _ (cleanField_rawBytes e h), rawBytes_length]

/-! ### The command token survives serialisation -/

theorem noSpace_iff (s : Bytes) : noSpace s = true ↔ SP ∉ s := by
  simp [noSpace]

theorem san_cons_ascii (x : Byte) (b : Bytes) (hx : x < 0x80) (hn : isCRLF x = false) :
    san (x :: b) = x :: san b := by
  simpa [san_nil] using san_append_ascii [] b x hx hn

theorem not_mem_san {x : Byte} {s : Bytes} (h : x ∉ s) : x ∉ san s :=
  fun hm => h ((san_sublist s).subset hm)

theorem dropWhile_ne_append (x : Byte) : ∀ (u rest : Bytes), x ∉ u →
    (u ++ x :: rest).dropWhile (· != x) = x :: rest
  | [], rest, _ => by simp [List.dropWhile_cons]
  | y :: u, rest, h => by
    have hy : y ≠ x := fun e => h (e ▸ List.mem_cons_self)
    have hu : x ∉ u := fun e => h (List.mem_cons_of_mem _ e)
    simp [List.dropWhile_cons, hy, dropWhile_ne_append x u rest hu]

theorem takeWhile_ne_append (x : Byte) : ∀ (u rest : Bytes), x ∉ u →
    (u ++ x :: rest).takeWhile (· != x) = u
  | [], rest, _ => by simp [List.takeWhile_cons]
  | y :: u, rest, h => by
    have hy : y ≠ x := fun e => h (e ▸ List.mem_cons_self)
    have hu : x ∉ u := fun e => h (List.mem_cons_of_mem _ e)
    simp [List.takeWhile_cons, hy, takeWhile_ne_append x u rest hu]

theorem takeWhile_ne_self (x : Byte) : ∀ (u : Bytes), x ∉ u → u.takeWhile (· != x) = u
  | [], _ => rfl
  | y :: u, h => by
    have hy : y ≠ x := fun e => h (e ▸ List.mem_cons_self)
    have hu : x ∉ u := fun e => h (List.mem_cons_of_mem _ e)
    simp [List.takeWhile_cons, hy, takeWhile_ne_self x u hu]

theorem skipSection_lead (lead : Byte) (hl : lead ≠ SP) (u rest : Bytes) (hu : SP ∉ u) :
    skipSection lead (lead :: u ++ SP :: rest) = rest := by
  have : SP ∉ lead :: u := by
    intro h; rcases List.mem_cons.1 h with h | h
    · exact hl h.symm
    · exact hu h
  unfold skipSection
  rw [if_pos (by simp), dropWhile_ne_append SP _ rest this]
  rfl

theorem skipSection_of_head_ne (lead : Byte) (line : Bytes) (h : line.head? ≠ some lead) :
    skipSection lead line = line := by
  unfold skipSection
  rw [if_neg h]

/-- Shape of a leading `@tags ` / `:source ` section. -/
def Section (lead : Byte) (s : Bytes) : Prop := s = [] ∨ ∃ u, s = lead :: u ++ [SP] ∧ SP ∉ u

theorem paramsBytes_shape (ps : List Bytes) : paramsBytes ps = [] ∨ ∃ q, paramsBytes ps = SP :: q := by
  match ps with
  | [] => exact Or.inl rfl
  | [p] =>
    right; simp only [paramsBytes]; split
    · exact ⟨_, rfl⟩
    · exact ⟨_, rfl⟩
  | p :: q :: ps => right; exact ⟨_, rfl⟩

theorem section_tagsWrite (t : Option Tags)
    (ht : ∀ t', t = some t' → ∀ p ∈ t', noSpace p.1 = true ∧ noSpace p.2 = true) :
    Section AT (tagsWrite t) := by
  cases t with
  | none => exact Or.inl rfl
  | some t =>
    cases hte : t with
    | nil => exact Or.inl rfl
    | cons p t' =>
      rw [← hte]
      have hne : t.isEmpty = false := by rw [hte]; rfl
      right
      refine ⟨tagsBytesLoop t (sortBytes (AMap.keys t)) 1, ?_, ?_⟩
      · simp only [tagsWrite, tagsBytes, hne, Bool.false_eq_true, if_false, List.isEmpty_cons]
        rfl
      · apply tagsBytesLoop_pred_sorted (fun s => SP ∉ s) (by simp)
          (fun a b ha hb => by simp [ha, hb]) (by decide) (by decide)
        intro p hp
        have := ht t rfl p hp
        exact ⟨(noSpace_iff _).1 this.1, (noSpace_iff _).1 this.2⟩

/-- The `:source ` section of the raw buffer. -/
def srcSec : Option Source → Bytes
  | some s => COLON :: sourceBytes s ++ [SP]
  | none => []

theorem rawBytes_eq (e : Event) :
    rawBytes e = tagsWrite e.tags ++ (srcSec e.source ++ (e.command ++ paramsBytes e.params)) := by
  obtain ⟨t, s, c, p⟩ := e
  cases s <;> simp [rawBytes, srcSec]

theorem section_source (src : Option Source)
    (hs : ∀ s, src = some s → noSpace s.name = true ∧ noSpace s.ident = true ∧ noSpace s.host = true) :
    Section COLON (srcSec src) := by
  cases src with
  | none => exact Or.inl rfl
  | some s =>
    right
    refine ⟨sourceBytes s, rfl, ?_⟩
    obtain ⟨h1, h2, h3⟩ := hs s rfl
    rw [noSpace_iff] at h1 h2 h3
    unfold sourceBytes
    have hB : SP ≠ BANG := by decide
    have hA : SP ≠ AT := by decide
    split <;> split <;> simp [h1, h2, h3, hB, hA]

theorem singleToken_facts {c : Bytes} (hc : singleToken c = true) :
    c ≠ [] ∧ cleanField c = true ∧ SP ∉ c ∧ c.head? ≠ some COLON ∧ c.head? ≠ some AT := by
  simp only [singleToken, Bool.and_eq_true, Bool.not_eq_true', bne_iff_ne, ne_eq,
    List.all_eq_true] at hc
  obtain ⟨⟨⟨⟨h1, h2⟩, h3⟩, h4⟩, h5⟩ := hc
  refine ⟨?_, ?_, ?_, h4, h5⟩
  · intro h; subst h; simp at h1
  · simp only [cleanField, Bool.and_eq_true, List.all_eq_true, bne_iff_ne, ne_eq]
    exact ⟨h2, fun b hb => ⟨(h3 b hb).1.2, (h3 b hb).2⟩⟩
  · intro h; exact (h3 SP h).1.1 rfl

theorem san_cmd_params (c : Bytes) (ps : List Bytes) (hc : cleanField c = true) :
    ∃ P', (P' = [] ∨ ∃ q, P' = SP :: q) ∧ san (c ++ paramsBytes ps) = c ++ P' := by
  rcases paramsBytes_shape ps with h | ⟨q, h⟩
  · exact ⟨[], Or.inl rfl, by rw [h, List.append_nil, san_of_clean c hc]⟩
  · refine ⟨SP :: san q, Or.inr ⟨_, rfl⟩, ?_⟩
    rw [h, san_append_ascii c q SP (by decide) (by decide), san_of_clean c hc]

theorem takeWhile_cmd (c P' : Bytes) (hsp : SP ∉ c) (hP : P' = [] ∨ ∃ q, P' = SP :: q) :
    (c ++ P').takeWhile (· != SP) = c := by
  rcases hP with rfl | ⟨q, rfl⟩
  · rw [List.append_nil]; exact takeWhile_ne_self SP c hsp
  · exact takeWhile_ne_append SP c q hsp

theorem head?_append_of_ne_nil {c : Bytes} (P' : Bytes) (hne : c ≠ []) : (c ++ P').head? = c.head? := by
  cases c with
  | nil => exact absurd rfl hne
  | cons x c => rfl

/-- Skipping a sanitised leading section lands exactly on the sanitised remainder. -/
theorem skipSection_san (lead : Byte) (hl1 : lead < 0x80) (hl2 : isCRLF lead = false) (hl3 : lead ≠ SP)
    (S R : Bytes) (hS : Section lead S) (hR : (san R).head? ≠ some lead) :
    skipSection lead (san (S ++ R)) = san R ∧ (S ≠ [] → (san (S ++ R)).head? = some lead) := by
  rcases hS with rfl | ⟨u, rfl, hu⟩
  · exact ⟨by rw [List.nil_append]; exact skipSection_of_head_ne lead _ hR, fun h => absurd rfl h⟩
  · have e : lead :: u ++ [SP] ++ R = (lead :: u) ++ SP :: R := by simp
    rw [e, san_append_ascii (lead :: u) R SP (by decide) (by decide), san_cons_ascii lead u hl1 hl2]
    exact ⟨skipSection_lead lead hl3 (san u) (san R) (not_mem_san hu), fun _ => rfl⟩

/-- For a single-token command the wire line's command is the event's command, whatever bytes
    (CR, LF, NUL, invalid UTF-8, embedded commands) the parameters contain. The two stated hypotheses:
    source parts and tag keys/values contain no SPACE (tag maps built through `Tags.Set` never do). -/
theorem command_preserved (e : Event) (hc : singleToken e.command = true)
    (hs : ∀ s, e.source = some s → noSpace s.name = true ∧ noSpace s.ident = true ∧ noSpace s.host = true)
    (ht : ∀ t, e.tags = some t → ∀ p ∈ t, noSpace p.1 = true ∧ noSpace p.2 = true) :
    lineCommand (eventBytes e) = e.command := by
  obtain ⟨hne, hclean, hsp, hcol, hat⟩ := singleToken_facts hc
  obtain ⟨P', hP', hcore⟩ := san_cmd_params e.command e.params hclean
  have hT := section_tagsWrite e.tags ht
  have hS := section_source e.source hs
  have hraw := rawBytes_eq e
  generalize srcSec e.source = S at hS hraw
  have hhead2 : (san (e.command ++ paramsBytes e.params)).head? = e.command.head? := by
    rw [hcore]; exact head?_append_of_ne_nil P' hne
  obtain ⟨hskipS, hheadS⟩ := skipSection_san COLON (by decide) (by decide) (by decide) S
    (e.command ++ paramsBytes e.params) hS (by rw [hhead2]; exact hcol)
  have hhead1 : (san (S ++ (e.command ++ paramsBytes e.params))).head? ≠ some AT := by
    by_cases hSn : S = []
    · subst hSn; rw [List.nil_append, hhead2]; exact hat
    · rw [hheadS hSn]; decide
  obtain ⟨hskipT, -⟩ := skipSection_san AT (by decide) (by decide) (by decide) (tagsWrite e.tags)
    (S ++ (e.command ++ paramsBytes e.params)) hT hhead1
  unfold lineCommand
  rw [eventBytes_eq_san, hraw, hskipT, hskipS, hcore]
  exact takeWhile_cmd e.command P' hsp hP'

end Girc.Proofs.Serialize
