import Girc.Proofs.TransBase
import Girc.Proofs.TransSource
import Girc.Proofs.Glob
/-
  Translator equivalence, format.go: Glob.
-/
set_option linter.unusedSimpArgs false
namespace Girc.Proofs.Trans
open Girc Girc.Model Girc.Go Girc.Gen

theorem single_isPrefixOf (b : Byte) : ∀ l : Bytes, [b].isPrefixOf l = decide (l.head? = some b)
  | [] => by simp [List.isPrefixOf]
  | x :: xs => by
    by_cases h : b = x
    · subst h; simp [List.isPrefixOf]
    · have : ¬ x = b := fun e => h e.symm
      simp [List.isPrefixOf, h, this]

theorem hasPrefix_single (s : Bytes) (b : Byte) : hasPrefix s [b] = decide (s.head? = some b) :=
  single_isPrefixOf b s

theorem hasSuffix_single (s : Bytes) (b : Byte) : hasSuffix s [b] = decide (s.getLast? = some b) := by
  unfold hasSuffix isSuffixOfB
  rw [List.reverse_singleton, single_isPrefixOf, List.head?_reverse]

theorem findSub_bound {p s : Bytes} {i : Nat} (h : findSub p s = some i) : i + p.length ≤ s.length := by
  obtain ⟨a, b, hs, ha⟩ := Glob.findSub_some h
  subst hs; simp; omega

theorem take_drop_step {α : Type} (l : List α) (k n : Nat) (hk : k ≤ l.length) (hn : n < k) (x : α) (hx : l[n]? = some x) :
    (l.take k).drop n = x :: (l.take k).drop (n + 1) := by
  have hlt : n < (l.take k).length := by simp; omega
  rw [List.drop_eq_getElem_cons hlt]
  congr 1
  have : (l.take k)[n]? = some x := by rw [List.getElem?_take]; simp [hn, hx]
  have h2 := List.getElem?_eq_getElem hlt
  rw [h2] at this
  exact Option.some.inj this

theorem Glob_loop1_eq (parts : List Bytes) (last : Nat) (hl : last ≤ parts.length) :
    ∀ (fuel n : Nat) (input : Bytes), n ≤ last → last - n < fuel →
    Fn.Glob_loop1 parts (last : Int) fuel input (n : Int) =
      .ok (match globMiddle ((parts.take last).drop n) input with
           | none => .ret false
           | some rest => .done rest)
  | 0, _, _, _, h => by omega
  | fuel + 1, n, input, hn, hf => by
    unfold Fn.Glob_loop1
    by_cases hlt : n < last
    · have hnl : n < parts.length := by omega
      have hx : parts[n]? = some parts[n] := by simp [hnl]
      have hp := atL_nat parts n parts[n] hx
      have hd := take_drop_step parts last n hl hlt parts[n] hx
      generalize parts[n] = p at hx hp hd
      have e1 : ((n : Int) + 1) = ((n + 1 : Nat) : Int) := by omega
      have hc : decide ((n : Int) < (last : Int)) = true := by dec_tac
      simp only [hc, hp, bind, Except.bind, pure, Except.pure, e1, Bool.not_true, Bool.false_eq_true, if_false]
      rw [hd]
      unfold globMiddle containsSub indexI
      cases hf' : findSub p input with
      | none => simp
      | some j =>
        have hb := findSub_bound hf'
        have s1 := sliceI_int_end input ((j : Int) + len p) (j + p.length) (by simp [len]) hb
        simp only [Option.isSome_some, Bool.not_true, Bool.false_eq_true, if_false, s1]
        rw [Glob_loop1_eq parts last hl fuel (n + 1) _ (by omega) (by omega)]
    · have hc : decide ((n : Int) < (last : Int)) = false := by dec_tac
      have : (parts.take last).drop n = [] := by simp; omega
      simp only [hc, this, Bool.not_false, if_true, pure, Except.pure, globMiddle]

theorem Glob_eq (input pat : Bytes) : Fn.Glob input pat = .ok (glob input pat) := by
  unfold Fn.Glob glob
  have hg : Fn.globChar = [star] := rfl
  by_cases hp0 : pat = []
  · subst hp0; cases input <;> simp [pure, Except.pure]
  · by_cases hp1 : pat = [star]
    · subst hp1; simp [hg, pure, Except.pure, star]
    · have b0 : (pat == ([] : Bytes)) = false := by simp [hp0]
      have b1 : (pat == [star]) = false := by simp [hp1]
      simp only [hg, b0, b1, hp0, hp1, split_one, hasPrefix_single, hasSuffix_single, bind, Except.bind, pure, Except.pure,
        Bool.false_eq_true, if_false]
      cases hsp : splitOnByte star pat with
      | nil => exact absurd hsp (Glob.splitOnByte_ne_nil star pat)
      | cons first more =>
        cases more with
        | nil =>
          simp [len, hp1, b1]
          by_cases h : input = pat <;> simp [h]
        | cons m ms =>
          have hlen : (len (first :: m :: ms) == 1) = false := by simp [len]; omega
          have a0 : atL (first :: m :: ms) 0 = .ok first := atL_nat _ 0 first (by simp)
          have elast : len (first :: m :: ms) - 1 = ((ms.length + 1 : Nat) : Int) := by simp [len]
          have hlast : (first :: m :: ms)[ms.length + 1]? = some ((m :: ms).getLastD []) := by
            simp [List.getLastD_eq_getLast?, List.getLast?_eq_getElem?]
          have alast := atL_nat (first :: m :: ms) (ms.length + 1) _ hlast
          simp only [hlen, a0, elast, alast, Bool.false_eq_true, if_false, andE_ok_ok, orE_ok_ok]
          cases hc : (!decide (pat.head? = some star) && !hasPrefix input first)
          · -- the prefix test passes
            have hfl : first.length ≤ input.length := by
              cases hlead : decide (pat.head? = some star)
              · simp [hlead] at hc
                have : first <+: input := by simpa [hasPrefix] using hc
                exact this.length_le
              · have hh : pat.head? = some star := by simpa using hlead
                cases pat with
                | nil => simp at hh
                | cons x xs =>
                  simp at hh; subst hh
                  rw [Glob.splitOnByte_cons_sep] at hsp
                  have : first = [] := by simpa using (List.cons.inj hsp).1.symm
                  subst this; simp
            have s1 := sliceI_int_end input (len first) first.length rfl hfl
            have hloop := Glob_loop1_eq (first :: m :: ms) (ms.length + 1) (by simp) (fuelTo 1 ((ms.length + 1 : Nat) : Int)) 1
              (input.drop first.length) (by omega) (by fuel_tac)
            have htd : ((first :: m :: ms).take (ms.length + 1)).drop 1 = (m :: ms).dropLast := by
              simp [List.dropLast_eq_take]
            rw [htd] at hloop
            simp only [Int.natCast_one] at hloop
            have hc' : (!decide (pat.head? = some star) && !first.isPrefixOf input) = false := by simpa [hasPrefix] using hc
            simp only [Bool.false_eq_true, if_false, s1, hloop, hc']
            cases globMiddle (m :: ms).dropLast (List.drop first.length input) with
            | none => simp [hp1]
            | some rest => simp [hasSuffix, hp1, List.getLastD_eq_getLast?]
          · have hc' : (!decide (pat.head? = some star) && !first.isPrefixOf input) = true := by simpa [hasPrefix] using hc
            simp [hc', hp1]

end Girc.Proofs.Trans
