import Girc.Proofs.Utf8
import Girc.Proofs.RoundtripUtf8
/-
  Further UTF-8 facts for the message splitter: the '?'-sanitiser never lengthens, never empties,
  only introduces '?', and yields valid UTF-8; a valid string can be cut in front of any byte that
  is not a continuation byte.
-/
namespace Girc.Proofs.SplitUtf8
open Girc Girc.Proofs.Utf8 Girc.Proofs.RoundtripUtf8

theorem isCont_le : ∀ b : UInt8, isCont b = true → b ≤ 0xBF := by decide +kernel

/-- All bytes of an accepted encoding after the first are < 0xC0. -/
theorem utf8Width_tail_le (s : Bytes) (w : Nat) (h : utf8Width s = some w) :
    ∀ x ∈ (s.take w).tail, x ≤ 0xBF := by
  cases s with
  | nil => simp [utf8Width] at h
  | cons b0 rest =>
    by_cases h1 : b0 < 0x80
    · simp only [utf8Width, h1, if_true, Option.some.injEq] at h
      subst h; simp
    · by_cases h2 : (0xC2 ≤ b0 && b0 ≤ 0xDF) = true
      · simp only [utf8Width, h1, h2, if_true, if_false] at h
        cases rest with
        | nil => simp at h
        | cons b1 r =>
          simp only at h
          by_cases hc : isCont b1 = true
          · simp only [hc, if_true, Option.some.injEq] at h
            subst h
            intro x hx
            simp at hx
            subst hx
            exact isCont_le _ hc
          · simp [hc] at h
      · by_cases h3 : (0xE0 ≤ b0 && b0 ≤ 0xEF) = true
        · simp only [utf8Width, h1, h2, h3, if_true, if_false] at h
          cases rest with
          | nil => simp at h
          | cons b1 r =>
            cases r with
            | nil => simp at h
            | cons b2 r =>
              simp only at h
              by_cases hc : ((if b0 = 0xE0 then (0xA0 : UInt8) else 0x80) ≤ b1 &&
                  b1 ≤ (if b0 = 0xED then (0x9F : UInt8) else 0xBF) && isCont b2) = true
              · simp only [hc, if_true, if_false, Bool.false_eq_true, Option.some.injEq] at h
                subst h
                intro x hx
                simp only [Bool.and_eq_true, decide_eq_true_eq] at hc
                simp at hx
                rcases hx with hx | hx
                · subst hx
                  by_cases he : b0 = 0xED
                  · simp only [he, if_true] at hc
                    exact UInt8.le_trans hc.1.2 (by decide)
                  · simp only [he, if_false] at hc
                    exact hc.1.2
                · subst hx
                  exact isCont_le _ hc.2
              · simp [hc] at h
        · by_cases h4 : (0xF0 ≤ b0 && b0 ≤ 0xF4) = true
          · simp only [utf8Width, h1, h2, h3, h4, if_true, if_false] at h
            cases rest with
            | nil => simp at h
            | cons b1 r =>
              cases r with
              | nil => simp at h
              | cons b2 r =>
                cases r with
                | nil => simp at h
                | cons b3 r =>
                  simp only at h
                  by_cases hc : ((if b0 = 0xF0 then (0x90 : UInt8) else 0x80) ≤ b1 &&
                      b1 ≤ (if b0 = 0xF4 then (0x8F : UInt8) else 0xBF) && isCont b2 &&
                      isCont b3) = true
                  · simp only [hc, if_true, if_false, Bool.false_eq_true, Option.some.injEq] at h
                    subst h
                    intro x hx
                    simp only [Bool.and_eq_true, decide_eq_true_eq] at hc
                    simp at hx
                    rcases hx with hx | hx | hx
                    · subst hx
                      by_cases he : b0 = 0xF4
                      · simp only [he, if_true] at hc
                        exact UInt8.le_trans hc.1.1.2 (by decide)
                      · simp only [he, if_false] at hc
                        exact hc.1.1.2
                    · subst hx
                      exact isCont_le _ hc.1.2
                    · subst hx
                      exact isCont_le _ hc.2
                  · simp [hc] at h
          · simp [utf8Width, h1, h2, h3, h4] at h

/-- A byte that can start an encoding (ASCII or ≥ 0xC0). -/
def isLead (c : Byte) : Prop := c < 0x80 ∨ 0xC0 ≤ c

theorem not_tail_of_lead : ∀ c : UInt8, (c < 0x80 ∨ 0xC0 ≤ c) → ¬ (0x80 ≤ c ∧ c ≤ 0xBF) := by
  decide +kernel

/-- Cutting a valid string in front of a lead byte. -/
theorem _root_.Girc.Proofs.RoundtripUtf8.Valid.cut_lead {s : Bytes} (hs : Valid s) :
    ∀ (a : Bytes) (c : Byte) (b : Bytes), s = a ++ c :: b → isLead c → Valid a := by
  induction hs with
  | nil => intro a c b h; simp at h
  | step s w hw hv ih =>
    intro a c b hs hc
    cases ha : a with
    | nil => exact Valid.nil
    | cons x a' =>
      obtain ⟨h1, h2, h3, h4⟩ := utf8Width_spec s w hw
      have h5 := utf8Width_tail_le s w hw
      have hle : w ≤ a.length := by
        apply Nat.le_of_not_lt
        intro hlt
        have hmem : c ∈ (s.take w).tail := by
          rw [hs, List.take_append, ha]
          have : w - (x :: a').length = (w - (x :: a').length - 1) + 1 := by
            rw [ha] at hlt; omega
          rw [List.take_of_length_le (by rw [ha] at hlt; omega), this]
          simp
        exact not_tail_of_lead c hc ⟨h4 c hmem, h5 c hmem⟩
      have htake : s.take w = a.take w := by
        rw [hs, List.take_append_of_le_length hle]
      have hwa : utf8Width a = some w := by
        have := h3 (a.drop w)
        rw [htake, List.take_append_drop] at this
        exact this
      have hdrop : s.drop w = a.drop w ++ c :: b := by
        rw [hs, List.drop_append_of_le_length hle]
      rw [← ha]
      exact Valid.step a w hwa (ih (a.drop w) c b hdrop hc)

theorem _root_.Girc.Proofs.RoundtripUtf8.Valid.append {a b : Bytes} (ha : Valid a) (hb : Valid b) : Valid (a ++ b) :=
  (validUTF8_iff _).mp (validUTF8_append a b ((validUTF8_iff _).mpr ha) ((validUTF8_iff _).mpr hb))

/-- Both sides of a cut in front of a lead byte (or at the end) are valid. -/
theorem _root_.Girc.Proofs.RoundtripUtf8.Valid.split_lead {a r : Bytes} (h : Valid (a ++ r))
    (hr : r = [] ∨ ∃ c r', r = c :: r' ∧ isLead c) : Valid a ∧ Valid r := by
  rcases hr with rfl | ⟨c, r', rfl, hc⟩
  · exact ⟨by simpa using h, Valid.nil⟩
  · have ha := h.cut_lead a c r' rfl hc
    exact ⟨ha, ha.drop_prefix _ h⟩

/-- The first rune of a valid string, and the rest. -/
theorem _root_.Girc.Proofs.RoundtripUtf8.Valid.uncons {s : Bytes} (h : Valid s) (hs : s ≠ []) :
    ∃ w, utf8Width s = some w ∧ Valid (s.drop w) := by
  cases h with
  | nil => exact absurd rfl hs
  | step _ w hw hv => exact ⟨w, hw, hv⟩

theorem _root_.Girc.Proofs.RoundtripUtf8.Valid.rune {s : Bytes} {w : Nat} (hw : utf8Width s = some w) : Valid (s.take w) := by
  obtain ⟨h1, h2, h3, _⟩ := utf8Width_spec s w hw
  refine Valid.step _ w (by simpa using h3 []) ?_
  rw [List.drop_take]
  simp
  exact Valid.nil

/-! ### The sanitiser with a one-byte ASCII replacement -/

theorem tv_length_le (q : Byte) (run : Bool) (s : Bytes) : (tv [q] run s).length ≤ s.length := by
  induction s using bytes_strong_induction generalizing run with
  | _ s ih =>
    match s, ih with
    | [], _ => simp
    | b :: rest, ih =>
      cases hw : utf8Width (b :: rest) with
      | some w =>
        have hb := utf8Width_bounds hw
        rw [tv_of_width_some _ _ hw]
        have := ih ((b :: rest).drop w) (length_drop_lt hw) false
        simp only [List.length_append, List.length_take, List.length_drop] at this ⊢
        omega
      | none =>
        rw [tv_of_width_none _ _ hw]
        have := ih rest (by simp) true
        simp only [List.length_append, List.length_cons]
        split <;> simp <;> omega

theorem toValidUTF8_length_le (q : Byte) (s : Bytes) : (toValidUTF8 [q] s).length ≤ s.length :=
  tv_length_le q false s

theorem toValidUTF8_ne_nil (q : Byte) (s : Bytes) (hs : s ≠ []) : toValidUTF8 [q] s ≠ [] := by
  rw [toValidUTF8_eq_tv]
  match s, hs with
  | b :: rest, _ =>
    cases hw : utf8Width (b :: rest) with
    | some w =>
      have hb := utf8Width_bounds hw
      rw [tv_of_width_some _ _ hw]
      intro h
      have := congrArg List.length h
      simp only [List.length_append, List.length_take, List.length_nil] at this
      simp only [List.length_cons] at hb this
      omega
    | none =>
      rw [tv_of_width_none _ _ hw]
      simp

theorem mem_tv (q : Byte) (run : Bool) (s : Bytes) : ∀ x ∈ tv [q] run s, x ∈ s ∨ x = q := by
  induction s using bytes_strong_induction generalizing run with
  | _ s ih =>
    match s, ih with
    | [], _ => simp
    | b :: rest, ih =>
      intro x hx
      cases hw : utf8Width (b :: rest) with
      | some w =>
        rw [tv_of_width_some _ _ hw] at hx
        rcases List.mem_append.mp hx with hx | hx
        · exact Or.inl (List.mem_of_mem_take hx)
        · rcases ih _ (length_drop_lt hw) false x hx with h | h
          · exact Or.inl (List.mem_of_mem_drop h)
          · exact Or.inr h
      | none =>
        rw [tv_of_width_none _ _ hw] at hx
        rcases List.mem_append.mp hx with hx | hx
        · right
          split at hx <;> simp_all
        · rcases ih rest (by simp) true x hx with h | h
          · exact Or.inl (List.mem_cons_of_mem _ h)
          · exact Or.inr h

theorem mem_toValidUTF8 (q : Byte) (s : Bytes) : ∀ x ∈ toValidUTF8 [q] s, x ∈ s ∨ x = q :=
  mem_tv q false s

theorem valid_tv (q : Byte) (hq : q < 0x80) (run : Bool) (s : Bytes) : Valid (tv [q] run s) := by
  induction s using bytes_strong_induction generalizing run with
  | _ s ih =>
    match s, ih with
    | [], _ => exact Valid.nil
    | b :: rest, ih =>
      cases hw : utf8Width (b :: rest) with
      | some w =>
        rw [tv_of_width_some _ _ hw]
        exact (Valid.rune hw).append (ih _ (length_drop_lt hw) false)
      | none =>
        rw [tv_of_width_none _ _ hw]
        refine Valid.append ?_ (ih rest (by simp) true)
        split
        · exact Valid.nil
        · exact valid_single q hq

theorem valid_toValidUTF8 (q : Byte) (hq : q < 0x80) (s : Bytes) : Valid (toValidUTF8 [q] s) :=
  valid_tv q hq false s

theorem toValidUTF8_of_Valid (r s : Bytes) (h : Valid s) : toValidUTF8 r s = s :=
  toValidUTF8_of_valid r s ((validUTF8_iff _).mpr h)

end Girc.Proofs.SplitUtf8
