import Girc.Proofs.TransSplit
import Girc.Proofs.TransSliceInsert
/-
  Tie (TieSplit): the function bodies regenerated from the Go source on every run (Girc/Gen/Funcs.lean, written by
  tools/extract/translate.go) equal the hand-written models the property theorems of C11 are about, for ALL inputs.
  Only restatements of theorems proved in Girc/Proofs/Trans*.lean, each with a non-vacuity example that evaluates the
  generated function on a literal. An edit of the Go function changes Funcs.lean and the equivalence stops building.

  `splitMessage` is NOT translated: `Fn.Event_split` calls the designated model function `Model.splitMessageGo isURL`
  (translate.go `modelCalleeTable`; `isURL` = the oracle `url.Parse(word) == nil`, a parameter).  The tie is therefore
  "the event side of `(*Event).split` (which events are left alone, the width handed to the text splitter, the CTCP
  wrapping, the clones) is the model's `eventSplit`, for every oracle"; the text splitter itself is compared with Go by
  the harness' C11 correspondence stream.  A `*Event` is a value (`Option Event`): where Go returns the pointer `e`
  itself the theorem says `some e`; pointer identity is outside the value model.
-/
namespace Girc.Props.TieSplit
open Girc Girc.Model Girc.Gen

/-! ### event.go -/

/-- The hypothesis is the representation invariant of a Go map (an association list with unique keys): `Copy` rebuilds
    the tag map entry by entry. -/
theorem tie_Event_split : ∀ (isURL : Bytes → Bool) (e : Event), (∀ m, e.tags = some m → (AMap.keys m).Nodup) →
    ∀ maxLength : Int, Fn.Event_split isURL (some e) maxLength = .ok ((eventSplit isURL e maxLength).map some) :=
  Proofs.Trans.Event_split_eq
theorem tie_Event_split_nil : ∀ (isURL : Bytes → Bool) (m : Int), Fn.Event_split isURL none m = .error .nilDeref :=
  Proofs.Trans.Event_split_nil
-- PRIVMSG #c :aaaa bbbb cccc  with maxLength 20 ("PRIVMSG #c :" is 12 bytes): three events
example : Fn.Event_split (fun _ => false) (some { command := PRIVMSG, params := [[0x23, 0x63],
      [0x61, 0x61, 0x61, 0x61, 0x20, 0x62, 0x62, 0x62, 0x62, 0x20, 0x63, 0x63, 0x63, 0x63]] }) 20 =
    .ok [some { command := PRIVMSG, params := [[0x23, 0x63], [0x61, 0x61, 0x61, 0x61]] },
         some { command := PRIVMSG, params := [[0x23, 0x63], [0x62, 0x62, 0x62, 0x62]] },
         some { command := PRIVMSG, params := [[0x23, 0x63], [0x63, 0x63, 0x63, 0x63]] }] := by rfl
-- a short event is returned as it is
example : Fn.Event_split (fun _ => false) (some { command := PRIVMSG, params := [[0x23, 0x63], [0x61]] }) 510 =
    .ok [some { command := PRIVMSG, params := [[0x23, 0x63], [0x61]] }] := by rfl

/-! ### format.go -/

/-- `sliceInsert` for EVERY content of the spare capacity of `input` (both the in-place and the allocating branch). -/
theorem tie_sliceInsert : ∀ (spare input : List Bytes) (i : Int) (v : List Bytes),
    Fn.sliceInsert spare input i v = Model.sliceInsert input i v := Proofs.Trans.sliceInsert_eq
example : Fn.sliceInsert [] [[0x61], [0x62]] 1 [[], [0x63]] = .ok [[0x61], [], [0x63], [0x62]] := by rfl
example : Fn.sliceInsert [[0x7A], [0x7A], [0x7A]] [[0x61], [0x62]] 1 [[], [0x63]] = .ok [[0x61], [], [0x63], [0x62]] := by rfl
example : Fn.sliceInsert [] [[0x61]] 2 [[0x63]] = .error .sliceBounds := by rfl

/-- One step of the newline pass of `splitMessage` has the shape of the model's `expandNewlines`. -/
theorem tie_sliceInsert_newline_step : ∀ (pre rest : List Bytes) (w head tail : Bytes),
    Model.sliceInsert ((pre ++ w :: rest).set pre.length head) ((pre.length : Int) + 1) [[], tail] =
      .ok (pre ++ head :: [] :: tail :: rest) := Proofs.Trans.sliceInsert_newline_step

end Girc.Props.TieSplit
