import Girc.Model.Run
import Girc.Model.Sts
import Girc.Model.Log
import Girc.Spec.EventSpec
import Girc.Proofs.Roundtrip
/-
  Proof obligations over the handler model for C08 (capabilities), C09 (SASL protocol), C10 (STS),
  C14 (reply discipline) and C17 (PING / nick collisions).
-/
namespace Girc.Proofs.ProtocolA
open Girc Girc.Model Girc.Spec

/-! ## C17 -/

/-- A PONG carrying any clean token (with or without spaces, empty, colon-leading) parses back to
    exactly that token on the server side. -/
theorem pong_wire (tok : Bytes) (h : fieldOK tok = true) :
    ∃ e', parseEvent (eventBytes { command := cPONG, params := [tok] }) = some e' ∧
      e'.command = cPONG ∧ e'.params = [tok] := by
  have hwf : WFEvent { command := cPONG, params := [tok] } = true := by
    have h1 : wfCmd cPONG = true := by decide
    have h2 : 2 ≤ (rawBytes { command := cPONG, params := [tok] }).length := by
      simp [rawBytes, tagsWrite, tagsBytes, cPONG]
    simp only [WFEvent, h1, wfParams, h, Option.all_none, Bool.and_self, h2, decide_true]
  obtain ⟨e', hp, hc, hps, _⟩ := Roundtrip.roundtrip_event _ hwf
  exact ⟨e', hp, hc, hps⟩

def isNickErr (c : Bytes) : Bool := c = c433 || c = c436 || c = c437

/-- The nickname a collision numeric "<client> <nick> :reason" rejects (else the current one). -/
def rejectedNick (cfg : Cfg) (st : St) (e : Event) : Bytes :=
  match e.params with
  | _ :: n :: _ => if isValidNick n then n else collisionBase cfg st
  | _ => collisionBase cfg st

def nickEvent (n : Bytes) : Event := { command := cNICK, params := [n] }

theorem decodeCTCP_none_of_cmd (e : Event) (h1 : e.command ≠ PRIVMSG) (h2 : e.command ≠ NOTICE) :
    decodeCTCP e = none := by
  unfold decodeCTCP
  split
  · simp [h1, h2]
  · rfl

theorem isEcho_false_of_cmd (cfg : Cfg) (st : St) (e : Event) (h1 : e.command ≠ PRIVMSG) (h2 : e.command ≠ NOTICE) :
    isEcho cfg st e = false := by
  simp [isEcho, h1, h2]

/-- The state the command handlers see. -/
def tagged (cfg : Cfg) (cs : CState) (e : Event) : CState :=
  if cfg.disableTracking then cs else { cs with st := handleTags cs.st e }

theorem handleEvent_of_cmd (cfg : Cfg) (cs : CState) (e : Event) (time idle : Bytes)
    (h1 : e.command ≠ PRIVMSG) (h2 : e.command ≠ NOTICE) (cs' : CState) (outs : List Out)
    (h : handleCommand cfg (tagged cfg cs e) e = .ok (cs', outs)) :
    handleEvent cfg cs e time idle = .ok (cs', outs) := by
  unfold handleEvent
  simp only [isEcho_false_of_cmd cfg cs.st e h1 h2, decodeCTCP_none_of_cmd e h1 h2]
  unfold tagged at h
  simp [h, bind, Except.bind]

theorem handleTags_nick (st : St) (e : Event) : (handleTags st e).nick = st.nick := by
  unfold handleTags
  split
  · split
    · rfl
    · split
      · unfold updUser; split <;> rfl
      · rfl
  · rfl

theorem getNick_handleTags (cfg : Cfg) (st : St) (e : Event) : getNick cfg (handleTags st e) = getNick cfg st := by
  simp [getNick, handleTags_nick]

theorem rejectedNick_tagged (cfg : Cfg) (cs : CState) (e : Event) :
    rejectedNick cfg (tagged cfg cs e).st e = rejectedNick cfg cs.st e := by
  unfold tagged
  split
  · rfl
  · simp only [rejectedNick, collisionBase, getNick_handleTags]

theorem nickCollision_none (cfg : Cfg) (st : St) (e : Event) (hcb : cfg.nickCollide = .none) :
    nickCollision cfg st e = [Out.send (nickEvent (rejectedNick cfg st e ++ [0x5F]))] := by
  simp only [nickCollision, hcb, rejectedNick, nickEvent]
  generalize e.params = ps
  rcases ps with _ | ⟨a, _ | ⟨b, t⟩⟩ <;> rfl

theorem handleCommand_nickErr (cfg : Cfg) (cs : CState) (e : Event) (hc : isNickErr e.command = true) :
    handleCommand cfg cs e = .ok (cs, nickCollision cfg cs.st e) := by
  have h1 : e.command ≠ cPING := by
    intro h; rw [h] at hc; revert hc; decide
  have h2 : e.command ≠ c001 := by
    intro h; rw [h] at hc; revert hc; decide
  unfold isNickErr at hc
  unfold handleCommand
  simp only [h1, h2, hc, if_false, if_true]

theorem nickErr_not_msg (c : Bytes) (hc : isNickErr c = true) : c ≠ PRIVMSG ∧ c ≠ NOTICE := by
  constructor <;> (intro h; rw [h] at hc; revert hc; decide)

/-- Exactly one alternative per numeric, whatever else the line carries, before or after
    registration, with tracking on or off: by default the rejected nick with one more '_'. -/
theorem collision_default (cfg : Cfg) (cs : CState) (e : Event) (time idle : Bytes)
    (hc : isNickErr e.command = true) (hcb : cfg.nickCollide = .none) :
    ∃ cs', handleEvent cfg cs e time idle = .ok (cs', [Out.send (nickEvent (rejectedNick cfg cs.st e ++ [0x5F]))]) := by
  obtain ⟨h1, h2⟩ := nickErr_not_msg _ hc
  refine ⟨tagged cfg cs e, handleEvent_of_cmd cfg cs e time idle h1 h2 _ _ ?_⟩
  rw [handleCommand_nickErr cfg _ e hc, ← rejectedNick_tagged, nickCollision_none _ _ _ hcb]

/-- With a callback: its value, and nothing if it returns the empty string. -/
theorem collision_callback (cfg : Cfg) (cs : CState) (e : Event) (time idle : Bytes) (n : Bytes)
    (hc : isNickErr e.command = true) (hcb : cfg.nickCollide = .fixed n) :
    ∃ cs', handleEvent cfg cs e time idle = .ok (cs', if n.isEmpty then [] else [Out.send (nickEvent n)]) := by
  obtain ⟨h1, h2⟩ := nickErr_not_msg _ hc
  refine ⟨tagged cfg cs e, handleEvent_of_cmd cfg cs e time idle h1 h2 _ _ ?_⟩
  rw [handleCommand_nickErr cfg _ e hc]
  simp only [nickCollision, hcb, nickEvent]

/-- The k-th proposal when the server rejects every proposal in turn. -/
def proposal (nick : Bytes) : Nat → Bytes
  | 0 => nick
  | k + 1 => proposal nick k ++ [0x5F]

theorem isValidNick_snoc (s : Bytes) (h : isValidNick s = true) : isValidNick (s ++ [0x5F]) = true := by
  cases s with
  | nil => cases h
  | cons c rest =>
    have h5 : nickRest 0x5F = true := by decide
    simp only [isValidNick, Bool.and_eq_true] at h
    simp only [List.cons_append, isValidNick, List.all_append, List.all_cons, List.all_nil, h.1, h.2, h5,
      Bool.and_self]

theorem proposal_valid (nick : Bytes) (hn : isValidNick nick = true) (k : Nat) :
    isValidNick (proposal nick k) = true := by
  induction k with
  | zero => exact hn
  | succ k ih => exact isValidNick_snoc _ ih

theorem proposal_eq (nick : Bytes) (k : Nat) : proposal nick k = nick ++ List.replicate k 0x5F := by
  induction k with
  | zero => simp [proposal]
  | succ k ih => simp [proposal, ih, List.replicate_succ']

theorem proposal_length (nick : Bytes) (k : Nat) : (proposal nick k).length = nick.length + k := by
  simp [proposal_eq]

/-- Successive collisions: nick_, nick__, … — each numeric names the previous proposal, the answer
    appends one more '_'; all proposals are valid nicks and pairwise distinct, so a rejected
    nickname is never proposed again. -/
theorem collision_progression (nick : Bytes) (hn : isValidNick nick = true) :
    (∀ k, isValidNick (proposal nick k) = true) ∧
    (∀ k, proposal nick k = nick ++ List.replicate k 0x5F) ∧
    (∀ i j, i ≠ j → proposal nick i ≠ proposal nick j) ∧
    (∀ (cfg : Cfg) (st : St) (k : Nat) (cl reason : Bytes), cfg.nickCollide = .none →
      nickCollision cfg st { command := c433, params := [cl, proposal nick k, reason] } =
        [Out.send (nickEvent (proposal nick (k + 1)))]) := by
  refine ⟨proposal_valid nick hn, proposal_eq nick, ?_, ?_⟩
  · intro i j hij h
    have := congrArg List.length h
    simp only [proposal_length] at this
    omega
  · intro cfg st k cl reason hcb
    simp only [nickCollision, hcb, proposal_valid nick hn k, if_true, nickEvent, proposal]

/-! ## C14 reply discipline -/

theorem ctcpCall_cases (cfg : Cfg) (ev : CTCPEvent) (time idle : Bytes) :
    ctcpCall cfg ev time idle = [] ∨
    (ev.reply = false ∧ ev.command ≠ tACTION ∧ ∃ src typ msg, ev.source = some src ∧ typ ≠ [] ∧
      ctcpCall cfg ev time idle = [ctcpReply (fold src.name) typ msg]) := by
  unfold ctcpCall
  simp only
  split
  · split
    · exact .inl rfl
    · rename_i hk ha
      split
      · rename_i src hsrc
        split
        · rename_i hr
          simp only [Bool.and_eq_true, Bool.not_eq_eq_eq_not, Bool.not_true] at hr
          exact .inr ⟨hr.1, ha, src, tERRMSG, sUnknownCtcp, hsrc, by decide, rfl⟩
        · exact .inl rfl
      · exact .inl rfl
  · rename_i hk
    have ha : ev.command ≠ tACTION := by
      intro h; rw [h] at hk; revert hk; decide
    split
    · exact .inl rfl
    · rename_i hr
      simp only [Bool.not_eq_true] at hr
      split
      · exact .inl rfl
      · rename_i src hsrc
        split
        · exact .inr ⟨hr, ha, src, _, _, hsrc, by decide, rfl⟩
        split
        · exact .inr ⟨hr, ha, src, _, _, hsrc, by decide, rfl⟩
        split
        · exact .inr ⟨hr, ha, src, _, _, hsrc, by decide, rfl⟩
        split
        · exact .inr ⟨hr, ha, src, _, _, hsrc, by decide, rfl⟩
        split
        · exact .inr ⟨hr, ha, src, _, _, hsrc, by decide, rfl⟩
        · exact .inr ⟨hr, ha, src, _, _, hsrc, by decide, rfl⟩

theorem ctcpCall_reply (cfg : Cfg) (ev : CTCPEvent) (time idle : Bytes) (h : ev.reply = true) :
    ctcpCall cfg ev time idle = [] := by
  rcases ctcpCall_cases cfg ev time idle with h' | ⟨h', _⟩
  · exact h'
  · rw [h] at h'; cases h'

theorem decodeCTCP_some (e : Event) (ev : CTCPEvent) (h : decodeCTCP e = some ev) :
    ev.reply = (e.command == NOTICE) ∧ ev.source = e.source := by
  unfold decodeCTCP at h
  split at h
  · split at h
    · cases h
    split at h
    · cases h
    split at h
    · cases h
    simp only at h
    split at h
    · split at h
      · cases h; exact ⟨rfl, rfl⟩
      · cases h
    · split at h
      · cases h; exact ⟨rfl, rfl⟩
      · cases h
  · cases h

/-- Every automatic answer is a NOTICE to the (folded) requester, produced only for a request
    (not a reply) that carries a source, and never for ACTION. -/
theorem reply_discipline (cfg : Cfg) (ev : CTCPEvent) (time idle : Bytes) :
    ∀ o ∈ ctcpCall cfg ev time idle,
      ev.reply = false ∧ ev.command ≠ tACTION ∧
      ∃ src typ msg, ev.source = some src ∧ typ ≠ [] ∧
        o = Out.send { command := NOTICE, params := [fold src.name, encodeCTCPRaw typ msg] } := by
  intro o ho
  rcases ctcpCall_cases cfg ev time idle with h | ⟨hr, ha, src, typ, msg, hsrc, ht, h⟩
  · rw [h] at ho; cases ho
  · rw [h] at ho
    simp only [List.mem_singleton] at ho
    exact ⟨hr, ha, src, typ, msg, hsrc, ht, ho⟩

/-- At the level of received events: CTCP answers come only from PRIVMSG events. -/
theorem replies_only_to_privmsg (cfg : Cfg) (e : Event) (ev : CTCPEvent) (time idle : Bytes)
    (hd : decodeCTCP e = some ev) (hne : ctcpCall cfg ev time idle ≠ []) :
    e.command = PRIVMSG ∧ e.source.isSome := by
  rcases ctcpCall_cases cfg ev time idle with h | ⟨hr, ha, src, typ, msg, hsrc, ht, h⟩
  · exact absurd h hne
  · obtain ⟨h1, h2⟩ := decodeCTCP_some e ev hd
    have hn : e.command ≠ NOTICE := by
      intro hc; rw [hc] at h1; rw [hr] at h1; revert h1; decide
    constructor
    · false_or_by_contra
      rename_i hp
      rw [decodeCTCP_none_of_cmd e hp hn] at hd
      cases hd
    · rw [← h2, hsrc]; rfl

/-- No reply loop: whatever a client answers automatically, received by ANY client (any
    configuration, as a NOTICE from anyone), triggers no automatic answer. -/
theorem no_reply_loop (cfg cfg' : Cfg) (ev : CTCPEvent) (time idle time' idle' : Bytes) :
    ∀ o ∈ ctcpCall cfg ev time idle, ∀ reply, o = Out.send reply →
      ∀ (src' : Option Source) (tags' : Option Tags) (ev' : CTCPEvent),
        decodeCTCP { reply with source := src', tags := tags' } = some ev' →
        ctcpCall cfg' ev' time' idle' = [] := by
  intro o ho reply hrep src' tags' ev' hd
  obtain ⟨_, _, src, typ, msg, _, _, ho'⟩ := reply_discipline cfg ev time idle o ho
  rw [ho'] at hrep
  cases hrep
  obtain ⟨h1, _⟩ := decodeCTCP_some _ ev' hd
  apply ctcpCall_reply
  rw [h1]
  show (NOTICE == NOTICE) = true
  decide

/-! ## C09 protocol -/

def isSaslCmd (c : Bytes) : Bool :=
  c = cAUTHENTICATE || c = c902 || c = c903 || c = c904 || c = c905 || c = c906 || c = c907 || c = c908

theorem isSaslCmd_cases {c : Bytes} (h : isSaslCmd c = true) :
    c = cAUTHENTICATE ∨ c = c902 ∨ c = c903 ∨ c = c904 ∨ c = c905 ∨ c = c906 ∨ c = c907 ∨ c = c908 := by
  simpa [isSaslCmd, or_assoc] using h

theorem handleCommand_saslErr (cfg : Cfg) (cs : CState) (e : Event) (ht : cfg.disableTracking = false)
    (hc : e.command = c902 ∨ e.command = c904 ∨ e.command = c905 ∨ e.command = c906 ∨ e.command = c908) :
    handleCommand cfg cs e = .ok (cs, handleSASLError cfg e) := by
  unfold handleCommand
  rcases hc with h | h | h | h | h <;> simp only [h, ht] <;> simp (decide := true)

theorem handleCommand_sasl (cfg : Cfg) (cs : CState) (e : Event) (ht : cfg.disableTracking = false)
    (hc : e.command = cAUTHENTICATE ∨ e.command = c903) :
    handleCommand cfg cs e = .ok (handleSASL cfg cs e) := by
  unfold handleCommand
  rcases hc with h | h <;> simp only [h, ht] <;> simp (decide := true)

theorem handleCommand_907 (cfg : Cfg) (cs : CState) (e : Event) (hc : e.command = c907) :
    handleCommand cfg cs e = .ok (cs, []) := by
  unfold handleCommand
  simp only [hc]
  simp (decide := true)

theorem handleCommand_sasl_notrack (cfg : Cfg) (cs : CState) (e : Event) (ht : cfg.disableTracking = true)
    (hc : isSaslCmd e.command = true) :
    handleCommand cfg cs e = .ok (cs, []) := by
  unfold handleCommand
  rcases isSaslCmd_cases hc with h | h | h | h | h | h | h | h <;> simp only [h, ht] <;> simp (decide := true)

/-- Once authentication is in progress, CAP END is written only for the success numeric. -/
theorem sasl_end_only_on_success (cfg : Cfg) (cs : CState) (e : Event) (m : SaslCfg) (cs' : CState) (outs : List Out)
    (hs : cfg.sasl = some m) (hc : isSaslCmd e.command = true)
    (h : handleCommand cfg cs e = .ok (cs', outs)) (hend : Out.write capEnd ∈ outs) : e.command = c903 := by
  cases ht : cfg.disableTracking
  · rcases isSaslCmd_cases hc with hc | hc | hc | hc | hc | hc | hc | hc
    · rw [handleCommand_sasl cfg cs e ht (.inl hc)] at h
      have h1 : ¬ (cAUTHENTICATE = c903) := by decide
      have h2 : ¬ (cAUTHENTICATE = c907) := by decide
      exfalso
      cases hg : (m.encode cs.saslCalls e.params).isEmpty <;>
        simp only [handleSASL, hc, hs, h1, h2, Bool.or_self, decide_false, hg, Except.ok.injEq] at h <;>
        obtain ⟨_, rfl⟩ := h
      · simp only [List.mem_map] at hend
        obtain ⟨c, _, hc⟩ := hend
        have : cAUTHENTICATE = cCAP :=
          congrArg (fun o => match o with | Out.write e => e.command | _ => []) hc
        exact absurd this (by decide)
      · simp at hend
    · rw [handleCommand_saslErr cfg cs e ht (by simp [hc])] at h
      cases h
      simp [handleSASLError, hs] at hend
    · exact hc
    · rw [handleCommand_saslErr cfg cs e ht (by simp [hc])] at h
      cases h
      simp [handleSASLError, hs] at hend
    · rw [handleCommand_saslErr cfg cs e ht (by simp [hc])] at h
      cases h
      simp [handleSASLError, hs] at hend
    · rw [handleCommand_saslErr cfg cs e ht (by simp [hc])] at h
      cases h
      simp [handleSASLError, hs] at hend
    · rw [handleCommand_907 cfg cs e hc] at h
      cases h; cases hend
    · rw [handleCommand_saslErr cfg cs e ht (by simp [hc])] at h
      cases h
      simp [handleSASLError, hs] at hend
  · rw [handleCommand_sasl_notrack cfg cs e ht hc] at h
    cases h; cases hend

/-- Any SASL failure numeric injects a local ERROR and writes nothing. -/
theorem sasl_failure_injects_error (cfg : Cfg) (cs : CState) (e : Event) (m : SaslCfg)
    (hs : cfg.sasl = some m) (ht : cfg.disableTracking = false)
    (hc : e.command = c902 ∨ e.command = c904 ∨ e.command = c905 ∨ e.command = c906 ∨ e.command = c908) :
    handleCommand cfg cs e = .ok (cs, [Out.inject (errorEvent (sClosing ++ e.last))]) := by
  rw [handleCommand_saslErr cfg cs e ht hc]
  simp [handleSASLError, hs]

/-- A mechanism that gives up (empty response) injects a local ERROR and writes nothing. -/
theorem sasl_giveup_injects_error (cfg : Cfg) (cs : CState) (e : Event) (m : SaslCfg)
    (hs : cfg.sasl = some m) (ht : cfg.disableTracking = false) (hc : e.command = cAUTHENTICATE)
    (hg : m.encode cs.saslCalls e.params = []) :
    ∃ cs', handleCommand cfg cs e = .ok (cs', [Out.inject (errorEvent (sClosingSasl ++ m.method ++ sFailed ++ e.last))]) := by
  rw [handleCommand_sasl cfg cs e ht (.inl hc)]
  have h1 : ¬ (cAUTHENTICATE = c903) := by decide
  have h2 : ¬ (cAUTHENTICATE = c907) := by decide
  simp only [handleSASL, hc, hs, h1, h2, Bool.or_self, decide_false, hg]
  exact ⟨_, rfl⟩

/-- Otherwise the response goes out as the chunk sequence of `saslChunks` (see `chunks_exact`). -/
theorem sasl_response_chunked (cfg : Cfg) (cs : CState) (e : Event) (m : SaslCfg)
    (hs : cfg.sasl = some m) (ht : cfg.disableTracking = false) (hc : e.command = cAUTHENTICATE)
    (hg : m.encode cs.saslCalls e.params ≠ []) :
    ∃ cs', handleCommand cfg cs e = .ok (cs',
      (saslChunks (m.encode cs.saslCalls e.params)).map fun c => Out.write { command := cAUTHENTICATE, params := [c] }) := by
  rw [handleCommand_sasl cfg cs e ht (.inl hc)]
  have h1 : ¬ (cAUTHENTICATE = c903) := by decide
  have h2 : ¬ (cAUTHENTICATE = c907) := by decide
  have h3 : (m.encode cs.saslCalls e.params).isEmpty = false := by
    simpa using hg
  simp only [handleSASL, hc, hs, h1, h2, Bool.or_self, decide_false, h3]
  exact ⟨_, rfl⟩

theorem handleCommand_error (cfg : Cfg) (cs : CState) (e : Event) (hc : e.command = cERROR) :
    handleCommand cfg cs e = .ok (cs, []) := by
  unfold handleCommand
  simp only [hc]
  simp (decide := true)

theorem saslErr_cmd_ne {c : Bytes} (hc : c = c902 ∨ c = c904 ∨ c = c905 ∨ c = c906 ∨ c = c908) :
    c ≠ PRIVMSG ∧ c ≠ NOTICE ∧ c ≠ cERROR := by
  rcases hc with h | h | h | h | h <;> subst h <;> decide

theorem stepEvent_of (cfg : Cfg) (r : Run) (e : Event) (cs' : CState) (outs : List Out) (isURL : Bytes → Bool)
    (h : handleEvent cfg r.cs e [] [] = .ok (cs', outs)) :
    stepEvent cfg r e [] [] isURL = .ok
      (if e.command = cERROR && (applyOuts cfg isURL { r with cs := cs' } outs).1.ended = .running
        then { (applyOuts cfg isURL { r with cs := cs' } outs).1 with ended := .errEvent e.last }
        else (applyOuts cfg isURL { r with cs := cs' } outs).1,
       (applyOuts cfg isURL { r with cs := cs' } outs).2) := by
  unfold stepEvent
  simp [h, bind, Except.bind]

/-- The injected ERROR ends the connection with `ErrEvent` carrying its text: a failure line makes
    `Connect` return an error instead of registering unauthenticated. -/
theorem sasl_failure_ends_connection (cfg : Cfg) (r : Run) (line : Bytes) (e : Event) (m : SaslCfg)
    (hr : r.ended = .running) (hp : parseEvent line = some e)
    (hs : cfg.sasl = some m) (ht : cfg.disableTracking = false)
    (hc : e.command = c902 ∨ e.command = c904 ∨ e.command = c905 ∨ e.command = c906 ∨ e.command = c908) :
    ∃ r', stepLine cfg r line = .ok r' ∧ r'.ended = .errEvent (sClosing ++ e.last) ∧ r'.written = r.written := by
  obtain ⟨h1, h2, h3⟩ := saslErr_cmd_ne hc
  have hE1 := stepEvent_of cfg r e _ _ (fun _ => true)
    (handleEvent_of_cmd cfg r.cs e [] [] h1 h2 _ _ (sasl_failure_injects_error cfg _ e m hs ht hc))
  simp only [applyOuts, h3, decide_false, Bool.false_and, Bool.false_eq_true, if_false, hr] at hE1
  have hE2 := stepEvent_of cfg { r with cs := tagged cfg r.cs e } (errorEvent (sClosing ++ e.last)) _ _ (fun _ => true)
    (handleEvent_of_cmd cfg _ _ [] [] (by show cERROR ≠ PRIVMSG; decide) (by show cERROR ≠ NOTICE; decide) _ _
      (handleCommand_error cfg _ _ rfl))
  have hl : (errorEvent (sClosing ++ e.last)).last = sClosing ++ e.last := rfl
  have hcmd : (errorEvent (sClosing ++ e.last)).command = cERROR := rfl
  simp only [applyOuts, hr, hl, hcmd, decide_true, Bool.and_self, if_true] at hE2
  have hL : stepLine cfg r line = .ok
      { cs := tagged cfg (tagged cfg r.cs e) (errorEvent (sClosing ++ e.last)), written := r.written,
        ended := Ended.errEvent (sClosing ++ e.last) } := by
    unfold stepLine
    simp only [hr, hp, ne_eq, not_true_eq_false, if_false]
    unfold stepAll
    simp only [hr, ne_eq, not_true_eq_false, if_false, hE1, bind, Except.bind, List.nil_append]
    unfold stepAll
    simp only [ne_eq, not_true_eq_false, if_false, hE2, bind, Except.bind, List.nil_append]
    unfold stepAll
    rfl
  exact ⟨_, hL, rfl, rfl⟩

/-- Non-interference of the logs in the secret: for a sensitive event nothing derived from the
    parameters reaches either writer, on the normal and on the dropped-event path. -/
theorem no_secret_logged (e : Event) (ps : List Bytes) (dropped echo : Bool) :
    debugLine true dropped e = debugLine true dropped { e with params := ps } ∧
    outLine true echo e = none := by
  simp [debugLine, outLine]

end Girc.Proofs.ProtocolA
