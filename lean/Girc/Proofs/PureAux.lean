import Girc.Model.Ctcp
import Girc.Model.Sasl
import Girc.Model.Rate
import Girc.Model.CmdHandler
import Girc.Spec.NameSpec
import Girc.Proofs.TagsAux
/-
  Helper lemmas for Proofs/Pure.lean (C09, C14, C16, C18). Nothing here depends on the definitions
  made inside Pure.lean itself.
-/
namespace Girc.Proofs.PureAux
open Girc Girc.Model

/-! ## C16 -/

theorem cost_eq (n : Nat) : cost n = second + (n : Int) * 10000000 := by
  unfold cost second
  omega

theorem cost_ge (n : Nat) : second ≤ cost n := by
  rw [cost_eq]; unfold second; omega

theorem rate_fst (wd since : Int) (n : Nat) :
    (rate wd since n).1 = if wd + (cost n - since) < 0 then 0 else wd + (cost n - since) := rfl

theorem rate_snd (wd since : Int) (n : Nat) :
    (rate wd since n).2 = if (rate wd since n).1 > 8 * second then cost n else 0 := rfl

theorem rate_facts (wd since : Int) (n : Nat) :
    ((rate wd since n).2 = 0 ∨ (rate wd since n).2 = cost n) ∧
    ((rate wd since n).2 = cost n ↔ (rate wd since n).1 > 8 * second) ∧ 0 ≤ (rate wd since n).1 := by
  have hc := cost_ge n
  unfold rate
  simp only
  generalize cost n = c at *
  unfold second at *
  split <;> split <;> omega

/-! ## C14 -/

theorem indexOf_none (c : UInt8) (p : Bytes) (h : c ∉ p) : indexOf c p = none := by
  induction p with
  | nil => rfl
  | cons x xs ih =>
    have hx : x ≠ c := fun e => h (by simp [e])
    have hxs : c ∉ xs := fun e => h (by simp [e])
    simp [indexOf, hx, ih hxs]

theorem indexOf_append (c : UInt8) (p rest : Bytes) (h : c ∉ p) :
    indexOf c (p ++ c :: rest) = some p.length := by
  induction p with
  | nil => simp [indexOf]
  | cons x xs ih =>
    have hx : x ≠ c := fun e => h (by simp [e])
    have hxs : c ∉ xs := fun e => h (by simp [e])
    simp [indexOf, hx, ih hxs]

theorem ctcpTagByte_eq : ∀ b : UInt8, ctcpTagByte b = Spec.isUpperOrDigit b := by decide +kernel

theorem ctcpTagByte_funeq : ctcpTagByte = Spec.isUpperOrDigit := funext ctcpTagByte_eq

theorem decodeCTCP_two (e : Event) (tgt p : Bytes) (hp : e.params = [tgt, p]) :
    decodeCTCP e =
    if p.length < 3 then none
    else if e.command != PRIVMSG && e.command != NOTICE then none
    else if p.head? != some ctcpDelim || p.getLast? != some ctcpDelim then none
    else
      let text := (p.drop 1).dropLast
      match indexOf SP text with
      | none =>
        if text.all ctcpTagByte then some ⟨e.source, text, [], e.command == NOTICE⟩ else none
      | some s =>
        if (text.take s).all ctcpTagByte then some ⟨e.source, text.take s, text.drop (s + 1), e.command == NOTICE⟩
        else none := by
  unfold decodeCTCP
  rw [hp]
  rfl

theorem mid_text (t : Bytes) : ((ctcpDelim :: t ++ [ctcpDelim]).drop 1).dropLast = t := by
  simp

theorem mid_last (t : Bytes) : (ctcpDelim :: t ++ [ctcpDelim]).getLast? = some ctcpDelim := by
  rw [List.getLast?_append]; simp

theorem all_false_of_bad (tag : Bytes) (hbad : ∃ b ∈ tag, Spec.isUpperOrDigit b = false) :
    tag.all ctcpTagByte = false := by
  rcases hbad with ⟨b, hb, hf⟩
  rw [ctcpTagByte_funeq]
  rw [List.all_eq_false]
  exact ⟨b, hb, by simp [hf]⟩

theorem sp_not_mem (cmd : Bytes) (hcmd : cmd.all Spec.isUpperOrDigit = true) : SP ∉ cmd := by
  intro h
  rw [List.all_eq_true] at hcmd
  have := hcmd SP h
  revert this
  decide

/-! ## C09: base64 -/

theorem b64Val_b64Char_fin : ∀ n : Fin 64, b64Val (b64Char n.val) = some n.val := by decide
theorem b64Char_ne_pad_fin : ∀ n : Fin 64, b64Char n.val ≠ 0x3D := by decide

theorem b64Val_b64Char (n : Nat) (h : n < 64) : b64Val (b64Char n) = some n := b64Val_b64Char_fin ⟨n, h⟩
theorem b64Char_ne_pad (n : Nat) (h : n < 64) : b64Char n ≠ 0x3D := b64Char_ne_pad_fin ⟨n, h⟩

theorem ofNat_eq (a : UInt8) (n : Nat) (h : n = a.toNat) : UInt8.ofNat n = a := by
  rw [h]; exact UInt8.ofNat_toNat

theorem b64_roundtrip_aux : ∀ x : Bytes, b64Decode (b64Encode x) = some x
  | [] => rfl
  | [a] => by
    have ha := UInt8.toNat_lt a
    have e : b64Encode [a] = [b64Char (a.toNat * 65536 / 262144), b64Char (a.toNat * 65536 / 4096 % 64), 0x3D, 0x3D] := rfl
    rw [e, b64Decode.eq_2, b64Val_b64Char _ (by omega), b64Val_b64Char _ (by omega)]
    simp only [Option.bind_eq_bind, Option.bind_some, Option.pure_def]
    rw [ofNat_eq a _ (by omega)]
  | [a, b] => by
    have ha := UInt8.toNat_lt a
    have hb := UInt8.toNat_lt b
    have e : b64Encode [a, b] = [b64Char ((a.toNat * 65536 + b.toNat * 256) / 262144),
        b64Char ((a.toNat * 65536 + b.toNat * 256) / 4096 % 64),
        b64Char ((a.toNat * 65536 + b.toNat * 256) / 64 % 64), 0x3D] := rfl
    rw [e, b64Decode.eq_3 _ _ _ (b64Char_ne_pad _ (by omega)),
      b64Val_b64Char _ (by omega), b64Val_b64Char _ (by omega), b64Val_b64Char _ (by omega)]
    simp only [Option.bind_eq_bind, Option.bind_some, Option.pure_def]
    rw [ofNat_eq a _ (by omega), ofNat_eq b _ (by omega)]
  | a :: b :: c :: rest => by
    have ha := UInt8.toNat_lt a
    have hb := UInt8.toNat_lt b
    have hc := UInt8.toNat_lt c
    rw [b64Encode.eq_1,
      b64Decode.eq_4 _ _ _ _ _ (fun _ h _ => b64Char_ne_pad _ (by omega) h) (fun h _ => b64Char_ne_pad _ (by omega) h),
      b64Val_b64Char _ (by omega), b64Val_b64Char _ (by omega), b64Val_b64Char _ (by omega),
      b64Val_b64Char _ (by omega), b64_roundtrip_aux rest]
    simp only [Option.bind_eq_bind, Option.bind_some, Option.pure_def]
    rw [ofNat_eq a _ (by omega), ofNat_eq b _ (by omega), ofNat_eq c _ (by omega)]

/-! ## C09: chunking -/

theorem fuel_succ (n : Nat) (auth : Bytes) : saslChunksFuel (n + 1) auth =
    if auth.length > 400 then auth.take 400 :: saslChunksFuel n (auth.drop 400)
    else if auth.length = 400 then [auth, PLUS] else [auth] := rfl

theorem mem_of_mem_dropLast {α : Type} {l : List α} {c : α} (h : c ∈ l.dropLast) : c ∈ l := by
  rw [List.dropLast_eq_take] at h
  exact List.mem_of_mem_take h

/-- Shape of the chunk list: full 400-byte chunks `Q`, then either the lone "+" (length a multiple
    of 400) or a short non-empty last chunk. -/
def ChunkShape (auth : Bytes) (L : List Bytes) : Prop :=
  ∃ Q last, L = Q ++ [last] ∧ (∀ c ∈ Q, c.length = 400) ∧
    ((auth.length % 400 = 0 ∧ last = PLUS ∧ Q.flatten = auth ∧ Q ≠ []) ∨
     (auth.length % 400 ≠ 0 ∧ last.length = auth.length % 400 ∧ (Q ++ [last]).flatten = auth))

theorem chunkShape_fuel : ∀ (n : Nat) (auth : Bytes), auth ≠ [] → auth.length < n →
    ChunkShape auth (saslChunksFuel n auth) := by
  intro n
  induction n with
  | zero => intro auth _ h; omega
  | succ n ih =>
    intro auth hne hlt
    have hpos : 0 < auth.length := List.length_pos_iff.mpr hne
    rw [fuel_succ]
    by_cases h1 : auth.length > 400
    · rw [if_pos h1]
      have hdl : (auth.drop 400).length = auth.length - 400 := List.length_drop
      have hdne : auth.drop 400 ≠ [] := by
        intro h; rw [h] at hdl; simp at hdl; omega
      have hdlt : (auth.drop 400).length < n := by omega
      have hmod : (auth.drop 400).length % 400 = auth.length % 400 := by omega
      have htl : (auth.take 400).length = 400 := by rw [List.length_take]; omega
      rcases ih (auth.drop 400) hdne hdlt with ⟨Q, last, hL, hQ, hcase⟩
      refine ⟨auth.take 400 :: Q, last, by rw [hL]; rfl, ?_, ?_⟩
      · intro c hc
        rcases List.mem_cons.mp hc with rfl | hc
        · exact htl
        · exact hQ c hc
      · rw [hmod] at hcase
        rcases hcase with ⟨h0, hl, hf, _⟩ | ⟨h0, hl, hf⟩
        · left
          refine ⟨h0, hl, ?_, by simp⟩
          rw [List.flatten_cons, hf, List.take_append_drop]
        · right
          refine ⟨h0, hl, ?_⟩
          rw [List.cons_append, List.flatten_cons, hf, List.take_append_drop]
    · rw [if_neg h1]
      by_cases h2 : auth.length = 400
      · rw [if_pos h2]
        refine ⟨[auth], PLUS, rfl, ?_, ?_⟩
        · intro c hc; simp at hc; rw [hc]; exact h2
        · left; refine ⟨by omega, rfl, by simp, by simp⟩
      · rw [if_neg h2]
        refine ⟨[], auth, rfl, by simp, ?_⟩
        right
        refine ⟨by omega, by omega, by simp⟩

theorem chunkShape (auth : Bytes) (hne : auth ≠ []) : ChunkShape auth (saslChunks auth) :=
  chunkShape_fuel _ auth hne (Nat.lt_succ_self _)

/-! ## C18: the matcher -/

theorem takeWhile_all {α : Type} (p : α → Bool) (l : List α) (h : l.all p = true) :
    l.takeWhile p = l ∧ l.dropWhile p = [] := by
  induction l with
  | nil => simp
  | cons x xs ih =>
    simp only [List.all_cons, Bool.and_eq_true] at h
    simp [h.1, ih h.2]

theorem takeWhile_app {α : Type} (p : α → Bool) (l : List α) (c : α) (r : List α)
    (h : l.all p = true) (hc : p c = false) :
    (l ++ c :: r).takeWhile p = l ∧ (l ++ c :: r).dropWhile p = c :: r := by
  induction l with
  | nil => simp [hc]
  | cons x xs ih =>
    simp only [List.all_cons, Bool.and_eq_true] at h
    simp [h.1, ih h.2]

theorem all_takeWhile {α : Type} (p : α → Bool) (l : List α) : (l.takeWhile p).all p = true := by
  induction l with
  | nil => simp
  | cons x xs ih =>
    rw [List.takeWhile_cons]
    split
    · simp_all
    · simp

theorem dropWhile_head {α : Type} (p : α → Bool) (l : List α) (c : α) (r : List α)
    (h : l.dropWhile p = c :: r) : p c = false := by
  induction l with
  | nil => simp at h
  | cons x xs ih =>
    rw [List.dropWhile_cons] at h
    split at h
    · exact ih h
    · rename_i hx
      simp at h
      rw [← h.1]; simpa using hx

theorem sp_not_name : cmdNameByte SP = false := by decide

theorem matchCmd_drop (pfx t : Bytes) : matchCmd pfx (pfx ++ t) =
    if (t.takeWhile cmdNameByte).length < 1 || (t.takeWhile cmdNameByte).length > 20 then none
    else match t.dropWhile cmdNameByte with
      | [] => some (t.takeWhile cmdNameByte, [])
      | c :: rest => if c = SP && !rest.contains LF then some (t.takeWhile cmdNameByte, rest) else none := by
  unfold matchCmd
  have h1 : pfx.isPrefixOf (pfx ++ t) = true := by
    rw [List.isPrefixOf_iff_prefix]; exact List.prefix_append _ _
  simp only [h1, Bool.not_true, Bool.false_eq_true, if_false, List.drop_left]
  rfl

theorem matchCmd_not_prefix (pfx text : Bytes) (h : pfx.isPrefixOf text = false) : matchCmd pfx text = none := by
  unfold matchCmd; simp [h]

theorem validCmdName_iff (n : Bytes) : validCmdName n = true ↔ 1 ≤ n.length ∧ n.length ≤ 20 ∧ n.all cmdNameByte = true := by
  unfold validCmdName; simp [and_assoc]

/-! ## C18: Execute -/

theorem cmdExecute_guard (pfx : Bytes) (tbl : CmdTable) (e : Event)
    (h : ¬ (e.source.isSome ∧ e.command = PRIVMSG)) : cmdExecute pfx tbl e = .none := by
  unfold cmdExecute
  rw [if_pos]
  cases hs : e.source <;> simp_all

theorem cmdExecute_nomatch (pfx : Bytes) (tbl : CmdTable) (e : Event)
    (h : matchCmd pfx (e.params.getLastD []) = none) : cmdExecute pfx tbl e = .none := by
  unfold cmdExecute
  split
  · rfl
  · rw [h]

theorem cmdExecute_match (pfx : Bytes) (tbl : CmdTable) (e : Event) (name raw : Bytes)
    (hs : e.source.isSome) (hc : e.command = PRIVMSG)
    (h : matchCmd pfx (e.params.getLastD []) = some (name, raw)) (hn : name ≠ HELP) :
    cmdExecute pfx tbl e =
      match AMap.get? tbl name with
      | none => .none
      | some c =>
        if (((if raw.isEmpty then [] else splitOnByte SP raw).length : Nat) : Int) < c.minArgs then .usage name
        else .invoke c.id (if raw.isEmpty then [] else splitOnByte SP raw) raw := by
  unfold cmdExecute
  rw [if_neg, h]
  · simp only [if_neg hn]
    rfl
  · cases hs' : e.source <;> simp_all

theorem cmdExecute_help (pfx : Bytes) (tbl : CmdTable) (e : Event) (raw : Bytes)
    (h : matchCmd pfx (e.params.getLastD []) = some (HELP, raw)) :
    ∃ k, cmdExecute pfx tbl e = .none ∨ cmdExecute pfx tbl e = .help k := by
  unfold cmdExecute
  split
  · exact ⟨0, Or.inl rfl⟩
  · rw [h]
    simp only [if_true]
    split
    · exact ⟨0, Or.inr rfl⟩
    · split
      · exact ⟨1, Or.inr rfl⟩
      · split
        · exact ⟨3, Or.inr rfl⟩
        · exact ⟨2, Or.inr rfl⟩

/-! ## C18: Add -/

theorem addAliases_cons (tbl : CmdTable) (cmd : Command) (a : Bytes) (rest : List Bytes) :
    cmdAddAliases tbl cmd (a :: rest) =
      if AMap.contains tbl a then (tbl, .duplicateAlias)
      else cmdAddAliases (AMap.set tbl a cmd) cmd rest := rfl

theorem addAliases_res (cmd : Command) (l : List Bytes) : ∀ tbl : CmdTable,
    (cmdAddAliases tbl cmd l).2 = .ok ∨ (cmdAddAliases tbl cmd l).2 = .duplicateAlias := by
  induction l with
  | nil => intro tbl; exact Or.inl rfl
  | cons a rest ih =>
    intro tbl
    rw [addAliases_cons]
    split
    · exact Or.inr rfl
    · exact ih _

theorem addAliases_ok (cmd : Command) (l : List Bytes) : ∀ tbl : CmdTable,
    (cmdAddAliases tbl cmd l).2 = .ok →
    (∀ n, AMap.get? tbl n = some cmd → AMap.get? (cmdAddAliases tbl cmd l).1 n = some cmd) ∧
    (∀ n ∈ l, AMap.get? (cmdAddAliases tbl cmd l).1 n = some cmd) := by
  induction l with
  | nil => intro tbl _; exact ⟨fun n h => h, fun n h => by simp at h⟩
  | cons a rest ih =>
    intro tbl
    rw [addAliases_cons]
    split
    · intro h; cases h
    · intro h
      have ih' := ih (AMap.set tbl a cmd) h
      constructor
      · intro n hn
        apply ih'.1
        rw [TagsAux.get?_set]
        split
        · rfl
        · exact hn
      · intro n hn
        rcases List.mem_cons.mp hn with rfl | hn
        · apply ih'.1
          rw [TagsAux.get?_set]; simp
        · exact ih'.2 n hn

end Girc.Proofs.PureAux
