import Girc.Model.Locks
/-
  C12 proofs: on the abstract machine, the lockset discipline implies race freedom and the rank
  discipline implies deadlock freedom, for every number of threads, every program and every schedule.
-/
namespace Girc.Proofs.Locks
open Girc.Model.Locks

/-! ### the common invariant -/

/-- The effect of one operation on the held multiset of the executing thread. -/
def heldAfter (h : Held) : Op → Held
  | .acq l e => (l, e) :: h
  | .rel l e => h.erase (l, e)
  | .access _ _ => h

/-- What both static scans have in common. -/
structure Scan (P : Held → List Op → Prop) : Prop where
  step : ∀ h op rest, P h (op :: rest) → P (heldAfter h op) rest
  rel : ∀ h l e rest, P h (.rel l e :: rest) → (l, e) ∈ h

/-- The lock state agrees with the held multisets. -/
structure Agree (locks : LockId → LockSt) (H : Tid → Held) : Prop where
  wr1 : ∀ l t, (locks l).writer = some t → (H t).count (l, true) = 1
  wr0 : ∀ l t, (locks l).writer ≠ some t → (H t).count (l, true) = 0
  rd : ∀ l t, (locks l).readers.count t = (H t).count (l, false)
  excl : ∀ l, (locks l).writer ≠ none → (locks l).readers = []

def Inv (P : Held → List Op → Prop) (c : Cfg) : Prop :=
  ∃ H : Tid → Held,
    (∀ t rem, c.progs[t]? = some rem → P (H t) rem) ∧
    (∀ t, c.progs[t]? = none → H t = []) ∧
    Agree c.locks H

theorem agree_step {locks locks' : LockId → LockSt} {H : Tid → Held} {t : Tid} {op : Op}
    (hag : Agree locks H) (hop : opStep locks t op = some locks')
    (hrel : ∀ l e, op = .rel l e → (l, e) ∈ H t) :
    Agree locks' (fun u => if u = t then heldAfter (H t) op else H u) := by
  cases op with
  | acq l e =>
    cases e with
    | true =>
      simp only [opStep] at hop
      split at hop
      · rename_i hc
        obtain ⟨hw, hr⟩ := hc
        injection hop with hop; subst hop
        refine ⟨?_, ?_, ?_, ?_⟩
        · intro l' u hwr
          by_cases hl : l' = l
          · subst hl
            simp [setLock] at hwr
            subst hwr
            have := hag.wr0 l' t (by rw [hw]; simp)
            simp [heldAfter, this]
          · simp [setLock, hl] at hwr
            have := hag.wr1 l' u hwr
            by_cases hu : u = t
            · subst hu; simp [heldAfter, List.count_cons, this]; exact fun h => hl h.symm
            · simp [hu, this]
        · intro l' u hwr
          by_cases hl : l' = l
          · subst hl
            simp [setLock] at hwr
            have hu : u ≠ t := fun h => hwr h.symm
            simp [hu]
            exact hag.wr0 l' u (by rw [hw]; simp)
          · simp [setLock, hl] at hwr
            have := hag.wr0 l' u hwr
            by_cases hu : u = t
            · subst hu; simp [heldAfter, List.count_cons, this]; exact fun h => hl h.symm
            · simp [hu, this]
        · intro l' u
          by_cases hl : l' = l
          · subst hl
            have := hag.rd l' u
            rw [hr] at this
            by_cases hu : u = t
            · subst hu; simp [setLock, heldAfter] ; simpa using this
            · simp [setLock, hu]; simpa using this
          · have := hag.rd l' u
            by_cases hu : u = t
            · subst hu; simp [setLock, hl, heldAfter, this]
            · simp [setLock, hl, hu, this]
        · intro l' hwr
          by_cases hl : l' = l
          · subst hl; simp [setLock]
          · simp [setLock, hl] at hwr ⊢
            exact hag.excl l' hwr
      · cases hop
    | false =>
      simp only [opStep] at hop
      split at hop
      · rename_i hw
        injection hop with hop; subst hop
        refine ⟨?_, ?_, ?_, ?_⟩
        · intro l' u hwr
          by_cases hl : l' = l
          · subst hl
            simp [setLock, hw] at hwr
          · simp [setLock, hl] at hwr
            have := hag.wr1 l' u hwr
            by_cases hu : u = t
            · subst hu; simp [heldAfter, this]
            · simp [hu, this]
        · intro l' u hwr
          have h0 : (H u).count (l', true) = 0 := by
            by_cases hl : l' = l
            · subst hl
              exact hag.wr0 l' u (by rw [hw]; simp)
            · simp [setLock, hl] at hwr
              exact hag.wr0 l' u hwr
          by_cases hu : u = t
          · subst hu; simp [heldAfter, h0]
          · simp [hu, h0]
        · intro l' u
          have := hag.rd l' u
          by_cases hl : l' = l
          · subst hl
            by_cases hu : u = t
            · subst hu; simp [setLock, heldAfter, this]
            · have hu' : ¬ t = u := fun h => hu h.symm
              simp [setLock, hu, hu', this]
          · by_cases hu : u = t
            · subst hu; simp [setLock, hl, heldAfter, List.count_cons, this]; exact fun h => hl h.symm
            · simp [setLock, hl, hu, this]
        · intro l' hwr
          by_cases hl : l' = l
          · subst hl; simp [setLock, hw] at hwr
          · simp [setLock, hl] at hwr ⊢
            exact hag.excl l' hwr
      · cases hop
  | rel l e =>
    have hmem := hrel l e rfl
    cases e with
    | true =>
      simp only [opStep] at hop
      split at hop
      · rename_i hw
        injection hop with hop; subst hop
        refine ⟨?_, ?_, ?_, ?_⟩
        · intro l' u hwr
          by_cases hl : l' = l
          · subst hl
            simp [setLock] at hwr
          · simp [setLock, hl] at hwr
            have := hag.wr1 l' u hwr
            by_cases hu : u = t
            · subst hu; simp [heldAfter, hl, this]
            · simp [hu, this]
        · intro l' u hwr
          by_cases hl : l' = l
          · subst hl
            by_cases hu : u = t
            · subst hu
              have := hag.wr1 l' u hw
              simp [heldAfter, this]
            · simp [hu]
              exact hag.wr0 l' u (by rw [hw]; simp; exact fun h => hu h.symm)
          · simp [setLock, hl] at hwr
            have := hag.wr0 l' u hwr
            by_cases hu : u = t
            · subst hu; simp [heldAfter, hl, this]
            · simp [hu, this]
        · intro l' u
          have := hag.rd l' u
          by_cases hl : l' = l
          · subst hl
            by_cases hu : u = t
            · subst hu; simp [setLock, heldAfter, this]
            · simp [setLock, hu, this]
          · by_cases hu : u = t
            · subst hu; simp [setLock, hl, heldAfter, this]
            · simp [setLock, hl, hu, this]
        · intro l' hwr
          by_cases hl : l' = l
          · subst hl; simp [setLock] at hwr
          · simp [setLock, hl] at hwr ⊢
            exact hag.excl l' hwr
      · cases hop
    | false =>
      simp only [opStep] at hop
      split at hop
      · rename_i hr
        injection hop with hop; subst hop
        refine ⟨?_, ?_, ?_, ?_⟩
        · intro l' u hwr
          have hwr' : (locks l').writer = some u := by
            by_cases hl : l' = l
            · subst hl; simpa [setLock] using hwr
            · simpa [setLock, hl] using hwr
          have := hag.wr1 l' u hwr'
          by_cases hu : u = t
          · subst hu; simp [heldAfter, this]
          · simp [hu, this]
        · intro l' u hwr
          have hwr' : (locks l').writer ≠ some u := by
            by_cases hl : l' = l
            · subst hl; simpa [setLock] using hwr
            · simpa [setLock, hl] using hwr
          have := hag.wr0 l' u hwr'
          by_cases hu : u = t
          · subst hu; simp [heldAfter, this]
          · simp [hu, this]
        · intro l' u
          have := hag.rd l' u
          by_cases hl : l' = l
          · subst hl
            by_cases hu : u = t
            · subst hu; simp [setLock, heldAfter, this]
            · simp [setLock, hu, this]
          · by_cases hu : u = t
            · subst hu; simp [setLock, hl, heldAfter, this]
            · simp [setLock, hl, hu, this]
        · intro l' hwr
          by_cases hl : l' = l
          · subst hl
            simp [setLock] at hwr ⊢
            have := hag.excl l' hwr
            simp [this]
          · simp [setLock, hl] at hwr ⊢
            exact hag.excl l' hwr
      · cases hop
  | access x w =>
    simp only [opStep] at hop
    injection hop with hop; subst hop
    have : (fun u => if u = t then heldAfter (H t) (Op.access x w) else H u) = H := by
      funext u
      by_cases hu : u = t
      · subst hu; simp [heldAfter]
      · simp [hu]
    rw [this]; exact hag

theorem inv_init (P : Held → List Op → Prop) (progs : List (List Op))
    (hd : ∀ p ∈ progs, P [] p) : Inv P (initCfg progs) := by
  refine ⟨fun _ => [], ?_, ?_, ?_⟩
  · intro t rem h
    exact hd rem (List.mem_of_getElem? h)
  · intro t _; rfl
  · refine ⟨?_, ?_, ?_, ?_⟩ <;> simp [initCfg]

theorem inv_step {P : Held → List Op → Prop} (hP : Scan P) {c c' : Cfg} {t : Tid}
    (hi : Inv P c) (hs : step c t = some c') : Inv P c' := by
  obtain ⟨H, hprog, hnone, hag⟩ := hi
  unfold step at hs
  split at hs
  · rename_i op rest hpt
    split at hs
    · rename_i locks' hop
      injection hs with hs; subst hs
      have hPt := hprog t _ hpt
      have hlt : t < c.progs.length := by
        rcases Nat.lt_or_ge t c.progs.length with h | h
        · exact h
        · rw [List.getElem?_eq_none h] at hpt; cases hpt
      refine ⟨fun u => if u = t then heldAfter (H t) op else H u, ?_, ?_, ?_⟩
      · intro u rem hu
        by_cases hut : u = t
        · subst hut
          simp [List.getElem?_set_self hlt] at hu
          subst hu
          simpa using hP.step _ _ _ hPt
        · have hut' : t ≠ u := fun h => hut h.symm
          simp [List.getElem?_set_ne hut'] at hu
          simpa [hut] using hprog u rem hu
      · intro u hu
        by_cases hut : u = t
        · subst hut
          simp [List.getElem?_set_self hlt] at hu
        · have hut' : t ≠ u := fun h => hut h.symm
          simp [List.getElem?_set_ne hut'] at hu
          simpa [hut] using hnone u (by simpa using hu)
      · exact agree_step hag hop (fun l e h => by subst h; exact hP.rel _ _ _ _ hPt)
    · cases hs
  · cases hs

theorem inv_reach {P : Held → List Op → Prop} (hP : Scan P) {progs : List (List Op)}
    (hd : ∀ p ∈ progs, P [] p) {c : Cfg} (h : Reach progs c) : Inv P c := by
  induction h with
  | init => exact inv_init P progs hd
  | step t _ hs ih => exact inv_step hP ih hs

/-! ### lockset discipline ⇒ no data race -/

theorem scan_covered (guard : Res → LockId) : Scan (fun h p => covered guard h p = true) := by
  refine ⟨?_, ?_⟩
  · intro h op rest hc
    cases op with
    | acq l e => simpa [covered, heldAfter] using hc
    | rel l e =>
      simp [covered] at hc
      simpa [heldAfter] using hc.2
    | access x w =>
      simp [covered] at hc
      simpa [heldAfter] using hc.2
  · intro h l e rest hc
    simp [covered] at hc
    exact hc.1

theorem next_eq {c : Cfg} {t : Tid} {op : Op} (h : c.next t = some op) :
    ∃ rest, c.progs[t]? = some (op :: rest) := by
  unfold Cfg.next at h
  cases hp : c.progs[t]? with
  | none => rw [hp] at h; cases h
  | some p =>
    rw [hp] at h
    cases p with
    | nil => cases h
    | cons a rest =>
      simp at h
      subst h
      exact ⟨rest, rfl⟩

/-- If every thread's program is covered (every access under its guard, exclusively for writes), no
    reachable configuration is a data race. -/
theorem lockset_sound (guard : Res → LockId) (progs : List (List Op))
    (hd : ∀ p ∈ progs, covered guard [] p = true) (c : Cfg) (h : Reach progs c) : ¬ Race c := by
  obtain ⟨H, hprog, _, hag⟩ := inv_reach (scan_covered guard) hd h
  -- the asymmetric core: `t₁` writes
  have core : ∀ t₁ t₂ x w₂, t₁ ≠ t₂ → c.next t₁ = some (.access x true) →
      c.next t₂ = some (.access x w₂) → False := by
    intro t₁ t₂ x w₂ hne h₁ h₂
    obtain ⟨r₁, hp₁⟩ := next_eq h₁
    obtain ⟨r₂, hp₂⟩ := next_eq h₂
    have c₁ := hprog _ _ hp₁
    have c₂ := hprog _ _ hp₂
    simp [covered] at c₁ c₂
    have hw₁ : (c.locks (guard x)).writer = some t₁ := by
      apply Classical.byContradiction
      intro hn
      have := hag.wr0 _ _ hn
      exact (List.count_eq_zero.mp this) c₁.1
    have hwt : ∀ u, (guard x, true) ∈ H u → (c.locks (guard x)).writer = some u := by
      intro u hu
      apply Classical.byContradiction
      intro hn
      have := hag.wr0 _ _ hn
      exact (List.count_eq_zero.mp this) hu
    have hr : (c.locks (guard x)).readers = [] := hag.excl _ (by rw [hw₁]; simp)
    have hrd : (guard x, false) ∈ H t₂ → False := by
      intro hm
      have := hag.rd (guard x) t₂
      rw [hr] at this
      simp at this
      exact (List.count_eq_zero.mp this.symm) hm
    have hwr : (guard x, true) ∈ H t₂ → False := by
      intro hm
      have := hwt t₂ hm
      rw [hw₁] at this
      exact hne (by simpa using this)
    cases w₂ with
    | true => simp at c₂; exact hwr c₂.1
    | false =>
      simp at c₂
      rcases c₂.1 with h | h
      · exact hwr h
      · exact hrd h
  rintro ⟨t₁, t₂, x, w₁, w₂, hne, h₁, h₂, hw⟩
  rcases hw with hw | hw
  · subst hw; exact core t₁ t₂ x w₂ hne h₁ h₂
  · subst hw; exact core t₂ t₁ x w₁ (fun h => hne h.symm) h₂ h₁

/-! ### rank discipline ⇒ no deadlock -/

theorem scan_ordered (rank : LockId → Nat) : Scan (fun h p => ordered rank h p = true) := by
  refine ⟨?_, ?_⟩
  · intro h op rest hc
    cases op with
    | acq l e =>
      simp [ordered] at hc
      simpa [heldAfter] using hc.2
    | rel l e =>
      simp [ordered] at hc
      simpa [heldAfter] using hc.2
    | access x w => simpa [ordered, heldAfter] using hc
  · intro h l e rest hc
    simp [ordered] at hc
    exact hc.1

/-- The ranks of the locks awaited by the threads of a finite program list are bounded. -/
theorem awaited_bound (rank : LockId → Nat) (ps : List (List Op)) :
    ∃ B, ∀ (t : Nat) l e rest, ps[t]? = some (Op.acq l e :: rest) → rank l < B := by
  induction ps with
  | nil => exact ⟨0, by intro t l e rest h; cases h⟩
  | cons p ps ih =>
    obtain ⟨B, hB⟩ := ih
    have hp : ∃ B', ∀ l e rest, p = .acq l e :: rest → rank l < B' := by
      cases p with
      | nil => exact ⟨0, by intro l e rest h; cases h⟩
      | cons op r =>
        cases op with
        | acq l e => exact ⟨rank l + 1, by intro l' e' rest h; injection h with h1 _; injection h1 with h1 _; subst h1; omega⟩
        | rel l e => exact ⟨0, by intro l' e' rest h; injection h with h1 _; cases h1⟩
        | access x w => exact ⟨0, by intro l' e' rest h; injection h with h1 _; cases h1⟩
    obtain ⟨B', hB'⟩ := hp
    refine ⟨max B B', ?_⟩
    intro t l e rest h
    cases t with
    | zero =>
      simp at h
      have := hB' l e rest h
      omega
    | succ t =>
      simp at h
      have := hB t l e rest h
      omega

/-- If every thread's program acquires locks in increasing rank order, releases what it acquired and
    ends holding nothing, no reachable configuration is deadlocked. -/
theorem order_sound (rank : LockId → Nat) (progs : List (List Op))
    (ho : ∀ p ∈ progs, ordered rank [] p = true) (c : Cfg) (h : Reach progs c) : ¬ Deadlocked c := by
  obtain ⟨H, hprog, hnone, hag⟩ := inv_reach (scan_ordered rank) ho h
  rintro ⟨⟨t₀, ops₀, hp₀, hne₀⟩, hstuck⟩
  -- every unfinished thread is blocked at an acquisition
  have blocked : ∀ t ops, c.progs[t]? = some ops → ops ≠ [] →
      ∃ l e rest, ops = .acq l e :: rest ∧ opStep c.locks t (.acq l e) = none := by
    intro t ops hp hne
    cases ops with
    | nil => exact absurd rfl hne
    | cons op rest =>
      have hs := hstuck t
      unfold step at hs
      rw [hp] at hs
      simp only at hs
      have hop : opStep c.locks t op = none := by
        cases ho : opStep c.locks t op with
        | none => rfl
        | some l' => rw [ho] at hs; cases hs
      cases op with
      | acq l e => exact ⟨l, e, rest, rfl, hop⟩
      | rel l e =>
        exfalso
        have hc := hprog t _ hp
        have hm : (l, e) ∈ H t := (scan_ordered rank).rel _ _ _ _ hc
        cases e with
        | true =>
          have hw : (c.locks l).writer = some t := by
            apply Classical.byContradiction
            intro hn
            exact (List.count_eq_zero.mp (hag.wr0 _ _ hn)) hm
          simp [opStep, hw] at hop
        | false =>
          have hr : t ∈ (c.locks l).readers := by
            have := hag.rd l t
            have hpos : 0 < (H t).count (l, false) := List.count_pos_iff.mpr hm
            rw [← this] at hpos
            exact List.count_pos_iff.mp hpos
          simp [opStep, hr] at hop
      | access x w => simp [opStep] at hop
  -- whoever holds something is unfinished
  have holder : ∀ u p, p ∈ H u → ∃ ops, c.progs[u]? = some ops ∧ ops ≠ [] := by
    intro u p hpu
    cases hq : c.progs[u]? with
    | none => rw [hnone u hq] at hpu; cases hpu
    | some ops =>
      refine ⟨ops, rfl, ?_⟩
      intro he
      subst he
      have := hprog u _ hq
      simp [ordered] at this
      rw [this] at hpu; cases hpu
  -- a blocked thread waits for a thread blocked at a lock of strictly greater rank
  have nxt : ∀ (t : Tid) l e rest, c.progs[t]? = some (Op.acq l e :: rest) →
      ∃ (t' : Tid) (l' : LockId) (e' : Bool) (rest' : List Op), c.progs[t']? = some (Op.acq l' e' :: rest') ∧ rank l < rank l' := by
    intro t l e rest hp
    obtain ⟨l₁, e₁, rest₁, heq, hop⟩ := blocked t _ hp (by simp)
    injection heq with h1 h2
    injection h1 with h1 h3
    subst h1; subst h3; subst h2
    -- some thread `u` holds `l` in some mode
    have hu : ∃ u m, (l, m) ∈ H u := by
      cases e with
      | true =>
        simp only [opStep] at hop
        split at hop
        · cases hop
        · rename_i hc
          cases hw : (c.locks l).writer with
          | some u =>
            refine ⟨u, true, ?_⟩
            have := hag.wr1 l u hw
            exact List.count_pos_iff.mp (by omega)
          | none =>
            cases hr : (c.locks l).readers with
            | nil => exact absurd ⟨hw, hr⟩ hc
            | cons u rs =>
              refine ⟨u, false, ?_⟩
              have := hag.rd l u
              rw [hr] at this
              simp at this
              exact List.count_pos_iff.mp (by omega)
      | false =>
        simp only [opStep] at hop
        split at hop
        · cases hop
        · rename_i hc
          cases hw : (c.locks l).writer with
          | some u =>
            refine ⟨u, true, ?_⟩
            have := hag.wr1 l u hw
            exact List.count_pos_iff.mp (by omega)
          | none => exact absurd hw hc
    obtain ⟨u, m, hum⟩ := hu
    obtain ⟨ops, hpu, hneu⟩ := holder u _ hum
    obtain ⟨l', e', rest', heq', _⟩ := blocked u ops hpu hneu
    subst heq'
    refine ⟨u, l', e', rest', hpu, ?_⟩
    have := hprog u _ hpu
    simp only [ordered, Bool.and_eq_true, List.all_eq_true, decide_eq_true_eq] at this
    exact this.1 (l, m) hum
  have chain : ∀ n : Nat, ∀ (t : Tid) l e rest, c.progs[t]? = some (Op.acq l e :: rest) →
      ∃ (t' : Tid) (l' : LockId) (e' : Bool) (rest' : List Op), c.progs[t']? = some (Op.acq l' e' :: rest') ∧ rank l + n ≤ rank l' := by
    intro n
    induction n with
    | zero => intro t l e rest hp; exact ⟨t, l, e, rest, hp, by omega⟩
    | succ n ih =>
      intro t l e rest hp
      obtain ⟨t₁, l₁, e₁, rest₁, hp₁, hlt⟩ := nxt t l e rest hp
      obtain ⟨t₂, l₂, e₂, rest₂, hp₂, hle⟩ := ih t₁ l₁ e₁ rest₁ hp₁
      exact ⟨t₂, l₂, e₂, rest₂, hp₂, by omega⟩
  obtain ⟨B, hB⟩ := awaited_bound rank c.progs
  obtain ⟨l, e, rest, heq, _⟩ := blocked t₀ ops₀ hp₀ hne₀
  subst heq
  obtain ⟨t', l', e', rest', hp', hle⟩ := chain B t₀ l e rest hp₀
  have := hB t' l' e' rest' hp'
  omega

/-- Non-vacuity: a writer and a reader of the same resource under its RW lock are covered and ordered. -/
example : covered (fun _ => 0) [] [.acq 0 true, .access 7 true, .rel 0 true] = true ∧
    covered (fun _ => 0) [] [.acq 0 false, .access 7 false, .rel 0 false] = true ∧
    ordered (fun l => l) [] [.acq 0 false, .acq 1 true, .rel 1 true, .rel 0 false] = true := by decide

/-- … and without the discipline the machine does race: two unguarded writers. -/
example : Race (initCfg [[.access 7 true], [.access 7 true]]) :=
  ⟨0, 1, 7, true, true, by decide, rfl, rfl, Or.inl rfl⟩

/-- … and does deadlock: two threads taking two locks in opposite orders. -/
theorem opposite_orders_deadlock :
    ∃ c, Reach [[.acq 0 true, .acq 1 true], [.acq 1 true, .acq 0 true]] c ∧ Deadlocked c := by
  let locks₁ : LockId → LockSt := setLock (fun _ => {}) 0 { writer := some 0, readers := [] }
  let locks₂ : LockId → LockSt := setLock locks₁ 1 { writer := some 1, readers := [] }
  refine ⟨{ progs := [[.acq 1 true], [.acq 0 true]], locks := locks₂ }, ?_, ?_⟩
  · have s₁ : step (initCfg [[.acq 0 true, .acq 1 true], [.acq 1 true, .acq 0 true]]) 0 =
        some { progs := [[Op.acq 1 true], [Op.acq 1 true, Op.acq 0 true]], locks := locks₁ } := rfl
    have s₂ : step { progs := [[Op.acq 1 true], [Op.acq 1 true, Op.acq 0 true]], locks := locks₁ } 1 =
        some { progs := [[Op.acq 1 true], [Op.acq 0 true]], locks := locks₂ } := rfl
    exact Reach.step 1 (Reach.step 0 Reach.init s₁) s₂
  · refine ⟨⟨0, [.acq 1 true], rfl, by simp⟩, ?_⟩
    intro t
    match t with
    | 0 => rfl
    | 1 => rfl
    | t + 2 => rfl

end Girc.Proofs.Locks
