import Girc.Model.Split
import Girc.Model.Commands
import Girc.Spec.FormatSpec
/-
  C11 specification: what "no content lost" means for a split message.
-/
namespace Girc.Spec
open Girc Girc.Model

/-- Plain text: none of the seven formatting control bytes. -/
def plainText (t : Bytes) : Bool := !hasCodeByte t

/-- The words of a text: maximal runs of non-separator runes, newlines being separators too
    (separators: TAB VT FF SPACE U+0085 U+00A0 CR LF), of the text as `splitMessage` sees it
    (invalid UTF-8 replaced by '?', surrounding Unicode white space trimmed). -/
def wordsOf (t : Bytes) : List Bytes :=
  (splitWords (trimSpace (toValidUTF8 [0x3F] t))).flatMap fun w =>
    (splitOnByte 0x0A (w.map fun b => if b = 0x0D then 0x0A else b)).filter (fun x => !x.isEmpty)

/-- The words found in the pieces, in order. -/
def pieceWords (pieces : List Bytes) : List Bytes := pieces.flatMap splitWords

/-- `ps` refines `ws`: every original word is the concatenation of one or more consecutive non-empty
    piece-words, in order, and nothing else is present: nothing dropped, duplicated, reordered; two
    distinct words are never fused. -/
def Refines (ps ws : List Bytes) : Prop :=
  ∃ chunks : List (List Bytes), chunks.map List.flatten = ws ∧ chunks.flatten = ps ∧
    ∀ c ∈ chunks, c ≠ [] ∧ ∀ x ∈ c, x ≠ []

end Girc.Spec
