import Girc.Spec.Sim
import Girc.Proofs.InvHandlers
import Girc.Proofs.SimJoinSteps
/-
  C04 proofs, part 3: messages that add members (JOIN, NAMES).
  In every statement `st`/`r` are the states AFTER the account-tag step.
-/
namespace Girc.Proofs.SimJoin
open Girc Girc.Model Girc.Spec Girc.Proofs.InvBase

/-! ### JOIN: the reference side -/

/-- The extended-join attributes, as `cmdStep` applies them. -/
def refAttrs (r : Ref) (n : Bytes) (ext : List Bytes) : Ref :=
  match ext with
  | acct :: rest =>
    let r := if acct ≠ sStar then r.updUser n (fun u => { u with account := acct }) else r
    (match rest with | rn :: _ => r.updUser n (fun u => { u with realname := rn }) | [] => r)
  | [] => r

def refJoin (cfg : Cfg) (r : Ref) (src : Source) (chan : Bytes) (ext : List Bytes) : Ref :=
  let r4 := refAttrs (((r.ensureChan chan).ensureUser src).addMember (fold chan) (fold src.name)) (fold src.name) ext
  if r4.isMe cfg src.name then { r4 with myIdent := src.ident, myHost := src.host } else r4

theorem cmdStep_JOIN (cfg : Cfg) (r : Ref) (e : Event) (hcmd : e.command = cJOIN)
    {src : Source} {chan : Bytes} {ext : List Bytes} (hs : e.source = some src) (hp : e.params = chan :: ext) :
    r.cmdStep cfg e = refJoin cfg r src chan ext := by
  unfold Ref.cmdStep
  dsimp only
  rw [hcmd, if_neg (by decide), if_pos rfl, hs, hp]
  rfl

theorem conformant_JOIN (cfg : Cfg) (r : Ref) (e : Event) (hc : r.conformant cfg e = true)
    (hcmd : e.command = cJOIN) :
    ∃ src chan ext, e.source = some src ∧ e.params = chan :: ext ∧ isValidChannel chan = true := by
  unfold Ref.conformant at hc
  dsimp only at hc
  rw [hcmd, if_pos rfl, Bool.and_eq_true, Bool.and_eq_true] at hc
  obtain ⟨_, _, hm⟩ := hc
  cases hs : e.source with
  | none => rw [hs] at hm; simp at hm
  | some src =>
    cases hp : e.params with
    | nil => rw [hs, hp] at hm; simp at hm
    | cons chan ext =>
      rw [hs, hp] at hm
      simp only [Bool.and_eq_true] at hm
      exact ⟨src, chan, ext, rfl, rfl, hm.1⟩

theorem ne_nil_of_isValidChannel {chan : Bytes} (h : isValidChannel chan = true) : chan ≠ [] := by
  intro e
  subst e
  cases h

/-! ### JOIN: the implementation side -/

theorem handleJOIN_eq (cfg : Cfg) (st : St) (e : Event) {src : Source} {chan : Bytes} {ext : List Bytes}
    (hs : e.source = some src) (hp : e.params = chan :: ext) :
    handleJOIN cfg st e = InvJoin.joinA cfg (chan :: ext) src chan (InvJoin.ensureChannel st chan) := by
  unfold handleJOIN
  rw [hs, hp]
  rfl

theorem joinA_eq (cfg : Cfg) (params : List Bytes) (src : Source) (chan : Bytes) (st : St)
    {ch : Channel} {u : User} (hch : st.lookupChannel chan = some ch)
    (hu : (InvJoin.ensureUser st src).lookupUser src.name = some u) :
    InvJoin.joinA cfg params src chan st = InvJoin.joinC cfg params src chan ch u (InvJoin.ensureUser st src) := by
  unfold InvJoin.joinA
  rw [hch]
  show InvJoin.joinB cfg params src chan ch (InvJoin.ensureUser st src) = _
  unfold InvJoin.joinB
  rw [hu]
  rfl

theorem stEq_setUser_self {st : St} {n : Bytes} {u : User} (hu : AMap.get? st.users n = some u) :
    StEq st (setUser st n u) := by
  refine ⟨rfl, rfl, rfl, rfl, rfl, rfl, fun _ => rfl, fun _ => rfl, fun x => ?_⟩
  show _ = AMap.get? (AMap.set st.users n u) x
  rw [get?_set]
  by_cases e : x = n
  · rw [if_pos e, e, hu]
  · rw [if_neg e]

theorem stEq_setUser_setUser (st : St) (n : Bytes) (v w : User) :
    StEq (setUser (setUser st n v) n w) (setUser st n w) :=
  ⟨rfl, rfl, rfl, rfl, rfl, rfl, fun _ => rfl, fun _ => rfl, fun x => InvJoin.get?_set_set _ _ _ _ x⟩

/-- The extended-join attributes commute. -/
theorem simW_joinAttrs {st : St} {r : Ref} (h : SimW st r) {n : Bytes} {u : User}
    (hu : AMap.get? st.users n = some u) (chan : Bytes) (ext : List Bytes) :
    SimW (setUser st n (InvJoin.joinAttrs (chan :: ext) u)) (refAttrs r n ext) := by
  cases ext with
  | nil => exact h.congr (stEq_setUser_self hu)
  | cons acct rest =>
    by_cases hacct : acct ≠ sStar
    · have W1 : SimW (setUser st n { u with account := acct })
          (r.updUser n (fun u => { u with account := acct })) :=
        simW_updUser h _ hu rfl rfl rfl
      cases rest with
      | nil =>
        have e1 : InvJoin.joinAttrs [chan, acct] u = { u with account := acct } := by
          simp only [InvJoin.joinAttrs, if_pos hacct]
        have e2 : refAttrs r n [acct] = r.updUser n (fun u => { u with account := acct }) := by
          simp only [refAttrs, if_pos hacct]
        rw [e1, e2]; exact W1
      | cons rn rest' =>
        have e1 : InvJoin.joinAttrs (chan :: acct :: rn :: rest') u = { u with account := acct, name := rn } := by
          simp only [InvJoin.joinAttrs, if_pos hacct]
        have e2 : refAttrs r n (acct :: rn :: rest') =
            (r.updUser n (fun u => { u with account := acct })).updUser n (fun u => { u with realname := rn }) := by
          simp only [refAttrs, if_pos hacct]
        rw [e1, e2]
        have W2 := simW_updUser W1 (u' := { u with account := acct, name := rn })
          (fun u => { u with realname := rn }) (get?_set_self _ _ _) rfl rfl rfl
        exact W2.congr (stEq_setUser_setUser _ _ _ _)
    · cases rest with
      | nil =>
        have e1 : InvJoin.joinAttrs [chan, acct] u = u := by
          simp only [InvJoin.joinAttrs, if_neg hacct]
        have e2 : refAttrs r n [acct] = r := by
          simp only [refAttrs, if_neg hacct]
        rw [e1, e2]; exact h.congr (stEq_setUser_self hu)
      | cons rn rest' =>
        have e1 : InvJoin.joinAttrs (chan :: acct :: rn :: rest') u = { u with name := rn } := by
          simp only [InvJoin.joinAttrs, if_neg hacct]
        have e2 : refAttrs r n (acct :: rn :: rest') = r.updUser n (fun u => { u with realname := rn }) := by
          simp only [refAttrs, if_neg hacct]
        rw [e1, e2]
        exact simW_updUser h _ hu rfl rfl rfl

theorem isMe_iff {st : St} {r : Ref} (h : SimW st r) (cfg : Cfg) (x : Bytes) :
    r.isMe cfg x = true ↔ fold x = getID cfg st := by
  unfold Ref.isMe Ref.myNick getID getNick
  rw [h.nick]
  exact decide_eq_true_iff

/-- The state both branches of `joinC` build on is related to the reference before the own-ident step. -/
theorem simW_joinCore {st : St} {r : Ref} (h : SimW st r) (hL : InvL st.channels st.users)
    (src : Source) (chan : Bytes) (ext : List Bytes) (hne : chan ≠ []) :
    ∃ ch u, (InvJoin.ensureChannel st chan).lookupChannel chan = some ch ∧
      (InvJoin.ensureUser (InvJoin.ensureChannel st chan) src).lookupUser src.name = some u ∧
      SimW (setUser (setChannel (InvJoin.ensureUser (InvJoin.ensureChannel st chan) src) (fold chan) (ch.addUser u.nick))
              (fold src.name) (InvJoin.joinAttrs (chan :: ext) (u.addChannel (ch.addUser u.nick).name)))
        (refAttrs (((r.ensureChan chan).ensureUser src).addMember (fold chan) (fold src.name)) (fold src.name) ext) := by
  have W1 := simW_ensureChan h chan hne
  obtain ⟨hL1, ch, hch⟩ := InvJoin.ensureChannel_spec st chan hL
  have W2 := simW_ensureUser W1 src
  obtain ⟨hcs, u, hu, hun, _⟩ := InvJoin.ensureUser_spec (InvJoin.ensureChannel st chan) src hL1
  have hk : fold chan = fold ch.name := hL1.chanKey _ ch hch
  have hch2 : AMap.get? (InvJoin.ensureUser (InvJoin.ensureChannel st chan) src).channels (fold chan) = some ch := by
    rw [hcs]; exact hch
  have W3 := simW_addMember W2 hch2 hu (a := u.nick) (b := ch.name) hun.symm hk.symm
  have W4 := simW_joinAttrs W3 (n := fold src.name) (u := u.addChannel ch.name) (get?_set_self _ _ _) chan ext
  refine ⟨ch, u, hch, hu, ?_⟩
  rw [InvJoin.addUser_name]
  exact W4.congr ⟨rfl, rfl, rfl, rfl, rfl, rfl, fun _ => rfl, fun _ => rfl,
    fun x => InvJoin.get?_set_set _ _ _ _ x⟩

theorem sim_JOIN {st : St} {r : Ref} (cfg : Cfg) (e : Event) (h : Sim st r)
    (hc : r.conformant cfg e = true) (hcmd : e.command = cJOIN) :
    ∃ st' outs, handleJOIN cfg st e = .ok (st', outs) ∧ Sim st' (r.cmdStep cfg e) := by
  obtain ⟨src, chan, ext, hs, hp, hv⟩ := conformant_JOIN cfg r e hc hcmd
  obtain ⟨st', outs, heq, hinv⟩ := InvJoin.handleJOIN_inv cfg st e h.inv
  refine ⟨st', outs, heq, SimW.to_sim ?_ hinv⟩
  obtain ⟨ch, u, hch, hu, W⟩ := simW_joinCore (SimW.of_sim h) h.inv.toInvL src chan ext (ne_nil_of_isValidChannel hv)
  rw [cmdStep_JOIN cfg r e hcmd hs hp]
  rw [handleJOIN_eq cfg st e hs hp, joinA_eq cfg _ src chan _ hch hu] at heq
  unfold InvJoin.joinC at heq
  dsimp only at heq
  unfold refJoin
  dsimp only
  split at heq
  · rename_i hme
    rw [if_pos ((isMe_iff W cfg src.name).mpr hme)]
    cases heq
    exact simW_identHost W src.ident src.host
  · rename_i hme
    rw [if_neg (fun hm => hme ((isMe_iff W cfg src.name).mp hm))]
    cases heq
    exact W

/-! ### NAMES: one entry -/

/-- What one well-formed NAMES entry means, once its source is determined. -/
def refNamesBody (r : Ref) (c : Bytes) (syms : Bytes) (s : Source) : Ref :=
  ((r.ensureUser s).addMember c (fold s.name)).setPerms c (fold s.name) (permsFromPrefix syms)

/-- Both sides parse an entry the same way. -/
theorem namesEntry_cases2 (k : Bytes) (st : St) (r : Ref) (part : Bytes) :
    (namesEntry k st part = .ok st ∧ r.namesEntry k part = r) ∨
      ∃ modes src, namesEntry k st part = InvJoin.namesBody k st modes src ∧
        r.namesEntry k part = refNamesBody r k modes src := by
  unfold namesEntry Ref.namesEntry
  rcases parseUserPrefix part with ⟨modes, nick, ok⟩
  dsimp only
  cases ok
  · exact Or.inl ⟨rfl, rfl⟩
  · by_cases hat : nick.contains AT = true
    · refine Or.inr ⟨modes, parseSource nick, ?_, ?_⟩
      · simp only [hat, if_true]; rfl
      · simp only [hat, if_true]; rfl
    · by_cases hv : isValidNick nick = true
      · refine Or.inr ⟨modes, ⟨nick, [], []⟩, ?_, ?_⟩
        · simp only [hat, hv]; rfl
        · simp only [hat, hv]; rfl
      · refine Or.inl ⟨?_, ?_⟩
        · simp only [hat, hv]; rfl
        · simp only [hat, hv]; rfl

theorem namesBody_eq (k : Bytes) (st : St) (modes : Bytes) (src : Source) {ch : Channel} {u : User}
    (hch : AMap.get? st.channels k = some ch)
    (hcs : (InvJoin.ensureUser st src).channels = st.channels)
    (hu : (InvJoin.ensureUser st src).lookupUser src.name = some u) :
    InvJoin.namesBody k st modes src =
      .ok (setChannel (setUser (InvJoin.ensureUser st src) (fold src.name)
          { u.addChannel ch.name with
            perms := AMap.set (u.addChannel ch.name).perms (fold (ch.addUser (fold src.name)).name)
              (permsFromPrefix modes) }) k (ch.addUser (fold src.name))) := by
  unfold InvJoin.namesBody
  dsimp only
  rw [InvJoin.createUser_eq_ensureUser, hu]
  dsimp only
  rw [hcs, hch]
  rfl

/-- The loop invariant of NAMES: the relation, and the channel is still there. -/
def NamesSim (k : Bytes) (st : St) (r : Ref) : Prop :=
  Sim st r ∧ ∃ ch, AMap.get? st.channels k = some ch

theorem namesBody_sim (k : Bytes) (st : St) (r : Ref) (modes : Bytes) (src : Source) (h : NamesSim k st r) :
    ∃ st', InvJoin.namesBody k st modes src = .ok st' ∧ NamesSim k st' (refNamesBody r k modes src) := by
  obtain ⟨hsim, ch, hch⟩ := h
  obtain ⟨st', heq, hinv', ch', hch'⟩ := InvJoin.namesBody_inv k st modes src ⟨hsim.inv, ch, hch⟩
  refine ⟨st', heq, SimW.to_sim ?_ hinv', ch', hch'⟩
  have hL := hsim.inv.toInvL
  obtain ⟨hcs, u, hu, _, _⟩ := InvJoin.ensureUser_spec st src hL
  have hk : k = fold ch.name := hL.chanKey _ ch hch
  rw [namesBody_eq k st modes src hch hcs hu] at heq
  cases heq
  have W2 := simW_ensureUser (SimW.of_sim hsim) src
  have hch2 : AMap.get? (InvJoin.ensureUser st src).channels k = some ch := by rw [hcs]; exact hch
  have W3 := simW_addMember W2 hch2 hu (a := fold src.name) (b := ch.name) (fold_idem _) hk.symm
  have W5 := simW_setPerms W3 (n := fold src.name) (u := u.addChannel ch.name) k (permsFromPrefix modes)
    (get?_set_self _ _ _)
  rw [InvJoin.addUser_name, ← hk]
  unfold refNamesBody
  exact W5.congr ⟨rfl, rfl, rfl, rfl, rfl, rfl, fun _ => rfl, fun _ => rfl,
    fun x => InvJoin.get?_set_set _ _ _ _ x⟩

theorem namesEntry_sim (k : Bytes) (st : St) (r : Ref) (part : Bytes) (h : NamesSim k st r) :
    ∃ st', namesEntry k st part = .ok st' ∧ NamesSim k st' (r.namesEntry k part) := by
  rcases namesEntry_cases2 k st r part with ⟨he, hr⟩ | ⟨modes, src, he, hr⟩
  · rw [he, hr]; exact ⟨st, rfl, h⟩
  · rw [he, hr]; exact namesBody_sim k st r modes src h

theorem names_foldl_sim (k : Bytes) (parts : List Bytes) (st : St) (r : Ref) (h : NamesSim k st r) :
    ∃ st', parts.foldlM (namesEntry k) st = .ok st' ∧
      NamesSim k st' (parts.foldl (fun r p => r.namesEntry k p) r) := by
  induction parts generalizing st r with
  | nil => exact ⟨st, rfl, h⟩
  | cons p ps ih =>
    obtain ⟨st1, he, h1⟩ := namesEntry_sim k st r p h
    rw [List.foldlM_cons, he, List.foldl_cons]
    exact ih st1 _ h1

/-! ### NAMES: the message -/

theorem conformant_NAMES (cfg : Cfg) (r : Ref) (e : Event) (hc : r.conformant cfg e = true)
    (hcmd : e.command = c353) :
    ∃ a b chan d rest, e.params = a :: b :: chan :: d :: rest ∧ AMap.contains r.chans (fold chan) = true := by
  unfold Ref.conformant at hc
  dsimp only at hc
  rw [hcmd, if_neg (by decide), if_neg (by decide), if_neg (by decide), if_neg (by decide),
    if_neg (by decide), if_pos rfl, Bool.and_eq_true] at hc
  obtain ⟨_, hm⟩ := hc
  rcases hp : e.params with _ | ⟨a, _ | ⟨b, _ | ⟨chan, _ | ⟨d, rest⟩⟩⟩⟩
  all_goals rw [hp] at hm
  · cases hm
  · cases hm
  · cases hm
  · cases hm
  · simp only [Bool.and_eq_true] at hm
    exact ⟨a, b, chan, d, rest, rfl, hm.1⟩

theorem cmdStep_NAMES (cfg : Cfg) (r : Ref) (e : Event) (hcmd : e.command = c353)
    {a b chan d : Bytes} {rest : List Bytes} (hp : e.params = a :: b :: chan :: d :: rest) :
    r.cmdStep cfg e =
      if AMap.contains r.chans (fold chan) then
        (splitOnByte SP e.last).foldl (fun r p => r.namesEntry (fold chan) p) r
      else r := by
  unfold Ref.cmdStep Event.last
  dsimp only
  generalize e.params.getLastD [] = last
  rw [hcmd, if_neg (by decide), if_neg (by decide), if_neg (by decide), if_neg (by decide),
    if_neg (by decide), if_neg (by decide), if_pos rfl, hp]

theorem handleNAMES_eq (st : St) (e : Event) {a b chan d : Bytes} {rest : List Bytes}
    (hp : e.params = a :: b :: chan :: d :: rest) {ch : Channel} (hch : st.lookupChannel chan = some ch) :
    handleNAMES st e = (splitOnByte SP e.last).foldlM (namesEntry (fold chan)) st := by
  unfold handleNAMES
  rw [hp]
  split
  · rename_i hlen
    simp only [List.length_cons] at hlen
    omega
  · show (match st.lookupChannel chan with
      | none => Except.ok st
      | some _ => List.foldlM (namesEntry (fold chan)) st (splitOnByte SP e.last)) = _
    rw [hch]

theorem sim_NAMES {st : St} {r : Ref} (cfg : Cfg) (e : Event) (h : Sim st r)
    (hc : r.conformant cfg e = true) (hcmd : e.command = c353) :
    ∃ st', handleNAMES st e = .ok st' ∧ Sim st' (r.cmdStep cfg e) := by
  obtain ⟨a, b, chan, d, rest, hp, hk⟩ := conformant_NAMES cfg r e hc hcmd
  obtain ⟨ch, hch⟩ := get?_of_known h.chans hk
  rw [cmdStep_NAMES cfg r e hcmd hp, if_pos hk, handleNAMES_eq st e hp hch]
  obtain ⟨st', heq, hs, _⟩ := names_foldl_sim (fold chan) (splitOnByte SP e.last) st r ⟨h, ch, hch⟩
  exact ⟨st', heq, hs⟩

end Girc.Proofs.SimJoin
