import Girc.Base.Utf8
import Girc.Base.GoLib
/-
  General facts about the UTF-8 model (`utf8Width`, `validUTF8`, `toValidUTF8`).
  Layout: (1) `utf8Width` looks at ≤ 4 bytes: bounds, prefix stability, ASCII boundary;
  (2) fuel independence and fuel-free unfolding lemmas (`validUTF8_of_width_*`, `tv_of_width_*`);
  (3) the theorems: valid input is a fixpoint, validity of concatenations, ASCII strings,
  distribution of the sanitiser over ASCII separators, `toValidUTF8 []` only deletes bytes.
-/
set_option linter.unusedSimpArgs false
namespace Girc.Proofs.Utf8
open Girc

/-! ### `utf8Width` -/

theorem utf8Width_append {s : Bytes} {w : Nat} (t : Bytes) (h : utf8Width s = some w) :
    utf8Width (s ++ t) = some w := by
  rcases s with _ | ⟨b0, rest⟩
  · simp [utf8Width] at h
  · by_cases c1 : b0 < 128
    · simp [utf8Width, c1] at h ⊢; exact h
    by_cases c2 : (194 ≤ b0 ∧ b0 ≤ 223)
    · rcases rest with _ | ⟨b1, rest⟩ <;> simp [utf8Width, c1, c2] at h ⊢; exact h
    by_cases c3 : (224 ≤ b0 ∧ b0 ≤ 239)
    · rcases rest with _ | ⟨b1, _ | ⟨b2, rest⟩⟩ <;> simp [utf8Width, c1, c2, c3] at h ⊢; exact h
    by_cases c4 : (240 ≤ b0 ∧ b0 ≤ 244)
    · rcases rest with _ | ⟨b1, _ | ⟨b2, _ | ⟨b3, rest⟩⟩⟩ <;> simp [utf8Width, c1, c2, c3, c4] at h ⊢; exact h
    · simp [utf8Width, c1, c2, c3, c4] at h

theorem utf8Width_bounds {s : Bytes} {w : Nat} (h : utf8Width s = some w) :
    1 ≤ w ∧ w ≤ 4 ∧ w ≤ s.length := by
  rcases s with _ | ⟨b0, rest⟩
  · simp [utf8Width] at h
  · by_cases c1 : b0 < 128
    · simp [utf8Width, c1] at h ⊢; omega
    by_cases c2 : (194 ≤ b0 ∧ b0 ≤ 223)
    · rcases rest with _ | ⟨b1, rest⟩ <;> simp [utf8Width, c1, c2] at h ⊢; omega
    by_cases c3 : (224 ≤ b0 ∧ b0 ≤ 239)
    · rcases rest with _ | ⟨b1, _ | ⟨b2, rest⟩⟩ <;> simp [utf8Width, c1, c2, c3] at h ⊢; omega
    by_cases c4 : (240 ≤ b0 ∧ b0 ≤ 244)
    · rcases rest with _ | ⟨b1, _ | ⟨b2, _ | ⟨b3, rest⟩⟩⟩ <;> simp [utf8Width, c1, c2, c3, c4] at h ⊢; omega
    · simp [utf8Width, c1, c2, c3, c4] at h

theorem ascii_facts : ∀ x : Byte, x < 0x80 →
    isCont x = false ∧ ¬ (0x80 ≤ x) ∧ ¬ (0x90 ≤ x) ∧ ¬ (0xA0 ≤ x) := by decide +kernel

theorem utf8Width_append_ascii (a b : Bytes) (x : Byte) (hx : x < 0x80) (ha : a ≠ []) :
    utf8Width (a ++ x :: b) = utf8Width a := by
  obtain ⟨h1, h2, h3, h4⟩ := ascii_facts x hx
  have e3 : ∀ b0 : Byte, decide ((if b0 = 224 then (160:Byte) else 128) ≤ x) = false := by
    intro b0; split <;> simp_all
  have e4 : ∀ b0 : Byte, decide ((if b0 = 240 then (144:Byte) else 128) ≤ x) = false := by
    intro b0; split <;> simp_all
  rcases a with _ | ⟨b0, _ | ⟨b1, _ | ⟨b2, _ | ⟨b3, rest⟩⟩⟩⟩
  · exact absurd rfl ha
  · rcases b with _ | ⟨y, _ | ⟨z, b⟩⟩ <;> simp [utf8Width, h1, e3, e4]
  · rcases b with _ | ⟨y, b⟩ <;> simp [utf8Width, h1, e3, e4]
  · simp [utf8Width, h1, e3, e4]
  · simp [utf8Width]

/-! ### Fuel independence, unfolding -/


theorem validUTF8Fuel_nil (n : Nat) : validUTF8Fuel n [] = true := by
  cases n <;> rfl

theorem toValidUTF8Fuel_nil (r : Bytes) (n : Nat) (run : Bool) : toValidUTF8Fuel r n run [] = [] := by
  cases n <;> rfl

theorem length_drop_lt {s : Bytes} {w : Nat} (h : utf8Width s = some w) :
    (s.drop w).length < s.length := by
  have := utf8Width_bounds h
  simp only [List.length_drop]; omega

/-- Fuel independence for `validUTF8Fuel`. -/
theorem validUTF8Fuel_eq : ∀ (n m : Nat) (s : Bytes), s.length ≤ n → s.length ≤ m →
    validUTF8Fuel n s = validUTF8Fuel m s
  | n, m, [], _, _ => by rw [validUTF8Fuel_nil, validUTF8Fuel_nil]
  | 0, _, _ :: _, h, _ => by simp at h
  | _, 0, _ :: _, _, h => by simp at h
  | n + 1, m + 1, b :: rest, hn, hm => by
    simp only [validUTF8Fuel]
    cases hw : utf8Width (b :: rest) with
    | none => rfl
    | some w =>
      have := length_drop_lt hw
      exact validUTF8Fuel_eq n m _ (by omega) (by omega)

/-- Fuel independence for `toValidUTF8Fuel`. -/
theorem toValidUTF8Fuel_eq (r : Bytes) : ∀ (n m : Nat) (run : Bool) (s : Bytes), s.length ≤ n → s.length ≤ m →
    toValidUTF8Fuel r n run s = toValidUTF8Fuel r m run s
  | n, m, _, [], _, _ => by rw [toValidUTF8Fuel_nil, toValidUTF8Fuel_nil]
  | 0, _, _, _ :: _, h, _ => by simp at h
  | _, 0, _, _ :: _, _, h => by simp at h
  | n + 1, m + 1, run, b :: rest, hn, hm => by
    simp only [toValidUTF8Fuel]
    cases hw : utf8Width (b :: rest) with
    | none =>
      simp only
      rw [toValidUTF8Fuel_eq r n m true rest (by simp at hn; omega) (by simp at hm; omega)]
    | some w =>
      have := length_drop_lt hw
      simp only
      rw [toValidUTF8Fuel_eq r n m false _ (by omega) (by omega)]

theorem validUTF8_nil : validUTF8 [] = true := rfl

theorem validUTF8_of_width_some {s : Bytes} {w : Nat} (h : utf8Width s = some w) :
    validUTF8 s = validUTF8 (s.drop w) := by
  have hl := length_drop_lt h
  match s, h, hl with
  | b :: rest, h, hl =>
    unfold validUTF8
    simp only [List.length_cons, validUTF8Fuel, h]
    exact validUTF8Fuel_eq _ _ _ (by simp at hl ⊢; omega) (Nat.le_refl _)

theorem validUTF8_of_width_none {s : Bytes} (hs : s ≠ []) (h : utf8Width s = none) :
    validUTF8 s = false := by
  match s, hs, h with
  | b :: rest, _, h =>
    unfold validUTF8
    simp only [List.length_cons, validUTF8Fuel, h]

theorem validUTF8_cons_inv {s : Bytes} (hs : s ≠ []) (h : validUTF8 s = true) :
    ∃ w, utf8Width s = some w ∧ validUTF8 (s.drop w) = true := by
  cases hw : utf8Width s with
  | none => rw [validUTF8_of_width_none hs hw] at h; cases h
  | some w => exact ⟨w, rfl, by rw [← validUTF8_of_width_some hw]; exact h⟩

/-- `toValidUTF8` generalised over the `inRun` flag, with canonical fuel. -/
def tv (r : Bytes) (run : Bool) (s : Bytes) : Bytes := toValidUTF8Fuel r s.length run s

theorem toValidUTF8_eq_tv (r s : Bytes) : toValidUTF8 r s = tv r false s := rfl

@[simp] theorem tv_nil (r : Bytes) (run : Bool) : tv r run [] = [] := rfl

theorem tv_of_width_some (r : Bytes) (run : Bool) {s : Bytes} {w : Nat} (h : utf8Width s = some w) :
    tv r run s = s.take w ++ tv r false (s.drop w) := by
  have hl := length_drop_lt h
  match s, h, hl with
  | b :: rest, h, hl =>
    unfold tv
    simp only [List.length_cons, toValidUTF8Fuel, h]
    rw [toValidUTF8Fuel_eq r _ _ false _ (by simp at hl ⊢; omega) (Nat.le_refl _)]

theorem tv_of_width_none (r : Bytes) (run : Bool) {b : Byte} {rest : Bytes}
    (h : utf8Width (b :: rest) = none) :
    tv r run (b :: rest) = (if run then [] else r) ++ tv r true rest := by
  unfold tv
  simp only [List.length_cons, toValidUTF8Fuel, h]



theorem utf8Width_ascii {x : Byte} (rest : Bytes) (hx : x < 0x80) : utf8Width (x :: rest) = some 1 := by
  simp [utf8Width, hx]

/-- Strong induction on the length of a byte string. -/
theorem bytes_strong_induction {P : Bytes → Prop}
    (h : ∀ s, (∀ t : Bytes, t.length < s.length → P t) → P s) : ∀ s, P s := by
  intro s
  generalize hn : s.length = n
  induction n using Nat.strongRecOn generalizing s with
  | _ n ih => exact h s (fun t ht => ih t.length (hn ▸ ht) t rfl)

theorem tv_of_valid (r : Bytes) (s : Bytes) : validUTF8 s = true → tv r false s = s := by
  induction s using bytes_strong_induction with
  | _ s ih =>
    intro hv
    by_cases hs : s = []
    · subst hs; rfl
    · obtain ⟨w, hw, hv'⟩ := validUTF8_cons_inv hs hv
      rw [tv_of_width_some r false hw, ih _ (length_drop_lt hw) hv', List.take_append_drop]

theorem toValidUTF8_of_valid (r s : Bytes) (h : validUTF8 s = true) : toValidUTF8 r s = s :=
  tv_of_valid r s h

theorem validUTF8_append (a b : Bytes) (ha : validUTF8 a = true) (hb : validUTF8 b = true) :
    validUTF8 (a ++ b) = true := by
  induction a using bytes_strong_induction with
  | _ a ih =>
    by_cases hs : a = []
    · subst hs; simpa using hb
    · obtain ⟨w, hw, hv'⟩ := validUTF8_cons_inv hs ha
      rw [validUTF8_of_width_some (utf8Width_append b hw),
        List.drop_append_of_le_length (utf8Width_bounds hw).2.2]
      exact ih _ (length_drop_lt hw) hv'

theorem validUTF8_ascii (s : Bytes) (h : s.all (· < 0x80) = true) : validUTF8 s = true := by
  induction s with
  | nil => rfl
  | cons x rest ih =>
    simp only [List.all_cons, Bool.and_eq_true, decide_eq_true_eq] at h
    rw [validUTF8_of_width_some (utf8Width_ascii rest h.1)]
    exact ih h.2

/-- With an empty replacement, the sanitiser only deletes bytes. -/
theorem tv_nil_sublist (run : Bool) (s : Bytes) : (tv [] run s).Sublist s := by
  induction s using bytes_strong_induction generalizing run with
  | _ s ih =>
    match s, ih with
    | [], _ => simp
    | b :: rest, ih =>
      cases hw : utf8Width (b :: rest) with
      | none =>
        rw [tv_of_width_none [] run hw]
        have : (if run = true then ([] : Bytes) else []) = [] := by split <;> rfl
        rw [this, List.nil_append]
        exact List.Sublist.cons _ (ih rest (by simp) true)
      | some w =>
        rw [tv_of_width_some [] run hw]
        have := (List.Sublist.refl ((b :: rest).take w)).append (ih _ (length_drop_lt hw) false)
        rwa [List.take_append_drop] at this

theorem toValidUTF8_nil_sublist (s : Bytes) : (toValidUTF8 [] s).Sublist s := tv_nil_sublist false s

theorem toValidUTF8_nil_length_le (s : Bytes) : (toValidUTF8 [] s).length ≤ s.length :=
  (toValidUTF8_nil_sublist s).length_le


theorem tv_append_ascii (r : Bytes) (run : Bool) (a b : Bytes) (x : Byte) (hx : x < 0x80) :
    tv r run (a ++ x :: b) = tv r run a ++ x :: tv r false b := by
  induction a using bytes_strong_induction generalizing run with
  | _ a ih =>
    match a, ih with
    | [], _ =>
      rw [List.nil_append, tv_of_width_some r run (utf8Width_ascii b hx)]
      simp
    | c :: a', ih =>
      have hE := utf8Width_append_ascii (c :: a') b x hx (by simp)
      cases hw : utf8Width (c :: a') with
      | none =>
        rw [hw] at hE
        rw [List.cons_append] at hE ⊢
        rw [tv_of_width_none r run hE, tv_of_width_none r run hw, ih a' (by simp) true,
          List.append_assoc]
      | some w =>
        rw [hw] at hE
        have hb := (utf8Width_bounds hw).2.2
        rw [tv_of_width_some r run hE, tv_of_width_some r run hw,
          List.take_append_of_le_length hb, List.drop_append_of_le_length hb,
          ih _ (length_drop_lt hw) false, List.append_assoc]

theorem toValidUTF8_append_ascii (r a b : Bytes) (x : Byte) (hx : x < 0x80) :
    toValidUTF8 r (a ++ x :: b) = toValidUTF8 r a ++ x :: toValidUTF8 r b :=
  tv_append_ascii r false a b x hx

theorem toValidUTF8_append_ascii' (r a b : Bytes) (x : Byte) (hx : x < 0x80) :
    toValidUTF8 r (a ++ [x] ++ b) = toValidUTF8 r a ++ [x] ++ toValidUTF8 r b := by
  simpa using toValidUTF8_append_ascii r a b x hx

theorem validUTF8_append_of_valid_left (a b : Bytes) (ha : validUTF8 a = true) :
    validUTF8 (a ++ b) = validUTF8 b := by
  induction a using bytes_strong_induction with
  | _ a ih =>
    by_cases hs : a = []
    · subst hs; simp
    · obtain ⟨w, hw, hv'⟩ := validUTF8_cons_inv hs ha
      rw [validUTF8_of_width_some (utf8Width_append b hw),
        List.drop_append_of_le_length (utf8Width_bounds hw).2.2]
      exact ih _ (length_drop_lt hw) hv'

theorem toValidUTF8_append_of_valid_left (r a b : Bytes) (ha : validUTF8 a = true) :
    toValidUTF8 r (a ++ b) = a ++ toValidUTF8 r b := by
  show tv r false (a ++ b) = a ++ tv r false b
  induction a using bytes_strong_induction with
  | _ a ih =>
    by_cases hs : a = []
    · subst hs; simp
    · obtain ⟨w, hw, hv'⟩ := validUTF8_cons_inv hs ha
      have hb := (utf8Width_bounds hw).2.2
      rw [tv_of_width_some r false (utf8Width_append b hw),
        List.take_append_of_le_length hb, List.drop_append_of_le_length hb,
        ih _ (length_drop_lt hw) hv', ← List.append_assoc, List.take_append_drop]

/-- Splitting validity at an ASCII byte. -/
theorem validUTF8_append_ascii (a b : Bytes) (x : Byte) (hx : x < 0x80) :
    validUTF8 (a ++ x :: b) = (validUTF8 a && validUTF8 b) := by
  induction a using bytes_strong_induction with
  | _ a ih =>
    by_cases hs : a = []
    · subst hs
      rw [List.nil_append, validUTF8_of_width_some (utf8Width_ascii b hx)]
      simp [validUTF8_nil]
    · have hE := utf8Width_append_ascii a b x hx hs
      cases hw : utf8Width a with
      | none =>
        rw [hw] at hE
        rw [validUTF8_of_width_none (by simp) hE, validUTF8_of_width_none hs hw]; rfl
      | some w =>
        rw [hw] at hE
        have hb := (utf8Width_bounds hw).2.2
        rw [validUTF8_of_width_some hE, validUTF8_of_width_some hw,
          List.drop_append_of_le_length hb, ih _ (length_drop_lt hw)]

end Girc.Proofs.Utf8
