import Girc.Model.Cap
/-
  Model of the STS decision logic outside handleCAP: `Client.server()`, `newConn` (which transport
  is used; what a failed dial / handshake does to the stored policy) and the tail of
  `internalConnect` (redial after an upgrade request). Clock readings are explicit observations.
-/
namespace Girc.Model
open Girc

def Sts.enabled (s : Sts) : Bool := s.upgradePort > 0

/-- `strictTransport.reset()` -/
def Sts.reset (s : Sts) : Sts := { s with upgradePort := -1, persistenceDuration := -1, preload := false }

/-- `Client.server()` and `conf.SSL || sts.enabled()`: (port, TLS?) of the next dial. -/
def planDial (configPort : Int) (ssl : Bool) (s : Sts) : Int × Bool :=
  (if s.enabled then s.upgradePort else configPort, ssl || s.enabled)

inductive DialError where
  | plain            -- the underlying error, returned as is
  | stsUpgradeFailed -- wrapped in ErrSTSUpgradeFailed
  deriving DecidableEq, Repr

/-- `newConn` when the dial or the TLS handshake fails: the error returned and the stored policy
    afterwards. `expired` is the observation `sts.expired()`. -/
def onDialFail (disableFallback expired : Bool) (s : Sts) : Sts × DialError :=
  (if expired && !disableFallback then s.reset else s,
   if s.enabled then .stsUpgradeFailed else .plain)

/-- The tail of `internalConnect` after a connection ended without error: redial iff an upgrade
    was requested. -/
def afterCleanEnd (s : Sts) : Sts × Bool :=
  if s.beginUpgrade then ({ s with beginUpgrade := false }, true) else (s, false)

end Girc.Model
