import Girc.Proofs.DispAux
/-
  C06 proofs: the auxiliary invariant `Good` of the dispatch model, split into groups over the fields
  each group talks about, and its preservation by every action.
-/
namespace Girc.Proofs.Disp
open Girc Girc.Model.Disp

def pcEv : Pc → Option Evt
  | .idle => none
  | .at ev _ _ => some ev

def pcK : Pc → Option (Evt × Nat)
  | .idle => none
  | .at ev k _ => some (ev, k)

@[simp] theorem pcEv_pcFinish (pc : Pc) (i : Inv) : pcEv (pcFinish pc i) = pcEv pc := by
  unfold pcFinish; split; · rfl
  cases pc <;> rfl

@[simp] theorem pcK_pcFinish (pc : Pc) (i : Inv) : pcK (pcFinish pc i) = pcK pc := by
  unfold pcFinish; split; · rfl
  cases pc <;> rfl

theorem nodup_of_nodup_map {α β} (f : α → β) : ∀ {l : List α}, (l.map f).Nodup → l.Nodup
  | [], _ => List.nodup_nil
  | x :: l, h => by
    simp only [List.map_cons, List.nodup_cons, List.mem_map, not_exists, not_and] at h
    exact List.nodup_cons.mpr ⟨fun hx => h.1 x hx rfl, nodup_of_nodup_map f h.2⟩

/-! ### handler ids, the table, removals, temporary handlers -/

structure IdsInv (table registry : List Entry) (nextId : Nat) (removed doneClosed tmpWant : List Nat) : Prop where
  reg_lt : ∀ e ∈ registry, e.id < nextId
  reg_nodup : (registry.map (·.id)).Nodup
  tab_sub : ∀ e ∈ table, e ∈ registry
  tab_nodup : (table.map (·.id)).Nodup
  rem : ∀ id ∈ removed, id < nextId ∧ hasId table id = false
  done_nodup : doneClosed.Nodup
  done_sub : ∀ id ∈ doneClosed, id ∈ removed ∧ ∃ e ∈ registry, e.id = id ∧ e.tmp = true
  want : ∀ id ∈ tmpWant, ∃ e ∈ registry, e.id = id ∧ e.tmp = true

theorem IdsInv.init (n : Nat) : IdsInv [] [] n [] [] [] := by
  constructor <;> simp

theorem IdsInv.add {table registry nextId removed doneClosed tmpWant}
    (h : IdsInv table registry nextId removed doneClosed tmpWant) (cmd : Bytes) (bg tmp : Bool) :
    IdsInv (table ++ [⟨nextId, cmd, bg, tmp⟩]) (registry ++ [⟨nextId, cmd, bg, tmp⟩]) (nextId + 1) removed doneClosed tmpWant := by
  have hfresh : ∀ e ∈ registry, e.id ≠ nextId := fun e he => Nat.ne_of_lt (h.reg_lt e he)
  constructor
  · intro e he
    rcases List.mem_append.mp he with he | he
    · exact Nat.lt_succ_of_lt (h.reg_lt e he)
    · simp only [List.mem_singleton] at he; subst he; exact Nat.lt_succ_self _
  · simp only [List.map_append, List.map_cons, List.map_nil, List.nodup_append, List.mem_map, List.mem_singleton]
    refine ⟨h.reg_nodup, by simp, ?_⟩
    rintro a ⟨e, he, rfl⟩ b rfl
    exact hfresh e he
  · intro e he
    rcases List.mem_append.mp he with he | he
    · exact List.mem_append_left _ (h.tab_sub e he)
    · exact List.mem_append_right _ he
  · simp only [List.map_append, List.map_cons, List.map_nil, List.nodup_append, List.mem_map, List.mem_singleton]
    refine ⟨h.tab_nodup, by simp, ?_⟩
    rintro a ⟨e, he, rfl⟩ b rfl
    exact hfresh e (h.tab_sub e he)
  · intro id hid
    have := h.rem id hid
    refine ⟨Nat.lt_succ_of_lt this.1, ?_⟩
    rw [hasId_eq_false] at this ⊢
    intro e he
    rcases List.mem_append.mp he with he | he
    · exact this.2 e he
    · simp only [List.mem_singleton] at he; subst he; exact (Nat.ne_of_lt this.1).symm
  · exact h.done_nodup
  · intro id hid
    obtain ⟨h1, e, he, h2⟩ := h.done_sub id hid
    exact ⟨h1, e, List.mem_append_left _ he, h2⟩
  · intro id hid
    obtain ⟨e, he, h2⟩ := h.want id hid
    exact ⟨e, List.mem_append_left _ he, h2⟩

theorem IdsInv.hasId_lt {table registry nextId removed doneClosed tmpWant}
    (h : IdsInv table registry nextId removed doneClosed tmpWant) {id : Nat} (hid : hasId table id = true) :
    id < nextId := by
  obtain ⟨e, he, rfl⟩ := hasId_eq_true.mp hid
  exact h.reg_lt e (h.tab_sub e he)

/-- taking a set of ids out of the table -/
theorem IdsInv.removeSet {table registry nextId removed doneClosed tmpWant}
    (h : IdsInv table registry nextId removed doneClosed tmpWant) {table' : List Entry} {gone : List Nat}
    (hsub : table'.Sublist table) (hg : ∀ id ∈ gone, hasId table id = true ∧ hasId table' id = false) :
    IdsInv table' registry nextId (removed ++ gone) doneClosed tmpWant := by
  constructor
  · exact h.reg_lt
  · exact h.reg_nodup
  · exact fun e he => h.tab_sub e (hsub.subset he)
  · exact List.Nodup.sublist (hsub.map _) h.tab_nodup
  · intro id hid
    rcases List.mem_append.mp hid with hid | hid
    · refine ⟨(h.rem id hid).1, ?_⟩
      have := (h.rem id hid).2
      rw [hasId_eq_false] at this ⊢
      exact fun e he => this e (hsub.subset he)
    · exact ⟨h.hasId_lt (hg id hid).1, (hg id hid).2⟩
  · exact h.done_nodup
  · intro id hid
    obtain ⟨h1, h2⟩ := h.done_sub id hid
    exact ⟨List.mem_append_left _ h1, h2⟩
  · exact h.want

theorem eraseId_sublist (t : List Entry) (id : Nat) : (eraseId t id).Sublist t := List.filter_sublist

theorem IdsInv.removeOne {table registry nextId removed doneClosed tmpWant}
    (h : IdsInv table registry nextId removed doneClosed tmpWant) {id : Nat} (hid : hasId table id = true) :
    IdsInv (eraseId table id) registry nextId (removed ++ [id]) doneClosed tmpWant := by
  apply h.removeSet (eraseId_sublist _ _)
  intro id' hid'
  simp only [List.mem_singleton] at hid'; subst hid'
  exact ⟨hid, hasId_eraseId _ _⟩

theorem IdsInv.closeDone {table registry nextId removed doneClosed tmpWant}
    (h : IdsInv table registry nextId removed doneClosed tmpWant) {id : Nat} (hid : hasId table id = true)
    (htmp : ∃ e ∈ registry, e.id = id ∧ e.tmp = true) :
    IdsInv (eraseId table id) registry nextId (removed ++ [id]) (doneClosed ++ [id]) tmpWant := by
  have h' := h.removeOne hid
  have hnot : id ∉ doneClosed := by
    intro hmem
    have := (h.rem id (h.done_sub id hmem).1).2
    rw [hid] at this; cases this
  refine { h' with done_nodup := ?_, done_sub := ?_ }
  · rw [List.nodup_append]
    refine ⟨h.done_nodup, by simp, ?_⟩
    intro a ha b hb
    simp only [List.mem_singleton] at hb; subst hb
    intro hab; subst hab; exact hnot ha
  · intro id' hid'
    rcases List.mem_append.mp hid' with hid' | hid'
    · exact h'.done_sub id' hid'
    · simp only [List.mem_singleton] at hid'; subst hid'
      exact ⟨List.mem_append_right _ (List.mem_singleton.mpr rfl), htmp⟩

theorem IdsInv.setWant {table registry nextId removed doneClosed tmpWant}
    (h : IdsInv table registry nextId removed doneClosed tmpWant) {tw : List Nat}
    (hw : ∀ id ∈ tw, ∃ e ∈ registry, e.id = id ∧ e.tmp = true) :
    IdsInv table registry nextId removed doneClosed tw :=
  { h with want := hw }

theorem IdsInv.clear {table registry nextId removed doneClosed tmpWant}
    (h : IdsInv table registry nextId removed doneClosed tmpWant) (c : Bytes) :
    IdsInv (table.filter (·.cmd != c)) registry nextId
      (removed ++ (table.filter (·.cmd == c)).map (·.id)) doneClosed tmpWant := by
  apply h.removeSet List.filter_sublist
  intro id hid
  obtain ⟨e, he, rfl⟩ := List.mem_map.mp hid
  rw [List.mem_filter] at he
  refine ⟨hasId_eq_true.mpr ⟨e, he.1, rfl⟩, ?_⟩
  rw [hasId_eq_false]
  intro e' he' heq
  rw [List.mem_filter] at he'
  have : e' = e := nodup_map_inj h.tab_nodup he'.1 he.1 heq
  subst this
  have h1 := he.2; have h2 := he'.2
  simp only [beq_iff_eq] at h1
  simp [h1] at h2

theorem IdsInv.clearAll {table registry nextId removed doneClosed tmpWant}
    (h : IdsInv table registry nextId removed doneClosed tmpWant) :
    IdsInv [] registry nextId (removed ++ table.map (·.id)) doneClosed tmpWant := by
  apply h.removeSet (List.nil_sublist _)
  intro id hid
  obtain ⟨e, he, rfl⟩ := List.mem_map.mp hid
  exact ⟨hasId_eq_true.mpr ⟨e, he, rfl⟩, by simp [hasId]⟩

/-! ### the event stream -/

structure EvInv (events : List Evt) (nextSeq : Nat) (ended : List Nat) (cur : Option Evt) (queue : List Evt) : Prop where
  seqs : events.map (·.seq) = List.range nextSeq
  fifo : ended ++ cur.toList.map (·.seq) ++ queue.map (·.seq) = events.map (·.seq)
  cur_mem : ∀ ev, cur = some ev → ev ∈ events
  q_mem : ∀ ev ∈ queue, ev ∈ events
  nostar : ∀ ev ∈ events, ev.cmd ≠ star

theorem EvInv.init : EvInv [] 0 [] none [] := by
  constructor <;> simp

theorem EvInv.seq_inj {events nextSeq ended cur queue} (h : EvInv events nextSeq ended cur queue)
    {a b : Evt} (ha : a ∈ events) (hb : b ∈ events) (hab : a.seq = b.seq) : a = b :=
  nodup_map_inj (by rw [h.seqs]; exact List.nodup_range) ha hb hab

theorem EvInv.cur_not_ended {events nextSeq ended queue} {ev : Evt} (h : EvInv events nextSeq ended (some ev) queue) :
    ev.seq ∉ ended := by
  have := h.fifo
  have hn : (ended ++ [ev.seq] ++ queue.map (·.seq)).Nodup := by
    simp only [Option.toList_some, List.map_cons, List.map_nil] at this
    rw [this, h.seqs]; exact List.nodup_range
  rw [List.nodup_append, List.nodup_append] at hn
  intro hmem
  exact hn.1.2.2 _ hmem _ (List.mem_singleton.mpr rfl) rfl

theorem EvInv.recv {events nextSeq ended cur queue} (h : EvInv events nextSeq ended cur queue)
    {cmd : Bytes} (hc : cmd ≠ star) (echo : Bool) :
    EvInv (events ++ [⟨nextSeq, cmd, echo⟩]) (nextSeq + 1) ended cur (queue ++ [⟨nextSeq, cmd, echo⟩]) := by
  constructor
  · simp [List.range_succ, h.seqs]
  · simp only [List.map_append, List.map_cons, List.map_nil, ← List.append_assoc]
    rw [h.fifo]
  · exact fun ev hev => List.mem_append_left _ (h.cur_mem ev hev)
  · intro ev hev
    rcases List.mem_append.mp hev with hev | hev
    · exact List.mem_append_left _ (h.q_mem ev hev)
    · exact List.mem_append_right _ hev
  · intro ev hev
    rcases List.mem_append.mp hev with hev | hev
    · exact h.nostar ev hev
    · simp only [List.mem_singleton] at hev; subst hev; exact hc

theorem EvInv.take {events nextSeq ended queue} {ev : Evt} (h : EvInv events nextSeq ended none (ev :: queue)) :
    EvInv events nextSeq ended (some ev) queue := by
  constructor
  · exact h.seqs
  · have := h.fifo
    simpa using this
  · intro ev' hev; cases hev; exact h.q_mem _ (List.mem_cons_self ..)
  · exact fun ev' hev => h.q_mem ev' (List.mem_cons_of_mem _ hev)
  · exact h.nostar

theorem EvInv.endEvent {events nextSeq ended queue} {ev : Evt} (h : EvInv events nextSeq ended (some ev) queue) :
    EvInv events nextSeq (ended ++ [ev.seq]) none queue := by
  constructor
  · exact h.seqs
  · have := h.fifo
    simpa using this
  · intro ev' hev; cases hev
  · exact h.q_mem
  · exact h.nostar


/-! ### snapshots and spawned invocations -/

structure SpInv (spawned : List Inv) (snaps : List (Nat × Nat × List Entry)) (cur : Option (Evt × Nat))
    (ended : List Nat) (events : List Evt) (registry : List Entry) : Prop where
  snap_sp : ∀ seq k t, (seq, k, t) ∈ snaps → ∃ ev ∈ events, ev.seq = seq ∧ ∃ ph, phases[k]? = some ph ∧
      ∀ e ∈ t, ph.sel ev e = true → (ph.skipEcho && ev.echo) = false →
        ({ id := e.id, seq := seq, phase := k, bg := ph.bg } : Inv) ∈ spawned
  sp_snap : ∀ i ∈ spawned, ∃ t, (i.seq, i.phase, t) ∈ snaps ∧ hasId t i.id = true
  sp_sel : ∀ i ∈ spawned, ∃ e ∈ registry, ∃ ev ∈ events, ∃ ph, e.id = i.id ∧ ev.seq = i.seq ∧
      phases[i.phase]? = some ph ∧ ph.sel ev e = true ∧ (ph.skipEcho && ev.echo) = false ∧ i.bg = ph.bg
  sp_when : ∀ i ∈ spawned, i.seq ∈ ended ∨ (∃ ev k, cur = some (ev, k) ∧ i.seq = ev.seq ∧ i.phase < k)
  sp_nodup : (spawned.map fun i => (i.id, i.seq)).Nodup
  ended_snaps : ∀ seq ∈ ended, ∀ k, k < 4 → ∃ t, (seq, k, t) ∈ snaps
  cur_snaps : ∀ ev k, cur = some (ev, k) → ∀ k', k' < k → ∃ t, (ev.seq, k', t) ∈ snaps

theorem SpInv.init : SpInv [] [] none [] [] [] := by
  constructor <;> simp

theorem SpInv.mono {spawned snaps cur ended events registry} (h : SpInv spawned snaps cur ended events registry)
    {events' : List Evt} {registry' : List Entry} (he : ∀ x ∈ events, x ∈ events') (hr : ∀ x ∈ registry, x ∈ registry') :
    SpInv spawned snaps cur ended events' registry' := by
  refine { h with snap_sp := ?_, sp_sel := ?_ }
  · intro seq k t hm
    obtain ⟨ev, hev, h1⟩ := h.snap_sp seq k t hm
    exact ⟨ev, he ev hev, h1⟩
  · intro i hi
    obtain ⟨e, hreg, ev, hev, h1⟩ := h.sp_sel i hi
    exact ⟨e, hr e hreg, ev, he ev hev, h1⟩

theorem SpInv.take {spawned snaps ended events registry} (h : SpInv spawned snaps none ended events registry) (ev : Evt) :
    SpInv spawned snaps (some (ev, 0)) ended events registry := by
  refine { h with sp_when := ?_, cur_snaps := ?_ }
  · intro i hi
    rcases h.sp_when i hi with h1 | ⟨_, _, h1, _⟩
    · exact .inl h1
    · cases h1
  · intro ev' k hk k' hk'
    cases hk; cases hk'

theorem SpInv.endEvent {spawned snaps ended events registry} {ev : Evt} {k : Nat}
    (h : SpInv spawned snaps (some (ev, k)) ended events registry) (hk : 4 ≤ k) :
    SpInv spawned snaps none (ended ++ [ev.seq]) events registry := by
  refine { h with sp_when := ?_, cur_snaps := ?_, ended_snaps := ?_ }
  · intro i hi
    rcases h.sp_when i hi with h1 | ⟨ev', k', h1, h2, _⟩
    · exact .inl (List.mem_append_left _ h1)
    · cases h1; exact .inl (List.mem_append_right _ (List.mem_singleton.mpr h2))
  · intro seq hseq k' hk'
    rcases List.mem_append.mp hseq with hseq | hseq
    · exact h.ended_snaps seq hseq k' hk'
    · simp only [List.mem_singleton] at hseq; subst hseq
      exact h.cur_snaps ev k rfl k' (Nat.lt_of_lt_of_le hk' hk)
  · intro ev' k' hk; cases hk

theorem nodup_map_pair {α} (f : α → Nat) (c : Nat) {l : List α} (h : (l.map f).Nodup) :
    (l.map fun a => (f a, c)).Nodup := by
  apply nodup_of_nodup_map Prod.fst
  simpa [List.map_map, Function.comp_def] using h

theorem SpInv.snap {spawned snaps ended events registry} {ev : Evt} {k : Nat} {ph : Phase}
    {table : List Entry} {nextId nextSeq : Nat} {removed doneClosed tmpWant : List Nat} {queue : List Evt}
    (h : SpInv spawned snaps (some (ev, k)) ended events registry)
    (hi : IdsInv table registry nextId removed doneClosed tmpWant)
    (he : EvInv events nextSeq ended (some ev) queue)
    (hph : phases[k]? = some ph) :
    SpInv (spawned ++ (snapshot table ev ph).map fun e => ({ id := e.id, seq := ev.seq, phase := k, bg := ph.bg } : Inv))
      (snaps ++ [(ev.seq, k, table)]) (some (ev, k + 1)) ended events registry := by
  have hev : ev ∈ events := he.cur_mem ev rfl
  constructor
  · intro seq k0 t hm
    rcases List.mem_append.mp hm with hm | hm
    · obtain ⟨ev', hev', h1, ph', h2, h3⟩ := h.snap_sp seq k0 t hm
      exact ⟨ev', hev', h1, ph', h2, fun e het hs hk => List.mem_append_left _ (h3 e het hs hk)⟩
    · simp only [List.mem_singleton, Prod.mk.injEq] at hm
      obtain ⟨rfl, rfl, rfl⟩ := hm
      refine ⟨ev, hev, rfl, ph, hph, ?_⟩
      intro e het hs hk
      exact List.mem_append_right _ (List.mem_map.mpr ⟨e, mem_snapshot.mpr ⟨het, hs, hk⟩, rfl⟩)
  · intro i him
    rcases List.mem_append.mp him with him | him
    · obtain ⟨t, h1, h2⟩ := h.sp_snap i him
      exact ⟨t, List.mem_append_left _ h1, h2⟩
    · obtain ⟨e, hes, rfl⟩ := List.mem_map.mp him
      exact ⟨table, List.mem_append_right _ (List.mem_singleton.mpr rfl), hasId_eq_true.mpr ⟨e, (mem_snapshot.mp hes).1, rfl⟩⟩
  · intro i him
    rcases List.mem_append.mp him with him | him
    · exact h.sp_sel i him
    · obtain ⟨e, hes, rfl⟩ := List.mem_map.mp him
      have := mem_snapshot.mp hes
      exact ⟨e, hi.tab_sub e this.1, ev, hev, ph, rfl, rfl, hph, this.2.1, this.2.2, rfl⟩
  · intro i him
    rcases List.mem_append.mp him with him | him
    · rcases h.sp_when i him with h1 | ⟨ev', k', h1, h2, h3⟩
      · exact .inl h1
      · cases h1; exact .inr ⟨ev, k + 1, rfl, h2, Nat.lt_succ_of_lt h3⟩
    · obtain ⟨e, hes, rfl⟩ := List.mem_map.mp him
      exact .inr ⟨ev, k + 1, rfl, rfl, Nat.lt_succ_self _⟩
  · rw [List.map_append, List.nodup_append]
    refine ⟨h.sp_nodup, ?_, ?_⟩
    · rw [List.map_map]
      exact nodup_map_pair Entry.id ev.seq (snapshot_ids_nodup ev ph hi.tab_nodup)
    · intro a ha b hb hab
      subst hab
      obtain ⟨i, him, rfl⟩ := List.mem_map.mp ha
      rw [List.map_map] at hb
      obtain ⟨e, hes, heq⟩ := List.mem_map.mp hb
      simp only [Function.comp_apply, Prod.mk.injEq] at heq
      have hsn := mem_snapshot.mp hes
      rcases h.sp_when i him with h1 | ⟨ev', k', h1, h2, h3⟩
      · rw [← heq.2] at h1; exact he.cur_not_ended h1
      · cases h1
        obtain ⟨e', hreg', ev', hev', ph', h4, h5, h6, h7, _, _⟩ := h.sp_sel i him
        have : ev' = ev := he.seq_inj hev' hev (h5.trans h2)
        subst this
        have : e' = e := nodup_map_inj hi.reg_nodup hreg' (hi.tab_sub e hsn.1) (h4.trans heq.1.symm)
        subst this
        have := sel_unique (he.nostar _ hev) h6 hph h7 hsn.2.1
        omega
  · intro seq hseq k' hk'
    obtain ⟨t, ht⟩ := h.ended_snaps seq hseq k' hk'
    exact ⟨t, List.mem_append_left _ ht⟩
  · intro ev' k0 hk k' hk'
    cases hk
    rcases Nat.lt_succ_iff_lt_or_eq.mp hk' with hk' | rfl
    · obtain ⟨t, ht⟩ := h.cur_snaps ev k rfl k' hk'
      exact ⟨t, List.mem_append_left _ ht⟩
    · exact ⟨table, List.mem_append_right _ (List.mem_singleton.mpr rfl)⟩


/-! ### pending / running / started / finished bookkeeping -/

structure BookInv (pending running started finished spawned : List Inv) : Prop where
  pend_nodup : pending.Nodup
  run_nodup : running.Nodup
  start_nodup : started.Nodup
  fin_nodup : finished.Nodup
  pend : ∀ i ∈ pending, i ∈ spawned ∧ i ∉ started
  start_sp : ∀ i ∈ started, i ∈ spawned
  run : ∀ i ∈ running, i ∈ started ∧ i ∉ finished
  fin_start : ∀ i ∈ finished, i ∈ started
  cover : ∀ i ∈ spawned, i ∈ pending ∨ i ∈ running ∨ i ∈ finished

theorem BookInv.init : BookInv [] [] [] [] [] := by
  constructor <;> simp

theorem BookInv.snap {pending running started finished spawned} (h : BookInv pending running started finished spawned)
    {invs : List Inv} (hn : (spawned ++ invs).Nodup) :
    BookInv (pending ++ invs) running started finished (spawned ++ invs) := by
  rw [List.nodup_append] at hn
  refine { h with pend_nodup := ?_, pend := ?_, start_sp := ?_, cover := ?_ }
  · rw [List.nodup_append]
    exact ⟨h.pend_nodup, hn.2.1, fun a ha b hb => hn.2.2 a (h.pend a ha).1 b hb⟩
  · intro i hi
    rcases List.mem_append.mp hi with hi | hi
    · exact ⟨List.mem_append_left _ (h.pend i hi).1, (h.pend i hi).2⟩
    · exact ⟨List.mem_append_right _ hi, fun hs => hn.2.2 i (h.start_sp i hs) i hi rfl⟩
  · exact fun i hi => List.mem_append_left _ (h.start_sp i hi)
  · intro i hi
    rcases List.mem_append.mp hi with hi | hi
    · rcases h.cover i hi with h1 | h1
      · exact .inl (List.mem_append_left _ h1)
      · exact .inr h1
    · exact .inl (List.mem_append_right _ hi)

theorem BookInv.startInv {pending running started finished spawned} (h : BookInv pending running started finished spawned)
    {i : Inv} (hi : i ∈ pending) :
    BookInv (pending.erase i) (running ++ [i]) (started ++ [i]) finished spawned := by
  have hns : i ∉ started := (h.pend i hi).2
  constructor
  · exact h.pend_nodup.erase i
  · rw [List.nodup_append]
    refine ⟨h.run_nodup, by simp, ?_⟩
    intro a ha b hb hab
    simp only [List.mem_singleton] at hb; subst hb; subst hab
    exact hns (h.run a ha).1
  · rw [List.nodup_append]
    refine ⟨h.start_nodup, by simp, ?_⟩
    intro a ha b hb hab
    simp only [List.mem_singleton] at hb; subst hb; subst hab
    exact hns ha
  · exact h.fin_nodup
  · intro j hj
    rw [h.pend_nodup.mem_erase_iff] at hj
    refine ⟨(h.pend j hj.2).1, ?_⟩
    intro hs
    rcases List.mem_append.mp hs with hs | hs
    · exact (h.pend j hj.2).2 hs
    · exact hj.1 (List.mem_singleton.mp hs)
  · intro j hj
    rcases List.mem_append.mp hj with hj | hj
    · exact h.start_sp j hj
    · rw [List.mem_singleton.mp hj]; exact (h.pend i hi).1
  · intro j hj
    rcases List.mem_append.mp hj with hj | hj
    · exact ⟨List.mem_append_left _ (h.run j hj).1, (h.run j hj).2⟩
    · rw [List.mem_singleton.mp hj]
      exact ⟨List.mem_append_right _ (List.mem_singleton.mpr rfl), fun hf => hns (h.fin_start i hf)⟩
  · exact fun j hj => List.mem_append_left _ (h.fin_start j hj)
  · intro j hj
    rcases h.cover j hj with h1 | h1 | h1
    · by_cases hji : j = i
      · subst hji; exact .inr (.inl (List.mem_append_right _ (List.mem_singleton.mpr rfl)))
      · exact .inl ((List.mem_erase_of_ne hji).mpr h1)
    · exact .inr (.inl (List.mem_append_left _ h1))
    · exact .inr (.inr h1)

theorem BookInv.finishInv {pending running started finished spawned} (h : BookInv pending running started finished spawned)
    {i : Inv} (hi : i ∈ running) :
    BookInv pending (running.erase i) started (finished ++ [i]) spawned := by
  have hnf : i ∉ finished := (h.run i hi).2
  refine { h with run_nodup := ?_, fin_nodup := ?_, run := ?_, fin_start := ?_, cover := ?_ }
  · exact h.run_nodup.erase i
  · rw [List.nodup_append]
    refine ⟨h.fin_nodup, by simp, ?_⟩
    intro a ha b hb hab
    simp only [List.mem_singleton] at hb; subst hb; subst hab
    exact hnf ha
  · intro j hj
    rw [h.run_nodup.mem_erase_iff] at hj
    refine ⟨(h.run j hj.2).1, ?_⟩
    intro hf
    rcases List.mem_append.mp hf with hf | hf
    · exact (h.run j hj.2).2 hf
    · exact hj.1 (List.mem_singleton.mp hf)
  · intro j hj
    rcases List.mem_append.mp hj with hj | hj
    · exact h.fin_start j hj
    · rw [List.mem_singleton.mp hj]; exact (h.run i hi).1
  · intro j hj
    rcases h.cover j hj with h1 | h1 | h1
    · exact .inl h1
    · by_cases hji : j = i
      · subst hji; exact .inr (.inr (List.mem_append_right _ (List.mem_singleton.mpr rfl)))
      · exact .inr (.inl ((List.mem_erase_of_ne hji).mpr h1))
    · exact .inr (.inr (List.mem_append_left _ h1))


/-! ### ordering: outstanding foreground invocations and the dispatcher's WaitGroup -/

structure FgInv (pending running finished spawned : List Inv) (pc : Pc) (ended : List Nat) : Prop where
  out_fg : ∀ i, i ∈ pending ∨ i ∈ running → i.bg = false →
    ∃ ev k w, pc = .at ev k w ∧ i.seq = ev.seq ∧ i.id ∈ w ∧ i.phase + 1 = k
  w_nodup : ∀ ev k w, pc = .at ev k w → w.Nodup
  w_out : ∀ ev k w, pc = .at ev k w → ∀ id ∈ w, ∃ i, (i ∈ pending ∨ i ∈ running) ∧ i.bg = false ∧ i.id = id
  ended_fin : ∀ seq ∈ ended, ∀ i ∈ spawned, i.seq = seq → i.bg = false → i ∈ finished

theorem inv_ext {i j : Inv} (h1 : i.id = j.id) (h2 : i.seq = j.seq) (h3 : i.phase = j.phase) (h4 : i.bg = j.bg) :
    i = j := by
  cases i; cases j; simp_all

theorem FgInv.init : FgInv [] [] [] [] .idle [] := by
  constructor <;> simp

/-- when the WaitGroup is empty nothing foreground is outstanding -/
theorem FgInv.none_out {pending running finished spawned ended} {pc : Pc}
    (h : FgInv pending running finished spawned pc ended) (hpc : ∀ ev k w, pc = .at ev k w → w = [])
    {i : Inv} (hi : i ∈ pending ∨ i ∈ running) : i.bg = true := by
  cases hb : i.bg
  · obtain ⟨ev, k, w, h1, _, h3, _⟩ := h.out_fg i hi hb
    rw [hpc ev k w h1] at h3; cases h3
  · rfl

theorem FgInv.take {pending running finished spawned ended}
    (h : FgInv pending running finished spawned .idle ended) (ev : Evt) :
    FgInv pending running finished spawned (.at ev 0 []) ended := by
  have hno : ∀ i, i ∈ pending ∨ i ∈ running → i.bg = true := fun i hi => h.none_out (fun _ _ _ hh => by cases hh) hi
  refine { h with out_fg := ?_, w_nodup := ?_, w_out := ?_ }
  · intro i hi hb; rw [hno i hi] at hb; cases hb
  · intro _ _ w hw; cases hw; exact List.nodup_nil
  · intro _ _ w hw; cases hw; intro id hid; cases hid

theorem FgInv.endEvent {pending running started finished spawned ended} {ev : Evt} {k : Nat}
    (h : FgInv pending running finished spawned (.at ev k []) ended)
    (hb : BookInv pending running started finished spawned) :
    FgInv pending running finished spawned .idle (ended ++ [ev.seq]) := by
  have hno : ∀ i, i ∈ pending ∨ i ∈ running → i.bg = true :=
    fun i hi => h.none_out (fun _ _ _ hh => by cases hh; rfl) hi
  constructor
  · intro i hi hbg; rw [hno i hi] at hbg; cases hbg
  · intro _ _ w hw; cases hw
  · intro _ _ w hw; cases hw
  · intro seq hseq i hi his hbg
    rcases List.mem_append.mp hseq with hseq | _
    · exact h.ended_fin seq hseq i hi his hbg
    · rcases hb.cover i hi with h1 | h1 | h1
      · rw [hno i (.inl h1)] at hbg; cases hbg
      · rw [hno i (.inr h1)] at hbg; cases hbg
      · exact h1

theorem FgInv.snap {pending running finished spawned ended} {ev : Evt} {k : Nat}
    (h : FgInv pending running finished spawned (.at ev k []) ended)
    (hne : ev.seq ∉ ended) (l : List Entry) (hl : (l.map (·.id)).Nodup) (bg : Bool) :
    FgInv (pending ++ l.map fun e => ({ id := e.id, seq := ev.seq, phase := k, bg := bg } : Inv)) running finished
      (spawned ++ l.map fun e => ({ id := e.id, seq := ev.seq, phase := k, bg := bg } : Inv))
      (.at ev (k + 1) (if bg then [] else (l.map fun e => ({ id := e.id, seq := ev.seq, phase := k, bg := bg } : Inv)).map (·.id)))
      ended := by
  have hno : ∀ i, i ∈ pending ∨ i ∈ running → i.bg = true :=
    fun i hi => h.none_out (fun _ _ _ hh => by cases hh; rfl) hi
  have hw : (l.map fun e => ({ id := e.id, seq := ev.seq, phase := k, bg := bg } : Inv)).map (·.id) = l.map (·.id) := by
    simp [List.map_map, Function.comp_def]
  constructor
  · intro i hi hbg
    have : i ∈ l.map fun e => ({ id := e.id, seq := ev.seq, phase := k, bg := bg } : Inv) := by
      rcases hi with hi | hi
      · rcases List.mem_append.mp hi with hi | hi
        · rw [hno i (.inl hi)] at hbg; cases hbg
        · exact hi
      · rw [hno i (.inr hi)] at hbg; cases hbg
    obtain ⟨e, he, rfl⟩ := List.mem_map.mp this
    simp only at hbg
    subst hbg
    refine ⟨ev, k + 1, _, rfl, rfl, ?_, rfl⟩
    simp only [Bool.false_eq_true, if_false, hw]
    exact List.mem_map.mpr ⟨e, he, rfl⟩
  · intro _ _ w hw'; cases hw'
    split
    · exact List.nodup_nil
    · rw [hw]; exact hl
  · intro _ _ w hw'; cases hw'
    intro id hid
    cases bg
    · simp only [Bool.false_eq_true, if_false] at hid
      obtain ⟨i, hi, rfl⟩ := List.mem_map.mp hid
      refine ⟨i, .inl (List.mem_append_right _ hi), ?_, rfl⟩
      obtain ⟨e, _, rfl⟩ := List.mem_map.mp hi
      rfl
    · simp at hid
  · intro seq hseq i hi his hbg
    rcases List.mem_append.mp hi with hi | hi
    · exact h.ended_fin seq hseq i hi his hbg
    · obtain ⟨e, _, rfl⟩ := List.mem_map.mp hi
      simp only at his
      rw [← his] at hseq
      exact absurd hseq hne

theorem FgInv.startInv {pending running finished spawned ended} {pc : Pc}
    (h : FgInv pending running finished spawned pc ended) {i : Inv} (hi : i ∈ pending) :
    FgInv (pending.erase i) (running ++ [i]) finished spawned pc ended := by
  have h1 : ∀ j, j ∈ pending.erase i ∨ j ∈ running ++ [i] → j ∈ pending ∨ j ∈ running := by
    intro j hj
    rcases hj with hj | hj
    · exact .inl (List.mem_of_mem_erase hj)
    · rcases List.mem_append.mp hj with hj | hj
      · exact .inr hj
      · rw [List.mem_singleton.mp hj]; exact .inl hi
  have h2 : ∀ j, j ∈ pending ∨ j ∈ running → j ∈ pending.erase i ∨ j ∈ running ++ [i] := by
    intro j hj
    by_cases hji : j = i
    · subst hji; exact .inr (List.mem_append_right _ (List.mem_singleton.mpr rfl))
    · rcases hj with hj | hj
      · exact .inl ((List.mem_erase_of_ne hji).mpr hj)
      · exact .inr (List.mem_append_left _ hj)
  refine { h with out_fg := ?_, w_out := ?_ }
  · exact fun j hj => h.out_fg j (h1 j hj)
  · intro ev k w hpc id hid
    obtain ⟨j, hj, hr⟩ := h.w_out ev k w hpc id hid
    exact ⟨j, h2 j hj, hr⟩

theorem FgInv.finishInv {pending running started finished spawned ended} {pc : Pc}
    (h : FgInv pending running finished spawned pc ended)
    (hb : BookInv pending running started finished spawned) {i : Inv} (hi : i ∈ running) :
    FgInv pending (running.erase i) (finished ++ [i]) spawned (pcFinish pc i) ended := by
  have hkeep : ∀ j, j ≠ i → j ∈ pending ∨ j ∈ running → j ∈ pending ∨ j ∈ running.erase i := by
    intro j hji hj
    rcases hj with hj | hj
    · exact .inl hj
    · exact .inr ((List.mem_erase_of_ne hji).mpr hj)
  have hold : ∀ j, j ∈ pending ∨ j ∈ running.erase i → j ≠ i ∧ (j ∈ pending ∨ j ∈ running) := by
    intro j hj
    rcases hj with hj | hj
    · refine ⟨?_, .inl hj⟩
      intro hji; subst hji
      exact (hb.pend j hj).2 (hb.run j hi).1
    · rw [hb.run_nodup.mem_erase_iff] at hj
      exact ⟨hj.1, .inr hj.2⟩
  have hfin : ∀ seq ∈ ended, ∀ j ∈ spawned, j.seq = seq → j.bg = false → j ∈ finished ++ [i] :=
    fun seq hseq j hj h1 h2 => List.mem_append_left _ (h.ended_fin seq hseq j hj h1 h2)
  cases hbg : i.bg
  · -- foreground: leaves the WaitGroup
    obtain ⟨ev, k, w, hpc, hseq, hidw, hk⟩ := h.out_fg i (.inr hi) hbg
    subst hpc
    have hpc' : pcFinish (.at ev k w) i = .at ev k (w.erase i.id) := by simp [pcFinish, hbg]
    rw [hpc']
    have hwn := h.w_nodup ev k w rfl
    constructor
    · intro j hj hjbg
      obtain ⟨hji, hj'⟩ := hold j hj
      obtain ⟨ev', k', w', hpc, hseq', hidw', hk'⟩ := h.out_fg j hj' hjbg
      cases hpc
      refine ⟨ev, k, _, rfl, hseq', ?_, hk'⟩
      rw [hwn.mem_erase_iff]
      refine ⟨?_, hidw'⟩
      intro hid
      apply hji
      exact inv_ext hid (hseq'.trans hseq.symm) (by omega) (hjbg.trans hbg.symm)
    · intro _ _ w' hw'; cases hw'; exact hwn.erase _
    · intro _ _ w' hw'; cases hw'
      intro id hid
      rw [hwn.mem_erase_iff] at hid
      obtain ⟨j, hj, hjbg, hjid⟩ := h.w_out ev k w rfl id hid.2
      refine ⟨j, hkeep j ?_ hj, hjbg, hjid⟩
      intro hji; subst hji; exact hid.1 hjid.symm
    · exact hfin
  · -- background: the WaitGroup never waited for it
    have hpc' : pcFinish pc i = pc := by simp [pcFinish, hbg]
    rw [hpc']
    refine { h with out_fg := ?_, w_out := ?_, ended_fin := hfin }
    · exact fun j hj => h.out_fg j (hold j hj).2
    · intro ev k w hpc id hid
      obtain ⟨j, hj, hjbg, hjid⟩ := h.w_out ev k w hpc id hid
      refine ⟨j, hkeep j ?_ hj, hjbg, hjid⟩
      intro hji; subst hji; rw [hbg] at hjbg; cases hjbg


/-! ### the invariant and its preservation -/

structure Good (s : DState) : Prop where
  ids : IdsInv s.table s.registry s.nextId s.removed s.doneClosed s.tmpWant
  ev : EvInv s.events s.nextSeq s.ended (pcEv s.pc) s.queue
  sp : SpInv s.spawned s.snaps (pcK s.pc) s.ended s.events s.registry
  book : BookInv s.pending s.running s.started s.finished s.spawned
  fg : FgInv s.pending s.running s.finished s.spawned s.pc s.ended
  recov : s.recover = true → s.crashed = false

theorem good_init (r : Bool) : Good { recover := r } :=
  ⟨IdsInv.init 0, EvInv.init, SpInv.init, BookInv.init, FgInv.init, fun _ => rfl⟩

theorem good_add {s s' : DState} {cmd : Bytes} {bg tmp : Bool} (h : Good s) (hs : step s (.add cmd bg tmp) = some s') :
    Good s' := by
  obtain rfl := step_add hs
  exact ⟨h.ids.add _ _ _, h.ev, h.sp.mono (fun _ hx => hx) (fun _ hx => List.mem_append_left _ hx), h.book, h.fg, h.recov⟩

theorem good_remove {s s' : DState} {id : Nat} (h : Good s) (hs : step s (.remove id) = some s') : Good s' := by
  rcases step_remove hs with rfl | ⟨hid, rfl⟩
  · exact h
  · exact ⟨h.ids.removeOne hid, h.ev, h.sp, h.book, h.fg, h.recov⟩

theorem good_clear {s s' : DState} {cmd : Bytes} (h : Good s) (hs : step s (.clear cmd) = some s') : Good s' := by
  obtain rfl := step_clear hs
  exact ⟨h.ids.clear _, h.ev, h.sp, h.book, h.fg, h.recov⟩

theorem good_clearAll {s s' : DState} (h : Good s) (hs : step s .clearAll = some s') : Good s' := by
  obtain rfl := step_clearAll hs
  exact ⟨h.ids.clearAll, h.ev, h.sp, h.book, h.fg, h.recov⟩

theorem good_recv {s s' : DState} {cmd : Bytes} {echo : Bool} (h : Good s) (hs : step s (.recv cmd echo) = some s') :
    Good s' := by
  obtain ⟨hc, rfl⟩ := step_recv hs
  exact ⟨h.ids, h.ev.recv hc echo, h.sp.mono (fun _ hx => List.mem_append_left _ hx) (fun _ hx => hx), h.book, h.fg, h.recov⟩

theorem good_take {s s' : DState} (h : Good s) (hs : step s .take = some s') : Good s' := by
  obtain ⟨ev, rest, hpc, hq, rfl⟩ := step_take hs
  have hev := h.ev; have hsp := h.sp; have hfg := h.fg
  rw [hpc] at hev hsp hfg
  rw [hq] at hev
  exact ⟨h.ids, hev.take, hsp.take ev, h.book, hfg.take ev, h.recov⟩

theorem good_endEvent {s s' : DState} (h : Good s) (hs : step s .endEvent = some s') : Good s' := by
  obtain ⟨ev, k, hpc, hk, rfl⟩ := step_endEvent hs
  have hev := h.ev; have hsp := h.sp; have hfg := h.fg
  rw [hpc] at hev hsp hfg
  exact ⟨h.ids, hev.endEvent, hsp.endEvent hk, h.book, hfg.endEvent h.book, h.recov⟩

theorem good_snap {s s' : DState} (h : Good s) (hs : step s .snap = some s') : Good s' := by
  obtain ⟨ev, k, ph, hpc, hph, rfl⟩ := step_snap hs
  have hev := h.ev; have hsp := h.sp; have hfg := h.fg
  rw [hpc] at hev hsp hfg
  have hsp' := hsp.snap h.ids hev hph
  exact ⟨h.ids, hev, hsp', h.book.snap (nodup_of_nodup_map _ hsp'.sp_nodup),
    hfg.snap hev.cur_not_ended _ (snapshot_ids_nodup ev ph h.ids.tab_nodup) ph.bg, h.recov⟩

theorem good_startInv {s s' : DState} {i : Inv} (h : Good s) (hs : step s (.startInv i) = some s') : Good s' := by
  obtain ⟨_, hi, rfl⟩ := step_startInv hs
  exact ⟨h.ids, h.ev, h.sp, h.book.startInv hi, h.fg.startInv hi, h.recov⟩

theorem good_finishInv {s s' : DState} {i : Inv} {r : Res} (h : Good s) (hs : step s (.finishInv i r) = some s') :
    Good s' := by
  obtain ⟨hi, hr, rfl⟩ := step_finishInv hs
  refine ⟨h.ids.setWant ?_, ?_, ?_, h.book.finishInv hi, h.fg.finishInv h.book hi, ?_⟩
  · intro id hid
    split at hid
    · rcases List.mem_append.mp hid with hid | hid
      · exact h.ids.want id hid
      · rw [List.mem_singleton.mp hid]; exact hr ‹_›
    · exact h.ids.want id hid
  · show EvInv s.events s.nextSeq s.ended (pcEv (pcFinish s.pc i)) s.queue
    rw [pcEv_pcFinish]; exact h.ev
  · show SpInv s.spawned s.snaps (pcK (pcFinish s.pc i)) s.ended s.events s.registry
    rw [pcK_pcFinish]; exact h.sp
  · intro hrec
    have hrec' : s.recover = true := hrec
    show (if r = .panic ∧ s.recover = false then true else s.crashed) = false
    simp only [hrec', Bool.true_eq_false, and_false, if_false]
    exact h.recov hrec'

theorem good_tmpRemove {s s' : DState} {id : Nat} (h : Good s) (hs : step s (.tmpRemove id) = some s') : Good s' := by
  obtain ⟨hw, ⟨_, rfl⟩ | ⟨hid, rfl⟩⟩ := step_tmpRemove hs
  · exact ⟨h.ids.setWant fun x hx => h.ids.want x (List.mem_of_mem_erase hx), h.ev, h.sp, h.book, h.fg, h.recov⟩
  · exact ⟨(h.ids.closeDone hid (h.ids.want id hw)).setWant fun x hx => h.ids.want x (List.mem_of_mem_erase hx),
      h.ev, h.sp, h.book, h.fg, h.recov⟩

theorem good_deadline {s s' : DState} {id : Nat} (h : Good s) (hs : step s (.deadline id) = some s') : Good s' := by
  rcases step_deadline hs with ⟨_, rfl⟩ | ⟨hid, ⟨e, he, h1, h2⟩, rfl⟩
  · exact h
  · exact ⟨h.ids.closeDone hid ⟨e, h.ids.tab_sub e he, h1, h2⟩, h.ev, h.sp, h.book, h.fg, h.recov⟩

theorem good_step {s s' : DState} (a : Act) (h : Good s) (hs : step s a = some s') : Good s' := by
  cases a with
  | add cmd bg tmp => exact good_add h hs
  | remove id => exact good_remove h hs
  | clear cmd => exact good_clear h hs
  | clearAll => exact good_clearAll h hs
  | recv cmd echo => exact good_recv h hs
  | take => exact good_take h hs
  | snap => exact good_snap h hs
  | endEvent => exact good_endEvent h hs
  | startInv i => exact good_startInv h hs
  | finishInv i r => exact good_finishInv h hs
  | tmpRemove id => exact good_tmpRemove h hs
  | deadline id => exact good_deadline h hs

theorem good_of_reach {s : DState} (h : Reach s) : Good s := by
  induction h with
  | init r => exact good_init r
  | step a _ hs ih => exact good_step a ih hs


end Girc.Proofs.Disp
