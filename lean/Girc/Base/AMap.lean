import Girc.Base.Bytes
/- Association-list model of a Go `map[string]T` (keys unique; `set` replaces in place). -/
namespace Girc

abbrev AMap (β : Type) := List (Bytes × β)

namespace AMap
variable {β : Type}

def get? (m : AMap β) (k : Bytes) : Option β := List.lookup k m

def contains (m : AMap β) (k : Bytes) : Bool := (get? m k).isSome

def erase (m : AMap β) (k : Bytes) : AMap β := m.filter (fun p => p.1 != k)

/-- Go `m[k] = v`. -/
def set (m : AMap β) (k : Bytes) (v : β) : AMap β :=
  if m.any (fun p => p.1 == k) then m.map (fun p => if p.1 == k then (k, v) else p)
  else m ++ [(k, v)]

def keys (m : AMap β) : List Bytes := m.map (·.1)

end AMap
end Girc
