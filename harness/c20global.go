package main

import (
	"fmt"
	"strings"

	"github.com/lrstanley/girc"
)

// C20 on the wire (Config.GlobalFormat): the formatting tokens of an outgoing text are rendered whatever the text's length —
// also when the text is one long unbroken run that Send has to cut into several lines.
func init() {
	runners["globalformat"] = func(c *Ctx, in map[string]string) {
		hin := hexIn(in)
		text := in["text"]
		s := &Session{Cfg: SessCfg{Nick: "me", User: "me", AllowFlood: true, GlobalFormat: true}, Steps: []Step{
			{Op: "recv", Arg: ":srv 001 me :Welcome"}, {Op: "barrier"}, {Op: "call", Arg: in["helper"], Args: []string{"#chan", text}}, {Op: "sleep"}, {Op: "barrier"}}}
		res := c.RunSession(s)
		if res.Crashed || res.Wedged {
			c.R.Violation("fmt.global_crash", hin, firstLine(res.CrashOut), "", "sending a formatted text crashed or wedged the client")
			return
		}
		var joined strings.Builder
		n := 0
		for _, l := range res.Written {
			e := girc.ParseEvent(l)
			if e == nil || (e.Command != "PRIVMSG" && e.Command != "NOTICE") || len(e.Params) != 2 || e.Params[0] != "#chan" {
				continue
			}
			n++
			if strings.ContainsAny(e.Params[1], "{}") {
				c.R.Violation("fmt.global_token_left", hin, q(e.Params[1]), "", "a known {token} of an outgoing text reached the wire unrendered (GlobalFormat)")
				return
			}
			joined.WriteString(girc.StripRaw(e.Params[1]))
		}
		// (the literal text is not compared: a hard cut of an unbroken run may fall inside a colour sequence — observation O19)
		_ = joined
		c.R.Count(fmt.Sprintf("globalformat/%s/%d", in["helper"], len(text)), n > 1, "global-format")
	}
}

func runC20Global(c *Ctx) {
	for _, text := range []string{"{b}short{b} {red}text{c}", strings.Repeat("x{b}y{red}z{c}", 90), strings.Repeat("word{italic}s {teal,pink}and{r} ", 60),
		"lead " + strings.Repeat("a", 380) + "{bold}" + strings.Repeat("b", 390) + "{underline}tail"} {
		for _, h := range []string{"Message", "Notice"} {
			c.run("globalformat", map[string]string{"helper": h, "text": text})
			c.R.Traces++
		}
	}
}
