package main

import (
	"bufio"
	"fmt"
	"net"
	"strings"
	"time"

	"github.com/lrstanley/girc"
)

// C03 against a SLOW peer: a line is only partly read when a server PING arrives; the PONG (and whatever else the client
// writes meanwhile) must wait its turn — the peer still receives whole CRLF-terminated lines, one per event.
func init() {
	runners["slowpeer"] = func(c *Ctx, in map[string]string) {
		hin := hexIn(in)
		cl := girc.New(girc.Config{Server: "irc.example.org", Port: 6667, Nick: "me", User: "me", Name: "me", AllowFlood: true})
		cli, srv := net.Pipe()
		ret := make(chan error, 1)
		go func() { ret <- cl.MockConnect(cli) }()
		rd := bufio.NewReaderSize(srv, 16)
		write := func(l string) {
			srv.SetWriteDeadline(time.Now().Add(2 * time.Second))
			srv.Write([]byte(l + "\r\n"))
		}
		readLine := func() (string, bool) {
			srv.SetReadDeadline(time.Now().Add(3 * time.Second))
			l, err := rd.ReadString('\n')
			return l, err == nil
		}
		defer func() {
			cl.Close()
			srv.Close()
			select {
			case <-ret:
			case <-time.After(5 * time.Second):
			}
		}()
		for {
			l, ok := readLine()
			if !ok {
				c.R.Mismatch("slowpeer.setup", hin, "registration lines did not arrive", "")
				return
			}
			if strings.HasPrefix(l, "USER") {
				break
			}
		}
		write(":srv 001 me :Welcome")
		write("PING :sync")
		for {
			l, ok := readLine()
			if !ok {
				c.R.Mismatch("slowpeer.setup", hin, "no PONG", "")
				return
			}
			if strings.HasPrefix(l, "PONG") {
				break
			}
		}
		text := in["text"]
		first := (&girc.Event{Command: "PRIVMSG", Params: []string{"#chan", text}}).String()
		if len(text) > 350 {
			first = (&girc.Event{Command: "TOPIC", Params: []string{"#chan", text}}).String() // (not split by Send: one very long line)
			go cl.Cmd.Topic("#chan", text)
		} else {
			go cl.Cmd.Message("#chan", text)
		}
		// read only the first bytes of the line: the client is now in the middle of a write
		head := make([]byte, 9)
		srv.SetReadDeadline(time.Now().Add(3 * time.Second))
		n, _ := rd.Read(head)
		write("PING :tok1")
		write("PING :tok two")
		time.Sleep(40 * time.Millisecond)
		go cl.Cmd.Notice("bob", "queued behind")
		time.Sleep(20 * time.Millisecond)
		var lines []string
		rest := string(head[:n])
		for len(lines) < 4 {
			l, ok := readLine()
			if l != "" {
				lines = append(lines, rest+l)
				rest = ""
			}
			if !ok {
				break
			}
		}
		want := map[string]int{first + "\r\n": 1, "PONG tok1\r\n": 1, "PONG :tok two\r\n": 1, "NOTICE bob :queued behind\r\n": 1}
		got := map[string]int{}
		for _, l := range lines {
			got[l]++
		}
		if fmt.Sprint(got) != fmt.Sprint(want) {
			c.R.Violation("c03.torn_lines", hin, fmt.Sprintf("%q", lines), "the four events, each as one CRLF-terminated line",
				"with a peer that reads slowly, a PING answered while another line was being written tore the lines apart (each event must reach the server as exactly one line)")
		}
		c.R.Count("slowpeer/"+fmt.Sprint(len(text)), true, "slow-peer")
	}
}

func runC03SlowPeer(c *Ctx) {
	for _, n := range []int{30, 300, 5000} {
		c.run("slowpeer", map[string]string{"text": strings.Repeat("x", n)})
		c.R.Traces++
	}
}
