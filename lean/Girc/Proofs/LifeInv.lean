import Girc.Model.Lifecycle
/-
  C07 helper: the inductive invariant `Good` of the lifecycle model and its preservation by every
  action (one lemma per action), hence `Reach s → Good s`.
-/
namespace Girc.Proofs.Life
open Girc Girc.Model.Life

/-! ### firstError -/

theorem firstError_append (a b : List Ev) :
    firstError (a ++ b) = match firstError a with | some x => some x | none => firstError b := by
  induction a with
  | nil => simp [firstError]
  | cons e rest ih =>
    simp only [List.cons_append, firstError]
    split <;> simp_all

theorem firstError_append_none (a b : List Ev) (h : firstError a = none) :
    firstError (a ++ b) = firstError b := by
  rw [firstError_append, h]

theorem firstError_append_some (a b : List Ev) (x : Err) (h : firstError a = some x) :
    firstError (a ++ b) = some x := by
  rw [firstError_append, h]

theorem firstError_kind' (l : List Ev) (e : Err) (h : firstError l = some e) : ∃ t, e = .errEvent t := by
  induction l with
  | nil => simp [firstError] at h
  | cons x rest ih =>
    simp only [firstError] at h
    split at h
    · cases h; exact ⟨_, rfl⟩
    · exact ih h

theorem firstError_ne_io (l : List Ev) : firstError l ≠ some .io := by
  intro h
  obtain ⟨t, ht⟩ := firstError_kind' l _ h
  cases ht

theorem firstError_split' (l : List Ev) (t : Bytes) (h : firstError l = some (.errEvent t)) :
    ∃ pre e post, l = pre ++ [e] ++ post ∧ e.isError = true ∧ e.text = t ∧ ∀ x ∈ pre, x.isError = false := by
  induction l with
  | nil => simp [firstError] at h
  | cons x rest ih =>
    simp only [firstError] at h
    split at h
    · rename_i hx
      cases h
      exact ⟨[], x, rest, by simp, hx, rfl, by simp⟩
    · rename_i hx
      obtain ⟨pre, e, post, h1, h2, h3, h4⟩ := ih h
      refine ⟨x :: pre, e, post, by simp [h1], h2, h3, ?_⟩
      intro y hy
      simp only [List.mem_cons] at hy
      rcases hy with rfl | hy
      · simpa using hx
      · exact h4 y hy

/-! ### the invariant -/

/-- What has been emitted, as a function of where main is. -/
def emitsOf : MainPc → List LifeEv
  | .waiting => []
  | .closedEv => []
  | .teardown r => if r = none then [.closed] else []
  | .discEv r => if r = none then [.closed] else []
  | .finish r => if r = none then [.closed, .disconnected] else [.disconnected]
  | .returned r => if r = none then [.closed, .disconnected] else [.disconnected]

/-- main has executed `conn.Close()`. -/
def afterTd : MainPc → Bool
  | .discEv _ | .finish _ | .returned _ => true
  | _ => false

def isRet : MainPc → Bool
  | .returned _ => true
  | _ => false

/-- The result main has committed to (after `group.Wait()` returned). -/
def resOf : MainPc → Option (Option Err)
  | .waiting => none
  | .closedEv => some none
  | .teardown r | .discEv r | .finish r | .returned r => some r

/-- The classification of the committed result. -/
structure Res (s : LState) (r : Option Err) : Prop where
  nil_iff : r = none ↔ s.reqAtWait = true
  err_first : s.reqAtWait = false → ∀ e, firstError s.delivered = some e → r = some e
  ev_first : ∀ t, r = some (.errEvent t) → firstError s.delivered = some (.errEvent t)
  io_peer : r = some .io → s.peerClosed = true ∧ firstError s.delivered = none

theorem Res.congr {s s' : LState} {r : Option Err} (h : Res s r) (h1 : s'.reqAtWait = s.reqAtWait)
    (h2 : s'.delivered = s.delivered) (h3 : s.peerClosed = true → s'.peerClosed = true) : Res s' r := by
  obtain ⟨a, b, c, d⟩ := h
  refine ⟨?_, ?_, ?_, ?_⟩
  · rw [h1]; exact a
  · rw [h1, h2]; exact b
  · rw [h2]; exact c
  · rw [h2]; intro hr; exact ⟨h3 (d hr).1, (d hr).2⟩

structure Good (s : LState) : Prop where
  fifo : s.received = s.delivered ++ s.rx
  recv_sent : ∀ e ∈ s.received, e ∈ s.sent
  wire_sent : ∀ e ∈ s.wire, e ∈ s.sent
  exec_run : s.exec = .running → firstError s.delivered = none
  exec_ex : ∀ r, s.exec = .exited r → firstError s.delivered = r
  gerr_ev : ∀ t, s.groupErr = some (.errEvent t) → s.exec = .exited (some (.errEvent t))
  gerr_io : s.groupErr = some .io → s.peerClosed = true
  exec_gc : s.exec.done = true → s.groupCancelled = true
  read_gc : s.read.done = true → s.groupCancelled = true
  send_gc : s.send.done = true → s.groupCancelled = true
  -- with pings disabled the ping loop returns at once, on a healthy connection
  ping_gc : s.ping.done = true → s.groupCancelled = true ∨ (s.pingOff = true ∧ s.ping = .exited none)
  gc_cause : s.main = .waiting → s.groupCancelled = true → s.parentCancelled = true ∨ s.groupErr.isSome = true
  close_par : s.closeRequested = true → s.parentCancelled = true
  par_close : s.main = .waiting → s.parentCancelled = true → s.closeRequested = true
  req_close : s.reqAtWait = true → s.closeRequested = true
  main_done : s.main ≠ .waiting →
    s.exec.done = true ∧ s.read.done = true ∧ s.send.done = true ∧ s.ping.done = true
  sock_eq : s.sockClosed = afterTd s.main
  conn_eq : s.connNil = isRet s.main
  emitted_eq : s.emitted = emitsOf s.main
  wait_req : s.main = .waiting → s.reqAtWait = false
  res_ok : ∀ r, resOf s.main = some r → Res s r

@[simp] theorem done_running : Loop.done .running = false := rfl
@[simp] theorem done_exited (r : Option Err) : Loop.done (.exited r) = true := rfl

theorem Good.waiting_of_exec {s : LState} (g : Good s) (h : s.exec = .running) : s.main = .waiting := by
  apply Classical.byContradiction
  intro hn
  have := (g.main_done hn).1
  simp [h, Loop.done] at this

theorem Good.waiting_of_read {s : LState} (g : Good s) (h : s.read = .running) : s.main = .waiting := by
  apply Classical.byContradiction
  intro hn
  have := (g.main_done hn).2.1
  simp [h, Loop.done] at this

theorem Good.waiting_of_send {s : LState} (g : Good s) (h : s.send = .running) : s.main = .waiting := by
  apply Classical.byContradiction
  intro hn
  have := (g.main_done hn).2.2.1
  simp [h, Loop.done] at this

theorem Good.waiting_of_ping {s : LState} (g : Good s) (h : s.ping = .running) : s.main = .waiting := by
  apply Classical.byContradiction
  intro hn
  have := (g.main_done hn).2.2.2
  simp [h, Loop.done] at this

theorem Good.sock_open {s : LState} (g : Good s) (h : s.main = .waiting) : s.sockClosed = false := by
  rw [g.sock_eq, h]; rfl

theorem good_begin (rx : List Ev) (tx : List OutEv) (cap : Nat) (pingOff : Bool) : Good (begin rx tx cap pingOff) := by
  constructor <;> simp [begin, firstError, Loop.done, afterTd, isRet, emitsOf, resOf]

/-- Loop actions: main is still waiting. -/
macro "loop_step" g:ident h:ident : tactic => `(tactic| (
  simp only [step] at $h:ident
  (repeat' split at $h:ident)
  all_goals first
    | (cases $h:ident; done)
    | (have hw := by
         first
           | exact Good.waiting_of_exec $g (by assumption)
           | exact Good.waiting_of_read $g (by assumption)
           | exact Good.waiting_of_send $g (by assumption)
           | exact Good.waiting_of_ping $g (by assumption)
       have hso := Good.sock_open $g hw
       cases $h:ident
       obtain ⟨g1, g2, g3, g4, g5, g6, g7, g8, g9, g10, g11, g12, g13, g14, g15, g16, g17, g18, g19, g20, g21⟩ := $g
       try (obtain ⟨t, ht⟩ := firstError_kind' _ _ (by assumption); subst ht)
       constructor <;>
         ((try simp_all [LState.fail, afterTd, isRet, emitsOf, resOf, firstError, firstError_append]) <;>
           grind))))

theorem good_readTake {s s' : LState} (g : Good s) (h : step s .readTake = some s') : Good s' := by
  loop_step g h

theorem good_readEOF {s s' : LState} (g : Good s) (h : step s .readEOF = some s') : Good s' := by
  loop_step g h

theorem good_readParseErr {s s' : LState} (g : Good s) (h : step s .readParseErr = some s') : Good s' := by
  loop_step g h

theorem good_readCancel {s s' : LState} (g : Good s) (h : step s .readCancel = some s') : Good s' := by
  loop_step g h

theorem good_execTake {s s' : LState} (g : Good s) (h : step s .execTake = some s') : Good s' := by
  loop_step g h

theorem good_execFlush {s s' : LState} (g : Good s) (h : step s .execFlush = some s') : Good s' := by
  loop_step g h

theorem good_sendTake {s s' : LState} (g : Good s) (h : step s .sendTake = some s') : Good s' := by
  loop_step g h

theorem good_sendFail {s s' : LState} (g : Good s) (h : step s .sendFail = some s') : Good s' := by
  loop_step g h

theorem good_sendCancel {s s' : LState} (g : Good s) (h : step s .sendCancel = some s') : Good s' := by
  loop_step g h

theorem good_pingTimeout {s s' : LState} (g : Good s) (h : step s .pingTimeout = some s') : Good s' := by
  loop_step g h

theorem good_pingCancel {s s' : LState} (g : Good s) (h : step s .pingCancel = some s') : Good s' := by
  loop_step g h

theorem good_pingDisabled {s s' : LState} (g : Good s) (h : step s .pingDisabled = some s') : Good s' := by
  loop_step g h

/-- Environment actions: main does not move. -/
macro "env_step" g:ident h:ident : tactic => `(tactic| (
  simp only [step] at $h:ident
  (repeat' split at $h:ident)
  all_goals first
    | (cases $h:ident; done)
    | (cases $h:ident
       obtain ⟨g1, g2, g3, g4, g5, g6, g7, g8, g9, g10, g11, g12, g13, g14, g15, g16, g17, g18, g19, g20, g21⟩ := $g
       refine Good.mk ?_ ?_ ?_ ?_ ?_ ?_ ?_ ?_ ?_ ?_ ?_ ?_ ?_ ?_ ?_ ?_ ?_ ?_ ?_ ?_
         (fun r hr => Res.congr (g21 r hr) rfl rfl (by simp_all))
       all_goals ((try simp_all) <;> grind))))

theorem good_userClose {s s' : LState} (g : Good s) (h : step s (.userClose) = some s') : Good s' := by
  env_step g h

theorem good_userQuit {s s' : LState} (g : Good s) (h : step s (.userQuit) = some s') : Good s' := by
  env_step g h

theorem good_userSend {s s' : LState} (id : Nat) (g : Good s) (h : step s (.userSend id) = some s') : Good s' := by
  env_step g h

theorem good_peerSend {s s' : LState} (e : Ev) (g : Good s) (h : step s (.peerSend e) = some s') : Good s' := by
  env_step g h

theorem good_peerClose {s s' : LState} (g : Good s) (h : step s (.peerClose) = some s') : Good s' := by
  env_step g h

/-- Main actions after `group.Wait()`: the committed result is carried along. -/
macro "main_step" g:ident h:ident : tactic => `(tactic| (
  simp only [step] at $h:ident
  (repeat' split at $h:ident)
  all_goals first
    | (cases $h:ident; done)
    | (cases $h:ident
       obtain ⟨g1, g2, g3, g4, g5, g6, g7, g8, g9, g10, g11, g12, g13, g14, g15, g16, g17, g18, g19, g20, g21⟩ := $g
       refine Good.mk ?_ ?_ ?_ ?_ ?_ ?_ ?_ ?_ ?_ ?_ ?_ ?_ ?_ ?_ ?_ ?_ ?_ ?_ ?_ ?_
         (fun r hr => Res.congr (g21 r (by simp_all [resOf])) rfl rfl (by simp_all))
       all_goals ((try simp_all [afterTd, isRet, emitsOf, resOf]) <;> grind))))

theorem good_mainClosedEv {s s' : LState} (g : Good s) (h : step s .mainClosedEv = some s') : Good s' := by
  main_step g h

theorem good_mainTeardown {s s' : LState} (g : Good s) (h : step s .mainTeardown = some s') : Good s' := by
  main_step g h

theorem good_mainDisc {s s' : LState} (g : Good s) (h : step s .mainDisc = some s') : Good s' := by
  main_step g h

theorem good_mainFinish {s s' : LState} (g : Good s) (h : step s .mainFinish = some s') : Good s' := by
  main_step g h

theorem good_mainWait {s s' : LState} (g : Good s) (h : step s .mainWait = some s') : Good s' := by
  simp only [step] at h
  split at h
  · rename_i hw
    split at h
    · rename_i hd
      simp only [Bool.and_eq_true] at hd
      obtain ⟨⟨⟨hde, hdr⟩, hds⟩, hdp⟩ := hd
      cases h
      have hgc := g.exec_gc hde
      cases hx : s.exec with
      | running => simp [hx] at hde
      | exited x =>
      have hfe := g.exec_ex x hx
      have hio := firstError_ne_io s.delivered
      obtain ⟨g1, g2, g3, g4, g5, g6, g7, g8, g9, g10, g11, g12, g13, g14, g15, g16, g17, g18, g19, g20, g21⟩ := g
      cases hp : s.parentCancelled <;> rcases x with _ | x <;> cases hge : s.groupErr <;>
        refine Good.mk ?_ ?_ ?_ ?_ ?_ ?_ ?_ ?_ ?_ ?_ ?_ ?_ ?_ ?_ ?_ ?_ ?_ ?_ ?_ ?_ ?_
      all_goals first
        | (simp_all [afterTd, isRet, emitsOf, resOf]; done)
        | (simp_all [afterTd, isRet, emitsOf, resOf]; constructor <;> simp_all <;> grind)
        | (simp_all [afterTd, isRet, emitsOf, resOf]; grind)
    · cases h
  · cases h

theorem good_step {s s' : LState} (a : Act) (g : Good s) (h : step s a = some s') : Good s' := by
  cases a with
  | userClose => exact good_userClose g h
  | userQuit => exact good_userQuit g h
  | userSend id => exact good_userSend id g h
  | peerSend e => exact good_peerSend e g h
  | peerClose => exact good_peerClose g h
  | readTake => exact good_readTake g h
  | readEOF => exact good_readEOF g h
  | readParseErr => exact good_readParseErr g h
  | readCancel => exact good_readCancel g h
  | execTake => exact good_execTake g h
  | execFlush => exact good_execFlush g h
  | sendTake => exact good_sendTake g h
  | sendFail => exact good_sendFail g h
  | sendCancel => exact good_sendCancel g h
  | pingTimeout => exact good_pingTimeout g h
  | pingCancel => exact good_pingCancel g h
  | pingDisabled => exact good_pingDisabled g h
  | mainWait => exact good_mainWait g h
  | mainClosedEv => exact good_mainClosedEv g h
  | mainTeardown => exact good_mainTeardown g h
  | mainDisc => exact good_mainDisc g h
  | mainFinish => exact good_mainFinish g h

theorem good_of_reach {s : LState} (h : Reach s) : Good s := by
  induction h with
  | init rx tx cap pingOff => exact good_begin rx tx cap pingOff
  | step a _ hstep ih => exact good_step a ih hstep

end Girc.Proofs.Life
