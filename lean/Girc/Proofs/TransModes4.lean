import Girc.Proofs.TransModes3
import Girc.Proofs.ParseLemmas
/-
  Translator equivalence, modes.go (fourth part): (*CModes).Parse, (*CModes).Apply, (*CModes).Copy, NewCModes, Perms.
-/
set_option linter.unusedSimpArgs false
namespace Girc.Proofs.Trans
open Girc Girc.Model Girc.Go Girc.Gen

/-! ### (*CModes).Parse -/

theorem CModes_Parse_loop1_eq (c : CModes) (flags : Bytes) (args : List Bytes) :
    ∀ (fuel n k : Nat) (out : List CMode) (add : Bool),
    n ≤ flags.length → flags.length - n < fuel →
    ∃ a k', Fn.CModes_Parse_loop1 (some c) flags args fuel out add (k : Int) (n : Int) =
      .ok (.done (out ++ c.parseAux (flags.drop n) add (args.drop k), a, k'))
  | 0, _, _, _, _, _, h => by omega
  | fuel + 1, n, k, out, add, hn, hf => by
    unfold Fn.CModes_Parse_loop1
    by_cases hlt : n < flags.length
    · obtain ⟨f, hd, hat, _⟩ := atI_step flags n hlt
      have hc : decide ((n : Int) < len flags) = true := by dec_tac
      have e1 : ((n : Int) + 1) = ((n + 1 : Nat) : Int) := by omega
      simp only [hc, hat, bind, Except.bind, pure, Except.pure, Bool.not_true, Bool.false_eq_true, if_false, e1,
        CModes_hasArg_eq]
      rw [hd, CModes.parseAux]
      by_cases h1 : f = 0x2B
      · subst h1
        simp only [beq_self_eq_true, if_true]
        exact CModes_Parse_loop1_eq c flags args fuel (n + 1) k out true (by omega) (by omega)
      · have b1 : (f == 0x2B) = false := by simp [h1]
        simp only [b1, Bool.false_eq_true, if_false, h1]
        by_cases h2 : f = 0x2D
        · subst h2
          simp only [beq_self_eq_true, if_true]
          exact CModes_Parse_loop1_eq c flags args fuel (n + 1) k out false (by omega) (by omega)
        · have b2 : (f == 0x2D) = false := by simp [h2]
          simp only [b2, Bool.false_eq_true, if_false, h2]
          cases hh : c.hasArg add f with
          | mk ha isS =>
            simp only []
            by_cases hk : k < args.length
            · obtain ⟨a, hda, hata, _⟩ := atL_step args k hk
              have hlen : decide (len args > (k : Int)) = true := by dec_tac
              cases ha with
              | true =>
                have e2 : ((k : Int) + 1) = ((k + 1 : Nat) : Int) := by omega
                simp only [hlen, Bool.and_self, if_true, hata, e2]
                obtain ⟨a', k', ih⟩ := CModes_Parse_loop1_eq c flags args fuel (n + 1) (k + 1)
                  (out ++ [{ add := add, name := f, setting := isS, args := a }]) add (by omega) (by omega)
                refine ⟨a', k', ?_⟩
                rw [ih, hda]
                simp
              | false =>
                simp only [Bool.false_and, Bool.false_eq_true, if_false]
                obtain ⟨a', k', ih⟩ := CModes_Parse_loop1_eq c flags args fuel (n + 1) k
                  (out ++ [{ add := add, name := f, setting := isS, args := [] }]) add (by omega) (by omega)
                refine ⟨a', k', ?_⟩
                rw [ih]
                simp
            · have hlen : decide (len args > (k : Int)) = false := by dec_tac
              have hnil : args.drop k = [] := by simp; omega
              simp only [hlen, Bool.and_false, Bool.false_eq_true, if_false]
              obtain ⟨a', k', ih⟩ := CModes_Parse_loop1_eq c flags args fuel (n + 1) k
                (out ++ [{ add := add, name := f, setting := isS, args := [] }]) add (by omega) (by omega)
              refine ⟨a', k', ?_⟩
              rw [ih, hnil]
              cases ha <;> simp
    · have hc : decide ((n : Int) < len flags) = false := by dec_tac
      have : flags.drop n = [] := by simp; omega
      refine ⟨add, k, ?_⟩
      simp [hc, this, pure, Except.pure, CModes.parseAux]

theorem CModes_Parse_eq (c : CModes) (flags : Bytes) (args : List Bytes) :
    Fn.CModes_Parse (some c) flags args = .ok (c.parse flags args) := by
  unfold Fn.CModes_Parse CModes.parse
  obtain ⟨a, k', hl⟩ := CModes_Parse_loop1_eq c flags args (fuelTo 0 (len flags)) 0 0 [] true (by omega) (by fuel_tac)
  simp only [Int.natCast_zero, List.drop_zero, List.nil_append] at hl
  simp only [hl, bind, Except.bind, pure, Except.pure]

/-! ### (*CModes).Apply -/

/-- Position of the first stored mode called `nm` (the inner loop of `Apply`). -/
def firstIdx (nm : Byte) : List CMode → Option Nat
  | [] => none
  | x :: xs => if x.name == nm then some 0 else (firstIdx nm xs).map (· + 1)

/-- One change of `Apply`, exactly as the Go code performs it: only the FIRST entry of that name is replaced / removed. -/
def applyOneGo (ms : List CMode) (m : CMode) : List CMode :=
  if !m.setting then ms
  else match firstIdx m.name ms with
    | none => if m.add then ms ++ [m] else ms
    | some j => if m.add then ms.set j m else ms.take j ++ ms.drop (j + 1)

theorem firstIdx_lt (nm : Byte) : ∀ (ms : List CMode) (d : Nat), firstIdx nm ms = some d → d < ms.length
  | [], _, h => by simp [firstIdx] at h
  | x :: xs, d, h => by
    unfold firstIdx at h
    by_cases hx : (x.name == nm) = true
    · simp [hx] at h; subst h; simp
    · simp only [hx, Bool.false_eq_true, if_false] at h
      cases hr : firstIdx nm xs with
      | none => simp [hr] at h
      | some r =>
        simp [hr] at h; subst h
        have := firstIdx_lt nm xs r hr
        simp; omega

theorem CModes_Apply_loop2_eq (modes newModes : List CMode) (i : Int) (m : CMode) (hm : atA modes i = .ok m) :
    ∀ (fuel k : Nat) (j : Int), k ≤ newModes.length → newModes.length - k < fuel →
    Fn.CModes_Apply_loop2 modes newModes i fuel j (k : Int) = .ok (.done
      (match firstIdx m.name (newModes.drop k) with
       | some d => ((k + d : Nat) : Int)
       | none => j))
  | 0, _, _, _, h => by omega
  | fuel + 1, k, j, hk, hf => by
    unfold Fn.CModes_Apply_loop2
    by_cases hlt : k < newModes.length
    · obtain ⟨x, hd, hat, _⟩ := atA_step newModes k hlt
      have hc : decide ((k : Int) < len newModes) = true := by dec_tac
      have e1 : ((k : Int) + 1) = ((k + 1 : Nat) : Int) := by omega
      simp only [hc, hat, hm, bind, Except.bind, pure, Except.pure, Bool.not_true, Bool.false_eq_true, if_false, e1]
      rw [hd, firstIdx]
      cases hx : (x.name == m.name) with
      | true => simp
      | false =>
        simp only [Bool.false_eq_true, if_false]
        rw [CModes_Apply_loop2_eq modes newModes i m hm fuel (k + 1) j (by omega) (by omega)]
        cases firstIdx m.name (newModes.drop (k + 1)) with
        | none => rfl
        | some d => simp; omega
    · have hc : decide ((k : Int) < len newModes) = false := by dec_tac
      have : newModes.drop k = [] := by simp; omega
      simp [hc, this, pure, Except.pure, firstIdx]

theorem CModes_Apply_loop1_eq (modes : List CMode) : ∀ (fuel n : Nat) (nm : List CMode),
    n ≤ modes.length → modes.length - n < fuel →
    Fn.CModes_Apply_loop1 modes fuel nm (n : Int) = .ok (.done ((modes.drop n).foldl applyOneGo nm))
  | 0, _, _, _, h => by omega
  | fuel + 1, n, nm, hn, hf => by
    unfold Fn.CModes_Apply_loop1
    by_cases hlt : n < modes.length
    · obtain ⟨m, hd, hat, _⟩ := atA_step modes n hlt
      have hc : decide ((n : Int) < len modes) = true := by dec_tac
      have e1 : ((n : Int) + 1) = ((n + 1 : Nat) : Int) := by omega
      have ih : ∀ nm', Fn.CModes_Apply_loop1 modes fuel nm' ((n : Int) + 1) =
          .ok (.done ((modes.drop (n + 1)).foldl applyOneGo nm')) := by
        intro nm'; rw [e1]; exact CModes_Apply_loop1_eq modes fuel (n + 1) nm' (by omega) (by omega)
      have h2 := CModes_Apply_loop2_eq modes nm (n : Int) m hat (fuelTo 0 (len nm)) 0 (-1) (by omega) (by fuel_tac)
      simp only [Int.natCast_zero, List.drop_zero, Nat.zero_add] at h2
      simp only [hc, hat, h2, bind, Except.bind, pure, Except.pure, Bool.not_true, Bool.false_eq_true, if_false]
      rw [hd, List.foldl_cons]
      cases hs : m.setting with
      | false =>
        have hv : applyOneGo nm m = nm := by simp [applyOneGo, hs]
        simp [ih, hv]
      | true =>
        simp only [Bool.not_true, Bool.false_eq_true, if_false]
        cases hj : firstIdx m.name nm with
        | none =>
          cases ha : m.add with
          | true =>
            have hv : applyOneGo nm m = nm ++ [m] := by simp [applyOneGo, hs, hj, ha]
            simp [ih, hv]
          | false =>
            have hv : applyOneGo nm m = nm := by simp [applyOneGo, hs, hj, ha]
            simp [ih, hv]
        | some d =>
          have hdl := firstIdx_lt m.name nm d hj
          have hne : ((d : Int) == -1) = false := by
            have : ¬ ((d : Int) = -1) := by omega
            simp [this]
          have hne' : ((d : Int) != -1) = true := by simp [bne, hne]
          cases ha : m.add with
          | true =>
            have hv : applyOneGo nm m = nm.set d m := by simp [applyOneGo, hs, hj, ha]
            simp only [hne, Bool.and_false, Bool.false_eq_true, if_false, if_true, setA_nat nm d m hdl, ih, hv]
          | false =>
            have hv : applyOneGo nm m = nm.take d ++ nm.drop (d + 1) := by simp [applyOneGo, hs, hj, ha]
            have e2 : ((d : Int) + 1) = ((d + 1 : Nat) : Int) := by omega
            simp only [hne', Bool.false_and, Bool.false_eq_true, if_false, if_true, sliceA_to nm d (by omega), e2,
              sliceA_from nm (d + 1) (by omega), ih, hv]
    · have hc : decide ((n : Int) < len modes) = false := by dec_tac
      have : modes.drop n = [] := by simp; omega
      simp [hc, this, pure, Except.pure]

/-- What the Go code computes. -/
theorem CModes_Apply_go (c : CModes) (changes : List CMode) :
    Fn.CModes_Apply (some c) changes = .ok (some { c with modes := changes.foldl applyOneGo c.modes }) := by
  unfold Fn.CModes_Apply
  have hcopy : copyA (List.replicate c.modes.length ({ add := false, name := 0, setting := false, args := [] } : CMode)) c.modes
      = c.modes := copyA_full _ _ (by simp)
  have hl := CModes_Apply_loop1_eq changes (fuelTo 0 (len changes)) 0 c.modes (by omega) (by fuel_tac)
  simp only [Int.natCast_zero, List.drop_zero] at hl
  simp only [deref_some, makeA_len, hcopy, hl, bind, Except.bind, pure, Except.pure]

theorem CModes_Apply_nil (changes : List CMode) : Fn.CModes_Apply none changes = .error .nilDeref := rfl

/-- Stored modes are unique by name (true of every state built from `NewCModes` by `Apply`, see `namesNodup_applyOne`). -/
def namesNodup : List CMode → Prop
  | [] => True
  | x :: xs => (∀ y ∈ xs, y.name ≠ x.name) ∧ namesNodup xs

theorem firstIdx_none (nm : Byte) : ∀ ms : List CMode, firstIdx nm ms = none → ∀ y ∈ ms, y.name ≠ nm
  | [], _ => by simp
  | x :: xs, h => by
    unfold firstIdx at h
    by_cases hx : (x.name == nm) = true
    · simp [hx] at h
    · simp only [hx, Bool.false_eq_true, if_false] at h
      have hr : firstIdx nm xs = none := by
        cases hr : firstIdx nm xs with
        | none => rfl
        | some r => simp [hr] at h
      intro y hy
      rcases List.mem_cons.mp hy with e | e
      · subst e; simpa using hx
      · exact firstIdx_none nm xs hr y e

theorem filter_none (nm : Byte) (ms : List CMode) (h : ∀ y ∈ ms, y.name ≠ nm) : ms.filter (·.name != nm) = ms := by
  apply List.filter_eq_self.mpr
  intro y hy
  simpa [bne_iff_ne] using h y hy

theorem map_none (m : CMode) (ms : List CMode) (h : ∀ y ∈ ms, y.name ≠ m.name) :
    ms.map (fun x => if x.name = m.name then m else x) = ms := by
  induction ms with
  | nil => rfl
  | cons x xs ih =>
    have hx := h x (by simp)
    simp only [List.map_cons, hx, if_false]
    rw [ih (fun y hy => h y (by simp [hy]))]

theorem any_none (nm : Byte) (ms : List CMode) (h : ∀ y ∈ ms, y.name ≠ nm) : ms.any (·.name = nm) = false := by
  induction ms with
  | nil => rfl
  | cons x xs ih =>
    have hx := h x (by simp)
    simp only [List.any_cons, hx, decide_false, Bool.false_or]
    exact ih (fun y hy => h y (by simp [hy]))

theorem applyOneGo_eq : ∀ (ms : List CMode) (m : CMode), namesNodup ms → applyOneGo ms m = applyOne ms m := by
  intro ms m hnd
  unfold applyOneGo applyOne
  cases hs : m.setting with
  | false => simp
  | true =>
    simp only [Bool.not_true, Bool.false_eq_true, if_false]
    induction ms with
    | nil => simp [firstIdx]
    | cons x xs ih =>
      obtain ⟨hx, hxs⟩ := hnd
      unfold firstIdx
      by_cases hxe : x.name = m.name
      · have hb : (x.name == m.name) = true := by simp [hxe]
        have hrest : ∀ y ∈ xs, y.name ≠ m.name := fun y hy => hxe ▸ hx y hy
        simp only [hb, if_true]
        cases ha : m.add with
        | true =>
          simp [hxe, map_none m xs hrest]
        | false =>
          simp [hxe, filter_none m.name xs hrest]
      · have hb : (x.name == m.name) = false := by simp [hxe]
        have ih' := ih hxs
        simp only [hb, Bool.false_eq_true, if_false]
        cases hr : firstIdx m.name xs with
        | none =>
          simp only [hr] at ih'
          have hrest := firstIdx_none m.name xs hr
          cases ha : m.add with
          | true =>
            simp [hxe, any_none m.name xs hrest]
          | false =>
            simp [hxe, filter_none m.name xs hrest]
        | some r =>
          simp only [hr] at ih'
          cases ha : m.add with
          | true =>
            simp only [ha, if_true] at ih'
            simp only [Option.map_some, List.set_cons_succ, if_true, List.any_cons, hxe, decide_false, Bool.false_or,
              List.map_cons, if_false]
            by_cases hany : xs.any (·.name = m.name) = true
            · simp only [hany, if_true] at ih' ⊢
              rw [ih']
            · have hany' : xs.any (·.name = m.name) = false := by simpa using hany
              simp only [hany', Bool.false_eq_true, if_false] at ih' ⊢
              rw [ih']; simp
          | false =>
            simp only [ha, Bool.false_eq_true, if_false] at ih'
            have hbx : (x.name != m.name) = true := by simp [bne_iff_ne, hxe]
            simp only [Option.map_some, Bool.false_eq_true, if_false, List.take_succ_cons, List.drop_succ_cons,
              List.cons_append, List.filter_cons, hbx, if_true]
            rw [ih']

theorem mem_applyOne_name (ms : List CMode) (m : CMode) (y : CMode) (hy : y ∈ applyOne ms m) :
    y = m ∨ y ∈ ms := by
  unfold applyOne at hy
  cases hs : m.setting with
  | false => simp [hs] at hy; exact Or.inr hy
  | true =>
    simp only [hs, Bool.not_true, Bool.false_eq_true, if_false] at hy
    cases ha : m.add with
    | true =>
      simp only [ha, if_true] at hy
      by_cases hany : ms.any (·.name = m.name) = true
      · simp only [hany, if_true] at hy
        obtain ⟨x, hx, hxy⟩ := List.mem_map.mp hy
        by_cases hxe : x.name = m.name
        · simp [hxe] at hxy; exact Or.inl hxy.symm
        · simp [hxe] at hxy; exact Or.inr (hxy ▸ hx)
      · simp only [hany, Bool.false_eq_true, if_false] at hy
        rcases List.mem_append.mp hy with h | h
        · exact Or.inr h
        · simp at h; exact Or.inl h
    | false =>
      simp only [ha, Bool.false_eq_true, if_false] at hy
      exact Or.inr (List.mem_filter.mp hy).1

theorem namesNodup_filter (nm : Byte) : ∀ ms : List CMode, namesNodup ms → namesNodup (ms.filter (·.name != nm))
  | [], _ => by simp [namesNodup]
  | x :: xs, ⟨hx, hxs⟩ => by
    simp only [List.filter_cons]
    by_cases hb : (x.name != nm) = true
    · simp only [hb, if_true]
      exact ⟨fun y hy => hx y (List.mem_filter.mp hy).1, namesNodup_filter nm xs hxs⟩
    · simp only [hb, Bool.false_eq_true, if_false]
      exact namesNodup_filter nm xs hxs

theorem namesNodup_append (m : CMode) : ∀ ms : List CMode, namesNodup ms → (∀ y ∈ ms, y.name ≠ m.name) →
    namesNodup (ms ++ [m])
  | [], _, _ => by simp [namesNodup]
  | x :: xs, ⟨hx, hxs⟩, h => by
    refine ⟨?_, namesNodup_append m xs hxs (fun y hy => h y (by simp [hy]))⟩
    intro y hy
    rcases List.mem_append.mp hy with e | e
    · exact hx y e
    · simp at e; subst e; exact fun e' => h x (by simp) e'.symm

theorem namesNodup_map (m : CMode) : ∀ ms : List CMode, namesNodup ms →
    namesNodup (ms.map (fun x => if x.name = m.name then m else x))
  | [], _ => by simp [namesNodup]
  | x :: xs, ⟨hx, hxs⟩ => by
    refine ⟨?_, namesNodup_map m xs hxs⟩
    intro y hy
    obtain ⟨z, hz, hzy⟩ := List.mem_map.mp hy
    have hzx := hx z hz
    by_cases hze : z.name = m.name
    · simp only [hze, if_true] at hzy; subst hzy
      by_cases hxe : x.name = m.name
      · exact absurd (hze.trans hxe.symm) hzx
      · simp only [hxe, if_false]; exact fun e => hxe e.symm
    · simp only [hze, if_false] at hzy; subst hzy
      by_cases hxe : x.name = m.name
      · simp only [hxe, if_true]; exact hze
      · simp only [hxe, if_false]; exact hzx

theorem namesNodup_applyOne (ms : List CMode) (m : CMode) (h : namesNodup ms) : namesNodup (applyOne ms m) := by
  unfold applyOne
  cases hs : m.setting with
  | false => simpa using h
  | true =>
    simp only [Bool.not_true, Bool.false_eq_true, if_false]
    cases ha : m.add with
    | true =>
      simp only [if_true]
      by_cases hany : ms.any (·.name = m.name) = true
      · simp only [hany, if_true]; exact namesNodup_map m ms h
      · simp only [hany, Bool.false_eq_true, if_false]
        apply namesNodup_append m ms h
        intro y hy e
        apply hany
        exact List.any_eq_true.mpr ⟨y, hy, by simp [e]⟩
    | false =>
      simp only [Bool.false_eq_true, if_false]
      exact namesNodup_filter m.name ms h

theorem foldl_applyOneGo_eq : ∀ (changes ms : List CMode), namesNodup ms →
    changes.foldl applyOneGo ms = changes.foldl applyOne ms ∧ namesNodup (changes.foldl applyOne ms)
  | [], _, h => ⟨rfl, h⟩
  | m :: rest, ms, h => by
    simp only [List.foldl_cons]
    rw [applyOneGo_eq ms m h]
    exact foldl_applyOneGo_eq rest (applyOne ms m) (namesNodup_applyOne ms m h)

/-- Generated `Apply` = the model's `CModes.apply` on every state whose stored modes are unique by name; the invariant is
    preserved (`CModes_Apply_nodup`), and holds of `NewCModes` (no stored modes). -/
theorem CModes_Apply_eq (c : CModes) (changes : List CMode) (h : namesNodup c.modes) :
    Fn.CModes_Apply (some c) changes = .ok (some (c.apply changes)) := by
  rw [CModes_Apply_go, (foldl_applyOneGo_eq changes c.modes h).1]; rfl

theorem CModes_Apply_nodup (c : CModes) (changes : List CMode) (h : namesNodup c.modes) :
    namesNodup (c.apply changes).modes := (foldl_applyOneGo_eq changes c.modes h).2

/-! ### (*CModes).Copy -/

theorem set_take_replicate {α : Type} (z : α) : ∀ (l : List α) (n : Nat) (m : α), l[n]? = some m →
    (l.take n ++ List.replicate (l.length - n) z).set n m = l.take (n + 1) ++ List.replicate (l.length - (n + 1)) z
  | [], _, _, h => by simp at h
  | x :: xs, 0, m, h => by
    simp at h; subst h
    simp [List.replicate_succ]
  | x :: xs, n + 1, m, h => by
    have ih := set_take_replicate z xs n m (by simpa using h)
    simp only [List.take_succ_cons, List.cons_append, List.length_cons, Nat.add_sub_add_right, List.set_cons_succ]
    rw [ih]

abbrev zeroCMode : CMode := { add := false, name := 0, setting := false, args := [] }

theorem CModes_Copy_loop1_eq (c : CModes) : ∀ (fuel n : Nat), n ≤ c.modes.length → c.modes.length - n < fuel →
    Fn.CModes_Copy_loop1 (some c) fuel
      { c with modes := c.modes.take n ++ List.replicate (c.modes.length - n) zeroCMode } (n : Int) = .ok (.done c)
  | 0, _, _, h => by omega
  | fuel + 1, n, hn, hf => by
    unfold Fn.CModes_Copy_loop1
    by_cases hlt : n < c.modes.length
    · obtain ⟨m, hd, hat, hget⟩ := atA_step c.modes n hlt
      have hc : decide ((n : Int) < len c.modes) = true := by dec_tac
      have e1 : ((n : Int) + 1) = ((n + 1 : Nat) : Int) := by omega
      have hset := setA_nat (c.modes.take n ++ List.replicate (c.modes.length - n) zeroCMode) n m (by simp; omega)
      simp only [deref_some, hc, hat, hset, bind, Except.bind, pure, Except.pure, Bool.not_true, Bool.false_eq_true,
        if_false, e1, set_take_replicate zeroCMode c.modes n m hget]
      exact CModes_Copy_loop1_eq c fuel (n + 1) (by omega) (by omega)
    · have hc : decide ((n : Int) < len c.modes) = false := by dec_tac
      have hn' : n = c.modes.length := by omega
      subst hn'
      simp [deref_some, bind, Except.bind, hc, pure, Except.pure]

/-- `Copy` returns a value equal to the receiver's pointee (the stored modes are copied one by one). -/
theorem CModes_Copy_eq (c : CModes) : Fn.CModes_Copy (some c) = .ok c := by
  unfold Fn.CModes_Copy
  have hl := CModes_Copy_loop1_eq c (fuelTo 0 (len c.modes)) 0 (by omega) (by fuel_tac)
  simp only [Int.natCast_zero, List.take_zero, List.nil_append, Nat.sub_zero] at hl
  simp only [deref_some, makeA_len, bind, Except.bind, pure, Except.pure]
  simp only [zeroCMode] at hl
  simp only [hl]

theorem CModes_Copy_nil : Fn.CModes_Copy none = .error .nilDeref := rfl

/-! ### NewCModes -/

theorem splitOnByte_step (b : Byte) : ∀ s : Bytes, splitOnByte b s =
    match indexOf b s with
    | none => [s]
    | some i => s.take i :: splitOnByte b (s.drop (i + 1))
  | [] => by simp [splitOnByte, indexOf]
  | x :: xs => by
    have ih := splitOnByte_step b xs
    simp only [splitOnByte, indexOf]
    by_cases hx : x = b
    · simp [hx]
    · simp only [hx, if_false]
      rw [ih]
      cases indexOf b xs with
      | none => simp
      | some i => simp

theorem joinWith_splitOnByte (b : Byte) : ∀ s : Bytes, joinWith [b] (splitOnByte b s) = s
  | [] => by simp [splitOnByte, joinWith]
  | x :: xs => by
    have ih := joinWith_splitOnByte b xs
    unfold splitOnByte
    by_cases hx : x = b
    · simp only [hx, if_true]
      cases hps : splitOnByte b xs with
      | nil => exact absurd hps (ParseLemmas.splitOnByte_ne_nil b xs)
      | cons p ps => rw [hps] at ih; simp [joinWith, ih]
    · simp only [hx, if_false]
      cases hps : splitOnByte b xs with
      | nil => exact absurd hps (ParseLemmas.splitOnByte_ne_nil b xs)
      | cons p ps =>
        rw [hps] at ih
        cases ps with
        | nil => simp [joinWith] at ih ⊢; exact ih
        | cons q qs => simp [joinWith] at ih ⊢; exact ih

theorem NewCModes_loop1_eq : ∀ (fuel : Nat) (l : List Bytes), l.length ≤ 4 → 4 - l.length < fuel →
    Fn.NewCModes_loop1 fuel l (l.length : Int) = .ok (.done (l ++ List.replicate (4 - l.length) []))
  | 0, _, _, h => by omega
  | fuel + 1, l, hl, hf => by
    unfold Fn.NewCModes_loop1
    by_cases hlt : l.length < 4
    · have hc : decide ((l.length : Int) < 4) = true := by dec_tac
      have e1 : ((l.length : Int) + 1) = (((l ++ [([] : Bytes)]).length : Nat) : Int) := by simp
      simp only [hc, bind, Except.bind, pure, Except.pure, Bool.not_true, Bool.false_eq_true, if_false, e1]
      rw [NewCModes_loop1_eq fuel (l ++ [[]]) (by simp; omega) (by simp; omega)]
      have : 4 - l.length = (4 - (l ++ [([] : Bytes)]).length) + 1 := by simp; omega
      rw [this, List.replicate_succ]
      simp
    · have hc : decide ((l.length : Int) < 4) = false := by dec_tac
      have : 4 - l.length = 0 := by omega
      simp [hc, this, pure, Except.pure]

theorem atL_0 (a : Bytes) (l : List Bytes) : atL (a :: l) 0 = .ok a := atL_nat (a :: l) 0 a rfl
theorem atL_1 (a b : Bytes) (l : List Bytes) : atL (a :: b :: l) 1 = .ok b := atL_nat (a :: b :: l) 1 b rfl
theorem atL_2 (a b c : Bytes) (l : List Bytes) : atL (a :: b :: c :: l) 2 = .ok c := atL_nat (a :: b :: c :: l) 2 c rfl
theorem atL_3 (a b c d : Bytes) (l : List Bytes) : atL (a :: b :: c :: d :: l) 3 = .ok d :=
  atL_nat (a :: b :: c :: d :: l) 3 d rfl

/-- The tail of the generated `NewCModes` once `strings.SplitN` has produced `l` (1 ≤ len ≤ 4). -/
theorem NewCModes_of_split (s p : Bytes) (l : List Bytes) (hs : splitN s [0x2C] 4 = .ok l) (h4 : l.length ≤ 4) :
    Fn.NewCModes s p = (do
      let l' := l ++ List.replicate (4 - l.length) []
      pure ({ raw := s, listArgs := (← atL l' 0), argsM := (← atL l' 1), setArgs := (← atL l' 2),
              noArgs := (← atL l' 3), prefixes := p, modes := [] } : CModes)) := by
  unfold Fn.NewCModes
  simp only [hs, bind, Except.bind, pure, Except.pure]
  by_cases hne : l.length = 4
  · have : (len l != 4) = false := by simp [len, hne]
    simp [this, hne]
  · have : (((l.length : Nat) : Int) != 4) = true := by
      simp only [bne_iff_ne, ne_eq]; omega
    have hl := NewCModes_loop1_eq (fuelTo (len l) 4) l h4 (by fuel_tac)
    simp only [len] at hl ⊢
    simp only [this, if_true, hl]

theorem NewCModes_eq (s p : Bytes) : Fn.NewCModes s p = .ok (newCModes s p) := by
  have hsp : splitN s [0x2C] 4 = .ok (splitNOn 0x2C 4 s) := by simp [splitN]
  unfold newCModes splitN4
  rw [splitOnByte_step 0x2C s]
  cases h1 : indexOf 0x2C s with
  | none =>
    have hl : splitNOn 0x2C 4 s = [s] := by simp [splitNOn, h1]
    rw [NewCModes_of_split s p [s] (hl ▸ hsp) (by simp)]
    simp [List.replicate, atL_0, atL_1, atL_2, atL_3, bind, Except.bind, pure, Except.pure]
  | some i1 =>
    simp only []
    rw [splitOnByte_step 0x2C (s.drop (i1 + 1))]
    cases h2 : indexOf 0x2C (s.drop (i1 + 1)) with
    | none =>
      have hl : splitNOn 0x2C 4 s = [s.take i1, s.drop (i1 + 1)] := by simp [splitNOn, h1, h2]
      rw [NewCModes_of_split s p _ (hl ▸ hsp) (by simp)]
      simp [List.replicate, atL_0, atL_1, atL_2, atL_3, bind, Except.bind, pure, Except.pure]
    | some i2 =>
      simp only []
      rw [splitOnByte_step 0x2C ((s.drop (i1 + 1)).drop (i2 + 1))]
      cases h3 : indexOf 0x2C ((s.drop (i1 + 1)).drop (i2 + 1)) with
      | none =>
        have hl : splitNOn 0x2C 4 s = [s.take i1, (s.drop (i1 + 1)).take i2, (s.drop (i1 + 1)).drop (i2 + 1)] := by
          simp [splitNOn, h1, h2, h3, -List.drop_drop]
        rw [NewCModes_of_split s p _ (hl ▸ hsp) (by simp)]
        simp [List.replicate, atL_0, atL_1, atL_2, atL_3, bind, Except.bind, pure, Except.pure]
      | some i3 =>
        have hl : splitNOn 0x2C 4 s = [s.take i1, (s.drop (i1 + 1)).take i2, ((s.drop (i1 + 1)).drop (i2 + 1)).take i3,
            ((s.drop (i1 + 1)).drop (i2 + 1)).drop (i3 + 1)] := by
          simp [splitNOn, h1, h2, h3, -List.drop_drop]
        rw [NewCModes_of_split s p _ (hl ▸ hsp) (by simp)]
        have hj := joinWith_splitOnByte 0x2C (((s.drop (i1 + 1)).drop (i2 + 1)).drop (i3 + 1))
        cases hps : splitOnByte 0x2C (((s.drop (i1 + 1)).drop (i2 + 1)).drop (i3 + 1)) with
        | nil => exact absurd hps (ParseLemmas.splitOnByte_ne_nil _ _)
        | cons q qs =>
          rw [hps] at hj
          simp only []
          rw [hps]
          simp [List.replicate, atL_0, atL_1, atL_2, atL_3, bind, Except.bind, pure, Except.pure, hj, -List.drop_drop]

end Girc.Proofs.Trans
