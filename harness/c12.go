package main

import (
	"bufio"
	"fmt"
	"net"
	"os"
	"os/exec"
	"path/filepath"
	"runtime"
	"strconv"
	"strings"
	"sync"
	"sync/atomic"
	"syscall"
	"time"

	"github.com/lrstanley/girc"
)

// ---- C12: instrumented stress under the race detector ----
//
// The parent (any build) re-executes the RACE-ENABLED harness binary (`corr_race -stress12 …`) with
// GORACE=log_path=…; the worker runs one scenario: an event stream (joins, parts, nick and mode changes,
// NAMES, CAP traffic) against concurrent readers of every getter, senders, registrars, handlers that call
// back into the client, and a closer. The parent collects the detector's reports (each one a violation with
// the report as the replay) and applies a watchdog (a worker that does not finish = a deadlock; its
// goroutine dump is the replay).

func stressLines(r *RNG, n int) []string {
	nicks := []string{"Bob", "carl", "D[ave]", "eve", "Zed"}
	chans := []string{"#a", "#B", "&c"}
	var out []string
	me := "me"
	out = append(out, ":srv 005 me PREFIX=(qaohv)~&@%+ CHANMODES=beI,k,l,imnpst NETWORK=Stress :are supported")
	for _, ch := range chans {
		out = append(out, fmt.Sprintf(":%s!u@h JOIN %s", me, ch), fmt.Sprintf(":srv 353 %s = %s :%s @Bob +carl D[ave]", me, ch, me), fmt.Sprintf(":srv 366 %s %s :End", me, ch))
	}
	for i := 0; i < n; i++ {
		nk := nicks[r.Intn(len(nicks))]
		ch := chans[r.Intn(len(chans))]
		switch r.Intn(14) {
		case 0:
			out = append(out, fmt.Sprintf(":%s!u@h JOIN %s", nk, ch))
		case 1:
			out = append(out, fmt.Sprintf(":%s!u@h PART %s", nk, ch))
		case 2:
			nn := nk + "_"
			out = append(out, fmt.Sprintf(":%s!u@h NICK %s", nk, nn), fmt.Sprintf(":%s!u@h NICK %s", nn, nk))
		case 3:
			out = append(out, fmt.Sprintf(":Bob!u@h MODE %s +o-v+k %s %s key", ch, nk, nk))
			// the same modes set again with other arguments (a mode list edited in place would be visible to snapshot readers)
			out = append(out, fmt.Sprintf(":Bob!u@h MODE %s +lk %d key%d", ch, 10+i%7, i%5), fmt.Sprintf(":srv 324 me %s +ntl %d", ch, 20+i%3))
		case 4:
			out = append(out, fmt.Sprintf(":srv 353 %s = %s :@%s +eve", me, ch, nk))
		case 5:
			out = append(out, ":srv CAP me NEW :away-notify extended-join", ":srv CAP me DEL :away-notify")
		case 6:
			out = append(out, ":srv CAP me ACK :multi-prefix account-tag")
		case 7:
			out = append(out, fmt.Sprintf(":%s!u@h PRIVMSG %s :hello %d", nk, ch, i))
		case 8:
			out = append(out, fmt.Sprintf(":%s!u@h QUIT :bye", nk))
		case 9:
			out = append(out, fmt.Sprintf(":%s!u@h TOPIC %s :topic %d", nk, ch, i))
		case 10:
			out = append(out, fmt.Sprintf("PING :p%d", i))
		case 11:
			out = append(out, fmt.Sprintf(":%s!u@h KICK %s %s :out", "Bob", ch, nk))
		case 12:
			out = append(out, fmt.Sprintf(":srv 354 me 1 %s u h %s acct :Real", ch, nk), fmt.Sprintf(":%s!u@h AWAY :gone", nk))
		default:
			out = append(out, fmt.Sprintf(":me!u@h NICK me%d", i%3), fmt.Sprintf(":me%d!u@h NICK me", i%3))
		}
	}
	return out
}

// stressWorkerMain runs inside the race-enabled binary.
func stressWorkerMain(args []string) {
	seed, _ := strconv.Atoi(args[0])
	procs, _ := strconv.Atoi(args[1])
	nLines, _ := strconv.Atoi(args[2])
	mode := args[3] // "stream" | "reconnect" | "handlers"
	runtime.GOMAXPROCS(procs)
	r := NewRNG(uint64(seed))
	c := girc.New(girc.Config{Server: "irc.example.org", Port: 6667, Nick: "me", User: "me", Name: "me", AllowFlood: true,
		RecoverFunc: func(c *girc.Client, e *girc.HandlerError) {}})
	var stop, sendersOff int32
	if mode == "stsack" || mode == "kept" {
		stop = 1 // a quiet scenario: only the library's own goroutines
	}
	var progress int64
	var wg sync.WaitGroup
	go func() { // heartbeat for the parent's watchdog: the scenario is alive as long as the STREAM moves (lines handed to the client)
		for {
			time.Sleep(500 * time.Millisecond)
			fmt.Printf("progress %d\n", atomic.LoadInt64(&progress))
		}
	}()
	spawn := func(f func(i int)) {
		wg.Add(1)
		go func() {
			defer wg.Done()
			for i := 0; atomic.LoadInt32(&stop) == 0; i++ {
				f(i)
				time.Sleep(time.Duration(50+i%7*30) * time.Microsecond) // yield: the point is interleaving, not starvation
			}
		}()
	}
	// handlers calling back into the client
	c.Handlers.Add(girc.ALL_EVENTS, func(c *girc.Client, e girc.Event) {
		_ = c.GetNick()
		if ch := c.LookupChannel("#a"); ch != nil {
			_ = ch.Modes.String()
			_ = ch.Len()
		}
	})
	c.Handlers.AddBg(girc.PRIVMSG, func(c *girc.Client, e girc.Event) {
		_ = c.ChannelList()
		if e.Source != nil {
			if u := c.LookupUser(e.Source.Name); u != nil {
				_, _ = u.Perms.Lookup("#a")
				_ = u.ChannelList
			}
		}
		c.Cmd.Notice("Bob", "seen")
	})
	c.Handlers.Add(girc.JOIN, func(c *girc.Client, e girc.Event) { c.Cmd.Who(e.Params[0]) })

	runConn := func(lines []string, closeMid bool) {
		atomic.StoreInt32(&sendersOff, 0)
		cli, srv := net.Pipe()
		done := make(chan error, 1)
		go func() { done <- c.MockConnect(cli) }()
		go func() { // the peer's reader
			rd := bufio.NewReader(srv)
			for {
				// only ever reads: a peer that stops reading while it writes would deadlock against the
				// client's bounded queues (sendLoop -> pipe -> this reader), which is the peer's fault
				_, err := rd.ReadString('\n')
				if err != nil {
					return
				}
			}
		}()
		srv.SetWriteDeadline(time.Now().Add(20 * time.Second))
		srv.Write([]byte(":srv 001 me :Welcome\r\n"))
		for i, l := range lines {
			if closeMid && i == len(lines)/2 {
				// (the senders pause first: once sendLoop has gone, every write on a FULL queue waits its whole 30 s —
				// O7, bounded but slow — and with 25 queued events still to be flushed the scenario would take minutes)
				atomic.StoreInt32(&sendersOff, 1)
				time.Sleep(2 * time.Millisecond)
				go c.Close()
			}
			if l == "SLEEP" {
				time.Sleep(100 * time.Millisecond)
				continue
			}
			srv.SetWriteDeadline(time.Now().Add(20 * time.Second))
			if _, err := srv.Write([]byte(l + "\r\n")); err != nil {
				break
			}
			atomic.AddInt64(&progress, 1)
		}
		if !closeMid {
			srv.SetWriteDeadline(time.Now().Add(5 * time.Second))
			srv.Write([]byte("PING :end\r\n"))
			atomic.StoreInt32(&sendersOff, 1) // see above
			time.Sleep(20 * time.Millisecond)
			c.Close()
		}
		<-done
		srv.Close()
	}

	// readers of every getter
	spawn(func(i int) {
		_ = c.GetNick()
		_ = c.GetID()
		_ = c.GetIdent()
		_ = c.GetHost()
		_ = c.ChannelList()
		_ = c.UserList()
		for _, ch := range c.Channels() {
			_ = ch.Modes.String()
			_ = ch.UserIn("bob")
			_ = ch.Users(c)
			_ = ch.Admins(c)
		}
		for _, u := range c.Users() {
			_, _ = u.Perms.Lookup("#a")
			_ = u.Channels(c)
			_ = u.InChannel("#a")
		}
	})
	spawn(func(i int) {
		_ = c.LookupChannel("#a")
		_ = c.LookupChannel("#B")
		_ = c.LookupUser("bob")
		_ = c.LookupUser("carl")
		_ = c.IsInChannel("#a")
		_, _ = c.GetServerOption("NETWORK")
		_, _ = c.GetServerOptionInt("NICKLEN")
		_ = c.MaxEventLength()
		_ = c.NetworkName()
		_ = c.ServerVersion()
		_ = c.ServerMOTD()
	})
	spawn(func(i int) {
		_ = c.Latency()
		_ = c.HasCapability("multi-prefix")
		_ = c.IsConnected()
		_, _ = c.Uptime()
		_, _ = c.ConnSince()
		_ = c.Server()
		_ = c.Lifetime()
		_ = c.String()
		_, _ = c.TLSConnectionState()
	})
	// senders
	spawn(func(i int) {
		if atomic.LoadInt32(&sendersOff) == 1 {
			return
		}
		if mode == "tags" {
			// events carrying message tags (sendLoop consults the enabled capabilities for each of them) at a pace that keeps
			// the send queue short: handleCAP answers under the state lock, and with a FULL queue and a tagged event at its head
			// both sides wait for write()'s 30-second timeout (bounded, allow-listed in Spec/LockPolicy.lean, not a deadlock)
			_ = c.Cmd.SendRaw("@+example/id=1 PRIVMSG #a :tagged")
			time.Sleep(time.Millisecond)
			return
		}
		switch i % 7 {
		case 6:
			c.Cmd.Whois("carl")
		case 0:
			c.Cmd.Message("#a", "hello there")
		case 1:
			c.Cmd.Join("#x", "#y")
		case 2:
			c.Cmd.Mode("#a", "+m")
		case 3:
			c.Cmd.Ping("x")
		case 4:
			c.Cmd.Action("#a", "waves")
		default:
			c.Cmd.Whois("bob")
		}
		time.Sleep(50 * time.Microsecond)
	})
	// registrars
	spawn(func(i int) {
		id := c.Handlers.Add(girc.PRIVMSG, func(c *girc.Client, e girc.Event) {})
		id2 := c.Handlers.AddBg("notice", func(c *girc.Client, e girc.Event) {})
		cuid, _ := c.Handlers.AddTmp(girc.PRIVMSG, 2*time.Millisecond, func(c *girc.Client, e girc.Event) bool { return i%2 == 0 })
		_ = c.Handlers.Len()
		_ = c.Handlers.Count(girc.PRIVMSG)
		_ = c.Handlers.String()
		c.CTCP.Set("STRESS", func(c *girc.Client, ev girc.CTCPEvent) {})
		c.Handlers.Remove(id)
		c.Handlers.Remove(id2)
		if i%3 == 0 {
			c.Handlers.Remove(cuid)
		}
		if i%5 == 0 {
			c.Handlers.Clear("INVITE")
			c.CTCP.Clear("STRESS")
		}
		time.Sleep(30 * time.Microsecond)
	})

	switch mode {
	case "connected":
		// the background 001 handler announces CONNECTED two seconds after the welcome (reading the server
		// address, which depends on the STS policy) while CAP traffic that updates the policy keeps arriving
		var lines []string
		for i := 0; i < 26; i++ {
			lines = append(lines, "SLEEP", ":srv CAP me LS :sts=duration=1000,port=6697 multi-prefix", fmt.Sprintf(":Bob!u@h PRIVMSG me :\x01FINGER\x01"), ":srv CAP me NEW :sts=duration=2000,port=6698")
		}
		runConn(lines, false)
	case "stsack":
		// an STS policy is acknowledged on a plaintext connection (handleCAP stores the port and closes to
		// upgrade) while the background 001 handler is still due to read the server address
		cli, srv := net.Pipe()
		done := make(chan error, 1)
		go func() { done <- c.MockConnect(cli) }()
		go func() {
			rd := bufio.NewReader(srv)
			for {
				if _, err := rd.ReadString('\n'); err != nil {
					return
				}
			}
		}()
		for _, l := range []string{":srv 001 me :Welcome", ":srv CAP me LS :sts=duration=1000,port=6697", "SLEEP", ":srv CAP me ACK :sts"} {
			if l == "SLEEP" {
				time.Sleep(2100 * time.Millisecond) // the CONNECTED announcement has just read the policy
				continue
			}
			srv.SetWriteDeadline(time.Now().Add(2 * time.Second))
			srv.Write([]byte(l + "\r\n"))
			time.Sleep(20 * time.Millisecond)
		}
		select {
		case <-done:
		case <-time.After(3 * time.Second):
		}
		time.Sleep(100 * time.Millisecond)
		srv.Close()
		c.Close()
	case "kept":
		// what a getter handed out belongs to the caller: a goroutine obtains the pointer-valued results as soon as the socket is up
		// (before the welcome), keeps them and goes on reading through them while registration completes and traffic flows
		cli, srv := net.Pipe()
		done := make(chan error, 1)
		go func() { done <- c.MockConnect(cli) }()
		go func() {
			rd := bufio.NewReader(srv)
			for {
				if _, err := rd.ReadString('\n'); err != nil {
					return
				}
			}
		}()
		var up *time.Time
		for i := 0; i < 3000 && up == nil; i++ {
			if u, err := c.Uptime(); err == nil && u != nil {
				up = u
			} else {
				time.Sleep(time.Millisecond)
			}
		}
		var first time.Time
		if up != nil {
			first = *up
		}
		var changed int32
		quit := make(chan struct{})
		var rwg sync.WaitGroup
		rwg.Add(1)
		go func() {
			defer rwg.Done()
			for {
				select {
				case <-quit:
					return
				default:
				}
				if up != nil && !up.Equal(first) {
					atomic.StoreInt32(&changed, 1)
				}
				time.Sleep(200 * time.Microsecond)
			}
		}()
		for _, l := range []string{":srv 001 me :Welcome", ":srv 005 me NETWORK=x :are supported by this server", ":me!u@h JOIN #a", ":srv 353 me = #a :me @bob", "PING :kept"} {
			srv.SetWriteDeadline(time.Now().Add(2 * time.Second))
			srv.Write([]byte(l + "\r\n"))
			time.Sleep(30 * time.Millisecond)
			atomic.AddInt64(&progress, 1)
		}
		time.Sleep(100 * time.Millisecond)
		close(quit)
		rwg.Wait()
		if up == nil {
			fmt.Println("violation: Uptime() never succeeded on an established connection")
		}
		if atomic.LoadInt32(&changed) == 1 {
			fmt.Println("violation: the time.Time that Uptime() handed out changed under the caller while the connection went on")
		}
		c.Close()
		select {
		case <-done:
		case <-time.After(3 * time.Second):
		}
		srv.Close()
	case "tags":
		// message-tags switched on and off by the server while tagged events are being written
		var lines []string
		for i := 0; i < nLines/2; i++ {
			lines = append(lines, ":srv CAP me ACK :message-tags", fmt.Sprintf(":Bob!u@h PRIVMSG #a :between %d", i), ":srv CAP me DEL :message-tags")
		}
		runConn(lines, false)
	case "reconnect":
		for k := 0; k < 3; k++ {
			runConn(stressLines(r, nLines/3), k == 1)
		}
	default:
		runConn(stressLines(r, nLines), mode == "closemid")
	}
	atomic.StoreInt32(&stop, 1)
	wg.Wait()
	fmt.Println("stress-done")
}

func raceBinary() string { return filepath.Join(verifDir, ".bin", "corr_race") }

func init() {
	props["C12"] = runC12
	runners["stress12"] = func(c *Ctx, in map[string]string) {
		hin := hexIn(in)
		if c.Wedges >= 2 {
			return // two scenarios have already stalled (reported); each further one would cost another watchdog period
		}
		dir, err := os.MkdirTemp("", "race12-")
		if err != nil {
			c.R.Mismatch("stress.tmp", hin, err.Error(), "")
			return
		}
		defer os.RemoveAll(dir)
		cmd := exec.Command(raceBinary(), "-stress12", in["seed"]+","+in["procs"]+","+in["lines"]+","+in["mode"])
		cmd.Env = append(os.Environ(), "GORACE=log_path="+filepath.Join(dir, "race")+" halt_on_error=0 exitcode=0 history_size=3")
		var sbMu sync.Mutex
		var sb strings.Builder
		pr, pw, _ := os.Pipe()
		cmd.Stdout = pw
		cmd.Stderr = pw
		if err := cmd.Start(); err != nil {
			c.R.Mismatch("stress.start", hin, err.Error(), "is .bin/corr_race built? (./check C12 builds it)")
			return
		}
		pw.Close()
		var lastProgress atomic.Value
		lastProgress.Store(time.Now())
		go func() {
			rd := bufio.NewReader(pr)
			prev := ""
			for {
				l, err := rd.ReadString('\n')
				if strings.HasPrefix(l, "progress ") {
					if l != prev {
						lastProgress.Store(time.Now())
						prev = l
					}
				} else if l != "" {
					sbMu.Lock()
					sb.WriteString(l)
					sbMu.Unlock()
					lastProgress.Store(time.Now())
				}
				if err != nil {
					return
				}
			}
		}()
		done := make(chan error, 1)
		go func() { done <- cmd.Wait() }()
		var werr error
		start := time.Now()
	wait:
		for {
			select {
			case werr = <-done:
				break wait
			case <-time.After(time.Second):
				stalled := time.Since(lastProgress.Load().(time.Time)) > 100*time.Second // (a write on a full queue after sendLoop has gone waits its full 30 s, several times over: O7)
				if stalled || time.Since(start) > 240*time.Second {
					// watchdog: nothing has moved for 100 s (or the scenario takes absurdly long): dump goroutines, then kill
					cmd.Process.Signal(syscall.SIGQUIT)
					select {
					case <-done:
					case <-time.After(5 * time.Second):
						cmd.Process.Kill()
						<-done
					}
					time.Sleep(100 * time.Millisecond)
					sbMu.Lock()
					out := sb.String()
					sbMu.Unlock()
					c.Wedges++
					c.R.Violation("stress12.deadlock", hin, tailStr(out, 8000), "", fmt.Sprintf("the stress scenario stopped making progress (stalled=%v, %.0f s): some goroutine blocks forever (goroutine dump attached)", stalled, time.Since(start).Seconds()))
					return
				}
			}
		}
		time.Sleep(50 * time.Millisecond)
		sbMu.Lock()
		out := sb.String()
		sbMu.Unlock()
		if !strings.Contains(out, "stress-done") {
			c.R.Violation("stress12.crash", hin, fmt.Sprintf("%v: %s", werr, tailStr(out, 4000)), "", "the stress scenario crashed")
			return
		}
		for _, l := range strings.Split(out, "\n") {
			if strings.HasPrefix(l, "violation: ") {
				c.R.Violation("stress12.kept_result", hin, strings.TrimPrefix(l, "violation: "), "", "a value handed out by a getter was modified by the library afterwards (shared memory the caller reads without any lock)")
				return
			}
		}
		files, _ := filepath.Glob(filepath.Join(dir, "race*"))
		for _, f := range files {
			b, _ := os.ReadFile(f)
			rep := string(b)
			if strings.Contains(rep, "DATA RACE") {
				// only races that involve library code count (the harness's own handlers are trivial)
				first := rep
				if i := strings.Index(rep[10:], "=================="); i > 0 {
					first = rep[:i+10]
				}
				c.R.Violation("stress12.race", hin, tailStr(first, 5000), "", "the race detector reported a data race during concurrent use of the documented API")
				return
			}
		}
		c.R.Count(in["seed"]+"/"+in["procs"]+"/"+in["mode"], true, "procs="+in["procs"], "mode="+in["mode"])
	}
}

func tailStr(s string, n int) string {
	if len(s) <= n {
		return s
	}
	return s[:n/2] + "\n…\n" + s[len(s)-n/2:]
}

func runC12(c *Ctx) {
	c.R.Rule = "race-detector-instrumented stress (worker = the harness built with -race): an event stream of joins, parts, nick/mode changes, NAMES, CAP NEW/DEL/ACK, KICK/QUIT/TOPIC/WHOX/AWAY and own-nick changes against concurrent readers of every getter (and of the snapshots' methods), senders, registrars (Add/AddBg/AddTmp/Remove/Clear/Count/Len, CTCP.Set/Clear), handlers that call back into the client, and a closer (at the end, mid-stream, and across three reconnects), under GOMAXPROCS 1/2/16; a detector report or a watchdog timeout is a violation; non-trivial = every scenario"
	n := 0
	// the deterministic callback scenarios first (they are quick and name the blocked call), then the stress
	for _, ev := range []string{"CTCP", "HANDLERS", "CTCPDEFAULTS", "RECONNECTPOLL", girc.STS_ERR_FALLBACK, girc.INITIALIZED, girc.DISCONNECTED} {
		c.run("callback12", map[string]string{"event": ev})
		n++
	}
	c.run("stress12", map[string]string{"seed": "1", "procs": "4", "lines": "0", "mode": "connected"})
	c.run("stress12", map[string]string{"seed": "1", "procs": "4", "lines": "0", "mode": "stsack"})
	c.run("stress12", map[string]string{"seed": "1", "procs": "4", "lines": "120", "mode": "tags"})
	c.run("stress12", map[string]string{"seed": "1", "procs": "4", "lines": "0", "mode": "kept"})
	n += 4
	for _, mode := range []string{"stream", "closemid", "reconnect"} {
		for _, procs := range []string{"1", "2", "16"} {
			if c.Scale == 1 && (mode == "reconnect" && procs != "16" || mode == "closemid" && procs == "2") {
				continue // the quick tier runs 6 of the 9 combinations
			}
			for k := 0; k < c.Scale; k++ {
				lines := 160
				if c.Scale > 1 {
					lines = 600
				}
				c.run("stress12", map[string]string{"seed": fmt.Sprint(c.Rng.Intn(1 << 30)), "procs": procs, "lines": fmt.Sprint(lines), "mode": mode})
				n++
				if c.Scale > 1 && k >= 2 {
					break
				}
			}
		}
	}
	c.R.Traces = n
}

// ---- handlers calling back into the client from every lifecycle event the library emits ----
//
// A handler for any event — including the ones emitted from internalConnect itself — may call the
// concurrent-safe API; none of those calls may block forever.
func init() {
	runners["callback12"] = func(c *Ctx, in map[string]string) {
		hin := hexIn(in)
		cfg := girc.Config{Server: "irc.example.org", Port: 6667, Nick: "me", User: "me", TLSConfig: nil}
		cl := girc.New(cfg)
		seen := int32(0)
		cl.Handlers.Add(girc.ALL_EVENTS, func(c *girc.Client, e girc.Event) {
			if e.Command == in["event"] {
				atomic.AddInt32(&seen, 1)
			}
			_ = c.IsConnected()
			_ = c.GetNick()
			_ = c.Server()
			_ = c.Latency()
			c.Cmd.Ping("x")
		})
		var r1 string
		if in["event"] == "CTCP" {
			// a CTCP handler that (re)registers CTCP handlers: the dispatcher must not hold the table's lock while it runs
			cl.CTCP.Set("CALLBACK", func(c *girc.Client, ev girc.CTCPEvent) {
				atomic.AddInt32(&seen, 1)
				c.CTCP.Set("OTHER", func(c *girc.Client, ev girc.CTCPEvent) {})
				c.CTCP.Clear("OTHER")
			})
			d, err := newDispClientFor(cl)
			if err != nil {
				c.R.Mismatch("callback12.setup", hin, err.Error(), "")
				return
			}
			d.send(":bob!b@h PRIVMSG me :\x01CALLBACK\x01")
			ok := d.barrier("afterctcp")
			go d.close()
			if !ok {
				c.R.Violation("callback12.deadlock", hin, "no PONG after a CTCP request whose handler calls CTCP.Set/Clear: the client stopped processing events", "", "handlers may call back into the client; none blocks forever")
				return
			}
			if atomic.LoadInt32(&seen) == 0 {
				c.R.Mismatch("callback12.not_emitted", hin, "the CTCP handler was not invoked", "")
			}
			c.R.Count("callback/CTCP", true, "callback")
			return
		}
		if in["event"] == "CTCPDEFAULTS" {
			// the library's own CTCP repliers run in their own goroutines and answer through the flood-limited Send: with flood
			// protection ON (the default) none of them may keep a lock that Send, the queries or the teardown need
			cl4 := girc.New(girc.Config{Server: "irc.example.org", Port: 6667, Nick: "me", User: "me", Name: "me"})
			d, err := newDispClientFor(cl4)
			if err != nil {
				c.R.Mismatch("callback12.setup", hin, err.Error(), "")
				return
			}
			for _, q := range []string{"FINGER", "VERSION", "TIME", "PING 1", "SOURCE", "FINGER"} {
				d.send(":bob!b@h PRIVMSG me :\x01" + q + "\x01")
			}
			ok := d.barrier("afterctcp")
			time.Sleep(50 * time.Millisecond)
			probe := make(chan struct{})
			go func() {
				_ = cl4.IsConnected()
				_ = cl4.Latency()
				cl4.Cmd.Ping("probe")
				close(probe)
			}()
			stuck := ""
			select {
			case <-probe:
			case <-time.After(3 * time.Second):
				stuck = "IsConnected()/Latency()/Cmd.Ping blocked after the default CTCP repliers ran"
			}
			closed := make(chan struct{})
			go func() { d.close(); close(closed) }()
			select {
			case <-closed:
			case <-time.After(8 * time.Second):
				stuck += "; Close()/Connect teardown did not finish"
			}
			if !ok || stuck != "" {
				c.R.Violation("callback12.deadlock", hin, fmt.Sprintf("barrier answered=%v %s", ok, stuck), "", "the library's CTCP repliers answer requests while holding nothing that Send, the queries or the teardown need; none blocks forever")
				return
			}
			c.R.Count("callback/CTCPDEFAULTS", true, "callback")
			return
		}
		if in["event"] == "RECONNECTPOLL" {
			// goroutines polling every read-only query while the application keeps (re)connecting against a dialer that
			// refuses: connection setup takes Client.mu and resets the state under it, so no query may take these two
			// locks in the opposite order
			cl3 := girc.New(girc.Config{Server: "irc.example.org", Port: 6667, Nick: "me", User: "me", Name: "me"})
			var stop int32
			var progress [7]int64
			var wg sync.WaitGroup
			refuse := &scriptDialer{}
			wg.Add(1)
			go func() {
				defer wg.Done()
				for atomic.LoadInt32(&stop) == 0 {
					_ = cl3.DialerConnect(refuse)
					atomic.AddInt64(&progress[0], 1)
				}
			}()
			for p := 1; p <= 6; p++ {
				wg.Add(1)
				go func(p int) {
					defer wg.Done()
					for atomic.LoadInt32(&stop) == 0 {
						_ = cl3.HasCapability("multi-prefix")
						_ = cl3.IsConnected()
						_ = cl3.GetNick()
						_ = cl3.GetID()
						_ = cl3.Server()
						_ = cl3.MaxEventLength()
						_ = cl3.ChannelList()
						_ = cl3.IsInChannel("#a")
						_ = cl3.Latency()
						_, _ = cl3.GetServerOption("NETWORK")
						_ = cl3.NetworkName()
						atomic.AddInt64(&progress[p], 1)
					}
				}(p)
			}
			time.Sleep(1200 * time.Millisecond)
			var before [7]int64
			for i := range progress {
				before[i] = atomic.LoadInt64(&progress[i])
			}
			time.Sleep(400 * time.Millisecond)
			stuck := []int{}
			for i := range progress {
				if atomic.LoadInt64(&progress[i]) == before[i] {
					stuck = append(stuck, i)
				}
			}
			atomic.StoreInt32(&stop, 1)
			done := make(chan struct{})
			go func() { wg.Wait(); close(done) }()
			select {
			case <-done:
			case <-time.After(5 * time.Second):
				c.R.Violation("callback12.deadlock", hin, fmt.Sprintf("goroutines %v (0 = the reconnect loop, 1-6 = pollers of HasCapability/IsConnected/GetNick/…) made no progress and never returned", stuck), "",
					"any number of goroutines may call the concurrent-safe queries while the client (re)connects; none blocks forever")
				return
			}
			c.R.Count("callback/RECONNECTPOLL", true, "callback")
			return
		}
		if in["event"] == "HANDLERS" {
			// a foreground handler that registers and removes handlers itself (the usual way to chain requests): the
			// dispatcher must not hold the handler table's lock while handlers run
			cl2 := girc.New(girc.Config{Server: "irc.example.org", Port: 6667, Nick: "me", User: "me", Name: "me", AllowFlood: true})
			var ran int32
			cl2.Handlers.Add(girc.PRIVMSG, func(c *girc.Client, e girc.Event) {
				id := c.Handlers.Add(girc.NOTICE, func(c *girc.Client, e girc.Event) {})
				c.Handlers.AddBg(girc.INVITE, func(c *girc.Client, e girc.Event) {})
				cuid, _ := c.Handlers.AddTmp(girc.NOTICE, 0, func(c *girc.Client, e girc.Event) bool { return true })
				c.Handlers.Remove(id)
				c.Handlers.Remove(cuid)
				c.Handlers.Clear(girc.INVITE)
				_ = c.Handlers.Len()
				atomic.AddInt32(&ran, 1)
			})
			d, err := newDispClientFor(cl2)
			if err != nil {
				c.R.Mismatch("callback12.setup", hin, err.Error(), "")
				return
			}
			d.send(":bob!b@h PRIVMSG me :go")
			ok := d.barrier("afterhandlers")
			go d.close()
			if !ok || atomic.LoadInt32(&ran) == 0 {
				c.R.Violation("callback12.deadlock", hin, fmt.Sprintf("no PONG after a PRIVMSG whose foreground handler calls Handlers.Add/AddBg/AddTmp/Remove/Clear (handler finished: %v): the client stopped processing events", atomic.LoadInt32(&ran) > 0), "", "handlers may call back into the client; none blocks forever")
				return
			}
			c.R.Count("callback/HANDLERS", true, "callback")
			return
		}
		switch in["event"] {
		case girc.STS_ERR_FALLBACK:
			// a stored, expired policy and a failing dial: the library falls back and says so
			girc.VerifSetSTS(cl, 6697, 1, 100*time.Second, -1)
			d := &scriptDialer{peers: []*peerScript{newPeer("fail")}}
			r1 = connectWithTimeout(cl, d)
		default:
			d := &scriptDialer{peers: []*peerScript{newPeer("sniff")}}
			r1 = connectWithTimeout(cl, d)
		}
		if r1 == "timeout" {
			c.R.Violation("callback12.deadlock", hin, "Connect did not return: a handler for "+in["event"]+" that calls IsConnected()/GetNick()/Server()/Latency()/Cmd.Ping blocks forever", "", "handlers may call back into the client; none blocks forever")
			return
		}
		if atomic.LoadInt32(&seen) == 0 {
			c.R.Mismatch("callback12.not_emitted", hin, "the scenario did not emit "+in["event"]+" (result "+r1+")", "")
		}
		c.R.Count("callback/"+in["event"], true, "callback")
	}
}
