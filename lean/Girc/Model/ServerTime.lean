import Girc.Base.Bytes
/-
  Model of the one use of `time.Parse` in girc: `time.Parse("2006-01-02T15:04:05.999Z", v)` on the value of
  the IRCv3 `time` tag (event.go ParseEvent). The layout is fixed, so the parser is modelled for this
  layout only, following time/format.go chunk by chunk:
    "2006" exactly four digits · "-" · "01" exactly two digits · "-" · "02" exactly two digits · "T" ·
    "15" ONE OR two digits (getnum with fixed=false) · ":" · "04" two digits · ":" · "05" two digits ·
    ".999" an OPTIONAL fraction: '.' or ',' followed by at least one digit, any number of digits, the first
    nine are significant · "Z" literal · nothing after it;
  then range checks (month 1..12, day 1..daysIn(month, year), hour < 24, minute < 60, second < 60).
  The result is the UTC instant as (seconds since 1970-01-01T00:00:00Z, nanoseconds).
-/
namespace Girc.Model.ServerTime
open Girc

def isDigit (b : Byte) : Bool := 0x30 ≤ b && b ≤ 0x39
def dval (b : Byte) : Nat := b.toNat - 0x30

/-- exactly `n` digits -/
def digitsN : Nat → Bytes → Option (Nat × Bytes)
  | 0, s => some (0, s)
  | n + 1, s =>
    match digitsN n s with
    | some (v, b :: rest) => if isDigit b then some (v * 10 + dval b, rest) else none
    | _ => none

/-- `getnum(s, false)`: one digit, or two if the second byte is a digit too -/
def digits12 : Bytes → Option (Nat × Bytes)
  | a :: b :: rest => if !isDigit a then none else if isDigit b then some (dval a * 10 + dval b, rest) else some (dval a, b :: rest)
  | [a] => if isDigit a then some (dval a, []) else none
  | [] => none

def lit (c : Byte) : Bytes → Option Bytes
  | b :: rest => if b = c then some rest else none
  | [] => none

/-- the optional fraction: (nanoseconds, rest) -/
def fraction (s : Bytes) : Nat × Bytes :=
  match s with
  | sep :: d :: rest =>
    if (sep = 0x2E || sep = 0x2C) && isDigit d then
      let ds := (d :: rest).takeWhile isDigit
      let sig := ds.take 9
      let v := sig.foldl (fun acc b => acc * 10 + dval b) 0
      (v * 10 ^ (9 - sig.length), (d :: rest).dropWhile isDigit)
    else (0, s)
  | _ => (0, s)

def isLeap (y : Nat) : Bool := y % 4 = 0 && (y % 100 ≠ 0 || y % 400 = 0)

def daysIn (m y : Nat) : Nat :=
  if m = 2 then (if isLeap y then 29 else 28)
  else if m = 4 || m = 6 || m = 9 || m = 11 then 30 else 31

structure Civil where
  year : Nat
  month : Nat
  day : Nat
  hour : Nat
  minute : Nat
  second : Nat
  nanos : Nat
  deriving DecidableEq, Repr

def Civil.valid (c : Civil) : Bool :=
  c.year ≤ 9999 && 1 ≤ c.month && c.month ≤ 12 && 1 ≤ c.day && c.day ≤ daysIn c.month c.year &&
  c.hour < 24 && c.minute < 60 && c.second < 60 && c.nanos < 1000000000

/-- the fields, before the range checks -/
def parseFields (s : Bytes) : Option Civil := do
  let (y, s) ← digitsN 4 s
  let s ← lit 0x2D s
  let (mo, s) ← digitsN 2 s
  let s ← lit 0x2D s
  let (d, s) ← digitsN 2 s
  let s ← lit 0x54 s
  let (h, s) ← digits12 s
  let s ← lit 0x3A s
  let (mi, s) ← digitsN 2 s
  let s ← lit 0x3A s
  let (sec, s) ← digitsN 2 s
  let (ns, s) := fraction s
  let s ← lit 0x5A s
  if s.isEmpty then some ⟨y, mo, d, h, mi, sec, ns⟩ else none

/-- `time.Parse(capServerTimeFormat, v)`: `none` = an error (the event keeps its local receive time). -/
def parse (s : Bytes) : Option Civil :=
  match parseFields s with
  | some c => if c.valid then some c else none
  | none => none

/-- days from 0000-03-01 to y-m-d in the proleptic Gregorian calendar (Hinnant's days_from_civil,
    shifted), then to the Unix epoch. -/
def daysFromCivil (y m d : Nat) : Int :=
  let y' : Int := if m ≤ 2 then (y : Int) - 1 else y
  let era : Int := (if y' ≥ 0 then y' else y' - 399) / 400
  let yoe : Int := y' - era * 400
  let mp : Int := ((m : Int) + 9) % 12
  let doy : Int := (153 * mp + 2) / 5 + (d : Int) - 1
  let doe : Int := yoe * 365 + yoe / 4 - yoe / 100 + doy
  era * 146097 + doe - 719468

def Civil.unixSeconds (c : Civil) : Int :=
  daysFromCivil c.year c.month c.day * 86400 + (c.hour : Int) * 3600 + (c.minute : Int) * 60 + c.second

/-! ### the IRCv3 server-time format: YYYY-MM-DDThh:mm:ss.sssZ -/

def pad (n width : Nat) : Bytes :=
  (List.range width).reverse.map fun i => (0x30 + ((n / 10 ^ i) % 10)).toUInt8

def render (c : Civil) : Bytes :=
  pad c.year 4 ++ [0x2D] ++ pad c.month 2 ++ [0x2D] ++ pad c.day 2 ++ [0x54] ++ pad c.hour 2 ++ [0x3A] ++
  pad c.minute 2 ++ [0x3A] ++ pad c.second 2 ++ [0x2E] ++ pad (c.nanos / 1000000) 3 ++ [0x5A]

end Girc.Model.ServerTime
