import Girc.Base.Bytes
/-
  Go's UTF-8 decoder (unicode/utf8): a byte sequence at the head is a valid encoding iff it
  falls in the accept ranges below (no overlongs, no surrogates, ≤ U+10FFFF); otherwise the
  head byte is an "invalid byte" of width 1.
-/
namespace Girc

def isCont (b : Byte) : Bool := 0x80 ≤ b && b ≤ 0xBF

/-- Width of the valid UTF-8 encoding at the head of `s`, or `none` (invalid byte / empty). -/
def utf8Width : Bytes → Option Nat
  | [] => none
  | b0 :: rest =>
    if b0 < 0x80 then some 1
    else if 0xC2 ≤ b0 && b0 ≤ 0xDF then
      match rest with
      | b1 :: _ => if isCont b1 then some 2 else none
      | _ => none
    else if 0xE0 ≤ b0 && b0 ≤ 0xEF then
      match rest with
      | b1 :: b2 :: _ =>
        let lo : Byte := if b0 = 0xE0 then 0xA0 else 0x80
        let hi : Byte := if b0 = 0xED then 0x9F else 0xBF
        if lo ≤ b1 && b1 ≤ hi && isCont b2 then some 3 else none
      | _ => none
    else if 0xF0 ≤ b0 && b0 ≤ 0xF4 then
      match rest with
      | b1 :: b2 :: b3 :: _ =>
        let lo : Byte := if b0 = 0xF0 then 0x90 else 0x80
        let hi : Byte := if b0 = 0xF4 then 0x8F else 0xBF
        if lo ≤ b1 && b1 ≤ hi && isCont b2 && isCont b3 then some 4 else none
      | _ => none
    else none

/-- `utf8.Valid`, with fuel (`s.length` always suffices). -/
def validUTF8Fuel : Nat → Bytes → Bool
  | _, [] => true
  | 0, _ => false
  | n + 1, s =>
    match utf8Width s with
    | none => false
    | some w => validUTF8Fuel n (s.drop w)

def validUTF8 (s : Bytes) : Bool := validUTF8Fuel s.length s

/-- `strings.ToValidUTF8(s, repl)` / `bytes.ToValidUTF8`: every maximal run of invalid bytes is
    replaced by one copy of `repl`. `inRun` = the previous byte was invalid. -/
def toValidUTF8Fuel (repl : Bytes) : Nat → Bool → Bytes → Bytes
  | _, _, [] => []
  | 0, _, _ => []
  | n + 1, inRun, b :: rest =>
    match utf8Width (b :: rest) with
    | some w => (b :: rest).take w ++ toValidUTF8Fuel repl n false ((b :: rest).drop w)
    | none => (if inRun then [] else repl) ++ toValidUTF8Fuel repl n true rest

def toValidUTF8 (repl : Bytes) (s : Bytes) : Bytes := toValidUTF8Fuel repl s.length false s

/-- `utf8.RuneCountInString`: invalid bytes count as one rune each. -/
def runeCountFuel : Nat → Bytes → Nat
  | _, [] => 0
  | 0, _ => 0
  | n + 1, b :: rest =>
    match utf8Width (b :: rest) with
    | some w => 1 + runeCountFuel n ((b :: rest).drop w)
    | none => 1 + runeCountFuel n rest

def runeCount (s : Bytes) : Nat := runeCountFuel s.length s

end Girc
