import Girc.Model.Event
/-
  C01 / C03 specification predicates over events (all decidable `Bool`s).
-/
namespace Girc.Spec
open Girc Girc.Model

/-- A field "free of CR/LF/NUL" and valid UTF-8. -/
def fieldOK (s : Bytes) : Bool := validUTF8 s && s.all (fun b => b != NUL && b != CR && b != LF)

/-- A command token as serialised: printable ASCII without lower-case letters (the parser upper-cases),
    non-empty, not starting with ':' or '@'. -/
def wfCmd (c : Bytes) : Bool :=
  !c.isEmpty && c.all (fun b => 0x21 ≤ b && b ≤ 0x7E && !(0x61 ≤ b && b ≤ 0x7A)) &&
  c.head? != some COLON && c.head? != some AT

/-- A middle parameter: non-empty, no SPACE, not ':'-leading. -/
def wfMid (p : Bytes) : Bool := fieldOK p && !p.isEmpty && !p.contains SP && p.head? != some COLON

/-- Middles, then an arbitrary final parameter. -/
def wfParams : List Bytes → Bool
  | [] => true
  | [p] => fieldOK p
  | p :: ps => wfMid p && wfParams ps

def wfSrcPart (s : Bytes) : Bool := fieldOK s && s.all (fun b => b != BANG && b != AT && b != SP)

def wfSource (s : Source) : Bool :=
  !s.name.isEmpty && wfSrcPart s.name && wfSrcPart s.ident && wfSrcPart s.host

/-- What the wire needs of a stored (escaped) tag value. Everything `Tags.Set` stores satisfies it
    (`validTagValue_wireSafe`), and so does every grammatical escaped value that is valid UTF-8. -/
def wireSafeValue (v : Bytes) : Bool :=
  validUTF8 v && v.all (fun b => b != NUL && b != CR && b != LF && b != SP && b != 0x3B)

def tagItem (k v : Bytes) : Bytes := k ++ (if v.length > 0 then 0x3D :: v else [])

/-- The tag section without any truncation. -/
def tagsBytesFull (t : Tags) : Bytes :=
  0x40 :: joinWith [0x3B] ((sortBytes (AMap.keys t)).map fun k => tagItem k ((AMap.get? t k).getD []))

def nodupB : List Bytes → Bool
  | [] => true
  | x :: xs => !xs.contains x && nodupB xs

/-- A tag map as the tag API builds it: distinct valid keys, wire-safe values, and the section fits. -/
def wfTags (t : Tags) : Bool :=
  nodupB (AMap.keys t) && t.all (fun p => validTag p.1 && wireSafeValue p.2) &&
  (t.isEmpty || (tagsBytesFull t).length ≤ maxTagLength)

/-- C01's well-formed event. -/
def WFEvent (e : Event) : Bool :=
  wfCmd e.command && wfParams e.params && e.source.all wfSource && e.tags.all wfTags &&
  decide (2 ≤ (rawBytes e).length)

/-- Same observable content: command, params, source, and every stored tag value. -/
def EventEquiv (a b : Event) : Prop :=
  a.command = b.command ∧ a.params = b.params ∧ a.source = b.source ∧
  ∀ k, AMap.get? (a.tags.getD []) k = AMap.get? (b.tags.getD []) k

/-! ### C03 -/

/-- Every field is valid UTF-8 and free of CR/LF. -/
def cleanField (s : Bytes) : Bool := validUTF8 s && s.all (fun b => b != CR && b != LF)

def cleanEvent (e : Event) : Bool :=
  cleanField e.command && e.params.all cleanField &&
  e.source.all (fun s => cleanField s.name && cleanField s.ident && cleanField s.host) &&
  e.tags.all (fun t => t.all (fun p => cleanField p.1 && cleanField p.2))

/-- "A single-token command": non-empty, valid UTF-8, no SPACE/CR/LF, not ':'/'@'-leading. -/
def singleToken (c : Bytes) : Bool :=
  !c.isEmpty && validUTF8 c && c.all (fun b => b != SP && b != CR && b != LF) &&
  c.head? != some COLON && c.head? != some AT

def noSpace (s : Bytes) : Bool := !s.contains SP

/-- The command of a wire line as the grammar reads it: skip an `@tags ` section, skip a `:prefix `
    section, then the bytes up to the next SPACE. -/
def skipSection (lead : Byte) (line : Bytes) : Bytes :=
  if line.head? = some lead then (line.dropWhile (· != SP)).drop 1 else line

def lineCommand (line : Bytes) : Bytes :=
  (skipSection COLON (skipSection AT line)).takeWhile (· != SP)

end Girc.Spec
