import Girc.Proofs.ProtocolA
import Girc.Proofs.InvHandlers
import Girc.Gen.Skel
import Girc.Spec.Skeletons
/- C17 — PING is answered, nick collisions are retried. Property theorems only. -/
namespace Girc.Props.C17
open Girc Girc.Model Girc.Spec
open Girc.Proofs.ProtocolA

/-- The keep-alive helpers go through `write` (never through `Send`, i.e. never through the flood
    limiter), and the PING handler calls `Cmd.Pong` with the last parameter: the code the model's
    `Out.write` stands for is the code in the tree (regenerated on every run). -/
theorem skel_keepalive : Gen.skel_Cmd_Pong = Spec.Skel.skel_Cmd_Pong ∧ Gen.skel_Cmd_Ping = Spec.Skel.skel_Cmd_Ping ∧
    Gen.skel_handlePING = Spec.Skel.skel_handlePING := by decide +kernel

/-- For every PING — any token, any state, tracking on or off — the client writes exactly one PONG
    with the same token, through `write` (never through the flood limiter). -/
theorem pong_exact (cfg : Cfg) (cs : CState) (e : Event) (time idle : Bytes) (hp : e.command = cPING) :
    ∃ cs', handleEvent cfg cs e time idle = .ok (cs', [Out.write { command := cPONG, params := [e.last] }]) :=
  Proofs.InvHandlers.ping_answered cfg cs e time idle hp

/-- A PONG carrying any clean token (with or without spaces, empty, colon-leading) parses back to
    exactly that token on the server side. -/
theorem pong_wire (tok : Bytes) (h : fieldOK tok = true) :
    ∃ e', parseEvent (eventBytes { command := cPONG, params := [tok] }) = some e' ∧
      e'.command = cPONG ∧ e'.params = [tok] :=
  Proofs.ProtocolA.pong_wire tok h

/-- Exactly one alternative per numeric, whatever else the line carries, before or after
    registration, with tracking on or off: by default the rejected nick with one more '_'. -/
theorem collision_default (cfg : Cfg) (cs : CState) (e : Event) (time idle : Bytes)
    (hc : isNickErr e.command = true) (hcb : cfg.nickCollide = .none) :
    ∃ cs', handleEvent cfg cs e time idle = .ok (cs', [Out.send (nickEvent (rejectedNick cfg cs.st e ++ [0x5F]))]) :=
  Proofs.ProtocolA.collision_default cfg cs e time idle hc hcb

/-- With a callback: its value, and nothing if it returns the empty string. -/
theorem collision_callback (cfg : Cfg) (cs : CState) (e : Event) (time idle : Bytes) (n : Bytes)
    (hc : isNickErr e.command = true) (hcb : cfg.nickCollide = .fixed n) :
    ∃ cs', handleEvent cfg cs e time idle = .ok (cs', if n.isEmpty then [] else [Out.send (nickEvent n)]) :=
  Proofs.ProtocolA.collision_callback cfg cs e time idle n hc hcb

/-- Successive collisions: nick_, nick__, … — each numeric names the previous proposal, the answer
    appends one more '_'; all proposals are valid nicks and pairwise distinct, so a rejected
    nickname is never proposed again. -/
theorem collision_progression (nick : Bytes) (hn : isValidNick nick = true) :
    (∀ k, isValidNick (proposal nick k) = true) ∧
    (∀ k, proposal nick k = nick ++ List.replicate k 0x5F) ∧
    (∀ i j, i ≠ j → proposal nick i ≠ proposal nick j) ∧
    (∀ (cfg : Cfg) (st : St) (k : Nat) (cl reason : Bytes), cfg.nickCollide = .none →
      nickCollision cfg st { command := c433, params := [cl, proposal nick k, reason] } =
        [Out.send (nickEvent (proposal nick (k + 1)))]) :=
  Proofs.ProtocolA.collision_progression nick hn

example : proposal [0x6D, 0x65] 3 = [0x6D, 0x65, 0x5F, 0x5F, 0x5F] := by decide

end Girc.Props.C17
