import Girc.Proofs.SimCor
import Girc.Proofs.SimWire
/- C04 — tracked state equals what a conformant server's message history implies. Property theorems only. -/
namespace Girc.Props.C04
open Girc Girc.Model Girc.Spec

/-- The property: after ANY conformant history (any length, any mix of JOIN, PART, KICK, QUIT, NICK,
    NAMES, WHO/WHOX, MODE, TOPIC, AWAY, ACCOUNT, CHGHOST, account tags, 001/004/005/MOTD and anything
    else a server sends), the implementation model returns without a fault and everything the state
    API shows (`observe`: own nick/ident/host, channel list, user list, per-channel membership,
    per-user channel list and privilege flags, topic, mode string with arguments, account/away/
    realname, server options, MOTD, maximum event length) equals the observation of the reference
    tracker, which keeps one membership relation and forgets users exactly when they share no
    tracked channel. -/
theorem refinement (cfg : Cfg) (hT : cfg.disableTracking = false) (es : List Event)
    (hc : conformantHistory cfg {} es = true) :
    ∃ cs, runEvents cfg {} es = .ok cs ∧ observe cs.st = (Ref.run cfg es).observe :=
  Proofs.SimMain.refinement cfg hT es hc

/-- The same at the WIRE level: the received lines are parsed by the parser of C02, handled one at a
    time, locally injected events (only ever local ERRORs) are processed after the event that injected
    them; for every history of lines that parse to a conformant history of events, as long as nothing
    has ended the connection (no ERROR, no unparsable line, no requested close) what the state API
    shows equals the reference model's observation. -/
theorem refinement_wire (cfg : Cfg) (hT : cfg.disableTracking = false) (lines : List Bytes) (es : List Event)
    (hp : lines.map parseEvent = es.map some) (hc : conformantHistory cfg {} es = true)
    (r : Run) (hr : runLines cfg {} lines = .ok r) (hrun : r.ended = .running) :
    observe r.cs.st = (Ref.run cfg es).observe :=
  Proofs.SimWire.refinement_wire cfg hT lines es hp hc r hr hrun

/-- One step, from any related pair of states (the inductive core; `Sim` is extensional equality of
    everything tracked, stated in Spec/Sim.lean). -/
theorem step (cfg : Cfg) (hT : cfg.disableTracking = false) (cs : CState) (r : Ref) (e : Event) (time idle : Bytes)
    (h : Sim cs.st r) (hc : r.conformant cfg e = true) :
    ∃ cs' outs, handleEvent cfg cs e time idle = .ok (cs', outs) ∧ Sim cs'.st (r.step cfg e) :=
  Proofs.SimMain.sim_handleEvent cfg hT e time idle h hc

theorem observe_eq (st : St) (r : Ref) (h : Sim st r) : observe st = r.observe := Proofs.SimBase.observe_eq h

/-- Users are forgotten exactly when they share no tracked channel. -/
theorem known_iff_shares (st : St) (r : Ref) (h : Sim st r) (n : Bytes) :
    AMap.contains r.users n = true ↔ ∃ c, (c, n) ∈ r.members := Proofs.SimCor.known_iff_shares h n

theorem lookupUser_iff_shares (st : St) (r : Ref) (h : Sim st r) (n : Bytes) :
    (AMap.get? st.users n).isSome = true ↔ ∃ k ch, AMap.get? st.channels k = some ch ∧ n ∈ ch.users :=
  Proofs.SimCor.lookupUser_iff_shares h n

open Proofs.SimCor in
/-- "A channel mode set by '+x' is reported until a later '-x', and mode arguments follow the server's
    CHANMODES classes" — the reference model's per-flag rule, which by `refinement` is what the state
    API reports. -/
theorem mode_rules (ch : RChan) (f : Byte) (args : List Bytes) :
    -- '+x' for a setting is reported, with the argument its class prescribes
    (isListMode ch f = false ∧ isPrivMode ch f = false →
      (f, if isPlainMode ch f then [] else args.headD []) ∈ (Ref.modeFlag ch true f args).1) ∧
    -- until a '-x'
    (isListMode ch f = false ∧ isPrivMode ch f = false → ∀ a, (f, a) ∉ (Ref.modeFlag ch false f args).1) ∧
    -- flags for other letters leave it alone
    (∀ (add : Bool) (g : Byte) (a : Bytes), g ≠ f → (f, a) ∈ ch.modes → (f, a) ∈ (Ref.modeFlag ch add g args).1) ∧
    -- arguments are consumed by class: A, B and privilege modes always, C only when set, D never
    (∀ add : Bool, (Ref.modeFlag ch add f args).2.1 =
      if isListMode ch f || isArgMode ch f || isPrivMode ch f || (isSetArgMode ch f && add) then args.tail else args) ∧
    -- list modes and privilege modes are not settings
    (isListMode ch f = true ∨ isPrivMode ch f = true → ∀ add : Bool, (Ref.modeFlag ch add f args).1 = ch.modes) :=
  ⟨plus_reported ch f args, fun hs a => minus_removes ch f args hs a,
   fun add g a hfg hm => other_flag_keeps ch add f g a args hfg hm,
   fun add => args_consumed ch add f args,
   fun hs add => list_and_priv_not_stored ch add f args hs⟩

/-! ### non-vacuity: a concrete conformant history with a non-trivial outcome -/

def ev (src : Option Source) (cmd : Bytes) (ps : List Bytes) : Event := { source := src, command := cmd, params := ps }
def b (s : String) : Bytes := s.toUTF8.toList
def demoCfg : Cfg := { nick := b "me", user := b "me" }
def demo : List Event :=
  [ ev (some ⟨b "srv", [], []⟩) c001 [b "me", b "Welcome"],
    ev (some ⟨b "me", b "u", b "h"⟩) cJOIN [b "#Chan"],
    ev (some ⟨b "srv", [], []⟩) c353 [b "me", b "=", b "#chan", b "me @Bob"],
    ev (some ⟨b "Bob", b "b", b "h"⟩) cMODE [b "#CHAN", b "+mk-o", b "key", b "bob"],
    ev (some ⟨b "Bob", b "b", b "h"⟩) cNICK [b "BOB"],
    ev (some ⟨b "BOB", b "b", b "h"⟩) cPART [b "#chan"] ]

example : demoCfg.disableTracking = false := rfl
example : conformantHistory demoCfg {} demo = true := by decide +kernel
example : ((Ref.run demoCfg demo).observe.channels.map fun c => (c.1, c.2.users, c.2.modes)) =
    [(b "#chan", [b "me"], b "+mk key")] := by decide +kernel
example : (Ref.run demoCfg demo).observe.users.map (·.1) = [b "me"] := by decide +kernel

end Girc.Props.C04
