import Girc.Model.Run
import Girc.Model.Sts
import Girc.Model.Log
import Girc.Spec.EventSpec
import Girc.Proofs.Roundtrip
/-
  Proof obligations over the handler model for C08 (capabilities), C09 (SASL protocol), C10 (STS),
  C14 (reply discipline) and C17 (PING / nick collisions).
-/
namespace Girc.Proofs.ProtocolA
open Girc Girc.Model Girc.Spec

/-! ## C17 -/

/-- A PONG carrying any clean token (with or without spaces, empty, colon-leading) parses back to
    exactly that token on the server side. -/
theorem pong_wire (tok : Bytes) (h : fieldOK tok = true) :
    ∃ e', parseEvent (eventBytes { command := cPONG, params := [tok] }) = some e' ∧
      e'.command = cPONG ∧ e'.params = [tok] := by
  sorry

def isNickErr (c : Bytes) : Bool := c = c433 || c = c436 || c = c437

/-- The nickname a collision numeric "<client> <nick> :reason" rejects (else the current one). -/
def rejectedNick (cfg : Cfg) (st : St) (e : Event) : Bytes :=
  match e.params with
  | _ :: n :: _ => if isValidNick n then n else getNick cfg st
  | _ => getNick cfg st

def nickEvent (n : Bytes) : Event := { command := cNICK, params := [n] }

/-- Exactly one alternative per numeric, whatever else the line carries, before or after
    registration, with tracking on or off: by default the rejected nick with one more '_'. -/
theorem collision_default (cfg : Cfg) (cs : CState) (e : Event) (time idle : Bytes)
    (hc : isNickErr e.command = true) (hcb : cfg.nickCollide = .none) :
    ∃ cs', handleEvent cfg cs e time idle = .ok (cs', [Out.send (nickEvent (rejectedNick cfg cs.st e ++ [0x5F]))]) := by
  sorry

/-- With a callback: its value, and nothing if it returns the empty string. -/
theorem collision_callback (cfg : Cfg) (cs : CState) (e : Event) (time idle : Bytes) (n : Bytes)
    (hc : isNickErr e.command = true) (hcb : cfg.nickCollide = .fixed n) :
    ∃ cs', handleEvent cfg cs e time idle = .ok (cs', if n.isEmpty then [] else [Out.send (nickEvent n)]) := by
  sorry

/-- The k-th proposal when the server rejects every proposal in turn. -/
def proposal (nick : Bytes) : Nat → Bytes
  | 0 => nick
  | k + 1 => proposal nick k ++ [0x5F]

/-- Successive collisions: nick_, nick__, … — each numeric names the previous proposal, the answer
    appends one more '_'; all proposals are valid nicks and pairwise distinct, so a rejected
    nickname is never proposed again. -/
theorem collision_progression (nick : Bytes) (hn : isValidNick nick = true) :
    (∀ k, isValidNick (proposal nick k) = true) ∧
    (∀ k, proposal nick k = nick ++ List.replicate k 0x5F) ∧
    (∀ i j, i ≠ j → proposal nick i ≠ proposal nick j) ∧
    (∀ (cfg : Cfg) (st : St) (k : Nat) (cl reason : Bytes), cfg.nickCollide = .none →
      nickCollision cfg st { command := c433, params := [cl, proposal nick k, reason] } =
        [Out.send (nickEvent (proposal nick (k + 1)))]) := by
  sorry

/-! ## C14 reply discipline -/

/-- Every automatic answer is a NOTICE to the (folded) requester, produced only for a request
    (not a reply) that carries a source, and never for ACTION. -/
theorem reply_discipline (cfg : Cfg) (ev : CTCPEvent) (time idle : Bytes) :
    ∀ o ∈ ctcpCall cfg ev time idle,
      ev.reply = false ∧ ev.command ≠ tACTION ∧
      ∃ src typ msg, ev.source = some src ∧ typ ≠ [] ∧
        o = Out.send { command := NOTICE, params := [fold src.name, encodeCTCPRaw typ msg] } := by
  sorry

/-- At the level of received events: CTCP answers come only from PRIVMSG events. -/
theorem replies_only_to_privmsg (cfg : Cfg) (e : Event) (ev : CTCPEvent) (time idle : Bytes)
    (hd : decodeCTCP e = some ev) (hne : ctcpCall cfg ev time idle ≠ []) :
    e.command = PRIVMSG ∧ e.source.isSome := by
  sorry

/-- No reply loop: whatever a client answers automatically, received by ANY client (any
    configuration, as a NOTICE from anyone), triggers no automatic answer. -/
theorem no_reply_loop (cfg cfg' : Cfg) (ev : CTCPEvent) (time idle time' idle' : Bytes) :
    ∀ o ∈ ctcpCall cfg ev time idle, ∀ reply, o = Out.send reply →
      ∀ (src' : Option Source) (tags' : Option Tags) (ev' : CTCPEvent),
        decodeCTCP { reply with source := src', tags := tags' } = some ev' →
        ctcpCall cfg' ev' time' idle' = [] := by
  sorry

/-! ## C09 protocol -/

def isSaslCmd (c : Bytes) : Bool :=
  c = cAUTHENTICATE || c = c902 || c = c903 || c = c904 || c = c905 || c = c906 || c = c907 || c = c908

/-- Once authentication is in progress, CAP END is written only for the success numeric. -/
theorem sasl_end_only_on_success (cfg : Cfg) (cs : CState) (e : Event) (m : SaslCfg) (cs' : CState) (outs : List Out)
    (hs : cfg.sasl = some m) (hc : isSaslCmd e.command = true)
    (h : handleCommand cfg cs e = .ok (cs', outs)) (hend : Out.write capEnd ∈ outs) : e.command = c903 := by
  sorry

/-- Any SASL failure numeric injects a local ERROR and writes nothing. -/
theorem sasl_failure_injects_error (cfg : Cfg) (cs : CState) (e : Event) (m : SaslCfg)
    (hs : cfg.sasl = some m) (ht : cfg.disableTracking = false)
    (hc : e.command = c902 ∨ e.command = c904 ∨ e.command = c905 ∨ e.command = c906 ∨ e.command = c908) :
    handleCommand cfg cs e = .ok (cs, [Out.inject (errorEvent (sClosing ++ e.last))]) := by
  sorry

/-- A mechanism that gives up (empty response) injects a local ERROR and writes nothing. -/
theorem sasl_giveup_injects_error (cfg : Cfg) (cs : CState) (e : Event) (m : SaslCfg)
    (hs : cfg.sasl = some m) (ht : cfg.disableTracking = false) (hc : e.command = cAUTHENTICATE)
    (hg : m.encode cs.saslCalls e.params = []) :
    ∃ cs', handleCommand cfg cs e = .ok (cs', [Out.inject (errorEvent (sClosingSasl ++ m.method ++ sFailed ++ e.last))]) := by
  sorry

/-- Otherwise the response goes out as the chunk sequence of `saslChunks` (see `chunks_exact`). -/
theorem sasl_response_chunked (cfg : Cfg) (cs : CState) (e : Event) (m : SaslCfg)
    (hs : cfg.sasl = some m) (ht : cfg.disableTracking = false) (hc : e.command = cAUTHENTICATE)
    (hg : m.encode cs.saslCalls e.params ≠ []) :
    ∃ cs', handleCommand cfg cs e = .ok (cs',
      (saslChunks (m.encode cs.saslCalls e.params)).map fun c => Out.write { command := cAUTHENTICATE, params := [c] }) := by
  sorry

/-- The injected ERROR ends the connection with `ErrEvent` carrying its text: a failure line makes
    `Connect` return an error instead of registering unauthenticated. -/
theorem sasl_failure_ends_connection (cfg : Cfg) (r : Run) (line : Bytes) (e : Event) (m : SaslCfg)
    (hr : r.ended = .running) (hp : parseEvent line = some e)
    (hs : cfg.sasl = some m) (ht : cfg.disableTracking = false)
    (hc : e.command = c902 ∨ e.command = c904 ∨ e.command = c905 ∨ e.command = c906 ∨ e.command = c908) :
    ∃ r', stepLine cfg r line = .ok r' ∧ r'.ended = .errEvent (sClosing ++ e.last) ∧ r'.written = r.written := by
  sorry

/-- Non-interference of the logs in the secret: for a sensitive event nothing derived from the
    parameters reaches either writer, on the normal and on the dropped-event path. -/
theorem no_secret_logged (e : Event) (ps : List Bytes) (dropped echo : Bool) :
    debugLine true dropped e = debugLine true dropped { e with params := ps } ∧
    outLine true echo e = none := by
  sorry

end Girc.Proofs.ProtocolA
