package main

import (
	"fmt"
	"strings"
)

// experiment: reference tracker vs model on HOSTILE histories (finds where `Conformant` is needed)
func init() {
	props["refhostile"] = func(c *Ctx) {
		sc := SessCfg{Nick: "me", User: "me", AllowFlood: true}
		bad := map[string]int{}
		for i := 0; i < 30000; i++ {
			steps := []string{"R:srv 001 me :Welcome", "R:me!u@h JOIN #a", "R:srv 353 me = #a :me @bob +Carl"}
			for k := 1 + c.Rng.Intn(5); k > 0; k-- {
				steps = append(steps, "R"+c.Rng.hostileLine("me"))
			}
			resp := c.L.Call("refcmp", encCfg(sc, false, false), hxList(steps))
			bad["total:"+strings.SplitN(resp, " ", 2)[0]]++
			if resp != "1" && !strings.HasPrefix(resp, "nonconformant") {
				key := strings.SplitN(resp, ":", 2)[0]
				bad[key]++
				if bad[key] <= 2 {
					fmt.Println(resp[:min(len(resp), 300)])
					for _, s := range steps[3:] {
						fmt.Printf("   %q\n", s)
					}
				}
			}
		}
		fmt.Println(bad)
	}
}
