import Girc.Gen.Funcs
import Girc.Drv.EventOps
import Girc.Drv.PureOps
import Girc.Model.Modes
import Girc.Model.EventHelpers
/-
  Driver ops `gen.<GoName>`: evaluate the GENERATED functions of Girc/Gen/Funcs.lean (the translator's
  output), printing the same canonical format as the op of the corresponding hand-written model
  function, or `panic:<fault>` when the generated code returns an error.
-/
namespace Girc.Drv
open Girc Girc.Model Girc.Gen

def genFault : Fault → String
  | .indexOutOfRange => "panic:index"
  | .sliceBounds => "panic:slice"
  | .nilDeref => "panic:nil"
  | .diverge => "panic:diverge"
  | .nilMap => "panic:nilmap"
  | .unsupported why => "panic:unsupported(" ++ why ++ ")"

def genShow {α : Type} (f : α → String) : Except Fault α → String
  | .ok a => f a
  | .error e => genFault e

def handleGen (op : String) (args : List String) : Option String :=
  match op, args with
  -- format.go                                                        mirrors
  | "gen.ToRFC1459", [a] => do let s ← arg a; pure (genShow hx (Fn.ToRFC1459 s))                -- fold
  | "gen.IsValidNick", [a] => do let s ← arg a; pure (genShow bl (Fn.IsValidNick s))            -- validnick
  | "gen.IsValidUser", [a] => do let s ← arg a; pure (genShow bl (Fn.IsValidUser s))            -- validuser
  | "gen.IsValidChannel", [a] => do let s ← arg a; pure (genShow bl (Fn.IsValidChannel s))      -- validchan
  | "gen.Glob", [a, b] => do let s ← arg a; let p ← arg b; pure (genShow bl (Fn.Glob s p))      -- glob
  -- cap_tags.go
  | "gen.validTag", [a] => do let s ← arg a; pure (genShow bl (Fn.validTag s))                  -- validtag
  | "gen.validTagValue", [a] => do let s ← arg a; pure (genShow bl (Fn.validTagValue s))        -- validtagvalue
  -- modes.go (model ops added below: chanmode / userprefix / parseprefixes)
  | "gen.IsValidChannelMode", [a] => do let s ← arg a; pure (genShow bl (Fn.IsValidChannelMode s))
  | "gen.isValidUserPrefix", [a] => do let s ← arg a; pure (genShow bl (Fn.isValidUserPrefix s))
  | "gen.parsePrefixes", [a] => do
      let s ← arg a
      pure (genShow (fun (r : Bytes × Bytes) => hx r.1 ++ " " ++ hx r.2) (Fn.parsePrefixes s))
  | "chanmode", [a] => do let s ← arg a; pure (bl (isValidChannelMode s))
  | "userprefix", [a] => do let s ← arg a; pure (bl (isValidUserPrefix s))
  | "parseprefixes", [a] => do let s ← arg a; let r := parsePrefixes s; pure (hx r.1 ++ " " ++ hx r.2)
  -- ctcp.go
  | "gen.EncodeCTCPRaw", [c, t] => do let c ← arg c; let t ← arg t; pure (genShow hx (Fn.EncodeCTCPRaw c t))   -- ctcpenc
  | "gen.DecodeCTCP", [t, s, c, p] => do                                                                      -- ctcpdec
      let e ← argEvent t s c p; pure (genShow showCtcp (Fn.DecodeCTCP (some e)))
  | "gen.DecodeCTCP", ["nil"] => pure (genShow showCtcp (Fn.DecodeCTCP none))
  -- event.go
  | "gen.ParseSource", [a] => do let s ← arg a; pure (genShow showSource (Fn.ParseSource s))    -- parsesource
  | "gen.Source.Len", [s] => do                                                                  -- sourcebytes (2nd field)
      let src ← argSource s; pure (genShow toString (Fn.Source_Len src))
  | "gen.Source.writeTo", [s] => do                                                              -- sourcebytes (1st field)
      let src ← argSource s; pure (genShow hx (Fn.Source_writeTo src []))
  | "gen.ParseEvent", [a] => do let s ← arg a; pure (genShow showOptEvent (Fn.ParseEvent s))  -- parse / parsego
  -- cap_tags.go
  | "gen.ParseTags", [a] => do let s ← arg a; pure (genShow showTags (Fn.ParseTags s))          -- parsetags
  | "gen.Tags.Get", [t, k] => do                                                                 -- tagget
      let tg ← argTags t; let k ← arg k
      pure (genShow (fun (r : Bytes × Bool) => if r.2 then hx r.1 else "-") (Fn.Tags_Get tg k))
  -- serialiser side (cap_tags.go / event.go)
  | "gen.Tags.Bytes", [t] => do let tg ← argTags t; pure (genShow hx (Fn.Tags_Bytes tg))        -- tagsbytes
  | "gen.Tags.Len", [t] => do let tg ← argTags t; pure (genShow toString (Fn.Tags_Len tg))      -- taglen (new model op)
  | "taglen", [t] => do let tg ← argTags t; pure (toString (tagsLen tg))
  | "gen.Tags.writeTo", [t] => do                                                                 -- tagswrite (new model op)
      let tg ← argTags t
      pure (genShow (fun (r : Int × Option Go.GoErr × Bytes) => hx r.2.2 ++ " " ++ toString r.1) (Fn.Tags_writeTo tg []))
  | "tagswrite", [t] => do let tg ← argTags t; pure (hx (tagsWrite tg) ++ " " ++ toString (tagsWrite tg).length)
  | "gen.Tags.Set", [t, k, v] => do                                                               -- tagset
      let tg ← argTags t; let k ← arg k; let v ← arg v
      match tg with
      | none => none
      | some _ => pure (genShow (fun (r : Option Go.GoErr × Option Tags) =>
          if r.1.isSome then "err" else showTags r.2) (Fn.Tags_Set tg k v))
  | "gen.Event.Bytes", [t, s, c, p] => do                                                         -- bytes
      let e ← argEvent t s c p; pure (genShow hx (Fn.Event_Bytes (some e)))
  | "gen.Event.Len", [t, s, c, p] => do                                                           -- len
      let e ← argEvent t s c p; pure (genShow toString (Fn.Event_Len (some e)))
  | "gen.Event.LenOpts", [t, s, c, p, f] => do                                                    -- len
      let e ← argEvent t s c p; pure (genShow toString (Fn.Event_LenOpts (some e) (f == "1")))
  | "gen.Source.Bytes", [s] => do                                                                 -- sourcebytes (1st field)
      let src ← argSource s; pure (genShow hx (Fn.Source_Bytes src))
  | "gen.Source.String", [s] => do                                                                -- sourcebytes (1st field)
      let src ← argSource s; pure (genShow hx (Fn.Source_String src))
  -- event.go query helpers (new model ops below, same formats)
  | "gen.Event.Last", [t, s, c, p] => do let e ← argEvent t s c p; pure (genShow hx (Fn.Event_Last (some e)))
  | "last", [t, s, c, p] => do let e ← argEvent t s c p; pure (hx (eventLast e))
  | "gen.Event.IsCTCP", [t, s, c, p] => do
      let e ← argEvent t s c p
      pure (genShow (fun (r : Bool × Option CTCPEvent) => bl r.1 ++ " " ++ showCtcp r.2) (Fn.Event_IsCTCP (some e)))
  | "isctcp", [t, s, c, p] => do
      let e ← argEvent t s c p; let r := isCTCP e; pure (bl r.1 ++ " " ++ showCtcp r.2)
  | "gen.Event.IsAction", [t, s, c, p] => do let e ← argEvent t s c p; pure (genShow bl (Fn.Event_IsAction (some e)))
  | "isaction", [t, s, c, p] => do let e ← argEvent t s c p; pure (bl (isAction e))
  | "gen.Event.StripAction", [t, s, c, p] => do
      let e ← argEvent t s c p; pure (genShow hx (Fn.Event_StripAction (some e)))
  | "stripaction", [t, s, c, p] => do
      let e ← argEvent t s c p
      pure (match stripAction e with | some b => hx b | none => "panic:slice")
  | "gen.Event.IsFromChannel", [t, s, c, p] => do
      let e ← argEvent t s c p; pure (genShow bl (Fn.Event_IsFromChannel (some e)))
  | "isfromchannel", [t, s, c, p] => do let e ← argEvent t s c p; pure (bl (isFromChannel e))
  | "gen.Event.IsFromUser", [t, s, c, p] => do
      let e ← argEvent t s c p; pure (genShow bl (Fn.Event_IsFromUser (some e)))
  | "isfromuser", [t, s, c, p] => do let e ← argEvent t s c p; pure (bl (isFromUser e))
  | "gen.Source.ID", [s] => do let src ← argSource s; pure (genShow hx (Fn.Source_ID src))
  | "sourceid", [s] => do
      match ← argSource s with
      | some src => pure (hx (sourceID src))
      | none => none
  | "gen.Source.Equals", [a, b] => do
      let x ← argSource a; let y ← argSource b; pure (genShow bl (Fn.Source_Equals x y))
  | "sourceeq", [a, b] => do let x ← argSource a; let y ← argSource b; pure (bl (sourceEq x y))
  | "gen.Source.IsHostmask", [s] => do let src ← argSource s; pure (genShow bl (Fn.Source_IsHostmask src))
  | "gen.Source.IsServer", [s] => do let src ← argSource s; pure (genShow bl (Fn.Source_IsServer src))
  | "ishostmask", [s] => do
      match ← argSource s with
      | some src => pure (bl (isHostmask src))
      | none => none
  | "isserver", [s] => do
      match ← argSource s with
      | some src => pure (bl (isServer src))
      | none => none
  -- modes.go
  | "gen.parseUserPrefix", [a] => do
      let s ← arg a
      pure (genShow (fun (r : Bytes × Bytes × Bool) => hx r.1 ++ " " ++ hx r.2.1 ++ " " ++ bl r.2.2) (Fn.parseUserPrefix s))
  | "parseuserprefix", [a] => do
      let s ← arg a; let r := parseUserPrefix s; pure (hx r.1 ++ " " ++ hx r.2.1 ++ " " ++ bl r.2.2)
  | "gen.CModes.hasArg", [cm, up, set, m] => do                       -- CModes built by the model's NewCModes(cm, up)
      let cm ← arg cm; let up ← arg up; let m ← arg m
      match m with
      | [b] => pure (genShow (fun (r : Bool × Bool) => bl r.1 ++ " " ++ bl r.2) (Fn.CModes_hasArg (some (newCModes cm up)) (set == "1") b))
      | _ => none
  | "hasarg", [cm, up, set, m] => do
      let cm ← arg cm; let up ← arg up; let m ← arg m
      match m with
      | [b] => let r := (newCModes cm up).hasArg (set == "1") b; pure (bl r.1 ++ " " ++ bl r.2)
      | _ => none
  -- format.go
  | "gen.Fmt", [a] => do let s ← arg a; pure (genShow hx (Fn.Fmt s))                             -- fmt
  | "gen.TrimFmt", [a] => do                                                                     -- trimfmt (two orders)
      let s ← arg a
      let o1 := Fn.fmtColors.map (·.1); let o2 := Fn.fmtCodes.map (·.1)
      pure (genShow hx (Fn.TrimFmt o1 o2 s) ++ " " ++ genShow hx (Fn.TrimFmt o1.reverse o2.reverse s))
  | "gen.StripRaw", [a] => do                                                                    -- stripraw
      let s ← arg a; pure (genShow hx (Fn.StripRaw (Fn.fmtCodes.map (·.1)) s))
  | _, _ => none

end Girc.Drv
