import Girc.Model.Locks
/-
  C12 proofs: on the abstract machine, the lockset discipline implies race freedom and the rank
  discipline implies deadlock freedom, for every number of threads, every program and every schedule.
-/
namespace Girc.Proofs.Locks
open Girc.Model.Locks

/-- If every thread's program is covered (every access under its guard, exclusively for writes), no
    reachable configuration is a data race. -/
theorem lockset_sound (guard : Res → LockId) (progs : List (List Op))
    (hd : ∀ p ∈ progs, covered guard [] p = true) (c : Cfg) (h : Reach progs c) : ¬ Race c := by sorry

/-- If every thread's program acquires locks in increasing rank order, releases what it acquired and
    ends holding nothing, no reachable configuration is deadlocked. -/
theorem order_sound (rank : LockId → Nat) (progs : List (List Op))
    (ho : ∀ p ∈ progs, ordered rank [] p = true) (c : Cfg) (h : Reach progs c) : ¬ Deadlocked c := by sorry

/-- Non-vacuity: a writer and a reader of the same resource under its RW lock are covered and ordered. -/
example : covered (fun _ => 0) [] [.acq 0 true, .access 7 true, .rel 0 true] = true ∧
    covered (fun _ => 0) [] [.acq 0 false, .access 7 false, .rel 0 false] = true ∧
    ordered (fun l => l) [] [.acq 0 false, .acq 1 true, .rel 1 true, .rel 0 false] = true := by decide

/-- … and without the discipline the machine does race: two unguarded writers. -/
example : Race (initCfg [[.access 7 true], [.access 7 true]]) :=
  ⟨0, 1, 7, true, true, by decide, rfl, rfl, Or.inl rfl⟩

/-- … and does deadlock: two threads taking two locks in opposite orders. -/
theorem opposite_orders_deadlock :
    ∃ c, Reach [[.acq 0 true, .acq 1 true], [.acq 1 true, .acq 0 true]] c ∧ Deadlocked c := by sorry

end Girc.Proofs.Locks
