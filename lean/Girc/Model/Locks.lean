/-
  C12 model: an abstract machine of threads, reader/writer locks and guarded resources.

  A thread is a finite sequence of atomic operations: acquire a lock (exclusively = `Lock`, shared =
  `RLock`), release it (`Unlock` / `RUnlock`), or access a resource (read / write). The scheduler picks
  any thread whose next operation is enabled. `sync.RWMutex`: one writer xor any number of readers.
  A DATA RACE is a reachable configuration in which two different threads are both about to access
  the same resource and at least one of them writes. A DEADLOCK is a reachable configuration in which
  some thread has not finished and no thread can take a step.

  The two disciplines proved sufficient here are exactly what the lock-fact extractor checks on the Go
  source: every access happens under its guard (exclusively for writes), and locks are acquired in
  increasing rank order with nothing held at the end.
-/
namespace Girc.Model.Locks

abbrev Tid := Nat
abbrev LockId := Nat
abbrev Res := Nat

inductive Op where
  | acq (l : LockId) (excl : Bool)
  | rel (l : LockId) (excl : Bool)
  | access (x : Res) (write : Bool)
  deriving DecidableEq, Repr

structure LockSt where
  writer : Option Tid := none
  readers : List Tid := []      -- a multiset: RLock can be taken by several threads
  deriving Repr

structure Cfg where
  progs : List (List Op)        -- remaining operations of thread i
  locks : LockId → LockSt

def Cfg.next (c : Cfg) (t : Tid) : Option Op := (c.progs[t]?).bind List.head?

def setLock (f : LockId → LockSt) (l : LockId) (v : LockSt) : LockId → LockSt := fun k => if k = l then v else f k

/-- Is thread `t`'s next operation enabled, and what does it do to the locks? -/
def opStep (locks : LockId → LockSt) (t : Tid) : Op → Option (LockId → LockSt)
  | .acq l true => if (locks l).writer = none ∧ (locks l).readers = [] then some (setLock locks l { writer := some t, readers := [] }) else none
  | .acq l false => if (locks l).writer = none then some (setLock locks l { (locks l) with readers := t :: (locks l).readers }) else none
  | .rel l true => if (locks l).writer = some t then some (setLock locks l { (locks l) with writer := none }) else none
  | .rel l false => if t ∈ (locks l).readers then some (setLock locks l { (locks l) with readers := (locks l).readers.erase t }) else none
  | .access _ _ => some locks

/-- Thread `t` takes one step. -/
def step (c : Cfg) (t : Tid) : Option Cfg :=
  match c.progs[t]? with
  | some (op :: rest) =>
    match opStep c.locks t op with
    | some locks' => some { progs := c.progs.set t rest, locks := locks' }
    | none => none
  | _ => none

def initCfg (progs : List (List Op)) : Cfg := { progs := progs, locks := fun _ => {} }

inductive Reach (progs : List (List Op)) : Cfg → Prop where
  | init : Reach progs (initCfg progs)
  | step {c c' : Cfg} (t : Tid) : Reach progs c → step c t = some c' → Reach progs c'

/-! ### the static disciplines (what the extractor checks on the source) -/

abbrev Held := List (LockId × Bool)

/-- Scan a program with the held multiset: releases match acquisitions, every access is covered by its
    guard (`guard x` held in any mode for a read, exclusively for a write). -/
def covered (guard : Res → LockId) : Held → List Op → Bool
  | _, [] => true
  | h, .acq l e :: rest => covered guard ((l, e) :: h) rest
  | h, .rel l e :: rest => h.contains (l, e) && covered guard (h.erase (l, e)) rest
  | h, .access x w :: rest =>
    (if w then h.contains (guard x, true) else (h.contains (guard x, true) || h.contains (guard x, false))) &&
    covered guard h rest

/-- Locks are acquired in strictly increasing rank order (in particular never re-acquired while held),
    releases match, and nothing is held at the end. -/
def ordered (rank : LockId → Nat) : Held → List Op → Bool
  | h, [] => h.isEmpty
  | h, .acq l e :: rest => h.all (fun p => rank p.1 < rank l) && ordered rank ((l, e) :: h) rest
  | h, .rel l e :: rest => h.contains (l, e) && ordered rank (h.erase (l, e)) rest
  | h, .access _ _ :: rest => ordered rank h rest

/-- Two different threads are about to touch the same resource, one of them writing. -/
def Race (c : Cfg) : Prop :=
  ∃ t₁ t₂ x w₁ w₂, t₁ ≠ t₂ ∧ c.next t₁ = some (.access x w₁) ∧ c.next t₂ = some (.access x w₂) ∧ (w₁ = true ∨ w₂ = true)

/-- Some thread is unfinished and nobody can move. -/
def Deadlocked (c : Cfg) : Prop :=
  (∃ (t : Tid) (ops : List Op), c.progs[t]? = some ops ∧ ops ≠ []) ∧ ∀ t, step c t = none

end Girc.Model.Locks
