package main

import (
	"bufio"
	"crypto/ecdsa"
	"crypto/elliptic"
	"crypto/rand"
	"crypto/tls"
	"crypto/x509"
	"crypto/x509/pkix"
	"errors"
	"fmt"
	"math/big"
	"net"
	"strings"
	"sync"
	"time"

	"github.com/lrstanley/girc"
)

// ---- C10: a real client behind a recording Dialer; plaintext and TLS peers in process ----

var tlsCertOnce sync.Once
var tlsCert tls.Certificate

func selfSigned() tls.Certificate {
	tlsCertOnce.Do(func() {
		key, _ := ecdsa.GenerateKey(elliptic.P256(), rand.Reader)
		tmpl := &x509.Certificate{SerialNumber: big.NewInt(1), Subject: pkix.Name{CommonName: "irc.example.org"},
			NotBefore: time.Now().Add(-time.Hour), NotAfter: time.Now().Add(time.Hour), DNSNames: []string{"irc.example.org"}}
		der, _ := x509.CreateCertificate(rand.Reader, tmpl, tmpl, &key.PublicKey, key)
		tlsCert = tls.Certificate{Certificate: [][]byte{der}, PrivateKey: key}
	})
	return tlsCert
}

type peerScript struct {
	kind   string   // "plain" | "tls" | "fail" | "sniff" (read the first bytes, then close)
	lines  []string // server script: "S<line>" send, "W<prefix>" wait for a client line with this prefix
	result *peerResult
}

type peerResult struct {
	addr       string
	firstBytes []byte
	got        []string // client lines
	afterAck   []string // client lines received after the script's last send
}

type scriptDialer struct {
	mu    sync.Mutex
	peers []*peerScript
	n     int
	dials []string
	wg    sync.WaitGroup
}

func (d *scriptDialer) Dial(network, address string) (net.Conn, error) {
	d.mu.Lock()
	d.dials = append(d.dials, address)
	var p *peerScript
	if d.n < len(d.peers) {
		p = d.peers[d.n]
	}
	d.n++
	d.mu.Unlock()
	if p == nil || p.kind == "fail" {
		return nil, errors.New("dial refused (scripted)")
	}
	p.result.addr = address
	cli, srv := net.Pipe()
	d.wg.Add(1)
	go func() {
		defer d.wg.Done()
		defer srv.Close()
		srv.SetDeadline(time.Now().Add(8 * time.Second))
		var conn net.Conn = srv
		switch p.kind {
		case "sniff":
			buf := make([]byte, 3)
			n, _ := srv.Read(buf)
			p.result.firstBytes = buf[:n]
			return
		case "tls":
			// record the first bytes, then complete the handshake
			rec := &recordConn{Conn: srv}
			ts := tls.Server(rec, &tls.Config{Certificates: []tls.Certificate{selfSigned()}})
			if err := ts.Handshake(); err != nil {
				p.result.firstBytes = rec.first
				return
			}
			p.result.firstBytes = rec.first
			conn = ts
		}
		rd := bufio.NewReader(conn)
		var mu sync.Mutex
		lines := make(chan string, 256)
		go func() {
			for {
				l, err := rd.ReadString('\n')
				if l != "" {
					l = strings.TrimRight(l, "\r\n")
					mu.Lock()
					p.result.got = append(p.result.got, l)
					mu.Unlock()
					lines <- l
				}
				if err != nil {
					close(lines)
					return
				}
			}
		}()
		var seen []string
		base := 0
		for _, st := range p.lines {
			switch st[0] {
			case 'S':
				// everything the client writes from the moment this line goes out counts as its reaction to it (the
				// client may answer before this goroutine runs again: take the mark BEFORE writing)
				mu.Lock()
				base = len(p.result.got)
				mu.Unlock()
				conn.Write([]byte(st[1:] + "\r\n"))
			case 'E':
				// behave like a server from here on: every CAP REQ (those already received included) is acknowledged as
				// it stands, until the client has been silent for 600 ms or has closed
				ack := func(l string) {
					if strings.HasPrefix(l, "CAP REQ :") {
						mu.Lock()
						base = len(p.result.got)
						mu.Unlock()
						conn.Write([]byte(":srv CAP * ACK :" + strings.TrimPrefix(l, "CAP REQ :") + "\r\n"))
					}
				}
				for _, l := range seen {
					ack(l)
				}
			echo:
				for {
					select {
					case l, ok := <-lines:
						if !ok {
							break echo
						}
						seen = append(seen, l)
						ack(l)
					case <-time.After(600 * time.Millisecond):
						break echo
					}
				}
			case 'W':
				found := false
				for _, l := range seen {
					if strings.HasPrefix(l, st[1:]) {
						found = true
					}
				}
				for !found {
					select {
					case l, ok := <-lines:
						if !ok {
							return
						}
						seen = append(seen, l)
						found = strings.HasPrefix(l, st[1:])
					case <-time.After(3 * time.Second):
						return
					}
				}
			}
		}
		// after the last scripted line: collect what else the client writes until it closes (or 400 ms of silence)
		gotAny := false
		mu.Lock()
		if len(p.result.got) > base {
			gotAny = true // the reaction is already here
		}
		mu.Unlock()
		for {
			// the client's reaction to the last scripted line may take a while on a loaded machine: wait up to 3 s
			// for its first line (or the close), then for 400 ms of silence
			window := 400 * time.Millisecond
			if !gotAny {
				window = 3 * time.Second
			}
			select {
			case _, ok := <-lines:
				gotAny = true
				if !ok {
					mu.Lock()
					p.result.afterAck = append([]string{}, p.result.got[base:]...)
					mu.Unlock()
					return
				}
			case <-time.After(window):
				mu.Lock()
				p.result.afterAck = append([]string{}, p.result.got[base:]...)
				mu.Unlock()
				return
			}
		}
	}()
	return cli, nil
}

type recordConn struct {
	net.Conn
	first []byte
}

func (r *recordConn) Read(b []byte) (int, error) {
	n, err := r.Conn.Read(b)
	if len(r.first) < 3 && n > 0 {
		k := 3 - len(r.first)
		if k > n {
			k = n
		}
		r.first = append(r.first, b[:k]...)
	}
	return n, err
}

func newPeer(kind string, lines ...string) *peerScript {
	return &peerScript{kind: kind, lines: lines, result: &peerResult{}}
}

func connectWithTimeout(c *girc.Client, d girc.Dialer) string {
	done := make(chan error, 1)
	go func() { done <- c.DialerConnect(d) }()
	select {
	case err := <-done:
		if err == nil {
			return "nil"
		}
		var se *girc.ErrSTSUpgradeFailed
		if errors.As(err, &se) {
			return "stsfail"
		}
		if ee, ok := err.(*girc.ErrEvent); ok {
			t := ee.Error()
			if i := strings.Index(t, "config: "); i >= 0 {
				t = t[:i]
			}
			return "errevent:" + t
		}
		return "err:" + err.Error()
	case <-time.After(12 * time.Second):
		go c.Close() // (in a goroutine: if Connect is stuck holding the client mutex, Close blocks as well)
		return "timeout"
	}
}

func stsDump(c *girc.Client) string {
	for _, l := range girc.VerifDumpState(c) {
		if strings.HasPrefix(l, "sts\x00") {
			f := strings.Split(l, "\x00")
			return strings.Join(f[1:5], " ")
		}
	}
	return "?"
}

func isHello(b []byte) bool { return len(b) >= 2 && b[0] == 0x16 && b[1] == 0x03 }

func init() {
	props["C10"] = runC10

	// upgrade: plaintext connection, the server advertises and acknowledges sts=<advert>
	runners["stsupgrade"] = func(c *Ctx, in map[string]string) {
		hin := hexIn(in)
		adv := in["advert"]
		cfg := girc.Config{Server: "irc.example.org", Port: cfgPort(in), Nick: "me", User: "me", DisableSTS: in["nosts"] == "1", DisableSTSFallback: in["nofallback"] == "1",
			SSL: in["ssl"] == "1", TLSConfig: &tls.Config{InsecureSkipVerify: true}}
		if in["sasl"] == "1" {
			cfg.SASL = &girc.SASLPlain{User: "u", Pass: "p"}
		}
		cl := girc.New(cfg)
		capLine := "multi-prefix sts"
		if adv != "" {
			capLine = "multi-prefix sts=" + adv
		}
		if in["sasl"] == "1" {
			capLine += " sasl"
		}
		first := newPeer("plain", "WUSER", "S:srv CAP * LS :"+capLine, "WCAP REQ", "S:srv CAP * ACK :multi-prefix sts"+map[bool]string{true: " sasl", false: ""}[in["sasl"] == "1"])
		if in["multiline"] == "1" {
			// the advertisement is split over two lines, the policy on the second; the server acknowledges every request as it stands
			rest := strings.TrimPrefix(capLine, "multi-prefix ")
			first = newPeer("plain", "WUSER", "S:srv CAP * LS * :multi-prefix away-notify", "S:srv CAP * LS :"+rest, "E")
		}
		if cfg.SSL {
			first.kind = "tls"
		}
		second := newPeer("sniff")
		third := newPeer("sniff")
		d := &scriptDialer{peers: []*peerScript{first, second, third}}
		r1 := connectWithTimeout(cl, d)
		d.wg.Wait()
		requested := false
		for _, l := range first.result.got {
			if strings.HasPrefix(l, "CAP REQ") && strings.Contains(" "+strings.TrimPrefix(l, "CAP REQ :")+" ", " sts ") {
				requested = true
			}
		}
		sts1 := stsDump(cl)
		dials1 := append([]string{}, d.dials...)
		// a later Connect of the same client
		r2 := connectWithTimeout(cl, d)
		d.wg.Wait()
		_ = r2
		impl := fmt.Sprintf("requested=%v r1=%s after=%q dials=%v hello2=%v sts=%s r2dial=%s hello3=%v", requested, r1, first.result.afterAck, dials1, isHello(second.result.firstBytes), sts1,
			lastOf(d.dials), isHello(third.result.firstBytes))
		// model
		wantReq := !cfg.DisableSTS && !cfg.SSL
		model := "requested=false"
		if wantReq {
			m := strings.Fields(c.L.Call("sts.onack", "0", "-1", "-1", hx(adv)))
			port, act := m[0], m[4]
			switch act {
			case "upgrade":
				model = fmt.Sprintf("requested=true upgrade port=%s", port)
			case "abort":
				model = "requested=true abort"
			default:
				model = "requested=true continue"
			}
		}
		c.R.Dist["sts:"+strings.Fields(model + " x")[1]]++
		ok := true
		switch {
		case !wantReq:
			ok = !requested && len(dials1) == 1 && isPlainAddr(in, dials1[0])
		case strings.Contains(model, "upgrade"):
			port := model[strings.Index(model, "port=")+5:]
			ok = requested && len(first.result.afterAck) == 0 && len(dials1) == 2 && dials1[1] == "irc.example.org:"+port && isHello(second.result.firstBytes) &&
				lastOf(d.dials) == "irc.example.org:"+port && isHello(third.result.firstBytes)
		case strings.Contains(model, "abort"):
			ok = requested && strings.HasPrefix(r1, "errevent:closing connection: strict transport policy") && len(dials1) == 1 &&
				isPlainAddr(in, lastOf(d.dials)) && !isHello(second.result.firstBytes) && strings.HasPrefix(sts1, "-1 ")
		}
		if !ok {
			c.R.Violation("sts.upgrade", hin, impl, model, "STS behaviour on a plaintext connection differs from the policy decision")
		}
	}

	// stored policy + failing dial
	runners["stsdialfail"] = func(c *Ctx, in map[string]string) {
		hin := hexIn(in)
		var port, dur, ago int
		fmt.Sscan(in["port"], &port)
		fmt.Sscan(in["duration"], &dur)
		fmt.Sscan(in["receivedago"], &ago)
		cfg := girc.Config{Server: "irc.example.org", Port: cfgPort(in), Nick: "me", User: "me", DisableSTSFallback: in["nofallback"] == "1", TLSConfig: &tls.Config{InsecureSkipVerify: true}}
		cl := girc.New(cfg)
		girc.VerifSetSTS(cl, port, dur, time.Duration(ago)*time.Second, -1)
		if in["notrack"] == "1" {
			// switching state tracking off afterwards does not make the client forget the transport policy it has learned
			cl.DisableTracking()
		}
		kind := in["failkind"] // "fail" = dial error; "sniff" = handshake failure
		d := &scriptDialer{peers: []*peerScript{newPeer(kind), newPeer("sniff")}}
		r1 := connectWithTimeout(cl, d)
		d.wg.Wait()
		sts1 := stsDump(cl)
		r2 := connectWithTimeout(cl, d)
		d.wg.Wait()
		_ = r2
		// `strictTransport.expired()` as the timed model computes it (time in ns; the policy was received `ago` seconds ago)
		expired := c.L.Call("sts.expired", fmt.Sprint(int64(ago)*1e9+1000), fmt.Sprint(dur), "0") == "1"
		if expired != (ago > dur) {
			c.R.Mismatch("sts.expired_arith", hin, fmt.Sprint(ago > dur), fmt.Sprint(expired))
		}
		// … and as the function body regenerated from state.go computes it (Gen/Funcs.lean, Props/TieSts)
		if g := c.L.Call("gen.strictTransport.expired", fmt.Sprint(int64(ago)*1e9+1000), fmt.Sprint(dur), "0"); g != bl(expired) {
			c.R.Mismatch("translated.strictTransport.expired", hin, bl(expired), g)
		}
		c.R.Dist["translated.strictTransport.expired"]++
		m := strings.Fields(c.L.Call("sts.dialfail", bl(cfg.DisableSTSFallback), bl(expired), fmt.Sprint(port), fmt.Sprint(dur)))
		if kind == "sniff" {
			// tls.Client handshakes lazily: newConn itself succeeds, the failure surfaces as an I/O error of the
			// session and the stored policy is left alone (no fallback)
			m = []string{fmt.Sprint(port), fmt.Sprint(dur), "io"}
		}
		plan := strings.Fields(c.L.Call("sts.plan", fmt.Sprint(cfgPort(in)), "0", fmt.Sprint(port)))
		wantAddr := "irc.example.org:" + plan[0]
		wantErr := map[string]string{"sts": "stsfail", "plain": "err:dial refused (scripted)"}[m[2]]
		plan2 := strings.Fields(c.L.Call("sts.plan", fmt.Sprint(cfgPort(in)), "0", m[0]))
		impl := fmt.Sprintf("dial1=%s r1=%s sts=%s dial2=%s", d.dials[0], r1, sts1, lastOf(d.dials))
		model := fmt.Sprintf("dial1=%s r1=%s sts=%s %s dial2=%s", wantAddr, wantErr, m[0], m[1], "irc.example.org:"+plan2[0])
		ok := d.dials[0] == wantAddr && strings.HasPrefix(sts1, m[0]+" "+m[1]+" ") && lastOf(d.dials) == "irc.example.org:"+plan2[0]
		if kind == "fail" {
			ok = ok && r1 == wantErr
		} else if port > 0 {
			ok = ok && (r1 == "stsfail" || strings.HasPrefix(r1, "err:")) // a failed handshake surfaces as an I/O error of the session
		}
		if !ok {
			c.R.Mismatch("sts.dialfail", hin, impl, model)
		}
		// the property's own clause: unexpired policy => upgrade error, no fallback
		if port > 0 && !expired && kind == "fail" && (r1 != "stsfail" || lastOf(d.dials) != fmt.Sprintf("irc.example.org:%d", port)) {
			c.R.Violation("sts.no_fallback", hin, impl, "", "a failed dial under an unexpired policy fell back or did not report an upgrade error")
		}
	}

	// a TLS connection established through a stored policy: duration/port/preload handling
	runners["ststls"] = func(c *Ctx, in map[string]string) {
		hin := hexIn(in)
		adv := in["advert"]
		cfg := girc.Config{Server: "irc.example.org", Port: cfgPort(in), Nick: "me", User: "me", TLSConfig: &tls.Config{InsecureSkipVerify: true}}
		cl := girc.New(cfg)
		girc.VerifSetSTS(cl, 6697, 100, time.Second, -1)
		capLine := "multi-prefix sts"
		if adv != "" {
			capLine = "multi-prefix sts=" + adv
		}
		p := newPeer("tls", "WUSER", "S:srv CAP * LS :"+capLine, "WCAP REQ", "S:srv CAP * ACK :multi-prefix sts")
		d := &scriptDialer{peers: []*peerScript{p}}
		done := make(chan string, 1)
		go func() { done <- connectWithTimeout(cl, d) }()
		// wait for the peer script to finish, then look at the stored policy and close
		time.Sleep(50 * time.Millisecond)
		deadline := time.Now().Add(6 * time.Second)
		for time.Now().Before(deadline) {
			if len(p.result.afterAck) > 0 {
				break
			}
			select {
			case r := <-done:
				done <- r
				deadline = time.Now()
			default:
				time.Sleep(20 * time.Millisecond)
			}
		}
		sts := stsDump(cl)
		cl.Close()
		r1 := <-done
		d.wg.Wait()
		m := strings.Fields(c.L.Call("sts.onack", "1", "6697", "100", hx(adv)))
		impl := fmt.Sprintf("hello=%v sts=%s after=%q r1=%s", isHello(p.result.firstBytes), sts, p.result.afterAck, r1)
		model := fmt.Sprintf("sts=%s %s %s act=%s", m[0], m[1], m[2], m[4])
		ok := isHello(p.result.firstBytes) && strings.HasPrefix(sts, m[0]+" "+m[1]+" "+m[2]+" ")
		switch m[4] {
		case "abort":
			ok = ok && strings.HasPrefix(r1, "errevent:closing connection: strict transport policy")
		case "continue":
			ok = ok && len(p.result.afterAck) == 1 && p.result.afterAck[0] == "CAP END"
		}
		if !ok {
			c.R.Mismatch("sts.tls", hin, impl, model)
		}
	}
}

func init() {
	// "on TLS the port key is ignored" — also for an acknowledgement that is handled while the application is closing the
	// connection: a handler holds the event loop, the ACK (with a port key) is queued behind it, Close() is called, the handler
	// returns.  Connect returns; nothing is dialled again.
	runners["ststlsclose"] = func(c *Ctx, in map[string]string) {
		hin := hexIn(in)
		cfg := girc.Config{Server: "irc.example.org", Port: 6667, Nick: "me", User: "me", TLSConfig: &tls.Config{InsecureSkipVerify: true}}
		cl := girc.New(cfg)
		girc.VerifSetSTS(cl, 6697, 100, time.Second, -1)
		entered, gate := make(chan struct{}, 1), make(chan struct{})
		cl.Handlers.Add(girc.NOTICE, func(_ *girc.Client, e girc.Event) {
			if e.Last() == "hold" {
				select {
				case entered <- struct{}{}:
				default:
				}
				<-gate
			}
		})
		p := newPeer("tls", "WUSER", "S:srv CAP * LS :multi-prefix sts=port=7000,duration=100", "WCAP REQ", "S:srv NOTICE * :hold", "S:srv CAP * ACK :multi-prefix sts")
		d := &scriptDialer{peers: []*peerScript{p, newPeer("sniff"), newPeer("sniff")}}
		done := make(chan string, 1)
		go func() { done <- connectWithTimeout(cl, d) }()
		select {
		case <-entered:
		case <-time.After(6 * time.Second):
			close(gate)
			c.R.Mismatch("sts.tlsclose_setup", hin, "the NOTICE handler was never entered", "")
			<-done
			return
		}
		time.Sleep(150 * time.Millisecond) // the ACK has been read and waits behind the handler
		cl.Close()
		time.Sleep(20 * time.Millisecond)
		close(gate)
		r1 := <-done
		d.wg.Wait()
		d.mu.Lock()
		dials := append([]string{}, d.dials...)
		d.mu.Unlock()
		if r1 != "nil" || len(dials) != 1 {
			c.R.Violation("sts.tls_port_acted_on_during_close", hin, fmt.Sprintf("r1=%s dials=%v sts=%s", r1, dials, stsDump(cl)), "r1=nil, one dial",
				"an STS acknowledgement with a port key, received on a TLS connection and handled while Close() was in progress, was acted on (redial / no return): on TLS the port key is ignored")
		}
		c.R.Count("ststlsclose", true, "tls-ack-during-close")
	}
	// "later connects of the same client keep using TLS on that port": a policy's lifetime is counted from the END of the
	// last connection made under it (IRCv3 sts: the expiry is re-based at disconnection), so a TLS session that outlasts
	// the duration and is then closed cleanly leaves an UNEXPIRED policy: a failing redial is an upgrade error, never a
	// fallback to plaintext.
	runners["stsrebase"] = func(c *Ctx, in map[string]string) {
		hin := hexIn(in)
		cfg := girc.Config{Server: "irc.example.org", Port: cfgPort(in), Nick: "me", User: "me", TLSConfig: &tls.Config{InsecureSkipVerify: true}}
		cl := girc.New(cfg)
		girc.VerifSetSTS(cl, 6697, 1, 0, -1) // stored policy: port 6697, one second, just received
		p := newPeer("tls", "WUSER", "S:srv CAP * LS :multi-prefix", "WCAP REQ", "S:srv CAP * ACK :multi-prefix", "WCAP END", "S:srv 001 me :Welcome")
		d := &scriptDialer{peers: []*peerScript{p, newPeer("fail"), newPeer("sniff")}}
		done := make(chan string, 1)
		go func() { done <- connectWithTimeout(cl, d) }()
		time.Sleep(2300 * time.Millisecond) // the session outlasts the policy's duration
		cl.Close()
		r1 := <-done
		d.wg.Wait()
		r2 := connectWithTimeout(cl, d) // the dial fails
		d.wg.Wait()
		r3 := connectWithTimeout(cl, d)
		d.wg.Wait()
		impl := fmt.Sprintf("hello1=%v r1=%s r2=%s dials=%v r3=%s", isHello(p.result.firstBytes), r1, r2, d.dials, r3)
		// the timed model on the same history: clean end at 2.3 s, failing dial right after
		tm := c.L.Call("sts.timed", "6697", "1", "0", "cleanEnd:2300000000", "dialFail:2310000000:0")
		if !strings.Contains(tm, "stsUpgradeFailed | 6697 1 ") {
			c.R.Mismatch("sts.timed_model", hin, impl, tm)
		}
		if nr := c.L.Call("sts.timed.norebase", "6697", "1", "0", "cleanEnd:2300000000", "dialFail:2310000000:0"); !strings.Contains(nr, "stsFallback") {
			c.R.Mismatch("sts.timed_norebase", hin, "the scenario does not distinguish re-basing", nr)
		}
		if !isHello(p.result.firstBytes) || r1 != "nil" {
			c.R.Mismatch("sts.rebase_setup", hin, impl, "first connection: TLS through the stored policy, closed cleanly")
			return
		}
		if r2 != "stsfail" || len(d.dials) < 3 || d.dials[1] != "irc.example.org:6697" || d.dials[2] != "irc.example.org:6697" {
			c.R.Violation("sts.policy_dropped_after_session", hin, impl, "r2=stsfail, every dial to irc.example.org:6697",
				"after a cleanly closed TLS session the policy is unexpired (its lifetime restarts at disconnection): a failed dial must return an upgrade error and later connects keep using the TLS port")
		}
		c.R.Count("stsrebase", true, "rebase")
	}
}

func init() {
	// A failed upgrade must leave nothing behind: plaintext server acknowledges a policy, the TLS redial is refused (the
	// policy falls back), the application connects again — an ordinary plaintext session — and calls Close(): Connect
	// returns nil and no further dial is made.
	runners["stsfailedthenclose"] = func(c *Ctx, in map[string]string) {
		hin := hexIn(in)
		cfg := girc.Config{Server: "irc.example.org", Port: cfgPort(in), Nick: "me", User: "me", TLSConfig: &tls.Config{InsecureSkipVerify: true}}
		cl := girc.New(cfg)
		first := newPeer("plain", "WUSER", "S:srv CAP * LS :multi-prefix sts=port=6697", "WCAP REQ", "S:srv CAP * ACK :multi-prefix sts")
		third := newPeer("plain", "WUSER", "S:srv CAP * LS :multi-prefix", "WCAP REQ", "S:srv CAP * ACK :multi-prefix", "WCAP END", "S:srv 001 me :Welcome", "SPING :x", "WPONG")
		d := &scriptDialer{peers: []*peerScript{first, newPeer("fail"), third, newPeer("fail"), newPeer("fail")}}
		r1 := connectWithTimeout(cl, d)
		d.wg.Wait()
		done := make(chan string, 1)
		go func() { done <- connectWithTimeout(cl, d) }()
		deadline := time.Now().Add(4 * time.Second)
		for time.Now().Before(deadline) && !cl.IsConnected() {
			time.Sleep(5 * time.Millisecond)
		}
		time.Sleep(150 * time.Millisecond)
		cl.Close()
		r2 := <-done
		d.wg.Wait()
		d.mu.Lock()
		dials := append([]string{}, d.dials...)
		d.mu.Unlock()
		impl := fmt.Sprintf("r1=%s r2=%s dials=%v", r1, r2, dials)
		if r1 != "stsfail" || len(dials) < 3 || dials[1] != "irc.example.org:6697" {
			c.R.Mismatch("sts.failedthenclose_setup", hin, impl, "first Connect: upgrade to :6697 refused => upgrade error")
			return
		}
		if r2 != "nil" || len(dials) != 3 {
			c.R.Violation("sts.stale_upgrade_request", hin, impl, "r2=nil and exactly three dials",
				"after a failed upgrade a later ordinary session ended by Close() must make Connect return nil without dialling again")
		}
		c.R.Count("stsfailedthenclose", true, "failed-upgrade-then-close")
	}
}

func lastOf(l []string) string {
	if len(l) == 0 {
		return ""
	}
	return l[len(l)-1]
}

func runC10(c *Ctx) {
	r := c.R
	r.Rule = "a real client behind a recording Dialer with in-process plaintext and TLS peers (self-signed certificate): (i) EVERY advertisement shape (port present/absent/non-numeric/negative/0/20/21/6697/65535/65536/overflow, " +
		"duration, preload, combinations) acknowledged on plaintext x configurations (DisableSTS, SSL, SASL): lines after the ACK, Connect result, redial address, first bytes of the next connection (TLS ClientHello 16 03), later Connect; " +
		"(ii) stored policies (unexpired / expired) x dial failure / handshake failure x DisableSTSFallback; (iii) TLS connections established through a stored policy with duration/port/preload variants; decisions compared with the Lean model; " +
		"non-trivial = the policy decision is upgrade or abort, or a dial fails; distinct = distinct scenario"
	adverts := []string{"port=6697", "port=21", "port=65535", "port=20", "port=0", "port=-1", "port=65536", "port=99999999999999999999", "port=abc", "port=", "", "duration=100", "duration=100,port=6697", "port=6697,duration=0,preload",
		"preload", "port=6697,port=7000", "PORT=6697", "port=6697x", "port=+6697", "port=15"}
	for _, adv := range adverts {
		for _, cfgv := range []map[string]string{{}, {"nosts": "1"}, {"ssl": "1"}, {"sasl": "1"}, {"nofallback": "1"}} {
			if c.Tier != "thorough" && len(cfgv) > 0 && adv != "port=6697" && adv != "port=15" && adv != "" {
				continue
			}
			in := map[string]string{"advert": adv}
			for k, v := range cfgv {
				in[k] = v
			}
			c.run("stsupgrade", in)
			r.Count(fmt.Sprint(in), true, "upgrade-matrix")
			r.Traces++
		}
	}
	for _, adv := range []string{"port=6697", "port=15", "", "duration=100,port=6697"} {
		in := map[string]string{"advert": adv, "multiline": "1"}
		c.run("stsupgrade", in)
		r.Count(fmt.Sprint(in), true, "upgrade-multiline")
		r.Traces++
	}
	// Config.Port left unset (the default port is filled in by the library): the policy's port still decides where the upgrade goes
	for _, adv := range []string{"port=6697", "port=7000,duration=100", "port=15", ""} {
		in := map[string]string{"advert": adv, "cfgport": "0"}
		c.run("stsupgrade", in)
		r.Count(fmt.Sprint(in), true, "upgrade-default-port")
		r.Traces++
	}
	for _, kind := range []string{"fail", "sniff"} {
		in := map[string]string{"port": "6697", "duration": "1000", "receivedago": "5", "failkind": kind, "nofallback": "0", "cfgport": "0"}
		c.run("stsdialfail", in)
		r.Count(fmt.Sprint(in), true, "dialfail-default-port")
		r.Traces++
	}
	c.run("ststlsclose", map[string]string{"scenario": "TLS, handler holds the loop, ACK with port queued, Close, release"})
	c.run("stsshared", map[string]string{"scenario": "a default client negotiates sts, then DisableSTS and SSL clients in the same process"})
	r.Traces++
	r.Traces++
	r.Exhaustive = true
	for _, port := range []string{"6697", "-1"} {
		for _, age := range [][2]string{{"1000", "5"}, {"10", "50"}, {"-1", "0"}, {"9223372036854775807", "5"}, {"10000000000", "100"}, {"31536000", "86400"}, {"50", "50"}, {"50", "52"}} {
			for _, kind := range []string{"fail", "sniff"} {
				for _, nofb := range []string{"0", "1"} {
					in := map[string]string{"port": port, "duration": age[0], "receivedago": age[1], "failkind": kind, "nofallback": nofb}
					c.run("stsdialfail", in)
					r.Count(fmt.Sprint(in), true, "dialfail-matrix")
					r.Traces++
				}
			}
		}
	}
	for _, kind := range []string{"fail", "sniff"} {
		in := map[string]string{"port": "6697", "duration": "86400", "receivedago": "5", "failkind": kind, "nofallback": "0", "notrack": "1"}
		c.run("stsdialfail", in)
		r.Count(fmt.Sprint(in), true, "dialfail-notrack")
		r.Traces++
	}
	for _, adv := range []string{"duration=500", "duration=500,port=1234", "port=1234", "", "duration=abc", "duration=0", "duration=500,preload", "duration=500,preload=true", "preload", "duration=-5"} {
		c.run("ststls", map[string]string{"advert": adv})
		r.Count("tls:"+adv, true, "tls-matrix")
		r.Traces++
	}
	c.run("stsfailedthenclose", map[string]string{"scenario": "ack, refused redial, plain session, Close"})
	r.Traces++
	c.run("stsrebase", map[string]string{"duration": "1", "session": "2.3s"})
	r.Traces++
	r.Sample(map[string]string{"scenario": "plaintext, server ACKs sts=port=6697", "expected": "no line after ACK; redial irc.example.org:6697; first bytes 16 03"})
}

// isPlainAddr: addr is "the configured address".  With Config.Port unset the library dials <server>:0 (Client.server() formats the
// address before newConn's private copy of the Config gets the documented default 6667: observation O20); the property does not
// say which of the two is "the configured address", so both are accepted there — the POLICY port is what the property fixes.
func isPlainAddr(in map[string]string, addr string) bool {
	if in["cfgport"] == "0" {
		return addr == "irc.example.org:0" || addr == "irc.example.org:6667"
	}
	return addr == "irc.example.org:6667"
}

// cfgPort: the configured port; "0" leaves Config.Port unset
func cfgPort(in map[string]string) int {
	if in["cfgport"] == "0" {
		return 0
	}
	return 6667
}

// "with DisableSTS or configured SSL the policy is neither requested nor acted on" — also when ANOTHER client of the same process
// (default configuration) has negotiated with a server that advertises sts before: clients share nothing.
func init() {
	runners["stsshared"] = func(c *Ctx, in map[string]string) {
		hin := hexIn(in)
		req := func(cfg girc.Config) (string, bool) {
			cl := girc.New(cfg)
			cli, srv := net.Pipe()
			ret := make(chan error, 1)
			go func() { ret <- cl.MockConnect(cli) }()
			rd := bufio.NewReader(srv)
			defer func() {
				cl.Close()
				srv.Close()
				select {
				case <-ret:
				case <-time.After(5 * time.Second):
				}
			}()
			for {
				srv.SetReadDeadline(time.Now().Add(3 * time.Second))
				l, err := rd.ReadString('\n')
				if err != nil {
					return "", false
				}
				l = strings.TrimRight(l, "\r\n")
				switch {
				case strings.HasPrefix(l, "CAP LS"):
					srv.SetWriteDeadline(time.Now().Add(2 * time.Second))
					srv.Write([]byte(":srv CAP * LS :multi-prefix sts=port=6697,duration=100 away-notify\r\n"))
				case strings.HasPrefix(l, "CAP REQ"), l == "CAP END":
					return l, true
				}
			}
		}
		base := girc.Config{Server: "irc.example.org", Port: 6667, Nick: "me", User: "me"}
		first, ok1 := req(base)
		if !ok1 || !strings.Contains(" "+strings.TrimPrefix(first, "CAP REQ :")+" ", " sts ") {
			c.R.Mismatch("sts.shared_setup", hin, first, "the default client requests sts")
			return
		}
		for _, v := range []string{"nosts", "ssl"} {
			cfg := base
			cfg.Nick = "other"
			if v == "nosts" {
				cfg.DisableSTS = true
			} else {
				cfg.SSL = true
				cfg.TLSConfig = &tls.Config{InsecureSkipVerify: true}
			}
			l, ok := req(cfg)
			if !ok {
				c.R.Mismatch("sts.shared_session", hin, v+": no request line", "")
				continue
			}
			if strings.Contains(" "+strings.TrimPrefix(l, "CAP REQ :")+" ", " sts ") {
				c.R.Violation("sts.requested_despite_config", hin, v+": "+l, "a request without sts",
					"a client configured with DisableSTS / SSL requested the sts capability after another client of the process had negotiated it")
			}
		}
		c.R.Count("stsshared", true, "two-clients-one-process")
	}
}
