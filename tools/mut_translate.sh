#!/bin/bash
# Mutation sanity for the Go->Lean translator: apply one textual mutation to a scratch copy of the Go
# sources, regenerate lean/Girc/Gen/Funcs.lean from it, and check that `lake build` of the Tie modules fails
# (or, with expect=pass, still succeeds).  Only Funcs.lean is touched, and it is restored afterwards.
#   usage: mut_translate.sh <name> <file.go> <perl-substitution> [expect=fail|pass]
#          mut_translate.sh suite          -- one mutation per target group (old and new), see the list at the end
#          mut_translate.sh suite4         -- the phase-4 entries only
set -u
TIE_MODULES="Girc.Props.TieNames Girc.Props.TieGlob Girc.Props.TieWire Girc.Props.TieModes Girc.Props.TieCtcp Girc.Props.TieFormat Girc.Props.TieState Girc.Props.TieSasl Girc.Props.TieRate Girc.Props.TieCommands Girc.Props.TieCap Girc.Props.TieSplit Girc.Props.TieSts"
if [ "${1:-}" = "suite" ] || [ "${1:-}" = "suite4" ]; then
  me="$0"; rc=0
  run() { out="$("$me" "$@")"; echo "$out"; case "$out" in *"=> OK"*) ;; *) rc=1;; esac; }
  phase4() {
  # phase 4: (*Event).split / Copy, sliceInsert, the remaining helpers, the STS clock predicates
  run split-ctcp4      event.go    's/maxLength -= len\(ctcp.Command\) \+ 4/maxLength -= len(ctcp.Command) + 3/'
  run split-lt         event.go    's/if event.LenOpts\(false\) < maxLength \{/if event.LenOpts(false) <= maxLength {/'
  run split-width      event.go    's/splitMessage\(text, maxLength-cmdLen\)/splitMessage(text, maxLength-cmdLen-1)/'
  run split-source     event.go    's/\t\tclonedEvent.Source = e.Source\n//'
  run split-callee     event.go    's/range splitMessage\(/range splitMsg(/'
  run copy-params      event.go    's/\t\tcopy\(newEvent.Params, e.Params\)\n//'
  run sourcecopy-host  event.go    's/Host:  s.Host,/Host:  s.Ident,/'
  run eventequals-neq  event.go    's/if e.Params\[i\] != ev.Params\[i\] \{/if e.Params[i] == ev.Params[i] {/'
  run eventstring      event.go    's/return string\(e.Bytes\(\)\)/return string(e.Source.Bytes())/'
  run sliceinsert-inpl format.go   's/copy\(output\[i:\], v\)/copy(output[i+1:], v)/'
  run sliceinsert-allo format.go   's/copy\(output, input\[:i\]\)/copy(output[1:], input[:i])/'
  run tagscount-nil    cap_tags.go 's/func \(t Tags\) Count\(\) int \{\n\tif t == nil \{\n\t\treturn 0/func (t Tags) Count() int {\n\tif t == nil {\n\t\treturn 1/'
  run tagsequals-key   cap_tags.go 's/tt.Get\("account"\)/tt.Get("accounts")/'
  run tagsremove-nodel cap_tags.go 's/\t\tdelete\(t, key\)\n//'
  run tagskeys-append  cap_tags.go 's/keys = append\(keys, key\)/keys = append(keys, key, key)/'
  run encodectcp-nil   ctcp.go     's/func EncodeCTCP\(ctcp \*CTCPEvent\) \(out string\) \{\n\tif ctcp == nil \{\n\t\treturn ""/func EncodeCTCP(ctcp *CTCPEvent) (out string) {\n\tif ctcp == nil {\n\t\treturn "x"/'
  run parsecmd-digit   ctcp.go     "s/cmd\\[i\\] > '9'/cmd[i] > '8'/"
  run sts-expired-ge   state.go    's/Seconds\(\)\) > s.persistenceDuration/Seconds()) >= s.persistenceDuration/'
  run sts-enabled-ge   state.go    's/return s.upgradePort > 0/return s.upgradePort >= 0/'
  run sts-reset-dur    state.go    's/s.persistenceDuration = -1/s.persistenceDuration = 0/'
  # not a semantic change (a local variable renamed in split): Funcs.lean changes, the Tie modules still build
  run split-rename     event.go    's/\bclonedEvent\b/cloned/g' pass
  }
  if [ "$1" = "suite4" ]; then phase4; exit $rc; fi
  # first phase (16 functions)
  run nick-brace      format.go   "s/nick\\[i\\] > '\\}'/nick[i] > '~'/"
  run rfc1459-94      format.go   's/<= 94/<= 93/'
  run glob-swap       format.go   's/trailingGlob := strings.HasPrefix\(match, globChar\), strings.HasSuffix\(match, globChar\)/trailingGlob := strings.HasSuffix(match, globChar), strings.HasPrefix(match, globChar)/'
  run parsetags-lt    cap_tags.go 's/hasValue < 1 \|\|/hasValue < 0 ||/'
  run ctcp-len        ctcp.go     's/len\(e.Params\[1\]\) < 3/len(e.Params[1]) < 2/'
  run source-at       event.go    "s/prefixHost    byte = '\@'/prefixHost    byte = '%'/"
  # ParseEvent
  run parseevent-trailer event.go 's/trailerIndex \+= lastIndex \+ 1/trailerIndex += lastIndex + 2/'
  run parseevent-upper   event.go 's/e.Command = strings.ToUpper\(raw\[i:j\]\)/e.Command = raw[i:j]/'
  # serialiser side
  run tagsbytes-nosort cap_tags.go 's/\tsort.Strings\(names\)\n//'
  run tagsbytes-sep    cap_tags.go 's/if current < max-1 \{\n\t\t\tbuffer.WriteByte/if current < max {\n\t\t\tbuffer.WriteByte/'
  run tagswrite-space  cap_tags.go 's/j, err = w.Write\(\[\]byte\{eventSpace\}\)/j, err = w.Write([]byte{messagePrefix})/'
  run tagsset-limit    cap_tags.go 's/len\(value\) \+ 2\) > maxTagLength/len(value) + 1) > maxTagLength/'
  run tagsset-rebind   cap_tags.go 's/\tif t == nil \{\n\t\tt = make\(Tags\)\n\t\}\n\n\tif !validTag\(key\)/\tif !validTag(key)/'
  run eventbytes-cr    event.go    "s/out\\[i\\] == '\\\\n' \\|\\| out\\[i\\] == '\\\\r'/out[i] == '\\\\n'/"
  run eventlen-colon   event.go    's/\t\t\t\tlength\+\+\n/\t\t\t\tlength += 2\n/'
  run sourcestring-at  event.go    's/out = out \+ string\(prefixHost\) \+ s.Host/out = out + string(prefixIdent) + s.Host/'
  # event.go helpers
  run last-index       event.go    's/return e.Params\[len\(e.Params\)-1\]/return e.Params[0]/'
  run stripaction-8    event.go    's/return msg\[8 : len\(msg\)-1\]/return msg[7 : len(msg)-1]/'
  run isfromuser-nick  event.go    's/if !IsValidNick\(e.Params\[0\]\)/if !IsValidUser(e.Params[0])/'
  run equals-host      event.go    's/ \|\| s.Host != ss.Host//'
  # modes.go
  run userprefix-rest  modes.go    's/return modes, raw\[i:\], true/return modes, raw[i+1:], true/'
  run hasarg-setargs   modes.go    's/\t\tif set \{\n\t\t\treturn true, true/\t\tif !set {\n\t\t\treturn true, true/'
  # format.go (Fmt, TrimFmt and the two package-level tables)
  run fmt-tolower      format.go   's/code := strings.ToLower\(text\[last\+1 : i\]\)/code := text[last+1 : i]/'
  run fmt-sep          format.go   's/repl \+= fmt.Sprintf\(",%02d", color\)/repl += fmt.Sprintf(";%02d", color)/'
  run fmt-table        format.go   's/"red":         4,/"red":         5,/'
  run trimfmt-brace    format.go   's/string\(fmtOpenChar\)\+color\+string\(fmtCloseChar\)/string(fmtCloseChar)+color+string(fmtOpenChar)/'
  run stripraw-regex   format.go   's/\[019\]\?\\d\(,\[019\]\?\\d\)\?\)`\)/[019]?\\d(;[019]?\\d)?)`)/'
  run stripraw-noregex format.go   's/\ttext = reColor.ReplaceAllString\(text, ""\)\n//'
  # phase 3: modes.go value level
  run newcmodes-pad    modes.go    's/for i := len\(split\); i < 4; i\+\+/for i := len(split); i < 3; i++/'
  run parse-argcount   modes.go    's/\t\t\tmode.args = args\[argCount\]\n\t\t\targCount\+\+\n/\t\t\tmode.args = args[argCount]\n/'
  run apply-setting    modes.go    's/\t\tif !modes\[i\].setting \{\n\t\t\tcontinue/\t\tif modes[i].setting {\n\t\t\tcontinue/'
  run apply-remove     modes.go    's/newModes = append\(newModes\[:j\], newModes\[j\+1:\]...\)/newModes = append(newModes[:j], newModes[j:]...)/'
  run hasmode-neq      modes.go    's/if string\(c.modes\[i\].name\) == mode \{\n\t\t\treturn true/if string(c.modes[i].name) != mode {\n\t\t\treturn true/'
  run modestring-sep   modes.go    's/args \+= " " \+ c.modes\[i\].args/args += "," + c.modes[i].args/'
  run copy-from1       modes.go    's/for i := 0; i < len\(c.modes\); i\+\+ \{\n\t\tnc.modes\[i\]/for i := 1; i < len(c.modes); i++ {\n\t\tnc.modes[i]/'
  run perms-set-op     modes.go    's/case OperatorPrefix:\n\t\t\tm.Op = true/case OperatorPrefix:\n\t\t\tm.Voice = true/'
  run perms-frommode   modes.go    's/case ModeVoice:\n\t\tm.Voice = mode.add/case ModeVoice:\n\t\tm.Voice = !mode.add/'
  # state.go list helpers
  run addchannel-sort  state.go    's/\tsort.Strings\(u.ChannelList\)\n//'
  run delchannel-slice state.go    's/u.ChannelList = append\(u.ChannelList\[:j\], u.ChannelList\[j\+1:\]...\)/u.ChannelList = append(u.ChannelList[:j], u.ChannelList[j:]...)/'
  run adduser-fold     state.go    's/ch.UserList = append\(ch.UserList, ToRFC1459\(nick\)\)/ch.UserList = append(ch.UserList, nick)/'
  run userin-fold      state.go    's/func \(ch \*Channel\) UserIn\(name string\) bool \{\n\tname = ToRFC1459\(name\)\n/func (ch *Channel) UserIn(name string) bool {\n/'
  # cap_sasl.go, conn.go rate
  run saslplain-sep    cap_sasl.go 's/in = append\(in, 0x0\)\n\tin = append\(in, \[\]byte\(sasl.User\)...\)/in = append(in, 0x1)\n\tin = append(in, []byte(sasl.User)...)/'
  run saslext-ident    cap_sasl.go 's/if sasl.Identity != "" \{/if sasl.Identity == "" {/'
  run saslchunk-400    cap_sasl.go 's/if len\(auth\) == 400 \{/if len(auth) == 399 {/'
  run saslchunk-size   cap_sasl.go 's/const saslChunkSize = 400/const saslChunkSize = 399/'
  run rate-8s          conn.go     's/c.writeDelay > \(8 \* time.Second\)/c.writeDelay > (9 * time.Second)/'
  run rate-after       conn.go     's/if c.lastDue.After\(last\)/if c.lastDue.Before(last)/'
  run rate-due         conn.go     's/c.lastDue = now.Add\(_time\)/c.lastDue = now/'
  # commands.go
  run join-max         commands.go 's/max := cmd.c.MaxEventLength\(\) - len\(JOIN\) - 1/max := cmd.c.MaxEventLength() - len(JOIN) - 2/'
  run list-flush       commands.go 's/cmd.c.Send\(&Event\{Command: LIST, Params: \[\]string\{buffer\}\}\)\n\t\t\tbuffer = ""/cmd.c.Send(&Event{Command: LIST, Params: []string{buffer}})/'
  run ping-sink        commands.go 's/cmd.c.write\(&Event\{Command: PING/cmd.c.Send(&Event{Command: PING/'
  run kick-params      commands.go 's/Params: \[\]string\{channel, user\}\}\)/Params: []string{user, channel}})/'
  run ban-flag         commands.go 's/cmd.Mode\(channel, "\+b", mask\)/cmd.Mode(channel, "-b", mask)/'
  # cap.go parseCap
  run parsecap-val     cap.go      's/if val < 1 \|\| len\(parts\[i\]\) < val\+1/if val < 0 || len(parts[i]) < val+1/'
  run parsecap-opt     cap.go      's/out\[parts\[i\]\[:val\]\]\[option\[:j\]\] = option\[j\+1:\]/out[parts[i][:val]][option[:j]] = option[j:]/'
  phase4
  # not a semantic change (a local variable renamed in Apply): Funcs.lean changes, the Tie modules still build
  run apply-rename     modes.go    's/\bnewModes\b/nmodes/g' pass
  # not a semantic change: must still build
  run comment-only     event.go    's/\/\/ Command is required./\/\/ The command is required./' pass
  exit $rc
fi
export GOFLAGS=-mod=mod GOPROXY=off GOSUMDB=off GOTOOLCHAIN=local
ROOT="$(cd "$(dirname "$0")/.." && pwd)"
# Clean export of the Go sources (never the live /repo working tree, which other jobs may be patching):
#   mkdir -p repo_clean && git -C /repo archive HEAD | tar -x -C repo_clean
REPO="${REPO:-$ROOT/repo_clean}"
name="$1"; file="$2"; subst="$3"; expect="${4:-fail}"
scratch="$(mktemp -d /tmp/mut_tr_XXXXXX)"
rsync -a --exclude .git "$REPO/" "$scratch/"
before="$(sha256sum "$scratch/$file" | cut -d' ' -f1)"
perl -0pi -e "$subst" "$scratch/$file"
after="$(sha256sum "$scratch/$file" | cut -d' ' -f1)"
if [ "$before" = "$after" ]; then echo "MUT $name: substitution did not apply"; rm -rf "$scratch"; exit 2; fi
( cd "$ROOT/tools/extract" && go build -o "$ROOT/tools/extract/extract.bin" . ) || exit 3
cp "$ROOT/lean/Girc/Gen/Funcs.lean" "$scratch/Funcs.orig"
mkdir -p "$scratch/gen"
"$ROOT/tools/extract/extract.bin" -repo "$scratch" -out "$scratch/gen/Facts.lean" 2> "$scratch/extract.err"
cmp -s "$scratch/gen/Funcs.lean" "$ROOT/lean/Girc/Gen/Funcs.lean" || cp "$scratch/gen/Funcs.lean" "$ROOT/lean/Girc/Gen/Funcs.lean"
if cmp -s "$ROOT/lean/Girc/Gen/Funcs.lean" "$scratch/Funcs.orig"; then changed=no; else changed=yes; fi
( cd "$ROOT/lean" && lake build $TIE_MODULES > "$scratch/build.log" 2>&1 ); rc=$?
if [ $rc -eq 0 ]; then built=pass; else built=fail; fi
first="$(grep -m1 -E '^error: Girc' "$scratch/build.log" | cut -c1-160)"
# restore
cp "$scratch/Funcs.orig" "$ROOT/lean/Girc/Gen/Funcs.lean"
verdict=BAD; [ "$built" = "$expect" ] && verdict=OK
echo "MUT $name: Funcs.lean changed=$changed, Tie build=$built (expected $expect) => $verdict ${first}"
rm -rf "$scratch"
