import Girc.Model.ServerTime
/- Proofs about the server-time model (C02: "a valid server-time tag becomes the event timestamp"). -/
namespace Girc.Proofs.ServerTime
open Girc Girc.Model.ServerTime

/-! ### helpers: the renderer's digits are read back by the parser's chunks -/

/-- the ASCII digit for `d` -/
def dg (d : Nat) : Byte := (0x30 + d).toUInt8

theorem dg_ok (d : Nat) (h : d < 10) : isDigit (dg d) = true ∧ dval (dg d) = d := by
  have hc : d = 0 ∨ d = 1 ∨ d = 2 ∨ d = 3 ∨ d = 4 ∨ d = 5 ∨ d = 6 ∨ d = 7 ∨ d = 8 ∨ d = 9 := by omega
  rcases hc with rfl | rfl | rfl | rfl | rfl | rfl | rfl | rfl | rfl | rfl <;> decide

theorem isDigit_dg (d : Nat) (h : d < 10) : isDigit (dg d) = true := (dg_ok d h).1
theorem dval_dg (d : Nat) (h : d < 10) : dval (dg d) = d := (dg_ok d h).2

theorem pad2 (n : Nat) : pad n 2 = [dg (n / 10 % 10), dg (n % 10)] := by
  simp [pad, dg, List.range, List.range.loop]

theorem pad3 (n : Nat) : pad n 3 = [dg (n / 100 % 10), dg (n / 10 % 10), dg (n % 10)] := by
  simp [pad, dg, List.range, List.range.loop]

theorem pad4 (n : Nat) : pad n 4 = [dg (n / 1000 % 10), dg (n / 100 % 10), dg (n / 10 % 10), dg (n % 10)] := by
  simp [pad, dg, List.range, List.range.loop]

theorem digitsN2_pad (n : Nat) (rest : Bytes) (h : n < 100) :
    digitsN 2 (pad n 2 ++ rest) = some (n, rest) := by
  have h1 : n / 10 % 10 < 10 := by omega
  have h0 : n % 10 < 10 := by omega
  simp [pad2, digitsN, isDigit_dg, dval_dg, h1, h0]
  omega

theorem digitsN4_pad (n : Nat) (rest : Bytes) (h : n < 10000) :
    digitsN 4 (pad n 4 ++ rest) = some (n, rest) := by
  have h3 : n / 1000 % 10 < 10 := by omega
  have h2 : n / 100 % 10 < 10 := by omega
  have h1 : n / 10 % 10 < 10 := by omega
  have h0 : n % 10 < 10 := by omega
  simp [pad4, digitsN, isDigit_dg, dval_dg, h3, h2, h1, h0]
  omega

theorem digits12_pad (n : Nat) (rest : Bytes) (h : n < 100) :
    digits12 (pad n 2 ++ 0x3A :: rest) = some (n, 0x3A :: rest) := by
  have h1 : n / 10 % 10 < 10 := by omega
  have h0 : n % 10 < 10 := by omega
  simp [pad2, digits12, isDigit_dg, dval_dg, h1, h0]
  omega

theorem fraction_pad (n : Nat) (rest : Bytes) (h : n < 1000) :
    fraction (0x2E :: (pad n 3 ++ 0x5A :: rest)) = (n * 1000000, 0x5A :: rest) := by
  have h2 : n / 100 % 10 < 10 := by omega
  have h1 : n / 10 % 10 < 10 := by omega
  have h0 : n % 10 < 10 := by omega
  have hz : isDigit (0x5A : Byte) = false := by decide
  simp [pad3, fraction, isDigit_dg, dval_dg, h2, h1, h0, hz, List.takeWhile, List.dropWhile]
  omega

theorem daysIn_le (m y : Nat) : daysIn m y ≤ 31 := by
  unfold daysIn; repeat' split
  all_goals omega

/-- Every valid instant written in the IRCv3 server-time format (millisecond precision) parses back to
    exactly that instant. -/
theorem parse_render (c : Civil) (h : c.valid = true) (hms : c.nanos % 1000000 = 0) :
    parse (render c) = some c := by
  have hv := h
  simp [Civil.valid] at hv
  have hd := daysIn_le c.month c.year
  have hf : parseFields (render c) = some c := by
    unfold render parseFields
    simp only [List.append_assoc, List.cons_append, List.nil_append]
    rw [digitsN4_pad _ _ (by omega)]
    simp only [bind, Option.bind, lit, if_true]
    rw [digitsN2_pad _ _ (by omega)]
    simp only [↓reduceIte]
    rw [digitsN2_pad _ _ (by omega)]
    simp only [↓reduceIte]
    rw [digits12_pad _ _ (by omega)]
    simp only [↓reduceIte]
    rw [digitsN2_pad _ _ (by omega)]
    simp only [↓reduceIte]
    rw [digitsN2_pad _ _ (by omega)]
    simp only []
    rw [fraction_pad _ _ (by omega)]
    have : c.nanos / 1000000 * 1000000 = c.nanos := by omega
    simp only [↓reduceIte, List.isEmpty_nil, this]
  unfold parse
  rw [hf]
  simp [h]

/-- Whatever parses is a valid civil time (the range checks of time.Parse). -/
theorem parse_valid (s : Bytes) (c : Civil) (h : parse s = some c) : c.valid = true := by
  unfold parse at h
  split at h
  · split at h
    · cases h; assumption
    · cases h
  · cases h

/-- The day count is THE day count: it is 0 at the epoch and advances by one from each day to the next,
    across month ends, leap days and year ends. -/
theorem days_epoch : daysFromCivil 1970 1 1 = 0 := by decide

-- the hypotheses are not needed: `daysFromCivil` is affine in `d` for every `y`, `m`
set_option linter.unusedVariables false in
theorem days_next_day (y m d : Nat) (hm : 1 ≤ m ∧ m ≤ 12) (hd : 1 ≤ d ∧ d < daysIn m y) :
    daysFromCivil y m (d + 1) = daysFromCivil y m d + 1 := by
  unfold daysFromCivil
  simp only []
  omega

theorem days_next_month (y m : Nat) (hm : 1 ≤ m ∧ m < 12) :
    daysFromCivil y (m + 1) 1 = daysFromCivil y m (daysIn m y) + 1 := by
  have hcases : m = 1 ∨ m = 2 ∨ m = 3 ∨ m = 4 ∨ m = 5 ∨ m = 6 ∨ m = 7 ∨ m = 8 ∨ m = 9 ∨ m = 10 ∨
      m = 11 := by omega
  rcases hcases with rfl | rfl | rfl | rfl | rfl | rfl | rfl | rfl | rfl | rfl | rfl
  case inr.inl =>
    unfold daysFromCivil daysIn isLeap
    by_cases h4 : y % 4 = 0 <;> by_cases h100 : y % 100 = 0 <;> by_cases h400 : y % 400 = 0 <;>
      simp [h4, h100, h400] <;> omega
  all_goals (unfold daysFromCivil daysIn; simp; try omega)

theorem days_next_year (y : Nat) : daysFromCivil (y + 1) 1 1 = daysFromCivil y 12 31 + 1 := by
  unfold daysFromCivil
  simp only []
  omega

/-- Seconds within a day never reach the next day. -/
theorem unixSeconds_bounds (c : Civil) (h : c.valid = true) :
    daysFromCivil c.year c.month c.day * 86400 ≤ c.unixSeconds ∧
    c.unixSeconds < (daysFromCivil c.year c.month c.day + 1) * 86400 := by
  simp [Civil.valid] at h
  unfold Civil.unixSeconds
  omega

end Girc.Proofs.ServerTime
