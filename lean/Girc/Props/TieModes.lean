import Girc.Proofs.TransModes
import Girc.Proofs.TransModes2
import Girc.Proofs.TransModes4
import Girc.Proofs.TransPerms
/-
  Tie (TieModes): the function bodies regenerated from the Go source on every run (Girc/Gen/Funcs.lean, written by
  tools/extract/translate.go) equal the hand-written models the property theorems of C04 and C05 are about, for ALL inputs.
  Only restatements of theorems proved in Girc/Proofs/Trans*.lean, each with a non-vacuity example that evaluates the
  generated function on a literal. An edit of the Go function changes Funcs.lean and the equivalence stops building.
-/
namespace Girc.Props.TieModes
open Girc Girc.Model Girc.Gen

/-! ### modes.go -/

theorem tie_IsValidChannelMode : ∀ s : Bytes, Fn.IsValidChannelMode s = .ok (isValidChannelMode s) :=
  Proofs.Trans.IsValidChannelMode_eq
example : Fn.IsValidChannelMode [0x62, 0x2C, 0x6B] = .ok true := by rfl
example : Fn.IsValidChannelMode [0x62, 0x31] = .ok false := by rfl

theorem tie_isValidUserPrefix : ∀ s : Bytes, Fn.isValidUserPrefix s = .ok (isValidUserPrefix s) :=
  Proofs.Trans.isValidUserPrefix_eq
example : Fn.isValidUserPrefix [0x28, 0x6F, 0x76, 0x29, 0x40, 0x2B] = .ok true := by rfl
example : Fn.isValidUserPrefix [0x28, 0x6F, 0x76, 0x29, 0x40] = .ok false := by rfl

theorem tie_parsePrefixes : ∀ s : Bytes, Fn.parsePrefixes s = .ok (parsePrefixes s) := Proofs.Trans.parsePrefixes_eq
example : Fn.parsePrefixes [0x28, 0x6F, 0x76, 0x29, 0x40, 0x2B] = .ok ([0x6F, 0x76], [0x40, 0x2B]) := by rfl

/-- `(*CModes).hasArg(set, mode)` = `(hasArgs, isSetting)`. -/
theorem tie_CModes_hasArg : ∀ (c : CModes) (set : Bool) (mode : Byte),
    Fn.CModes_hasArg (some c) set mode = .ok (c.hasArg set mode) := Proofs.Trans.CModes_hasArg_eq
theorem tie_CModes_hasArg_nil : ∀ (set : Bool) (mode : Byte), Fn.CModes_hasArg none set mode = .error .nilDeref :=
  Proofs.Trans.CModes_hasArg_nil
-- CHANMODES=b,k,l,imnpst PREFIX=(ov)@+ : "+l" takes an argument when set, "-l" does not
example : Fn.CModes_hasArg (some (newCModes [0x62, 0x2C, 0x6B, 0x2C, 0x6C, 0x2C, 0x69] [0x6F, 0x76])) true 0x6C =
    .ok (true, true) := by rfl
example : Fn.CModes_hasArg (some (newCModes [0x62, 0x2C, 0x6B, 0x2C, 0x6C, 0x2C, 0x69] [0x6F, 0x76])) false 0x6C =
    .ok (false, true) := by rfl

/-- `parseUserPrefix`: what the Go code computes.  NOTE: on an input that consists of prefix symbols only (no nick)
    the named result `modes` has been accumulated and is returned next to `success = false`; the hand-written model
    `parseUserPrefix` returns `([], [], false)` there — the two agree whenever `success = true` and always on
    `(nick, success)` (the callers test `success` first). -/
theorem tie_parseUserPrefix_go : ∀ raw : Bytes,
    Fn.parseUserPrefix raw = .ok
      (if (raw.dropWhile isPrefixSym).isEmpty then (raw.takeWhile isPrefixSym, [], false)
       else (raw.takeWhile isPrefixSym, raw.dropWhile isPrefixSym, true)) := Proofs.Trans.parseUserPrefix_go
theorem tie_parseUserPrefix : ∀ raw : Bytes, (raw.dropWhile isPrefixSym).isEmpty = false →
    Fn.parseUserPrefix raw = .ok (parseUserPrefix raw) := Proofs.Trans.parseUserPrefix_agrees
theorem tie_parseUserPrefix_nick_success : ∀ raw : Bytes,
    (Fn.parseUserPrefix raw).map (fun r => (r.2.1, r.2.2)) = .ok ((parseUserPrefix raw).2.1, (parseUserPrefix raw).2.2) :=
  Proofs.Trans.parseUserPrefix_nick_success
-- "@+nick"
example : Fn.parseUserPrefix [0x40, 0x2B, 0x6E] = .ok ([0x40, 0x2B], [0x6E], true) := by rfl
-- "@+": Go returns ("@+", "", false), the model ("", "", false)
example : Fn.parseUserPrefix [0x40, 0x2B] = .ok ([0x40, 0x2B], [], false) := by rfl
example : parseUserPrefix [0x40, 0x2B] = ([], [], false) := by rfl

/-! ### modes.go, value level of the stateful code (phase 3): `CModes` values with their `[]CMode`, pointer receivers that
    are written through (`Apply`, `Perms.set` …: the generated function returns the new pointee) -/

open Girc.Proofs.Trans (asciiModes namesNodup applyOneGo permsStep)

theorem tie_NewCModes : ∀ channelModes userPrefixes : Bytes,
    Fn.NewCModes channelModes userPrefixes = .ok (newCModes channelModes userPrefixes) := Proofs.Trans.NewCModes_eq
-- "b,k,l,imnpst" and the degenerate "b,k" (padded with empty classes)
example : Fn.NewCModes [0x62, 0x2C, 0x6B, 0x2C, 0x6C, 0x2C, 0x69, 0x6D] [0x6F, 0x76] =
    .ok { raw := [0x62, 0x2C, 0x6B, 0x2C, 0x6C, 0x2C, 0x69, 0x6D], listArgs := [0x62], argsM := [0x6B], setArgs := [0x6C],
          noArgs := [0x69, 0x6D], prefixes := [0x6F, 0x76], modes := [] } := by rfl
example : (Fn.NewCModes [0x62, 0x2C, 0x6B] []).map (·.noArgs) = .ok [] := by rfl

theorem tie_CModes_Parse : ∀ (c : CModes) (flags : Bytes) (args : List Bytes),
    Fn.CModes_Parse (some c) flags args = .ok (c.parse flags args) := Proofs.Trans.CModes_Parse_eq
-- "+kl-b" key 10 mask
example : Fn.CModes_Parse (some (newCModes [0x62, 0x2C, 0x6B, 0x2C, 0x6C, 0x2C, 0x69] [0x6F, 0x76]))
    [0x2B, 0x6B, 0x6C, 0x2D, 0x62] [[0x78], [0x31, 0x30], [0x6D]] =
    .ok [⟨true, 0x6B, true, [0x78]⟩, ⟨true, 0x6C, true, [0x31, 0x30]⟩, ⟨false, 0x62, false, [0x6D]⟩] := by rfl

/-- `Apply`, exactly as the Go code performs it (only the FIRST stored entry of a name is replaced / removed). -/
theorem tie_CModes_Apply_go : ∀ (c : CModes) (changes : List CMode),
    Fn.CModes_Apply (some c) changes = .ok (some { c with modes := changes.foldl applyOneGo c.modes }) :=
  Proofs.Trans.CModes_Apply_go
/-- … which is the model's `CModes.apply` on every state whose stored modes are unique by name; the invariant holds of
    `NewCModes` (no stored modes) and is preserved by `apply`. -/
theorem tie_CModes_Apply : ∀ (c : CModes) (changes : List CMode), namesNodup c.modes →
    Fn.CModes_Apply (some c) changes = .ok (some (c.apply changes)) := Proofs.Trans.CModes_Apply_eq
theorem tie_CModes_Apply_inv : ∀ (c : CModes) (changes : List CMode), namesNodup c.modes →
    namesNodup (c.apply changes).modes := Proofs.Trans.CModes_Apply_nodup
theorem tie_CModes_Apply_nil : ∀ changes : List CMode, Fn.CModes_Apply none changes = .error .nilDeref :=
  Proofs.Trans.CModes_Apply_nil
example : (Fn.CModes_Apply (some (newCModes [0x62, 0x2C, 0x6B, 0x2C, 0x6C, 0x2C, 0x69] []))
    [⟨true, 0x6B, true, [0x78]⟩, ⟨true, 0x69, true, []⟩, ⟨true, 0x6B, true, [0x79]⟩, ⟨false, 0x69, true, []⟩]).map
      (fun r => r.map (·.modes)) = .ok (some [⟨true, 0x6B, true, [0x79]⟩]) := by rfl

/-- `HasMode` / `Get` / `String` equal the models `hasMode` / `get` / `toBytes` for ALL stored mode bytes: `string(name)`
    of a `byte` is the UTF-8 encoding of the code point `name` (`Go.strOfByte`: ONE byte below 0x80, TWO bytes from 0x80
    on), in the code and in the models alike (see TRANSLATOR_NOTES §8 for the disagreement the tie found in the earlier,
    raw-byte models). -/
theorem tie_CModes_HasMode : ∀ (c : CModes) (mode : Bytes),
    Fn.CModes_HasMode (some c) mode = .ok (c.hasMode mode) := Proofs.Trans.CModes_HasMode_eq
theorem tie_CModes_Get : ∀ (c : CModes) (mode : Bytes),
    Fn.CModes_Get (some c) mode = .ok (match c.get mode with | some a => (a, true) | none => ([], false)) :=
  Proofs.Trans.CModes_Get_eq
theorem tie_CModes_String : ∀ c : CModes, Fn.CModes_String (some c) = .ok c.toBytes :=
  Proofs.Trans.CModes_String_eq
/-- On ASCII mode letters (all a server can announce in CHANMODES / PREFIX) the spelling of a letter is the byte itself. -/
theorem tie_CModes_hasMode_ascii : ∀ (c : CModes) (mode : Bytes), asciiModes c.modes →
    c.hasMode mode = c.modes.any (fun m => [m.name] = mode) := Proofs.Trans.hasMode_ascii
theorem tie_CModes_toBytes_ascii : ∀ c : CModes, asciiModes c.modes →
    c.toBytes = (if c.modes.length > 0 then [0x2B] else []) ++ c.modes.map (·.name) ++
      c.modes.flatMap (fun m => if m.args.length > 0 then SP :: m.args else []) := Proofs.Trans.toBytes_ascii
example : Fn.CModes_String (some { newCModes [] [] with modes := [⟨true, 0x6B, true, [0x78]⟩, ⟨true, 0x69, true, []⟩] }) =
    .ok [0x2B, 0x6B, 0x69, 0x20, 0x78] := by rfl
example : ({ newCModes [] [] with modes := [⟨true, 0x6B, true, [0x78]⟩, ⟨true, 0x69, true, []⟩] } : CModes).toBytes =
    [0x2B, 0x6B, 0x69, 0x20, 0x78] := by rfl
example : Fn.CModes_Get (some { newCModes [] [] with modes := [⟨true, 0x6B, true, [0x78]⟩] }) [0x6B] = .ok ([0x78], true) := by rfl
example : ({ newCModes [] [] with modes := [⟨true, 0x6B, true, [0x78]⟩] } : CModes).get [0x6B] = some [0x78] := by rfl
-- a stored mode byte 0xE9 (reachable: Parse("+\xe9", nil) then Apply on NewCModes("b,k,l,imnpst", "ov")): Go's
-- string(byte(0xE9)) is "\xC3\xA9"; code and model agree
example : (newCModes [0x62, 0x2C, 0x6B, 0x2C, 0x6C, 0x2C, 0x69, 0x6D, 0x6E, 0x70, 0x73, 0x74] [0x6F, 0x76]).parse [0x2B, 0xE9] [] =
    [⟨true, 0xE9, true, []⟩] := by rfl
example : Fn.CModes_HasMode (some { newCModes [] [] with modes := [⟨true, 0xE9, true, []⟩] }) [0xE9] = .ok false := by rfl
example : ({ newCModes [] [] with modes := [⟨true, 0xE9, true, []⟩] } : CModes).hasMode [0xE9] = false := by rfl
example : Fn.CModes_HasMode (some { newCModes [] [] with modes := [⟨true, 0xE9, true, []⟩] }) [0xC3, 0xA9] = .ok true := by rfl
example : ({ newCModes [] [] with modes := [⟨true, 0xE9, true, []⟩] } : CModes).hasMode [0xC3, 0xA9] = true := by rfl
example : Fn.CModes_Get (some { newCModes [] [] with modes := [⟨true, 0xE9, true, [0x78]⟩] }) [0xC3, 0xA9] = .ok ([0x78], true) := by rfl
example : ({ newCModes [] [] with modes := [⟨true, 0xE9, true, [0x78]⟩] } : CModes).get [0xC3, 0xA9] = some [0x78] := by rfl
example : ({ newCModes [] [] with modes := [⟨true, 0xE9, true, [0x78]⟩] } : CModes).get [0xE9] = none := by rfl
example : Fn.CModes_String (some { newCModes [] [] with modes := [⟨true, 0xE9, true, []⟩] }) = .ok [0x2B, 0xC3, 0xA9] := by rfl
example : ({ newCModes [] [] with modes := [⟨true, 0xE9, true, []⟩] } : CModes).toBytes = [0x2B, 0xC3, 0xA9] := by rfl

theorem tie_CModes_Copy : ∀ c : CModes, Fn.CModes_Copy (some c) = .ok c := Proofs.Trans.CModes_Copy_eq
example : Fn.CModes_Copy (some { newCModes [0x62] [] with modes := [⟨true, 0x6B, true, [0x78]⟩] }) =
    .ok { newCModes [0x62] [] with modes := [⟨true, 0x6B, true, [0x78]⟩] } := by rfl

theorem tie_Perms_reset : ∀ p : Perms, Fn.Perms_reset (some p) = .ok (some {}) := Proofs.Trans.Perms_reset_eq
/-- `(*Perms).set(prefix, add)`: one flag per prefix symbol, after a reset unless `add`. -/
theorem tie_Perms_set_go : ∀ (p : Perms) (s : Bytes) (add : Bool),
    Fn.Perms_set (some p) s add = .ok (some (s.foldl permsStep (if add then p else {}))) := Proofs.Trans.Perms_set_go
theorem tie_Perms_set : ∀ (p : Perms) (s : Bytes), Fn.Perms_set (some p) s false = .ok (some (permsFromPrefix s)) :=
  Proofs.Trans.Perms_set_eq
theorem tie_Perms_setFromMode : ∀ (p : Perms) (m : CMode),
    Fn.Perms_setFromMode (some p) m = .ok (some (p.setFromMode m)) := Proofs.Trans.Perms_setFromMode_eq
theorem tie_Perms_IsAdmin : ∀ p : Perms, Fn.Perms_IsAdmin p = .ok (p.owner || p.admin || p.op) :=
  Proofs.Trans.Perms_IsAdmin_eq
theorem tie_Perms_IsTrusted : ∀ p : Perms, Fn.Perms_IsTrusted p = .ok (p.owner || p.admin || p.op || p.halfop || p.voice) :=
  Proofs.Trans.Perms_IsTrusted_eq
example : Fn.Perms_set (some { owner := true }) [0x40, 0x2B] false = .ok (some { op := true, voice := true }) := by rfl
example : Fn.Perms_set (some { owner := true }) [0x40] true = .ok (some { owner := true, op := true }) := by rfl
example : Fn.Perms_setFromMode (some { op := true }) ⟨false, 0x6F, false, [0x6E]⟩ = .ok (some {}) := by rfl

end Girc.Props.TieModes
