import Girc.Proofs.InvDelete
import Girc.Proofs.InvRenameAux
namespace Girc.Proofs.InvRename
open Girc Girc.Model Girc.Spec Girc.Proofs.InvBase

/-- NICK, including onto a nickname that is already tracked, a case-only change, and an empty or
    otherwise odd new nickname. -/
theorem renameUser_inv (st : St) (from_ to : Bytes) (h : Inv st) :
    ∃ st', st.renameUser from_ to = .ok st' ∧ Inv st' := by
  unfold St.renameUser St.lookupUser
  simp only [fold_idem]
  -- the own-nick update does not touch the maps
  have hInv : Inv (if fold from_ = fold st.nick then { st with nick := to } else st) := by
    split
    · exact inv_of_maps_eq st _ h rfl rfl
    · exact h
  generalize (if fold from_ = fold st.nick then { st with nick := to } else st) = s at hInv ⊢
  cases hl : AMap.get? s.users (fold from_) with
  | none => exact ⟨s, rfl, hInv⟩
  | some user =>
    simp only []
    by_cases hne : fold to ≠ fold from_
    · -- a user already known under the new nick is removed first
      rw [if_pos hne]
      obtain ⟨s1, hdel, hInv1⟩ := InvDelete.deleteUser_inv s [] to hInv
      have husers := deleteUser_nil_users hdel
      have hu1 : AMap.get? s1.users (fold from_) = some user := by
        rw [husers, if_neg (fun e => hne e.symm)]; exact hl
      have hfree : AMap.get? s1.users (fold to) = none := by
        rw [husers, if_pos rfl]
      obtain ⟨cs', hrun, hL⟩ := rename_tail hInv1 (to := to) hu1 (Or.inr hfree)
      refine ⟨_, ?_, inv_with_maps s1 hL⟩
      rw [hdel]
      show (renameLoop (fold from_) to user.chans s1.channels >>= _) = _
      rw [hrun]
      rfl
    · rw [if_neg hne]
      have heq : fold to = fold from_ := Classical.not_not.mp hne
      obtain ⟨cs', hrun, hL⟩ := rename_tail hInv (to := to) hl (Or.inl heq)
      refine ⟨_, ?_, inv_with_maps s hL⟩
      show (renameLoop (fold from_) to user.chans s.channels >>= _) = _
      rw [hrun]
      rfl

end Girc.Proofs.InvRename
