import Girc.Proofs.Pure
/- C16 — flood protection bounds the send rate. Property theorems only (arithmetic and trace inequality). -/
namespace Girc.Props.C16
open Girc Girc.Model Girc.Proofs.Pure

/-- The cost of an event: one second plus ten milliseconds per byte, exactly. -/
theorem cost_exact (n : Nat) : cost n = second + (n : Int) * 10000000 := Proofs.Pure.cost_exact n

theorem delay_exact (wd since : Int) (n : Nat) :
    ((rate wd since n).2 = 0 ∨ (rate wd since n).2 = cost n) ∧
    ((rate wd since n).2 = cost n ↔ (rate wd since n).1 > 8 * second) ∧ 0 ≤ (rate wd since n).1 :=
  Proofs.Pure.delay_exact wd since n

theorem leaky_bucket (wd : Int) (tr : List Step) (hwd : 0 ≤ wd)
    (h : ∀ s ∈ tr, 0 ≤ s.since ∧ 0 ≤ s.extra) :
    (runTrace wd tr).2.2 ≤ 8 * second + (runTrace wd tr).2.1 := Proofs.Pure.leaky_bucket wd tr hwd h

theorem message_rate (wd : Int) (tr : List Step) (hwd : 0 ≤ wd)
    (h : ∀ s ∈ tr, 0 ≤ s.since ∧ 0 ≤ s.extra) :
    (tr.length : Int) * second ≤ 8 * second + (runTrace wd tr).2.1 := Proofs.Pure.message_rate wd tr hwd h

/-- Ten 50-byte messages back to back from an idle connection: the 6th onwards are each held 1.5 s. -/
example : (runTrace 0 (List.replicate 10 ⟨0, 50, 0⟩)).2.1 = 5 * 1500000000 := by decide

end Girc.Props.C16
