import Girc.Model.Run
import Girc.Model.Sts
import Girc.Proofs.TagsAux
/-
  Auxiliary lemmas for ProtocolB: association-map key membership, a complete branch-by-branch
  description of `handleCAP`, and the shape of the ACK branch.
-/
namespace Girc.Proofs.ProtocolBAux
open Girc Girc.Model Girc.Proofs.TagsAux

theorem contains_iff_mem_keys {β : Type} (m : AMap β) (k : Bytes) :
    AMap.contains m k = true ↔ k ∈ AMap.keys m := by
  unfold AMap.contains AMap.get? AMap.keys
  induction m with
  | nil => simp [List.lookup]
  | cons p m ih =>
    obtain ⟨a, b⟩ := p
    by_cases h : k = a
    · subst h; simp [List.lookup]
    · have h' : (k == a) = false := by simpa using h
      simp [List.lookup, h', ih, h]

theorem mem_keys_set {β : Type} (m : AMap β) (k k' : Bytes) (v : β) :
    k' ∈ AMap.keys (AMap.set m k v) ↔ k' = k ∨ k' ∈ AMap.keys m := by
  rw [← contains_iff_mem_keys, ← contains_iff_mem_keys]
  unfold AMap.contains
  rw [get?_set]
  by_cases h : k' = k <;> simp [h]

theorem mem_keys_foldl_set {α β : Type} (f : α → Bytes) (g : α → β) (l : List α) (init : AMap β) (k : Bytes) :
    k ∈ AMap.keys (l.foldl (fun o x => AMap.set o (f x) (g x)) init) ↔ k ∈ AMap.keys init ∨ k ∈ l.map f := by
  induction l generalizing init with
  | nil => simp
  | cons x xs ih =>
    rw [List.foldl_cons, ih, mem_keys_set]
    simp only [List.map_cons, List.mem_cons]
    constructor
    · rintro ((h | h) | h) <;> simp [h]
    · rintro (h | h | h) <;> simp [h]


theorem keys_nil {β : Type} : AMap.keys ([] : AMap β) = [] := rfl

theorem mem_keys_possibleCaps (cfg : Cfg) (k : Bytes) :
    k ∈ AMap.keys (possibleCaps cfg) ↔
      (k ∈ builtinCaps ∨ k ∈ AMap.keys cfg.supportedCaps ∨ (k = sSasl ∧ cfg.sasl.isSome) ∨
       (k = sSts ∧ cfg.disableSTS = false ∧ cfg.ssl = false ∧ ¬(cfg.stsRecentlyFailed = true ∧ cfg.disableSTSFallback = false))) := by
  unfold possibleCaps
  simp only []
  rw [mem_keys_foldl_set (fun k => k) (fun _ => ([] : List Bytes)),
      mem_keys_foldl_set (fun p : Bytes × List Bytes => p.1) (fun p => p.2)]
  simp only [List.map_id']
  have hk : AMap.keys cfg.supportedCaps = cfg.supportedCaps.map (fun p => p.1) := rfl
  rw [← hk]
  cases h1 : cfg.sasl.isSome <;> cases h2 : cfg.disableSTS <;> cases h3 : cfg.ssl <;>
    cases h4 : cfg.stsRecentlyFailed <;> cases h5 : cfg.disableSTSFallback <;>
    simp [mem_keys_set, keys_nil] <;> grind


def isDel (e : Event) : Bool := e.params.length ≥ 2 && e.params[1]? = some cDEL
def isNak (e : Event) : Bool := e.params.length ≥ 2 && e.params[1]? = some cNAK
def isLs (e : Event) : Bool := e.params.length ≥ 3 && (e.params[1]? = some cLS || e.params[1]? = some cNEW)
def isAck (e : Event) : Bool := e.params.length = 3 && e.params[1]? = some cACK

theorem handleCAP_del (cfg : Cfg) (st : St) (e : Event) (h : isDel e = true) :
    handleCAP cfg st e =
      ({ st with enabledCap := (parseCap e.last).foldl (fun en p => AMap.erase en p.1) st.enabledCap }, []) := by
  unfold isDel at h
  unfold handleCAP
  simp only [h, ↓reduceIte]
  rfl

theorem handleCAP_nak (cfg : Cfg) (st : St) (e : Event) (hd : isDel e = false) (h : isNak e = true) :
    handleCAP cfg st e = (st, [.write capEnd]) := by
  unfold isDel at hd
  unfold isNak at h
  unfold handleCAP
  simp only [h, hd, Bool.false_eq_true, ↓reduceIte]

theorem ls_not_ack (e : Event) (h : isLs e = true) : isAck e = false := by
  unfold isLs at h
  unfold isAck
  simp only [Bool.and_eq_true, Bool.or_eq_true, decide_eq_true_eq] at h
  obtain ⟨_, h | h⟩ := h <;> simp [h] <;> intro _ <;> decide

theorem handleCAP_ls (cfg : Cfg) (st : St) (e : Event) (hd : isDel e = false) (hn : isNak e = false)
    (h : isLs e = true) :
    handleCAP cfg st e =
      (let t := capCollect (possibleCaps cfg) st.tmpCap (parseCap e.last)
       ({ st with tmpCap := t },
        if e.params.length = 3 then
          (if t.isEmpty then [Out.write capEnd]
           else [Out.write { command := cCAP, params := [cREQ, joinWith [SP] (sortBytes (AMap.keys t))] }])
        else [])) := by
  have ha := ls_not_ack e h
  unfold isDel at hd
  unfold isNak at hn
  unfold isAck at ha
  unfold isLs at h
  unfold handleCAP
  simp only [h, hd, hn, ha, Bool.false_eq_true, ↓reduceIte]
  by_cases h3 : e.params.length = 3
  · by_cases he : (capCollect (possibleCaps cfg) st.tmpCap (parseCap (e.params.getLastD []))).isEmpty = true
    · simp only [h3, he, Event.last, ↓reduceIte]
    · simp only [h3, he, Event.last, Bool.false_eq_true, ↓reduceIte]
  · simp only [h3, Event.last, Bool.false_eq_true, ↓reduceIte]

theorem handleCAP_other (cfg : Cfg) (st : St) (e : Event) (hd : isDel e = false) (hn : isNak e = false)
    (hl : isLs e = false) (ha : isAck e = false) :
    handleCAP cfg st e = (st, []) := by
  unfold isDel at hd
  unfold isNak at hn
  unfold isAck at ha
  unfold isLs at hl
  unfold handleCAP
  simp only [hl, hd, hn, ha, Bool.false_eq_true, ↓reduceIte]

def ackTail (cfg : Cfg) (st : St) : St × List Out :=
  match AMap.get? st.enabledCap sSasl, cfg.sasl with
  | some _, some m => ({ st with tmpCap := [] }, [.write { command := cAUTHENTICATE, params := [m.method] }])
  | _, _ => ({ st with tmpCap := [] }, [.write capEnd])

def ackRes (cfg : Cfg) (st : St) (last : Bytes) : St × List Out :=
  let st := { st with enabledCap := capAck st.tmpCap st.enabledCap (splitOnByte SP last) }
  match AMap.get? st.enabledCap sSts with
  | none => ackTail cfg st
  | some v =>
    if cfg.disableSTS then ackTail cfg st
    else match (stsOnAck cfg st.sts v).2 with
      | .abort => ({ st with sts := (stsOnAck cfg st.sts v).1 }, [.inject { command := cERROR, params := [sStsInvalid] }])
      | .upgrade => ({ st with sts := (stsOnAck cfg st.sts v).1 }, [.close])
      | .continue_ => ackTail cfg { st with sts := (stsOnAck cfg st.sts v).1 }

theorem handleCAP_ack (cfg : Cfg) (st : St) (e : Event) (hd : isDel e = false) (hn : isNak e = false)
    (hl : isLs e = false) (ha : isAck e = true) :
    handleCAP cfg st e = ackRes cfg st e.last := by
  unfold isDel at hd
  unfold isNak at hn
  unfold isAck at ha
  unfold isLs at hl
  unfold handleCAP
  simp only [hl, hd, hn, ha, Bool.false_eq_true, ↓reduceIte]
  unfold ackRes
  simp only [Event.last]
  generalize capAck st.tmpCap st.enabledCap (splitOnByte SP (e.params.getLastD [])) = en
  cases hg : AMap.get? en sSts with
  | none => simp [ackTail]; rfl
  | some v =>
    cases hdis : cfg.disableSTS
    · cases hact : (stsOnAck cfg st.sts v).2 <;> simp [ackTail, hact] <;> rfl
    · simp [ackTail]; rfl


theorem handleCAP_eq (cfg : Cfg) (st : St) (e : Event) :
    handleCAP cfg st e =
      if isDel e then
        ({ st with enabledCap := (parseCap e.last).foldl (fun en p => AMap.erase en p.1) st.enabledCap }, [])
      else if isNak e then (st, [.write capEnd])
      else if isLs e then
        (let t := capCollect (possibleCaps cfg) st.tmpCap (parseCap e.last)
         ({ st with tmpCap := t },
          if e.params.length = 3 then
            (if t.isEmpty then [Out.write capEnd]
             else [Out.write { command := cCAP, params := [cREQ, joinWith [SP] (sortBytes (AMap.keys t))] }])
          else []))
      else if isAck e then ackRes cfg st e.last
      else (st, []) := by
  cases hd : isDel e
  · cases hn : isNak e
    · cases hl : isLs e
      · cases ha : isAck e
        · simp only [Bool.false_eq_true, ↓reduceIte]; exact handleCAP_other cfg st e hd hn hl ha
        · simp only [Bool.false_eq_true, ↓reduceIte]; exact handleCAP_ack cfg st e hd hn hl ha
      · simp only [Bool.false_eq_true, ↓reduceIte]; exact handleCAP_ls cfg st e hd hn hl
    · simp only [Bool.false_eq_true, ↓reduceIte]; exact handleCAP_nak cfg st e hd hn
  · simp only [↓reduceIte]; exact handleCAP_del cfg st e hd

theorem mem_keys_capCollect (possible : AMap (List Bytes)) (tmp caps : AMap CapVal) (k : Bytes)
    (h : k ∈ AMap.keys (capCollect possible tmp caps)) :
    k ∈ AMap.keys tmp ∨ (k ∈ AMap.keys caps ∧ AMap.contains possible k = true) := by
  unfold capCollect at h
  induction caps generalizing tmp with
  | nil => left; simpa using h
  | cons p ps ih =>
    rw [List.foldl_cons] at h
    have hk : AMap.keys (p :: ps) = p.1 :: AMap.keys ps := rfl
    rw [hk]
    rcases ih _ h with h1 | ⟨h1, h2⟩
    · by_cases hc : AMap.contains possible p.1 = true
      · rw [if_pos hc, mem_keys_set] at h1
        rcases h1 with h1 | h1
        · subst h1; right; exact ⟨List.mem_cons_self, hc⟩
        · left; exact h1
      · rw [if_neg hc] at h1; left; exact h1
    · right; exact ⟨List.mem_cons_of_mem _ h1, h2⟩

theorem ackTail_fst (cfg : Cfg) (st : St) : (ackTail cfg st).1 = { st with tmpCap := [] } := by
  unfold ackTail; split <;> rfl

theorem ackTail_snd (cfg : Cfg) (st : St) :
    (ackTail cfg st).2 = [Out.write capEnd] ∨
    ∃ m, cfg.sasl = some m ∧ (ackTail cfg st).2 = [Out.write { command := cAUTHENTICATE, params := [m.method] }] := by
  unfold ackTail
  split
  · rename_i m h1 h2; right; exact ⟨m, h2, rfl⟩
  · left; rfl

theorem ackRes_cases (cfg : Cfg) (st : St) (last : Bytes) :
    (∃ sts', (cfg.disableSTS = true → sts' = st.sts) ∧
        ackRes cfg st last = ackTail cfg { st with enabledCap := capAck st.tmpCap st.enabledCap (splitOnByte SP last), sts := sts' }) ∨
    (∃ v, AMap.get? (capAck st.tmpCap st.enabledCap (splitOnByte SP last)) sSts = some v ∧ cfg.disableSTS = false ∧ (stsOnAck cfg st.sts v).2 = .abort ∧
        ackRes cfg st last = ({ st with enabledCap := capAck st.tmpCap st.enabledCap (splitOnByte SP last), sts := (stsOnAck cfg st.sts v).1 },
          [.inject { command := cERROR, params := [sStsInvalid] }])) ∨
    (∃ v, AMap.get? (capAck st.tmpCap st.enabledCap (splitOnByte SP last)) sSts = some v ∧ cfg.disableSTS = false ∧ (stsOnAck cfg st.sts v).2 = .upgrade ∧
        ackRes cfg st last = ({ st with enabledCap := capAck st.tmpCap st.enabledCap (splitOnByte SP last), sts := (stsOnAck cfg st.sts v).1 }, [.close])) := by
  unfold ackRes
  simp only []
  cases hg : AMap.get? (capAck st.tmpCap st.enabledCap (splitOnByte SP last)) sSts with
  | none => left; exact ⟨st.sts, fun _ => rfl, rfl⟩
  | some v =>
    cases hdis : cfg.disableSTS
    · cases hact : (stsOnAck cfg st.sts v).2
      · left; refine ⟨(stsOnAck cfg st.sts v).1, by simp, ?_⟩
        simp [hact]
      · right; left; refine ⟨v, rfl, rfl, hact, ?_⟩
        simp [hact]
      · right; right; refine ⟨v, rfl, rfl, hact, ?_⟩
        simp [hact]
    · left; exact ⟨st.sts, fun _ => rfl, by simp⟩

theorem flags_of_params (e : Event) (a b : Bytes) (rest : List Bytes) (hp : e.params = a :: b :: rest) :
    isDel e = decide (b = cDEL) ∧ isNak e = decide (b = cNAK) ∧
    isLs e = (decide (rest.length ≥ 1) && (decide (b = cLS) || decide (b = cNEW))) ∧
    isAck e = (decide (rest.length = 1) && decide (b = cACK)) := by
  unfold isDel isNak isLs isAck
  simp [hp]

theorem flags_of_short (e : Event) (h : e.params.length < 2) :
    isDel e = false ∧ isNak e = false ∧ isLs e = false ∧ isAck e = false := by
  unfold isDel isNak isLs isAck
  have h1 : ¬ e.params.length ≥ 2 := by omega
  have h2 : ¬ e.params.length ≥ 3 := by omega
  have h3 : ¬ e.params.length = 3 := by omega
  simp [h1, h2, h3]

end Girc.Proofs.ProtocolBAux
