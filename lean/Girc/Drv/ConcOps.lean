import Girc.Drv.Proto
import Girc.Model.Lifecycle
import Girc.Model.Dispatch
import Girc.Model.ServerTime
/- Driver ops for the concurrency models (C07 lifecycle): replay an action trace on the model. -/
namespace Girc.Drv
open Girc

namespace LifeOps
open Girc.Model.Life

/-- Action tokens: uc uq us<id> ps<id> pe<hextext> pc rt re rp rc et ef st sf sc pt pn pd mw mc mt md mf
    (`pd`, also spelled `pingDisabled`: pingLoop's early `return nil` when `Config.PingDelay <= 0`).
    Configuration tokens, only at the head of the schedule: `cfg:pingoff` starts the run with pings disabled. -/
def parseAct (tok : String) (i : Nat) : Option Act :=
  if tok = "uc" then some .userClose else if tok = "uq" then some .userQuit
  else if tok = "pc" then some .peerClose
  else if tok = "rt" then some .readTake else if tok = "re" then some .readEOF
  else if tok = "rp" then some .readParseErr else if tok = "rc" then some .readCancel
  else if tok = "et" then some .execTake else if tok = "ef" then some .execFlush
  else if tok = "st" then some .sendTake else if tok = "sf" then some .sendFail else if tok = "sc" then some .sendCancel
  else if tok = "pt" then some .pingTimeout else if tok = "pn" then some .pingCancel
  else if tok = "pd" || tok = "pingDisabled" then some .pingDisabled
  else if tok = "mw" then some .mainWait else if tok = "mc" then some .mainClosedEv
  else if tok = "mt" then some .mainTeardown else if tok = "md" then some .mainDisc else if tok = "mf" then some .mainFinish
  else if tok.startsWith "us" then (tok.drop 2).toString.toNat?.map .userSend
  else if tok.startsWith "ps" then (tok.drop 2).toString.toNat?.map fun n => .peerSend ⟨false, [], n⟩
  else if tok.startsWith "pe" then (arg (tok.drop 2).toString).map fun t => .peerSend ⟨true, t, 1000000 + i⟩
  else none

def showErr : Option Err → String
  | none => "nil"
  | some (.errEvent t) => "errevent:" ++ hx t
  | some .io => "io"
  | some .pingTimeout => "ping"
  | some .parse => "parse"

def showLoop : Loop → String
  | .running => "running"
  | .exited r => showErr r

def summary (s : LState) : String :=
  let res := match s.main with
    | .returned r => showErr r
    | _ => "running"
  let em := ",".intercalate (s.emitted.map fun | .closed => "C" | .disconnected => "D")
  s!"res={res} emitted={em} delivered={s.delivered.length} errdelivered={bl (s.delivered.any (·.isError))} " ++
  s!"written={s.written.length} quitwritten={bl (s.written.contains .quit)} sock={bl s.sockClosed} conn={bl s.connNil} " ++
  s!"rx={s.rx.length} tx={s.tx.length} measure={measure s} " ++
  -- (appended after the fields older callers match on)
  s!"pingoff={bl s.pingOff} ping={showLoop s.ping} cancelled={bl s.groupCancelled} waiting={bl (s.main == .waiting)} " ++
  s!"cause={bl (s.closeRequested || s.peerClosed || (firstError s.delivered).isSome || s.parseErrSeen || s.pingTimedOut || s.writeFailed)}"

def runToks (s : LState) : List String → Nat → Except String LState
  | [], _ => .ok s
  | t :: rest, i =>
    match parseAct t i with
    | none => .error s!"bad-token@{i} {t}"
    | some a => match step s a with
      | none => .error s!"stuck@{i} {t}"
      | some s' => runToks s' rest (i + 1)

/-- Leading `cfg:` tokens select the configuration of the run; the rest is the schedule.
    Token indices in error messages count from the first schedule token. -/
def splitCfg : List String → Bool → Except String (Bool × List String)
  | t :: rest, off =>
    if t = "cfg:pingoff" then splitCfg rest true
    else if t = "cfg:pingon" then splitCfg rest false
    else if t.startsWith "cfg:" then .error s!"bad-config {t}"
    else .ok (off, t :: rest)
  | [], off => .ok (off, [])

def runSchedule (toks : List String) : Except String LState :=
  match splitCfg toks false with
  | .error e => .error e
  | .ok (off, sched) => runToks (begin [] [] 25 off) sched 0

end LifeOps

namespace DispOps
open Girc.Model.Disp

/-- Sequential script: a<bg><tmp>:<hexcmd> add · r<id> remove · c<hexcmd> clear · C clearAll ·
    d<id> a temporary handler's own removal / its deadline · e<echo>:<hexcmd> one event (fully dispatched).
    Output: for every event "seq=id,id,…" (sorted), then the table ids and the closed done channels. -/
def runSeq (s : DState) (out : List String) : List String → Nat → Except String (DState × List String)
  | [], _ => .ok (s, out)
  | t :: rest, i =>
    let bad : Except String (DState × List String) := .error s!"bad-token@{i} {t}"
    let next (r : Option DState) (out : List String) : Except String (DState × List String) :=
      match r with
      | some s' => runSeq s' out rest (i + 1)
      | none => .error s!"stuck@{i} {t}"
    if t = "C" then next (step s .clearAll) out
    else if t.startsWith "a" then
      match (t.drop 1).toString.splitOn ":" with
      | [fl, c] => match arg c with
        | some cmd => next (step s (.add cmd (fl.startsWith "1") (fl.endsWith "1" && fl.length = 2))) out
        | none => bad
      | _ => bad
    else if t.startsWith "r" then match (t.drop 1).toString.toNat? with | some n => next (step s (.remove n)) out | none => bad
    else if t.startsWith "d" then match (t.drop 1).toString.toNat? with | some n => next (step s (.deadline n)) out | none => bad
    else if t.startsWith "c" then match arg (t.drop 1).toString with | some c => next (step s (.clear c)) out | none => bad
    else if t.startsWith "e" then
      match (t.drop 1).toString.splitOn ":" with
      | [fl, c] => match arg c with
        | some cmd =>
          let ev : Evt := { seq := s.nextSeq, cmd := cmd, echo := fl = "1" }
          let ids := (dispatchIds s.table ev).mergeSort (· ≤ ·)
          next (some { s with nextSeq := s.nextSeq + 1 }) (out ++ [s!"{ev.seq}=" ++ ",".intercalate (ids.map toString)])
        | none => bad
      | _ => bad
    else bad

end DispOps

def handleConc (op : String) (args : List String) : Option String :=
  match op, args with
  | "life.run", [acts] =>
    let toks := if acts = "_" then [] else acts.splitOn ","
    match LifeOps.runSchedule toks with
    | .ok s => some (LifeOps.summary s)
    | .error e => some e
  | "stime", [v] => do
    let s ← arg v
    match Model.ServerTime.parse s with
    | some c => pure s!"{c.unixSeconds} {c.nanos}"
    | none => pure "none"
  | "disp.seq", [script] =>
    let toks := if script = "_" then [] else script.splitOn ","
    match DispOps.runSeq {} [] toks 0 with
    | .ok (s, out) => some (";".intercalate out ++ " table=" ++ ",".intercalate (s.table.map (toString ·.id)) ++
        " done=" ++ ",".intercalate (s.doneClosed.map toString))
    | .error e => some e
  | _, _ => none

end Girc.Drv
