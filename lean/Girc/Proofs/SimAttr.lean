import Girc.Spec.Sim
import Girc.Proofs.InvHandlers
/-
  C04 proofs, part 2: messages that change attributes only (no membership change).
  In every statement `st`/`r` are the states AFTER the account-tag step.
-/
namespace Girc.Proofs.SimAttr
open Girc Girc.Model Girc.Spec

theorem sim_connect {st : St} {r : Ref} (cfg : Cfg) (e : Event) (h : Sim st r)
    (hc : r.conformant cfg e = true) (hcmd : e.command = c001) :
    Sim (handleConnect st e) (r.cmdStep cfg e) := by sorry

theorem sim_TOPIC {st : St} {r : Ref} (cfg : Cfg) (e : Event) (h : Sim st r)
    (hcmd : e.command = cTOPIC ∨ e.command = c332) :
    ∃ st', handleTOPIC st e = .ok st' ∧ Sim st' (r.cmdStep cfg e) := by sorry

theorem sim_WHO {st : St} {r : Ref} (cfg : Cfg) (e : Event) (h : Sim st r)
    (hcmd : e.command = c352 ∨ e.command = c354) :
    ∃ st', handleWHO st e = .ok st' ∧ Sim st' (r.cmdStep cfg e) := by sorry

theorem sim_MYINFO {st : St} {r : Ref} (cfg : Cfg) (e : Event) (h : Sim st r) (hcmd : e.command = c004) :
    ∃ st', handleMYINFO st e = .ok st' ∧ Sim st' (r.cmdStep cfg e) := by sorry

theorem sim_ISUPPORT {st : St} {r : Ref} (cfg : Cfg) (e : Event) (h : Sim st r) (hcmd : e.command = c005) :
    Sim (handleISUPPORT st e) (r.cmdStep cfg e) := by sorry

theorem sim_MOTD {st : St} {r : Ref} (cfg : Cfg) (e : Event) (h : Sim st r)
    (hcmd : e.command = c375 ∨ e.command = c372) :
    Sim (handleMOTD st e) (r.cmdStep cfg e) := by sorry

theorem sim_CHGHOST {st : St} {r : Ref} (cfg : Cfg) (e : Event) (h : Sim st r) (hcmd : e.command = cCHGHOST) :
    Sim (handleCHGHOST st e) (r.cmdStep cfg e) := by sorry

theorem sim_AWAY {st : St} {r : Ref} (cfg : Cfg) (e : Event) (h : Sim st r) (hcmd : e.command = cAWAY) :
    Sim (handleAWAY st e) (r.cmdStep cfg e) := by sorry

theorem sim_ACCOUNT {st : St} {r : Ref} (cfg : Cfg) (e : Event) (h : Sim st r) (hcmd : e.command = cACCOUNT) :
    Sim (handleACCOUNT st e) (r.cmdStep cfg e) := by sorry

/-- Capability negotiation does not touch anything the relation talks about. -/
theorem sim_CAP {st : St} {r : Ref} (cfg : Cfg) (e : Event) (h : Sim st r) (hcmd : e.command = cCAP) :
    Sim (handleCAP cfg st e).1 (r.cmdStep cfg e) := by sorry

/-- Any command the tracker does not interpret means nothing to the reference model either. -/
theorem cmdStep_other (cfg : Cfg) (r : Ref) (e : Event)
    (h : e.command ∉ [c001, cJOIN, cPART, cKICK, cQUIT, cNICK, c353, cMODE, c324, c354, c352, cTOPIC, c332,
      cAWAY, cACCOUNT, cCHGHOST, c004, c005, c375, c372]) :
    r.cmdStep cfg e = r := by sorry

end Girc.Proofs.SimAttr
