import Girc.Model.Event
import Girc.Proofs.ParseTotalBasic
namespace Girc.Proofs.ParseTotal
open Girc Girc.Model

def goTail (tags : Option Tags) (source : Option Source) (raw : Bytes) (i : Int) :
    Except Fault (Option Event) := do
  let rest ← sliceI raw i raw.length
  let j := i + indexByteI rest SP
  if j < i then
    return some { tags, source, command := toUpperAscii rest, params := [] }
  let command := toUpperAscii (← sliceI raw i j)
  let j := j + 1
  match ← trailerLoopGo raw j (raw.length + 1) 0 with
  | none =>
    return some { tags, source, command, params := fieldsSp (← sliceI raw j raw.length) }
  | some off =>
    let i2 := j + off
    let mut params : List Bytes := []
    if i2 > j then
      params := fieldsSp (← sliceI raw j (i2 - 1))
    let last ← sliceI raw (i2 + 1) raw.length
    return some { tags, source, command, params := params ++ [last] }

def goSrc (tags : Option Tags) (raw : Bytes) : Except Fault (Option Event) := do
  let mut i : Int := 0
  let mut source : Option Source := none
  if raw ≠ [] then
    let c ← atI raw 0
    if c = COLON then
      i := indexByteI raw SP
      if i < 2 then return none
      source := some (parseSource (← sliceI raw 1 i))
      i := i + 1
  goTail tags source raw i

def goTop (raw0 : Bytes) : Except Fault (Option Event) := do
  let raw := trimCRLF raw0
  if raw.length < 2 then return none
  let c0 ← atI raw 0
  if c0 = AT then
    let i := indexByteI raw SP
    if i < 2 then return none
    let tags := some (parseTags (← sliceI raw 1 i))
    let raw ← sliceI raw (i + 1) raw.length
    goSrc tags raw
  else
    goSrc none raw

theorem parseEventGo_eq_goTop (raw0 : Bytes) : parseEventGo raw0 = goTop raw0 := by
  rfl


theorem goTail_eq (tags : Option Tags) (source : Option Source) (raw : Bytes) (n : Nat)
    (hn : n ≤ raw.length) :
    goTail tags source raw (n : Int) = .ok
      (match indexOf SP (raw.drop n) with
       | none => some { tags, source, command := toUpperAscii (raw.drop n), params := [] }
       | some k => some { tags, source, command := toUpperAscii ((raw.drop n).take k),
                          params := parseParams ((raw.drop n).drop (k + 1)) }) := by
  unfold goTail
  rw [sliceI_end raw n hn]
  simp only [bind, Except.bind, pure, Except.pure]
  cases h : indexOf SP (raw.drop n) with
  | none =>
    have : (n : Int) + -1 < n := by omega
    simp [indexByteI, h, this]
  | some k =>
    have hk := indexOf_lt h
    simp at hk
    have hnot : ¬ ((n : Int) + (k : Int) < n) := by omega
    simp only [indexByteI, h, hnot, if_false]
    have e1 : (n : Int) + (k : Int) = ((n + k : Nat) : Int) := by omega
    have e2 : (n : Int) + (k : Int) + 1 = ((n + k + 1 : Nat) : Int) := by omega
    rw [e2, e1, sliceI_nat raw n (n + k) (by omega) (by omega)]
    have hsp : raw[n + k + 1 + 0 - 1]? = some SP := by
      have := indexOf_get h
      rw [List.getElem?_drop] at this
      rw [← this]; congr 1
    have hloop := loop_eq raw (n + k + 1) (by omega) (raw.length + 1) 0 SP (by omega) hsp (by omega)
    simp only [Int.natCast_zero] at hloop ⊢
    rw [hloop]
    simp only [Nat.add_sub_cancel_left, Nat.add_zero, decide_true]
    have hps : List.drop (k + 1) (List.drop n raw) = raw.drop (n + k + 1) := by
      rw [List.drop_drop, Nat.add_assoc]
    rw [hps]
    unfold parseParams findTrailer
    cases hf : findTrailerAux (raw.drop (n + k + 1)) true 0 with
    | none =>
      simp only [Option.map_none]
      rw [sliceI_end raw (n + k + 1) (by omega)]
    | some p =>
      have hp := (findTrailerAux_bound _ _ _ _ hf).2
      simp at hp
      simp only [Option.map_some]
      have e3 : ((n + k + 1 : Nat) : Int) + Int.ofNat p + 1 = ((n + k + 1 + p + 1 : Nat) : Int) := by
        simp only [Int.ofNat_eq_natCast]; omega
      have hd : List.drop (p + 1) (List.drop (n + k + 1) raw) = raw.drop (n + k + 1 + p + 1) := by
        rw [List.drop_drop, Nat.add_assoc (n + k + 1) p 1]
      rw [e3, sliceI_end raw (n + k + 1 + p + 1) (by omega), hd]
      by_cases hp0 : p > 0
      · have hgt : ((n + k + 1 : Nat) : Int) + Int.ofNat p > ((n + k + 1 : Nat) : Int) := by
          simp only [Int.ofNat_eq_natCast]; omega
        have e4 : ((n + k + 1 : Nat) : Int) + Int.ofNat p - 1 = ((n + k + 1 + (p - 1) : Nat) : Int) := by
          simp only [Int.ofNat_eq_natCast]; omega
        rw [if_pos hgt, if_pos hp0, e4, sliceI_nat raw (n + k + 1) (n + k + 1 + (p - 1)) (by omega) (by omega)]
        simp only [Nat.add_sub_cancel_left]
      · have hgt : ¬ (((n + k + 1 : Nat) : Int) + Int.ofNat p > ((n + k + 1 : Nat) : Int)) := by
          simp only [Int.ofNat_eq_natCast]; omega
        rw [if_neg hgt, if_neg hp0]


/-- What `parseEvent` does once tags are known and the line is `raw`. -/
def afterTags (tags : Option Tags) (raw : Bytes) : Option Event :=
  match cutSection COLON raw with
  | none => none
  | some (srcRaw, rest) =>
    match indexOf SP rest with
    | none => some { tags, source := srcRaw.map parseSource, command := toUpperAscii rest, params := [] }
    | some k => some { tags, source := srcRaw.map parseSource, command := toUpperAscii (rest.take k),
                       params := parseParams (rest.drop (k + 1)) }

theorem goTail_eq0 (tags : Option Tags) (source : Option Source) (raw : Bytes) :
    goTail tags source raw 0 = .ok
      (match indexOf SP raw with
       | none => some { tags, source, command := toUpperAscii raw, params := [] }
       | some k => some { tags, source, command := toUpperAscii (raw.take k),
                          params := parseParams (raw.drop (k + 1)) }) := by
  have := goTail_eq tags source raw 0 (Nat.zero_le _)
  simpa using this

theorem goSrc_eq (tags : Option Tags) (raw : Bytes) : goSrc tags raw = .ok (afterTags tags raw) := by
  unfold goSrc afterTags cutSection
  cases raw with
  | nil =>
    simp only [ne_eq, not_true_eq_false, if_false, List.head?_nil]
    rw [goTail_eq0]
    simp
  | cons x xs =>
    have h0 : atI (x :: xs) 0 = .ok x := atI_nat (x :: xs) 0 x (by simp)
    simp only [ne_eq, reduceCtorEq, not_false_eq_true, if_true, h0, bind, Except.bind, pure, Except.pure,
      List.head?_cons, Option.some.injEq]
    by_cases hx : x = COLON
    · simp only [hx, if_true]
      cases h : indexOf SP (COLON :: xs) with
      | none =>
        have : ((-1 : Int) < 2) := by omega
        simp [indexByteI, h]
      | some i =>
        have hi := indexOf_lt h
        by_cases h2 : i < 2
        · have : ((i : Int) < 2) := by omega
          simp [indexByteI, h, this, h2]
        · have : ¬ ((i : Int) < 2) := by omega
          simp only [indexByteI, h, this, h2, if_false]
          have e1 : sliceI (COLON :: xs) 1 (i : Int) = _ :=
            sliceI_nat (COLON :: xs) 1 i (by omega) (by omega)
          have e2 : (i : Int) + 1 = ((i + 1 : Nat) : Int) := by omega
          rw [e1, e2]
          simp only []
          rw [goTail_eq _ _ _ (i + 1) (by omega)]
          simp only [List.drop_take, Option.map_some]
    · simp only [hx, if_false]
      rw [goTail_eq0]
      simp


theorem parseEvent_eq_afterTags (raw0 : Bytes) :
    parseEvent raw0 =
      (if (trimCRLF raw0).length < 2 then none
       else match cutSection AT (trimCRLF raw0) with
         | none => none
         | some (tagsRaw, raw) => afterTags (tagsRaw.map parseTags) raw) := by
  rfl

theorem goTop_eq (raw0 : Bytes) : goTop raw0 = .ok (parseEvent raw0) := by
  rw [parseEvent_eq_afterTags]
  unfold goTop
  simp only []
  generalize trimCRLF raw0 = raw
  by_cases hlen : raw.length < 2
  · simp [hlen, pure, Except.pure]
  · simp only [hlen, if_false]
    cases raw with
    | nil => simp at hlen
    | cons x xs =>
      have h0 : atI (x :: xs) 0 = .ok x := atI_nat (x :: xs) 0 x (by simp)
      simp only [h0, bind, Except.bind, pure, Except.pure]
      unfold cutSection
      simp only [List.head?_cons, Option.some.injEq]
      by_cases hx : x = AT
      · simp only [hx, if_true]
        cases h : indexOf SP (AT :: xs) with
        | none => simp [indexByteI, h]
        | some i =>
          have hi := indexOf_lt h
          by_cases h2 : i < 2
          · have : ((i : Int) < 2) := by omega
            simp [indexByteI, h, this, h2]
          · have : ¬ ((i : Int) < 2) := by omega
            simp only [indexByteI, h, this, h2, if_false]
            have e1 : sliceI (AT :: xs) 1 (i : Int) = _ :=
              sliceI_nat (AT :: xs) 1 i (by omega) (by omega)
            have e2 : (i : Int) + 1 = ((i + 1 : Nat) : Int) := by omega
            rw [e1, e2, sliceI_end _ (i + 1) (by omega)]
            simp only []
            rw [goSrc_eq]
            simp only [List.drop_take, Option.map_some]
      · simp only [hx, if_false]
        rw [goSrc_eq]
        simp


/-- The index-faithful model (every Go slice/index expression checked) never faults, and computes
    exactly the list-functional parser. -/
theorem parseEventGo_eq (raw : Bytes) : parseEventGo raw = .ok (parseEvent raw) := by
  rw [parseEventGo_eq_goTop, goTop_eq]

end Girc.Proofs.ParseTotal
