package main

import (
	"encoding/json"
	"os"
)

// A pure case: named runner + string inputs. Runners compare impl vs model (mismatch)
// and impl vs spec (violation). Replay files store exactly (runner, input).
type runner func(c *Ctx, in map[string]string)

var runners = map[string]runner{}

func (c *Ctx) run(name string, in map[string]string) {
	r, ok := runners[name]
	if !ok {
		fatal("no runner %q", name)
	}
	r(c, in)
}

type replayFile struct {
	Property string            `json:"property"`
	Kind     string            `json:"kind"`
	Runner   string            `json:"runner"`
	Input    map[string]string `json:"input_hex"`
}

func runReplay(c *Ctx, path string) {
	b, err := os.ReadFile(path)
	if err != nil {
		fatal("%v", err)
	}
	var rf replayFile
	if err := json.Unmarshal(b, &rf); err != nil {
		fatal("replay: %v", err)
	}
	if rf.Runner == "" {
		c.R.Note("replay file has no concrete runner (no-failing-input-found); nothing to re-run")
		return
	}
	in := map[string]string{}
	for k, v := range rf.Input {
		in[k] = unhx(v)
	}
	c.run(rf.Runner, in)
}

// genOps: model op -> the driver op that evaluates the function body REGENERATED from the Go source (Gen/Funcs.lean).
var genOps = map[string]string{"fold": "gen.ToRFC1459", "validnick": "gen.IsValidNick", "validuser": "gen.IsValidUser", "validchan": "gen.IsValidChannel",
	"glob": "gen.Glob", "validtag": "gen.validTag", "validtagvalue": "gen.validTagValue", "tagget": "gen.Tags.Get", "ctcpenc": "gen.EncodeCTCPRaw",
	"ctcpdec": "gen.DecodeCTCP", "parse": "gen.ParseEvent", "parsesource": "gen.ParseSource", "parsetags": "gen.ParseTags",
	"bytes": "gen.Event.Bytes", "len": "gen.Event.Len", "tagsbytes": "gen.Tags.Bytes", "tagset": "gen.Tags.Set", "fmt": "gen.Fmt", "stripraw": "gen.StripRaw",
	"plain": "gen.SASLPlain.Encode", "external": "gen.SASLExternal.Encode", "chunks": "gen.handleSASL.chunks"}

// genCheck compares the real function with its regenerated translation on the same input: this validates the translator
// and its run-time model (the tie theorems then carry the model's properties over to what the code says now).
func (c *Ctx) genCheck(modelOp string, hin map[string]string, impl string, args ...string) {
	op, ok := genOps[modelOp]
	if !ok {
		return
	}
	if g := c.L.Call(op, args...); g != impl {
		c.R.Mismatch("translated."+op[4:], hin, impl, g)
	}
	c.R.Dist["translated."+op[4:]]++
}

// compare is the common shape: impl output vs model op and vs spec op.
func (c *Ctx) compare(name string, in map[string]string, impl string, modelOp, specOp string, args ...string) {
	model := c.L.Call(modelOp, args...)
	if model != impl {
		c.R.Mismatch(name, hexIn(in), impl, model)
	}
	c.genCheck(modelOp, hexIn(in), impl, args...)
	if specOp != "" {
		spec := c.L.Call(specOp, args...)
		if spec != impl {
			c.R.Violation(name, hexIn(in), impl, spec, "implementation output differs from the specification's")
		}
	}
}

func hexIn(in map[string]string) map[string]string {
	o := map[string]string{}
	for k, v := range in {
		o[k] = hx(v)
	}
	return o
}
