import Girc.Proofs.ProtocolB
import Girc.Proofs.StsTime
import Girc.Gen.Skel
import Girc.Spec.Skeletons
/- C10 — strict transport security is never downgraded. Property theorems only (decision logic). -/
namespace Girc.Props.C10
open Girc Girc.Model Girc.Spec Girc.Proofs.ProtocolB

/-- The decision model (`stsOnAck`, `planDial`, `onDialFail`) stands for this code — the dial/TLS selection and fallback
    bookkeeping of `newConn`, the policy predicates, the address selection of `Client.server`, and the upgrade loop and
    expiry re-basing at the end of `internalConnect` — as it is in the tree now (regenerated on every run). -/
theorem skel_transport : Gen.skel_newConn = Spec.Skel.skel_newConn ∧ Gen.skel_sts_reset = Spec.Skel.skel_sts_reset ∧
    Gen.skel_sts_expired = Spec.Skel.skel_sts_expired ∧ Gen.skel_sts_enabled = Spec.Skel.skel_sts_enabled ∧
    Gen.skel_Client_server = Spec.Skel.skel_Client_server ∧ Gen.skel_internalConnect = Spec.Skel.skel_internalConnect := by
  decide +kernel

/-- Plaintext + usable port: upgrade, nothing further is written, and the next dial is TLS on that port. -/
theorem upgrade_decision (cfg : Cfg) (sts : Sts) (v : CapVal) (p : Int)
    (htls : cfg.tlsActive = false) (hp : usablePort v = some p) :
    stsOnAck cfg sts v = ({ sts with upgradePort := p, beginUpgrade := true }, .upgrade) ∧
    ∀ cp ssl, planDial cp ssl (stsOnAck cfg sts v).1 = (p, true) :=
  Proofs.ProtocolB.upgrade_decision cfg sts v p htls hp

theorem upgrade_silent (cfg : Cfg) (st : St) (e : Event) (a b c : Bytes) (v : CapVal) (p : Int)
    (hp : e.params = [a, b, c]) (hack : b = cACK) (hd : cfg.disableSTS = false) (htls : cfg.tlsActive = false)
    (hv : AMap.get? (capAck st.tmpCap st.enabledCap (splitOnByte SP c)) sSts = some v) (hport : usablePort v = some p) :
    (handleCAP cfg st e).2 = [Out.close] ∧ (handleCAP cfg st e).1.sts.upgradePort = p ∧
      (handleCAP cfg st e).1.sts.beginUpgrade = true :=
  Proofs.ProtocolB.upgrade_silent cfg st e a b c v p hp hack hd htls hv hport

/-- Plaintext without a usable port: abort, and the stored policy is untouched (not retained). -/
theorem invalid_policy_not_retained (cfg : Cfg) (sts : Sts) (v : CapVal)
    (htls : cfg.tlsActive = false) (hp : usablePort v = none) :
    stsOnAck cfg sts v = (sts, .abort) :=
  Proofs.ProtocolB.invalid_policy_not_retained cfg sts v htls hp

/-- On TLS the port key is ignored and a duration is required; without it: abort and the
    persistence policy is not recorded. -/
theorem tls_needs_duration (cfg : Cfg) (sts : Sts) (v : CapVal)
    (htls : cfg.tlsActive = true) (hd : capValGet v sDuration = none) :
    (stsOnAck cfg sts v).2 = .abort ∧ (stsOnAck cfg sts v).1.persistenceDuration = sts.persistenceDuration ∧
    (stsOnAck cfg sts v).1.upgradePort = sts.upgradePort :=
  Proofs.ProtocolB.tls_needs_duration cfg sts v htls hd

theorem tls_ignores_port (cfg : Cfg) (sts : Sts) (v : CapVal) (htls : cfg.tlsActive = true) :
    (stsOnAck cfg sts v).1.upgradePort = sts.upgradePort ∧ (stsOnAck cfg sts v).2 ≠ .upgrade :=
  Proofs.ProtocolB.tls_ignores_port cfg sts v htls

/-- Once a policy is stored every later dial uses TLS on its port; only an EXPIRED policy with
    fallback allowed is ever dropped, and only by a failed dial. -/
theorem policy_sticks (cp : Int) (ssl : Bool) (s : Sts) (h : s.enabled = true) :
    planDial cp ssl s = (s.upgradePort, true) ∧
    (∀ disableFallback, (onDialFail disableFallback false s) = (s, .stsUpgradeFailed)) ∧
    (∀ expired, (onDialFail true expired s) = (s, .stsUpgradeFailed)) ∧
    (afterCleanEnd s).1.upgradePort = s.upgradePort :=
  Proofs.ProtocolB.policy_sticks cp ssl s h

/-- With DisableSTS the policy is never acted on; with DisableSTS or configured SSL it is never requested. -/
theorem sts_disabled (cfg : Cfg) (st : St) (e : Event) (h : cfg.disableSTS = true) :
    (handleCAP cfg st e).1.sts = st.sts ∧ AMap.contains (possibleCaps cfg) sSts = (AMap.contains cfg.supportedCaps sSts) :=
  Proofs.ProtocolB.sts_disabled cfg st e h

theorem sts_not_requested_on_ssl (cfg : Cfg) (h : cfg.ssl = true) :
    AMap.contains (possibleCaps cfg) sSts = AMap.contains cfg.supportedCaps sSts :=
  Proofs.ProtocolB.sts_not_requested_on_ssl cfg h

/-- Non-vacuity: "sts=port=6697" acknowledged on plaintext. -/
example : usablePort (some [(sPort, [0x36, 0x36, 0x39, 0x37])]) = some 6697 := by decide
example : usablePort (some [(sPort, [0x31, 0x35])]) = none := by decide

/-! ## The policy lifetime with an explicit clock (`Girc/Model/StsTime.lean`)

Time is in integer nanoseconds; `expiredAt now s` is `strictTransport.expired()` read at clock value `now`
(`int(time.Since(persistenceReceived).Seconds()) > persistenceDuration`, `time.Since` saturating); `tstep` is what
handleCAP's STS block (`ackTls`/`ackPlain`), the end of `internalConnect` (`cleanEnd`/`errorEnd`) and a failing
`newConn` (`dialFail`) do to the stored policy. -/

/-- `tstep` is the untimed decision model with `expired` computed from the clock. -/
theorem timed_model_consistent (s : TSts) (now : Int) (dfb : Bool) :
    (tstep s (.dialFail now dfb)).1.toSts = (onDialFail dfb (expiredAt now s) s.toSts).1 ∧
    (tstep s (.dialFail now dfb)).2.dialError = some (onDialFail dfb (expiredAt now s) s.toSts).2 ∧
    (tstep s (.cleanEnd now)).1.toSts = (afterCleanEnd s.toSts).1 ∧
    ((tstep s (.cleanEnd now)).2 = .upgradeRedial ↔ (afterCleanEnd s.toSts).2 = true) ∧
    (tstep s (.cleanEnd now)).1.received = (if !s.beginUpgrade && s.enabled then now else s.received) ∧
    tstep s (.errorEnd now) = (s, .nothing) :=
  ⟨Proofs.StsTime.tstep_dialFail_toSts s now dfb, Proofs.StsTime.tstep_dialFail_error s now dfb,
   (Proofs.StsTime.tstep_cleanEnd_toSts s now).1, (Proofs.StsTime.tstep_cleanEnd_toSts s now).2,
   Proofs.StsTime.tstep_cleanEnd_received s now, rfl⟩

/-- …and `ackPlain` / `ackTls` are handleCAP's STS block (`stsOnAck`) on a plaintext / TLS connection. -/
theorem timed_ack_consistent (cfg : Cfg) (s : TSts) (v : CapVal) (now : Int) :
    (cfg.tlsActive = false →
      (stsOnAck cfg s.toSts v).1 = (tstep s (.ackPlain now (usablePort v))).1.toSts ∧
      ((stsOnAck cfg s.toSts v).2 = .upgrade ↔ (tstep s (.ackPlain now (usablePort v))).2 = .upgradeInit) ∧
      ((stsOnAck cfg s.toSts v).2 = .abort ↔ (tstep s (.ackPlain now (usablePort v))).2 = .abort)) ∧
    (cfg.tlsActive = true →
      let r := stsOnAck cfg s.toSts v
      let t := tstep s (.ackTls now ((capValGet v sDuration).map fun d => (atoi d).getD 0))
      r.1.upgradePort = t.1.upgradePort ∧ r.1.persistenceDuration = t.1.persistenceDuration ∧
      r.1.beginUpgrade = t.1.beginUpgrade ∧ (r.2 = .abort ↔ t.2 = .abort) ∧ (r.2 = .continue_ ↔ t.2 = .nothing)) :=
  ⟨Proofs.StsTime.tstep_ackPlain_stsOnAck cfg s v now, Proofs.StsTime.tstep_ackTls_stsOnAck cfg s v now⟩

/-- Expiry, arithmetically: with `received ≤ now` (and the difference below the ≈292-year saturation point of
    `time.Duration`) the policy is expired exactly when the whole seconds elapsed exceed the stored duration. -/
theorem expired_iff (now : Int) (s : TSts) (h1 : s.received ≤ now) (h2 : now - s.received ≤ maxDuration) :
    expiredAt now s = true ↔ (now - s.received) / 10^9 > s.persistenceDuration :=
  Proofs.StsTime.expired_iff now s h1 h2

/-- So it is not expired anywhere in `[received, received + (duration+1) s)`, and (for durations the clock can
    exceed) expired from then on. A reset policy (duration -1) is expired at every `now ≥ received`. -/
theorem not_expired_within (now : Int) (s : TSts) (h1 : s.received ≤ now)
    (h2 : now < s.received + (s.persistenceDuration + 1) * 10^9) : expiredAt now s = false :=
  Proofs.StsTime.not_expired_within now s h1 h2

theorem expired_from (now : Int) (s : TSts) (hd : s.persistenceDuration < 9223372036)
    (h2 : s.received + (s.persistenceDuration + 1) * 10^9 ≤ now) (h1 : s.received ≤ now) : expiredAt now s = true :=
  Proofs.StsTime.expired_from now s hd h2 h1

theorem reset_expired (now : Int) (s : TSts) (hd : s.persistenceDuration = -1) (h1 : s.received ≤ now) :
    expiredAt now s = true :=
  Proofs.StsTime.reset_expired now s hd h1

/-- Re-basing: after a clean disconnection at `t` the stored lifetime starts at `t` — whatever `received` was, i.e.
    however long the connection had lasted — so every failed dial in `[t, t + (duration+1) s)` leaves the policy
    untouched and returns the upgrade error, with or without `DisableSTSFallback`. -/
theorem rebase_keeps_policy (s : TSts) (t now : Int) (dfb : Bool) (he : s.enabled = true) (hb : s.beginUpgrade = false)
    (h1 : t ≤ now) (h2 : now < t + (s.persistenceDuration + 1) * 10^9) :
    (tstep s (.cleanEnd t)).1 = { s with received := t } ∧
    tstep (tstep s (.cleanEnd t)).1 (.dialFail now dfb) = ((tstep s (.cleanEnd t)).1, .stsUpgradeFailed) :=
  Proofs.StsTime.rebase_keeps_policy s t now dfb he hb h1 h2

/-- History level. `lifetimeOk recv dur es` is a predicate on the HISTORY alone: it tracks the lifetime in force from
    the events (an `ackTls` with a duration sets base and duration, a `cleanEnd` re-bases) and requires every `dialFail`
    to have `disableFallback` or to fall inside that lifetime (and no plaintext acknowledgement: under an enabled policy
    every connection is TLS). Along any such history the policy stays enabled on the same port, every dial is planned
    as TLS on that port, every failed dial returns the upgrade error, and nothing but nothing/abort/upgrade-error
    ever comes out (no fallback, no plain error, no redial). -/
theorem never_downgraded (s : TSts) (es : List TEv) (he : s.enabled = true) (hb : s.beginUpgrade = false)
    (hok : lifetimeOk s.received s.persistenceDuration es = true) :
    (∀ x ∈ ttrace s es,
      x.2.1.enabled = true ∧ x.2.1.upgradePort = s.upgradePort ∧
      (∀ cp ssl, planDial cp ssl x.2.1.toSts = (s.upgradePort, true)) ∧
      (∀ now fb, x.1 = .dialFail now fb → x.2.2 = .stsUpgradeFailed) ∧
      (x.2.2 = .nothing ∨ x.2.2 = .abort ∨ x.2.2 = .stsUpgradeFailed)) ∧
    (trun s es).enabled = true ∧ (trun s es).upgradePort = s.upgradePort :=
  ⟨Proofs.StsTime.never_downgraded es s he hb hok,
   (Proofs.StsTime.never_downgraded_final es s he hb hok).1, (Proofs.StsTime.never_downgraded_final es s he hb hok).2.1⟩

/-- The only step that disables an enabled policy is a failed dial at a time when it is expired, with fallback
    allowed; then `lastFailed` is stamped, the policy is reset, STS_ERR_FALLBACK is the outcome, and the next dial is the
    configured address with TLS only if `Config.SSL`. -/
theorem only_expired_fallback_drops (s : TSts) (e : TEv) (he : s.enabled = true)
    (hdis : (tstep s e).1.enabled = false) :
    ∃ now, e = .dialFail now false ∧ expiredAt now s = true ∧ (tstep s e).2 = .stsFallback ∧
      (tstep s e).1.lastFailed = some now ∧ (tstep s e).1.toSts = s.toSts.reset ∧
      ∀ cp ssl, planDial cp ssl (tstep s e).1.toSts = (cp, ssl) :=
  Proofs.StsTime.only_expired_fallback_drops s e he hdis

theorem expired_fallback_drops (s : TSts) (now : Int) (he : s.enabled = true) (hx : expiredAt now s = true) :
    (tstep s (.dialFail now false)).1.enabled = false ∧ (tstep s (.dialFail now false)).2 = .stsFallback :=
  Proofs.StsTime.expired_fallback_drops s now he hx

/-- Aborted acknowledgements (no port / unusable port on plaintext, no duration on TLS) retain nothing: port, duration
    and both clock readings are exactly what they were. -/
theorem abort_not_retained (s : TSts) (now : Int) :
    tstep s (.ackPlain now none) = (s, .abort) ∧ tstep s (.ackTls now none) = (s, .abort) ∧
    ∀ p, portUsable p = false → tstep s (.ackPlain now (some p)) = (s, .abort) :=
  Proofs.StsTime.abort_not_retained s now

/-- The first upgrade has no lifetime yet: the redial at the clean end does NOT re-base (`goto startConn`), the policy
    still has the reset duration -1, so a failing TLS dial drops it again when fallback is allowed and keeps it
    (upgrade error) when `DisableSTSFallback`. -/
theorem first_upgrade_dial_fails (s : TSts) (p t0 t1 t2 : Int) (hp : portUsable p = true)
    (hd : s.persistenceDuration = -1) (h : s.received ≤ t2) :
    let s1 := (tstep s (.ackPlain t0 (some p))).1
    let s2 := (tstep s1 (.cleanEnd t1))
    s2.2 = .upgradeRedial ∧ s2.1.received = s.received ∧ (∀ cp ssl, planDial cp ssl s2.1.toSts = (p, true)) ∧
    (tstep s2.1 (.dialFail t2 false)).2 = .stsFallback ∧ (tstep s2.1 (.dialFail t2 false)).1.enabled = false ∧
    tstep s2.1 (.dialFail t2 true) = (s2.1, .stsUpgradeFailed) :=
  Proofs.StsTime.first_upgrade_dial_fails s p t0 t1 t2 hp hd h

/-- `lastFailed` (read only by possibleCapList): it changes only when a failed dial resets the policy; for the five
    minutes after that the client does not request `sts` at all unless `DisableSTSFallback`. The reset happens for a
    client WITHOUT any policy too (its reset duration -1 always counts as expired), so with fallback allowed any failed
    dial suppresses STS negotiation on connections made in the next five minutes. -/
theorem lastFailed_changes_only_on_drop (s : TSts) (e : TEv) (h : (tstep s e).1.lastFailed ≠ s.lastFailed) :
    ∃ now, e = .dialFail now false ∧ expiredAt now s = true ∧ (tstep s e).1.lastFailed = some now :=
  Proofs.StsTime.lastFailed_changes_only_on_drop s e h

theorem stsRequestedAt_possibleCaps (cfg : Cfg) (now : Int) (s : TSts)
    (h : cfg.stsRecentlyFailed = recentlyFailedAt now s) :
    AMap.contains (possibleCaps cfg) sSts = true ↔
      (sSts ∈ AMap.keys cfg.supportedCaps ∨ stsRequestedAt now cfg.disableSTS cfg.ssl cfg.disableSTSFallback s = true) :=
  Proofs.StsTime.stsRequestedAt_possibleCaps cfg now s h

theorem no_sts_request_after_drop (s : TSts) (t now : Int) (hx : expiredAt t s = true)
    (h1 : t ≤ now) (h2 : now < t + 300 * 10^9) (dsts ssl : Bool) :
    stsRequestedAt now dsts ssl false (tstep s (.dialFail t false)).1 = false ∧
    stsRequestedAt now false false true (tstep s (.dialFail t false)).1 = true :=
  Proofs.StsTime.no_sts_request_after_drop s t now hx h1 h2 dsts ssl

theorem plain_dial_failure_stamps_lastFailed (s : TSts) (now : Int) (hd : s.persistenceDuration = -1)
    (he : s.enabled = false) (h : s.received ≤ now) :
    (tstep s (.dialFail now false)).2 = .plainError ∧ (tstep s (.dialFail now false)).1.lastFailed = some now :=
  Proofs.StsTime.plain_dial_failure_stamps_lastFailed s now hd he h

/-! ### Non-vacuity and the negative witness -/

/-- A stored policy: port 6697, one hour, received at clock 0. -/
def demoPolicy : TSts := { upgradePort := 6697, persistenceDuration := 3600, received := 0 }

/-- Times in nanoseconds: the server shortens the policy to 60 s one second into a TLS session that then lasts two
    hours; dials fail 30 s and 60 s after the clean end (inside the re-based lifetime) and at 100 s (outside, but with
    fallback disabled); a new session (duration 300 s at 7400 s) ends with an ERROR at 7500 s — no re-basing — and a dial
    fails at 7650 s, inside the lifetime based at 7400 s. -/
def demoHistory : List TEv :=
  [.ackTls 1000000000 (some 60), .cleanEnd 7200000000000, .dialFail 7230000000000 false, .dialFail 7260000000000 false,
   .dialFail 7300000000000 true, .ackTls 7400000000000 (some 300), .ackTls 7401000000000 none, .errorEnd 7500000000000,
   .dialFail 7650000000000 false]

example : demoPolicy.enabled = true ∧ demoPolicy.beginUpgrade = false ∧
    lifetimeOk demoPolicy.received demoPolicy.persistenceDuration demoHistory = true ∧ demoHistory.length = 9 := by decide
example : (ttrace demoPolicy demoHistory).map (·.2.2) =
    [.nothing, .nothing, .stsUpgradeFailed, .stsUpgradeFailed, .stsUpgradeFailed, .nothing, .abort, .nothing, .stsUpgradeFailed] := by
  decide
/-- The predicate is not trivially true: one second later the second dial is outside the 60 s lifetime; and the very same
    dial IS dropped by the model (so the hypothesis of `never_downgraded` is needed). -/
example : lifetimeOk 0 3600 [.ackTls 1000000000 (some 60), .cleanEnd 7200000000000, .dialFail 7261000000000 false] = false := by
  decide
example : (trun demoPolicy [.ackTls 1000000000 (some 60), .cleanEnd 7200000000000, .dialFail 7261000000000 false]).enabled = false := by
  decide

/-- NEGATIVE witness — why the re-basing at the clean end matters. Without it (`tstepNoRebase`: `cleanEnd` leaves
    `received` alone) a TLS session that outlasts the duration (60 s policy, two-hour session), ended cleanly, followed
    by ONE failing dial ten seconds later drops the policy and the next dial is plaintext on the configured port;
    with the re-basing (the code as it is) the same history keeps it. -/
def longSession : List TEv := [.ackTls 1000000000 (some 60), .cleanEnd 7200000000000, .dialFail 7210000000000 false]

example : (trunG false demoPolicy longSession).enabled = false ∧
    planDial 6667 false (trunG false demoPolicy longSession).toSts = (6667, false) ∧
    (ttraceG false demoPolicy longSession).map (·.2.2) = [.nothing, .nothing, .stsFallback] := by decide
example : (trun demoPolicy longSession).enabled = true ∧
    planDial 6667 false (trun demoPolicy longSession).toSts = (6697, true) ∧
    (ttrace demoPolicy longSession).map (·.2.2) = [.nothing, .nothing, .stsUpgradeFailed] := by decide

end Girc.Props.C10
