import Girc.Spec.Sim
import Girc.Proofs.InvHandlers
import Girc.Proofs.SimModeFlag
/-
  C04 proofs, part 6b: the two kinds of state change a MODE message makes, each preserving `Sim`:
  replacing a channel's mode list, and replacing one privilege record of a known user.
-/
namespace Girc.Proofs.SimMode
open Girc Girc.Model Girc.Spec
open Girc.Proofs.InvBase Girc.Proofs.InvHandlers

/-! ### association-list facts not in InvAMap -/

theorem set_eq_self {β : Type} {m : AMap β} (hnd : (AMap.keys m).Nodup) {k : Bytes} {v : β}
    (h : AMap.get? m k = some v) : AMap.set m k v = m := by
  have hm : (k, v) ∈ m := get?_some_mem h
  unfold AMap.set
  have hany : (m.any fun p => p.1 == k) = true := by
    rw [List.any_eq_true]; exact ⟨(k, v), hm, by simp⟩
  rw [if_pos hany]
  conv => rhs; rw [← List.map_id m]
  apply List.map_congr_left
  rintro ⟨a, b⟩ hp
  by_cases e : a = k
  · subst e
    have : b = v := mem_unique hnd hp hm
    subst this
    simp
  · simp [e]

theorem set_set {β : Type} (m : AMap β) (k : Bytes) (a b : β) :
    AMap.set (AMap.set m k a) k b = AMap.set m k b := by
  unfold AMap.set
  by_cases hany : (m.any fun p => p.1 == k) = true
  · have h2 : ((m.map fun p => if p.1 == k then (k, a) else p).any fun p => p.1 == k) = true := by
      rw [List.any_eq_true] at hany ⊢
      obtain ⟨p, hp, hk⟩ := hany
      refine ⟨(k, a), List.mem_map.mpr ⟨p, hp, by rw [if_pos hk]⟩, by simp⟩
    rw [if_pos hany, if_pos hany, if_pos h2, List.map_map]
    apply List.map_congr_left
    intro p _
    simp only [Function.comp]
    by_cases e : (p.1 == k) = true
    · simp [e]
    · simp [e]
  · have h2 : ((m ++ [(k, a)]).any fun p => p.1 == k) = true := by simp
    rw [if_neg hany, if_neg hany, if_pos h2, List.map_append]
    congr 1
    · conv => rhs; rw [← List.map_id m]
      apply List.map_congr_left
      intro p hp
      have : ¬ (p.1 == k) = true := fun e => hany (List.any_eq_true.mpr ⟨p, hp, e⟩)
      simp [this]
    · simp

/-! ### the reference's privilege records -/

theorem find_setPerms (l : List ((Bytes × Bytes) × Perms)) (key key' : Bytes × Bytes) (p : Perms) :
    ((l.filter (·.1 != key)) ++ [(key, p)]).find? (·.1 == key') =
      if key' = key then some (key, p) else l.find? (·.1 == key') := by
  induction l with
  | nil =>
    by_cases e : key' = key
    · subst e; simp
    · have : ¬ key = key' := fun e' => e e'.symm
      simp [e, this]
  | cons a l ih =>
    rw [List.filter_cons]
    by_cases ha : a.1 = key
    · have : (a.1 != key) = false := by simp [ha]
      rw [this]
      simp only [Bool.false_eq_true, if_false]
      rw [ih]
      by_cases e : key' = key
      · rw [if_pos e, if_pos e]
      · rw [if_neg e, if_neg e, List.find?_cons]
        have : (a.1 == key') = false := by
          rw [ha]; simp; exact fun e' => e e'.symm
        rw [this]
    · have : (a.1 != key) = true := by simp [ha]
      rw [this]
      simp only [if_true]
      rw [List.cons_append, List.find?_cons, List.find?_cons, ih]
      by_cases e : key' = key
      · have : (a.1 == key') = false := by rw [e]; simp [ha]
        rw [this, if_pos e]
      · simp only [if_neg e]

theorem getPerms_setPerms (r : Ref) (c u c' u' : Bytes) (p : Perms) :
    (r.setPerms c u p).getPerms c' u' = if (c', u') = (c, u) then p else r.getPerms c' u' := by
  unfold Ref.getPerms Ref.setPerms
  dsimp only
  rw [find_setPerms]
  split <;> rfl

/-! ### replacing a channel's mode list -/

theorem sim_setModes {st : St} {r : Ref} {k : Bytes} {ch : Channel} (h : Sim st r)
    (hc : AMap.get? st.channels k = some ch) (ms' : List CMode)
    (hms : ∀ x ∈ ms', x.add = true ∧ x.setting = true) :
    Sim (setChannel st k { ch with modes := { ch.modes with modes := ms' } })
      { r with chans := AMap.set r.chans k { chanView ch with modes := ms'.map mview } } := by
  have hrc : AMap.get? r.chans k = some (chanView ch) := by rw [← h.chans k, hc]; rfl
  have hkr : k ∈ AMap.keys r.chans := get?_some_mem_keys hrc
  exact
  { inv := inv_setChannel_attrs st k ch _ h.inv (get?_some_mem hc) rfl rfl
    nick := h.nick, ident := h.ident, host := h.host, motd := h.motd
    maxLine := h.maxLine, maxPrefix := h.maxPrefix
    opts := h.opts
    chans := by
      intro k'
      show (AMap.get? (AMap.set st.channels k _) k').map chanView = AMap.get? (AMap.set r.chans k _) k'
      rw [get?_set, get?_set]
      split
      · rfl
      · exact h.chans k'
    chanModesWF := by
      intro k' ch' hk'
      change AMap.get? (AMap.set st.channels k _) k' = some ch' at hk'
      rw [get?_set] at hk'
      split at hk'
      · cases hk'
        exact ⟨hms, (h.chanModesWF k ch hc).2⟩
      · exact h.chanModesWF k' ch' hk'
    users := h.users
    members := by
      intro k' ch' hk' n
      change AMap.get? (AMap.set st.channels k _) k' = some ch' at hk'
      rw [get?_set] at hk'
      split at hk'
      · next e => cases hk'; subst e; exact h.members k' ch hc n
      · exact h.members k' ch' hk' n
    membersKnown := by
      intro k' n hm
      refine ⟨?_, (h.membersKnown k' n hm).2⟩
      show AMap.contains (AMap.set r.chans k _) k' = true
      rw [contains_iff, mem_keys_set]
      exact Or.inr ((contains_iff _ _).mp (h.membersKnown k' n hm).1)
    membersNodup := h.membersNodup
    perms := fun k' n u hm hu => h.perms k' n u hm hu
    permsKnown := h.permsKnown
    chanKeysNodup := keys_set_nodup h.chanKeysNodup k _
    userKeysNodup := h.userKeysNodup
    chanKeysNonempty := by
      intro k' hk'
      apply h.chanKeysNonempty
      change AMap.contains (AMap.set r.chans k _) k' = true at hk'
      rw [contains_iff, mem_keys_set] at hk'
      rw [contains_iff]
      rcases hk' with rfl | hk'
      · exact hkr
      · exact hk' }

/-- Storing a channel that is already stored changes nothing. -/
theorem sim_setChannel_self {st : St} {r : Ref} {k : Bytes} {ch : Channel} (h : Sim st r)
    (hc : AMap.get? st.channels k = some ch) : Sim (setChannel st k ch) r := by
  have : setChannel st k ch = st := by
    unfold setChannel
    rw [set_eq_self h.inv.chanKeys hc]
  rw [this]; exact h

/-! ### replacing one privilege record -/

theorem sim_setPerms {st : St} {r : Ref} {n k : Bytes} {u : User} (h : Sim st r)
    (hu : AMap.get? st.users n = some u) (p1 p2 : Perms) (hp : (k, n) ∈ r.members → p1 = p2) :
    Sim (setUser st n { u with perms := AMap.set u.perms k p1 }) (r.setPerms k n p2) := by
  have hru : AMap.get? r.users n = some (userView u) := by rw [← h.users n, hu]; rfl
  exact
  { inv := inv_setUser_attrs st n u _ h.inv (get?_some_mem hu) rfl rfl
    nick := h.nick, ident := h.ident, host := h.host, motd := h.motd
    maxLine := h.maxLine, maxPrefix := h.maxPrefix
    opts := h.opts
    chans := h.chans
    chanModesWF := h.chanModesWF
    users := by
      intro n'
      show (AMap.get? (AMap.set st.users n _) n').map userView = AMap.get? r.users n'
      rw [get?_set]
      split
      · next e => subst e; rw [hru]; rfl
      · exact h.users n'
    members := h.members
    membersKnown := h.membersKnown
    membersNodup := h.membersNodup
    perms := by
      intro k' n' u' hm hu'
      change AMap.get? (AMap.set st.users n _) n' = some u' at hu'
      rw [getPerms_setPerms]
      rw [get?_set] at hu'
      split at hu'
      · next e =>
        subst e; cases hu'
        show (AMap.get? (AMap.set u.perms k p1) k').getD {} = _
        rw [get?_set]
        by_cases hk : k' = k
        · subst hk; rw [if_pos rfl, if_pos rfl]; exact hp hm
        · rw [if_neg hk, if_neg (by intro e; cases e; exact hk rfl)]; exact h.perms k' n' u hm hu
      · next ne =>
        rw [if_neg (by intro e; cases e; exact ne rfl)]; exact h.perms k' n' u' hm hu'
    permsKnown := by
      intro p hp
      change p ∈ (r.perms.filter _) ++ [_] at hp
      rcases List.mem_append.mp hp with hp | hp
      · exact h.permsKnown p (List.mem_filter.mp hp).1
      · rw [List.mem_singleton] at hp; subst hp
        show AMap.contains r.users n = true
        rw [contains_iff_get?]; exact ⟨_, hru⟩
    chanKeysNodup := h.chanKeysNodup
    userKeysNodup := h.userKeysNodup
    chanKeysNonempty := h.chanKeysNonempty }

/-! ### `modePerms` -/

theorem lookupUser_setChannel (st : St) (k : Bytes) (c : Channel) (x : Bytes) :
    (setChannel st k c).lookupUser x = st.lookupUser x := rfl

theorem modePerms_channels (name la : Bytes) (st : St) (m : CMode) :
    (modePerms name la st m).channels = st.channels := by
  unfold modePerms
  split
  · rfl
  · split
    · rfl
    · split <;> rfl

theorem modePerms_setChannel (name la : Bytes) (st : St) (m : CMode) (k : Bytes) (c : Channel) :
    modePerms name la (setChannel st k c) m = setChannel (modePerms name la st m) k c := by
  unfold modePerms
  simp only [lookupUser_setChannel]
  split
  · rfl
  · split
    · rfl
    · split <;> rfl

theorem modePerms_skip (name la : Bytes) (st : St) (m : CMode)
    (h : (m.setting || la.contains m.name) = true) : modePerms name la st m = st := by
  unfold modePerms
  rw [Bool.or_eq_true] at h
  rcases h with h | h
  · rw [h]; simp
  · split
    · rfl
    · first | rfl | rw [if_pos h]

/-- A privilege change of a PREFIX letter. -/
theorem sim_modePerms {st : St} {r : Ref} (h : Sim st r) (name la : Bytes) (m : CMode)
    (hs : m.setting = false) (hl : la.contains m.name = false) :
    Sim (modePerms name la st m) (r.applyPriv (fold name) (m.name, m.args, m.add)) := by
  unfold modePerms Ref.applyPriv
  dsimp only
  rw [hs, hl]
  simp only [Bool.false_or, Bool.false_eq_true, if_false]
  by_cases he : m.args.isEmpty = true
  · rw [he]; simp only [Bool.true_or, if_true]; exact h
  · have he' : m.args.isEmpty = false := by simpa using he
    rw [he']
    simp only [Bool.false_or, Bool.false_eq_true, if_false]
    rw [lookupUser_eq]
    cases hu : AMap.get? st.users (fold m.args) with
    | none =>
      have : AMap.contains r.users (fold m.args) = false := by
        rw [contains_eq_false_iff, ← h.users, hu]; rfl
      rw [this]
      simp only [Bool.not_false, if_true]
      exact h
    | some user =>
      have : AMap.contains r.users (fold m.args) = true := by
        rw [contains_iff_get?]; exact ⟨userView user, by rw [← h.users, hu]; rfl⟩
      rw [this]
      simp only [Bool.not_true, Bool.false_eq_true, if_false]
      apply sim_setPerms h hu
      intro hm
      rw [h.perms _ _ _ hm hu]
      rfl

end Girc.Proofs.SimMode
