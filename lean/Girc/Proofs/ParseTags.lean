import Girc.Proofs.ParseLemmas
import Girc.Spec.Grammar
/-
  `parseTags` on a rendered tag list, and byte facts about tag keys.
-/
namespace Girc.Proofs.ParseTags
open Girc Girc.Model Girc.Spec Girc.Proofs.ParseLemmas

/-- A byte that may occur in a valid tag key (including the client-only prefix '+'). -/
def keyByteOK (b : Byte) : Bool := tagKeyByte b || b == 0x2B

theorem keyByteOK_facts : ∀ b : UInt8, keyByteOK b = true →
    b ≠ 0x3D ∧ b ≠ 0x3B ∧ b ≠ 0x20 ∧ b ≠ 0x40 ∧ b ≠ 0x0D ∧ b ≠ 0x0A ∧ b ≠ 0x00 ∧ b < 0x80 := by
  decide +kernel

theorem validTag_bytes (k : Bytes) (h : validTag k = true) :
    k ≠ [] ∧ ∀ b ∈ k, keyByteOK b = true := by
  cases k with
  | nil => simp [validTag] at h
  | cons x xs =>
    refine ⟨by simp, ?_⟩
    unfold validTag at h
    simp only [List.length_cons, Nat.succ_lt_succ_iff, Nat.not_lt_zero, if_false] at h
    by_cases hc : (decide (xs.length + 1 ≥ 2) && decide ((x :: xs).head? = some 0x2B)) = true
    · rw [if_pos hc] at h
      simp only [List.head?_cons, Bool.and_eq_true, decide_eq_true_eq, Option.some.injEq] at hc
      intro b hb
      simp only [List.mem_cons] at hb
      rcases hb with hb | hb
      · subst hb; simp [keyByteOK, hc.2]
      · have := List.all_eq_true.mp h b (by simpa using hb)
        simp [keyByteOK, this]
    · rw [if_neg hc] at h
      intro b hb
      have := List.all_eq_true.mp h b hb
      simp [keyByteOK, this]

theorem validTag_ne_nil (k : Bytes) (h : validTag k = true) : k ≠ [] := (validTag_bytes k h).1

theorem validTag_not_mem (k : Bytes) (h : validTag k = true) (c : Byte)
    (hc : keyByteOK c = false) : c ∉ k := by
  intro hm
  have := (validTag_bytes k h).2 c hm
  rw [hc] at this
  exact absurd this (by simp)

theorem validTag_no_eq (k : Bytes) (h : validTag k = true) : (0x3D : Byte) ∉ k :=
  validTag_not_mem k h _ (by decide)
theorem validTag_no_semi (k : Bytes) (h : validTag k = true) : (0x3B : Byte) ∉ k :=
  validTag_not_mem k h _ (by decide)
theorem validTag_no_sp (k : Bytes) (h : validTag k = true) : SP ∉ k :=
  validTag_not_mem k h _ (by decide)
theorem validTag_no_cr (k : Bytes) (h : validTag k = true) : CR ∉ k :=
  validTag_not_mem k h _ (by decide)
theorem validTag_no_lf (k : Bytes) (h : validTag k = true) : LF ∉ k :=
  validTag_not_mem k h _ (by decide)
theorem validTag_no_nul (k : Bytes) (h : validTag k = true) : NUL ∉ k :=
  validTag_not_mem k h _ (by decide)

theorem validTag_head (k : Bytes) (h : validTag k = true) : k.head? ≠ some 0x40 := by
  intro hh
  have hm : (0x40 : Byte) ∈ k := List.mem_of_mem_head? hh
  exact validTag_not_mem k h _ (by decide) hm

theorem validTag_ascii (k : Bytes) (h : validTag k = true) : k.all (· < 0x80) = true := by
  rw [List.all_eq_true]
  intro b hb
  have := keyByteOK_facts b ((validTag_bytes k h).2 b hb)
  simp [this.2.2.2.2.2.2.2]

/-! ### `parseTagItem` -/

theorem parseTagItem_key (t : Tags) (k : Bytes) (hv : validTag k = true) :
    parseTagItem t k = AMap.set t k [] := by
  unfold parseTagItem
  rw [indexOf_none _ _ (validTag_no_eq k hv)]
  simp [hv]

theorem parseTagItem_kv (t : Tags) (k v : Bytes) (hv : validTag k = true) :
    parseTagItem t (k ++ [0x3D] ++ v) = AMap.set t k v := by
  obtain ⟨n, hn⟩ : ∃ n, k.length = n + 1 := by
    cases k with
    | nil => exact absurd rfl (validTag_ne_nil _ hv)
    | cons x xs => exact ⟨xs.length, rfl⟩
  unfold parseTagItem
  have e : k ++ [0x3D] ++ v = k ++ 0x3D :: v := by simp
  rw [e, indexOf_append_cons _ _ _ (validTag_no_eq k hv), hn]
  simp only
  have e1 : List.take (n + 1) (k ++ 0x3D :: v) = k := by rw [← hn, List.take_left]
  have e2 : List.drop (n + 2) (k ++ 0x3D :: v) = v := by
    have : n + 2 = k.length + 1 := by omega
    rw [this, ← List.drop_drop, List.drop_left]; rfl
  rw [e1, e2]

theorem parseTagItem_renderTag (t : Tags) (x : Bytes × Option Bytes) (hv : validTag x.1 = true) :
    parseTagItem t (renderTag x) = AMap.set t x.1 (x.2.getD []) := by
  obtain ⟨k, ov⟩ := x
  cases ov with
  | none => simpa [renderTag] using parseTagItem_key t k hv
  | some v => simpa [renderTag] using parseTagItem_kv t k v hv

theorem foldl_parseTagItem (ts : List (Bytes × Option Bytes)) (hv : ∀ x ∈ ts, validTag x.1 = true) :
    ∀ acc : Tags, (ts.map renderTag).foldl parseTagItem acc =
      ts.foldl (fun m t => AMap.set m t.1 (t.2.getD [])) acc := by
  induction ts with
  | nil => intro acc; rfl
  | cons x ts ih =>
    intro acc
    simp only [List.map_cons, List.foldl_cons]
    rw [parseTagItem_renderTag acc x (hv x (by simp))]
    exact ih (fun y hy => hv y (by simp [hy])) _

theorem joinWith_head (sep : Bytes) (p : Bytes) (ps : List Bytes) (hp : p ≠ []) :
    (joinWith sep (p :: ps)).head? = p.head? := by
  cases p with
  | nil => exact absurd rfl hp
  | cons x xs =>
    cases ps with
    | nil => simp [joinWith]
    | cons q qs => simp [joinWith]

theorem joinWith_ne_nil (sep : Bytes) (p : Bytes) (ps : List Bytes) (hp : p ≠ []) :
    joinWith sep (p :: ps) ≠ [] := by
  cases ps with
  | nil => simpa [joinWith] using hp
  | cons q qs => simp [joinWith, hp]

theorem renderTag_head (x : Bytes × Option Bytes) (hv : validTag x.1 = true) :
    renderTag x ≠ [] ∧ (renderTag x).head? = x.1.head? := by
  obtain ⟨k, ov⟩ := x
  have hne := validTag_ne_nil k hv
  cases k with
  | nil => exact absurd rfl hne
  | cons b bs => cases ov <;> simp [renderTag]

/-- The tag section of a rendered line parses to the tag map the grammar assigns. -/
theorem parseTags_render (ts : List (Bytes × Option Bytes)) (hne : ts ≠ [])
    (hk : ∀ x ∈ ts, validTag x.1 = true)
    (hv : ∀ x ∈ ts, ∀ v, x.2 = some v → (0x3B : Byte) ∉ v) :
    parseTags (joinWith [0x3B] (ts.map renderTag)) = meaningTags ts := by
  cases ts with
  | nil => exact absurd rfl hne
  | cons x ts =>
    have hx := renderTag_head x (hk x (by simp))
    have hhead : (joinWith [0x3B] ((x :: ts).map renderTag)).head? ≠ some 0x40 := by
      rw [List.map_cons, joinWith_head _ _ _ hx.1, hx.2]
      exact validTag_head _ (hk x (by simp))
    unfold parseTags
    simp only [hhead, if_false]
    rw [splitOnByte_joinWith _ _ (by simp)]
    · exact foldl_parseTagItem (x :: ts) hk []
    · intro it hit
      simp only [List.mem_map] at hit
      obtain ⟨y, hy, rfl⟩ := hit
      obtain ⟨k, ov⟩ := y
      have hks := validTag_no_semi k (hk _ hy)
      cases ov with
      | none => simpa [renderTag] using hks
      | some v =>
        have := hv _ hy v rfl
        simp [renderTag, hks, this]

end Girc.Proofs.ParseTags
