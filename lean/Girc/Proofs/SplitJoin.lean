import Girc.Spec.SplitSpec
/-
  C11, the easy half: Join/List batching, MaxEventLength defaults, ISUPPORT lengths.
-/
namespace Girc.Proofs.SplitJoin
open Girc Girc.Model Girc.Spec

/-! ### `splitOnByte` -/

theorem splitOnByte_ne_nil (sep : Byte) (s : Bytes) : splitOnByte sep s ≠ [] := by
  induction s with
  | nil => simp [splitOnByte]
  | cons x xs ih =>
    unfold splitOnByte
    split
    · simp
    · split
      · simp
      · simp

theorem splitOnByte_cons_eq (sep : Byte) (xs : Bytes) :
    splitOnByte sep (sep :: xs) = [] :: splitOnByte sep xs := by
  simp [splitOnByte]

theorem splitOnByte_cons_ne (sep x : Byte) (xs p : Bytes) (ps : List Bytes) (hx : x ≠ sep)
    (hs : splitOnByte sep xs = p :: ps) : splitOnByte sep (x :: xs) = (x :: p) :: ps := by
  simp [splitOnByte, hx, hs]

theorem splitOnByte_append_sep (sep : Byte) (a b : Bytes) :
    splitOnByte sep (a ++ sep :: b) = splitOnByte sep a ++ splitOnByte sep b := by
  induction a with
  | nil => simp [splitOnByte_cons_eq]; rfl
  | cons x a ih =>
    rw [List.cons_append]
    by_cases hx : x = sep
    · subst hx
      rw [splitOnByte_cons_eq, splitOnByte_cons_eq, ih, List.cons_append]
    · have hne := splitOnByte_ne_nil sep a
      cases hs : splitOnByte sep a with
      | nil => exact absurd hs hne
      | cons p ps =>
        rw [splitOnByte_cons_ne sep x a p ps hx hs,
          splitOnByte_cons_ne sep x (a ++ sep :: b) p (ps ++ splitOnByte sep b) hx (by rw [ih, hs]; rfl)]
        rfl

theorem splitOnByte_of_not_mem (sep : Byte) (a : Bytes) (h : sep ∉ a) : splitOnByte sep a = [a] := by
  induction a with
  | nil => rfl
  | cons x a ih =>
    have hx : x ≠ sep := fun e => h (by simp [e])
    have ha : sep ∉ a := fun e => h (by simp [e])
    unfold splitOnByte
    simp only [hx, if_false, ih ha]

/-! ### Join / List batching -/

theorem batch_flat (max : Int) : ∀ (rest : List Bytes) (buffer : Bytes),
    (∀ c ∈ rest, c ≠ [] ∧ 0x2C ∉ c) → buffer ≠ [] →
    (batchChannels max rest buffer).flatMap (splitOnByte 0x2C) = splitOnByte 0x2C buffer ++ rest
  | [], buffer, _, _ => by simp [batchChannels]
  | ch :: rest, buffer, h, hb => by
    have hch := h ch (by simp)
    have hrest : ∀ c ∈ rest, c ≠ [] ∧ 0x2C ∉ c := fun c hc => h c (by simp [hc])
    have hbe : buffer.isEmpty = false := by cases buffer <;> simp_all
    unfold batchChannels
    split
    · rw [List.flatMap_cons, batch_flat max rest ch hrest hch.1, splitOnByte_of_not_mem _ _ hch.2]
      simp
    · simp only [hbe, Bool.false_eq_true, if_false]
      rw [batch_flat max rest _ hrest (by simp), List.append_assoc, List.singleton_append,
        splitOnByte_append_sep, splitOnByte_of_not_mem _ _ hch.2]
      simp

theorem join_all_once (max : Int) (chans : List Bytes) (h : ∀ c ∈ chans, c ≠ [] ∧ 0x2C ∉ c) :
    (joinBatches max chans).flatMap (splitOnByte 0x2C) = chans := by
  cases chans with
  | nil => rfl
  | cons ch rest =>
    have hch := h ch (by simp)
    have hrest : ∀ c ∈ rest, c ≠ [] ∧ 0x2C ∉ c := fun c hc => h c (by simp [hc])
    show (batchChannels max (ch :: rest) []).flatMap (splitOnByte 0x2C) = ch :: rest
    unfold batchChannels
    simp only [List.isEmpty_nil, Bool.not_true, Bool.false_and, Bool.false_eq_true, if_false, if_true]
    rw [batch_flat max rest ch hrest hch.1, splitOnByte_of_not_mem _ _ hch.2]
    rfl

theorem batch_fit (max : Int) (chans : List Bytes) : ∀ (rest : List Bytes) (buffer : Bytes),
    (∀ c ∈ rest, c ∈ chans) → ((buffer.length : Int) ≤ max ∨ buffer ∈ chans) →
    ∀ b ∈ batchChannels max rest buffer, (b.length : Int) ≤ max ∨ b ∈ chans
  | [], buffer, _, hb => by
    intro b hbm
    simp only [batchChannels, List.mem_singleton] at hbm
    subst hbm; exact hb
  | ch :: rest, buffer, h, hb => by
    have hch := h ch (by simp)
    have hrest : ∀ c ∈ rest, c ∈ chans := fun c hc => h c (by simp [hc])
    unfold batchChannels
    split
    · intro b hbm
      rcases List.mem_cons.mp hbm with rfl | hbm
      · exact hb
      · exact batch_fit max chans rest ch hrest (Or.inr hch) b hbm
    · rename_i hcond
      apply batch_fit max chans rest _ hrest
      by_cases hbe : buffer.isEmpty = true
      · simp only [hbe, if_true]; exact Or.inr hch
      · simp only [hbe, Bool.false_eq_true, if_false]
        left
        simp only [Bool.not_eq_true] at hbe
        simp only [hbe, Bool.not_false, Bool.true_and, decide_eq_true_eq] at hcond
        omega

theorem join_batches_fit (max : Int) (chans : List Bytes) :
    ∀ b ∈ joinBatches max chans, (b.length : Int) ≤ max ∨ b ∈ chans := by
  cases chans with
  | nil => intro b hb; simp [joinBatches] at hb
  | cons ch rest =>
    show ∀ b ∈ batchChannels max (ch :: rest) [], _
    unfold batchChannels
    simp only [List.isEmpty_nil, Bool.not_true, Bool.false_and, Bool.false_eq_true, if_false, if_true]
    exact batch_fit max (ch :: rest) rest ch (fun c hc => by simp [hc]) (Or.inr (by simp))

/-! ### Length limits -/

theorem max_event_length_default (cfg : Cfg) : maxEventLength cfg {} = 512 - 2 - (4 + 30 + 18 + 63) := by
  unfold maxEventLength
  split <;> decide

theorem isupport_lengths (st : St) (e : Event) (h1 : isSuffixOfB sThisServer e.last = true) (h2 : 2 ≤ e.params.length) :
    let opts := ((e.params.drop 1).dropLast).foldl isupportItem st.serverOptions
    let oi (k : Bytes) : Option Int := (AMap.get? opts k).bind atoi
    let line : Int := (oi sLINELEN).getD st.maxLineLength
    let nick0 : Int := (oi sNICKLEN).getD 30
    let nick : Int := match oi sMAXNICKLEN with | some t => if t > nick0 then t else nick0 | none => nick0
    let user : Int := match oi sUSERLEN with | some t => if t > 18 then t else 18 | none => 18
    let host : Int := match oi sHOSTLEN with | some t => if t > 63 then t else 63 | none => 63
    (handleISUPPORT st e).maxLineLength = (match oi sLINELEN with | some t => t - 2 | none => st.maxLineLength) ∧
    (handleISUPPORT st e).maxPrefixLength = (if 4 + nick + user + host ≥ line then st.maxPrefixLength else 4 + nick + user + host) := by
  have h2' : ¬ (e.params.length < 2) := by omega
  unfold handleISUPPORT
  simp only [h1, Bool.not_true, Bool.false_eq_true, if_false, h2', optInt]
  generalize List.foldl isupportItem st.serverOptions (List.drop 1 e.params).dropLast = opts
  obtain ⟨oL, hL⟩ : ∃ oL, (AMap.get? opts sLINELEN).bind atoi = oL := ⟨_, rfl⟩
  simp only [hL]
  cases oL <;>
  simp only [Option.getD] <;>
  (generalize (AMap.get? opts sNICKLEN).bind atoi = oN
   generalize (AMap.get? opts sMAXNICKLEN).bind atoi = oM
   generalize (AMap.get? opts sUSERLEN).bind atoi = oU
   generalize (AMap.get? opts sHOSTLEN).bind atoi = oH
   refine ⟨?_, ?_⟩ <;> simp only [apply_ite St.maxLineLength, apply_ite St.maxPrefixLength, ite_self] <;>
     first | rfl | (cases oN <;> cases oM <;> cases oU <;> cases oH <;> rfl))

end Girc.Proofs.SplitJoin
