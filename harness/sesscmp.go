package main

import (
	"fmt"
	"runtime"
	"sort"
	"strings"

	"github.com/lrstanley/girc"
)

// encCfg encodes a session config for the Lean `run` op (must match Girc/Drv/RunOps.lean argCfg).
func encCfg(sc SessCfg, tlsActive, stsRecentlyFailed bool) string {
	kind, a, b := "", "", ""
	switch {
	case sc.SASL == "plain":
		kind, a, b = "plain", sc.SASLUser, sc.SASLPass
	case sc.SASL == "external":
		kind, a = "external", sc.SASLUser
	case strings.HasPrefix(sc.SASL, "custom:"):
		kind, b = "custom", sc.SASL[len("custom:"):]
	}
	var caps []string
	var keys []string
	for k := range sc.SupportedCaps {
		keys = append(keys, k)
	}
	sort.Strings(keys)
	for _, k := range keys {
		caps = append(caps, strings.Join(append([]string{k}, sc.SupportedCaps[k]...), "\x00"))
	}
	fl := ""
	for _, f := range []bool{sc.DisableSTS, sc.DisableSTSFallback, sc.SSL, tlsActive, stsRecentlyFailed, sc.DisableTracking, sc.GlobalFormat} {
		if f {
			fl += "1"
		} else {
			fl += "0"
		}
	}
	ck, ca := "", ""
	switch {
	case strings.HasPrefix(sc.NickCollide, "suffix:"):
		ck, ca = "suffix", sc.NickCollide[len("suffix:"):]
	case sc.NickCollide == "empty":
		ck = "empty"
	case strings.HasPrefix(sc.NickCollide, "fixed:"):
		ck, ca = "fixed", sc.NickCollide[len("fixed:"):]
	}
	name := sc.Name
	if name == "" {
		name = sc.User
	}
	rtv := fmt.Sprintf("%s (%s, %s)", runtime.Version(), runtime.GOOS, runtime.GOARCH)
	return hxList([]string{sc.Nick, sc.User, kind, a, b, strings.Join(caps, "\x01"), fl, sc.Version, rtv, ck, ca, name})
}

// registrationLines: how many lines the client writes before anything is received.
func registrationCount(sc SessCfg) int {
	n := 2 // NICK, USER
	if len(sc.WebIRC) == 4 && sc.WebIRC[0] != "" {
		n++
	}
	if sc.ServerPass != "" {
		n++
	}
	if !sc.DisableTracking {
		n++ // CAP LS 302
	}
	return n
}

func canonLine(l string) string {
	if strings.HasPrefix(l, "CAP REQ :") {
		toks := strings.Split(l[len("CAP REQ :"):], " ")
		sort.Strings(toks)
		return "CAP REQ :" + strings.Join(toks, " ")
	}
	if i := strings.Index(l, "\x01TIME :"); i >= 0 {
		return l[:i] + "\x01TIME :<time>\x01"
	}
	if i := strings.Index(l, " -- idle "); i >= 0 && strings.Contains(l, "\x01FINGER ") {
		return l[:i] + " -- idle <dur>\x01"
	}
	return l
}

func canonEnded(connect string) string {
	// Close() at the end of a script makes Connect return nil; anything else was the real outcome
	if strings.HasPrefix(connect, "closed-at-end:") && connect != "closed-at-end:nil" {
		connect = strings.TrimPrefix(connect, "closed-at-end:")
	}
	switch {
	case strings.HasPrefix(connect, "errevent:"):
		t := connect[len("errevent:"):]
		if i := strings.Index(t, "config: "); i >= 0 {
			t = t[:i+len("config: ")]
		}
		return "errevent:" + hx(t)
	case connect == "nil":
		return "closed"
	case strings.HasPrefix(connect, "err:unable to parse event"):
		return "parseerror"
	case connect == "" || strings.HasPrefix(connect, "closed-at-end"):
		return "running"
	}
	return connect
}

type SessCmp struct {
	// PerStep[i] = the lines the implementation wrote in response to steps[i] (a received line or a helper call)
	PerStep   map[int][]string
	Res       *SessResult
	ImplW     []string // canonical written lines after registration
	ModelW    []string
	ImplDump  [][]string
	ModelDump [][]string
	ImplEnd   string
	ModelEnd  string
	ModelF    string
	Diffs     []string
}

// CompareSession runs the history on the real client and on the Lean model.
// steps: "R<line>" or "D". A barrier follows every received line.
func (c *Ctx) CompareSession(sc SessCfg, steps []string, tlsActive, stsRecentlyFailed bool) *SessCmp {
	s := &Session{Cfg: sc}
	nick := sc.Nick
	barrierOf := map[int]int{} // index into steps -> index of the barrier step that follows it
	for sti, st := range steps {
		switch st[0] {
		case 'R':
			line := st[1:]
			s.Steps = append(s.Steps, Step{Op: "recv", Arg: line}, Step{Op: "barrier"})
			barrierOf[sti] = len(s.Steps) - 1
			// after 001 the background welcome handler sets the nick: wait for it
			if e := girc.ParseEvent(line); e != nil && e.Command == "001" && len(e.Params) > 0 && !sc.DisableTracking {
				nick = e.Params[0]
				s.Steps = append(s.Steps, Step{Op: "waitnick", Arg: nick})
			}
			if strings.Contains(line, "\x01") {
				s.Steps = append(s.Steps, Step{Op: "sleep"}, Step{Op: "barrier"})
			}
		case 'C':
			f := strings.Split(st[1:], "\x00")
			s.Steps = append(s.Steps, Step{Op: "call", Arg: f[0], Args: f[1:]}, Step{Op: "barrier"})
			barrierOf[sti] = len(s.Steps) - 1
		case 'S':
			s.Steps = append(s.Steps, Step{Op: "snap", Arg: st[1:]})
		case 'D':
			if !sc.DisableTracking {
				s.Steps = append(s.Steps, Step{Op: "dump"})
			}
		}
	}
	var msteps []string
	for _, st := range steps {
		if st[0] == 'D' && sc.DisableTracking {
			continue
		}
		msteps = append(msteps, st)
	}
	out := &SessCmp{}
	var texts []string
	for _, st := range steps {
		if st[0] == 'C' {
			texts = append(texts, strings.Split(st[1:], "\x00")[1:]...)
		}
	}
	resp := c.L.Call("run", encCfg(sc, tlsActive, stsRecentlyFailed), hxList(msteps), hxList(badURLs(texts...)))
	f := strings.Split(resp, " ")
	if len(f) != 4 {
		fatal("run: bad response %q", resp)
	}
	nModel := len(splitHexList(strings.TrimPrefix(f[0], "W=")))
	s.RegLines = registrationCount(sc)
	s.Steps = append(s.Steps, Step{Op: "waitwritten", Arg: fmt.Sprint(s.RegLines + nModel)})
	res := c.RunSession(s)
	out.Res = res
	if res.Crashed || res.Wedged {
		return out
	}
	// per-step outputs from the barrier marks
	out.PerStep = map[int][]string{}
	markAt := map[int]int{}
	for _, m := range res.Marks {
		markAt[m[0]] = m[1]
	}
	prev := s.RegLines
	var nonBarrier []string
	for _, l := range res.Written {
		nonBarrier = append(nonBarrier, l)
	}
	for sti := 0; sti < len(steps); sti++ {
		bi, ok := barrierOf[sti]
		if !ok {
			continue
		}
		cnt, ok := markAt[bi]
		if !ok {
			continue
		}
		if cnt >= prev && cnt <= len(nonBarrier) {
			out.PerStep[sti] = nonBarrier[prev:cnt]
			prev = cnt
		}
	}
	w := res.Written
	if n := registrationCount(sc); len(w) >= n {
		w = w[n:]
	}
	var ctcpImpl []string
	for _, l := range w {
		cl := canonLine(l)
		if strings.HasPrefix(cl, "NOTICE ") && strings.Contains(cl, "\x01") {
			ctcpImpl = append(ctcpImpl, cl)
		} else {
			out.ImplW = append(out.ImplW, cl)
		}
	}
	sort.Strings(ctcpImpl)
	out.ImplW = append(out.ImplW, ctcpImpl...)
	for _, d := range res.Dumps {
		var cd []string
		for _, l := range d {
			if strings.HasPrefix(l, "sts\x00") {
				f := strings.Split(l, "\x00")
				l = strings.Join(f[:5], "\x00")
			}
			cd = append(cd, l)
		}
		out.ImplDump = append(out.ImplDump, cd)
	}
	out.ImplEnd = canonEnded(res.Connect)

	var ctcpModel []string
	for _, h := range splitHexList(strings.TrimPrefix(f[0], "W=")) {
		cl := canonLine(h)
		if strings.HasPrefix(cl, "NOTICE ") && strings.Contains(cl, "\x01") {
			ctcpModel = append(ctcpModel, cl)
		} else {
			out.ModelW = append(out.ModelW, cl)
		}
	}
	sort.Strings(ctcpModel)
	out.ModelW = append(out.ModelW, ctcpModel...)
	if d := strings.TrimPrefix(f[1], "D="); d != "" {
		for _, one := range strings.Split(d, ";") {
			out.ModelDump = append(out.ModelDump, splitHexList(one))
		}
	}
	out.ModelEnd = strings.TrimPrefix(f[2], "E=")
	out.ModelF = strings.TrimPrefix(f[3], "F=")

	if fmt.Sprint(out.ImplW) != fmt.Sprint(out.ModelW) {
		out.Diffs = append(out.Diffs, fmt.Sprintf("written: impl=%q model=%q", out.ImplW, out.ModelW))
	}
	if len(out.ImplDump) != len(out.ModelDump) {
		out.Diffs = append(out.Diffs, fmt.Sprintf("dump count impl=%d model=%d", len(out.ImplDump), len(out.ModelDump)))
	} else {
		for i := range out.ImplDump {
			if fmt.Sprint(out.ImplDump[i]) != fmt.Sprint(out.ModelDump[i]) {
				out.Diffs = append(out.Diffs, fmt.Sprintf("dump %d: %s", i, firstDiff(out.ImplDump[i], out.ModelDump[i])))
			}
		}
	}
	if out.ImplEnd != out.ModelEnd {
		out.Diffs = append(out.Diffs, fmt.Sprintf("ended: impl=%s model=%s", out.ImplEnd, out.ModelEnd))
	}
	return out
}

func firstDiff(a, b []string) string {
	for i := 0; i < len(a) || i < len(b); i++ {
		var x, y string
		if i < len(a) {
			x = a[i]
		}
		if i < len(b) {
			y = b[i]
		}
		if x != y {
			return fmt.Sprintf("line %d impl=%q model=%q", i, x, y)
		}
	}
	return "?"
}

func splitHexList(s string) []string {
	s = strings.Trim(s, "[]")
	if s == "" {
		return nil
	}
	var out []string
	for _, h := range strings.Split(s, ",") {
		out = append(out, unhx(h))
	}
	return out
}
