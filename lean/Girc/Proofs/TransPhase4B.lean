import Girc.Proofs.TransEventHelpers
import Girc.Proofs.TransEventBytes
import Girc.Proofs.TransSlices
import Girc.Model.Phase4Helpers
/-
  Translator equivalence, phase 4 (part B): Tags.Count, Tags.Keys, Tags.Equals, Tags.Remove (cap_tags.go),
  (*Event).Equals, (*Event).String (event.go), EncodeCTCP, (*CTCP).parseCMD (ctcp.go).
-/
set_option linter.unusedSimpArgs false
namespace Girc.Proofs.Trans
open Girc Girc.Model Girc.Go Girc.Gen

/-! ### Tags.Count -/

theorem Tags_Count_eq (t : Option Tags) : Fn.Tags_Count t = .ok (tagsCount t) := by
  cases t <;> rfl

theorem tagsCount_nonneg (t : Option Tags) : 0 ≤ tagsCount t := by
  cases t with
  | none => exact Int.le_refl 0
  | some m => exact Int.natCast_nonneg _

/-! ### Tags.Keys -/

theorem Tags_Keys_loop1_eq : ∀ (fuel : Nat) (ks acc : List Bytes), ks.length < fuel →
    Fn.Tags_Keys_loop1 fuel ks acc = .ok (.done (acc ++ ks))
  | 0, _, _, h => by omega
  | fuel + 1, [], acc, _ => by
    unfold Fn.Tags_Keys_loop1
    simp [pure, Except.pure]
  | fuel + 1, k :: ks, acc, h => by
    unfold Fn.Tags_Keys_loop1
    simp only []
    rw [Tags_Keys_loop1_eq fuel ks (acc ++ [k]) (by simp at h; omega)]
    simp

/-- `Tags.Keys()`: the keys, in the order in which the `range` statement visits the map (= the order of the association
    list that represents it). -/
theorem Tags_Keys_eq (t : Option Tags) : Fn.Tags_Keys t = .ok (mapKeys t) := by
  unfold Fn.Tags_Keys
  have hc : makeCapA ([] : Bytes) 0 (tagsCount t) = .ok [] := by
    unfold makeCapA
    rw [if_pos ⟨Int.le_refl 0, tagsCount_nonneg t⟩]
    rfl
  simp only [Tags_Count_eq, hc, bind, Except.bind, pure, Except.pure,
    Tags_Keys_loop1_eq ((mapKeys t).length + 1) (mapKeys t) [] (Nat.lt_succ_self _), List.nil_append]

/-- Go's map order is unspecified: two representations of the same map (permutations of each other) give key lists
    that are permutations of each other. -/
theorem mapKeys_perm (m m' : Tags) (h : List.Perm m m') : List.Perm (mapKeys (some m)) (mapKeys (some m')) := by
  unfold mapKeys AMap.keys
  exact h.map _

theorem Tags_Keys_perm (m m' : Tags) (h : List.Perm m m') :
    ∃ ks ks', Fn.Tags_Keys (some m) = .ok ks ∧ Fn.Tags_Keys (some m') = .ok ks' ∧ List.Perm ks ks' :=
  ⟨_, _, Tags_Keys_eq _, Tags_Keys_eq _, mapKeys_perm m m' h⟩

/-! ### Tags.Equals -/

theorem Tags_Get_fst (t : Option Tags) (key : Bytes) :
    (match tagsGet t key with
     | some v => (v, true)
     | none => (([] : Bytes), false)).1 = (tagsGet t key).getD [] := by
  cases tagsGet t key <;> rfl

theorem Tags_Equals_eq (t tt : Option Tags) : Fn.Tags_Equals t tt = .ok (tagsEquals t tt) := by
  unfold Fn.Tags_Equals tagsEquals accountOf ACCOUNT_TAG
  simp only [Tags_Get_eq, bind, Except.bind, pure, Except.pure]
  have key : ∀ a b : Bytes, (a == b) = decide (a = b) := fun a b => by by_cases h : a = b <;> simp [h]
  cases tagsGet t [0x61, 0x63, 0x63, 0x6F, 0x75, 0x6E, 0x74] <;>
    cases tagsGet tt [0x61, 0x63, 0x63, 0x6F, 0x75, 0x6E, 0x74] <;>
    simp only [Option.getD_none, Option.getD_some, key]

/-! ### Tags.Remove -/

theorem AMap_erase_absent {β : Type} (k : Bytes) : ∀ (m : AMap β), AMap.contains m k = false → AMap.erase m k = m
  | [], _ => rfl
  | (a, v) :: m, h => by
    unfold AMap.contains AMap.get? at h
    unfold AMap.erase
    rw [List.lookup_cons] at h
    cases hk : (k == a) with
    | true => rw [hk] at h; simp at h
    | false =>
      rw [hk] at h
      have hne : ((a, v).1 != k) = true := by
        have : (a == k) = false := by rw [BEq.comm]; exact hk
        simp [bne, this]
      rw [List.filter_cons, if_pos hne]
      congr 1
      exact AMap_erase_absent k m h

theorem Tags_Remove_eq (t : Option Tags) (key : Bytes) : Fn.Tags_Remove t key = .ok (tagsRemove t key) := by
  unfold Fn.Tags_Remove tagsRemove
  cases t with
  | none => rfl
  | some m =>
    simp only [Option.isNone_some, Bool.false_eq_true, if_false, mapHas, mapDelete, bind, Except.bind, pure, Except.pure]
    by_cases h : AMap.contains m key = true
    · simp [h]
    · simp [h]

/-- The same in the run-time's own vocabulary: Go's `delete` is a no-op on a missing key, so the guard
    `if success` makes no difference. -/
theorem Tags_Remove_eq' (t : Option Tags) (key : Bytes) : Fn.Tags_Remove t key = .ok (mapHas t key, mapDelete t key) := by
  rw [Tags_Remove_eq]
  unfold tagsRemove mapHas mapDelete
  cases t with
  | none => rfl
  | some m =>
    cases h : AMap.contains m key with
    | true => simp [h]
    | false => simp [h, AMap_erase_absent key m h]

/-! ### (*Event).Equals -/

theorem Event_Equals_loop1_eq (e ev : Event) (hlen : e.params.length = ev.params.length) :
    ∀ (fuel n : Nat), n ≤ e.params.length → e.params.length - n < fuel →
    Fn.Event_Equals_loop1 (some e) (some ev) fuel (n : Int) =
      .ok (if e.params.drop n = ev.params.drop n then .done () else .ret false)
  | 0, _, _, h => by omega
  | fuel + 1, n, hn, hf => by
    unfold Fn.Event_Equals_loop1
    simp only [deref_some, bind, Except.bind, pure, Except.pure]
    by_cases hlt : n < e.params.length
    · obtain ⟨a, hda, hca, _⟩ := atL_step e.params n hlt
      obtain ⟨b, hdb, hcb, _⟩ := atL_step ev.params n (by omega)
      have e1 : ((n : Int) + 1) = ((n + 1 : Nat) : Int) := by omega
      have hl : decide ((n : Int) < len e.params) = true := by dec_tac
      simp only [hl, hca, hcb, e1, Bool.not_true, Bool.false_eq_true, if_false]
      rw [hda, hdb]
      by_cases hab : a = b
      · subst hab
        have c : (a != a) = false := by simp
        simp only [c, Bool.false_eq_true, if_false]
        rw [Event_Equals_loop1_eq e ev hlen fuel (n + 1) (by omega) (by omega)]
        simp
      · have c : (a != b) = true := by simp [hab]
        simp [c, hab]
    · have hl : decide ((n : Int) < len e.params) = false := by dec_tac
      have h1 : e.params.drop n = [] := by simp; omega
      have h2 : ev.params.drop n = [] := by simp; omega
      simp [hl, h1, h2]

/-- `(*Event).Equals(ev)`, both events non-nil. -/
theorem Event_Equals_eq (e ev : Event) : Fn.Event_Equals (some e) (some ev) = .ok (eventEquals e ev) := by
  unfold Fn.Event_Equals eventEquals
  simp only [deref_some, bind, Except.bind, pure, Except.pure, orE_ok_ok, Source_Equals_eq, Tags_Equals_eq]
  by_cases hc : e.command = ev.command
  · by_cases hlen : e.params.length = ev.params.length
    · have c1 : (e.command != ev.command) = false := by simp [hc]
      have c2 : (len e.params != len ev.params) = false := by simp [len, hlen]
      have hl := Event_Equals_loop1_eq e ev hlen (fuelTo 0 (len e.params)) 0 (by omega) (by fuel_tac)
      simp only [Int.natCast_zero, List.drop_zero] at hl
      simp only [c1, c2, Bool.or_false, Bool.false_eq_true, if_false, hl]
      by_cases hp : e.params = ev.params
      · simp only [hp, if_true, hc, and_self, decide_true, Bool.true_and]
        cases sourceEq e.source ev.source <;> cases tagsEquals e.tags ev.tags <;> rfl
      · simp [hp]
    · have c2 : (len e.params != len ev.params) = true := by
        simp only [len, bne_iff_ne, ne_eq]; omega
      have hp : e.params ≠ ev.params := fun h => hlen (by rw [h])
      simp [c2, hp]
  · have c1 : (e.command != ev.command) = true := by simp [hc]
    simp [c1, hc]

/-- Go: `e.Equals(ev)` reads `e.Command` and `ev.Command` first, so a nil receiver or a nil argument is a nil-pointer
    PANIC (there is no nil guard in event.go's `Equals`, unlike `(*Source).Equals`). -/
theorem Event_Equals_nil_left (x : Option Event) : Fn.Event_Equals none x = .error .nilDeref := rfl

theorem Event_Equals_nil_right (e : Event) : Fn.Event_Equals (some e) none = .error .nilDeref := rfl

/-! ### (*Event).String -/

theorem Event_String_eq (e : Event) : Fn.Event_String (some e) = .ok (eventBytes e) := by
  unfold Fn.Event_String
  simp [Event_Bytes_eq, bind, Except.bind, pure, Except.pure]

theorem Event_String_nil : Fn.Event_String none = .error .nilDeref := rfl

/-! ### EncodeCTCP -/

theorem EncodeCTCP_nil : Fn.EncodeCTCP none = .ok [] := rfl

theorem EncodeCTCP_eq (c : CTCPEvent) : Fn.EncodeCTCP (some c) = .ok (encodeCTCPRaw c.command c.text) := by
  unfold Fn.EncodeCTCP
  simp [EncodeCTCPRaw_eq, bind, Except.bind, pure, Except.pure]

/-! ### (*CTCP).parseCMD -/

theorem CTCP_parseCMD_loop1_eq (s : Bytes) : ∀ (fuel n : Nat), n ≤ s.length → s.length - n < fuel →
    Fn.CTCP_parseCMD_loop1 s fuel (n : Int) = .ok (if (s.drop n).all ctcpTagByte then .done () else .ret [])
  | 0, _, _, h => by omega
  | fuel + 1, n, hn, hf => by
    unfold Fn.CTCP_parseCMD_loop1
    by_cases hlt : n < s.length
    · obtain ⟨c, hd, hc, _⟩ := atI_step s n hlt
      have e1 : ((n : Int) + 1) = ((n + 1 : Nat) : Int) := by omega
      have hl : decide ((n : Int) < len s) = true := by dec_tac
      simp only [hl, hc, bind, Except.bind, pure, Except.pure, andE_ok_ok, orE_ok_ok, e1, ctcpTag_cond]
      rw [hd, CTCP_parseCMD_loop1_eq s fuel (n+1) (by omega) (by omega)]
      cases hnr : ctcpTagByte c <;> simp [hnr]
    · have hl : decide ((n : Int) < len s) = false := by dec_tac
      have : s.drop n = [] := by simp; omega
      simp [hl, this, pure, Except.pure]

theorem CTCP_parseCMD_eq (cmd : Bytes) : Fn.CTCP_parseCMD cmd = .ok (ctcpParseCmd cmd) := by
  unfold Fn.CTCP_parseCMD ctcpParseCmd
  by_cases h : cmd = [0x2A]
  · subst h; rfl
  · have c : (cmd == [0x2A]) = false := by simp [h]
    have hl := CTCP_parseCMD_loop1_eq (toUpperAscii cmd) (fuelTo 0 (len (toUpperAscii cmd))) 0 (by omega) (by fuel_tac)
    simp only [Int.natCast_zero, List.drop_zero] at hl
    simp only [c, Bool.false_eq_true, if_false, h, hl, bind, Except.bind, pure, Except.pure]
    cases (toUpperAscii cmd).all ctcpTagByte <;> rfl

end Girc.Proofs.Trans
