import Girc.Model.Sts
/-
  TIMED model of the strict-transport-security policy lifetime of ONE client (property C10).

  `Girc/Model/Sts.lean` treats `sts.expired()` as an opaque Boolean observation. Here the clock is explicit:
  time is an integer number of nanoseconds (`Int`; any epoch — only differences are used), and the stored
  policy carries `persistenceReceived` and `lastFailed`. Go code modelled (state.go, cap.go, conn.go):

    type strictTransport struct {
        beginUpgrade bool; upgradePort int; persistenceDuration int   // seconds
        persistenceReceived time.Time; preload bool; lastFailed time.Time }
    func (s *strictTransport) expired() bool {
        return int(time.Since(s.persistenceReceived).Seconds()) > s.persistenceDuration }

  Fidelity notes.
  * `time.Since(t)` is `time.Now().Sub(t)`, which SATURATES at ±(2^63-1 / -2^63) ns (≈ 292 years). This is not
    academic: the zero `time.Time` (a policy that never received a duration, `lastFailed` never set) is year 1,
    so `time.Since(zero)` is the saturated maximum, 9223372036 whole seconds. `since` below saturates likewise.
  * `Duration.Seconds()` is a float64 (`float64(d/1e9) + float64(d%1e9)/1e9`) and `int(...)` truncates toward zero.
    The model truncates the exact quotient (`Int.tdiv`). The two agree whenever the whole-second count is below
    2^23 (≈ 97 days); above that the float64 sum can round `sec + 0.999999999` up to `sec + 1`, i.e. the Go
    value can reach the next whole second up to ≈ `sec · 2^-53` seconds (a few nanoseconds per year of lifetime)
    early. The model is the real-arithmetic reading of the expression.
-/
namespace Girc.Model
open Girc

/-- `time.Duration` limits (nanoseconds in an int64). -/
def maxDuration : Int := 9223372036854775807
def minDuration : Int := -9223372036854775808
def nsPerSec : Int := 1000000000

/-- `time.Since(t)` read at clock value `now`: `now.Sub(t)`, saturating like `Time.Sub`. -/
def since (now t : Int) : Int :=
  let d := now - t
  if d > maxDuration then maxDuration else if d < minDuration then minDuration else d

/-- `int(d.Seconds())`: whole seconds, truncated toward zero. -/
def wholeSeconds (d : Int) : Int := Int.tdiv d nsPerSec

/-- The untimed part of the Go struct `strictTransport` (`StrictTransport`, Girc/Base/GoSem.lean: all six fields, clock
    readings as integers) — what the generated `Fn.strictTransport_*` functions (Gen/Funcs.lean) work on. -/
def stsOf (s : StrictTransport) : Sts :=
  { beginUpgrade := s.beginUpgrade, upgradePort := s.upgradePort, persistenceDuration := s.persistenceDuration,
    preload := s.preload }

/-- The stored policy with its clock readings. `lastFailed = none` is the zero `time.Time`. -/
structure TSts extends Sts where
  received : Int                      -- persistenceReceived
  lastFailed : Option Int := none     -- lastFailed
  deriving DecidableEq, Repr

/-- The timed model's view of the Go struct.  `lastFailed` is a parameter: `none` stands for Go's zero `time.Time`, which
    has no integer reading on the model's clock. -/
def tstsOf (s : StrictTransport) (lastFailed : Option Int) : TSts :=
  { toSts := stsOf s, received := s.persistenceReceived, lastFailed := lastFailed }

/-- `strictTransport.expired()` evaluated when the clock reads `now`. -/
def expiredAt (now : Int) (s : TSts) : Bool :=
  decide (wholeSeconds (since now s.received) > s.persistenceDuration)

/-- cap.go possibleCapList: `time.Since(c.state.sts.lastFailed) < 5*time.Minute` (false for the zero time:
    the saturated difference is not below five minutes). This is the ONLY place `lastFailed` is read. -/
def recentlyFailedAt (now : Int) (s : TSts) : Bool :=
  match s.lastFailed with
  | none => false
  | some t => decide (since now t < 300 * nsPerSec)

/-- Is `sts` requested in CAP negotiation of a connection made at `now` (possibleCapList)? This is the value of
    `Cfg.stsRecentlyFailed`/`disableSTSFallback`/`disableSTS`/`ssl` combined, as in `possibleCaps`. -/
def stsRequestedAt (now : Int) (disableSTS ssl disableFallback : Bool) (s : TSts) : Bool :=
  !disableSTS && !ssl && !(recentlyFailedAt now s && !disableFallback)

inductive TEv where
  | ackTls (now : Int) (duration : Option Int)   -- `sts` acknowledged on a TLS connection; `duration` = value of the key (Atoi, 0 on junk), `none` = key absent
  | ackPlain (now : Int) (port : Option Int)     -- acknowledged on plaintext; `port` = parsed value of the key, `none` = absent / not a number
  | cleanEnd (now : Int)                         -- a connection ended without error (Close/Quit)
  | errorEnd (now : Int)                         -- a connection ended with an error
  | dialFail (now : Int) (disableFallback : Bool) -- newConn failed (dial or TLS handshake)
  deriving DecidableEq, Repr

/-- The clock reading of an event. -/
def TEv.now : TEv → Int
  | .ackTls n _ | .ackPlain n _ | .cleanEnd n | .errorEnd n | .dialFail n _ => n

inductive Outcome where
  | nothing
  | upgradeInit       -- STS_UPGRADE_INIT, the client closes the plaintext connection itself
  | upgradeRedial     -- `goto startConn`: internalConnect dials again (TLS on the policy port) without returning
  | abort             -- local ERROR "strict transport policy provided by server is invalid", connection closed
  | plainError        -- Connect returns the dial error as is
  | stsUpgradeFailed  -- Connect returns ErrSTSUpgradeFailed; the policy is kept
  | stsFallback       -- Connect returns ErrSTSUpgradeFailed, the policy was DROPPED and STS_ERR_FALLBACK is emitted
  deriving DecidableEq, Repr

/-- cap.go:234 `upgradePort < 21 || upgradePort > 65535` -/
def portUsable (p : Int) : Bool := !(p < 21 || p > 65535)

/-- One step of the policy's life. `rebase = true` is the code as it is; `rebase = false` is the variant in
    which a clean disconnection does not re-base the lifetime (used only for the negative witness). -/
def tstepG (rebase : Bool) (s : TSts) : TEv → TSts × Outcome
  -- cap.go:255-262  `if hasTLSConnection { if duration, ok := sts["duration"]; ok {
  --                    persistenceDuration, _ = strconv.Atoi(duration); persistenceReceived = time.Now() } else { isError = true } }`
  --   (the port key is ignored on TLS, cap.go:231 `if !hasTLSConnection`; the preload key does not take part in any dial decision
  --    and is left to `stsOnAck`.)  cap.go:271 `if isError { c.receive(ERROR ...); return }`
  | .ackTls now (some d) => ({ s with persistenceDuration := d, received := now }, .nothing)
  | .ackTls _ none => (s, .abort)
  -- cap.go:231-242  `if !hasTLSConnection { if port, ok := sts["port"]; ok { upgradePort, err := Atoi(port);
  --                    if err != nil || upgradePort < 21 || upgradePort > 65535 { isError = true } else { c.state.sts.upgradePort = upgradePort } } else { isError = true } }`
  -- cap.go:279-287  `if !hasTLSConnection { c.state.sts.beginUpgrade = true; RunHandlers(STS_UPGRADE_INIT); c.Close(); return }`
  --   (duration is ignored on plaintext: persistenceDuration / persistenceReceived keep whatever they were.)
  | .ackPlain _ (some p) =>
    if portUsable p then ({ s with upgradePort := p, beginUpgrade := true }, .upgradeInit) else (s, .abort)
  | .ackPlain _ none => (s, .abort)
  -- conn.go:416-426  `if err == nil { if c.state.sts.beginUpgrade { c.state.sts.beginUpgrade = false; c.mu.Unlock(); goto startConn }
  --                                    if c.state.sts.enabled() { c.state.sts.persistenceReceived = time.Now() } }`
  | .cleanEnd now =>
    if s.beginUpgrade then ({ s with beginUpgrade := false }, .upgradeRedial)
    else if rebase && s.enabled then ({ s with received := now }, .nothing)
    else (s, .nothing)
  -- conn.go:416 `if err == nil {...}` is skipped: nothing is touched (not even beginUpgrade).
  | .errorEnd _ => (s, .nothing)
  -- conn.go:86-96 (dial) and 100-111 (handshake), identical:
  --   `if sts.enabled() { err = &ErrSTSUpgradeFailed{Err: err} }
  --    if sts.expired() && !conf.DisableSTSFallback { sts.lastFailed = time.Now(); sts.reset() }   return nil, err`
  -- conn.go:308-320  `if _, ok := err.(*ErrSTSUpgradeFailed); ok { fallback = !c.state.sts.enabled() } ... if fallback { RunHandlers(STS_ERR_FALLBACK) }; return err`
  | .dialFail now disableFallback =>
    let dropped := expiredAt now s && !disableFallback
    ({ s with toSts := if dropped then s.toSts.reset else s.toSts,
              lastFailed := if dropped then some now else s.lastFailed },
     if s.enabled then (if dropped then .stsFallback else .stsUpgradeFailed) else .plainError)

def tstep : TSts → TEv → TSts × Outcome := tstepG true
def tstepNoRebase : TSts → TEv → TSts × Outcome := tstepG false

/-- The error value `Connect` returns for a dial-failure outcome (the untimed model's `DialError`). -/
def Outcome.dialError : Outcome → Option DialError
  | .plainError => some .plain
  | .stsUpgradeFailed => some .stsUpgradeFailed
  | .stsFallback => some .stsUpgradeFailed
  | _ => none

/-- Run a history: per event, the event, the state after it and its outcome. -/
def ttraceG (rebase : Bool) (s : TSts) : List TEv → List (TEv × TSts × Outcome)
  | [] => []
  | e :: es => (e, tstepG rebase s e) :: ttraceG rebase (tstepG rebase s e).1 es

def ttrace : TSts → List TEv → List (TEv × TSts × Outcome) := ttraceG true

/-- The state after a history. -/
def trunG (rebase : Bool) (s : TSts) : List TEv → TSts
  | [] => s
  | e :: es => trunG rebase (tstepG rebase s e).1 es

def trun : TSts → List TEv → TSts := trunG true

/-! ### The hypothesis of `never_downgraded`, as a predicate on the history alone

`lifetimeOk recv dur es`: `recv`/`dur` are the lifetime base and the duration in force at the start. They are
tracked from the events only (an `ackTls` with a duration sets both, a `cleanEnd` re-bases), and every `dialFail`
must either have `disableFallback` or fall inside the lifetime currently in force. `ackPlain` does not occur: under
an enabled policy every connection is TLS (`conf.SSL || sts.enabled()`), so handleCAP takes its TLS branch. -/
def lifetimeOk (recv dur : Int) : List TEv → Bool
  | [] => true
  | .ackTls now (some d) :: es => lifetimeOk now d es
  | .ackTls _ none :: es => lifetimeOk recv dur es
  | .ackPlain _ _ :: _ => false
  | .cleanEnd now :: es => lifetimeOk now dur es
  | .errorEnd _ :: es => lifetimeOk recv dur es
  | .dialFail now disableFallback :: es =>
    (disableFallback || !decide (wholeSeconds (since now recv) > dur)) && lifetimeOk recv dur es

end Girc.Model
