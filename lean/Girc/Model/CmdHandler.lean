import Girc.Model.Ctcp
/- Model of cmdhandler/cmd.go: the command regexp (hand matcher), Add, Execute. -/
namespace Girc.Model
open Girc

/-- `[a-z0-9-_]` -/
def cmdNameByte (b : Byte) : Bool := (0x61 ≤ b && b ≤ 0x7A) || (0x30 ≤ b && b ≤ 0x39) || b = 0x2D || b = 0x5F

/-- `^[a-z0-9-_]{1,20}$` -/
def validCmdName (n : Bytes) : Bool := 1 ≤ n.length && n.length ≤ 20 && n.all cmdNameByte

/-- `^QuoteMeta(prefix)([a-z0-9-_]{1,20})(?: (.*))?$` on `text`: (name, rest). The prefix is matched
    literally; the name is the maximal run of name bytes (1..20) and must be followed by the end of
    the text or by a SPACE and a remainder without LF. -/
def matchCmd (pfx text : Bytes) : Option (Bytes × Bytes) :=
  if !pfx.isPrefixOf text then none
  else
    let t := text.drop pfx.length
    let name := t.takeWhile cmdNameByte
    let after := t.dropWhile cmdNameByte
    if name.length < 1 || name.length > 20 then none
    else match after with
      | [] => some (name, [])
      | c :: rest => if c = SP && !rest.contains LF then some (name, rest) else none

structure Command where
  name : Bytes
  aliases : List Bytes
  minArgs : Int
  hasHelp : Bool
  id : Nat            -- identifies the Go `*Command` (and its Fn)
  deriving DecidableEq, Repr

abbrev CmdTable := AMap Command

inductive AddResult where
  | ok | invalidName | duplicateName | duplicateAlias
  deriving DecidableEq, Repr

/-- `CmdHandler.Add` — as written, including that a duplicate *alias* is detected only after the
    name and the earlier aliases have been registered. -/
def cmdAddAliases (tbl : CmdTable) (cmd : Command) : List Bytes → CmdTable × AddResult
  | [] => (tbl, .ok)
  | a :: rest =>
    if AMap.contains tbl a then (tbl, .duplicateAlias)
    else cmdAddAliases (AMap.set tbl a cmd) cmd rest

def cmdAdd (tbl : CmdTable) (cmd : Command) : CmdTable × AddResult :=
  let cmd := { cmd with name := toLowerAscii cmd.name, aliases := cmd.aliases.map toLowerAscii,
                        minArgs := if cmd.minArgs < 0 then 0 else cmd.minArgs }
  if !validCmdName cmd.name then (tbl, .invalidName)
  else if !cmd.aliases.all validCmdName then (tbl, .invalidName)
  else if AMap.contains tbl cmd.name then (tbl, .duplicateName)
  else cmdAddAliases (AMap.set tbl cmd.name cmd) cmd cmd.aliases

inductive CmdAction where
  | none                                                     -- nothing happens
  | invoke (id : Nat) (args : List Bytes) (raw : Bytes)      -- `go cmd.Fn(client, in)`
  | usage (name : Bytes)                                     -- "not enough arguments" reply
  | help (kind : Nat)                                        -- one of the four built-in help replies
  deriving DecidableEq, Repr

def HELP : Bytes := [0x68, 0x65, 0x6C, 0x70]

/-- `CmdHandler.Execute`. -/
def cmdExecute (pfx : Bytes) (tbl : CmdTable) (e : Event) : CmdAction :=
  if e.source.isNone || e.command != PRIVMSG then .none
  else match matchCmd pfx (e.params.getLastD []) with
    | none => .none
    | some (name, raw) =>
      let args := if raw.isEmpty then [] else splitOnByte SP raw
      if name = HELP then
        match args with
        | [] => .help 0
        | a :: _ =>
          match AMap.get? tbl (toLowerAscii a) with
          | none => .help 1
          | some c => if c.hasHelp then .help 3 else .help 2
      else match AMap.get? tbl name with
        | none => .none
        | some c => if (args.length : Int) < c.minArgs then .usage name else .invoke c.id args raw

end Girc.Model
