import Girc.Spec.Grammar
import Girc.Proofs.Tags
import Girc.Proofs.ParseSections
import Girc.Proofs.ParseTags
namespace Girc.Proofs.ParseRender
open Girc Girc.Model Girc.Spec
open Girc.Proofs.ParseLemmas Girc.Proofs.ParseParams Girc.Proofs.ParseSections Girc.Proofs.ParseTags

/-! ### Byte classes of the grammar -/

theorem midByte_facts : ∀ b : UInt8, midByte b = true → b ≠ SP ∧ isCRLF b = false ∧ b ≠ NUL := by
  decide +kernel

theorem trailByte_facts : ∀ b : UInt8, trailByte b = true → isCRLF b = false ∧ b ≠ NUL := by
  decide +kernel

theorem letter_facts : ∀ b : UInt8, isAsciiLetter b = true →
    b ≠ SP ∧ isCRLF b = false ∧ b ≠ AT ∧ b ≠ COLON := by
  decide +kernel

theorem digit_facts : ∀ b : UInt8, isAsciiDigit b = true →
    b ≠ SP ∧ isCRLF b = false ∧ b ≠ AT ∧ b ≠ COLON := by
  decide +kernel

theorem pfxByte_facts : ∀ b : UInt8, (midByte b && b != BANG && b != AT) = true →
    b ≠ SP ∧ isCRLF b = false ∧ b ≠ BANG ∧ b ≠ AT ∧ b ≠ NUL := by
  decide +kernel

theorem tagValByte_facts : ∀ b : UInt8,
    (b != NUL && b != CR && b != LF && b != SP && b != 0x3B) = true →
    b ≠ SP ∧ isCRLF b = false ∧ b ≠ 0x3B ∧ b ≠ NUL := by
  decide +kernel

theorem keyByteOK_noCRLF : ∀ b : UInt8, keyByteOK b = true → isCRLF b = false := by
  decide +kernel

/-- What the parser needs of a command token. -/
structure CmdOK (c : Bytes) : Prop where
  ne : c ≠ []
  sp : SP ∉ c
  at_ : c.head? ≠ some AT
  col : c.head? ≠ some COLON
  crlf : NoCRLF c

theorem cmdOK_of_all (c : Bytes) (f : Byte → Bool) (hne : c ≠ []) (hall : c.all f = true)
    (hf : ∀ b, f b = true → b ≠ SP ∧ isCRLF b = false ∧ b ≠ AT ∧ b ≠ COLON) : CmdOK c := by
  have hb : ∀ b ∈ c, f b = true := List.all_eq_true.mp hall
  refine ⟨hne, ?_, ?_, ?_, ?_⟩
  · intro hm; exact (hf _ (hb _ hm)).1 rfl
  · intro hh; exact (hf _ (hb _ (List.mem_of_mem_head? hh))).2.2.1 rfl
  · intro hh; exact (hf _ (hb _ (List.mem_of_mem_head? hh))).2.2.2 rfl
  · intro b hm; exact (hf _ (hb _ hm)).2.1

theorem wfCommand_ok (c : Bytes) (h : wfCommand c = true) : CmdOK c ∧ 2 ≤ c.length := by
  simp only [wfCommand, Bool.or_eq_true, Bool.and_eq_true, decide_eq_true_eq] at h
  rcases h with ⟨hl, ha⟩ | ⟨hl, ha⟩
  · have hne : c ≠ [] := by intro e; subst e; simp at hl
    exact ⟨cmdOK_of_all c _ hne ha letter_facts, hl⟩
  · have hne : c ≠ [] := by intro e; subst e; simp at hl
    exact ⟨cmdOK_of_all c _ hne ha digit_facts, by omega⟩

theorem wfMiddle_ok (t : Bytes) (h : wfMiddle t = true) : WkMid t ∧ NoCRLF t := by
  simp only [wfMiddle, Bool.and_eq_true, Bool.not_eq_true', bne_iff_ne, ne_eq] at h
  obtain ⟨⟨hne, hall⟩, hhead⟩ := h
  have hb : ∀ b ∈ t, midByte b = true := List.all_eq_true.mp hall
  refine ⟨⟨?_, ?_, hhead⟩, ?_⟩
  · intro e; subst e; simp at hne
  · intro hm; exact (midByte_facts _ (hb _ hm)).1 rfl
  · intro b hm; exact (midByte_facts _ (hb _ hm)).2.1

theorem wfPrefixPart_ok (s : Bytes) (h : wfPrefixPart s = true) :
    s ≠ [] ∧ SP ∉ s ∧ BANG ∉ s ∧ AT ∉ s ∧ NoCRLF s := by
  simp only [wfPrefixPart, Bool.and_eq_true, Bool.not_eq_true'] at h
  obtain ⟨hne, hall⟩ := h
  have hb : ∀ b ∈ s, (midByte b && b != BANG && b != AT) = true := by
    intro b hm
    have := List.all_eq_true.mp hall b hm
    simpa using this
  refine ⟨?_, ?_, ?_, ?_, ?_⟩
  · intro e; subst e; simp at hne
  · intro hm; exact (pfxByte_facts _ (hb _ hm)).1 rfl
  · intro hm; exact (pfxByte_facts _ (hb _ hm)).2.2.1 rfl
  · intro hm; exact (pfxByte_facts _ (hb _ hm)).2.2.2.1 rfl
  · intro b hm; exact (pfxByte_facts _ (hb _ hm)).2.1

theorem wfTagValue_ok (v : Bytes) (h : wfTagValue v = true) :
    SP ∉ v ∧ (0x3B : Byte) ∉ v ∧ NoCRLF v := by
  simp only [wfTagValue, Bool.and_eq_true] at h
  have hb : ∀ b ∈ v, (b != NUL && b != CR && b != LF && b != SP && b != 0x3B) = true :=
    List.all_eq_true.mp h.1
  refine ⟨?_, ?_, ?_⟩
  · intro hm; exact (tagValByte_facts _ (hb _ hm)).1 rfl
  · intro hm; exact (tagValByte_facts _ (hb _ hm)).2.2.1 rfl
  · intro b hm; exact (tagValByte_facts _ (hb _ hm)).2.1

theorem validTag_noCRLF (k : Bytes) (h : validTag k = true) : NoCRLF k := by
  intro b hb
  exact keyByteOK_noCRLF b ((validTag_bytes k h).2 b hb)

/-! ### Sections of a rendered line -/

theorem renderTag_ok (x : Bytes × Option Bytes) (h : wfTag x = true) :
    SP ∉ renderTag x ∧ NoCRLF (renderTag x) := by
  obtain ⟨k, ov⟩ := x
  simp only [wfTag, Bool.and_eq_true] at h
  obtain ⟨hk, hv⟩ := h
  cases ov with
  | none => exact ⟨by simpa [renderTag] using validTag_no_sp k hk, by simpa [renderTag] using validTag_noCRLF k hk⟩
  | some v =>
    obtain ⟨h1, _, h3⟩ := wfTagValue_ok v (by simpa using hv)
    refine ⟨?_, ?_⟩
    · have : SP ≠ (0x3D : Byte) := by decide
      simp [renderTag, validTag_no_sp k hk, h1, this]
    · simp only [renderTag]
      exact ((validTag_noCRLF k hk).append (NoCRLF.cons (by decide) NoCRLF.nil)).append h3

theorem tagSection_ok (ts : List (Bytes × Option Bytes)) (hne : ts ≠ [])
    (h : ∀ x ∈ ts, wfTag x = true) :
    joinWith [0x3B] (ts.map renderTag) ≠ [] ∧ SP ∉ joinWith [0x3B] (ts.map renderTag) ∧
      NoCRLF (joinWith [0x3B] (ts.map renderTag)) := by
  refine ⟨?_, ?_, ?_⟩
  · cases ts with
    | nil => exact absurd rfl hne
    | cons x ts =>
      have hx := h x (by simp)
      simp only [wfTag, Bool.and_eq_true] at hx
      exact joinWith_ne_nil _ _ _ (renderTag_head x hx.1).1
  · intro hm
    rcases mem_joinWith _ _ _ hm with hm | ⟨it, hit, hb⟩
    · revert hm; decide
    · simp only [List.mem_map] at hit
      obtain ⟨y, hy, rfl⟩ := hit
      exact (renderTag_ok y (h y hy)).1 hb
  · apply NoCRLF.joinWith (NoCRLF.cons (by decide) NoCRLF.nil)
    intro it hit
    simp only [List.mem_map] at hit
    obtain ⟨y, hy, rfl⟩ := hit
    exact (renderTag_ok y (h y hy)).2

theorem wfPrefix_parts (p : Prefix) (h : wfPrefix p = true) :
    wfPrefixPart p.name = true ∧ (∀ i, p.ident = some i → wfPrefixPart i = true) ∧
      (∀ h, p.host = some h → wfPrefixPart h = true) := by
  simp only [wfPrefix, Bool.and_eq_true] at h
  refine ⟨h.1.1, ?_, ?_⟩
  · intro i hi; have := h.1.2; rw [hi] at this; simpa using this
  · intro i hi; have := h.2; rw [hi] at this; simpa using this

/-- `lead :: s` if present. -/
def optPart (lead : Byte) : Option Bytes → Bytes
  | some i => lead :: i
  | none => []

theorem renderPrefix_eq (p : Prefix) :
    renderPrefix p = p.name ++ optPart BANG p.ident ++ optPart AT p.host := by
  obtain ⟨name, oi, oh⟩ := p
  cases oi <;> cases oh <;> rfl

theorem optPart_ok (lead : Byte) (hl : SP ≠ lead) (hc : isCRLF lead = false) (o : Option Bytes)
    (h : ∀ i, o = some i → wfPrefixPart i = true) :
    SP ∉ optPart lead o ∧ NoCRLF (optPart lead o) := by
  cases o with
  | none => exact ⟨by simp [optPart], NoCRLF.nil⟩
  | some i =>
    obtain ⟨_, i2, _, _, i5⟩ := wfPrefixPart_ok i (h i rfl)
    exact ⟨by simp [optPart, i2, hl], NoCRLF.cons hc i5⟩

theorem renderPrefix_ok (p : Prefix) (h : wfPrefix p = true) :
    renderPrefix p ≠ [] ∧ SP ∉ renderPrefix p ∧ NoCRLF (renderPrefix p) := by
  obtain ⟨hn, hi, hh⟩ := wfPrefix_parts p h
  obtain ⟨n1, n2, _, _, n5⟩ := wfPrefixPart_ok p.name hn
  have hI := optPart_ok BANG (by decide) (by decide) p.ident hi
  have hH := optPart_ok AT (by decide) (by decide) p.host hh
  rw [renderPrefix_eq]
  refine ⟨?_, ?_, ?_⟩
  · simp [n1]
  · simp only [List.mem_append, not_or]
    exact ⟨⟨n2, hI.1⟩, hH.1⟩
  · exact (n5.append hI.2).append hH.2

theorem parseSource_renderPrefix_wf (p : Prefix) (h : wfPrefix p = true) :
    parseSource (renderPrefix p) = meaningSource p := by
  obtain ⟨hn, hi, hh⟩ := wfPrefix_parts p h
  obtain ⟨n1, _, n3, n4, _⟩ := wfPrefixPart_ok p.name hn
  apply parseSource_renderPrefix p n1 n3 n4
  · intro i hi'
    obtain ⟨_, _, i3, i4, _⟩ := wfPrefixPart_ok i (hi i hi')
    exact ⟨i3, i4⟩
  · intro i hi'
    obtain ⟨_, _, i3, _, _⟩ := wfPrefixPart_ok i (hh i hi')
    exact i3

theorem sp_noCRLF : isCRLF SP = false := by decide

theorem renderMiddles_noCRLF : ∀ (ms : List (Nat × Bytes)), (∀ m ∈ ms, NoCRLF m.2) →
    NoCRLF (renderMiddles ms)
  | [], _ => NoCRLF.nil
  | (k, tok) :: ms, h => by
    simp only [renderMiddles]
    refine (NoCRLF.append ?_ (h (k, tok) (by simp))).append
      (renderMiddles_noCRLF ms (fun m hm => h m (by simp [hm])))
    intro b hb
    simp only [spaces, List.mem_replicate] at hb
    rw [hb.2]; exact sp_noCRLF

theorem secPart_noCRLF (lead : Byte) (hl : isCRLF lead = false) (sec : Option Bytes)
    (h : ∀ s, sec = some s → NoCRLF s) : NoCRLF (secPart lead sec) := by
  cases sec with
  | none => exact NoCRLF.nil
  | some s => exact NoCRLF.cons hl ((h s rfl).append (NoCRLF.cons sp_noCRLF NoCRLF.nil))

/-- The line ending. -/
def endingBytes : Nat → Bytes
  | 0 => []
  | 1 => [LF]
  | _ => [CR, LF]

theorem endingBytes_crlf (n : Nat) : ∀ b ∈ endingBytes n, isCRLF b = true := by
  intro b hb
  match n with
  | 0 => simp [endingBytes] at hb
  | 1 => simp [endingBytes] at hb; subst hb; decide
  | n + 2 => simp [endingBytes] at hb; rcases hb with hb | hb <;> subst hb <;> decide

/-- The tag section of a rendered line. -/
def tagSecOf (tags : Option (List (Bytes × Option Bytes))) : Option Bytes :=
  tags.map fun ts => joinWith [0x3B] (ts.map renderTag)

theorem render_shape (l : Line) : render l =
    (secPart AT (tagSecOf l.tags) ++ (secPart COLON (l.pfx.map renderPrefix) ++
      (l.command ++ (renderMiddles l.middles ++ trPart l.trailing)))) ++ endingBytes l.ending := by
  obtain ⟨tags, pfx, cmd, ms, tr, ending⟩ := l
  rcases ending with _ | _ | e <;> cases tags <;> cases pfx <;> rcases tr with _ | ⟨n, t⟩ <;>
    simp [render, endingBytes, secPart, trPart, tagSecOf]

/-- Every grammatical line parses to exactly the structure the grammar assigns. -/
theorem parse_render (l : Line) (h : wfLine l = true) : parseEvent (render l) = some (meaning l) := by
  obtain ⟨tags, pfx, cmd, ms, tr, ending⟩ := l
  simp only [wfLine, Bool.and_eq_true, decide_eq_true_eq] at h
  obtain ⟨⟨⟨⟨⟨⟨htags, hpfx⟩, hcmd⟩, hmid⟩, _⟩, htr⟩, hend⟩ := h
  -- the sections
  let tagSec : Option Bytes := tagSecOf tags
  let srcSec : Option Bytes := pfx.map renderPrefix
  let P : Bytes := renderMiddles ms ++ trPart tr
  let ending' : Bytes := endingBytes ending
  have hshape : render ⟨tags, pfx, cmd, ms, tr, ending⟩ =
      (secPart AT tagSec ++ (secPart COLON srcSec ++ (cmd ++ P))) ++ ending' :=
    render_shape _
  -- facts about the sections
  have htagSec : ∀ s, tagSec = some s → s ≠ [] ∧ SP ∉ s ∧ NoCRLF s := by
    intro s hs
    cases tags with
    | none => simp [tagSec, tagSecOf] at hs
    | some ts =>
      simp only [tagSec, tagSecOf, Option.map_some, Option.some.injEq] at hs
      subst hs
      simp only [Bool.and_eq_true, Bool.not_eq_true', List.isEmpty_eq_false_iff] at htags
      exact tagSection_ok ts htags.1 (List.all_eq_true.mp htags.2)
  have hsrcSec : ∀ s, srcSec = some s → s ≠ [] ∧ SP ∉ s ∧ NoCRLF s := by
    intro s hs
    cases pfx with
    | none => simp [srcSec] at hs
    | some p =>
      simp only [srcSec, Option.map_some, Option.some.injEq] at hs
      subst hs
      exact renderPrefix_ok p (by simpa using hpfx)
  obtain ⟨hcmdOK, hcmdLen⟩ := wfCommand_ok cmd hcmd
  have hms : ∀ m ∈ ms, WkMid m.2 ∧ NoCRLF m.2 := fun m hm =>
    wfMiddle_ok m.2 (List.all_eq_true.mp hmid m hm)
  have hPsp : SpLead P := by
    apply spLead_renderMiddles_append
    rcases tr with _ | ⟨n, t⟩
    · exact spLead_nil
    · exact spLead_spaces_append n _
  have hPcrlf : NoCRLF P := by
    apply (renderMiddles_noCRLF ms (fun m hm => (hms m hm).2)).append
    rcases tr with _ | ⟨n, t⟩
    · exact NoCRLF.nil
    · simp only [trPart]
      refine NoCRLF.append ?_ (NoCRLF.cons (by decide) ?_)
      · intro b hb
        simp only [spaces, List.mem_replicate] at hb
        rw [hb.2]; exact sp_noCRLF
      · simp only at htr
        exact NoCRLF.of_all htr (fun b hb => (trailByte_facts b hb).1)
  have hbody : NoCRLF (secPart AT tagSec ++ (secPart COLON srcSec ++ (cmd ++ P))) :=
    (secPart_noCRLF AT (by decide) tagSec (fun s hs => (htagSec s hs).2.2)).append
      ((secPart_noCRLF COLON (by decide) srcSec (fun s hs => (hsrcSec s hs).2.2)).append
        (hcmdOK.crlf.append hPcrlf))
  have hending : ∀ b ∈ ending', isCRLF b = true := endingBytes_crlf ending
  have htrim : trimCRLF (render ⟨tags, pfx, cmd, ms, tr, ending⟩) =
      secPart AT tagSec ++ (secPart COLON srcSec ++ (cmd ++ P)) := by
    rw [hshape]; exact trimCRLF_append _ _ hbody hending
  have hlen : 2 ≤ (trimCRLF (render ⟨tags, pfx, cmd, ms, tr, ending⟩)).length := by
    rw [htrim]; simp only [List.length_append]; omega
  rw [parseEvent_sections _ tagSec srcSec cmd P htrim hlen
    (fun s hs => ⟨(htagSec s hs).1, (htagSec s hs).2.1⟩)
    (fun s hs => ⟨(hsrcSec s hs).1, (hsrcSec s hs).2.1⟩)
    hcmdOK.ne hcmdOK.sp hcmdOK.at_ hcmdOK.col hPsp]
  -- the assigned structure
  have e1 : tagSec.map parseTags = tags.map meaningTags := by
    cases tags with
    | none => rfl
    | some ts =>
      simp only [Bool.and_eq_true, Bool.not_eq_true', List.isEmpty_eq_false_iff] at htags
      have hall := List.all_eq_true.mp htags.2
      simp only [tagSec, tagSecOf, Option.map_some, Option.some.injEq]
      apply parseTags_render ts htags.1
      · intro x hx
        have := hall x hx
        simp only [wfTag, Bool.and_eq_true] at this
        exact this.1
      · intro x hx v hv
        have := hall x hx
        simp only [wfTag, Bool.and_eq_true, hv, Option.all_some] at this
        exact (wfTagValue_ok v this.2).2.1
  have e2 : srcSec.map parseSource = pfx.map meaningSource := by
    cases pfx with
    | none => rfl
    | some p =>
      simp only [srcSec, Option.map_some, Option.some.injEq]
      exact parseSource_renderPrefix_wf p (by simpa using hpfx)
  have e3 : parseParams (P.drop 1) = ms.map (·.2) ++ trList tr :=
    parseParams_render ms tr (fun m hm => (hms m hm).1)
  rw [e1, e2, e3]
  rcases tr with _ | ⟨n, t⟩ <;> simp [meaning, trList]

end Girc.Proofs.ParseRender
