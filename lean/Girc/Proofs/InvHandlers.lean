import Girc.Proofs.InvHandlersAttr
import Girc.Proofs.InvDelete
import Girc.Proofs.InvRename
import Girc.Proofs.InvJoin
namespace Girc.Proofs.InvHandlers
open Girc Girc.Model Girc.Spec
open Girc.Proofs.InvBase

/-- `handleSASL` leaves the tracked state alone (it only counts the mechanism calls). -/
theorem handleSASL_st (cfg : Cfg) (cs : CState) (e : Event) : (handleSASL cfg cs e).1.st = cs.st := by
  unfold handleSASL
  split
  · rfl
  · split
    · rfl
    · extract_lets auth cs1
      split <;> rfl

/-- "returns without a fault, in a consistent state" for the dispatcher's result type. -/
def GoodC (m : M (CState × List Out)) : Prop := ∃ cs' outs, m = .ok (cs', outs) ∧ Inv cs'.st

theorem goodC_ite {c : Prop} [Decidable c] {a b : M (CState × List Out)}
    (ha : c → GoodC a) (hb : ¬c → GoodC b) : GoodC (if c then a else b) := by
  by_cases hc : c
  · rw [if_pos hc]; exact ha hc
  · rw [if_neg hc]; exact hb hc

theorem handleCommand_good (cfg : Cfg) (cs : CState) (e : Event) (h : Inv cs.st) :
    GoodC (handleCommand cfg cs e) := by
  unfold handleCommand
  extract_lets st ret c
  have h' : Inv st := h
  have hret : ∀ (s : St) (o : List Out), Inv s → GoodC (ret s o) :=
    fun s o hs => ⟨_, _, rfl, hs⟩
  have hbind : ∀ (m : M St), Good m → GoodC (m >>= fun x => ret x []) := by
    intro m ⟨s, hm, hs⟩
    rw [hm]
    exact hret s [] hs
  clear_value ret
  refine goodC_ite (fun _ => hret _ _ h') fun _ => ?_
  refine goodC_ite (fun _ => hret _ _ (handleConnect_inv st e h')) fun _ => ?_
  refine goodC_ite (fun _ => hret _ _ h') fun _ => ?_
  refine goodC_ite (fun _ => hret _ _ h') fun _ => ?_
  refine goodC_ite (fun _ => ?_) fun _ => ?_
  · obtain ⟨s, o, hj, hs⟩ := InvJoin.handleJOIN_inv cfg st e h'
    rw [hj]
    exact hret s o hs
  refine goodC_ite (fun _ => hbind _ (handlePART_inv cfg st e h')) fun _ => ?_
  refine goodC_ite (fun _ => hbind _ (handleKICK_inv cfg st e h')) fun _ => ?_
  refine goodC_ite (fun _ => hbind _ (handleQUIT_inv cfg st e h')) fun _ => ?_
  refine goodC_ite (fun _ => hbind _ (handleNICK_inv st e h')) fun _ => ?_
  refine goodC_ite (fun _ => hbind _ (InvJoin.handleNAMES_inv st e h')) fun _ => ?_
  refine goodC_ite (fun _ => hbind _ (handleMODE_inv st e h')) fun _ => ?_
  refine goodC_ite (fun _ => hbind _ (handleWHO_inv st e h')) fun _ => ?_
  refine goodC_ite (fun _ => hbind _ (handleTOPIC_inv st e h')) fun _ => ?_
  refine goodC_ite (fun _ => hbind _ (handleMYINFO_inv st e h')) fun _ => ?_
  refine goodC_ite (fun _ => hret _ _ (handleISUPPORT_inv st e h')) fun _ => ?_
  refine goodC_ite (fun _ => hret _ _ (handleMOTD_inv st e h')) fun _ => ?_
  refine goodC_ite (fun _ => ?_) fun _ => ?_
  · have hc := handleCAP_inv cfg st e h'
    rcases hr : handleCAP cfg st e with ⟨s, o⟩
    rw [hr] at hc
    exact hret s o hc
  refine goodC_ite (fun _ => hret _ _ (handleCHGHOST_inv st e h')) fun _ => ?_
  refine goodC_ite (fun _ => hret _ _ (handleAWAY_inv st e h')) fun _ => ?_
  refine goodC_ite (fun _ => hret _ _ (handleACCOUNT_inv st e h')) fun _ => ?_
  refine goodC_ite (fun _ => ?_) fun _ => ?_
  · have hc := handleSASL_st cfg cs e
    rcases hr : handleSASL cfg cs e with ⟨cs', o⟩
    rw [hr] at hc
    refine ⟨cs', o, rfl, ?_⟩
    have hc' : cs'.st = cs.st := hc
    rw [hc']
    exact h
  exact goodC_ite (fun _ => hret _ _ h') fun _ => hret _ _ h'

/-- Every built-in handler, on EVERY event (any command, any number of parameters, with or without
    source or tags), returns without a fault and preserves the invariant. -/
theorem handleCommand_inv (cfg : Cfg) (cs : CState) (e : Event) (h : Inv cs.st) :
    ∃ cs' outs, handleCommand cfg cs e = .ok (cs', outs) ∧ Inv cs'.st :=
  handleCommand_good cfg cs e h

theorem handleEvent_inv (cfg : Cfg) (cs : CState) (e : Event) (time idle : Bytes) (h : Inv cs.st) :
    ∃ cs' outs, handleEvent cfg cs e time idle = .ok (cs', outs) ∧ Inv cs'.st := by
  unfold handleEvent
  extract_lets echo cs1 ctcp jp
  have h1 : Inv cs1.st := by
    unfold cs1
    split
    · exact h
    · exact handleTags_inv _ _ h
  have hjp : ∀ x : CState × List Out, Inv x.1.st → ∃ cs' outs, jp x = .ok (cs', outs) ∧ Inv cs'.st :=
    fun ⟨_, _⟩ hx => ⟨_, _, rfl, hx⟩
  clear_value jp cs1
  split
  · exact hjp _ h1
  · obtain ⟨cs', outs, hc, hi⟩ := handleCommand_inv cfg cs1 e h1
    rw [hc]
    exact hjp _ hi

/-! ### whole histories -/

theorem applyOuts_cs (cfg : Cfg) (isURL : Bytes → Bool) : ∀ (outs : List Out) (r : Run), (applyOuts cfg isURL r outs).1.cs = r.cs
  | [], r => rfl
  | o :: rest, r => by
    cases o with
    | write e =>
      have ih := applyOuts_cs cfg isURL rest { r with written := r.written ++ [e] }
      simp only [applyOuts]
      exact ih
    | send e =>
      have ih := applyOuts_cs cfg isURL rest { r with written := r.written ++ sendPieces cfg isURL r.cs.st e }
      simp only [applyOuts]
      exact ih
    | inject e =>
      have ih := applyOuts_cs cfg isURL rest r
      simp only [applyOuts]
      exact ih
    | close =>
      have ih := applyOuts_cs cfg isURL rest r
      simp only [applyOuts]
      exact ih

theorem stepEvent_inv (cfg : Cfg) (r : Run) (e : Event) (time idle : Bytes) (isURL : Bytes → Bool) (h : Inv r.cs.st) :
    ∃ r' inj, stepEvent cfg r e time idle isURL = .ok (r', inj) ∧ Inv r'.cs.st := by
  unfold stepEvent
  obtain ⟨cs', outs, hc, hi⟩ := handleEvent_inv cfg r.cs e time idle h
  rw [hc, ok_bind]
  dsimp only
  refine ⟨_, _, rfl, ?_⟩
  have ha : (applyOuts cfg isURL { r with cs := cs' } outs).1.cs = cs' := applyOuts_cs cfg isURL outs _
  split
  · show Inv (applyOuts cfg isURL { r with cs := cs' } outs).1.cs.st
    rw [ha]; exact hi
  · rw [ha]; exact hi

theorem stepAll_inv (cfg : Cfg) (isURL : Bytes → Bool) : ∀ (fuel : Nat) (r : Run) (queue : List Event), Inv r.cs.st →
    ∃ r', stepAll cfg isURL fuel r queue = .ok r' ∧ Inv r'.cs.st
  | 0, r, [], h => ⟨r, rfl, h⟩
  | 0, r, _ :: _, h => ⟨r, rfl, h⟩
  | _ + 1, r, [], h => ⟨r, rfl, h⟩
  | fuel + 1, r, e :: queue, h => by
    unfold stepAll
    split
    · exact ⟨r, rfl, h⟩
    · obtain ⟨r1, inj, hs, hi⟩ := stepEvent_inv cfg r e [] [] isURL h
      rw [hs, ok_bind]
      exact stepAll_inv cfg isURL fuel r1 (queue ++ inj) hi

theorem stepLine_inv (cfg : Cfg) (r : Run) (line : Bytes) (isURL : Bytes → Bool) (h : Inv r.cs.st) :
    ∃ r', stepLine cfg r line isURL = .ok r' ∧ Inv r'.cs.st := by
  unfold stepLine
  split
  · exact ⟨r, rfl, h⟩
  · split
    · exact ⟨_, rfl, h⟩
    · exact stepAll_inv cfg isURL 8 r _ h

/-- Lifted over whole histories of received lines (parseable or not), including the events the
    client injects into its own queue. -/
theorem runLines_inv (cfg : Cfg) (r : Run) (lines : List Bytes) (h : Inv r.cs.st) :
    ∃ r', runLines cfg r lines = .ok r' ∧ Inv r'.cs.st := by
  unfold runLines
  induction lines generalizing r with
  | nil => exact ⟨r, rfl, h⟩
  | cons line rest ih =>
    obtain ⟨r1, h1, hi⟩ := stepLine_inv cfg r line (fun _ => true) h
    rw [List.foldlM_cons, h1, ok_bind]
    exact ih r1 hi

/-! ### PING -/

theorem decodeCTCP_none (e : Event) (h1 : e.command ≠ PRIVMSG) (h2 : e.command ≠ NOTICE) :
    decodeCTCP e = none := by
  unfold decodeCTCP
  split
  · split
    · rfl
    · split
      · rfl
      · next hne =>
        exfalso
        apply hne
        simp [h1, h2]
  · rfl

/-- In every consistent state a PING is answered by exactly one unthrottled PONG with the same token. -/
theorem ping_answered (cfg : Cfg) (cs : CState) (e : Event) (time idle : Bytes) (hp : e.command = cPING) :
    ∃ cs', handleEvent cfg cs e time idle = .ok (cs', [Out.write { command := cPONG, params := [e.last] }]) := by
  have hP : e.command ≠ PRIVMSG := by rw [hp]; decide
  have hN : e.command ≠ NOTICE := by rw [hp]; decide
  have hcmd : ∀ cs1 : CState, handleCommand cfg cs1 e =
      .ok ({ cs1 with st := cs1.st }, [Out.write { command := cPONG, params := [e.last] }]) := by
    intro cs1
    unfold handleCommand
    extract_lets st ret c
    rw [if_pos hp]
  unfold handleEvent
  extract_lets echo cs1 ctcp jp
  have hecho : echo = false := by
    unfold echo isEcho
    simp [hP, hN]
  have hctcp : ctcp = [] := by
    unfold ctcp
    rw [decodeCTCP_none e hP hN]
  rw [hecho, hcmd cs1]
  unfold jp
  rw [hctcp]
  exact ⟨_, rfl⟩

end Girc.Proofs.InvHandlers
