/- Model of conn.go `ircConn.rate` (durations are integer nanoseconds, as `time.Duration`). -/
namespace Girc.Model

def second : Int := 1000000000

/-- `time.Second + (time.Duration(chars) * time.Second) / 100` — exact: 10 ms per byte. -/
def cost (chars : Nat) : Int := second + ((chars : Int) * second) / 100

/-- `rate`: (new `writeDelay`, returned delay) given the old `writeDelay`, the time since the last
    write and the size of the event. -/
def rate (writeDelay since : Int) (chars : Nat) : Int × Int :=
  let wd := writeDelay + (cost chars - since)
  let wd := if wd < 0 then 0 else wd
  (wd, if wd > 8 * second then cost chars else 0)

end Girc.Model
