import Girc.Proofs.RoundtripLemmas
import Girc.Proofs.RoundtripUtf8
/-
  From a grammatical line whose rendering is valid UTF-8 to a well-formed event:
  field-wise validity is extracted from `validUTF8 (render l)` (every field is delimited by ASCII
  separators), and `WFEvent (meaning l)` follows.
-/
namespace Girc.Proofs.RoundtripLine
open Girc Girc.Model Girc.Spec
open Girc.Proofs.ParseLemmas Girc.Proofs.ParseParams Girc.Proofs.ParseSections Girc.Proofs.ParseTags
open Girc.Proofs.ParseRender Girc.Proofs.RoundtripLemmas Girc.Proofs.RoundtripUtf8

/-- Every free-form field of the parse tree is valid UTF-8 (keys and command are ASCII anyway). -/
structure FieldsValid (l : Line) : Prop where
  tags : ∀ ts, l.tags = some ts → ∀ x ∈ ts, ∀ v, x.2 = some v → validUTF8 v = true
  pfx : ∀ p, l.pfx = some p → validUTF8 p.name = true ∧
    (∀ i, p.ident = some i → validUTF8 i = true) ∧ (∀ h, p.host = some h → validUTF8 h = true)
  mids : ∀ m ∈ l.middles, validUTF8 m.2 = true
  tr : ∀ n t, l.trailing = some (n, t) → validUTF8 t = true

/-! ### Extraction -/

theorem secPart_split (lead : Byte) (hl : lead < 0x80) (sec : Option Bytes) (R : Bytes)
    (h : validUTF8 (secPart lead sec ++ R) = true) :
    (∀ s, sec = some s → validUTF8 s = true) ∧ validUTF8 R = true := by
  cases sec with
  | none => exact ⟨by simp, by simpa [secPart] using h⟩
  | some s =>
    have e : secPart lead (some s) ++ R = [] ++ lead :: (s ++ SP :: R) := by simp [secPart]
    rw [e] at h
    have h1 := (validUTF8_split [] lead _ hl h).2
    have h2 := validUTF8_split s SP R (by decide) h1
    exact ⟨by intro s' hs; cases hs; exact h2.1, h2.2⟩

theorem spaces_ascii (n : Nat) : (spaces n).all (· < 0x80) = true := by
  rw [List.all_eq_true]
  intro b hb
  simp only [spaces, List.mem_replicate] at hb
  rw [hb.2]; decide

theorem spLead_asciiLead (r : Bytes) (h : SpLead r) : AsciiLead r := by
  rcases h with h | h
  · exact Or.inl h
  · cases r with
    | nil => exact Or.inl rfl
    | cons c r' =>
      simp at h
      subst h
      exact AsciiLead.cons (by decide) r'

theorem asciiLead_renderMiddles_append (ms : List (Nat × Bytes)) (T : Bytes) (hT : AsciiLead T) :
    AsciiLead (renderMiddles ms ++ T) := by
  cases ms with
  | nil => simpa [renderMiddles] using hT
  | cons m ms =>
    obtain ⟨k, tok⟩ := m
    apply spLead_asciiLead
    simp only [renderMiddles, List.append_assoc]
    exact spLead_spaces_append _ _

theorem middles_split (T : Bytes) (hT : AsciiLead T) : ∀ (ms : List (Nat × Bytes)),
    validUTF8 (renderMiddles ms ++ T) = true →
    (∀ m ∈ ms, validUTF8 m.2 = true) ∧ validUTF8 T = true
  | [], h => ⟨by simp, by simpa [renderMiddles] using h⟩
  | (k, tok) :: ms, h => by
    simp only [renderMiddles, List.append_assoc] at h
    have h1 := validUTF8_drop_ascii _ _ (spaces_ascii k) h
    have h2 := validUTF8_split_lead tok _ (asciiLead_renderMiddles_append ms T hT) h1
    obtain ⟨h3, h4⟩ := middles_split T hT ms h2.2
    refine ⟨?_, h4⟩
    intro m hm
    simp only [List.mem_cons] at hm
    rcases hm with hm | hm
    · subst hm; exact h2.1
    · exact h3 m hm

theorem asciiLead_trPart (tr : Option (Nat × Bytes)) : AsciiLead (trPart tr) := by
  rcases tr with _ | ⟨n, t⟩
  · exact AsciiLead.nil
  · exact spLead_asciiLead _ (spLead_spaces_append n _)

theorem trPart_valid (tr : Option (Nat × Bytes)) (h : validUTF8 (trPart tr) = true) :
    ∀ n t, tr = some (n, t) → validUTF8 t = true := by
  intro n t ht
  subst ht
  simp only [trPart] at h
  have h1 := validUTF8_drop_ascii _ _ (spaces_ascii n) h
  have : COLON :: t = [] ++ COLON :: t := rfl
  rw [this] at h1
  exact (validUTF8_split [] COLON t (by decide) h1).2

theorem renderTag_valid (x : Bytes × Option Bytes) (h : validUTF8 (renderTag x) = true) :
    ∀ v, x.2 = some v → validUTF8 v = true := by
  obtain ⟨k, ov⟩ := x
  intro v hv
  simp only at hv
  subst hv
  have e : renderTag (k, some v) = k ++ 0x3D :: v := by simp [renderTag]
  rw [e] at h
  exact (validUTF8_split k 0x3D v (by decide) h).2

theorem asciiLead_optPart (lead : Byte) (hl : lead < 0x80) (o : Option Bytes) :
    AsciiLead (optPart lead o) := by
  cases o with
  | none => exact AsciiLead.nil
  | some i => exact AsciiLead.cons hl i

theorem optPart_valid (lead : Byte) (hl : lead < 0x80) (o : Option Bytes)
    (h : validUTF8 (optPart lead o) = true) : ∀ i, o = some i → validUTF8 i = true := by
  intro i hi
  subst hi
  have : optPart lead (some i) = [] ++ lead :: i := rfl
  rw [this] at h
  exact (validUTF8_split [] lead i hl h).2

theorem renderPrefix_valid (p : Prefix) (h : validUTF8 (renderPrefix p) = true) :
    validUTF8 p.name = true ∧ (∀ i, p.ident = some i → validUTF8 i = true) ∧
      (∀ h, p.host = some h → validUTF8 h = true) := by
  rw [renderPrefix_eq] at h
  have h1 := validUTF8_split_lead _ _ (asciiLead_optPart AT (by decide) p.host) h
  have h2 := validUTF8_split_lead _ _ (asciiLead_optPart BANG (by decide) p.ident) h1.1
  exact ⟨h2.1, optPart_valid BANG (by decide) _ h2.2, optPart_valid AT (by decide) _ h1.2⟩

theorem letter_ascii : ∀ b : UInt8, isAsciiLetter b = true → b < 0x80 := by decide +kernel
theorem digit_ascii : ∀ b : UInt8, isAsciiDigit b = true → b < 0x80 := by decide +kernel

theorem wfCommand_ascii (c : Bytes) (h : wfCommand c = true) : c.all (· < 0x80) = true := by
  simp only [wfCommand, Bool.or_eq_true, Bool.and_eq_true, decide_eq_true_eq] at h
  rw [List.all_eq_true]
  intro b hb
  rcases h with ⟨_, ha⟩ | ⟨_, ha⟩
  · simpa using letter_ascii b (List.all_eq_true.mp ha b hb)
  · simpa using digit_ascii b (List.all_eq_true.mp ha b hb)

theorem asciiLead_endingBytes (n : Nat) : AsciiLead (endingBytes n) := by
  match n with
  | 0 => exact AsciiLead.nil
  | 1 => exact AsciiLead.cons (by decide) _
  | n + 2 => exact AsciiLead.cons (by decide) _

theorem fieldsValid_of_render (l : Line) (hw : wfLine l = true) (h : validUTF8 (render l) = true) :
    FieldsValid l := by
  rw [render_shape] at h
  have hcmd : wfCommand l.command = true := by
    simp only [wfLine, Bool.and_eq_true] at hw
    exact hw.1.1.1.1.2
  have h0 := (validUTF8_split_lead _ _ (asciiLead_endingBytes l.ending) h).1
  obtain ⟨ht, h1⟩ := secPart_split AT (by decide) _ _ h0
  obtain ⟨hs, h2⟩ := secPart_split COLON (by decide) _ _ h1
  have h3 := validUTF8_drop_ascii _ _ (wfCommand_ascii _ hcmd) h2
  obtain ⟨hm, h4⟩ := middles_split _ (asciiLead_trPart l.trailing) _ h3
  refine ⟨?_, ?_, hm, trPart_valid _ h4⟩
  · intro ts hts x hx v hv
    have hj := ht (joinWith [0x3B] (ts.map renderTag)) (by simp [tagSecOf, hts])
    have := joinWith_valid 0x3B (by decide) _ hj (renderTag x) (List.mem_map_of_mem hx)
    exact renderTag_valid x this v hv
  · intro p hp
    exact renderPrefix_valid p (hs (renderPrefix p) (by simp [hp]))

/-! ### Command -/

theorem upper_letter : ∀ b : UInt8, isAsciiLetter b = true →
    (0x21 ≤ upper1 b && upper1 b ≤ 0x7E && !(0x61 ≤ upper1 b && upper1 b ≤ 0x7A)) = true ∧
      upper1 b ≠ COLON ∧ upper1 b ≠ AT := by
  decide +kernel

theorem upper_digit : ∀ b : UInt8, isAsciiDigit b = true →
    (0x21 ≤ upper1 b && upper1 b ≤ 0x7E && !(0x61 ≤ upper1 b && upper1 b ≤ 0x7A)) = true ∧
      upper1 b ≠ COLON ∧ upper1 b ≠ AT := by
  decide +kernel

theorem wfCmd_of_bytes (c : Bytes) (hne : c ≠ [])
    (h : ∀ b ∈ c, (0x21 ≤ b && b ≤ 0x7E && !(0x61 ≤ b && b ≤ 0x7A)) = true ∧ b ≠ COLON ∧ b ≠ AT) :
    wfCmd c = true := by
  cases c with
  | nil => exact absurd rfl hne
  | cons x xs =>
    have hx := h x (by simp)
    have hall : (x :: xs).all (fun b => 0x21 ≤ b && b ≤ 0x7E && !(0x61 ≤ b && b ≤ 0x7A)) = true :=
      List.all_eq_true.mpr (fun b hb => (h b hb).1)
    unfold wfCmd
    rw [hall]
    simp [hx.2.1, hx.2.2]

theorem wfCmd_upper (c : Bytes) (h : wfCommand c = true) : wfCmd (toUpperAscii c) = true := by
  obtain ⟨hok, _⟩ := wfCommand_ok c h
  simp only [wfCommand, Bool.or_eq_true, Bool.and_eq_true, decide_eq_true_eq] at h
  apply wfCmd_of_bytes
  · simpa [toUpperAscii] using hok.ne
  · intro b hb
    simp only [toUpperAscii, List.mem_map] at hb
    obtain ⟨a, ha, rfl⟩ := hb
    rcases h with ⟨_, hall⟩ | ⟨_, hall⟩
    · exact upper_letter a (List.all_eq_true.mp hall a ha)
    · exact upper_digit a (List.all_eq_true.mp hall a ha)

/-! ### Parameters -/

theorem midByte_field : ∀ b : UInt8, midByte b = true → (b != NUL && b != CR && b != LF) = true := by
  decide +kernel

theorem trailByte_field : ∀ b : UInt8, trailByte b = true → (b != NUL && b != CR && b != LF) = true := by
  decide +kernel

theorem wfMid_of_wfMiddle (t : Bytes) (h : wfMiddle t = true) (hv : validUTF8 t = true) :
    wfMid t = true := by
  obtain ⟨⟨hne, hsp, hc⟩, _⟩ := wfMiddle_ok t h
  simp only [wfMiddle, Bool.and_eq_true] at h
  have hall : t.all (fun b => b != NUL && b != CR && b != LF) = true :=
    List.all_eq_true.mpr (fun b hb => midByte_field b (List.all_eq_true.mp h.1.2 b hb))
  unfold wfMid fieldOK
  rw [hv, hall]
  simp [hne, hsp, hc]

theorem fieldOK_of_trail (t : Bytes) (h : t.all trailByte = true) (hv : validUTF8 t = true) :
    fieldOK t = true := by
  have hall : t.all (fun b => b != NUL && b != CR && b != LF) = true :=
    List.all_eq_true.mpr (fun b hb => trailByte_field b (List.all_eq_true.mp h b hb))
  unfold fieldOK
  rw [hv, hall]; rfl

theorem wfMid_fieldOK (p : Bytes) (h : wfMid p = true) : fieldOK p = true := by
  simp only [wfMid, Bool.and_eq_true] at h
  exact h.1.1.1

theorem wfParams_mids : ∀ (ms : List Bytes), (∀ p ∈ ms, wfMid p = true) → wfParams ms = true
  | [], _ => rfl
  | [p], h => by simpa [wfParams] using wfMid_fieldOK p (h p (by simp))
  | p :: q :: ps, h => by
    simp only [wfParams, Bool.and_eq_true]
    exact ⟨h p (by simp), wfParams_mids (q :: ps) (fun x hx => h x (by simp [hx]))⟩

theorem wfParams_mids_tr (t : Bytes) (ht : fieldOK t = true) : ∀ (ms : List Bytes),
    (∀ p ∈ ms, wfMid p = true) → wfParams (ms ++ [t]) = true
  | [], _ => by simpa [wfParams] using ht
  | [p], h => by
    simp only [List.cons_append, List.nil_append, wfParams, Bool.and_eq_true]
    exact ⟨h p (by simp), ht⟩
  | p :: q :: ps, h => by
    simp only [List.cons_append, wfParams, Bool.and_eq_true]
    exact ⟨h p (by simp), wfParams_mids_tr t ht (q :: ps) (fun x hx => h x (by simp [hx]))⟩

/-! ### Source -/

theorem pfxByte_src : ∀ b : UInt8, (midByte b && b != BANG && b != AT) = true →
    (b != NUL && b != CR && b != LF) = true ∧ (b != BANG && b != AT && b != SP) = true := by
  decide +kernel

theorem wfSrcPart_of_prefixPart (s : Bytes) (h : wfPrefixPart s = true) (hv : validUTF8 s = true) :
    wfSrcPart s = true := by
  simp only [wfPrefixPart, Bool.and_eq_true] at h
  have hb := List.all_eq_true.mp h.2
  have h1 : s.all (fun b => b != NUL && b != CR && b != LF) = true :=
    List.all_eq_true.mpr (fun b hm => (pfxByte_src b (hb b hm)).1)
  have h2 : s.all (fun b => b != BANG && b != AT && b != SP) = true :=
    List.all_eq_true.mpr (fun b hm => (pfxByte_src b (hb b hm)).2)
  unfold wfSrcPart fieldOK
  rw [hv, h1, h2]; rfl

theorem wfSrcPart_nil : wfSrcPart [] = true := rfl

theorem wfSource_meaning (p : Prefix) (h : wfPrefix p = true)
    (hv : validUTF8 p.name = true ∧ (∀ i, p.ident = some i → validUTF8 i = true) ∧
      (∀ h, p.host = some h → validUTF8 h = true)) : wfSource (meaningSource p) = true := by
  obtain ⟨hn, hi, hh⟩ := wfPrefix_parts p h
  obtain ⟨name, oi, oh⟩ := p
  simp only at hn hi hh hv
  have h1 := wfSrcPart_of_prefixPart name hn hv.1
  have hne := (wfPrefixPart_ok name hn).1
  have h2 : wfSrcPart (oi.getD []) = true := by
    cases oi with
    | none => exact wfSrcPart_nil
    | some i => exact wfSrcPart_of_prefixPart i (hi i rfl) (hv.2.1 i rfl)
  have h3 : wfSrcPart (oh.getD []) = true := by
    cases oh with
    | none => exact wfSrcPart_nil
    | some i => exact wfSrcPart_of_prefixPart i (hh i rfl) (hv.2.2 i rfl)
  simp only [wfSource, meaningSource, h1, h2, h3, Bool.and_true]
  simpa using hne

/-! ### Tags -/

theorem nodupB_append_single (k : Bytes) : ∀ (l : List Bytes), nodupB l = true → k ∉ l →
    nodupB (l ++ [k]) = true
  | [], _, _ => rfl
  | x :: xs, h, hk => by
    simp only [nodupB, Bool.and_eq_true, Bool.not_eq_true'] at h
    have hxk : x ≠ k := fun e => hk (by simp [e])
    have hk' : k ∉ xs := fun e => hk (by simp [e])
    simp only [List.cons_append, nodupB, Bool.and_eq_true, Bool.not_eq_true']
    refine ⟨?_, nodupB_append_single k xs h.2 hk'⟩
    have h1 : x ∉ xs := by
      intro hm
      have := h.1
      simp [hm] at this
    simp [h1, hxk]

/-- The invariant of a tag map under `AMap.set` with valid keys and wire-safe values. -/
def TInv (m : Tags) : Prop :=
  nodupB (AMap.keys m) = true ∧ ∀ p ∈ m, validTag p.1 = true ∧ wireSafeValue p.2 = true

theorem TInv.set {m : Tags} (hm : TInv m) (k v : Bytes) (hk : validTag k = true)
    (hv : wireSafeValue v = true) : TInv (AMap.set m k v) := by
  unfold AMap.set
  by_cases hany : m.any (fun p => p.1 == k) = true
  · rw [if_pos hany]
    refine ⟨?_, ?_⟩
    · have : AMap.keys (m.map fun p => if (p.1 == k) = true then (k, v) else p) = AMap.keys m := by
        simp only [AMap.keys, List.map_map]
        apply List.map_congr_left
        intro p _
        by_cases hp : (p.1 == k) = true
        · simp only [Function.comp, hp, if_true]
          exact (beq_iff_eq.mp hp).symm
        · simp [Function.comp, hp]
      rw [this]; exact hm.1
    · intro p hp
      simp only [List.mem_map] at hp
      obtain ⟨q, hq, rfl⟩ := hp
      by_cases hqk : (q.1 == k) = true
      · simp only [hqk, if_true]; exact ⟨hk, hv⟩
      · simp only [hqk]; exact hm.2 q hq
  · rw [if_neg hany]
    refine ⟨?_, ?_⟩
    · have : AMap.keys (m ++ [(k, v)]) = AMap.keys m ++ [k] := by simp [AMap.keys]
      rw [this]
      apply nodupB_append_single k _ hm.1
      intro hmem
      apply hany
      simp only [AMap.keys, List.mem_map] at hmem
      obtain ⟨q, hq, hqk⟩ := hmem
      rw [List.any_eq_true]
      exact ⟨q, hq, by simp [hqk]⟩
    · intro p hp
      simp only [List.mem_append, List.mem_singleton] at hp
      rcases hp with hp | hp
      · exact hm.2 p hp
      · subst hp; exact ⟨hk, hv⟩

theorem TInv.foldl : ∀ (ts : List (Bytes × Option Bytes)) (acc : Tags), TInv acc →
    (∀ t ∈ ts, validTag t.1 = true ∧ wireSafeValue (t.2.getD []) = true) →
    TInv (ts.foldl (fun m t => AMap.set m t.1 (t.2.getD [])) acc)
  | [], acc, h, _ => h
  | t :: ts, acc, h, ht => by
    simp only [List.foldl_cons]
    have := ht t (by simp)
    exact TInv.foldl ts _ (h.set t.1 _ this.1 this.2) (fun x hx => ht x (by simp [hx]))

theorem wireSafeValue_nil : wireSafeValue [] = true := rfl

theorem wfTags_meaning (ts : List (Bytes × Option Bytes)) (hw : ∀ x ∈ ts, wfTag x = true)
    (hv : ∀ x ∈ ts, ∀ v, x.2 = some v → validUTF8 v = true)
    (hlen : (tagsBytesFull (meaningTags ts)).length ≤ maxTagLength) :
    wfTags (meaningTags ts) = true := by
  have hinv : TInv (meaningTags ts) := by
    apply TInv.foldl ts [] ⟨rfl, by simp⟩
    intro t ht
    have hwt := hw t ht
    simp only [wfTag, Bool.and_eq_true] at hwt
    refine ⟨hwt.1, ?_⟩
    obtain ⟨k, ov⟩ := t
    cases ov with
    | none => exact wireSafeValue_nil
    | some v =>
      have h1 : wfTagValue v = true := by simpa using hwt.2
      simp only [wfTagValue, Bool.and_eq_true] at h1
      simp only [Option.getD_some, wireSafeValue, Bool.and_eq_true]
      exact ⟨hv _ ht v rfl, h1.1⟩
  unfold wfTags
  rw [hinv.1]
  have hall : (meaningTags ts).all (fun p => validTag p.1 && wireSafeValue p.2) = true := by
    rw [List.all_eq_true]
    intro p hp
    have := hinv.2 p hp
    simp [this.1, this.2]
  rw [hall]
  simp [hlen]

/-! ### The event a clean grammatical line means is well-formed -/

theorem rawBytes_length_ge (e : Event) : e.command.length ≤ (rawBytes e).length := by
  simp only [rawBytes, List.length_append]
  omega

theorem wfEvent_meaning (l : Line) (hw : wfLine l = true) (hv : validUTF8 (render l) = true)
    (hlen : ∀ ts, l.tags = some ts → (tagsBytesFull (meaningTags ts)).length ≤ maxTagLength) :
    WFEvent (meaning l) = true := by
  have hf := fieldsValid_of_render l hw hv
  obtain ⟨tags, pfx, cmd, ms, tr, ending⟩ := l
  simp only [wfLine, Bool.and_eq_true, decide_eq_true_eq] at hw
  obtain ⟨⟨⟨⟨⟨⟨htags, hpfx⟩, hcmd⟩, hmid⟩, _⟩, htr⟩, _⟩ := hw
  have h1 : wfCmd (toUpperAscii cmd) = true := wfCmd_upper cmd hcmd
  have hmids : ∀ p ∈ ms.map (·.2), wfMid p = true := by
    intro p hp
    simp only [List.mem_map] at hp
    obtain ⟨m, hm, rfl⟩ := hp
    exact wfMid_of_wfMiddle m.2 (List.all_eq_true.mp hmid m hm) (hf.mids m hm)
  have h2 : wfParams (meaning ⟨tags, pfx, cmd, ms, tr, ending⟩).params = true := by
    rcases tr with _ | ⟨n, t⟩
    · simpa [meaning] using wfParams_mids _ hmids
    · simp only [meaning]
      exact wfParams_mids_tr t (fieldOK_of_trail t htr (hf.tr n t rfl)) _ hmids
  have h3 : (pfx.map meaningSource).all wfSource = true := by
    cases pfx with
    | none => rfl
    | some p =>
      simp only [Option.map_some, Option.all_some]
      exact wfSource_meaning p (by simpa using hpfx) (hf.pfx p rfl)
  have h4 : (tags.map meaningTags).all wfTags = true := by
    cases tags with
    | none => rfl
    | some ts =>
      simp only [Option.map_some, Option.all_some]
      simp only [Bool.and_eq_true] at htags
      exact wfTags_meaning ts (List.all_eq_true.mp htags.2) (hf.tags ts rfl) (hlen ts rfl)
  have h5 : 2 ≤ (rawBytes (meaning ⟨tags, pfx, cmd, ms, tr, ending⟩)).length := by
    have := rawBytes_length_ge (meaning ⟨tags, pfx, cmd, ms, tr, ending⟩)
    have hc := (wfCommand_ok cmd hcmd).2
    have hl : (meaning ⟨tags, pfx, cmd, ms, tr, ending⟩).command.length = cmd.length := by
      simp [meaning, toUpperAscii]
    omega
  simp only [WFEvent, Bool.and_eq_true, decide_eq_true_eq]
  exact ⟨⟨⟨⟨h1, h2⟩, h3⟩, h4⟩, h5⟩

end Girc.Proofs.RoundtripLine
