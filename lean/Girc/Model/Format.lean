import Girc.Base.GoLib
import Girc.Base.GoSem
import Girc.Spec.FormatTables
/-
  Model of format.go: Fmt, TrimFmt, StripRaw (and the two regular expressions, hand-matched).
-/
namespace Girc.Model
open Girc

def LBRACE : Byte := 0x7B
def RBRACE : Byte := 0x7D

/-- `fmt.Sprintf("%02d", n)` for the colour numbers (0..99). -/
def twoDigits (n : Nat) : Bytes := [UInt8.ofNat (0x30 + n / 10 % 10), UInt8.ofNat (0x30 + n % 10)]

def colorOf (name : Bytes) : Option Nat := List.lookup name Spec.colors
def codeOf (name : Bytes) : Option Bytes := List.lookup name Spec.codes

/-- The replacement computed for the text between `{` and `}`. -/
def fmtRepl (inner : Bytes) : Bytes :=
  let code := toLowerAscii inner
  let (code, secondary) := match indexOf COMMA code with
    | some com => (code.take com, code.drop (com + 1))
    | none => (code, [])
  let repl := match colorOf code with
    | some c => 0x03 :: twoDigits c
    | none => []
  let repl := if !repl.isEmpty && !secondary.isEmpty then
      match colorOf secondary with
      | some c => repl ++ COMMA :: twoDigits c
      | none => repl
    else repl
  if repl.isEmpty then (codeOf code).getD [] else repl

/-- `A-Z, a-z, and ","` — the bytes that keep a pending `{` open. -/
def fmtInner (b : Byte) : Bool := !(b != COMMA && (b < 0x41 || b > 0x5A) && (b < 0x61 || b > 0x7A))

/-- The scan of `Fmt`. `pending = some p`: an open brace was seen (`last > -1`) and `p` are the
    bytes after it so far. Output is what ends up in `text` left of the cursor. -/
def fmtScan : Bytes → Option Bytes → Bytes
  | [], none => []
  | [], some p => LBRACE :: p
  | b :: rest, pending =>
    if b = LBRACE then
      (match pending with | some p => LBRACE :: p | none => []) ++ fmtScan rest (some [])
    else match pending with
      | some p =>
        if b = RBRACE then fmtRepl p ++ fmtScan rest none
        else if fmtInner b then fmtScan rest (some (p ++ [b]))
        else LBRACE :: p ++ b :: fmtScan rest none
      | none => b :: fmtScan rest none

/-- `Fmt`. -/
def fmt (text : Bytes) : Bytes := fmtScan text none

/-- `strings.ReplaceAll(s, old, "")` for non-empty `old`: leftmost, non-overlapping. -/
def removeAllFuel (old : Bytes) : Nat → Bytes → Bytes
  | 0, s => s
  | _, [] => []
  | n + 1, b :: rest =>
    if old.isPrefixOf (b :: rest) then removeAllFuel old n ((b :: rest).drop old.length)
    else b :: removeAllFuel old n rest

def removeAll (old s : Bytes) : Bytes := if old.isEmpty then s else removeAllFuel old (s.length + 1) s

def token (name : Bytes) : Bytes := LBRACE :: name ++ [RBRACE]

/-- `TrimFmt` for a given iteration order of the two maps (Go map iteration is unordered). -/
def trimFmt (order : List Bytes) (text : Bytes) : Bytes :=
  order.foldl (fun t name => removeAll (token name) t) text

def tokenNames : List Bytes := Spec.colors.map (·.1) ++ Spec.codes.map (·.1)

/-! ### StripRaw -/

-- `isDigitB`, `is019`, `colorNum`, `colorArgs`, `stripColorFuel`, `stripColor` (the hand-matched `reColor`) and `COMMA` are
-- declared (under these same names) in Girc/Base/GoSem.lean, shared with the generated Gen/Funcs.lean.

/-- `StripRaw`: colour sequences, then every one of the seven control bytes. -/
def stripRaw (s : Bytes) : Bytes := (stripColor s).filter (fun b => !Spec.codeBytes.contains b)

end Girc.Model
