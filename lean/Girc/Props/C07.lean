import Girc.Proofs.Life
import Girc.Gen.Skel
import Girc.Spec.Skeletons
/- C07 — Connect always terminates cleanly and reports why. Property theorems only.
   The model (Model/Lifecycle.lean) is an interleaving transition system of main / execLoop / readLoop /
   sendLoop / pingLoop / user goroutines / the peer; every theorem quantifies over ALL reachable states,
   i.e. all placements of Close / Quit / ERROR / EOF relative to the loops. -/
namespace Girc.Props.C07
open Girc Girc.Model.Life

/-! ### the code the model was written against is the code in the tree (regenerated on every run) -/
theorem skel_internalConnect : Gen.skel_internalConnect = Spec.Skel.skel_internalConnect := by decide +kernel
theorem skel_execLoop : Gen.skel_execLoop = Spec.Skel.skel_execLoop := by decide +kernel
theorem skel_readLoop : Gen.skel_readLoop = Spec.Skel.skel_readLoop := by decide +kernel
theorem skel_sendLoop : Gen.skel_sendLoop = Spec.Skel.skel_sendLoop := by decide +kernel
theorem skel_pingLoop : Gen.skel_pingLoop = Spec.Skel.skel_pingLoop := by decide +kernel
theorem skel_Close : Gen.skel_Close = Spec.Skel.skel_Close := by decide +kernel
theorem skel_Quit : Gen.skel_Quit = Spec.Skel.skel_Quit := by decide +kernel
theorem skel_write : Gen.skel_write = Spec.Skel.skel_write := by decide +kernel
theorem skel_receive : Gen.skel_receive = Spec.Skel.skel_receive := by decide +kernel
theorem skel_decode : Gen.skel_decode = Spec.Skel.skel_decode := by decide +kernel
/-- every connection starts by resetting the tracked state; teardown closes the socket -/
theorem skel_state_reset : Gen.skel_state_reset = Spec.Skel.skel_state_reset ∧
    Gen.skel_ircConn_Close = Spec.Skel.skel_ircConn_Close := by decide +kernel
theorem skel_ctxgroup :
    Gen.skel_ctxgroup_New = Spec.Skel.skel_ctxgroup_New ∧ Gen.skel_ctxgroup_Wait = Spec.Skel.skel_ctxgroup_Wait ∧
    Gen.skel_ctxgroup_Go = Spec.Skel.skel_ctxgroup_Go := by decide +kernel

/-! ### what Connect returns -/

/-- For every reachable state in which Connect has returned `res`:
    nil exactly when the close was requested (Close() called or a QUIT written) before `group.Wait()`
    returned; otherwise, if handlers saw an ERROR, the result is the ErrEvent of the FIRST such ERROR;
    an ErrEvent result always carries the text of the first ERROR delivered; an I/O error is only
    reported after the peer closed and only when no ERROR had been handled. -/
theorem result_classification (s : LState) (h : Reach s) (res : Option Err) (hr : s.main = .returned res) :
    (res = none ↔ s.reqAtWait = true) ∧
    (s.reqAtWait = true → s.closeRequested = true) ∧
    (s.reqAtWait = false → ∀ e, firstError s.delivered = some e → res = some e) ∧
    (∀ t, res = some (.errEvent t) → firstError s.delivered = some (.errEvent t)) ∧
    (res = some .io → s.peerClosed = true ∧ firstError s.delivered = none) :=
  Proofs.Life.result_classification h res hr

/-- A requested close has cancelled the parent context by the time the loops are waited for, so the
    branch `ctx.Err() != nil ⇒ err = nil` is taken: Connect returns nil after Close()/Quit(). -/
theorem close_returns_nil (s : LState) (h : Reach s) (hw : s.main = .waiting) (hc : s.closeRequested = true) :
    s.parentCancelled = true := Proofs.Life.close_returns_nil h hw hc

/-- Every event received before an ERROR is delivered to handlers first: rx is FIFO with one
    consumer, and the reported ERROR is the first one delivered. -/
theorem events_before_error (s : LState) (h : Reach s) (res : Option Err) (hr : s.main = .returned res) (t : Bytes)
    (he : res = some (.errEvent t)) :
    ∃ pre e post, s.delivered = pre ++ [e] ++ post ∧ e.isError = true ∧ e.text = t ∧ (∀ x ∈ pre, x.isError = false) ∧
      s.received = pre ++ [e] ++ post ++ s.rx := by
  have hc := (Proofs.Life.result_classification h res hr).2.2.2.1 t he
  obtain ⟨pre, e, post, hd, h1, h2, h3⟩ := Proofs.Life.firstError_split s.delivered t hc
  exact ⟨pre, e, post, hd, h1, h2, h3, by rw [Proofs.Life.fifo h, hd]⟩

theorem fifo (s : LState) (h : Reach s) : s.received = s.delivered ++ s.rx := Proofs.Life.fifo h

/-! ### lifecycle events, socket, goroutines -/

/-- DISCONNECTED exactly once, last; CLOSED before it exactly when Connect returns nil. -/
theorem lifecycle_events (s : LState) (h : Reach s) (res : Option Err) (hr : s.main = .returned res) :
    s.emitted = if res = none then [.closed, .disconnected] else [.disconnected] :=
  (Proofs.Life.lifecycle_events h).1 res hr

/-- When Connect returns the socket is closed, `conn` is nil (IsConnected() is false) and all four
    loops have exited; and they had all exited before the socket was closed. -/
theorem at_return (s : LState) (h : Reach s) (res : Option Err) (hr : s.main = .returned res) :
    s.sockClosed = true ∧ s.connNil = true ∧ s.exec.done = true ∧ s.read.done = true ∧ s.send.done = true ∧
    s.ping.done = true := Proofs.Life.at_return h res hr

theorem sock_closed_after_loops (s : LState) (h : Reach s) (hc : s.sockClosed = true) :
    s.exec.done = true ∧ s.read.done = true ∧ s.send.done = true ∧ s.ping.done = true :=
  Proofs.Life.sock_closed_after_loops h hc

/-! ### the same client connects again: nothing of the previous connection is seen -/

/-- A new connection starts with empty queues whatever the previous one left behind … -/
theorem reconnect_clean (rx : List Ev) (tx : List OutEv) (cap : Nat) :
    (begin rx tx cap).rx = [] ∧ (begin rx tx cap).tx = [] ∧ (begin rx tx cap).delivered = [] := ⟨rfl, rfl, rfl⟩

/-- … so everything delivered to handlers was sent by the peer on THIS connection. -/
theorem no_stale (s : LState) (h : Reach s) : ∀ e ∈ s.delivered, e ∈ s.sent := Proofs.Life.no_stale h

/-! ### bounded termination -/

/-- Each terminating cause (Close(), a read error / EOF, a malformed line, a ping timeout, an ERROR
    taken by execLoop, a written QUIT, a write error) cancels the group. -/
theorem causes_cancel (s s' : LState) :
    (step s .userClose = some s' → s'.groupCancelled = true) ∧
    (step s .readEOF = some s' → s'.groupCancelled = true) ∧
    (step s .readParseErr = some s' → s'.groupCancelled = true) ∧
    (step s .pingTimeout = some s' → s'.groupCancelled = true) ∧
    (step s .execTake = some s' → (∃ e rest, s.rx = e :: rest ∧ e.isError = true) → s'.groupCancelled = true) ∧
    (step s .sendTake = some s' → (∃ rest, s.tx = .quit :: rest) → s'.groupCancelled = true) ∧
    (step s .sendFail = some s' → s'.groupCancelled = true) := Proofs.Life.causes_cancel s s'

/-- After that, under ANY schedule, at most `measure s` library steps can happen (the measure counts
    the loops still running, the queued events and outputs, and main's remaining statements) … -/
theorem bounded_termination (s s' : LState) (acts : List Act) (hc : s.groupCancelled = true)
    (hl : ∀ a ∈ acts, a.isLib = true) (hr : run s acts = some s') : acts.length + measure s' ≤ measure s :=
  Proofs.Life.bounded_termination s s' acts hc hl hr

/-- … some library step is always enabled until Connect has returned (no deadlock among the loops) … -/
theorem never_stuck (s : LState) (hc : s.groupCancelled = true) (hm : ∀ r, s.main ≠ .returned r) :
    ∃ a, a.isLib = true ∧ (step s a).isSome = true := Proofs.Life.lib_enabled s hc hm

/-- … hence every schedule that keeps running library steps ends with Connect returned. -/
theorem terminates (s s' : LState) (acts : List Act) (hc : s.groupCancelled = true)
    (hl : ∀ a ∈ acts, a.isLib = true) (hr : run s acts = some s')
    (hmax : ∀ a, a.isLib = true → step s' a = none) : ∃ r, s'.main = .returned r :=
  Proofs.Life.maximal_run_returns s s' acts hc hl hr hmax

/-! ### keep-alive pings disabled (`Config.PingDelay <= 0`); a connection ends only for a reason -/

/-- `pingLoop` starts with `if c.Config.PingDelay <= 0 { return nil }`. That early return (possible exactly
    when pings are disabled and the loop has not returned yet) changes nothing but the loop's own status:
    the group is not cancelled, no error is recorded, main and the other three loops do not move. -/
theorem ping_off_does_not_end (s s' : LState) (hs : step s .pingDisabled = some s') :
    s'.groupCancelled = s.groupCancelled ∧ s'.groupErr = s.groupErr ∧ s'.parentCancelled = s.parentCancelled ∧
    s'.main = s.main ∧ s'.exec = s.exec ∧ s'.read = s.read ∧ s'.send = s.send :=
  Proofs.Life.ping_off_does_not_end s s' hs

theorem ping_off_enabled_iff (s : LState) :
    (step s .pingDisabled).isSome = true ↔ (s.pingOff = true ∧ s.ping = .running) :=
  Proofs.Life.pingDisabled_enabled_iff s

/-- With pings disabled there is no ping timeout; and no step ever changes the configuration. -/
theorem ping_off_no_timeout (s : LState) (ho : s.pingOff = true) : step s .pingTimeout = none :=
  Proofs.Life.pingTimeout_needs_pings s ho

theorem config_fixed (s s' : LState) (a : Act) (hs : step s a = some s') : s'.pingOff = s.pingOff ∧ s'.cap = s.cap :=
  Proofs.Life.config_fixed s s' a hs

/-- A connection ends only for a reason. In every reachable state (every interleaving, pings enabled or
    disabled) in which the group context is cancelled, a terminating cause has occurred in the history:
    Close() was called or a QUIT was written, the peer closed the connection, an ERROR was delivered to
    handlers, a malformed line was read, the ping loop timed out, or a socket write failed.
    (Non-vacuous: the runs below reach cancelled states, one for each single cause.) -/
theorem no_spontaneous_end (s : LState) (h : Reach s) (hc : s.groupCancelled = true) :
    s.closeRequested = true ∨ s.peerClosed = true ∨ firstError s.delivered ≠ none ∨
    s.parseErrSeen = true ∨ s.pingTimedOut = true ∨ s.writeFailed = true :=
  Proofs.Life.no_spontaneous_end h hc

/-- If Connect has returned, one of the causes holds. -/
theorem returned_has_cause (s : LState) (h : Reach s) (res : Option Err) (hr : s.main = .returned res) :
    s.closeRequested = true ∨ s.peerClosed = true ∨ firstError s.delivered ≠ none ∨
    s.parseErrSeen = true ∨ s.pingTimedOut = true ∨ s.writeFailed = true :=
  Proofs.Life.returned_has_cause h (by rw [hr]; exact fun h => MainPc.noConfusion h)

/-- Without a cause the connection is still up, in every reachable state: the group is not cancelled,
    Connect is blocked in `group.Wait()`, execLoop / readLoop / sendLoop are running, the socket is open,
    `conn` is set; pingLoop is running or — only with pings disabled — has returned nil. -/
theorem up_without_cause (s : LState) (h : Reach s)
    (h1 : s.closeRequested = false) (h2 : s.peerClosed = false) (h3 : firstError s.delivered = none)
    (h4 : s.parseErrSeen = false) (h5 : s.pingTimedOut = false) (h6 : s.writeFailed = false) :
    s.groupCancelled = false ∧ s.main = .waiting ∧ s.exec = .running ∧ s.read = .running ∧ s.send = .running ∧
    (s.ping = .running ∨ (s.pingOff = true ∧ s.ping = .exited none)) ∧ s.sockClosed = false ∧ s.connNil = false :=
  Proofs.Life.up_without_cause h h1 h2 h3 h4 h5 h6

/-- In particular with pings disabled: whatever has happened (the ping loop has returned or not), as long
    as none of the causes has occurred Connect has not returned — it is still in `group.Wait()`. -/
theorem ping_off_still_up (s : LState) (h : Reach s) (_ho : s.pingOff = true)
    (h1 : s.closeRequested = false) (h2 : s.peerClosed = false) (h3 : firstError s.delivered = none)
    (h4 : s.parseErrSeen = false) (h5 : s.pingTimedOut = false) (h6 : s.writeFailed = false) :
    s.main = .waiting ∧ s.groupCancelled = false :=
  have u := Proofs.Life.up_without_cause h h1 h2 h3 h4 h5 h6
  ⟨u.2.1, u.1⟩

/-- The three cause flags are history variables: erasing them changes neither whether an action is
    enabled nor its effect on the rest of the state; and each is written by a single action. -/
theorem cause_flags_are_history (s : LState) (a : Act) :
    (step (Proofs.Life.forgetCauses s) a).map Proofs.Life.forgetCauses = (step s a).map Proofs.Life.forgetCauses :=
  Proofs.Life.cause_flags_are_history s a

theorem cause_flags_writers (s s' : LState) (a : Act) (hs : step s a = some s') :
    (a ≠ .readParseErr → s'.parseErrSeen = s.parseErrSeen) ∧
    (a ≠ .pingTimeout → s'.pingTimedOut = s.pingTimedOut) ∧
    (a ≠ .sendFail → s'.writeFailed = s.writeFailed) :=
  Proofs.Life.cause_flags_writers s s' a hs

/-! ### non-vacuity: concrete schedules -/
def evN (n : Nat) : Ev := ⟨false, [], n⟩
def evErr : Ev := ⟨true, [0x62, 0x79, 0x65], 9⟩   -- ERROR :bye

/-- ERROR then EOF: the ERROR is what is reported, even when the read loop saw the EOF first. -/
example : (run (begin [] []) [.peerSend (evN 0), .peerSend evErr, .peerClose, .readTake, .readTake, .readEOF,
      .execTake, .execFlush, .sendCancel, .pingCancel, .mainWait, .mainTeardown, .mainDisc, .mainFinish]).map
      (fun s => (s.main, s.emitted, s.delivered.length)) =
    some (.returned (some (.errEvent [0x62, 0x79, 0x65])), [.disconnected], 2) := by decide +kernel

/-- Quit(): the server answers with ERROR and closes before sendLoop's Close() is noticed — still nil, CLOSED emitted. -/
example : (run (begin [] []) [.userQuit, .sendTake, .peerSend evErr, .peerClose, .readTake, .execTake, .readCancel,
      .pingCancel, .mainWait, .mainClosedEv, .mainTeardown, .mainDisc, .mainFinish]).map
      (fun s => (s.main, s.emitted)) =
    some (.returned none, [.closed, .disconnected]) := by decide +kernel

/-- `no_spontaneous_end` is not vacuous and no disjunct is redundant: for each cause a run that cancels
    the group with that cause alone. The list is [groupCancelled, closeRequested, peerClosed,
    an ERROR delivered, parseErrSeen, pingTimedOut, writeFailed]. -/
def causeVec (s : LState) : List Bool :=
  [s.groupCancelled, s.closeRequested, s.peerClosed, (firstError s.delivered).isSome, s.parseErrSeen, s.pingTimedOut,
    s.writeFailed]

/-- Pings disabled: the ping loop returns at once; the connection stays up and keeps working
    (nothing cancelled, Connect still waiting, no cause recorded) … -/
example : (run (begin [] [] 25 true) [.pingDisabled, .peerSend (evN 0), .readTake, .execTake]).map
      (fun s => ((s.main, s.groupCancelled, s.delivered.length), [s.ping, s.exec, s.read, s.send], causeVec s)) =
    some ((.waiting, false, 1), [.exited none, .running, .running, .running],
      [false, false, false, false, false, false, false]) := by decide +kernel

/-- … until Close(): then it winds down to nil with CLOSED, DISCONNECTED. -/
example : (run (begin [] [] 25 true) [.pingDisabled, .peerSend (evN 0), .readTake, .execTake,
      .userClose, .readCancel, .execFlush, .sendCancel, .mainWait, .mainClosedEv, .mainTeardown, .mainDisc, .mainFinish]).map
      (fun s => (s.main, s.emitted, s.closeRequested)) =
    some (.returned none, [.closed, .disconnected], true) := by decide +kernel

/-- With pings disabled neither the ticker path nor the `<-ctx.Done()` arm exists; with pings enabled
    the early return does not. -/
example : run (begin [] [] 25 true) [.pingTimeout] = none ∧ run (begin [] [] 25 true) [.userClose, .pingCancel] = none ∧
    run (begin [] []) [.pingDisabled] = none := by decide +kernel

/-- The ping loop may also get to its early return only after the group was cancelled. -/
example : (run (begin [] [] 25 true) [.userClose, .readCancel, .execFlush, .sendCancel, .pingDisabled, .mainWait,
      .mainClosedEv, .mainTeardown, .mainDisc, .mainFinish]).map (fun s => (s.main, s.emitted)) =
    some (.returned none, [.closed, .disconnected]) := by decide +kernel

/-- one run per cause -/
example : (run (begin [] []) [.userClose]).map causeVec = some [true, true, false, false, false, false, false] := by
  decide +kernel
example : (run (begin [] []) [.peerClose, .readEOF]).map causeVec = some [true, false, true, false, false, false, false] := by
  decide +kernel
example : (run (begin [] []) [.peerSend evErr, .readTake, .execTake]).map causeVec =
    some [true, false, false, true, false, false, false] := by decide +kernel
example : (run (begin [] []) [.peerSend (evN 0), .readParseErr]).map causeVec =
    some [true, false, false, false, true, false, false] := by decide +kernel
example : (run (begin [] []) [.pingTimeout]).map causeVec = some [true, false, false, false, false, true, false] := by
  decide +kernel
/-- (a write can only fail after the peer closed: the peer's close is a cause as well here) -/
example : (run (begin [] []) [.userSend 1, .peerClose, .sendFail]).map causeVec =
    some [true, false, true, false, false, false, true] := by decide +kernel

end Girc.Props.C07
